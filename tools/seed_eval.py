#!/venv/bin/python
"""Confirm a seeded change and run the registered checks against it.
usage: seed_eval.py <Cxx> <mutant_dir> <name> [--skip-confirm] [--checks C07,C02]"""
import sys, os, subprocess, json, shutil, time
VERIF = os.path.dirname(os.path.dirname(os.path.abspath(__file__)))
PY = "/venv/bin/python"

def sh(cmd, cwd=None, env=None, timeout=3600):
    e = dict(os.environ); e.update(env or {})
    p = subprocess.run(cmd, shell=True, cwd=cwd, capture_output=True, text=True, env=e, timeout=timeout)
    out = "\n".join(l for l in (p.stdout + p.stderr).split("\n") if "conda.cli" not in l)
    return p.returncode, out

def main():
    pid, mdir, name = sys.argv[1], os.path.abspath(sys.argv[2]), sys.argv[3]
    checks = [pid]
    for a in sys.argv[4:]:
        if a.startswith("--checks"):
            checks = a.split("=")[1].split(",")
    wt = os.path.dirname(os.path.dirname(mdir))
    dst = os.path.join(VERIF, "seeded", f"{pid}-{name}")
    os.makedirs(dst, exist_ok=True)
    for f in ("patch.diff", "demo.py", "notes.md"):
        if os.path.exists(os.path.join(mdir, f)):
            shutil.copy(os.path.join(mdir, f), os.path.join(dst, f))
    meta = {"property": pid, "name": name, "ran": []}
    nb = {"NUMBA_CACHE_DIR": os.path.join(wt, ".nbcache")}
    if "--skip-confirm" not in sys.argv:
        import fcntl
        lockf = open(os.path.join(wt, ".confirm.lock"), "w"); fcntl.flock(lockf, fcntl.LOCK_EX)   # one confirmation per worktree at a time
        sh("git checkout -- . ", cwd=wt); shutil.rmtree(nb["NUMBA_CACHE_DIR"], ignore_errors=True)
        rc0, out0 = sh(f"{PY} {mdir}/demo.py", cwd=wt, env=nb)
        rc, out = sh(f"git apply {mdir}/patch.diff", cwd=wt)
        assert rc == 0, out
        shutil.rmtree(nb["NUMBA_CACHE_DIR"], ignore_errors=True)
        rct, outt = sh(f"{PY} -m pytest -q -p no:cacheprovider --timeout=900 test 2>&1 | tail -3", cwd=wt, env=nb)
        rc1, out1 = sh(f"{PY} {mdir}/demo.py", cwd=wt, env=nb)
        sh("git checkout -- .", cwd=wt); shutil.rmtree(nb["NUMBA_CACHE_DIR"], ignore_errors=True)
        meta["confirm"] = {"demo_clean_exit": rc0, "demo_mutant_exit": rc1, "pytest_tail": outt.strip().split("\n")[-1], "demo_mutant_tail": out1.strip().split("\n")[-3:]}
        print("confirm:", meta["confirm"]["demo_clean_exit"], meta["confirm"]["demo_mutant_exit"], meta["confirm"]["pytest_tail"])
        meta["ran"] += [f"cd {wt} && python {mdir}/demo.py (clean) -> {rc0}", "git apply patch.diff; pytest test -> " + meta["confirm"]["pytest_tail"], f"demo (mutant) -> {rc1}"]
        fcntl.flock(lockf, fcntl.LOCK_UN); lockf.close()
    # run the checks against /repo with the patch — or, with --private=<k>, from a private copy of /verif against a private worktree of
    # /repo (so that several evaluations, or an evaluation and a sweep on /repo itself, can run side by side)
    priv = [a.split("=")[1] for a in sys.argv[4:] if a.startswith("--private")]
    if priv:
        vw, rw = f"/tmp/verif_e{priv[0]}", f"/tmp/repo_e{priv[0]}"
        sh(f"rm -rf {vw}; git -C /repo worktree remove --force {rw}; rm -rf {rw}")
        sh(f"rsync -a --exclude replays --exclude .git {VERIF}/ {vw}/")
        rc, out = sh(f"git -C /repo worktree add --detach {rw} HEAD"); assert rc == 0, out
        rc, out = sh(f"git -C {rw} apply {dst}/patch.diff"); assert rc == 0, out
        res = {}
        try:
            for c in checks:
                for tier in ("quick", "thorough"):
                    t0 = time.time()
                    rcx, outx = sh(f"EBISIM_REPO={rw} {PY} tools/check.py {c} --tier {tier}", cwd=vw)
                    lines = [l for l in outx.split("\n") if l.startswith("VIOLATION") or l.startswith("  what") or l.startswith("  broken") or " -> exit" in l]
                    res.setdefault(c, {}).update({f"{tier}_exit": rcx, f"{tier}_s": round(time.time() - t0, 1), f"{tier}_lines": lines[:8]})
                    print(c, tier, "->", rcx, lines[:3], flush=True)
                    if rcx != 0: break
        finally:
            sh(f"git -C /repo worktree remove --force {rw}; rm -rf {vw} {rw}")
        meta["checks"] = res
        meta["ran"].append("private copy of /verif + private worktree of /repo with the patch; tools/check.py <id> --tier quick [thorough if quick passed]")
        json.dump(meta, open(os.path.join(dst, "meta.json"), "w"), indent=1)
        return
    rc, out = sh(f"git -C /repo apply {dst}/patch.diff")
    assert rc == 0, out
    res = {}
    try:
        for c in checks:
            t0 = time.time()
            rcq, outq = sh(f"{PY} tools/check.py {c} --tier quick", cwd=VERIF)
            lines = [l for l in outq.split("\n") if l.startswith("VIOLATION") or l.startswith("  what") or l.startswith("  broken") or " -> exit" in l]
            res[c] = {"quick_exit": rcq, "quick_s": round(time.time() - t0, 1), "quick_lines": lines[:8]}
            print(c, "quick ->", rcq, lines[:4])
            if rcq == 0:
                t0 = time.time()
                rct, outt = sh(f"{PY} tools/check.py {c} --tier thorough", cwd=VERIF)
                lines = [l for l in outt.split("\n") if l.startswith("VIOLATION") or l.startswith("  what") or l.startswith("  broken") or " -> exit" in l]
                res[c].update({"thorough_exit": rct, "thorough_s": round(time.time() - t0, 1), "thorough_lines": lines[:8]})
                print(c, "thorough ->", rct, lines[:4])
    finally:
        sh("git -C /repo checkout -- .")
        # evidence written while /repo was patched is not evidence about the tree: restore the committed files
        sh(f"git -C {VERIF} checkout -- evidence")
    meta["checks"] = res
    meta["ran"].append("git -C /repo apply patch.diff; tools/check.py <id> --tier quick [thorough if quick passed]; git -C /repo checkout -- .")
    json.dump(meta, open(os.path.join(dst, "meta.json"), "w"), indent=1)

if __name__ == "__main__":
    main()
