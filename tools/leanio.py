"""Python end of the line protocol to the Lean driver (floats travel as IEEE-754 bit patterns)."""
import os, struct, subprocess, numpy as np

HERE = os.path.dirname(os.path.abspath(__file__))
LEAN = os.path.join(os.path.dirname(HERE), "lean")
EXE = os.path.join(LEAN, ".lake", "build", "bin", "driver")


def bits(x) -> str:
    return str(struct.unpack("<Q", struct.pack("<d", float(x)))[0])


def unbits(s: str) -> float:
    return struct.unpack("<d", struct.pack("<Q", int(s)))[0]


def farr(v) -> str:
    v = np.ascontiguousarray(np.asarray(v, dtype=np.float64).ravel())
    u = v.view(np.uint64)
    return f"{v.size} " + " ".join(map(str, u.tolist())) if v.size else "0"


def narr(v) -> str:
    v = [int(x) for x in v]
    return f"{len(v)} " + " ".join(map(str, v)) if v else "0"


def dec(tokens) -> np.ndarray:
    if len(tokens) == 0:
        return np.zeros(0)
    return np.array([int(t) for t in tokens], dtype=np.uint64).view(np.float64)


class Driver:
    """persistent driver process; `ask(line)` returns the answer line split into tokens"""

    def __init__(self):
        if not os.path.exists(EXE):
            raise RuntimeError("driver not built: " + EXE)
        self.p = subprocess.Popen([EXE], stdin=subprocess.PIPE, stdout=subprocess.PIPE, text=True, bufsize=1 << 20)
        self.n = 0

    def ask(self, line: str):
        self.p.stdin.write(line + "\n")
        self.p.stdin.flush()
        out = self.p.stdout.readline()
        if not out:
            raise RuntimeError("driver died on: " + line[:200])
        self.n += 1
        return out.split()

    def ask_many(self, lines):
        """pipelined: write all, then read all (driver flushes per line)"""
        import threading
        res = []
        def writer():
            for l in lines:
                self.p.stdin.write(l + "\n")
            self.p.stdin.flush()
        t = threading.Thread(target=writer)
        t.start()
        for _ in lines:
            out = self.p.stdout.readline()
            if not out:
                raise RuntimeError("driver died")
            res.append(out.split())
        t.join()
        self.n += len(lines)
        return res

    def floats(self, line: str) -> np.ndarray:
        t = self.ask(line)
        if t and t[0] == "bad-op":
            raise RuntimeError("driver: bad-op for " + line[:120])
        return dec(t)

    def close(self):
        try:
            self.p.stdin.close()
            self.p.wait(timeout=5)
        except Exception:
            self.p.kill()


def ulp_diff(a, b) -> np.ndarray:
    """distance in units in the last place between two float arrays (same shape); nan==nan -> 0"""
    a = np.asarray(a, dtype=np.float64); b = np.asarray(b, dtype=np.float64)
    ia = a.view(np.int64).copy(); ib = b.view(np.int64).copy()
    ia = np.where(ia < 0, np.int64(-2 ** 63) - ia, ia)
    ib = np.where(ib < 0, np.int64(-2 ** 63) - ib, ib)
    d = np.abs(ia.astype(np.float64) - ib.astype(np.float64))
    both_nan = np.isnan(a) & np.isnan(b)
    return np.where(both_nan, 0.0, d)
