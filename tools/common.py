"""Shared machinery of the checks: context, build, audit, evidence, known findings, verdict."""
import os, sys, json, time, hashlib, subprocess, fcntl, glob, re, shutil

HERE = os.path.dirname(os.path.abspath(__file__))
VERIF = os.path.dirname(HERE)
LEAN = os.path.join(VERIF, "lean")
REPO = os.environ.get("EBISIM_REPO", "/repo")
CACHE = os.path.join(VERIF, ".cache")
ALLOWED_AXIOMS = {"propext", "Classical.choice", "Quot.sound"}
FORBIDDEN = re.compile(r"sorry|\badmit\b|^axiom |native_decide|bv_decide|implemented_by|unsafe |maxHeartbeats 0|ofReduceBool")

TRUSTED_BASE = [
    "Lean 4.33 kernel (thorough tier: leanchecker re-check of the compiled proof modules)",
    "Mathlib v4.33 as checked library; axioms propext, Classical.choice, Quot.sound only (audited by #print axioms on every run)",
    "tools/translate.py: Python AST/tables -> Lean text (validated on every run by evaluating the generated definitions against the implementation)",
    "correspondence harness + driver I/O (IEEE-754 bit-pattern transport)",
    "IEEE-754 vs real arithmetic: rounding/overflow/underflow are outside the theorems",
    "scipy solve_ivp/interp1d, numpy broadcasting, numba/LLVM code generation, thread/process pools: not modelled (parameters of the model)",
]


def source_hash():
    h = hashlib.sha256()
    for p in sorted(glob.glob(os.path.join(REPO, "ebisim", "**", "*.py"), recursive=True)):
        h.update(p.encode()); h.update(open(p, "rb").read())
    for p in sorted(glob.glob(os.path.join(REPO, "ebisim", "resources", "drdata", "*.csv"))):
        h.update(p.encode()); h.update(open(p, "rb").read())
    return h.hexdigest()[:20]


def setup_numba_cache():
    """numba's cache=True does not notice edits in callee modules: key the cache on all sources"""
    sh = source_hash()
    d = os.path.join(CACHE, "numba", sh)
    os.makedirs(d, exist_ok=True)
    os.environ["NUMBA_CACHE_DIR"] = d
    # keep the clean-tree cache and the two most recent others
    try:
        ds = sorted(glob.glob(os.path.join(CACHE, "numba", "*")), key=os.path.getmtime)
        for old in ds[:-4]:
            if old != d:
                shutil.rmtree(old, ignore_errors=True)
        os.utime(d)
    except Exception:
        pass
    return sh


class Lock:
    def __init__(self, name="build"):
        os.makedirs(CACHE, exist_ok=True)
        self.path = os.path.join(CACHE, name + ".lock")
    def __enter__(self):
        self.f = open(self.path, "w")
        fcntl.flock(self.f, fcntl.LOCK_EX)
        return self
    def __exit__(self, *a):
        fcntl.flock(self.f, fcntl.LOCK_UN)
        self.f.close()


def run(cmd, cwd=None, timeout=None, env=None):
    t0 = time.time()
    p = subprocess.run(cmd, cwd=cwd, capture_output=True, text=True, timeout=timeout, env=env)
    out = "\n".join(l for l in (p.stdout + p.stderr).split("\n") if "conda.cli.condarc" not in l)
    return p.returncode, out, time.time() - t0


def translate():
    """regenerate Gen/*.lean from the working tree; returns (ok, message)"""
    rc, out, _ = run([sys.executable, os.path.join(HERE, "translate.py"), REPO])
    return rc == 0, out.strip()


def lake_build(targets, timeout=3000):
    rc, out, dt = run(["lake", "build"] + targets, cwd=LEAN, timeout=timeout)
    return rc == 0, out, dt


def lean_errors(out):
    """compact list of `error:` lines of a lake/lean output"""
    errs = []
    lines = out.split("\n")
    for i, l in enumerate(lines):
        if "error:" in l or l.startswith("error"):
            errs.append("\n".join(lines[i:i + 6])[:1200])
    return errs[:8]


def audit(pid):
    """run Audit/<pid>.lean: returns dict theorem -> list of axioms, plus raw text.
    Also checks every `theorem` of Props/<pid>.lean is audited and greps for forbidden tokens."""
    src = open(os.path.join(LEAN, "EbisimProofs", "Props", f"{pid}.lean")).read()
    ns = re.search(r"^namespace (\S+)", src, re.M)
    ns = ns.group(1) + "." if ns else ""
    declared = [ns + m.group(1) for m in re.finditer(r"^theorem (\S+)", src, re.M)]
    # the audit file lists every theorem of the property file (regenerated, so none can be skipped)
    f = os.path.join("EbisimProofs", "Audit", f"{pid}.lean")
    txt = f"import EbisimProofs.Props.{pid}\n" + "".join(f"#print axioms {d}\n" for d in declared)
    fp = os.path.join(LEAN, f)
    if not os.path.exists(fp) or open(fp).read() != txt:
        open(fp, "w").write(txt)
    rc, out, dt = run(["lake", "env", "lean", f], cwd=LEAN, timeout=1200)
    res = {}
    for m in re.finditer(r"'(\S+)' depends on axioms: \[([^\]]*)\]", out.replace("\n ", " ").replace("\n", " ")):
        res[m.group(1)] = [a.strip() for a in m.group(2).split(",") if a.strip()]
    for m in re.finditer(r"'(\S+)' does not depend on any axioms", out):
        res[m.group(1)] = []
    problems = []
    if rc != 0:
        problems.append("audit file failed: " + "; ".join(lean_errors(out))[:600])
    for d in declared:
        if d not in res:
            problems.append(f"theorem {d} is not audited")
    for th, ax in res.items():
        bad = [a for a in ax if a not in ALLOWED_AXIOMS]
        if bad:
            problems.append(f"{th} depends on {bad}")
    # forbidden tokens in all proof sources and models (comments stripped)
    for p in glob.glob(os.path.join(LEAN, "EbisimProofs", "**", "*.lean"), recursive=True) + \
            glob.glob(os.path.join(LEAN, "EbisimModel", "Model", "*.lean")) + [os.path.join(LEAN, "EbisimModel", "Num.lean")]:
        txt = open(p).read()
        txt = re.sub(r"/-.*?-/", "", txt, flags=re.S)
        for ln in txt.split("\n"):
            ln = ln.split("--")[0]
            if FORBIDDEN.search(ln):
                problems.append(f"forbidden token in {os.path.relpath(p, LEAN)}: {ln.strip()[:80]}")
    return res, declared, problems, out


def load_known():
    p = os.path.join(VERIF, "known_findings.json")
    if not os.path.exists(p):
        return []
    return json.load(open(p)).get("findings", [])


class Ctx:
    def __init__(self, pid, tier, level="proof"):
        self.pid, self.tier, self.level = pid, tier, level
        self.seed = int(os.environ.get("VERIF_SEED", "0"))
        import numpy as np
        self.rng = np.random.default_rng([self.seed, int(pid[1:])])
        self.t0 = time.time()
        self.failures = []      # broken proof obligations / correspondences / monitors
        self.stats = {}
        self.samples = []
        self.evaluations = 0
        self.nontrivial = set()
        self.cov = {}
        self._driver = None
        self.known = [k for k in load_known() if k.get("property") == pid and k.get("status") == "known"]
        self.known_hit = []
        self.monitored = []
        self.exhaustive = None
        self.thorough = tier == "thorough"

    @property
    def driver(self):
        if self._driver is None:
            import leanio
            self._driver = leanio.Driver()
        return self._driver

    def count(self, key, n=1):
        self.stats[key] = self.stats.get(key, 0) + n

    def sample(self, s, limit=6):
        if len(self.samples) < limit:
            self.samples.append(s)

    def seen(self, key):
        """register a distinct non-trivial case (hashable key)"""
        self.nontrivial.add(key)

    def fail(self, kind, what, inp=None, **kw):
        """kind in {'proof','translator','correspondence','monitor'}"""
        d = {"kind": kind, "what": what, "input": inp}
        d.update(kw)
        self.failures.append(d)
        return d

    def close(self):
        if self._driver is not None:
            self._driver.close()


def jsonable(o):
    import numpy as np
    if isinstance(o, dict):
        return {str(k): jsonable(v) for k, v in o.items()}
    if isinstance(o, (list, tuple, set)):
        return [jsonable(v) for v in o]
    if isinstance(o, np.ndarray):
        return jsonable(o.tolist())
    if isinstance(o, (np.integer,)):
        return int(o)
    if isinstance(o, (np.floating,)):
        return float(o)
    if isinstance(o, (np.bool_,)):
        return bool(o)
    if isinstance(o, float):
        if o != o or o in (float("inf"), float("-inf")):
            return repr(o)
        return o
    if isinstance(o, (str, int, bool)) or o is None:
        return o
    return repr(o)


def compare(a, b, rtol=1e-11, scale=None):
    """tolerance rule of DESIGN §3.3: |a-b| <= rtol*max(|a|,|b|) + rtol*S. Returns (ok, worst_rel, idx)"""
    import numpy as np
    a = np.asarray(a, dtype=float); b = np.asarray(b, dtype=float)
    if a.shape != b.shape:
        return False, float("inf"), -1
    if a.size == 0:
        return True, 0.0, -1
    nan_mis = np.isnan(a) != np.isnan(b)
    inf_mis = (np.isinf(a) | np.isinf(b)) & (a != b) & ~(np.isnan(a) | np.isnan(b))
    fin = np.isfinite(a) & np.isfinite(b)
    den = np.maximum(np.abs(a), np.abs(b))
    if scale is not None:
        den = den + np.abs(np.asarray(scale, dtype=float))
    with np.errstate(all="ignore"):
        err = np.where(fin & (den > 0), np.abs(a - b) / np.where(den > 0, den, 1), 0.0)
    err = np.where(nan_mis | inf_mis, np.inf, err)
    i = int(np.argmax(err))
    w = float(err.ravel()[i])
    return w <= rtol, w, i


class ImplementationError(Exception):
    """the implementation raised on an input inside the property's domain"""
    def __init__(self, msg, inp=None):
        super().__init__(msg)
        self.inp = inp
