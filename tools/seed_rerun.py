#!/venv/bin/python
"""Re-run the quick tier of the registered checks against every recorded seeded change
(seeded/<id>-<name>/patch.diff) and write seeded/STATUS.json + seeded/STATUS.md.
/repo must be clean and idle; every patch is reverted straight after its run.
usage: seed_rerun.py [name-prefix ...]"""
import sys, os, json, glob, subprocess, time
VERIF = os.path.dirname(os.path.dirname(os.path.abspath(__file__)))
PY = "/venv/bin/python"


def sh(cmd, cwd=None, timeout=3600):
    p = subprocess.run(cmd, shell=True, cwd=cwd, capture_output=True, text=True, timeout=timeout)
    return p.returncode, "\n".join(l for l in (p.stdout + p.stderr).split("\n") if "conda.cli" not in l)


def main():
    pref = sys.argv[1:]
    rc, out = sh("git -C /repo status --porcelain")
    assert out.strip() == "", "/repo is not clean: " + out
    status_p = os.path.join(VERIF, "seeded", "STATUS.json")
    status = json.load(open(status_p)) if os.path.exists(status_p) else {}
    for d in sorted(glob.glob(os.path.join(VERIF, "seeded", "C*"))):
        name = os.path.basename(d)
        if pref and not any(name.startswith(p) for p in pref): continue
        meta = json.load(open(os.path.join(d, "meta.json"))) if os.path.exists(os.path.join(d, "meta.json")) else {}
        checks = list(meta.get("checks", {}).keys()) or [name.split("-")[0]]
        rc, out = sh(f"git -C /repo apply {d}/patch.diff")
        if rc != 0:
            status[name] = {"error": "patch does not apply: " + out[-200:]}; continue
        res = {}
        try:
            for c in checks:
                t0 = time.time()
                rcq, outq = sh(f"{PY} tools/check.py {c} --tier quick", cwd=VERIF)
                lines = [l for l in outq.split("\n") if l.startswith("VIOLATION") or l.startswith("  what") or l.startswith("  broken")]
                res[c] = {"quick_exit": rcq, "s": round(time.time() - t0, 1), "with_input": any(l.startswith("VIOLATION") and "no-failing-input-found" not in l for l in lines),
                          "lines": [l[:300] for l in lines[:4]]}
                print(name, c, "->", rcq, "input" if res[c]["with_input"] else "no-input", flush=True)
        finally:
            sh("git -C /repo checkout -- .")
        status[name] = {"first_evaluation": {c: {k: v for k, v in r.items() if k.endswith("_exit")} for c, r in meta.get("checks", {}).items()}, "now": res}
        json.dump(status, open(status_p, "w"), indent=1)
    # markdown table
    rows = ["| seeded change | first evaluation (quick / thorough) | current quick tier |", "|---|---|---|"]
    for name, s in sorted(status.items()):
        if "error" in s: rows.append(f"| {name} | - | {s['error']} |"); continue
        fe = "; ".join(f"{c}: {r.get('quick_exit')}/{r.get('thorough_exit', '-')}" for c, r in s["first_evaluation"].items())
        now = "; ".join(f"{c}: exit {r['quick_exit']} ({'failing input' if r['with_input'] else ('no-failing-input-found' if r['quick_exit'] == 1 else 'missed')})" for c, r in s["now"].items())
        rows.append(f"| {name} | {fe} | {now} |")
    open(os.path.join(VERIF, "seeded", "STATUS.md"), "w").write("\n".join(rows) + "\n")
    rc, out = sh("git -C /repo status --porcelain")
    assert out.strip() == "", "/repo left dirty: " + out
    # evidence written while /repo was patched is not evidence about the tree: restore the committed files
    sh(f"git -C {VERIF} checkout -- evidence")


if __name__ == "__main__":
    main()
