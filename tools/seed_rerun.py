#!/venv/bin/python
"""Re-run the quick tier of the registered checks against every recorded seeded change
(seeded/<id>-<name>/patch.diff) and write seeded/STATUS.json + seeded/STATUS.md.
/repo must be clean and idle; every patch is reverted straight after its run.
usage: seed_rerun.py [name-prefix ...]"""
import sys, os, json, glob, subprocess, time
VERIF = os.path.dirname(os.path.dirname(os.path.abspath(__file__)))
PY = "/venv/bin/python"


def sh(cmd, cwd=None, timeout=3600):
    p = subprocess.run(cmd, shell=True, cwd=cwd, capture_output=True, text=True, timeout=timeout)
    return p.returncode, "\n".join(l for l in (p.stdout + p.stderr).split("\n") if "conda.cli" not in l)


def worker(i, names, out_p):
    """one parallel worker: private copy of /verif (with its build output) and a private worktree of /repo, so that regenerated model
    files, the driver and numba caches of different seeded changes never meet"""
    vw, rw = f"/tmp/verif_w{i}", f"/tmp/repo_w{i}"
    sh(f"rm -rf {vw}; git -C /repo worktree remove --force {rw}; rm -rf {rw}")
    sh(f"rsync -a --exclude replays --exclude .git {VERIF}/ {vw}/")
    rc, out = sh(f"git -C /repo worktree add --detach {rw} HEAD")
    res = {}
    for name in names:
        d = os.path.join(VERIF, "seeded", name)
        meta = json.load(open(os.path.join(d, "meta.json"))) if os.path.exists(os.path.join(d, "meta.json")) else {}
        checks = list(meta.get("checks", {}).keys()) or [name.split("-")[0]]
        rc, out = sh(f"git -C {rw} apply {d}/patch.diff")
        if rc != 0:
            res[name] = {"error": "patch does not apply: " + out[-200:]}; continue
        r_ = {}
        try:
            for c in checks:
                t0 = time.time()
                rcq, outq = sh(f"EBISIM_REPO={rw} {PY} tools/check.py {c} --tier quick", cwd=vw)
                lines = [l for l in outq.split("\n") if l.startswith("VIOLATION") or l.startswith("  what") or l.startswith("  broken")]
                r_[c] = {"quick_exit": rcq, "s": round(time.time() - t0, 1), "with_input": any(l.startswith("VIOLATION") and "no-failing-input-found" not in l for l in lines),
                         "lines": [l[:300] for l in lines[:4]]}
                print(name, c, "->", rcq, "input" if r_[c]["with_input"] else "no-input", flush=True)
        finally:
            sh(f"git -C {rw} checkout -- .")
        res[name] = {"first_evaluation": {c: {k: v for k, v in r.items() if k.endswith("_exit")} for c, r in meta.get("checks", {}).items()}, "now": r_}
        json.dump(res, open(out_p, "w"), indent=1)
    sh(f"git -C /repo worktree remove --force {rw}; rm -rf {vw} {rw}")


def write_md(status):
    rows = ["| seeded change | first evaluation (quick / thorough) | current quick tier |", "|---|---|---|"]
    for name, s in sorted(status.items()):
        if "error" in s: rows.append(f"| {name} | - | {s['error']} |"); continue
        fe = "; ".join(f"{c}: {r.get('quick_exit')}/{r.get('thorough_exit', '-')}" for c, r in s["first_evaluation"].items())
        now = "; ".join(f"{c}: exit {r['quick_exit']} ({'failing input' if r['with_input'] else ('no-failing-input-found' if r['quick_exit'] == 1 else 'missed')})" for c, r in s["now"].items())
        rows.append(f"| {name} | {fe} | {now} |")
    open(os.path.join(VERIF, "seeded", "STATUS.md"), "w").write("\n".join(rows) + "\n")


def main():
    if "--workers" in sys.argv:
        # parallel mode: seed_rerun.py --workers N [name-prefix ...]   (the checks run from private copies; /repo itself is never patched)
        k = sys.argv.index("--workers"); n = int(sys.argv[k + 1]); pref = [a for j, a in enumerate(sys.argv[1:], 1) if j not in (k, k + 1)]
        names = [os.path.basename(d) for d in sorted(glob.glob(os.path.join(VERIF, "seeded", "C*")))]
        names = [x for x in names if not pref or any(x.startswith(p) for p in pref)]
        import multiprocessing as mp
        procs = []
        for i in range(n):
            pr = mp.Process(target=worker, args=(i, names[i::n], f"/tmp/seed_rerun_{i}.json")); pr.start(); procs.append(pr)
        for pr in procs: pr.join()
        status_p = os.path.join(VERIF, "seeded", "STATUS.json")
        status = json.load(open(status_p)) if os.path.exists(status_p) else {}
        for i in range(n):
            if os.path.exists(f"/tmp/seed_rerun_{i}.json"):
                status.update(json.load(open(f"/tmp/seed_rerun_{i}.json"))); os.remove(f"/tmp/seed_rerun_{i}.json")
        json.dump(status, open(status_p, "w"), indent=1)
        write_md(status)
        return
    pref = sys.argv[1:]
    rc, out = sh("git -C /repo status --porcelain")
    assert out.strip() == "", "/repo is not clean: " + out
    status_p = os.path.join(VERIF, "seeded", "STATUS.json")
    status = json.load(open(status_p)) if os.path.exists(status_p) else {}
    for d in sorted(glob.glob(os.path.join(VERIF, "seeded", "C*"))):
        name = os.path.basename(d)
        if pref and not any(name.startswith(p) for p in pref): continue
        meta = json.load(open(os.path.join(d, "meta.json"))) if os.path.exists(os.path.join(d, "meta.json")) else {}
        checks = list(meta.get("checks", {}).keys()) or [name.split("-")[0]]
        rc, out = sh(f"git -C /repo apply {d}/patch.diff")
        if rc != 0:
            status[name] = {"error": "patch does not apply: " + out[-200:]}; continue
        res = {}
        try:
            for c in checks:
                t0 = time.time()
                rcq, outq = sh(f"{PY} tools/check.py {c} --tier quick", cwd=VERIF)
                lines = [l for l in outq.split("\n") if l.startswith("VIOLATION") or l.startswith("  what") or l.startswith("  broken")]
                res[c] = {"quick_exit": rcq, "s": round(time.time() - t0, 1), "with_input": any(l.startswith("VIOLATION") and "no-failing-input-found" not in l for l in lines),
                          "lines": [l[:300] for l in lines[:4]]}
                print(name, c, "->", rcq, "input" if res[c]["with_input"] else "no-input", flush=True)
        finally:
            sh("git -C /repo checkout -- .")
        status[name] = {"first_evaluation": {c: {k: v for k, v in r.items() if k.endswith("_exit")} for c, r in meta.get("checks", {}).items()}, "now": res}
        json.dump(status, open(status_p, "w"), indent=1)
    # markdown table
    rows = ["| seeded change | first evaluation (quick / thorough) | current quick tier |", "|---|---|---|"]
    for name, s in sorted(status.items()):
        if "error" in s: rows.append(f"| {name} | - | {s['error']} |"); continue
        fe = "; ".join(f"{c}: {r.get('quick_exit')}/{r.get('thorough_exit', '-')}" for c, r in s["first_evaluation"].items())
        now = "; ".join(f"{c}: exit {r['quick_exit']} ({'failing input' if r['with_input'] else ('no-failing-input-found' if r['quick_exit'] == 1 else 'missed')})" for c, r in s["now"].items())
        rows.append(f"| {name} | {fe} | {now} |")
    open(os.path.join(VERIF, "seeded", "STATUS.md"), "w").write("\n".join(rows) + "\n")
    rc, out = sh("git -C /repo status --porcelain")
    assert out.strip() == "", "/repo left dirty: " + out
    # evidence written while /repo was patched is not evidence about the tree: restore the committed files
    sh(f"git -C {VERIF} checkout -- evidence")


if __name__ == "__main__":
    main()
