"""compile the numba kernels once into the content-keyed cache"""
import sys, os
sys.path.insert(0, os.path.dirname(os.path.abspath(__file__)))
import common
common.setup_numba_cache()
import numpy as np, ebisim
from ebisim.simulation import Device
import ebisim.simulation._radial_dist as rd
r = np.linspace(0, 1e-2, 20)
rd.radial_potential_uniform_grid(r, -1e-3 * np.ones(20)); rd.radial_potential_nonuniform_grid(r, -1e-3 * np.ones(20))
try:
    d = Device.get(current=0.2, e_kin=5000., r_e=1e-4, v_ax=100., b_ax=2., r_dt=5e-3, length=0.8)
    from ebisim.simulation import advanced_simulation
    res = advanced_simulation(d, [ebisim.Element.get_ions("C", 1e6, 5.0, 1)], t_max=1e-6, rates=True, verbose=False)
    ebisim.basic_simulation(ebisim.get_element("Ar"), 100., 5000., 0.01, dr_fwhm=15.)
except Exception as e:
    print("warm-up incomplete:", repr(e)[:300])
