#!/venv/bin/python
"""writes MANIFEST.json from the registry below (keeps it valid and in one place)"""
import json, os
HERE = os.path.dirname(os.path.abspath(__file__)); VERIF = os.path.dirname(HERE)
PY = "/venv/bin/python"
NOTE = ("Trusted: Lean 4.33 kernel + Mathlib (axioms propext/Classical.choice/Quot.sound only, audited every run); "
        "tools/translate.py and the correspondence harness (validated every run against the implementation); IEEE-754 rounding, "
        "scipy/numba/numpy internals and thread/process pools are outside the theorems (see DESIGN §3.7).")
CLAIMED = {
 "C12": ("proof", "Theorems over ℝ for every system size/grid: Thomas solver correct on strictly diagonally dominant systems, interior FD rows annihilate constants and give ∇²r²=4 exactly, uniform=non-uniform on uniform grids, wall potential exactly 0 for every charge, linearity in the charge. Model tied to the code by bit-exact correspondence (≤4 ulp) of tridiagonal_matrix_algorithm, fd_system_*, radial_potential_*; Gauss-law and convergence-order clauses are monitored numerically, not proved.",
         "§4 C12", "Lean theorems on a hand model + bit-exact differential correspondence"),

 "C15": ("proof", "The Lean definitions of all eleven plasma kernels are regenerated from plasma.py on every run; 28 theorems over ℝ: each generated definition equals its documented (NRL/Spitzer) expression, clog_ii symmetric, pairwise heat exchange conserves energy including all clamped cases, heat flows hot→cold, rates/heating/Coulomb-log non-negative and zero for neutrals / low density, v_e in (0,c) and strictly increasing, escape rate non-negative, antitone, constant below the clamp. Generated definitions are validated against the compiled kernels (1e-11 relative, all reachable control-flow paths, scalar/array/broadcast shapes).",
         "§4 C15", "Lean theorems on definitions generated from the source + differential validation of the translator"),
 "C16": ("proof", "Core-Lean theorems for all n_cols and n_threads>=1: chunks cover 0..n-1 exactly once in order, are non-empty, contiguous, at most n_threads, sizes differ by <=1; threaded block evaluation = column-wise evaluation for every rhs; scan through an order-preserving map = sequential. Model tied to _multithreading_indices exhaustively (1..16 x 1..400) and to _chunked_adv_rhs bit-exactly. PARTIAL: real thread/process interleavings and fresh-process repetition are runtime behaviour, exercised by bit-exact monitors, not proved.",
         "§4 C16", "Lean theorems (bookkeeping, all sizes) + exhaustive correspondence + bit-exact runtime monitors"),

 "C07": ("proof", "Theorems over ℝ about the hand model of eixs_vec over tables regenerated from the source each run: for every Z in 1..105, cs<Z, every E: entry >= 0, exactly 0 at and below the smallest binding energy of the charge state, > 0 above, bare nucleus 0, Z+1 entries; coefficient lookup rule stated outright; table facts (occupied => bound, 0<a, 0<=b<1, 0<=c, no KeyError) decided by the kernel over all 5565 rows x 30 shells. Model tied to the code by exhaustive bit-exact comparison of tables and Lotz coefficient arrays (105 elements) and by eixs_vec vs model at thresholds +-1ulp and on a log grid.",
         "§4 C07", "Lean theorems (analytic + decide +kernel table facts) on generated tables + bit-exact correspondence"),
 "C08": ("proof", "Theorems: precomputed (Z_eff, n_eff) equal the documented (Z+q)/2 and n0+(1-w)-0.3 with n0 the highest occupied principal shell for all 105 elements and charge states (table fact 1<=n0, occ<=2n0^2 by kernel), n_eff>=0.7; entry q>=1 equals the Kim-Pratt expression, >0 for E>0, strictly decreasing in E; neutral entry exactly 0. Correspondence: rr_z_eff/rr_n_0_eff bit-exact, rrxs_vec to 1e-11.",
         "§4 C08", "Lean theorems on hand model over generated tables + correspondence"),
 "C09": ("proof", "Generated normpdf = documented pdf; integral over ℝ of the per-charge-state cross section = tabulated strength sum x 1e-24 x kappa with kappa=sqrt(pi/PI), |kappa-1|<1e-15 (the package's PI is a 16-digit literal), independent of width; maximum only at the resonance; half maximum at mu±sigma*sqrt(2ln2); |2sqrt(2ln2)/2.35482-1|<1e-7; accumulation loop = filtered sum; non-negative; neutral entry 0 and only charge states 1..Z assigned (kernel-decided over all 12012 rows); identically zero without data (14 elements). Correspondence: tables exact, normpdf and drxs_vec to 1e-11; quadrature monitors for strength and FWHM.",
         "§4 C09", "Lean theorems (Mathlib Gaussian integral) on generated + hand model, exhaustive table facts, correspondence"),

 "C01": ("proof", "Theorems: exp(tJ)N0 starts at N0 and satisfies dN/dt = JN for every t and every matrix J (Mathlib hasDerivAt_exp_smul_const'); continuation exp((s+t)J) = exp(tJ)exp(sJ); k-fold current for t/k; unit conversion j*1e4/e; default start vector, DR iff non-zero width, CNI row; the Jacobian/start vector/time span/method handed to the solver by the model equal the documented matrix (bridged list model -> Matrix for every Z<=105). Correspondence: scipy.integrate.solve_ivp wrapped from outside; captured jac/fun/y0/t_span/kwargs/result arrays vs model over elements x energies (incl. threshold neighbours) x j x DR widths x CNI x start vectors x methods. The integrator itself is outside the model: returned abundances vs expm, two-run continuation and current scaling are monitored with tight tolerances.",
         "§4 C01", "Lean theorems (matrix exponential) + captured-call correspondence; integrator monitored"),
 "C02": ("proof", "Theorems: each process matrix is tridiagonal with off-diagonal >= 0, diagonal <= 0; columns sum to exactly 0 iff the boundary cross section vanishes (both directions) and it does for every element (uses C07-C09 theorems); for J with zero column sums the total of exp(tJ)N0 is conserved for all t; for Metzler J and t>=0 it stays >= 0; under CNI the neutral entry is exactly constant; instantiated for the rate matrix of every Z<=105, j>=0, E>0. Correspondence: *_mat bit-exact, captured Jacobian vs model. Undershoot of order atol / conservation to rounding of the NUMERICAL solution are monitored on LSODA/Radau/BDF runs (property of scipy).",
         "§4 C02", "Lean theorems (Metzler/column-sum matrix exponential) + correspondence; integrator monitored"),
 "C10": ("proof", "Theorems: matrix entries are exactly the documented arrangement; scan column k = vector form at returned energy k; sampling modes (caller's array / n log-spaced points with first=lo, last=hi, strictly increasing / default grid); the default grid covers every positive binding energy of every element (real-arithmetic proof over the fold, after the D6 fix); generated cxxs = 1.43e-16 q^1.17 IP^-2.76, zero for neutrals, strictly increasing in q, strictly decreasing in IP. Correspondence: *_mat bit-exact, *_energyscan energies to 1e-12 and columns bit-exact vs own vector form, cxxs int/float/scalar/array.",
         "§4 C10", "Lean theorems on hand model + generated cxxs; correspondence"),
 "C11": ("proof", "Kernel-decided table theorems over all 105 elements / 5565 rows: lookup round trip by Z, symbol, name (with own A and IP), Z-table = 1..105, unknown identifiers and non-positive mass numbers -> ValueError; one row per charge state, occupations sum to Z-q except the five listed known findings, capacities respected, occupied <=> bound, lowest binding energy strictly increasing; factories: gas/ion formulas, rejection below the minimum, all entries >= documented minima (theorems over ℝ). Correspondence: every identifier + malformed stream, Element.get headers, factories bit-exact. Read-only flags / independence from the database are Python object semantics: monitored.",
         "§4 C11", "Lean decide +kernel table theorems with explicit exception list + exhaustive lookup correspondence"),
 "C20": ("proof", "Generated characteristic_potential / herrmann_radius = documented formulas; Herrmann >= Brillouin; monotone in cathode temperature, field, radius; loop exit: returned value is phi0(E+old)(2ln(r_H(E+old)/r_d)-1) with (new-old)/new <= 1e-6 (fixed_point_partial: sign of the quotient / monotone approach monitored); profile continuous at the beam edge, zero at the tube, negative inside, non-decreasing in r; ValueError exactly outside [0,r_d]. Correspondence: methods of ElectronBeam vs generated definitions and loop model incl. identical pass counts.",
         "§4 C20", "Lean theorems on generated formulas + hand loop model; correspondence"),

 "C13": ("proof", "Theorems over ℝ on the hand model of the three Newton iterations (bit-identical to the kernels incl. pass counts): Newton identity A phi' = b(phi) - j_d(phi) (.) y for every update with non-vanishing pivots (self_consistent_partial: the defect of the non-linear system is controlled by y, whose smallness is the property's convergence premise); exit only through the stopping test or the pass budget; the updated potential is exactly 0 at the wall when the boundary row is (0,1,.) and rhs/Jacobian vanish there; 2 pi trapz(r n) = nl (x shape_0 for the e-beam variant); shapes in (0,1], 1 at the reference, 1 for neutrals; heat capacity >= 3/2 on any non-decreasing grid (weighted Cauchy-Schwarz), = 3/2 for neutrals/flat potential. Monitored: residual, ion-free = beam potential, ions raise phi, 5/2 harmonic limit.",
         "§4 C13", "Lean theorems on hand model of the Newton loops + correspondence (full loops and single updates)"),

 "C14": ("proof", "Theorems on the hand model of Device.get: FD vectors are the FD system of the stored grid; j = I/(pi r_e^2) 1e-4, fwhm = half the characteristic potential at E+phi_min, v_ra = -min phi, barrier correction = on-axis potential of the same beam at E+V_ax (on the trap grid, or the barrier grid when r_dt_bar is given), barrier potential shifted by V_ax; every override stored verbatim and independent of the other defaults; the trap potential is the ion-free e-beam solution (C13 model/theorems). Correspondence: Device.get field by field for every subset of overrides and n_grid incl. values not divisible by 6 (grid 1e-13, index exact, FD bit-exact, scalars 1e-10, potentials 1e-9). Monitored: strictly increasing grid with r_e as the indexed node, wall zero, outward monotone, between the two analytic uniform-beam potentials (with the solver's velocity model and a 1/k discretisation allowance).",
         "§4 C14", "Lean theorems (decision logic) on hand model + field-by-field correspondence; analytic bounds monitored"),

 "C03": ("proof", "Theorems over ℝ on the hand model of _adv_rhs (whole kernel incl. radial dynamics / recomputed cross sections; agrees with the compiled kernel to <=3e-16 on every output, all 4096 option sets): neutral rows frozen; derivative of every other state = signed sum of the six rates; what EI/RR/DR/CX remove from a state is added to the neighbour; block sum of ion derivatives = R_ei[neutral] - R_rec[1+] - escape (telescoping, any block layout, any rates) under the boundary hypotheses, which also give zero exchange between species; escape rates >= 0 and 0 for neutrals; states below the cut-off have vanishing own rates and can only gain. Boundary hypotheses (bare nucleus, neutral) come from the C07-C10 theorems via AdvancedModel.get correspondence. Finite derivatives: monitored.",
         "§4 C03", "Lean theorems (telescoping over the shift structure) on hand model + kernel correspondence incl. exhaustive option sets"),
 "C04": ("proof", "Theorems: dkT of a non-neutral state is the documented sum of terms; per state T*dn + n_r*dkT collapses reaction by reaction; thermal_energy_balance for every block: d/dt sum(n kT) = R_ei[neutral] T - R_rec[1+] T + ionisation heating - recombination cooling + n_r(Spitzer + exchange) - escaping energy - evaporative cooling, i.e. charge-changing reactions neither create nor destroy thermal energy; heat exchange flows hot->cold (with overlap factor), Spitzer heating never cools, escape never heats. Same correspondence as C03 (dkT and all heating rates).",
         "§4 C04", "Lean theorems (energy telescoping) on hand model + kernel correspondence"),
 "C05": ("proof", "Theorems: each reported quantity (EI/RR/DR/CX rates, escape rates, trap depths, trapping parameters, thermal velocity, Spitzer heating, electron flux, potential and cross sections actually used) is its documented formula over the model data; derivative = signed sum of enabled terms; a disabled process contributes the zero array and leaves every other stage array definitionally unchanged (switch lemmas for EI, RR, axial escape; EI worked out to the derivative). Correspondence: every rates entry vs the compiled kernel; stored rate arrays of finished simulations = fresh kernel call at the stored state (bit-exact). Independent numpy statement of every formula + switch differencing as monitors.",
         "§4 C05", "Lean theorems (stage unfolding, switch lemmas) on hand model + correspondence incl. stored rates"),
 "C06": ("proof", "Theorem adv_refines_basic: with only EI, RR (DR) rates, f_ei = 1 and no CX/escape the advanced derivative of every ion state equals (j_e (EI+RR+DR) N)_k of the basic rate matrix and the neutral row is 0; neutral rows are frozen in every advanced run; with ionisation only the ions grow exactly by the ionised neutrals; the electron flux equals the basic unit conversion. Correspondence: _assemble_initial_conditions bit-exact, kernel on the limit option sets with cold injected ions. The end-to-end agreement through Radau/LSODA and the deviation for merely cold ions are monitored (advanced vs basic runs).",
         "§4 C06", "Lean theorem (refinement of the right-hand sides) + correspondence; end-to-end monitored"),
}
PENDING = {}
def main():
    props = [json.loads(l) for l in open(os.path.join(VERIF, "properties.jsonl"))]
    checks = []
    for p in props:
        pid = p["id"]
        if pid not in CLAIMED: continue
        cat, text, ref, tech = CLAIMED[pid]
        checks.append({"property_id": pid,
            "quick_cmd": f"{PY} tools/check.py {pid} --tier quick",
            "thorough_cmd": f"{PY} tools/check.py {pid} --tier thorough",
            "evidence_file": f"evidence/{pid}.json",
            "replay_cmd_template": f"{PY} tools/check.py {pid} --replay {{path}}",
            "engine": "lean-proof+correspondence",
            "level_claimed": {"category": cat, "text": text, "design_ref": ref},
            "level_note": NOTE, "technique": tech})
    na = [{"property_id": p["id"], "reason": PENDING.get(p["id"], "check not built yet in this session (planned in DESIGN §4); not claimed until its model, theorems and correspondence are green")}
          for p in props if p["id"] not in CLAIMED]
    m = {"version": 1,
         "setup_cmd": f"{PY} tools/build.py --all",
         "hooks": {"guard": "EBISIM_VERIF", "enable": "no source hooks: the harness observes the code from outside (wraps scipy.integrate.solve_ivp, calls kernels directly)",
                   "baseline_off_cmd": "cd /repo && /venv/bin/python -m pytest -ra -q -p no:cacheprovider --timeout=900 --continue-on-collection-errors",
                   "source_commits": [], "add_only": True},
         "engines": [{"name": "lean-proof+correspondence", "path": "tools/check.py", "serves_properties": sorted(CLAIMED),
                      "kind_free_text": "Lean 4 theorems (lean/EbisimProofs) about a model (lean/EbisimModel) that is partly regenerated from /repo by tools/translate.py and partly hand-written and tied to /repo by a differential correspondence through a compiled Lean driver"}],
         "checks": checks, "not_applicable": na,
         "notes": "fix: commits in /repo: np.trapz->np.trapezoid, ForwardRef._evaluate, wall boundary rho_, get_result index, row_stack (see known_findings.json)."}
    json.dump(m, open(os.path.join(VERIF, "MANIFEST.json"), "w"), indent=1)
    print("claimed:", sorted(CLAIMED))
if __name__ == "__main__": main()
