"""Correspondences for the cross-section / table family (shared by C02, C07–C11)."""
import numpy as np
from leanio import farr, dec, unbits, bits, ulp_diff
import common

ULP = 4
RTOL = 1e-11
_EL = {}


def element(z):
    import ebisim
    if z not in _EL:
        _EL[z] = ebisim.get_element(int(z))
    return _EL[z]


def zs_for(ctx, k_quick=25):
    """elements visited: all 105 in thorough, a seeded subset + fixed heavy/light ones in quick"""
    if ctx.thorough:
        return list(range(1, 106))
    fixed = [1, 2, 3, 8, 9, 18, 20, 21, 26, 54, 68, 69, 74, 78, 92, 105]
    rest = [z for z in range(1, 106) if z not in fixed]
    pick = list(ctx.rng.choice(rest, size=max(0, k_quick - len(fixed)), replace=False))
    return sorted(fixed + [int(z) for z in pick])


def corr_tables(ctx, zs=range(1, 106)):
    """generated tables vs the arrays handed out by Element.get — exhaustive, exact"""
    D = ctx.driver
    from ebisim.utils import load_dr_data
    for z in zs:
        el = element(z)
        t = D.ask(f"cfg {z}")
        m = np.array([int(x) for x in t], dtype=np.int64).reshape(el.e_cfg.shape) if len(t) == el.e_cfg.size else None
        ctx.evaluations += 1
        if m is None or not np.array_equal(m, el.e_cfg):
            ctx.fail("correspondence", f"generated cfg table of Z={z} differs from Element.e_cfg", inp={"op": "cfg", "Z": z})
        e = D.floats(f"ebind {z}")
        if e.size != el.e_bind.size or not np.array_equal(e.reshape(el.e_bind.shape), el.e_bind):
            ctx.fail("correspondence", f"generated ebind table of Z={z} differs from Element.e_bind", inp={"op": "ebind", "Z": z})
        t = D.ask(f"drtab {z}")
        k = len(t) // 3
        cs = np.array([int(t[3 * i]) for i in range(k)], dtype=np.int64)
        er = dec([t[3 * i + 1] for i in range(k)]); st = dec([t[3 * i + 2] for i in range(k)])
        if not (np.array_equal(cs, el.dr_cs) and np.array_equal(er, el.dr_e_res) and np.array_equal(st, el.dr_strength)):
            ctx.fail("correspondence", f"generated DR table of Z={z} differs from Element.dr_*", inp={"op": "drtab", "Z": z})
        ctx.seen(("tables", z))
    ctx.count("table_elements", len(list(zs)))


def corr_lotz(ctx, zs=range(1, 106)):
    D = ctx.driver
    for z in zs:
        el = element(z)
        ncs, ncol = el.ei_lotz_a.shape
        t = D.ask(f"lotz {z} {ncs + 1} {ncol}")
        ctx.evaluations += 1
        codes = t[0::4]
        a = dec(t[1::4]).reshape(ncs + 1, ncol); b = dec(t[2::4]).reshape(ncs + 1, ncol); c = dec(t[3::4]).reshape(ncs + 1, ncol)
        ok = (np.array_equal(a[:ncs], el.ei_lotz_a) and np.array_equal(b[:ncs], el.ei_lotz_b) and np.array_equal(c[:ncs], el.ei_lotz_c))
        inside_codes = codes[: ncs * ncol]
        if "k" in inside_codes or "o" in inside_codes:
            ok = False
        # the row after the last precomputed one must be "outside" (kernel else branch) unless z rows exhausted
        if ncs < z and any(cd != "o" for cd in codes[ncs * ncol:]):
            ok = False
        if not ok:
            ctx.fail("correspondence", f"Lotz coefficient arrays of Z={z} differ from Xs.lotzEntry/coefOf", inp={"op": "lotz", "Z": z})
        ctx.seen(("lotz", z))


def eixs_energies(ctx, el, n_grid, n_thr):
    rng = ctx.rng
    es = list(10 ** np.linspace(-1, 7, n_grid) * (1 + 1e-3 * rng.uniform(-1, 1, n_grid)))
    eb = el.e_bind[el.e_cfg > 0]
    pick = eb if n_thr is None or eb.size <= n_thr else rng.choice(eb, n_thr, replace=False)
    for x in pick:
        es += [float(x), float(np.nextafter(x, np.inf)), float(np.nextafter(x, 0))]
    return es


def corr_eixs(ctx, zs, n_grid=8, n_thr=6):
    import ebisim
    D = ctx.driver
    worst = 0.0
    for z in zs:
        el = element(z)
        es = eixs_energies(ctx, el, n_grid, n_thr)
        ans = D.ask_many([f"eixs {z} {bits(e)}" for e in es])
        for e, a in zip(es, ans):
            impl = ebisim.eixs_vec(el, e)
            m = dec(a)
            ctx.evaluations += 1
            if np.any(impl > 0):
                ctx.seen(("eixs", z, float(e)))
            if m.shape != impl.shape:
                ctx.fail("correspondence", f"eixs_vec(Z={z}) has {impl.size} entries, model {m.size}", inp={"op": "eixs", "Z": z, "E": e}); continue
            zero_mismatch = (impl == 0) != (m == 0)
            ok, w, i = common.compare(impl, m, RTOL)
            worst = max(worst, w if np.isfinite(w) else 1.0)
            if zero_mismatch.any() or not ok:
                i = int(np.argmax(zero_mismatch)) if zero_mismatch.any() else i
                ctx.fail("correspondence", f"eixs_vec(Z={z}, E={e!r})[{i}] = {impl[i]!r} but model {m[i]!r}", inp={"op": "eixs", "Z": z, "E": e})
    ctx.cov["eixs_worst_rel"] = worst
    ctx.sample({"op": "eixs", "Z": int(zs[0]), "E": float(es[0]), "impl_first": impl[:3], "model_first": m[:3]})


def corr_rr(ctx, zs, n_grid=6):
    import ebisim
    D = ctx.driver
    for z in zs:
        el = element(z)
        m = D.floats(f"rrpre {z}")
        ctx.evaluations += 1
        k = m.size // 2
        if k != z + 1 or not (np.array_equal(m[:k], el.rr_z_eff) and np.array_equal(m[k:], el.rr_n_0_eff)):
            ctx.fail("correspondence", f"rr_z_eff / rr_n_0_eff of Z={z} differ from Xs.rrPre", inp={"op": "rrpre", "Z": z})
        es = 10 ** ctx.rng.uniform(-2, 7, n_grid)
        ans = D.ask_many([f"rrxs {z} {bits(e)}" for e in es])
        for e, a in zip(es, ans):
            impl = ebisim.rrxs_vec(el, float(e)); mm = dec(a)
            ctx.evaluations += 1
            ctx.seen(("rrxs", z, float(e)))
            ok, w, i = common.compare(impl, mm, RTOL)
            if mm.shape != impl.shape or not ok or impl[0] != 0 or mm[0] != 0:
                ctx.fail("correspondence", f"rrxs_vec(Z={z}, E={e!r}) differs from Xs.rrxsVec (rel {w:.2e})", inp={"op": "rrxs", "Z": z, "E": float(e)})
    ctx.sample({"op": "rrxs", "Z": int(z), "E": float(e), "impl_last": impl[-2:], "model_last": mm[-2:]})


def dr_points(ctx, el, k=4):
    rng = ctx.rng
    w = float(10 ** rng.uniform(-1, np.log10(300)))
    if el.dr_e_res.size:
        er = rng.choice(el.dr_e_res, min(k, el.dr_e_res.size), replace=False)
        es = np.concatenate([er, er + w / 2, er - w / 2, er + 3 * w, [el.dr_e_res.min() - 10 * w - 50, el.dr_e_res.max() + 10 * w + 50]])
        es = es[es > 0]
    else:
        es = 10 ** rng.uniform(1, 5, 3)
    return w, es


def corr_dr(ctx, zs):
    import ebisim
    D = ctx.driver
    for z in zs:
        el = element(z)
        w, es = dr_points(ctx, el)
        ans = D.ask_many([f"drxs {z} {bits(e)} {bits(w)}" for e in es])
        for e, a in zip(es, ans):
            impl = ebisim.drxs_vec(el, float(e), w); m = dec(a)
            ctx.evaluations += 1
            if np.any(impl > 0):
                ctx.seen(("drxs", z, float(e), w))
            # every slot is a sum of positive terms: plain relative comparison, tiny absolute floor for underflowing tails
            ok, wst, i = common.compare(impl, m, RTOL, scale=np.full(impl.shape, 1e-320) if m.shape == impl.shape else None)
            if m.shape != impl.shape or not ok:
                ctx.fail("correspondence", f"drxs_vec(Z={z}, E={e!r}, fwhm={w!r}) differs from Xs.drxsVec (rel {wst:.2e})", inp={"op": "drxs", "Z": z, "E": float(e), "w": w})
    ctx.sample({"op": "drxs", "Z": int(z), "E": float(e), "fwhm": w, "impl_nonzero": int(np.count_nonzero(impl))})


def corr_mat(ctx, zs):
    """matrix forms: bit-exact arrangement of the implementation's own vectors"""
    import ebisim
    D = ctx.driver
    for z in zs:
        el = element(z)
        e = float(10 ** ctx.rng.uniform(0.5, 5)); w = float(10 ** ctx.rng.uniform(-0.3, 2))
        cases = [("ei", ebisim.eixs_vec(el, e), ebisim.eixs_mat(el, e)), ("rec", ebisim.rrxs_vec(el, e), ebisim.rrxs_mat(el, e)),
                 ("rec", ebisim.drxs_vec(el, e, w), ebisim.drxs_mat(el, e, w))]
        if el.dr_e_res.size:   # on resonances of the lowest, the highest and a random tabulated charge state
            for row in {int(np.argmin(el.dr_cs)), int(np.argmax(el.dr_cs)), int(ctx.rng.integers(el.dr_cs.size))}:
                er = float(el.dr_e_res[row])
                cases.append(("rec", ebisim.drxs_vec(el, er, w), ebisim.drxs_mat(el, er, w)))
        for kind, vec, mat in cases:
            m = D.floats(f"mat {kind} " + farr(vec))
            ctx.evaluations += 1
            ctx.seen(("mat", kind, z, e))
            if m.size != mat.size or ulp_diff(m.reshape(mat.shape), mat).max() > 0:
                ctx.fail("correspondence", f"{kind} matrix of Z={z} at E={e!r} is not the modelled arrangement of the vector", inp={"op": "mat", "kind": kind, "Z": z, "E": e, "w": w})
    ctx.sample({"op": "mat", "Z": int(z), "E": e, "diag_first": np.diag(mat)[:3]})
