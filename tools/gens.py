"""Structured, seeded generators built from the repository's own factories."""
import numpy as np

LIGHT = [1, 2, 3, 4, 5, 6, 7, 8, 10, 11, 12, 13, 14, 16, 18, 19, 20, 22, 26, 28, 29, 30]


def device_kwargs(rng, n_grid=None, overrides=True):
    current = float(10 ** rng.uniform(-2, 0))
    e_kin = float(10 ** rng.uniform(3.3, 4.3))
    r_e = float(10 ** rng.uniform(np.log10(4e-5), np.log10(4e-4)))
    # stay well below the virtual-cathode perveance limit
    perv = current / e_kin ** 1.5
    if perv > 1.5e-6:   # stay well below the virtual-cathode (perveance) limit, beyond it the beam potential is NaN
        current = 1.5e-6 * e_kin ** 1.5
    kw = dict(current=current, e_kin=e_kin, r_e=r_e, v_ax=float(rng.uniform(20, 800)), b_ax=float(rng.uniform(0.5, 5)),
              r_dt=float(r_e * 10 ** rng.uniform(np.log10(8), np.log10(100))), length=float(rng.uniform(0.05, 1.0)),
              n_grid=int(n_grid or rng.choice([60, 120, 200])))
    # the documented overrides: current density, energy spread, radial trap depth given explicitly (not derived from I, r_e)
    if overrides:
        if rng.random() < 0.35: kw["j"] = float(current / (np.pi * r_e ** 2) * 1e-4 * 10 ** rng.uniform(-0.7, 0.7))
        if rng.random() < 0.35: kw["fwhm"] = float(10 ** rng.uniform(0.3, 1.8))
        if rng.random() < 0.25: kw["v_ra"] = float(10 ** rng.uniform(1, 3))
        # a barrier drift tube of another radius than the trap's (the barrier correction is then solved on its own mesh)
        if rng.random() < 0.25: kw["r_dt_bar"] = float(kw["r_dt"] * rng.uniform(0.4, 2.0))
    return kw


def make_device(rng, **over):
    from ebisim.simulation import Device
    kw = device_kwargs(rng)
    kw.update(over)
    return Device.get(**kw), kw


def make_targets(rng, device, k=None, zs=None, zmax=30):
    from ebisim import Element
    k = int(k or rng.integers(1, 5))
    pool = [z for z in (zs or LIGHT) if z <= zmax]
    out, desc = [], []
    for i in range(k):
        z = int(rng.choice(pool))
        cx = bool(rng.integers(2))
        if rng.integers(3) == 0:
            p = float(10 ** rng.uniform(-11, -7)); T = float(rng.uniform(80, 600))
            out.append(Element.get_gas(z, p, device.r_dt, T, cx=cx)); desc.append(("gas", z, p, T, cx))
        else:
            nl = float(10 ** rng.uniform(3, 9)); kT = float(10 ** rng.uniform(-0.5, 2)); q = int(rng.integers(0, z + 1))
            out.append(Element.get_ions(z, nl, kT, q, cx=cx)); desc.append(("ions", z, nl, kT, q, cx))
    return out, desc


def make_gases(rng, k=None):
    from ebisim.simulation import BackgroundGas
    k = int(rng.integers(0, 4)) if k is None else k
    out, desc = [], []
    for _ in range(k):
        z = int(rng.choice([1, 2, 7, 8, 10, 18])); p = float(10 ** rng.uniform(-12, -8)); T = float(rng.uniform(80, 400))
        out.append(BackgroundGas.get(z, p, T)); desc.append((z, p, T))
    return out, desc


BOOL_OPTS = ["EI", "RR", "CX", "DR", "SPITZER_HEATING", "COLLISIONAL_THERMALISATION", "ESCAPE_AXIAL", "ESCAPE_RADIAL",
             "RECOMPUTE_CROSS_SECTIONS", "RADIAL_DYNAMICS", "IONISATION_HEATING", "OVERRIDE_FWHM"]


def make_options(rng=None, bits=None, **fixed):
    from ebisim.simulation import ModelOptions
    if bits is None:
        bits = [bool(x) for x in rng.integers(0, 2, len(BOOL_OPTS))]
    kw = dict(zip(BOOL_OPTS, [bool(b) for b in bits]))
    kw.update(fixed)
    if rng is not None and kw.get("RADIAL_DYNAMICS") and "RADIAL_SOLVER_REL_DIFF" not in kw and rng.random() < 0.6:
        # the two controls of the radial solver are model options like the switches
        kw["RADIAL_SOLVER_REL_DIFF"] = float(rng.choice([1e-2, 1e-4, 1e-7]))
        kw["RADIAL_SOLVER_MAX_STEPS"] = int(rng.choice([2, 7, 60, 500]))
    return ModelOptions(**kw), kw


def make_state(rng, model, populated=0.7):
    """state vector in the property's box: n in 1e-7..1e12, kT >= q*dphi1/500 and <= 1e5"""
    nq = model.nq
    n = 10 ** rng.uniform(-7, 12, nq)
    # some entries exactly at / below / just above the smoothing thresholds
    for v in (1e-6, 5e-7, 3e-4, 1e-3, 1.0000001e-6, 0.99e-3):
        n[rng.integers(nq)] = v
    dphi1 = abs(model.device.rad_phi_uncomp[1] - model.device.rad_phi_uncomp[0])
    floor = np.maximum(model.q * dphi1 / 500 * 4, 1e-3)
    kT = np.maximum(10 ** rng.uniform(-1, 4, nq), floor * (1 + rng.uniform(0, 3, nq)))
    return np.concatenate([n, kT])
