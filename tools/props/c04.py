"""C04 — thermal-energy balance of the advanced model (model and harness shared with C03)."""
from props import c03 as _c
import numpy as np
LEVEL = "proof"; LEMMA_MODULES = _c.LEMMA_MODULES; ALWAYS_SEARCH = True
RULE = _c.RULE + " [C04 compares in particular dkT, IONISATION_HEAT, T_SPITZER_HEATING, T_COLLISIONAL_THERMALISATION, W_AX, W_RA, COLLISION_RATE_TOTAL]"
MONITORED = ["numerical thermal_energy_balance on the kernel output, assembled only from the rates dictionary and y (1e-9 of the summed absolute terms)"]
OUTSIDE = ["rounding only"]; ASSUMPTIONS = _c.ASSUMPTIONS
run = _c.run
def search(ctx): return _c.search(ctx, "C04")
def replay(ctx, data): return _c.replay(ctx, data, "C04")
