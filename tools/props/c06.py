"""C06 — advanced simulation reduces to the basic one in the ideal-overlap limit."""
import numpy as np, logging
import common, gens, advcorr

LEVEL = "proof"
LEMMA_MODULES = ["AdvBalance", "RateMat", "MatExp", "Consts"]
ALWAYS_SEARCH = True
RULE = ("_assemble_initial_conditions vs Adv.initial (bit-exact) and _adv_rhs vs Adv.rhs restricted to the option sets of the property (only EI, RR, "
        "optionally DR) with cold injected ions; end-to-end monitors advanced_simulation vs basic_simulation. non-trivial = populated ion state; "
        "distinct = distinct (device, target, state)")
MONITORED = ["advanced vs basic abundances at every stored time for cold injected ions (<= (5e-3 + 1 - fei_min) * line density)",
             "neutral rows of every advanced result constant (derivative exactly 0; drift <= 16 eps)",
             "EI-only growth identity on the stored columns and rates"]
OUTSIDE = ["Radau/LSODA and the size of the deviation for merely cold ions (f_ei ~ 1): the theorem gives exact agreement of the right-hand sides for f_ei = 1"]
ASSUMPTIONS = ["scipy integrators integrate the systems they are handed"]


def limit_options(dr=False):
    from ebisim.simulation import ModelOptions
    return ModelOptions(EI=True, RR=True, CX=False, DR=dr, SPITZER_HEATING=False, COLLISIONAL_THERMALISATION=False, ESCAPE_AXIAL=False, ESCAPE_RADIAL=False,
                        RECOMPUTE_CROSS_SECTIONS=False, RADIAL_DYNAMICS=False, IONISATION_HEATING=False, OVERRIDE_FWHM=True)


def run(ctx):
    import ebisim
    from ebisim.simulation import AdvancedModel
    logging.getLogger("ebisim").setLevel(logging.ERROR)
    rng = ctx.rng
    n = 10 if ctx.thorough else 4
    for k in range(n):
        dev, dkw = gens.make_device(rng, n_grid=60)
        z = int(rng.choice([2, 6, 8, 10, 18, 19, 26])); q = int(rng.integers(1, min(z, 6) + 1))
        edge = abs(dev.rad_phi_uncomp[dev.rad_re_idx] - dev.rad_phi_uncomp[0])
        kT = float(edge / rng.uniform(15, 60))
        if k % 4 == 1:
            from ebisim.physconst import MINIMAL_KBT
            kT = float(MINIMAL_KBT)          # the ideal cold limit itself: ions injected at the temperature floor
        tg = [ebisim.Element.get_ions(z, float(10 ** rng.uniform(3, 7)), kT, q, cx=bool(rng.integers(0, 2)))]
        if k % 2:
            tg.append(ebisim.Element.get_gas(int(rng.choice([2, 10])), float(10 ** rng.uniform(-10, -8)), dev.r_dt, cx=bool(rng.integers(0, 2))))
        opts = limit_options(dr=bool(k % 3 == 0))
        m = AdvancedModel.get(dev, tg, [], opts)
        desc = {"device": dkw, "targets": [("ions", z, float(tg[0].n[q]), kT, q, True)] + ([("gas",)] if k % 2 else []), "gases": [], "options": {kk: vv for kk, vv in opts._asdict().items() if isinstance(vv, bool)}}
        y0 = advcorr.compare_initial(ctx, m, desc)
        ys = [y0.copy()]
        for _ in range(2):
            y = y0.copy(); y[: m.nq] = np.where(rng.uniform(size=m.nq) < 0.5, 10 ** rng.uniform(1, 7, m.nq), y[: m.nq]); ys.append(y)
        if k % 4 != 1:     # (at the temperature floor the 60-node grid cannot resolve the ion cloud: only the start vector is compared)
            advcorr.compare_rhs(ctx, m, ys, {"z": z, "q": q, "kT": kT, "device": dkw})
        ctx.seen((z, q, k))
        if k == 0:
            ctx.sample({"device": dkw, "Z": z, "q": q, "kT": kT, "beam_edge_step": float(edge)})


def stmt_sim(z, q, dkw, t_max, rng, cx=True, kT_inj=None, dr=False, history=None):
    """end-to-end: advanced (limit options, cold ions) vs basic; `history`: devices simulated before in this process (same target, options)"""
    import ebisim
    from ebisim.simulation import Device, advanced_simulation
    logging.getLogger("ebisim").setLevel(logging.ERROR)
    out = []
    for hk in (history or []):
        try:
            advanced_simulation(Device.get(**hk), ebisim.Element.get_ions(z, 1e5, 10.0, q, cx=cx), 1e-5, options=limit_options(dr=dr), verbose=False)
        except Exception:
            pass
    dev = Device.get(**dkw)
    edge = abs(dev.rad_phi_uncomp[dev.rad_re_idx] - dev.rad_phi_uncomp[0])
    kT = edge / 30 if kT_inj is None else kT_inj
    nl = 1e5
    inp = {"Z": z, "q": q, "device": dkw, "t_max": t_max, "cx": cx, "kT_inj": kT_inj, "dr": dr, "history": history}
    def add(clause, what):
        out.append({"key": {"clause": clause, "Z": z}, "what": what, "input": inp})
    tg = ebisim.Element.get_ions(z, nl, kT, q, cx=cx)
    try:
        ra = advanced_simulation(dev, tg, t_max, options=limit_options(dr=dr), rates=True, verbose=False)
    except Exception as e:
        add("simulation_raises", f"advanced_simulation in the ideal-overlap limit raised {type(e).__name__}: {str(e)[:120]}")
        return out
    if dr:
        # "... the basic simulation run with the device's current density, beam energy and energy spread": the recombination cross sections
        # the advanced run integrates are those of this device's energy and spread (whatever was simulated before in this process)
        want = ebisim.drxs_vec(ebisim.Element.get(z), dev.e_kin, dev.fwhm)
        have = np.asarray(ra.model.drxs, float)[: z + 1]
        if have.shape != want.shape or not np.array_equal(have, want):
            i_ = int(np.argmax(np.abs(have - want))) if have.shape == want.shape else 0
            add("dr_cross_sections_of_device", f"the advanced run uses sigma_DR[{i_}] = {have[i_]!r} but drxs_vec(Z={z}, E={dev.e_kin!r}, fwhm={dev.fwhm!r})[{i_}] = {want[i_]!r}")
    from ebisim.physconst import MINIMAL_KBT as _KT_MIN
    if ra.kbT[q, 0] != max(kT, _KT_MIN) or ra.N[q, 0] != nl:
        add("injected_as_declared", f"ions declared with kT = {kT!r} eV, line density {nl!r} start the advanced run at kT = {ra.kbT[q, 0]!r}, N = {ra.N[q, 0]!r}")
    N0 = np.where(np.arange(z + 1) == q, nl, 0.0)
    rb = ebisim.basic_simulation(z, dev.j, dev.e_kin, t_max, dr_fwhm=(dev.fwhm if dr else None), N_initial=N0, CNI=True, solver_kwargs=dict(rtol=1e-10, atol=1e-12 * nl, dense_output=True))
    from ebisim.simulation._result import Rate
    # overlap of the states that actually carry population (an empty state starts hot — fwhm x q — and has a small overlap factor, but
    # contributes nothing to the distribution): the deviation from the ideal-overlap limit is driven by the populated ones
    if ra.rates:
        f_ = ra.rates[Rate.F_EI][1:, :]; pop = ra.N[1:, :] > 1e-3 * nl
        fei_min = float(np.min(f_[pop])) if pop.any() else 1.0
    else:
        fei_min = 1.0
    worst = 0.0
    for i in range(ra.t.size):
        b = rb.abundance_at_time(ra.t[i])
        worst = max(worst, np.abs(ra.N[1:, i] - b[1:]).max())
    if worst > (5e-3 + (1 - fei_min)) * nl:
        add("adv_equals_basic", f"advanced and basic charge-state distributions differ by {worst:.3e} (line density {nl}, min f_ei {fei_min})")
    if np.abs(ra.N[0] - ra.N[0, 0]).max() > 16 * np.finfo(float).eps * max(1.0, abs(ra.N[0, 0])):
        add("neutral_constant", f"neutral density of the advanced run changes: {ra.N[0].min()!r}..{ra.N[0].max()!r}")
    return out


def stmt_ei_only(z, dkw, rng, gas, cx=True):
    import ebisim
    from ebisim.simulation import Device, advanced_simulation, ModelOptions
    from ebisim.simulation._result import Rate
    out = []
    dev = Device.get(**dkw)
    o = limit_options()._replace(RR=False)
    tg = ebisim.Element.get_gas(z, 1e-9, dev.r_dt, cx=cx) if gas else ebisim.Element.get_ions(z, 1e6, 5.0, 1, cx=cx)
    inp = {"Z": z, "device": dkw, "gas": gas, "cx": cx}
    try:
        r = advanced_simulation(dev, tg, 1e-3, options=o, rates=True, verbose=False)
    except Exception as e:
        return [{"key": {"clause": "simulation_raises"}, "what": f"advanced_simulation with ionisation only raised {type(e).__name__}: {str(e)[:120]}", "input": inp}]
    ions = r.N[1:].sum(axis=0)
    if not gas:
        if np.abs(ions - ions[0]).max() > 1e-6 * ions[0]:
            out.append({"key": {"clause": "ei_only_constant"}, "what": f"with ionisation only and pure ion injection the total ion number changes by {np.abs(ions-ions[0]).max():.3e}", "input": inp})
    else:
        # d/dt sum(ions) = R_ei[neutral]: check on the stored derivative (fresh kernel call) at a few columns
        m = advcorr.retype(r.model)
        for col in (0, r.t.size // 2, r.t.size - 1):
            dy, ex = advcorr.impl_rhs(m, np.ascontiguousarray(r.res.y[:, col]))
            lhs = dy[1:m.nq].sum(); rhs = np.array(ex[Rate.EI])[0]
            if abs(lhs - rhs) > 1e-9 * np.abs(np.array(ex[Rate.EI])).sum() + 1e-300:
                out.append({"key": {"clause": "ei_only_growth"}, "what": f"ions grow by {lhs!r} per second but ionised neutrals are {rhs!r}", "input": inp})
        if np.abs(r.N[0] - r.N[0, 0]).max() > 16 * np.finfo(float).eps * abs(r.N[0, 0]):
            out.append({"key": {"clause": "neutral_constant"}, "what": "neutral gas density changes during an advanced run", "input": inp})
        # "the total number of ions grows exactly by the number of ionised neutrals": that number counted independently of the kernel's own
        # rate — sigma_EI(neutral) x line density x j/e x the fraction of the (flat) neutral cloud inside the beam, (r_e / r_dt)^2
        from ebisim.physconst import Q_E
        want = ebisim.eixs_vec(ebisim.Element.get(z), dev.e_kin)[0] * r.N[0, 0] * dev.j / Q_E * 1e4 * (dev.r_e / dev.r_dt) ** 2
        dy0, _ = advcorr.impl_rhs(m, np.ascontiguousarray(r.res.y[:, 0]))
        got = dy0[1:m.nq].sum()
        if abs(got - want) > 1e-6 * abs(want):
            out.append({"key": {"clause": "ei_only_growth"}, "what": f"at t = 0 the ions of the gas target grow by {got!r} per second, the neutrals ionised inside the beam are {want!r} per second", "input": inp})
    return out


def search(ctx):
    rng = np.random.default_rng([ctx.seed, 606])
    V = []
    n = 6 if ctx.thorough else (4 if ctx.failures else 2)
    for k in range(n):
        # (end-to-end runs use the default 400-node mesh: on a coarse mesh the innermost potential step exceeds what the temperature floor
        #  of 1 meV can resolve, q dphi_1/500 > 1e-3 eV, and a barely populated state reaching the floor makes the kernel return NaN)
        dkw = gens.device_kwargs(rng, n_grid=400)
        if k % 2 == 0 and "j" not in dkw:   # explicit current density (the basic simulation is driven by j alone)
            dkw["j"] = float(dkw["current"] / (np.pi * dkw["r_e"] ** 2) * 1e-4 * rng.choice([0.3, 2.5]))
        z = int(rng.choice([2, 6, 10, 18])); q = int(rng.integers(1, min(z, 4) + 1))
        V += stmt_sim(z, q, dkw, float(10 ** rng.uniform(-4, -2)), rng, cx=bool(k % 2))
        gas = bool(k % 2); z_ei = int(rng.choice([2, 6, 10])); dkw_ei = dkw
        if gas:
            # room-temperature gas (kT = 26 meV): every ion it breeds starts that cold, so the grid has to resolve a 26 meV cloud of the
            # highest charge state, z dphi_1 / 500 <= kT (the limit C03 names); finer grid, redrawn until it does
            from ebisim.simulation import Device
            dkw_ei = None
            for _ in range(8):
                cand = gens.device_kwargs(rng, n_grid=200)
                d_ = Device.get(**cand)
                if z_ei * abs(d_.rad_phi_uncomp[1] - d_.rad_phi_uncomp[0]) / 500 <= 0.5 * 0.02585:
                    dkw_ei = cand; break
        if dkw_ei is not None:
            if gas: dkw_ei = dict(dkw_ei, r_dt_bar=float(dkw_ei["r_dt"] * rng.choice([0.6, 1.6])))     # a barrier tube of another radius than the trap's
            V += stmt_ei_only(z_ei, dkw_ei, rng, gas=gas, cx=bool((k // 2 + 1) % 2 if n > 2 else (k + 1) % 2)); ctx.count("simulations")
        else:
            ctx.count("ei_only_gas_unresolvable_skipped")
        ctx.count("simulations", 1)
        if len(V) > 5: break
    # dielectronic recombination included: beam energy on a tabulated resonance, two devices that differ only in the energy spread, run one
    # after the other in this process (each must agree with the basic simulation at its own spread)
    import ebisim
    z = int(rng.choice([10, 18]))
    el = ebisim.Element.get(z)
    i = int(np.argmax(el.dr_strength))   # the strongest resonance: recombination into cs-1 competes visibly with ionisation
    cs = int(el.dr_cs[i]); er = float(el.dr_e_res[i])
    dkw = gens.device_kwargs(rng, n_grid=400)
    dkw["e_kin"] = er
    while dkw["current"] / er ** 1.5 > 1.5e-6: dkw["current"] *= 0.5
    dkw.pop("fwhm", None)
    hist = []
    for fw in (None, float(rng.uniform(3, 8))):
        d2 = dict(dkw) if fw is None else dict(dkw, fwhm=fw)
        V += stmt_sim(z, cs, d2, float(rng.uniform(2e-2, 4e-2)), rng, cx=False, dr=True, history=list(hist)); ctx.count("simulations")
        hist.append(d2)
    # … and with dielectronic recombination switched OFF at the same resonance: the advanced run must then agree with the basic simulation
    # run without a width (the resonance is there in the tables, but the effect is disabled)
    V += stmt_sim(z, cs, dict(dkw), float(rng.uniform(2e-2, 4e-2)), rng, cx=False, dr=False); ctx.count("simulations")
    # the ideal cold limit itself: injection at the temperature floor
    from ebisim.physconst import MINIMAL_KBT
    # (a grid fine enough to resolve a 1 meV cloud: q dphi_1 / 500 <= kT, the limit C03 names; 400 nodes, moderate perveance)
    from ebisim.simulation import Device
    for _ in range(6):
        dkw = gens.device_kwargs(rng, n_grid=400)
        dkw["current"] = float(rng.uniform(0.05, 0.2)); dkw["e_kin"] = float(rng.uniform(3000, 8000))
        d_ = Device.get(**dkw)
        if abs(d_.rad_phi_uncomp[1] - d_.rad_phi_uncomp[0]) / 500 <= 0.5 * MINIMAL_KBT:
            V += stmt_sim(int(rng.choice([6, 8])), 1, dkw, float(10 ** rng.uniform(-3, -2)), rng, cx=True, kT_inj=float(MINIMAL_KBT)); ctx.count("simulations")
            break
    return V


def replay(ctx, data):
    inp = data.get("violation", {}).get("input", {})
    if "t_max" in inp:
        r = stmt_sim(int(inp["Z"]), int(inp["q"]), inp["device"], float(inp["t_max"]), np.random.default_rng(0), cx=bool(inp.get("cx", True)),
                     kT_inj=inp.get("kT_inj"), dr=bool(inp.get("dr", False)), history=inp.get("history"))
        key = data.get("violation", {}).get("key", {})
        r = [x for x in r if x["key"].get("clause") == key.get("clause")] or r
    elif "gas" in inp:
        r = stmt_ei_only(int(inp["Z"]), inp["device"], np.random.default_rng(0), bool(inp["gas"]), cx=bool(inp.get("cx", True)))
    else:
        return None
    return r[0] if r else None
