"""C03 — advanced model: particle balance (shared model with C04/C05/C06)."""
import numpy as np, logging
import common, gens, advcorr, advstmt

LEVEL = "proof"
PROP = "C03"
LEMMA_MODULES = ["AdvBalance", "Consts"]
RULE = ("_adv_rhs(model, 0, y, rates) (compiled) vs Adv.rhs evaluated by the driver: dn, dkT and every rates entry (1e-10 with the abs-sum scale of the "
        "cancelling sums, exact zero pattern of the rates); devices over the operating range, 1..4 targets from Z<=30 (thorough: up to Z=92) in random order "
        "with/without cx, 0..3 gases, states log-uniform in the property's box incl. entries at/below/just above both smoothing thresholds, random option "
        "sets (thorough: all 2^12 on one small model) incl. RADIAL_DYNAMICS and RECOMPUTE_CROSS_SECTIONS; AdvancedModel.get fields vs Adv.build. "
        "non-trivial = at least one populated ion state and one enabled process; distinct = distinct (model, state)")
MONITORED = ["numerical dn_balance / neutrals_frozen / boundary_zero / empty_gains / finiteness on the kernel's own rates dictionary (1e-9 of the summed absolute rates)"]
OUTSIDE = ["floating-point rounding of the balance ('exact' means exact in ℝ)"]
ASSUMPTIONS = ["libm agreement between numba and Lean's Float (observed <= 3e-16)"]
ALWAYS_SEARCH = True


def cases(ctx, n_models, n_states, zmax):
    rng = ctx.rng
    for k in range(n_models):
        fixed = {}
        if k % 4 != 3: fixed["RADIAL_DYNAMICS"] = False
        else: fixed["RADIAL_DYNAMICS"] = True
        m, desc = advcorr.build_model(rng, n_grid=int(rng.choice([60, 120])), zmax=zmax, **fixed)
        ys = [gens.make_state(rng, m) for _ in range(n_states)]
        if fixed.get("RADIAL_DYNAMICS"):
            for y in ys:
                y[:m.nq] = np.minimum(y[:m.nq], 1e7); y[m.nq:] = np.maximum(y[m.nq:], 5.0 * np.maximum(m.q, 1))
            # strongly compensated beam (trap depths shrink / change sign)
            ys += [advcorr.compensated_state(rng, m) for _ in range(2)]
        yield m, desc, ys
    # beam energy on a dielectronic-recombination resonance (otherwise the DR terms are identically zero)
    for k in range(max(2, n_models // 2)):
        fixed = {"IONISATION_HEATING": True} if k % 2 == 0 else {}
        if k % 3 == 0: fixed.update(RECOMPUTE_CROSS_SECTIONS=True, OVERRIDE_FWHM=False)
        m, desc = advcorr.resonant_model(rng, **fixed)
        yield m, desc, [gens.make_state(rng, m) for _ in range(n_states)]


def run(ctx):
    logging.getLogger("ebisim").setLevel(logging.ERROR)
    worst = 0.0
    nm, ns = (14, 5) if ctx.thorough else (5, 3)
    for m, desc, ys in cases(ctx, nm, ns, 92 if ctx.thorough else 30):
        advcorr.compare_build(ctx, m, desc)
        w = advcorr.compare_rhs(ctx, m, ys, desc)
        worst = max(worst, w)
        o = desc["options"]
        if any(o[k] for k in ("EI", "RR", "DR", "CX", "ESCAPE_AXIAL", "ESCAPE_RADIAL")):
            for i, y in enumerate(ys):
                ctx.seen((str(desc["targets"]), str(sorted(o.items())), i))
        if len(ctx.samples) < 2:
            ctx.sample({"targets": desc["targets"], "gases": desc["gases"], "options": o, "nq": int(m.nq), "y_first": ys[0][:4]})
    if ctx.thorough:
        # all 2^12 option sets on one small model
        from ebisim.simulation import ModelOptions, AdvancedModel
        rng = ctx.rng
        m0, desc0 = advcorr.build_model(rng, n_grid=60, k=2, zmax=6, gases=1)
        y = gens.make_state(rng, m0)
        y[:m0.nq] = np.minimum(y[:m0.nq], 1e7); y[m0.nq:] = np.maximum(y[m0.nq:], 5.0 * np.maximum(m0.q, 1))
        for bits in range(4096):
            ob = [(bits >> i) & 1 == 1 for i in range(12)]
            opts, okw = gens.make_options(bits=ob)
            m1 = m0._replace(options=opts)
            w = advcorr.compare_rhs(ctx, m1, [y], dict(desc0, options={k: v for k, v in okw.items()}))
            worst = max(worst, w)
            if len(ctx.failures) > 3: break
        ctx.cov["all_4096_option_sets"] = True
    ctx.cov["worst_relative_deviation"] = worst


def search(ctx, prop=None):
    prop = prop or PROP
    logging.getLogger("ebisim").setLevel(logging.ERROR)
    rng = np.random.default_rng([ctx.seed, 303])
    V = []
    todo = []
    for f in ctx.failures:
        inp = f.get("input") or {}
        if "device" in inp and "y" in inp:
            todo.append((advcorr.rebuild(inp), {k: inp[k] for k in ("device", "targets", "gases", "options", "history") if k in inp}, [np.asarray(inp["y"], float)]))
    class C: pass
    c = C(); c.rng = rng
    nm = 10 if (ctx.thorough or ctx.failures) else 3
    for k in range(nm):
        m, desc = advcorr.build_model(rng, n_grid=60, zmax=30, RADIAL_DYNAMICS=False)
        todo.append((m, desc, [gens.make_state(rng, m) for _ in range(3)]))
    for k in range(nm):
        m, desc = advcorr.resonant_model(rng, IONISATION_HEATING=True, **({"RECOMPUTE_CROSS_SECTIONS": True, "OVERRIDE_FWHM": False} if k % 2 else {}))
        todo.append((m, desc, [gens.make_state(rng, m) for _ in range(2)]))
        m, desc = advcorr.build_model(rng, n_grid=60, zmax=30, RADIAL_DYNAMICS=True, ESCAPE_AXIAL=True, ESCAPE_RADIAL=True)
        todo.append((m, desc, [advcorr.compensated_state(rng, m) for _ in range(2)]))
    # model histories: the same species in two orders, built one after the other in this process, charge exchange among the targets on
    # (whatever a model keeps from an earlier one must not depend on the order of the targets: "every mix of targets")
    for pair in ((6, 2), (10, 18)):
        dkw = gens.device_kwargs(rng, n_grid=60)
        for order in (pair, pair[::-1]):
            desc_h = {"device": dkw, "targets": [("ions", z_, 1e6, 20.0 * max(1, z_ // 4), 1, True) for z_ in order], "gases": [],
                      "options": dict(CX=True, RADIAL_DYNAMICS=False)}
            m_h = advcorr.rebuild(desc_h)
            if order != pair:
                desc_h = dict(desc_h, history=[dict(desc_h, targets=[("ions", z_, 1e6, 20.0 * max(1, z_ // 4), 1, True) for z_ in pair])])
            todo.append((m_h, desc_h, [gens.make_state(rng, m_h)]))
    # sparse states: every density exactly at / just around the minimal density, so that the balance is not drowned by the rates of a
    # populated neighbour (a state sitting exactly on MINIMAL_N_1D is live: what it loses, its neighbour gains)
    from ebisim.physconst import MINIMAL_N_1D
    for m, desc, ys in list(todo[:2]):
        y0 = ys[0].copy(); nq_ = m.nq
        for pat in ([1.0] * nq_, [1.0, 1.0, 3.0, 1.0, 0.5, 1.0, 2.0] * nq_):
            y1 = y0.copy(); y1[:nq_] = MINIMAL_N_1D * np.asarray(pat[:nq_]); ys.append(y1)
    for m, desc, ys in todo:
        for y in ys:
            for v in advstmt.stmt_balance(m, y, desc):
                # C05's "the returned derivative is exactly the signed sum of the enabled terms" fails whenever a block balance of the
                # returned derivative against the reported terms fails
                if v["prop"] == prop or (prop == "C05" and v["key"]["clause"] in ("dn_balance", "thermal_energy_balance")): V.append(v)
            if prop == "C05":
                V += advstmt.stmt_rates(m, y, desc)
            ctx.count("search_states")
        if prop == "C05":
            V += advstmt.stmt_switches(desc, ys[0])
        if len(V) > 10: break
    if prop == "C04":
        V += advstmt.stmt_heatflow(rng, 12 if (ctx.thorough or ctx.failures) else 4)
    return V


def replay(ctx, data, prop=None):
    v = data.get("violation", {})
    inp = v.get("input", {})
    if "device" not in inp: return None
    for h in inp.get("history") or []:
        advcorr.rebuild(h)          # models built earlier in the process
    m = advcorr.rebuild(inp)
    y = np.asarray(inp["y"], float)
    desc = {k: inp[k] for k in ("device", "targets", "gases", "options")}
    if v.get("key", {}).get("clause") == "heat_hot_to_cold":
        from ebisim.simulation._result import Rate
        dy, ex = advcorr.impl_rhs(m, y); ct = np.array(ex[Rate.T_COLLISIONAL_THERMALISATION]); nq = m.nq
        idx = [int(i) for i in np.nonzero(y[:nq] > 1e-3)[0]]
        bad = len(idx) == 2 and any(np.sign(ct[idx[a]]) != np.sign(y[nq + idx[b]] - y[nq + idx[a]]) for a, b in ((0, 1), (1, 0)))
        return v if bad else None
    res = advstmt.stmt_balance(m, y, desc) + (advstmt.stmt_rates(m, y, desc) if (prop or PROP) == "C05" else [])
    r = [x for x in res if x["key"] == v["key"]]
    return r[0] if r else None
