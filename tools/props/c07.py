"""C07 — Lotz ionisation cross sections: correspondence, independent numerical statement."""
import numpy as np
import common, xscorr

LEVEL = "proof"
LEMMA_MODULES = ["Consts", "Lotz"]
RULE = ("generated tables vs Element arrays: ALL 105 elements, exact; Lotz coefficient arrays vs Xs.lotzEntry: ALL 105 elements, bit-exact; "
        "eixs_vec vs Xs.eixsVec on a log grid 0.1 eV..10 MeV plus, for sampled (quick) / all (thorough) occupied (cs, shell) entries, the binding "
        "energy itself and both binary64 neighbours; exact zero pattern + 1e-11 relative. non-trivial = some entry above threshold; "
        "distinct = distinct (Z, energy)")
MONITORED = []
OUTSIDE = ["rounding only; the five bad occupation rows (C11 findings) are used as tabulated"]
ASSUMPTIONS = ["libm log/exp/pow of numba and of Lean's Float agree (observed: bit-identical)"]


def run(ctx):
    xscorr.corr_tables(ctx)
    xscorr.corr_lotz(ctx)
    ctx.exhaustive = True   # for the table / coefficient part
    zs = xscorr.zs_for(ctx, 24)
    if ctx.thorough:
        xscorr.corr_eixs(ctx, zs, n_grid=40, n_thr=None if len(zs) <= 30 else 40)
    else:
        xscorr.corr_eixs(ctx, zs, n_grid=6, n_thr=5)
    ctx.cov["elements_eixs"] = zs


# ---- independent statement of the property (numpy, from the property text) -----------------

def spec_coef(z, cs, shell_idx, cfg_row0):
    """documented lookup rule"""
    import ebisim.xs as X
    from ebisim.resources import SHELL_ORDER
    name = SHELL_ORDER[shell_idx]
    stub = name[:2]
    if z <= 20:
        tab = X._LOTZ_ADVANCED_TABLE[z]
        if cs in tab and cs < len(tab):
            if stub in tab[cs]:
                a, b, c = tab[cs][stub]
                return a * 1e-18, b, c
        return 4.5e-18, 0.0, 0.0
    if cs == 0:
        n, l = int(name[0]), name[1]
        ne = int(cfg_row0[shell_idx])
        if l != "s":
            other = stub + ("+" if name[2] == "-" else "-")
            if other in SHELL_ORDER:
                j = SHELL_ORDER.index(other)
                if j < len(cfg_row0):
                    ne += int(cfg_row0[j])
        cls = "n" if ((l in "sp" and n > 3) or (l == "d" and n > 4) or l == "f") else str(n)
        a, b, c = X._LOTZ_NEUTRAL_TABLE[f"{cls}{l}{ne}"]
        return a * 1e-18, b, c
    return 4.5e-18, 0.0, 0.0


def spec_eixs(el, E):
    from ebisim.physconst import M_E_EV
    z = el.z
    out = np.zeros(z + 1)
    t = E / M_E_EV
    for cs in range(z):
        s = 0.0
        for sh in range(el.e_cfg.shape[1]):
            n = el.e_cfg[cs, sh]; P = el.e_bind[cs, sh]
            if n > 0 and E > P:
                a, b, c = spec_coef(z, cs, sh, el.e_cfg[0])
                i = P / M_E_EV
                g = (2 + i) / (2 + t) * ((1 + t) / (1 + i)) ** 2 * (((i + t) * (2 + t) * (1 + i) ** 2) / (t * (2 + t) * (1 + i) ** 2 + i * (2 + i))) ** 1.5
                s += g * a * n * np.log(E / P) / (E * P) * (1 - b * np.exp(-c * (E / P - 1)))
        out[cs] = s
    return out


def stmt(z, E):
    import ebisim
    el = xscorr.element(z)
    v = ebisim.eixs_vec(el, float(E))
    out = []
    def add(clause, what):
        out.append({"key": {"clause": clause, "Z": int(z)}, "what": what, "input": {"Z": int(z), "E": float(E)}})
    if v.shape != (z + 1,) or not np.all(np.isfinite(v)) or (v < 0).any():
        add("finite_nonneg", f"eixs_vec(Z={z}, E={E!r}) has negative / non-finite entries or wrong length")
        return out
    if v[-1] != 0:
        add("bare_zero", f"eixs_vec(Z={z}, E={E!r})[Z] = {v[-1]!r} for the bare nucleus")
    occ = el.e_cfg > 0
    thr = np.array([el.e_bind[cs][occ[cs]].min() if occ[cs].any() else np.inf for cs in range(z)])
    below = E <= thr
    if (v[:-1][below] != 0).any():
        cs = int(np.argmax(below & (v[:-1] != 0))); add("zero_below_threshold", f"eixs_vec(Z={z}, E={E!r})[{cs}] = {v[cs]!r} although E <= smallest binding energy {thr[cs]!r}")
    if (v[:-1][~below] <= 0).any():
        cs = int(np.argmax(~below & (v[:-1] <= 0))); add("positive_above_threshold", f"eixs_vec(Z={z}, E={E!r})[{cs}] = {v[cs]!r} although E > smallest binding energy {thr[cs]!r}")
    sp = spec_eixs(el, float(E))
    ok, w, i = common.compare(v, sp, 1e-9)
    if not ok:
        add("lotz_formula", f"eixs_vec(Z={z}, E={E!r})[{i}] = {v[i]!r} but the Lotz sum with the documented coefficients gives {sp[i]!r}")
    return out


ALWAYS_SEARCH = True


def threshold_sweep(ctx):
    """exhaustive over all 5565 charge states: exactly 0 at and one ulp below the smallest binding
    energy, positive one ulp above (the real kernel, no model involved)"""
    import ebisim
    V = []
    n = 0
    for z in range(1, 106):
        el = xscorr.element(z)
        occ = el.e_cfg > 0
        for cs in range(z):
            thr = el.e_bind[cs][occ[cs]].min()
            for e, want_pos in ((thr, False), (np.nextafter(thr, 0), False), (np.nextafter(thr, np.inf), True)):
                v = ebisim.eixs_vec(el, float(e))[cs]
                n += 1
                if (v > 0) != want_pos or not np.isfinite(v) or v < 0:
                    V.append({"key": {"clause": "threshold_sweep", "Z": z, "cs": cs}, "what": f"eixs_vec(Z={z}, E={float(e)!r})[{cs}] = {v!r}; smallest binding energy of the charge state is {float(thr)!r}",
                              "input": {"Z": z, "E": float(e)}})
                    break
        if len(V) > 5:
            break
    ctx.count("threshold_probes", n)
    ctx.evaluations += n
    return V


def search(ctx):
    rng = np.random.default_rng([ctx.seed, 707])
    V = threshold_sweep(ctx)
    cases = []
    for f in ctx.failures:
        inp = f.get("input") or {}
        if "Z" in inp:
            z = int(inp["Z"])
            if "E" in inp:
                cases.append((z, float(inp["E"])))
            else:
                el = xscorr.element(z)
                for cs in range(min(z, 4)):
                    for e in el.e_bind[cs][el.e_cfg[cs] > 0][:3]:
                        cases += [(z, float(e) * 1.5), (z, float(e))]
                cases += [(z, 10 ** x) for x in (1, 2, 3, 4, 5)]
    zs = list(range(1, 106)) if (ctx.thorough or ctx.failures) else list(rng.choice(np.arange(1, 106), 12, replace=False))
    for z in zs:
        el = xscorr.element(int(z))
        eb = el.e_bind[el.e_cfg > 0]
        for e in rng.choice(eb, min(4, eb.size), replace=False):
            cases += [(int(z), float(e)), (int(z), float(np.nextafter(e, np.inf))), (int(z), float(np.nextafter(e, 0)))]
        cases += [(int(z), float(10 ** rng.uniform(-1, 7))) for _ in range(3)]
    for z, e in cases:
        V += stmt(z, e)
        ctx.count("search_cases")
        if len(V) > 20:
            break
    return V


def replay(ctx, data):
    inp = data.get("violation", {}).get("input", {})
    if "Z" in inp and "E" in inp:
        r = stmt(int(inp["Z"]), float(inp["E"]))
        return r[0] if r else None
    return None
