"""C18 — result objects expose exactly the solver's solution, per target."""
import logging
import numpy as np
import common, gens, advcorr
from leanio import farr, narr, bits, dec

LEVEL = "proof"
LEMMA_MODULES = []
ALWAYS_SEARCH = True
RULE = ("advanced_simulation with 1..4 targets (Z<=8, gas and ion injection, any order) x dense_output in {F,T} x rates in {F,T} and basic_simulation "
        "x dense_output in {F,T}: lb/ub vs Adv.bounds, per-target N/kbT of every stored column vs Res.assemble (bit-exact), first column vs Adv.initial "
        "(bit-exact), dense queries vs Res.denseAbundance/denseTemperature of the solver's own interpolant (bit-exact), non-dense queries vs Res.lerp "
        "(1e-12), domain decisions vs Res.outOfDomain at stored, interior, boundary and exterior times (incl. one ulp outside). "
        "non-trivial = simulations with >= 2 targets; distinct = (target list, dense, rates)")
MONITORED = ["query at every stored time equals the stored column (1e-9 of the column maximum; dense interpolants are exact only up to rounding)",
             "rate arrays: one row per charge state (or one row for scalars), one column per stored time, rows equal to the block of the kernel's rates",
             "temperatures of states at the minimal density are >= fwhm*q in the first column, all other first-column entries are the declared ones"]
OUTSIDE = ["scipy's dense-output interpolants and interp1d themselves (their values are taken as given; only the addressing is modelled)"]
ASSUMPTIONS = ["solve_ivp returns strictly increasing times"]


def _sim_adv(rng, k, dense, rates, zmax=8):
    from ebisim.simulation import advanced_simulation
    import ebisim
    dev, dkw = gens.make_device(rng, n_grid=60)
    tg, tdesc = gens.make_targets(rng, dev, k=k, zmax=zmax)
    if k >= 2:
        # the same element twice (e.g. injected ions plus residual gas of the same species)
        i, j = (int(x) for x in rng.choice(k, 2, replace=False))
        z = tg[i].z
        if rng.integers(2):
            p, T = float(10 ** rng.uniform(-11, -8)), float(rng.uniform(80, 500))
            tg[j] = ebisim.Element.get_gas(z, p, dev.r_dt, T, cx=bool(rng.integers(2))); tdesc[j] = ("gas", z, p, T, bool(tg[j].cx))
        else:
            nl, kT, q = float(10 ** rng.uniform(3, 8)), float(10 ** rng.uniform(0, 2)), int(rng.integers(0, z + 1))
            tg[j] = ebisim.Element.get_ions(z, nl, kT, q, cx=bool(rng.integers(2))); tdesc[j] = ("ions", z, nl, kT, q, bool(tg[j].cx))
    # explicit initial conditions: arbitrary densities, one common or arbitrary temperatures, empty states hotter / colder than fwhm*q
    i = int(rng.integers(0, k))
    z = tg[i].z
    n = np.where(rng.uniform(size=z + 1) < 0.5, 10 ** rng.uniform(2, 7, z + 1), _min_n() * rng.choice([1.0, 0.5, 1.000001], z + 1))
    n[int(rng.integers(0, z + 1))] = 1e5
    kT = np.full(z + 1, float(10 ** rng.uniform(0, 2.5))) if rng.integers(2) else 10 ** rng.uniform(-1, 3, z + 1)
    tg[i] = ebisim.Element.get(z, n=n, kT=kT, cx=bool(rng.integers(2)))
    tdesc[i] = ("explicit", z, n.tolist(), kT.tolist(), bool(tg[i].cx))
    bg, bdesc = gens.make_gases(rng, k=1)
    opts, okw = gens.make_options(rng, RADIAL_DYNAMICS=False, RECOMPUTE_CROSS_SECTIONS=False)
    tmax = float(10 ** rng.uniform(-5, -3))
    sk = {"dense_output": True} if dense else None
    # user controls that must reach the solver unchanged (method default Radau unless given)
    if rng.integers(3) == 0:
        sk = dict(sk or {}); sk["rtol"] = float(10 ** rng.uniform(-3.5, -3)); sk["atol"] = float(10 ** rng.uniform(-7, -6))
        if rng.integers(2): sk["method"] = "BDF"
    sk_given = None if sk is None else dict(sk)
    # observe the solver call from outside (no source change): what advanced_simulation hands to scipy.integrate.solve_ivp
    import ebisim.simulation._advanced as _adv
    cap = {}
    orig = _adv.solve_ivp
    def spy(fun, t_span, y0, *a, **kw):
        r = orig(fun, t_span, y0, *a, **kw)
        # the callable is evaluated here, while the simulation's thread pool is still alive
        Y = np.abs(np.asarray(y0, float))[:, None] * (1 + 0.1 * np.random.default_rng(len(y0)).uniform(size=(len(y0), 3)))
        with np.errstate(all="ignore"):
            F = np.asarray(fun(0.0, Y.copy()))
        cap.update(t_span=tuple(t_span), y0=np.array(y0, copy=True), args=a, kwargs=dict(kw), ret=r, Y=Y, F=F)
        return r
    _adv.solve_ivp = spy
    try:
        nth = int(rng.choice([1, 1, 3]))
        try:
            res = advanced_simulation(dev, tg, t_max=tmax, bg_gases=bg, options=opts, rates=rates, verbose=False, solver_kwargs=sk, n_threads=nth)
        except ValueError as e:
            # scipy's BDF can step the stiff system into non-finite territory where Radau (the package's default) does not; the property
            # does not quantify over integrators, so such a case is repeated with the default method
            import os, pickle
            if os.environ.get("VERIF_DEBUG"):
                pickle.dump(dict(dev=dev._asdict(), tg=[t._asdict() for t in tg], bg=[b._asdict() for b in bg], opts=opts._asdict(), tmax=tmax, sk=sk, nth=nth), open("/root/scratch/c18_fail.pkl", "wb"))
            if not (sk and sk.get("method") == "BDF" and "infs or NaNs" in str(e)): raise
            sk = {k_: v_ for k_, v_ in sk.items() if k_ != "method"}; sk_given = dict(sk); cap.clear()
            res = advanced_simulation(dev, tg, t_max=tmax, bg_gases=bg, options=opts, rates=rates, verbose=False, solver_kwargs=sk, n_threads=nth)
    finally:
        _adv.solve_ivp = orig
    res = res if isinstance(res, tuple) else (res,)
    desc = {"device": dkw, "targets": tdesc, "gases": bdesc, "options": {a: b for a, b in okw.items() if isinstance(b, bool)}, "t_max": tmax, "dense": dense, "rates": rates,
            "solver_kwargs": sk_given, "n_threads": nth}
    _CALLS[id(res[0])] = (cap, sk_given, tmax)
    return dev, tg, res, desc


_CALLS = {}


def check_call(ctx, D, res, m, desc, viol):
    """the record handed to the solver (`AdvSim.call`): y0 = assembled initial conditions, t_span = (0, t_max), vectorized, method default
    Radau, user controls unchanged; the callable is the kernel, column by column; the result objects hold the solver's own arrays"""
    import ebisim.simulation._advanced as _adv
    cap, sk_given, tmax = _CALLS.pop(id(res[0]), (None, None, None))
    if not cap:
        viol("solver_call", "advanced_simulation did not call scipy.integrate.solve_ivp"); return
    ctx.count("captured_calls")
    kw = cap["kwargs"]
    t = D.ask(f"advcall {bits(tmax)} " + ("1 " + (sk_given or {}).get("method") if (sk_given or {}).get("method") else "0"))
    m_t0, m_t1, m_method, m_vec = dec([t[0]])[0], dec([t[1]])[0], t[2], t[3] == "1"
    if cap["t_span"] != (m_t0, m_t1) or cap["t_span"] != (0, tmax):
        viol("solver_call", f"solve_ivp integrates over {cap['t_span']!r}, not (0, t_max) = (0, {tmax!r})")
    if kw.get("method") != m_method:
        viol("solver_call", f"solver method {kw.get('method')!r}, expected {m_method!r} (Radau unless the caller chooses)")
    if bool(kw.get("vectorized")) != m_vec:
        viol("solver_call", "the right-hand side is not declared vectorized")
    for k_, v_ in (sk_given or {}).items():
        if kw.get(k_) != v_:
            viol("solver_call", f"solver control {k_}={v_!r} reaches solve_ivp as {kw.get(k_)!r}")
    y0 = _adv._assemble_initial_conditions(res[0].model)
    if cap["y0"].shape != y0.shape or not np.array_equal(cap["y0"], y0):
        viol("solver_call", "y0 handed to the solver is not the assembled initial condition")
    # the callable: a block of states is evaluated column by column by the kernel
    Y, F = cap["Y"], cap["F"]
    with np.errstate(all="ignore"):
        ref = np.stack([_adv._adv_rhs(res[0].model, 0.0, np.ascontiguousarray(Y[:, c])) for c in range(3)], axis=1)
    if F.shape != ref.shape or not np.array_equal(F, ref, equal_nan=True):
        viol("solver_call", "the callable handed to the solver is not the right-hand side kernel evaluated column by column")
    sol = cap["ret"]
    if res[0].res is not sol:
        viol("solver_call", "the result object does not hold the solver's own solution object")


def _raises(f, *a):
    try:
        return None, f(*a)
    except ValueError:
        return "ValueError", None
    except Exception as e:
        return type(e).__name__ + ": " + str(e)[:60], None


def query_times(rng, t):
    t0, t1 = float(t.min()), float(t.max())
    inside = [t0, t1, float(t[len(t) // 2]), float(rng.uniform(t0, t1)), float(rng.uniform(t0, t1)), float(0.5 * (t[0] + t[1]))]
    outside = [float(np.nextafter(t1, np.inf)), float(np.nextafter(t0, -np.inf)), -1e-9, 2 * t1 + 1e-9, -t1]
    return inside, outside


def check_adv(ctx, rng, k, dense, rates, V):
    D = ctx.driver
    for attempt in range(4):
        try:
            dev, tg, res, desc = _sim_adv(rng, k, dense, rates)
            break
        except ValueError as e:
            # the integration itself left the domain of the model: with random switches (e.g. recombination cooling without any heating) a
            # freshly populated state can be driven to the temperature floor, where the Boltzmann factors underflow and scipy's LU
            # factorisation rejects the non-finite Jacobian.  That is a property of the drawn scenario (outside C03's "temperatures the
            # grid can resolve"), not of the result objects: draw another scenario; four blow-ups in a row are reported.
            if "infs or NaNs" not in str(e) or attempt == 3: raise
            ctx.count("integration_left_domain_redrawn")
    ctx.evaluations += 1
    if len(tg) >= 2: ctx.seen((str(desc["targets"]), dense, rates))
    ctx.count(f"adv_dense{int(dense)}_rates{int(rates)}_k{len(tg)}")
    def viol(clause, what, **kw):
        V.append({"key": {"clause": clause}, "what": what, "input": dict(desc, **kw)})
    sol = res[0].res
    m = advcorr.retype(res[0].model)
    nq = m.nq
    zs = [t.z for t in tg]
    # --- bounds
    b = [int(x) for x in D.ask("bounds " + narr(zs))]
    mb = [(b[2 * i], b[2 * i + 1]) for i in range(len(zs))]
    if [(int(l), int(u)) for l, u in zip(m.lb, m.ub)] != mb:
        ctx.fail("correspondence", f"lb/ub {list(m.lb)}/{list(m.ub)} differ from Adv.bounds {mb}", inp=desc)
    # --- per-target blocks of (a subset of) the stored columns
    nt = sol.t.size
    cols = sorted(set([0, nt - 1] + [int(c) for c in rng.integers(0, nt, 6)]))
    line = f"resassemble {nq} {len(cols)} " + " ".join(farr(sol.y[:, c]) for c in cols) + f" {len(mb)} " + " ".join(f"{l} {u}" for l, u in mb)
    tok = D.ask(line)
    blocks, cur = [], []
    part = {"n": [], "k": []}; which = "n"
    for x in tok + ["|"]:
        if x == "|":
            blocks.append((dec(part["n"]), dec(part["k"]))); part = {"n": [], "k": []}; which = "n"
        elif x == ";": which = "k"
        else: part[which].append(x)
    bad = set()
    for i, r in enumerate(res):
        l, u = mb[i]
        mN = blocks[i][0].reshape(len(cols), u - l).T; mK = blocks[i][1].reshape(len(cols), u - l).T
        if r.N.shape != (zs[i] + 1, nt) or r.kbT.shape != (zs[i] + 1, nt) or not np.array_equal(r.N[:, cols], mN) or not np.array_equal(r.kbT[:, cols], mK):
            bad.add(i)
            ctx.fail("correspondence", f"target #{i}: stored N/kbT differ from Res.assemble of the joint solution", inp=dict(desc, target=i))
        # statement, independent of the model: own block of the joint solution
        lo = sum(z + 1 for z in zs[:i])
        if r.N.shape != (zs[i] + 1, nt) or not np.array_equal(r.N, sol.y[lo:lo + zs[i] + 1]) or not np.array_equal(r.kbT, sol.y[nq + lo:nq + lo + zs[i] + 1]):
            viol("own_block", f"target #{i} (Z={zs[i]}) does not hold rows [{lo},{lo+zs[i]+1}) / [{nq+lo},{nq+lo+zs[i]+1}) of the joint solution", target=i)
            bad.add(i)
        if r.t is not sol.t and not np.array_equal(r.t, sol.t):
            viol("own_block", f"target #{i}: stored times differ from the solver's", target=i)
    # --- the record handed to the solver
    check_call(ctx, D, res, m, desc, viol)
    # --- first column
    y0 = advcorr.compare_initial(ctx, m, desc)
    if not np.array_equal(sol.y[:, 0], y0) or sol.t[0] != 0:
        viol("first_column", "first stored column is not the assembled initial condition at t = 0")
    for i, tg_ in enumerate(tg):
        l, u = mb[i]
        n0, k0 = sol.y[l:u, 0], sol.y[nq + l:nq + u, 0]
        unpop = tg_.n < 1.00001 * _min_n()
        if not np.array_equal(n0, tg_.n):
            viol("first_column", f"target #{i}: initial densities are not the declared ones", target=i)
        if (k0[unpop] < dev.fwhm * np.arange(tg_.z + 1)[unpop]).any():
            viol("first_column", f"target #{i}: temperature of an unpopulated state starts below fwhm*q", target=i)
        if not np.array_equal(k0[~unpop], tg_.kT[~unpop]):
            viol("first_column", f"target #{i}: declared initial temperatures of populated states altered", target=i)
        if (k0[unpop] < tg_.kT[unpop]).any():
            viol("first_column", f"target #{i}: temperature of an unpopulated state starts below its declared value (may only be raised)", target=i)
    # --- queries
    inside, outside = query_times(rng, sol.t)
    tline = farr(sol.t)
    for i, r in enumerate(res):
        l, u = mb[i]
        if i in bad: continue
        for t in inside + outside:
            md = D.ask(f"resdomain {tline} {bits(t)}")[0]
            ea, a = _raises(r.abundance_at_time, t)
            ek, kk = _raises(r.temperature_at_time, t)
            want_err = not (sol.t.min() <= t <= sol.t.max())
            if (md == "err") != (ea == "ValueError") or (md == "err") != (ek == "ValueError"):
                if ea in (None, "ValueError") and ek in (None, "ValueError"):
                    ctx.fail("correspondence", f"target #{i}: query at t={t!r}: abundance raises {ea}, temperature raises {ek}, model says {md}", inp=dict(desc, target=i, t=t))
            if (ea == "ValueError") != want_err or (ek == "ValueError") != want_err or (ea not in (None, "ValueError")) or (ek not in (None, "ValueError")):
                viol("domain", f"target #{i}: query at t={t!r} (simulated [{sol.t.min()!r}, {sol.t.max()!r}]): abundance -> {ea or 'value'}, temperature -> {ek or 'value'}", target=i, t=t)
                continue
            if want_err: continue
            ctx.count("queries")
            if dense:
                full = sol.sol(t)
                md = D.ask(f"resdense {l} {u} {farr(full)}")
                sep = md.index(";")
                if not np.array_equal(np.asarray(a), dec(md[:sep])) or not np.array_equal(np.asarray(kk), dec(md[sep + 1:])):
                    ctx.fail("correspondence", f"target #{i}: dense query at t={t!r} differs from Res.denseAbundance/denseTemperature of the solver's interpolant", inp=dict(desc, target=i, t=t))
                if not np.array_equal(np.asarray(a), full[l:u]) or not np.array_equal(np.asarray(kk), full[nq + l:nq + u]):
                    viol("dense", f"target #{i}: query at t={t!r} is not the target's block of the solver's dense output", target=i, t=t)
            else:
                for name, got, Y in (("abundance", a, r.N), ("temperature", kk, r.kbT)):
                    ml = dec(D.ask(f"reslerp {tline} {nt} " + " ".join(farr(Y[:, c]) for c in range(nt)) + f" {bits(t)}"))
                    sc = np.abs(Y).max(axis=1) + 1e-300
                    if ml.shape != np.asarray(got).shape or (np.abs(ml - got) > 1e-11 * sc).any():
                        ctx.fail("correspondence", f"target #{i}: {name} query at t={t!r} differs from Res.lerp (worst {np.abs((ml - got) / sc).max():.2e})", inp=dict(desc, target=i, t=t))
                    j = int(np.clip(np.searchsorted(sol.t, t), 1, nt - 1))
                    w = (t - sol.t[j - 1]) / (sol.t[j] - sol.t[j - 1])
                    ref = (1 - w) * Y[:, j - 1] + w * Y[:, j]
                    if (np.abs(ref - got) > 1e-9 * sc).any():
                        viol("linear", f"target #{i}: {name} at t={t!r} is not the linear interpolation of the stored columns", target=i, t=t)
        # stored times return the stored column
        for c in cols:
            t = float(sol.t[c])
            ea, a = _raises(r.abundance_at_time, t); ek, kk = _raises(r.temperature_at_time, t)
            if ea or ek:
                viol("stored_time", f"target #{i}: query at the stored time {t!r} raises {ea or ek}", target=i, t=t); continue
            scN = np.abs(r.N).max(axis=1) * 1e-7 + 1e-300; scK = np.abs(r.kbT).max(axis=1) * 1e-7 + 1e-300
            if (np.abs(a - r.N[:, c]) > scN).any() or (np.abs(kk - r.kbT[:, c]) > scK).any():
                viol("stored_time", f"target #{i}: query at the stored time {t!r} (column {c}) differs from the stored column", target=i, t=t)
        # rates
        if rates:
            if not r.rates:
                viol("rates", f"target #{i}: rates requested but not stored", target=i)
            else:
                c = cols[-1]
                dy, ex = advcorr.impl_rhs(m, np.ascontiguousarray(sol.y[:, c]))
                for key, arr in r.rates.items():
                    ref = np.array(ex[key])
                    exp = ref[l:u] if ref.size != 1 else ref
                    rows_ok = arr.shape == ((zs[i] + 1) if ref.size != 1 else 1, nt)
                    if not rows_ok or not np.array_equal(arr[:, c], exp, equal_nan=True):
                        viol("rates", f"target #{i}: rate {key!r} has shape {arr.shape} / values that are not rows [{l},{u}) of the kernel's rate (expected {(exp.size, nt)})", target=i, key=int(key))
                        break
        elif r.rates is not None:
            viol("rates", f"target #{i}: rates stored although not requested", target=i)
    if len(ctx.samples) < 2:
        ctx.sample({"targets": desc["targets"], "dense": dense, "rates": rates, "columns": int(nt), "nq": int(nq), "bounds": mb})


def _min_n():
    from ebisim.physconst import MINIMAL_N_1D
    return MINIMAL_N_1D


def check_basic(ctx, rng, dense, V):
    import ebisim
    D = ctx.driver
    z = int(rng.choice([2, 3, 6, 8, 10, 18]))
    kw = dict(element=z, j=float(rng.uniform(20, 500)), e_kin=float(rng.uniform(500, 8000)), t_max=float(10 ** rng.uniform(-3, 0)), CNI=bool(rng.integers(0, 2)))
    if dense: kw["solver_kwargs"] = {"dense_output": True}
    r = ebisim.basic_simulation(**kw)
    ctx.evaluations += 1; ctx.count(f"basic_dense{int(dense)}")
    desc = {"basic": True, "kw": {k: v for k, v in kw.items()}, "dense": dense}
    def viol(clause, what, **k2):
        V.append({"key": {"clause": clause}, "what": what, "input": dict(desc, **k2)})
    sol = r.res
    nt = sol.t.size
    if not np.array_equal(r.N, sol.y) or not np.array_equal(r.t, sol.t):
        viol("own_block", "basic result does not hold the solver's solution")
    inside, outside = query_times(rng, sol.t)
    tline = farr(sol.t)
    for t in inside + outside + [float(x) for x in sol.t[:: max(1, nt // 5)]]:
        md = D.ask(f"resdomain {tline} {bits(t)}")[0]
        ea, a = _raises(r.abundance_at_time, t)
        want_err = not (sol.t.min() <= t <= sol.t.max())
        if ea in (None, "ValueError") and (md == "err") != (ea == "ValueError"):
            ctx.fail("correspondence", f"basic: query at t={t!r} raises {ea}, model says {md}", inp=dict(desc, t=t))
        if (ea == "ValueError") != want_err or ea not in (None, "ValueError"):
            viol("domain", f"basic: query at t={t!r} (simulated [{sol.t.min()!r}, {sol.t.max()!r}]) -> {ea or 'value'}", t=t); continue
        if want_err: continue
        ctx.count("queries")
        sc = np.abs(r.N).max(axis=1) + 1e-300
        if dense:
            if not np.array_equal(a, sol.sol(t)):
                viol("dense", f"basic: query at t={t!r} is not the solver's dense output", t=t)
        else:
            ml = dec(D.ask(f"reslerp {tline} {nt} " + " ".join(farr(r.N[:, c]) for c in range(nt)) + f" {bits(t)}"))
            if ml.shape != a.shape or (np.abs(ml - a) > 1e-11 * sc).any():
                ctx.fail("correspondence", f"basic: query at t={t!r} differs from Res.lerp", inp=dict(desc, t=t))
            j = int(np.clip(np.searchsorted(sol.t, t), 1, nt - 1))
            w = (t - sol.t[j - 1]) / (sol.t[j] - sol.t[j - 1])
            if (np.abs((1 - w) * r.N[:, j - 1] + w * r.N[:, j] - a) > 1e-9 * sc).any():
                viol("linear", f"basic: abundance at t={t!r} is not the linear interpolation of the stored columns", t=t)
        hit = np.nonzero(sol.t == t)[0]
        if hit.size and (np.abs(a - r.N[:, hit[0]]) > 1e-7 * sc).any():
            viol("stored_time", f"basic: query at the stored time {t!r} differs from the stored column", t=t)


def plan(ctx):
    # (k targets, dense, rates)
    if ctx.thorough:
        return [(k, d, r) for k in (1, 2, 3, 4) for d in (False, True) for r in (False, True)]
    return [(1, True, False), (2, False, True), (3, True, True), (4, False, False)]


def run(ctx):
    logging.getLogger("ebisim").setLevel(logging.ERROR)
    rng = ctx.rng
    V = []
    ctx.violations = V
    for k, d, r in plan(ctx):
        try:
            check_adv(ctx, rng, k, d, r, V)
        except (ValueError, IndexError, TypeError, KeyError, AttributeError) as e:
            import os, traceback
            if os.environ.get("VERIF_DEBUG"): traceback.print_exc()
            # a comparison that cannot even be carried out (shapes, missing fields): the result object no longer has the modelled layout
            ctx.fail("correspondence", f"result object of advanced_simulation (targets={k}, dense={d}, rates={r}) cannot be compared with the model: {type(e).__name__}: {str(e)[:200]}")
        if len(V) > 10 or len(ctx.failures) > 5: return
    for d in ((False, True) * (3 if ctx.thorough else 1)):
        try:
            check_basic(ctx, rng, d, V)
        except (ValueError, IndexError, TypeError, KeyError, AttributeError) as e:
            ctx.fail("correspondence", f"result object of basic_simulation (dense={d}) cannot be compared with the model: {type(e).__name__}: {str(e)[:200]}")


def search(ctx):
    return []


def replay(ctx, data):
    v = data.get("violation", {})
    inp = v.get("input") or {}
    V = []
    rng = np.random.default_rng(ctx.seed)
    ctx.driver  # noqa
    if inp.get("basic"):
        check_basic(ctx, rng, bool(inp.get("dense")), V)
    elif "targets" in inp:
        for _ in range(4):
            check_adv(ctx, rng, len(inp["targets"]), bool(inp.get("dense")), bool(inp.get("rates")), V)
            if V: break
    r = [x for x in V if x["key"] == v.get("key")]
    return r[0] if r else None
