"""C10 — vector / matrix / energy-scan forms agree; charge exchange."""
import numpy as np
import common, xscorr
from leanio import farr, bits, dec, unbits, ulp_diff

LEVEL = "proof"
LEMMA_MODULES = ["MatExp", "RateMat", "Consts"]
RULE = ("*_mat vs the modelled arrangement of the implementation's own vectors (bit-exact); *_energyscan for the visited elements x three sampling modes "
        "x n in {2,3,7,50,1000}: returned energies vs Xs.eSamp (1e-12), columns vs the implementation's vector form at the returned energies (bit-exact); "
        "cxxs for q in 0..105 (int and float dtype, scalar and array) x IP in (3,25) vs the generated definition (1e-11). "
        "non-trivial = non-empty scan / q>0; distinct = distinct (function, Z, mode, n) or (q, ip)")
MONITORED = []
OUTSIDE = ["numba's np.linspace / 10**x are reproduced operation by operation; agreement to 1e-12, not bit-exactness, is required"]
ASSUMPTIONS = []


def run(ctx):
    import ebisim
    import ebisim.xs as X
    D = ctx.driver
    rng = ctx.rng
    zs = list(range(1, 106)) if ctx.thorough else xscorr.zs_for(ctx, 26)
    xscorr.corr_mat(ctx, zs[:: (1 if ctx.thorough else 2)])
    ns = [2, 3, 7, 50, 1000] if ctx.thorough else [2, 7, 50]
    for z in zs:
        el = xscorr.element(z)
        n = int(rng.choice(ns))
        lo = float(10 ** rng.uniform(-2, 2)); hi = lo * float(10 ** rng.uniform(0.5, 3))
        # the caller's array is returned as it is: ascending, descending (a reversed view), or in measurement order
        arr = 10 ** rng.uniform(-1, 5, int(rng.choice([1, 3, 4, 9])))
        arr = [np.sort(arr), np.sort(arr)[::-1], arr][z % 3]
        w = float(10 ** rng.uniform(-0.3, 2))
        for fname, vec in (("eixs", lambda e: ebisim.eixs_vec(el, e)), ("rrxs", lambda e: ebisim.rrxs_vec(el, e)), ("drxs", lambda e: ebisim.drxs_vec(el, e, w))):
            for mode in ("none", "pair", "list"):
                if fname == "drxs" and mode == "none" and (el.dr_e_res.size == 0 or el.dr_e_res.min() - 3 * w <= 0):
                    continue
                ek = {"none": None, "pair": np.array([lo, hi]), "list": arr}[mode]
                if fname == "drxs" and mode == "list" and el.dr_e_res.size:
                    # caller's energies on, near and far outside the resonances (in units of sigma)
                    sg = w / 2.35482
                    er = float(rng.choice(el.dr_e_res)); top = float(el.dr_e_res.max()); bot = float(el.dr_e_res.min())
                    arr2 = np.array([er, er + 3 * sg, top + 8 * sg, top + 15 * sg, top + 25 * sg, top + 36 * sg, bot - 12 * sg, bot - 30 * sg])
                    arr2 = np.sort(arr2[arr2 > 0])
                    if z % 2: arr2 = arr2[::-1]
                    if arr2.size > 2:
                        ek = arr2
                if fname == "drxs":
                    es, scan = ebisim.drxs_energyscan(el, w, ek, n)
                    model = {"none": lambda: D.floats(f"drsamp {z} {bits(w)} {n}"), "pair": lambda: D.floats(f"logspace {bits(lo)} {bits(hi)} {n}"), "list": lambda: np.asarray(ek, float)}[mode]()
                else:
                    f = ebisim.eixs_energyscan if fname == "eixs" else ebisim.rrxs_energyscan
                    es, scan = f(el, ek, n)
                    model = {"none": lambda: D.floats(f"esamp {z} {n}"), "pair": lambda: D.floats(f"logspace {bits(lo)} {bits(hi)} {n}"), "list": lambda: arr}[mode]()
                ctx.evaluations += 1
                ctx.seen((fname, z, mode, n))
                es = np.asarray(es, float)
                desc = {"fn": fname + "_energyscan", "Z": z, "mode": mode, "n": n, "lo": lo, "hi": hi, "w": w}
                if es.shape != model.shape or not np.allclose(es, model, rtol=1e-12, atol=0):
                    ctx.fail("correspondence", f"{fname}_energyscan(Z={z}, mode={mode}, n={n}) returns energies {es[:3]}..{es[-1:]} but Xs.eSamp gives {model[:3]}..{model[-1:]}", inp=desc)
                    continue
                if scan.shape != (z + 1, es.size):
                    ctx.fail("correspondence", f"{fname}_energyscan(Z={z}) scan has shape {scan.shape}", inp=desc); continue
                cols = list(range(es.size)) if es.size <= 12 else [0, es.size - 1] + list(rng.integers(0, es.size, 3))
                for c in cols:
                    if not np.array_equal(scan[:, c], vec(float(es[c]))):
                        ctx.fail("correspondence", f"{fname}_energyscan(Z={z}, mode={mode}) column {c} is not the vector form at the returned energy {es[c]!r}", inp=dict(desc, col=int(c)))
                        break
    # charge exchange
    qs = np.arange(0, 106)
    ips = rng.uniform(3, 25, 12)
    lines, ref = [], []
    for ip in ips:
        arr_i = X.cxxs(qs.astype(np.int32), float(ip)); arr_f = X.cxxs(qs.astype(float), float(ip))
        if not np.array_equal(arr_i, arr_f):
            ctx.fail("correspondence", f"cxxs gives different values for int and float charge states at ip={ip}", inp={"fn": "cxxs", "ip": float(ip)})
        for q in (0, 1, 2, 17, 54, 105):
            sc = X.cxxs(int(q), float(ip))
            if sc != arr_f[q]:
                ctx.fail("correspondence", f"cxxs scalar and array forms differ at q={q}, ip={ip}", inp={"fn": "cxxs", "q": q, "ip": float(ip)})
        for q in qs[:: (1 if ctx.thorough else 5)]:
            lines.append("k cxxs " + farr([float(q), float(ip)])); ref.append(arr_f[q])
            if q > 0: ctx.seen(("cxxs", int(q), float(ip)))
    ans = D.ask_many(lines)
    model = np.array([unbits(a[0]) for a in ans]); ref = np.array(ref)
    ctx.evaluations += len(lines)
    ok, w_, i = common.compare(ref, model, 1e-11)
    if not ok or ((ref == 0) != (model == 0)).any():
        ctx.fail("correspondence", f"cxxs differs from the generated definition (rel {w_:.2e}): {lines[i]}", inp={"fn": "cxxs", "line": lines[i]})
    ctx.sample({"fn": "cxxs", "q": 5, "ip": float(ips[0]), "impl": float(X.cxxs(5, float(ips[0])))})
    ctx.cov["elements"] = len(zs)


def search(ctx):
    import ebisim
    import ebisim.xs as X
    rng = np.random.default_rng([ctx.seed, 1010])
    V = []
    def add(clause, what, inp):
        V.append({"key": dict(clause=clause, **{k: inp[k] for k in ("Z",) if k in inp}), "what": what, "input": inp})
    zs = range(1, 106) if (ctx.thorough or ctx.failures) else rng.choice(np.arange(1, 106), 14, replace=False)
    for z in zs:
        z = int(z); el = xscorr.element(z)
        e = float(10 ** rng.uniform(0.5, 5)); w = float(10 ** rng.uniform(-0.3, 2)); n = z + 1
        trip = [("eixs", ebisim.eixs_vec(el, e), ebisim.eixs_mat(el, e), -1), ("rrxs", ebisim.rrxs_vec(el, e), ebisim.rrxs_mat(el, e), 1),
                ("drxs", ebisim.drxs_vec(el, e, w), ebisim.drxs_mat(el, e, w), 1)]
        if el.dr_e_res.size:
            for row in {int(np.argmin(el.dr_cs)), int(np.argmax(el.dr_cs))}:
                er = float(el.dr_e_res[row]); trip.append(("drxs", ebisim.drxs_vec(el, er, w), ebisim.drxs_mat(el, er, w), 1))
        for name, v, m, sub in trip:
            exp = -np.diag(v) + (np.diag(v[:-1], -1) if sub < 0 else np.diag(v[1:], 1))
            if m.shape != (n, n) or not np.array_equal(m, exp):
                add("mat_arrangement", f"{name}_mat(Z={z}, E={e}) is not minus the vector on the diagonal and the vector one row {'below' if sub<0 else 'above'}", {"Z": z, "E": e, "w": w})
        # default grid covers the binding energies; log spacing; modes
        es, scan = ebisim.eixs_energyscan(el, None, 40)
        eb = el.e_bind[el.e_bind > 0]
        if not (es[0] <= eb.min() and eb.max() <= es[-1]) or np.any(np.diff(es) <= 0):
            add("default_grid_covers", f"default energy grid [{es[0]}, {es[-1]}] of Z={z} does not cover its binding energies [{eb.min()}, {eb.max()}]", {"Z": z})
        lo, hi, k = float(10 ** rng.uniform(-2, 2)), float(10 ** rng.uniform(3, 5)), int(rng.integers(2, 60))
        es, scan = (ebisim.rrxs_energyscan if z % 2 else ebisim.eixs_energyscan)(el, np.array([lo, hi]), k)
        r = np.diff(np.log10(es))
        if es.size != k or abs(es[0] - lo) > 1e-12 * lo or abs(es[-1] - hi) > 1e-12 * hi or np.any(r <= 0) or (k > 2 and np.ptp(r) > 1e-9 * r.mean()):
            add("two_limits_logspaced", f"{'rrxs' if z % 2 else 'eixs'}_energyscan(Z={z}, [{lo},{hi}], {k}) is not {k} log-spaced points between the limits (got {es[0]!r} .. {es[-1]!r})", {"Z": z, "lo": lo, "hi": hi, "n": k})
        arr = 10 ** rng.uniform(0, 5, 5)          # unsorted: the returned sampling energies are the caller's array, in the caller's order
        if z % 2: arr = np.sort(arr)[::-1]
        es, scan = (ebisim.rrxs_energyscan if z % 3 == 0 else ebisim.eixs_energyscan)(el, arr, 7)
        vecf = ebisim.rrxs_vec if z % 3 == 0 else ebisim.eixs_vec
        if not np.array_equal(es, arr) or not all(np.array_equal(scan[:, c], vecf(el, float(arr[c]))) for c in range(arr.size)):
            add("callers_array", f"{'rrxs' if z % 3 == 0 else 'eixs'}_energyscan(Z={z}) does not return the caller's 5-entry array with the vector form per column", {"Z": z})
        if el.dr_e_res.size:
            # every column of a DR scan is the vector form at that energy, also far outside the resonance band
            sg = w / 2.35482
            lo_, hi_ = float(el.dr_e_res.min()), float(el.dr_e_res.max())
            arr = np.array([max(lo_ - 30 * sg, 1e-3), max(lo_ - 12 * sg, 2e-3), lo_, 0.5 * (lo_ + hi_), hi_, hi_ + 12 * sg, hi_ + 30 * sg])
            es, scan = ebisim.drxs_energyscan(el, w, arr, 7)
            bad = [c for c in range(arr.size) if not np.array_equal(scan[:, c], ebisim.drxs_vec(el, float(arr[c]), w))]
            if not np.array_equal(es, arr) or bad:
                add("dr_scan_columns", f"drxs_energyscan(Z={z}, fwhm={w}) column(s) {bad} differ from drxs_vec at the sampled energies {arr[bad].tolist() if bad else ''}", {"Z": z, "w": w, "e": arr.tolist()})
        if not el.dr_e_res.size:
            # an element without resonance data: a caller's array / two limits are sampled as for every other element (all-zero columns)
            arr = 10 ** rng.uniform(1, 4, 5)
            es, scan = ebisim.drxs_energyscan(el, w, arr, 9)
            es2, scan2 = ebisim.drxs_energyscan(el, w, np.array([20.0, 5000.0]), 9)
            if not np.array_equal(es, arr) or scan.shape != (z + 1, 5) or np.any(scan != 0) or es2.size != 9 or abs(es2[0] - 20) > 1e-9 or abs(es2[-1] - 5000) > 1e-6 or np.any(scan2 != 0):
                add("dr_scan_columns", f"drxs_energyscan(Z={z}: no resonance data) does not sample the caller's energies ({es[:3]}… for {arr[:3]}…; {es2.size} points {es2[:1]}..{es2[-1:]} for the limits 20, 5000 eV and n = 9)", {"Z": z, "w": w})
        if el.dr_e_res.size and el.dr_e_res.min() - 3 * w > 0:
            es, scan = ebisim.drxs_energyscan(el, w, None, 30)
            if not (abs(es[0] - (el.dr_e_res.min() - 3 * w)) < 1e-9 * es[0] and abs(es[-1] - (el.dr_e_res.max() + 3 * w)) < 1e-9 * es[-1]):
                add("dr_band", f"drxs_energyscan default grid of Z={z} is not the resonance band +-3 fwhm", {"Z": z, "w": w})
    q = np.arange(0, 106).astype(float)
    for ip in rng.uniform(3, 25, 8):
        v = X.cxxs(q, float(ip)); sp = 1.43e-16 * q ** 1.17 * float(ip) ** -2.76
        if v[0] != 0 or np.any(np.diff(v) <= 0) or not np.allclose(v, sp, rtol=1e-12, atol=0):
            add("cx_formula", f"cxxs(q, {ip}) is not 1.43e-16 q^1.17 IP^-2.76 (zero for neutrals, increasing in q)", {"ip": float(ip)})
        v2 = X.cxxs(q, float(ip) * 1.05)
        if np.any(v2[1:] >= v[1:]):
            add("cx_decreasing_ip", f"cxxs does not decrease with the ionisation potential at ip={ip}", {"ip": float(ip)})
    return V


def replay(ctx, data):
    key = data.get("violation", {}).get("key", {})
    for v in search(ctx):
        if v["key"] == key: return v
    return None
