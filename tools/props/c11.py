"""C11 — element database and lookups."""
import numpy as np
import common, xscorr
from leanio import bits, dec

LEVEL = "proof"
LEMMA_MODULES = ["Consts"]
ALWAYS_SEARCH = True
RULE = ("lookups: ALL 105 elements x 3 identifier kinds + a malformed stream (unknown strings, wrong case, 0, 106, negative) through element_z / "
        "element_symbol / element_name / element_identify / Element.get vs the Lean model (exact); generated tables vs Element arrays (all 105, exact); "
        "gas / ion factories over pressures 1e-12..1e-3 mbar, T 4..3000 K, radii, densities around the minimum, every kind of q (bit-exact <= 4 ulp). "
        "non-trivial = accepted identifier or non-default factory entry; distinct = distinct request")
MONITORED = ["arrays handed out by Element.get are read-only", "they share no memory with the module tables / a second Element.get is unaffected by mutation of a writable copy"]
OUTSIDE = ["numpy flags / aliasing (runtime object semantics) are monitored, not modelled"]
ASSUMPTIONS = []

MALFORMED = ["", "h", "HE", "he", "Xx", "Hydrogenn", "hydrogen", "abc", "U ", " U", "Uu", "Iron ", "FE", "D", "Zz", "Helium2", "é"]
MALNUM = [0, 106, -1, 1000, -105, 107]


def ident_str(x):
    if isinstance(x, (int, np.integer)):
        return f"num {int(x)}"
    cs = [ord(c) for c in x]
    return f"str {len(cs)} " + " ".join(map(str, cs))


def py_call(f, *a):
    try:
        return ("ok", f(*a))
    except ValueError:
        return ("ValueError", None)


def run(ctx):
    import ebisim
    from ebisim import elements as EL
    from ebisim.resources import ELEMENT_Z, ELEMENT_ES, ELEMENT_NAME, ELEMENT_A, ELEMENT_IP
    D = ctx.driver
    rng = ctx.rng
    xscorr.corr_tables(ctx)
    ids = [int(z) for z in ELEMENT_Z] + list(ELEMENT_ES) + list(ELEMENT_NAME) + MALFORMED + MALNUM
    for x in ids:
        s = ident_str(x)
        # element_identify
        st, val = py_call(EL.element_identify, x)
        t = D.ask("ident " + s)
        ctx.evaluations += 1
        exp = ["ok", str(val[0]), val[1], val[2]] if st == "ok" else ["ValueError"]
        if t != exp:
            ctx.fail("correspondence", f"element_identify({x!r}) -> {st} {val} but model answers {' '.join(t)}", inp={"op": "ident", "id": x})
        if st == "ok":
            ctx.seen(("ident", str(x)))
        # the three translation functions
        if isinstance(x, str):
            st, val = py_call(EL.element_z, x); t = D.ask("ez " + s)
            if t != (["ok", str(val)] if st == "ok" else ["ValueError"]):
                ctx.fail("correspondence", f"element_z({x!r}) -> {st} {val} but model answers {' '.join(t)}", inp={"op": "ez", "id": x})
        for nm, f in (("esym", EL.element_symbol), ("ename", EL.element_name)):
            st, val = py_call(f, x); t = D.ask(f"{nm} " + s)
            ctx.evaluations += 1
            if t != (["ok", val] if st == "ok" else ["ValueError"]):
                ctx.fail("correspondence", f"{f.__name__}({x!r}) -> {st} {val} but model answers {' '.join(t)}", inp={"op": nm, "id": x})
        # Element.get header: default and explicit mass numbers
        for a in (None, 7.5, 0, -3, 0.0):
            def g(x=x, a=a):
                e = ebisim.Element.get(x, a)
                return (e.z, float(e.a), float(e.ip))
            st, val = py_call(g)
            t = D.ask("ehead " + s + (" 0" if a is None else f" 1 {bits(a)}"))
            ctx.evaluations += 1
            if st == "ok":
                okm = (t[0] == "ok" and int(t[1]) == val[0] and dec(t[2:3])[0] == val[1] and dec(t[3:4])[0] == val[2])
            else:
                okm = t == ["ValueError"]
            if not okm:
                ctx.fail("correspondence", f"Element.get({x!r}, a={a!r}) -> {st} {val} but model answers {' '.join(t)[:80]}", inp={"op": "ehead", "id": x, "a": a})
    ctx.exhaustive = True
    ctx.sample({"op": "ident", "id": "Fe", "impl": list(EL.element_identify("Fe"))})
    # Element.get with supplied initial vectors: every combination of n / kT given or not, entries below the minima, wrong lengths
    from leanio import farr
    for k in range(120 if ctx.thorough else 40):
        z = int(rng.integers(1, 106))
        idv = [z, ELEMENT_ES[z - 1], ELEMENT_NAME[z - 1]][k % 3]
        def vec(minv, bad_len):
            m = z + 1 + (int(rng.choice([-1, 1])) if bad_len else 0)
            v = 10 ** rng.uniform(-2, 3, m) * minv
            if rng.integers(2): v[rng.integers(m)] = minv * float(rng.choice([0.0, 0.5, 1.0, -1.0]))
            return v
        n = vec(1e-6, k % 11 == 5) if k % 4 in (0, 1) else None
        kT = vec(1e-3, k % 13 == 7) if k % 4 in (0, 2) else None
        def g():
            e = ebisim.Element.get(idv, n=None if n is None else n.copy(), kT=None if kT is None else kT.copy())
            return e.n, e.kT
        st, val = py_call(g)
        t = D.ask("eget " + ident_str(idv) + (" 1 " + farr(n) if n is not None else " 0") + (" 1 " + farr(kT) if kT is not None else " 0"))
        ctx.evaluations += 1
        desc = {"op": "eget", "id": idv, "n": None if n is None else n.tolist(), "kT": None if kT is None else kT.tolist()}
        if st == "ok":
            okm = t[0] == "ok"
            if okm:
                pos = 1
                for ref in val:
                    if t[pos] == "0":
                        okm = okm and ref is None; pos += 1
                    else:
                        m = int(t[pos + 1]); got = dec(t[pos + 2: pos + 2 + m]); pos += 2 + m
                        okm = okm and ref is not None and np.array_equal(got, ref)
            ctx.seen(("eget", z, k))
        else:
            okm = t == ["ValueError"]
        if not okm:
            ctx.fail("correspondence", f"Element.get({idv!r}, n={'given' if n is not None else None}, kT={'given' if kT is not None else None}) -> {st} but the model answers {' '.join(t)[:80]}", inp=desc)
    # factories
    nf = 400 if ctx.thorough else 80
    for k in range(nf):
        z = int(rng.integers(1, 106))
        idv = [z, ELEMENT_ES[z - 1], ELEMENT_NAME[z - 1]][k % 3]
        if k % 2 == 0:
            p = float(10 ** rng.uniform(-12, -3)); r = float(10 ** rng.uniform(-3, -1.3)); T = float(rng.choice([4.0, 77.0, 300.0, 3000.0, rng.uniform(4, 3000)]))
            if k % 10 == 0:   # around / below the minimum density
                from ebisim.physconst import K_B, PI
                p = float(1e-6 * rng.choice([0.5, 0.999999, 1.0, 1.000001, 2]) * K_B * T / 100 / (PI * r * r))
            def g():
                e = ebisim.Element.get_gas(idv, p, r, T)
                return np.concatenate([e.n, e.kT])
            st, val = py_call(g)
            t = D.ask(f"gas {ident_str(idv)} {bits(p)} {bits(r)} {bits(T)}")
            desc = {"op": "gas", "id": idv, "p": p, "r": r, "T": T}
        else:
            nl = float(10 ** rng.uniform(-7, 12)) if k % 10 != 1 else float(rng.choice([1e-6, 0.999999e-6, 1.000001e-6, 5e-7]))
            kT = float(10 ** rng.uniform(-4, 4)); q = int(rng.integers(0, z + 1))
            def g():
                e = ebisim.Element.get_ions(idv, nl, kT, q)
                return np.concatenate([e.n, e.kT])
            st, val = py_call(g)
            t = D.ask(f"ions {ident_str(idv)} {bits(nl)} {bits(kT)} {q}")
            desc = {"op": "ions", "id": idv, "nl": nl, "kT": kT, "q": q}
        ctx.evaluations += 1
        if st == "ok":
            m = dec(t[1:]) if t and t[0] == "ok" else None
            from leanio import ulp_diff
            okm = m is not None and m.shape == val.shape and ulp_diff(m, val).max() <= 4
            ctx.seen((desc["op"], z, k))
        else:
            okm = t == ["ValueError"]
        if not okm:
            ctx.fail("correspondence", f"factory {desc} -> {st} but model answers {' '.join(t)[:60]}", inp=desc)
        if k < 2:
            ctx.sample(dict(desc, status=st))


def table_twin():
    """Python twins of the Lean table checkers: list of (Z, q, clause, detail)"""
    from ebisim.resources import SHELL_CFG, SHELL_EBIND
    caps = [2, 2, 2, 4, 2, 2, 4, 4, 6, 2, 2, 4, 4, 6, 6, 8, 2, 2, 4, 4, 6, 6, 8, 2, 2, 4, 4, 6, 2, 2]
    out = []
    for z in range(1, 106):
        c = np.asarray(SHELL_CFG[z]); e = np.asarray(SHELL_EBIND[z])
        if c.shape[0] != z or e.shape != c.shape:
            out.append((z, -1, "row_count", f"{c.shape[0]} rows for Z={z}")); continue
        mins = []
        for q in range(z):
            if int(c[q].sum()) != z - q:
                out.append((z, q, "electron_count", f"row holds {int(c[q].sum())} electrons, expected {z - q}"))
            if (c[q] > np.array(caps[: c.shape[1]])).any() or (c[q] < 0).any():
                out.append((z, q, "capacity", "occupation exceeds the sub-shell capacity"))
            if ((c[q] > 0) != (e[q] > 0)).any():
                out.append((z, q, "occupied_iff_bound", "positive binding energy does not coincide with occupation"))
            mins.append(e[q][c[q] > 0].min() if (c[q] > 0).any() else np.nan)
        for q in range(z - 1):
            if not mins[q] < mins[q + 1]:
                out.append((z, q, "threshold_monotone", f"lowest binding energy {mins[q]} (q={q}) !< {mins[q+1]} (q={q+1})"))
    return out


def lookup_twin():
    import ebisim
    from ebisim import elements as EL
    from ebisim.resources import ELEMENT_Z, ELEMENT_ES, ELEMENT_NAME, ELEMENT_A, ELEMENT_IP
    out = []
    if list(ELEMENT_Z) != list(range(1, 106)):
        out.append(("Z table", "ELEMENT_Z is not 1..105"))
    for i in range(105):
        z, s, nm = int(ELEMENT_Z[i]), ELEMENT_ES[i], ELEMENT_NAME[i]
        for x in (z, s, nm):
            try:
                r = EL.element_identify(x)
                e = ebisim.Element.get(x)
                if tuple(r) != (z, nm, s) or (e.z, e.symbol, e.name, e.a, e.ip) != (z, s, nm, ELEMENT_A[i], float(ELEMENT_IP[i])):
                    out.append((x, f"lookup by {x!r} returns {r} / ({e.z},{e.symbol},{e.name},{e.a},{e.ip}), expected row {i}"))
            except Exception as ex:
                out.append((x, f"lookup by {x!r} raised {ex!r}"))
    for x in MALFORMED + MALNUM:
        for f in (EL.element_identify, ebisim.Element.get):
            try:
                f(x); out.append((x, f"{f.__name__}({x!r}) did not raise"))
            except ValueError:
                pass
            except Exception as ex:
                out.append((x, f"{f.__name__}({x!r}) raised {type(ex).__name__}, not ValueError"))
    for a in (0, -1, -0.5):
        try:
            ebisim.Element.get(26, a); out.append((26, f"Element.get(26, a={a}) did not raise"))
        except ValueError:
            pass
    return out


def monitor_arrays():
    import ebisim
    from ebisim import elements as EL
    from ebisim import resources as R
    out = []
    for z in (1, 8, 26, 74, 92):
        e = ebisim.Element.get(z, n=np.full(z + 1, 1.0), kT=np.full(z + 1, 1.0))
        arrs = {k: getattr(e, k) for k in ("e_cfg", "e_bind", "rr_z_eff", "rr_n_0_eff", "dr_cs", "dr_e_res", "dr_strength", "ei_lotz_a", "ei_lotz_b", "ei_lotz_c", "n", "kT")}
        for k, a in arrs.items():
            if a.flags.writeable:
                out.append((z, k, "writeable"))
        for k, tab in (("e_cfg", R.SHELL_CFG[z]), ("e_bind", R.SHELL_EBIND[z]), ("dr_e_res", EL._DR_DATA[z]["dr_e_res"]), ("dr_cs", EL._DR_DATA[z]["dr_cs"]), ("dr_strength", EL._DR_DATA[z]["dr_strength"])):
            if isinstance(tab, np.ndarray) and tab.size and np.shares_memory(arrs[k], tab):
                out.append((z, k, "shares memory with the database"))
        # mutate a forced-writable view and look at a second Element
        for k in ("e_cfg", "e_bind", "dr_e_res"):
            a = arrs[k]
            if a.size == 0:
                continue
            before = ebisim.Element.get(z)
            ref = getattr(before, k).copy()
            try:
                a.setflags(write=True); a.flat[0] += 1; a.setflags(write=False)
            except ValueError:
                continue
            try:
                after = ebisim.Element.get(z)
                leaked = not np.array_equal(getattr(after, k), ref)
                how = "mutation leaks into the database"
            except Exception as ex:
                leaked = True
                how = f"mutation leaks into the database (a later Element.get({z}) raises {type(ex).__name__}: {str(ex)[:60]})"
            if leaked:
                out.append((z, k, how))
                # undo
                a.setflags(write=True); a.flat[0] -= 1; a.setflags(write=False)
    return out


def search(ctx):
    V = []
    for z, q, clause, detail in table_twin():
        V.append({"key": {"Z": z, "q": q, "clause": clause}, "what": f"shell table Z={z} q={q}: {detail}", "input": {"Z": z, "q": q, "clause": clause}})
        ctx.count("table_rows_flagged")
    for x, detail in lookup_twin():
        V.append({"key": {"clause": "lookup", "id": str(x)}, "what": detail, "input": {"id": x}})
    for z, k, what in monitor_arrays():
        V.append({"key": {"clause": "array_" + what.split()[0], "field": k}, "what": f"Element.get({z}).{k}: {what}", "input": {"Z": z, "field": k}})
    # factories: documented formulas on the real code
    import ebisim
    from ebisim.physconst import K_B, PI, Q_E, MINIMAL_N_1D, MINIMAL_KBT
    rng = np.random.default_rng([ctx.seed, 1111])
    # rejection exactly below the minimal line density, for thin and wide tubes
    for r in (2e-4, 5e-3, 5e-2):
        for fac in (0.5, 0.999, 1.001, 2.0, 1e3):
            T = 300.0; p = fac * MINIMAL_N_1D * K_B * T / 100 / (PI * r * r)
            n0 = p * 100 / (K_B * T) * PI * r * r
            try:
                e = ebisim.Element.get_gas(8, p, r, T); res = "accepted"
            except ValueError:
                res = "ValueError"
            want = "accepted" if n0 >= MINIMAL_N_1D else "ValueError"
            if res != want or (res == "accepted" and abs(e.n[0] - n0) > 1e-12 * n0):
                V.append({"key": {"clause": "gas_minimum"}, "what": f"get_gas(p={p!r}, r_dt={r}, T={T}): line density {n0!r} vs minimum {MINIMAL_N_1D}: {res}, expected {want}", "input": {"p": p, "r": r, "T": T}})
    for _ in range(60):
        z = int(rng.integers(1, 106)); p = float(10 ** rng.uniform(-11, -4)); r = float(10 ** rng.uniform(-3, -1.3)); T = float(rng.uniform(4, 3000))
        n0 = p * 100 / (K_B * T) * PI * r * r
        try:
            e = ebisim.Element.get_gas(z, p, r, T)
            okv = (abs(e.n[0] - n0) <= 1e-12 * n0 and np.all(e.n[1:] == MINIMAL_N_1D) and abs(e.kT[0] - max(K_B * T / Q_E, MINIMAL_KBT)) <= 1e-12 * e.kT[0]
                   and np.all(e.kT[1:] == MINIMAL_KBT) and n0 >= MINIMAL_N_1D and e.n.min() >= MINIMAL_N_1D and e.kT.min() >= MINIMAL_KBT)
        except ValueError:
            okv = n0 < MINIMAL_N_1D
        if not okv:
            V.append({"key": {"clause": "get_gas"}, "what": f"get_gas({z}, {p}, {r}, {T}) does not follow p/(k_B T) pi r^2 with minima elsewhere", "input": {"Z": z, "p": p, "r": r, "T": T}})
        nl = float(10 ** rng.uniform(-7, 10)); kT = float(10 ** rng.uniform(-4, 3)); q = int(rng.integers(0, z + 1))
        try:
            e = ebisim.Element.get_ions(z, nl, kT, q)
            exp_n = np.full(z + 1, MINIMAL_N_1D); exp_n[q] = nl
            exp_k = np.full(z + 1, MINIMAL_KBT); exp_k[q] = max(kT, MINIMAL_KBT)
            okv = np.array_equal(e.n, exp_n) and np.array_equal(e.kT, exp_k) and nl >= MINIMAL_N_1D
        except ValueError:
            okv = nl < MINIMAL_N_1D
        if not okv:
            V.append({"key": {"clause": "get_ions"}, "what": f"get_ions({z}, {nl}, {kT}, {q}) does not put the requested values into charge state {q} with minima elsewhere", "input": {"Z": z, "nl": nl, "kT": kT, "q": q}})
    for z in (1, 6, 26, 92):
        kT = np.full(z + 1, 5.0); kT[0] = 0.0; kT[-1] = -1.0
        n = np.full(z + 1, 1.0); n[0] = 0.0
        for kw in ({"kT": kT.copy()}, {"n": n.copy()}, {"n": n.copy(), "kT": kT.copy()}):
            e = ebisim.Element.get(z, **kw)
            if (e.kT is not None and e.kT.min() < MINIMAL_KBT) or (e.n is not None and e.n.min() < MINIMAL_N_1D):
                V.append({"key": {"clause": "targets_floor", "args": sorted(kw)}, "what": f"Element.get({z}, {sorted(kw)}) hands out initial values below the documented minima (min kT {None if e.kT is None else e.kT.min()}, min n {None if e.n is None else e.n.min()})", "input": {"Z": z, "args": sorted(kw)}})
        for kw in ({"kT": np.ones(z + 3)}, {"n": np.ones(z)}):
            try:
                ebisim.Element.get(z, **kw)
                V.append({"key": {"clause": "wrong_length", "args": sorted(kw)}, "what": f"Element.get({z}) accepts a {sorted(kw)} vector of the wrong length", "input": {"Z": z, "args": sorted(kw)}})
            except ValueError:
                pass
    # broken table theorems whose failing rows are all known findings are explained
    return V


def replay(ctx, data):
    key = data.get("violation", {}).get("key", {})
    for v in search(ctx):
        if v["key"] == key:
            return v
    return None
