"""C01 — basic simulation = exact solution of the documented rate equations."""
import numpy as np
import common, xscorr, basiccorr
from leanio import ulp_diff

LEVEL = "proof"
LEMMA_MODULES = ["MatExp", "RateMat", "Consts", "Lotz"]
ALWAYS_SEARCH = True     # the end-to-end statements (exp(tJ)N0, continuation with a shared tolerance dict, current scaling) are cheap
RULE = ("basic_simulation is run with scipy.integrate.solve_ivp wrapped from outside; the captured record (jac, fun on random N, y0, t_span, method, "
        "user kwargs, returned arrays) is compared with Basic.call evaluated by the driver (Jacobian 1e-11 + exact zero pattern; y0 bit-exact) over "
        "elements x e_kin log-uniform (1 eV, 1 MeV) x j (0.1, 1e4) x dr_fwhm in {None, 0, (0.5,100)} x CNI x N_initial in {None, random, unit} x "
        "method in {default LSODA, Radau, BDF}. non-trivial = Jacobian with non-zero off-diagonal; distinct = distinct argument tuple")
MONITORED = ["returned abundances vs exp(t J) N0 (scipy.linalg.expm of the independently assembled matrix) with rtol=1e-8, atol=1e-11: <= 1e-5 sum N0",
             "two consecutive runs vs one long run; k-fold current for t/k", "supplied N_initial object is not modified"]
OUTSIDE = ["LSODA / Radau / BDF themselves ('to the solver tolerance' is a statement about scipy)"]
ASSUMPTIONS = ["scipy.integrate.solve_ivp integrates the system it is handed"]


def gen_case(rng, zs, k):
    z = int(rng.choice(zs)); n = z + 1
    j = float(10 ** rng.uniform(-1, 4)); e = float(10 ** rng.uniform(0, 6))
    if k % 4 == 0:
        el = xscorr.element(z); eb = el.e_bind[el.e_cfg > 0]
        e = float(np.nextafter(rng.choice(eb), rng.choice([0, np.inf])))
    w = [None, 0.0, float(10 ** rng.uniform(np.log10(0.5), 2))][k % 3]
    cni = bool((k // 3) % 2)
    if w:   # make the DR term matter: sit on / near a resonance of an element that has data
        if k % 2 == 0:
            z = int(rng.choice([9, 10, 18, 26, 36, 54])); n = z + 1
        el = xscorr.element(z)
        if el.dr_e_res.size:
            row = int(rng.integers(el.dr_e_res.size)) if k % 4 else int(np.argmin(el.dr_cs))
            e = float(el.dr_e_res[row] + rng.normal() * w * 0.3)
            if k % 6 >= 4:
                # in the wings: 3–7 sigma above the highest / below the lowest resonance (or of a random one), where a Gaussian is
                # ~1 % … 1e-9 of its peak — DR still enters "only if a width is given", not "only near a resonance"
                sg = w / 2.35482; s_ = float(rng.uniform(3.0, 7.0))
                edge = [float(el.dr_e_res.max()) + s_ * sg, float(el.dr_e_res.min()) - s_ * sg, float(el.dr_e_res[row]) + s_ * sg][k % 3]
                if edge > 1.0: e = edge
    kind = k % 5
    if kind in (0, 1):
        N0 = None
    elif kind == 2:
        N0 = rng.uniform(0, 1, n) * (rng.uniform(0, 1, n) < 0.6)
    elif kind == 3:
        N0 = np.zeros(n); N0[rng.integers(n)] = 1.0
    else:
        N0 = rng.uniform(0, 5, n)
    method = [None, "Radau", "BDF", "LSODA"][k % 4]
    return z, j, e, w, cni, N0, method


def run(ctx):
    D = ctx.driver
    rng = ctx.rng
    zs = list(range(1, 106)) if ctx.thorough else xscorr.zs_for(ctx, 30)
    n = 120 if ctx.thorough else 30
    for k in range(n):
        z, j, e, w, cni, N0, method = gen_case(rng, zs, k)
        el = xscorr.element(z)
        skw = {"rtol": 1e-5}
        if method: skw["method"] = method
        if k % 7 == 0: skw["max_step"] = 1.0
        t_max = float(10 ** rng.uniform(-6, 0))
        N0_in = None if N0 is None else N0.copy()
        res, call = basiccorr.run_basic(element=el if k % 2 else z, j=j, e_kin=e, t_max=t_max, dr_fwhm=w, N_initial=N0_in, CNI=cni, solver_kwargs=dict(skw))
        J = basiccorr.jac_of(call, z + 1)
        Jm, y0m = basiccorr.model_call(D, z, j, e, w, cni, N0)
        ctx.evaluations += 1
        desc = {"Z": z, "j": j, "E": e, "w": w, "cni": cni, "N0": None if N0 is None else N0.tolist(), "method": method, "t_max": t_max}
        if np.any(J - np.diag(np.diag(J)) != 0):
            ctx.seen((z, e, j, w, cni, method))
        zero_mismatch = (J == 0) != (Jm == 0)
        ok, wst, i = common.compare(J, Jm, 1e-11)
        if zero_mismatch.any() or not ok:
            ctx.fail("correspondence", f"captured Jacobian differs from Basic.rateMatrix (rel {wst:.2e}) for {desc}", inp=desc)
        if not (y0m.shape == call["y0"].shape and np.array_equal(y0m, call["y0"])):
            ctx.fail("correspondence", f"start vector handed to the solver {call['y0'][:4]} differs from Basic.n0 {y0m[:4]} for {desc}", inp=desc)
        # fun = jac . N
        Nr = rng.uniform(0, 1, z + 1)
        f = np.asarray(call["fun"](0.0, Nr))
        okf, wf, _ = common.compare(f, J @ Nr, 1e-11, scale=np.abs(J) @ np.abs(Nr))
        if not okf:
            ctx.fail("correspondence", f"right-hand side is not Jacobian . N (rel {wf:.2e}) for {desc}", inp=desc)
        # wiring
        kw = call["kwargs"]
        prob = []
        if tuple(call["t_span"]) != (0, t_max): prob.append(f"t_span={call['t_span']}")
        if kw.get("method") != (method or "LSODA"): prob.append(f"method={kw.get('method')}")
        if kw.get("rtol") != 1e-5 or (k % 7 == 0 and kw.get("max_step") != 1.0): prob.append("user solver kwargs not passed through")
        if res.t is not call["ret"].t or res.N is not call["ret"].y: prob.append("result arrays are not the solver's arrays")
        if N0 is not None and not np.array_equal(N0_in, N0): prob.append("supplied N_initial was modified")
        if prob:
            ctx.fail("correspondence", f"solver wiring: {prob} for {desc}", inp=desc)
        if k < 2:
            ctx.sample(dict(desc, jac_diag_first=np.diag(J)[:3], y0_first=call["y0"][:3]))
    ctx.cov["elements"] = len(zs)
    # call-history sequences: the same (element, energy) under changing flags, in one process
    for sq in range(6 if ctx.thorough else 3):
        z = int(rng.choice([3, 9, 10, 18, 26])); el = xscorr.element(z)
        e = float(el.dr_e_res[int(np.argmin(el.dr_cs))]) if el.dr_e_res.size else float(10 ** rng.uniform(1.5, 4))
        j = float(10 ** rng.uniform(0, 3)); wv = float(10 ** rng.uniform(0, 1.5))
        seq = [(None, True), (None, False), (wv, False), (wv, True), (None, False), (0.0, True), (wv, False)]
        order = list(rng.permutation(len(seq)))
        for idx in [0] + order:     # always start with the CNI / no-DR call
            w, cni = seq[idx]
            N0 = rng.uniform(0.1, 1, z + 1)
            res, call = basiccorr.run_basic(element=el, j=j, e_kin=e, t_max=1e-6, dr_fwhm=w, N_initial=N0.copy(), CNI=cni)
            J = basiccorr.jac_of(call, z + 1)
            Jm, y0m = basiccorr.model_call(D, z, j, e, w, cni, N0)
            ctx.evaluations += 1
            ctx.seen(("history", z, sq, idx))
            ok, wst, i = common.compare(J, Jm, 1e-11)
            if ((J == 0) != (Jm == 0)).any() or not ok or not np.array_equal(y0m, call["y0"]):
                ctx.fail("correspondence", f"after a sequence of calls with the same element and energy the Jacobian / start vector of basic_simulation(Z={z}, E={e}, dr_fwhm={w}, CNI={cni}) differs from the (stateless) model",
                         inp={"Z": z, "j": j, "E": e, "w": w, "cni": cni, "N0": N0.tolist(), "method": None, "history": [list(map(lambda t: t if t is None else float(t), [seq[q][0]])) + [seq[q][1]] for q in [0] + order]})
                break


def stmt(z, j, e, w, cni, N0, method, rng, tight=True, history=None):
    import ebisim
    el = xscorr.element(z)
    out = []
    n = z + 1
    desc = {"Z": z, "j": j, "E": e, "w": w, "cni": cni, "N0": None if N0 is None else list(map(float, N0)), "method": method}
    def add(clause, what):
        out.append({"key": {"clause": clause, "Z": z, "cni": cni, "dr": bool(w)}, "what": what, "input": desc})
    for hw, hcni in (history or []):
        ebisim.basic_simulation(el, j, e, 1e-6, dr_fwhm=hw, CNI=bool(hcni))
    Jind = basiccorr.independent_jac(el, j, e, w, cni)
    rate = np.abs(np.diag(Jind)).max()
    if rate <= 0:
        return out
    t_max = float(10 ** rng.uniform(-1.5, 1.0)) / rate * 5
    skw = dict(rtol=1e-8, atol=1e-11)
    if method: skw["method"] = method
    N0c = None if N0 is None else np.array(N0, dtype=float)
    res, call = basiccorr.run_basic(element=el, j=j, e_kin=e, t_max=t_max, dr_fwhm=w, N_initial=N0c, CNI=cni, solver_kwargs=dict(skw))
    got = {k_: call["kwargs"].get(k_) for k_ in skw}
    if got != skw:
        add("solver_kwargs", f"solver called with {got} although {skw} was requested")
    try:
        J = basiccorr.jac_of(call, n)
    except Exception:
        J = None
    if J is None or np.shape(J) != Jind.shape:
        pass     # the solver integrates a system of another size: judged by what the run returns (below), not by its shape
    elif not np.allclose(J, Jind, rtol=1e-9, atol=0) or ((J == 0) != (Jind == 0)).any():
        add("jacobian", f"Jacobian used by basic_simulation differs from (j 1e4/e)[EI+RR{'+DR' if w else ''}] assembled from the package's own vectors")
    y0 = call["y0"]
    exp0 = np.zeros(n); exp0[0 if cni else 1] = 1
    if N0 is None and not np.array_equal(y0, exp0[: len(y0)]):
        add("default_start", f"default start vector is {y0[:4]}..., expected pure {'neutral' if cni else '1+'}")
    if N0 is not None and np.shape(y0) == np.shape(N0) and not np.array_equal(y0, np.asarray(N0, float)):
        add("initial_used", "supplied N_initial is not what the solver integrates")
    if np.shape(y0) != (n,):
        y0 = np.asarray(N0, float) if N0 is not None else exp0
    if N0 is not None and not np.array_equal(N0c, np.asarray(N0, float)):
        add("initial_unmodified", "supplied N_initial object was modified")
    ref = basiccorr.expm_apply(Jind, res.t[-1], y0 if N0 is not None else exp0)
    s = np.abs(ref).sum()
    if np.abs(res.N[:, -1] - ref).max() > 1e-5 * s:
        add("matrix_exponential", f"abundances at t={res.t[-1]:.3e} deviate from exp(tJ)N0 by {np.abs(res.N[:, -1] - ref).max():.2e} (sum {s:.2e})")
    # continuation and current scaling
    ts = t_max * rng.uniform(0.2, 0.8)
    # (a user who continues a run re-uses the dictionary holding the tolerances: one dict object for both segments)
    shared = dict(skw)
    try:
        r1 = ebisim.basic_simulation(el, j, e, ts, dr_fwhm=w, N_initial=None if N0 is None else np.array(N0, float), CNI=cni, solver_kwargs=shared)
        r2 = ebisim.basic_simulation(el, j, e, t_max - ts, dr_fwhm=w, N_initial=r1.N[:, -1].copy(), CNI=cni, solver_kwargs=shared)
    except Exception as ex:
        add("continuation", f"continuing a run of {ts:.3e} s for another {t_max - ts:.3e} s with the same tolerance dictionary raises {type(ex).__name__}: {str(ex)[:100]}")
        return out
    if r1.t[-1] != ts or r2.t[-1] != t_max - ts:
        add("continuation", f"the two consecutive runs end at t = {r1.t[-1]!r}, {r2.t[-1]!r} instead of {ts!r}, {t_max - ts!r}")
    elif np.abs(r2.N[:, -1] - res.N[:, -1]).max() > 2e-5 * s:
        add("continuation", f"two consecutive runs ({ts:.3e} + {t_max-ts:.3e}) differ from the single run by {np.abs(r2.N[:, -1] - res.N[:, -1]).max():.2e}")
    kf = float(rng.choice([2.0, 3.0, 10.0]))
    r3 = ebisim.basic_simulation(el, j * kf, e, t_max / kf, dr_fwhm=w, N_initial=None if N0 is None else np.array(N0, float), CNI=cni, solver_kwargs=dict(skw))
    if np.abs(r3.N[:, -1] - res.N[:, -1]).max() > 2e-5 * s:
        add("current_scaling", f"{kf}-fold current for t/{kf} differs from the run by {np.abs(r3.N[:, -1] - res.N[:, -1]).max():.2e}")
    return out


def search(ctx):
    rng = np.random.default_rng([ctx.seed, 101])
    V = []
    cases = []
    for f in ctx.failures:
        inp = f.get("input") or {}
        if "Z" in inp and "E" in inp:
            cases.append((int(inp["Z"]), float(inp.get("j", 100.0)), float(inp["E"]), inp.get("w"), bool(inp.get("cni")), inp.get("N0"), inp.get("method"), inp.get("history")))
    nn = 30 if (ctx.thorough or ctx.failures) else 6
    zs = [2, 6, 10, 18, 19, 26, 36, 54, 79, 92]
    for k in range(nn):
        z, j, e, w, cni, N0, method = gen_case(rng, zs, k)
        e = float(10 ** rng.uniform(1.5, 5))
        cases.append((z, j, e, w, cni, N0, method, None))
    # a poisoning history in front of a plain run
    for z in (9, 18):
        el = xscorr.element(z)
        e = float(el.dr_e_res[int(np.argmin(el.dr_cs))])
        cases.append((z, 100.0, e, None, False, list(np.full(z + 1, 1.0 / (z + 1))), None, [(None, True), (5.0, True)]))
        cases.append((z, 100.0, e, 5.0, True, list(np.full(z + 1, 1.0 / (z + 1))), None, None))
    for c in cases:
        V += stmt(*c[:7], rng, history=c[7]); ctx.count("search_cases")
        if len(V) > 10: break
    return V


def replay(ctx, data):
    inp = data.get("violation", {}).get("input", {})
    if "Z" not in inp: return None
    r = stmt(int(inp["Z"]), float(inp["j"]), float(inp["E"]), inp.get("w"), bool(inp.get("cni")), inp.get("N0"), inp.get("method"), np.random.default_rng(0), history=inp.get("history"))
    return r[0] if r else None
