"""C12 — radial Poisson solver: correspondence (bit-exact), monitors, search."""
import numpy as np
from leanio import farr, dec, ulp_diff
import common

LEVEL = "proof"
LEMMA_MODULES = ["Tdma", "Fd", "Consts", "MaxPrinciple"]
RULE = ("correspondence cases: seeded tridiagonal systems (strictly dominant, sizes 2..2000, float and integer "
        "valued), grids (uniform, geometric, random, device-like) and charge densities (smooth, piecewise, wall-charged); "
        "a case is non-trivial when the system has >= 3 rows and a non-zero right-hand side; distinct = distinct (kind, size, seed-index)")
MONITORED = ["logarithmic Gauss-law potential outside the charge (O(h^2))",
             "error ratio under grid refinement n -> 2n (second order: ratio > 2.8)",
             "M x = b residual of the compiled solver to rounding"]
OUTSIDE = ["rounding error of the solver (field-level theorem)", "Gauss law / convergence order: discretisation-error analysis"]
ASSUMPTIONS = ["numba executes the Thomas recurrences in source order without FMA contraction (checked: <= 4 ulp accepted)"]
ULP = 4


def grids(rng, n):
    kind = rng.integers(6)
    R = 10 ** rng.uniform(-3, -1.5)
    if kind >= 4:
        # fine meshes (cells of 5 nm … 1 µm) that are mildly non-uniform: cell sizes differ by far less than any absolute tolerance in
        # metres (1e-8) yet by 1e-4 … 5e-2 relatively — "every strictly increasing radial grid"
        dr0 = float(10 ** rng.uniform(-8.3, -6)); g_ = 1 + float(10 ** rng.uniform(-4, -1.3))
        if kind == 4:
            dr = dr0 * np.where(np.arange(n - 1) < (n - 1) // 3, 1.0, g_)          # two plateaus of slightly different cell size
        else:
            dr = dr0 * g_ ** (np.arange(n - 1) / max(n - 2, 1))                      # slowly growing cells
        return "fine-mild", np.concatenate([[0.0], np.cumsum(dr)])
    if kind == 0:
        return "uniform", np.linspace(0, R, n)
    if kind == 1:
        return "geometric", np.concatenate([[0.0], np.geomspace(R / (4 * n), R, n - 1)])
    if kind == 2:
        r = np.sort(rng.uniform(0, R, n - 1)); r = np.unique(np.concatenate([[0.0], r, [R]]))
        return "random", r
    k = max(n // 6, 2); re = R / 50
    r = np.concatenate([np.linspace(0, re, k, endpoint=False), np.linspace(re, 2 * re, k, endpoint=False), np.geomspace(2 * re, R, 4 * k)])
    return "device", r


def density(rng, r):
    kind = rng.integers(6)
    R = r[-1]
    if kind >= 4:
        # signed distributions whose node values cancel exactly (a core and an oppositely charged sheath of as many nodes;
        # or a compensated core, all zeros): "depends linearly on the charge" covers every sign pattern
        n = r.size; k = int(rng.integers(1, max(2, (n - 1) // 2)))
        a_ = float(2.0 ** rng.integers(-20, -2))
        rho = np.zeros(n)
        if kind == 4:
            rho[:k] = a_; rho[k:2 * k] = -a_
        return ("cancelling" if kind == 4 else "zero"), rho
    a = R * rng.uniform(0.05, 0.8)
    amp = -10 ** (rng.uniform(-5, -1) if rng.integers(3) else rng.uniform(-26, -6))     # down to far below one elementary charge per m^3
    if kind == 0:
        return "smooth", amp * np.exp(-(r / a) ** 2)
    if kind == 1:
        return "piecewise", np.where(r <= a, amp, 0.0)
    if kind == 2:
        return "wall-charged", np.full(r.size, amp)
    rho = amp * rng.uniform(-1, 1, r.size)
    return "random", rho


def tdma_system(rng, n, integer=False):
    if integer:
        l = rng.integers(-5, 6, n).astype(float); u = rng.integers(-5, 6, n).astype(float)
        d = (np.abs(l) + np.abs(u) + rng.integers(1, 5, n)) * rng.choice([-1, 1], n)
        b = rng.integers(-20, 21, n).astype(float)
    else:
        l = rng.normal(size=n) * 10 ** rng.uniform(-3, 3); u = rng.normal(size=n) * 10 ** rng.uniform(-3, 3)
        d = (np.abs(l) + np.abs(u)) * (1 + 10 ** rng.uniform(-3, 1, n)) * rng.choice([-1, 1], n)
        b = rng.normal(size=n) * 10 ** rng.uniform(-3, 3)
    l[0] = 0.0; u[-1] = 0.0
    return l, d, u, b


def residual_ok(l, d, u, b, x):
    """M x = b to rounding: |Mx-b|_i <= 64 eps * (|l||x-|+|d||x|+|u||x+|+|b|) * n-independent growth bound"""
    n = x.size
    xm = np.concatenate([[0.0], x[:-1]]); xp = np.concatenate([x[1:], [0.0]])
    res = l * xm + d * x + u * xp - b
    scale = np.abs(l * xm) + np.abs(d * x) + np.abs(u * xp) + np.abs(b)
    # backward stability of the Thomas algorithm for diagonally dominant systems: |res| <= c eps scale
    bad = np.abs(res) > 1e-12 * np.maximum(scale, np.max(scale) * 1e-3)
    return not bad.any(), float(np.max(np.abs(res) / np.maximum(scale, 1e-300)))


def run(ctx):
    import ebisim.simulation._radial_dist as rd
    D = ctx.driver
    rng = ctx.rng
    nt = 120 if ctx.thorough else 30
    sizes = [2, 3, 4, 5, 7, 16, 100, 500, 2000]
    # --- tridiagonal solver, bit-exact ---
    for k in range(nt):
        n = int(sizes[k % len(sizes)] if k < 2 * len(sizes) else rng.integers(2, 2001))
        integer = (k % 5 == 4)
        l, d, u, b = tdma_system(rng, n, integer)
        if k % 7 == 3 and n >= 4:
            # decoupled / bidiagonal systems: zeros on an off-diagonal in interior rows (still strictly diagonally dominant)
            z_ = rng.integers(1, n - 1, max(1, n // 4))
            (u if k % 2 else l)[z_] = 0.0
            if k % 3 == 0: u[1:-1] = 0.0
        try:
            if integer:
                x = rd.tridiagonal_matrix_algorithm(l.astype(np.int64), d.astype(np.int64), u.astype(np.int64), b.astype(np.int64))
            else:
                keep = [v.copy() for v in (l, d, u, b)]
                x = rd.tridiagonal_matrix_algorithm(l, d, u, b)
                # the system belongs to the caller (a pre-computed FD system is solved again and again): arrays unchanged, same answer again
                x2 = rd.tridiagonal_matrix_algorithm(l, d, u, b)
                if any(not np.array_equal(a_, b_) for a_, b_ in zip(keep, (l, d, u, b))) or not np.array_equal(x, x2, equal_nan=True):
                    ctx.fail("correspondence", f"tridiagonal_matrix_algorithm modified its arguments / a second solve of the same system differs (n={n})",
                             inp={"op": "tdma_twice", "l": keep[0], "d": keep[1], "u": keep[2], "b": keep[3]})
                    l, d, u, b = keep
        except Exception as ex:
            ctx.fail("correspondence", f"tridiagonal_matrix_algorithm raised {type(ex).__name__} on a strictly diagonally dominant system (n={n}, integer={integer})",
                     inp={"op": "tdma", "l": l, "d": d, "u": u, "b": b})
            continue
        xm = D.floats("tdma " + " ".join(farr(v) for v in (l, d, u, b)))
        ctx.evaluations += 1
        if n >= 3 and np.any(b != 0):
            ctx.seen(("tdma", n, k))
        ud = ulp_diff(x, xm) if x.shape == xm.shape else np.array([np.inf])
        if ud.max() > ULP:
            ctx.fail("correspondence", f"tridiagonal_matrix_algorithm differs from Radial.tdma by {ud.max():.0f} ulp (n={n})",
                     inp={"op": "tdma", "l": l, "d": d, "u": u, "b": b})
        ctx.count("tdma_cases")
        if k == 0:
            ctx.sample({"op": "tdma", "n": n, "l": l[:3], "d": d[:3], "u": u[:3], "b": b[:3], "x_impl": x[:3], "x_model": xm[:3]})
    # --- finite-difference systems and Poisson solves ---
    ng = 60 if ctx.thorough else 16
    for k in range(ng):
        n = int(rng.choice([3, 4, 10, 60, 200, 996]) if k % 3 else rng.integers(3, 1200))
        gk, r = grids(rng, n)
        n = r.size
        for name, f in (("non", rd.fd_system_nonuniform_grid), ("uni", rd.fd_system_uniform_grid)):
            if name == "uni" and gk != "uniform":
                continue
            l, d, u = f(r)
            m = D.floats(f"fd {name} " + farr(r))
            ctx.evaluations += 1
            ctx.seen(("fd", name, gk, n))
            got = np.concatenate([l, d, u])
            ud = ulp_diff(got, m) if got.shape == m.shape else np.array([np.inf])
            if ud.max() > ULP:
                ctx.fail("correspondence", f"fd_system_{"non" if name == "non" else ""}uniform_grid differs from the model by {ud.max():.0f} ulp on a {gk} grid (n={n})",
                         inp={"op": "fd", "kind": name, "r": r})
            ctx.count("fd_cases")
        dk, rho = density(rng, r)
        for name, f in (("non", rd.radial_potential_nonuniform_grid), ("uni", rd.radial_potential_uniform_grid)):
            if name == "uni" and gk != "uniform":
                continue
            phi = f(r, rho)
            m = D.floats(f"radpot {name} " + farr(r) + " " + farr(rho))
            ctx.evaluations += 1
            ctx.seen(("radpot", name, gk, dk, n))
            ud = ulp_diff(phi, m) if phi.shape == m.shape else np.array([np.inf])
            if ud.max() > ULP:
                ctx.fail("correspondence", f"radial_potential_{"non" if name == "non" else ""}uniform_grid differs from the model by {ud.max():.0f} ulp ({gk} grid, {dk} density, n={n})",
                         inp={"op": "radpot", "kind": name, "r": r, "rho": rho})
            ctx.count("radpot_cases")
            if k == 0:
                ctx.sample({"op": "radpot", "kind": name, "grid": gk, "density": dk, "n": n, "phi_impl_first": phi[:2], "phi_impl_last": phi[-1]})
    ctx.cov["sizes"] = sizes


def stmt_tdma(rd, l, d, u, b):
    keep = [np.array(v, copy=True) for v in (l, d, u, b)]
    try:
        x = rd.tridiagonal_matrix_algorithm(l, d, u, b)
        if any(not np.array_equal(a_, b_) for a_, b_ in zip(keep, (l, d, u, b))):
            return {"key": {"clause": "tdma_residual"}, "what": f"tridiagonal_matrix_algorithm overwrote the system it was given (size {keep[0].size}): a second solve with the same arrays "
                    "no longer solves M x = b", "input": {"op": "tdma", "l": keep[0], "d": keep[1], "u": keep[2], "b": keep[3]}}
    except Exception as ex:
        return {"key": {"clause": "tdma_residual"}, "what": f"tridiagonal_matrix_algorithm raises {type(ex).__name__} on a strictly diagonally dominant system of size {l.size}",
                "input": {"op": "tdma", "l": l, "d": d, "u": u, "b": b}}
    ok, w = residual_ok(l, d, u, b, x)
    if not ok or not np.all(np.isfinite(x)):
        return {"key": {"clause": "tdma_residual"}, "what": f"tridiagonal_matrix_algorithm: M x != b (relative residual {w:.2e}) on a strictly diagonally dominant system of size {l.size}",
                "input": {"op": "tdma", "l": l, "d": d, "u": u, "b": b}}


def stmt_fd(rd, r):
    out = []
    l, d, u = rd.fd_system_nonuniform_grid(r)
    n = r.size
    i = np.arange(1, n - 1)
    c = l[i] + d[i] + u[i]
    sc = np.abs(l[i]) + np.abs(d[i]) + np.abs(u[i])
    if np.any(np.abs(c) > 1e-9 * sc):
        j = int(i[np.argmax(np.abs(c) / sc)])
        out.append({"key": {"clause": "fd_constants"}, "what": f"fd_system_nonuniform_grid does not annihilate constants at interior node {j}", "input": {"op": "fd", "r": r}})
    q = l[i] * r[i - 1] ** 2 + d[i] * r[i] ** 2 + u[i] * r[i + 1] ** 2
    scq = np.abs(l[i]) * r[i - 1] ** 2 + np.abs(d[i]) * r[i] ** 2 + np.abs(u[i]) * r[i + 1] ** 2
    if np.any(np.abs(q - 4) > 1e-9 * np.maximum(scq, 4)):
        j = int(i[np.argmax(np.abs(q - 4) / np.maximum(scq, 4))])
        out.append({"key": {"clause": "fd_quadratic"}, "what": f"fd_system_nonuniform_grid: Laplacian of r^2 is {q[j-1]!r} != 4 at interior node {j}", "input": {"op": "fd", "r": r}})
    if d[-1] != 1 or l[-1] != 0:
        out.append({"key": {"clause": "fd_wall_row"}, "what": "wall row of fd_system_nonuniform_grid is not (0, 1, ·)", "input": {"op": "fd", "r": r}})
    return out


def stmt_uniform(rd, n, R):
    r = np.linspace(0, R, n)
    a = np.concatenate(rd.fd_system_uniform_grid(r)); b = np.concatenate(rd.fd_system_nonuniform_grid(r))
    sc = np.max(np.abs(b))
    if np.any(np.abs(a - b) > 1e-7 * sc):
        return {"key": {"clause": "fd_uniform_vs_nonuniform"}, "what": f"uniform and non-uniform FD systems differ on a uniform grid (n={n})", "input": {"op": "fd", "r": r}}


def stmt_potential(rd, r, rho, kind):
    out = []
    f = rd.radial_potential_nonuniform_grid if kind == "non" else rd.radial_potential_uniform_grid
    phi = f(r, rho)
    if phi[-1] != 0.0 or not np.all(np.isfinite(phi)):
        out.append({"key": {"clause": "wall_zero"}, "what": f"radial_potential_{"non" if kind == "non" else ""}uniform_grid: wall potential is {phi[-1]!r}, not 0 (rho[-1]={rho[-1]!r})",
                    "input": {"op": "radpot", "kind": kind, "r": r, "rho": rho}})
    # superposition: the potential of rho is the sum of the potentials of its positive and its negative part
    pp, pn = f(r, np.maximum(rho, 0.0)), f(r, np.minimum(rho, 0.0))
    if np.any(np.abs(phi - (pp + pn)) > 1e-9 * (np.max(np.abs(pp)) + np.max(np.abs(pn))) + 1e-300):
        out.append({"key": {"clause": "linear"}, "what": f"radial_potential_{"non" if kind == "non" else ""}uniform_grid: potential of a signed charge is not the sum of the potentials of its positive and negative parts "
                    f"(max |phi| {np.abs(phi).max():.3e}, parts {np.abs(pp).max():.3e} / {np.abs(pn).max():.3e})", "input": {"op": "radpot", "kind": kind, "r": r, "rho": rho}})
    # homogeneity over many decades (a dilute residual charge is still a charge)
    for al in (1e-9, 1e-18):
        pa = f(r, al * rho)
        if np.any(np.abs(pa - al * phi) > 1e-9 * al * np.max(np.abs(phi)) + 1e-300):
            out.append({"key": {"clause": "linear"}, "what": f"radial_potential_{"non" if kind == "non" else ""}uniform_grid: potential of {al:g} x rho is not {al:g} x the potential of rho "
                        f"(max |phi| {np.abs(pa).max():.3e} vs {al * np.abs(phi).max():.3e})", "input": {"op": "radpot", "kind": kind, "r": r, "rho": rho}})
            break
    # linearity
    phi2 = f(r, 2.5 * rho)
    if np.any(np.abs(phi2 - 2.5 * phi) > 1e-9 * np.max(np.abs(phi2)) + 1e-300):
        out.append({"key": {"clause": "linear"}, "what": f"radial_potential_{"non" if kind == "non" else ""}uniform_grid is not linear in the charge", "input": {"op": "radpot", "kind": kind, "r": r, "rho": rho}})
    return out


def analytic(r, rho0, a, R):
    from ebisim.physconst import EPS_0, PI
    lam = rho0 * PI * a * a / 2
    out = -lam / (2 * PI * EPS_0) * np.log(np.maximum(r, a) / R)
    ins = -rho0 / EPS_0 * (r ** 2 / 4 - r ** 4 / (16 * a * a))
    insa = -rho0 / EPS_0 * (a ** 2 / 4 - a ** 4 / (16 * a * a))
    ca = -lam / (2 * PI * EPS_0) * np.log(a / R) - insa
    return np.where(r < a, ins + ca, out)


def stmt_convergence(rd, n0=50):
    out = []
    R = 5e-3; a = R / 2; rho0 = -1e-3
    errs = []
    for n in (n0, 2 * n0, 4 * n0, 8 * n0, 16 * n0, 32 * n0):
        r = np.linspace(0, R, n + 1)
        rho = np.where(r < a, rho0 * (1 - (r / a) ** 2), 0.0)
        phi = rd.radial_potential_uniform_grid(r, rho)
        ex = analytic(r, rho0, a, R)
        errs.append(np.max(np.abs(phi - ex)) / np.max(np.abs(ex)))
        # Gauss law outside the charge
        o = r >= a * 1.2
        g = np.max(np.abs(phi[o] - ex[o])) / np.max(np.abs(ex))
        if g > 30.0 / n ** 2 + 1e-12 and n >= 100 and g > 5e-3 / (n / 50) ** 1.5:
            out.append({"key": {"clause": "gauss_law"}, "what": f"potential outside the charge deviates from the logarithmic Gauss-law potential by {g:.2e} (n={n})", "input": {"op": "convergence", "n": n}})
    ratios = [errs[i] / errs[i + 1] for i in range(len(errs) - 1)]
    if min(ratios) < 2.8 or errs[-1] > 1e-4:
        out.append({"key": {"clause": "second_order"}, "what": f"refinement ratios {ratios} (errors {errs}) are not second order", "input": {"op": "convergence", "n0": n0}})
    return out, ratios


def search(ctx):
    import ebisim.simulation._radial_dist as rd
    rng = np.random.default_rng([ctx.seed, 1212])
    V = []
    # inputs on which a correspondence disagreed first
    for f in ctx.failures:
        inp = f.get("input") or {}
        if inp.get("op") == "tdma":
            v = stmt_tdma(rd, *(np.asarray(inp[k], float) for k in "ldub"))
            if v: V.append(v)
        if inp.get("op") == "fd":
            V += stmt_fd(rd, np.asarray(inp["r"], float))
        if inp.get("op") == "radpot":
            V += stmt_potential(rd, np.asarray(inp["r"], float), np.asarray(inp["rho"], float), inp.get("kind", "non"))
    n_cases = 40 if (ctx.thorough or ctx.failures) else 8
    for k in range(n_cases):
        n = int(rng.integers(2, 600))
        sys_ = tdma_system(rng, n, k % 4 == 3)
        if k % 3 == 1 and n >= 4:   # zeros on the super-/sub-diagonal of interior rows
            (sys_[2] if k % 2 else sys_[0])[rng.integers(1, n - 1, max(1, n // 3))] = 0.0
        v = stmt_tdma(rd, *sys_)
        if v: V.append(v)
        gk, r = grids(rng, max(n, 4))
        V += stmt_fd(rd, r)
        dk, rho = density(rng, r)
        if k % 2 == 0:
            rho = rho.copy(); rho[-1] = -abs(rho).max() - 1e-6   # charge on the last node
        V += stmt_potential(rd, r, rho, "non")
        if gk == "uniform":
            V += stmt_potential(rd, r, rho, "uni")
        v = stmt_uniform(rd, int(rng.integers(3, 400)), 10 ** rng.uniform(-3, -1))
        if v: V.append(v)
        ctx.count("search_cases")
    # finely resolved, smoothly stretched grids (strictly increasing from 0, spacings from nm to mm)
    for R in (1e-2, 1e-3, 1e-4, 1e-5):
        for n in (50, 400, 2500):
            for pw in (1.0, 1.02, 1.3, 2.0):
                r = R * (np.arange(n + 1) / n) ** pw
                V += stmt_fd(rd, r)
                ctx.count("search_cases")
        if len(V) > 10:
            break
    c, ratios = stmt_convergence(rd)
    ctx.cov["refinement_ratios"] = ratios
    V += c
    return V


def replay(ctx, data):
    import ebisim.simulation._radial_dist as rd
    v = data.get("violation", {})
    inp = v.get("input", {})
    if inp.get("op") == "tdma":
        return stmt_tdma(rd, *(np.asarray(inp[k], float) for k in "ldub"))
    if inp.get("op") == "fd":
        r = stmt_fd(rd, np.asarray(inp["r"], float))
        return r[0] if r else None
    if inp.get("op") == "radpot":
        r = stmt_potential(rd, np.asarray(inp["r"], float), np.asarray(inp["rho"], float), inp.get("kind", "non"))
        return r[0] if r else None
    if inp.get("op") == "convergence":
        r, _ = stmt_convergence(rd)
        return r[0] if r else None
    return None
