"""C17 — energy scan equals independent simulations, ordered and addressable by energy."""
import copy, warnings
import numpy as np
import common
from leanio import farr, bits, dec

LEVEL = "proof"
LEMMA_MODULES = []
ALWAYS_SEARCH = True
RULE = ("energy_scan with a recording stub simulation vs Scan.run / getResult / abundanceAtTime / abundanceOfCs: energy lists of length 1..12 "
        "(unsorted, duplicates, ints, negative zero, neighbours one ulp apart), argument dictionaries with/without e_kin, solver_kwargs, extra "
        "keys, element as Z / symbol / Element; every query kind in random order; plus scans with basic_simulation compared bit-for-bit "
        "with direct calls. non-trivial = scans with >= 2 distinct energies given out of order; distinct = (energy tuple, argument keys)")
MONITORED = ["scan member equals the direct call of basic_simulation(e_kin=E, dense_output=True) bit for bit (N, t, interpolant)",
             "caller's dictionary keeps every key and value object", "warning issued iff e_kin was in the arguments"]
OUTSIDE = ["process-pool execution (parallel=True) is compared with the serial scan in the thorough tier only; the pool itself is not modelled"]
ASSUMPTIONS = ["energies are finite floats (NaN has no place in an ordering)", "the simulation function is deterministic"]


class StubResult:
    def __init__(self, e_kin, kw, z):
        self.e_kin, self.kw, self.z = e_kin, kw, z
    def abundance_at_time(self, t):
        k = np.arange(self.z + 1)
        return np.sin(0.37 * float(self.e_kin) + 1.3 * k) + k * float(t) + 0.001 * float(self.e_kin)


class Stub:
    def __init__(self, z):
        self.calls, self.z = [], z
    def __call__(self, e_kin=None, **kw):
        snap = {k: (dict(v) if isinstance(v, dict) else v) for k, v in kw.items()}
        r = StubResult(e_kin, snap, self.z)
        self.calls.append(r)
        return r


def pool_stub(e_kin=None, **kw):
    """module-level (picklable) simulation function for process-pool scans"""
    return StubResult(e_kin, {k: (dict(v) if isinstance(v, dict) else v) for k, v in kw.items()}, int(kw["element"].z))


def pool_scan(ctx, rng, collect):
    """parallel=True: same energies, same results, same order as the sequential scan"""
    import ebisim
    es = [float(x) for x in rng.uniform(100, 9000, 5)]
    es[3] = es[0]
    if sorted(es) == es: es = es[::-1]
    kw = {"element": 7, "t_max": 2.0, "j": 10.0}
    inp = {"energies": es, "kw": kw, "pool": True}
    a = ebisim.energy_scan(pool_stub, dict(kw), list(es), parallel=False)
    b = ebisim.energy_scan(pool_stub, dict(kw), list(es), parallel=True)
    ctx.evaluations += 2; ctx.count("pool_scans")
    if list(a._energies) != sorted(es) or list(b._energies) != sorted(es):
        collect("sorted", f"pool scan energies {list(b._energies)} / sequential {list(a._energies)} are not {sorted(es)}", inp)
    got = [float(r.e_kin) for r in b._results]
    if got != sorted(es) or [float(r.e_kin) for r in a._results] != sorted(es):
        collect("pointwise_pool", f"with parallel=True result i was simulated at {got}, the energy axis says {sorted(es)}", inp)
    t = 0.7
    if not np.array_equal(a.abundance_at_time(t)[1], b.abundance_at_time(t)[1]):
        collect("pointwise_pool", "abundance_at_time table of the pool scan differs from the sequential scan", inp)


def draw(rng, k):
    import ebisim
    n = int(rng.integers(1, 13))
    kind = k % 5
    if kind == 0:
        es = [float(x) for x in rng.uniform(10, 20000, n)]
    elif kind == 1:   # duplicates
        base = [float(x) for x in rng.uniform(10, 20000, max(1, n // 2))]
        es = [base[int(i)] for i in rng.integers(0, len(base), n)]
    elif kind == 2:   # integers and floats mixed
        es = [int(x) if rng.random() < 0.5 else float(x) for x in rng.integers(10, 60, n)]
    elif kind == 3:   # neighbours one ulp apart, descending
        x = float(rng.uniform(100, 5000))
        es = sorted([x, float(np.nextafter(x, np.inf)), float(np.nextafter(x, -np.inf))] + [float(v) for v in rng.uniform(10, 20000, max(0, n - 3))], reverse=True)
    else:             # already sorted / reverse sorted / includes 0 and -0.0
        es = sorted(float(x) for x in rng.uniform(0, 100, n))
        if rng.random() < 0.5: es = es[::-1]
        if rng.random() < 0.5: es += [0.0, -0.0]
    z = int(rng.integers(1, 30))
    el = [z, ebisim.elements.element_symbol(z) if hasattr(ebisim.elements, "element_symbol") else z, ebisim.Element.get(z)][k % 3]
    kw = {"element": el, "t_max": float(10 ** rng.uniform(-3, 2)), "j": float(rng.uniform(1, 1000))}
    if k % 2: kw["e_kin"] = float(rng.uniform(1, 1e4))
    if k % 4 >= 2: kw["solver_kwargs"] = {"method": "LSODA", "rtol": 1e-6}
    if k % 7 == 0: kw["solver_kwargs"] = {"dense_output": False}
    if k % 3 == 0: kw["CNI"] = bool(rng.integers(0, 2))
    return es, kw, z


def queries(rng, es, kw, z):
    """random-order list of queries"""
    tm = kw["t_max"]
    q = []
    for e in es: q.append(("get", e))
    for e in (float(np.nextafter(float(es[0]), np.inf)), float(es[0]) + 1.0, -1.0, 2 * float(max(es)) + 1, float(np.mean([float(x) for x in es]))):
        q.append(("get", e))
    for t in (0.0, tm, float(np.nextafter(tm, np.inf)), -float(np.nextafter(0, 1)), -1e-9, 2 * tm, float(rng.uniform(0, tm)), float(rng.uniform(0, tm)), 1e-4 * tm):
        q.append(("time", t))
    for cs in {0, z, z + 1, z + 5, int(rng.integers(0, z + 1))}:
        q.append(("cs", int(cs)))
    idx = rng.permutation(len(q))
    return [q[i] for i in idx]


def one_scan(ctx, es, kw, z, qs, collect):
    """runs one stub scan and all queries; `collect(clause, what)` receives statement violations,
    ctx.fail receives model disagreements"""
    import ebisim
    D = ctx.driver
    stub = Stub(z)
    kw_in = dict(kw)
    before = {k: v for k, v in kw_in.items()}
    es_in = copy.deepcopy(es)
    inp = {"energies": es, "kw": {k: (v if not hasattr(v, "z") else int(v.z)) for k, v in kw.items()}}
    with warnings.catch_warnings(record=True) as w:
        warnings.simplefilter("always")
        scan = ebisim.energy_scan(stub, kw_in, es_in)
    ctx.evaluations += 1
    warned = any("e_kin" in str(x.message) for x in w)
    got = np.asarray(scan._energies, dtype=float)
    model = D.ask("escan " + farr([float(x) for x in es]))
    sep = model.index("|")
    m_es, m_rs = dec(model[:sep]), dec(model[sep + 1:])
    if got.shape != m_es.shape or not np.array_equal(got.view(np.uint64) if got.size else got, m_es.view(np.uint64) if m_es.size else m_es):
        # -0.0 and 0.0 compare equal: their relative order is not part of the ordering
        if got.shape != m_es.shape or not np.array_equal(got, m_es):
            ctx.fail("correspondence", f"energy_scan evaluated energies {got.tolist()} but Scan.run gives {m_es.tolist()}", inp=inp)
    # --- statement: ascending permutation of the request
    want = sorted(float(x) for x in es)
    if got.tolist() != want:
        collect("sorted", f"scan energies {got.tolist()} are not the requested {es} in ascending order", inp)
    called = [float(c.e_kin) for c in stub.calls]
    if called != m_rs.tolist():
        ctx.fail("correspondence", f"simulation function called with energies {called} but Scan.run calls it with {m_rs.tolist()}", inp=inp)
    if called != want or len(scan._results) != len(want) or any(a is not b for a, b in zip(scan._results, stub.calls)):
        collect("pointwise", f"results are not the direct calls in ascending energy order: called {called}, wanted {want}", inp)
    # arguments of every call: caller's arguments without e_kin, dense output forced, element cast
    exp = {k: v for k, v in kw.items() if k != "e_kin"}
    for c in stub.calls:
        prob = []
        if set(c.kw) != set(exp) | {"solver_kwargs"}: prob.append(f"keys {sorted(c.kw)}")
        else:
            for k, v in exp.items():
                if k == "solver_kwargs":
                    if {kk: vv for kk, vv in c.kw[k].items() if kk != "dense_output"} != {kk: vv for kk, vv in v.items() if kk != "dense_output"}: prob.append("solver_kwargs changed")
                elif k == "element":
                    if not (isinstance(c.kw[k], ebisim.Element) and c.kw[k].z == z): prob.append("element not cast to the requested Element")
                elif c.kw[k] is not v and c.kw[k] != v: prob.append(f"{k} changed")
            if c.kw["solver_kwargs"].get("dense_output") is not True: prob.append("dense_output not forced")
        if prob:
            collect("arguments", f"simulation called with arguments differing from the caller's: {prob}", inp); break
    if warned != ("e_kin" in kw):
        collect("warning", f"warning issued={warned} although e_kin in arguments={'e_kin' in kw}", inp)
    if set(kw_in) != set(before) or any(kw_in[k] is not before[k] for k in before):
        collect("caller_dict", f"caller's dictionary changed: keys {sorted(kw_in)} (before {sorted(before)})", inp)
    if list(es_in) != list(es):
        collect("caller_list", "caller's energy list was reordered", inp)
    if len(got) >= 2 and len(set(want)) >= 2 and [float(x) for x in es] != want:
        ctx.seen((tuple(want), tuple(sorted(kw))))
    # --- queries, in the given order
    tm = kw["t_max"]
    sorted_line = farr(got)
    for kind, arg in qs:
        ctx.count("q_" + kind)
        if kind == "get":
            m = D.ask(f"escanget {sorted_line} {bits(float(arg))}")[0]
            try:
                r = scan.get_result(arg); err = None
            except ValueError:
                r = None; err = "ValueError"
            except Exception as e:
                r = None; err = type(e).__name__
            simulated = float(arg) in want
            if err not in (None, "ValueError"):
                collect("get_result", f"get_result({arg!r}) raised {err}", dict(inp, query=[kind, arg]))
            elif simulated and (r is None or float(r.e_kin) != float(arg)):
                collect("get_result", f"get_result({arg!r}) of a simulated energy returned {('the result for ' + repr(r.e_kin)) if r is not None else 'ValueError'}", dict(inp, query=[kind, arg]))
            elif not simulated and r is not None:
                collect("get_result", f"get_result({arg!r}) returned a result although the energy was not simulated", dict(inp, query=[kind, arg]))
            mi = None if m == "none" else int(m)
            ii = None if r is None else [i for i, x in enumerate(scan._results) if x is r][0]
            if mi != ii and err in (None, "ValueError"):
                ctx.fail("correspondence", f"get_result({arg!r}) returns result #{ii} but Scan.getResult gives #{mi}", inp=dict(inp, query=[kind, arg]))
        elif kind == "time":
            m = D.ask(f"escantime {bits(tm)} {bits(arg)}")[0]
            try:
                e2, tab = scan.abundance_at_time(arg); err = None
            except ValueError:
                err = "ValueError"
            except Exception as e:
                err = type(e).__name__
            inside = 0 <= arg <= tm
            if (err == "ValueError") != (m == "err") and err in (None, "ValueError"):
                ctx.fail("correspondence", f"abundance_at_time({arg!r}) raises={err} but the model says {m} (t_max={tm!r})", inp=dict(inp, query=[kind, arg]))
            if err not in (None, "ValueError") or (err is None) != inside:
                collect("time_domain", f"abundance_at_time({arg!r}) with t_max={tm!r}: {'raised ' + err if err else 'returned a table'}", dict(inp, query=[kind, arg]))
            elif err is None:
                ref = np.column_stack([r.abundance_at_time(arg) for r in scan._results])
                if tab.shape != ref.shape or not np.array_equal(tab, ref) or not np.array_equal(e2, got):
                    collect("time_table", f"abundance_at_time({arg!r}) table is not column i = result i at t", dict(inp, query=[kind, arg]))
                if e2 is scan._energies:
                    collect("time_table", "abundance_at_time hands out its internal energy array", dict(inp, query=[kind, arg]))
        else:
            m = D.ask(f"escancs {z} {bits(tm)} {arg}")
            try:
                e2, ts, tab = scan.abundance_of_cs(arg); err = None
            except ValueError:
                err = "ValueError"
            except Exception as e:
                err = type(e).__name__ + ": " + str(e)[:80]
            if err not in (None, "ValueError") or (err is None) != (arg <= z):
                collect("cs_domain", f"abundance_of_cs({arg}) for Z={z}: {'raised ' + err if err else 'returned a table'}", dict(inp, query=[kind, arg]))
            if err in (None, "ValueError") and (err == "ValueError") != (m[0] == "err"):
                ctx.fail("correspondence", f"abundance_of_cs({arg}) raises={err} but the model says {m[0]} (Z={z})", inp=dict(inp, query=[kind, arg]))
            if err is None and m[0] != "err":
                mt = dec(m)
                if mt.shape != ts.shape or not np.allclose(mt, ts, rtol=1e-12, atol=0):
                    ctx.fail("correspondence", f"abundance_of_cs sampling times differ from Scan.csTimes (worst {np.abs(mt / ts - 1).max() if mt.shape == ts.shape else 'shape'})", inp=dict(inp, query=[kind, arg]))
                if ts.min() < 0 or ts.max() > tm:
                    collect("cs_table", "abundance_of_cs samples times outside [0, t_max]", dict(inp, query=[kind, arg]))
                ref = np.array([[r.abundance_at_time(t)[arg] for r in scan._results] for t in ts])
                if tab.shape != ref.shape or not np.array_equal(tab, ref) or not np.array_equal(e2, got):
                    collect("cs_table", f"abundance_of_cs({arg}) table is not [time k, energy i] = result i at time k, state cs", dict(inp, query=[kind, arg]))
    return scan


def real_scan(ctx, rng, collect, parallel=False):
    """scan with basic_simulation vs direct calls"""
    import ebisim
    z = int(rng.choice([2, 6, 10, 18, 19]))
    es = [float(x) for x in rng.uniform(200, 8000, 3)]
    if rng.random() < 0.5: es[2] = es[0]
    kw = dict(element=z, j=float(rng.uniform(50, 500)), t_max=float(10 ** rng.uniform(-2, 0)), CNI=bool(rng.integers(0, 2)), dr_fwhm=[None, 15.0][int(rng.integers(0, 2))])
    if rng.random() < 0.5: kw["solver_kwargs"] = {"rtol": 1e-5}
    if rng.random() < 0.5: kw["e_kin"] = 1234.0
    inp = {"energies": es, "kw": kw, "real": True, "parallel": parallel}
    with warnings.catch_warnings():
        warnings.simplefilter("ignore")
        scan = ebisim.energy_scan(ebisim.basic_simulation, dict(kw), list(es), parallel=parallel)
    ctx.evaluations += 1; ctx.count("real_scans")
    want = sorted(es)
    if list(scan._energies) != want:
        collect("sorted", f"scan energies {list(scan._energies)} are not {want}", inp)
    for i, e in enumerate(want):
        d = {k: v for k, v in kw.items() if k not in ("e_kin", "solver_kwargs")}
        sk = dict(kw.get("solver_kwargs", {})); sk["dense_output"] = True
        ref = ebisim.basic_simulation(e_kin=e, solver_kwargs=sk, **d)
        r = scan._results[i]
        tq = float(rng.uniform(0, kw["t_max"]))
        same = np.array_equal(ref.t, r.t) and np.array_equal(ref.N, r.N) and np.array_equal(ref.abundance_at_time(tq), r.abundance_at_time(tq))
        if not same:
            collect("pointwise_real", f"scan member #{i} (E={e!r}) differs from basic_simulation called directly with the same arguments", dict(inp, index=i)); break
        try:
            g = scan.get_result(e)
            if g is not scan._results[want.index(e)]:
                collect("get_result", f"get_result({e!r}) does not return the first result of that energy", dict(inp, index=i))
        except Exception as ex:
            collect("get_result", f"get_result({e!r}) raised {type(ex).__name__}", dict(inp, index=i))
    tq = float(rng.uniform(0, kw["t_max"]))
    _, tab = scan.abundance_at_time(tq)
    ref = np.column_stack([r.abundance_at_time(tq) for r in scan._results])
    if not np.array_equal(tab, ref):
        collect("time_table", "abundance_at_time table differs from the per-result queries", inp)
    cs = int(rng.integers(0, z + 1))
    try:
        _, ts, tab = scan.abundance_of_cs(cs)
        k = int(rng.integers(0, ts.size))
        if not np.array_equal(tab[k], np.array([r.abundance_at_time(ts[k])[cs] for r in scan._results])):
            collect("cs_table", "abundance_of_cs row differs from the per-result queries", inp)
    except Exception as ex:
        collect("cs_domain", f"abundance_of_cs({cs}) for Z={z} raised {type(ex).__name__}: {str(ex)[:80]}", inp)


def _collector(V):
    def collect(clause, what, inp):
        V.append({"key": {"clause": clause}, "what": what, "input": inp})
    return collect


def run(ctx):
    rng = ctx.rng
    V = []
    ctx.violations = V
    n = 120 if ctx.thorough else 40
    for k in range(n):
        es, kw, z = draw(rng, k)
        qs = queries(rng, es, kw, z)
        one_scan(ctx, es, kw, z, qs, _collector(V))
        if k < 2:
            ctx.sample({"energies": es, "kw_keys": sorted(kw), "Z": z, "queries": [list(q) for q in qs[:6]]})
        if len(V) > 10: break
    # fixed corpus: single energy, all equal, int/float equal values
    import ebisim
    for es in ([5.0], [7.0, 7.0, 7.0], [5, 5.0, 4], [3.0, 2.0, 1.0]):
        kw = {"element": 3, "t_max": 1.0, "e_kin": 9.0}
        one_scan(ctx, es, kw, 3, queries(rng, es, kw, 3), _collector(V))


def search(ctx):
    rng = np.random.default_rng([ctx.seed, 1717])
    V = []
    pool_scan(ctx, rng, _collector(V))
    for _ in range(4 if ctx.thorough else 1):
        real_scan(ctx, rng, _collector(V))
    if ctx.thorough:
        real_scan(ctx, rng, _collector(V), parallel=True)
    return V


def replay(ctx, data):
    v = data.get("violation", {})
    inp = v.get("input") or {}
    if "energies" not in inp: return None
    V = []
    if inp.get("pool"):
        pool_scan(ctx, np.random.default_rng([ctx.seed, 1717]), _collector(V))
    elif inp.get("real"):
        real_scan(ctx, np.random.default_rng([ctx.seed, 1717]), _collector(V), parallel=inp.get("parallel", False))
    else:
        kw = dict(inp["kw"]); z = int(kw["element"])
        qs = [tuple(inp["query"])] if "query" in inp else queries(np.random.default_rng(0), inp["energies"], kw, z)
        one_scan(ctx, inp["energies"], kw, z, qs, _collector(V))
    r = [x for x in V if x["key"] == v.get("key")]
    return r[0] if r else None
