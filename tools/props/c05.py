"""C05 — reported rates = documented formulas; switches remove exactly their own term."""
from props import c03 as _c
import numpy as np, logging
import advcorr, advstmt, gens
LEVEL = "proof"; LEMMA_MODULES = _c.LEMMA_MODULES; ALWAYS_SEARCH = True
RULE = _c.RULE + (" [C05 compares every entry of the rates dictionary; additionally (thorough) the rate arrays stored by advanced_simulation(rates=True) "
                  "are compared column by column, bit-exactly, with a fresh _adv_rhs call at the stored (t_i, y_i)]")
MONITORED = ["independent numpy evaluation of every documented rate formula from the public device / target / gas objects (1e-9)",
             "switching one effect off leaves every other reported rate bit-identical and removes its own keys"]
OUTSIDE = ["RADIAL_DYNAMICS=True: phi is taken from the solver (C13), not re-derived in the independent statement"]
ASSUMPTIONS = _c.ASSUMPTIONS


def stored_rates(ctx, n):
    """rate arrays of finished simulations are the kernel's rates at the stored solution points"""
    import ebisim
    from ebisim.simulation import advanced_simulation
    logging.getLogger("ebisim").setLevel(logging.ERROR)
    rng = ctx.rng
    done = 0
    for k in range(n + 3):
        if done >= n: break
        dev, dkw = gens.make_device(rng, n_grid=60)
        tg, tdesc = gens.make_targets(rng, dev, k=int(rng.integers(1, 4)), zmax=8)
        bg, bdesc = gens.make_gases(rng, k=1)
        opts, okw = gens.make_options(rng, RADIAL_DYNAMICS=False, RECOMPUTE_CROSS_SECTIONS=bool(k % 2))
        try:
            res = advanced_simulation(dev, tg, t_max=float(10 ** rng.uniform(-5, -3)), bg_gases=bg, options=opts, rates=True, verbose=False)
        except ValueError as e:
            # the drawn scenario's integration left the kernel's domain (a barely populated state driven to the temperature floor on the
            # 60-node mesh, scipy rejects the non-finite Jacobian): not a statement about stored rates — next scenario
            if "infs or NaNs" not in str(e): raise
            ctx.count("integration_left_domain_skipped"); continue
        res = res if isinstance(res, tuple) else (res,)
        m = advcorr.retype(res[0].model)
        sol = res[0].res
        ctx.evaluations += 1
        desc = {"device": dkw, "targets": tdesc, "gases": bdesc, "options": {a: b for a, b in okw.items() if isinstance(b, bool)}}
        for col in sorted(set([0, sol.t.size - 1] + list(rng.integers(0, sol.t.size, 4)))):
            dy, ex = advcorr.impl_rhs(m, np.ascontiguousarray(sol.y[:, col]))
            for i, r in enumerate(res):
                for key, arr in (r.rates or {}).items():
                    ref = np.array(ex[key])
                    exp = ref[m.lb[i]:m.ub[i]] if ref.size != 1 else ref
                    if arr.shape[0] != exp.size or not np.array_equal(arr[:, col], exp, equal_nan=True):
                        ctx.fail("correspondence", f"stored rate {key!r} of target {i} at column {col} is not the kernel's rate at the stored state", inp=dict(desc, y=sol.y[:, col], key=int(key)))
                        return
            ctx.seen(("stored", k, int(col)))
        done += 1


def run(ctx):
    _c.run(ctx)
    stored_rates(ctx, 4 if ctx.thorough else 1)

def search(ctx): return _c.search(ctx, "C05")
def replay(ctx, data): return _c.replay(ctx, data, "C05")
