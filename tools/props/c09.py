"""C09 — DR cross sections: strength-preserving Gaussians."""
import numpy as np
import common, xscorr
from leanio import farr, unbits

LEVEL = "proof"
LEMMA_MODULES = ["Consts"]
RULE = ("generated DR tables vs Element.dr_* (all 105 elements, exact); generated normpdf vs compiled _normpdf (1e-11); drxs_vec vs Xs.drxsVec for "
        "widths log-uniform in (0.1, 300) at resonances, +-w/2, +3w and far outside, incl. elements without data. non-trivial = non-zero vector; "
        "distinct = distinct (Z, E, w)")
MONITORED = ["numerical quadrature: integral over an isolated window equals the summed strengths; half-maximum width of an isolated resonance equals the requested width"]
OUTSIDE = ["the integral is over all of ℝ (incl. negative energies)", "kappa = sqrt(pi/PI) differs from 1 by < 1e-15 (proved)"]
ASSUMPTIONS = ["libm exp/pow agree to 1e-11"]


def run(ctx):
    import ebisim.xs as X
    xscorr.corr_tables(ctx)
    ctx.exhaustive = True
    D = ctx.driver
    rng = ctx.rng
    n = 400 if ctx.thorough else 100
    x = rng.normal(0, 3, n) * 10 ** rng.uniform(-1, 3, n); mu = rng.normal(0, 1, n) * 10 ** rng.uniform(-1, 3, n); s = 10 ** rng.uniform(-2, 2.5, n)
    impl = X._normpdf(x, mu, s)
    ans = D.ask_many([f"k normpdf " + farr([x[i], mu[i], s[i]]) for i in range(n)])
    model = np.array([unbits(a[0]) for a in ans])
    ok, w, i = common.compare(impl, model, 1e-11, scale=np.full(n, 1e-300))
    ctx.evaluations += n
    if not ok:
        ctx.fail("correspondence", f"_normpdf({x[i]!r},{mu[i]!r},{s[i]!r}) = {impl[i]!r} but generated definition gives {model[i]!r}", inp={"op": "normpdf", "args": [x[i], mu[i], s[i]]})
    zs = list(range(1, 106)) if ctx.thorough else xscorr.zs_for(ctx, 40)
    xscorr.corr_dr(ctx, zs)
    ctx.cov["elements"] = zs


def stmt(z, rng):
    """numerical statements on the real code for element z"""
    import ebisim
    el = xscorr.element(z)
    out = []
    def add(clause, what, inp):
        out.append({"key": {"clause": clause, "Z": int(z)}, "what": what, "input": dict(inp, Z=int(z))})
    w = float(10 ** rng.uniform(-1, np.log10(300)))
    import os
    has_file = os.path.exists(os.path.join(os.path.dirname(ebisim.__file__), "resources", "drdata", f"DR_{z}.csv"))
    if not has_file:
        # "identically zero for elements without data": probe generic energies and any resonance energy the Element (wrongly) carries
        probes = [1234.5, 50.0, 9.9e4] + [float(x) for x in el.dr_e_res[:: max(1, el.dr_e_res.size // 8)]]
        for E in probes:
            v = ebisim.drxs_vec(el, E, w)
            if np.any(v != 0) or v.shape != (z + 1,):
                add("no_data_zero", f"drxs_vec(Z={z}, E={E!r}, fwhm={w!r}) is not identically zero although the package ships no DR data for Z={z} (max {v.max()!r})", {"E": E, "w": w})
                break
        return out
    # the resonances the element carries are the tabulated ones (data file read here by an independent csv reader)
    import csv
    with open(os.path.join(os.path.dirname(ebisim.__file__), "resources", "drdata", f"DR_{z}.csv"), newline="") as f:
        tab = [(int(r_["CHARGE_STATE"]), float(r_["DELTA_E_AI"]), float(r_["RECOMB_STRENGTH"])) for r_ in csv.DictReader(f)
               if any((v_ or "").strip() for v_ in r_.values())]
    have = list(zip((int(c) for c in el.dr_cs), (float(e) for e in el.dr_e_res), (float(x) for x in el.dr_strength)))
    if sorted(tab) != sorted(have):
        miss = sorted(set(tab) - set(have)); extra = sorted(set(have) - set(tab))
        add("tabulated_resonances", f"Element.get({z}) carries {len(have)} resonances, DR_{z}.csv tabulates {len(tab)}; "
            f"missing {miss[:2]}, not in the file {extra[:2]}", {})
        return out
    if el.dr_cs.min() < 1 or el.dr_cs.max() > z or (el.dr_strength < 0).any() or (el.dr_e_res <= 0).any():
        add("table_range", f"DR table of Z={z} has a charge state outside 1..Z, a negative strength or a non-positive energy", {})
    E = float(rng.choice(el.dr_e_res) + rng.normal() * w)
    v = ebisim.drxs_vec(el, E, w)
    if v.shape != (z + 1,) or not np.all(np.isfinite(v)) or (v < 0).any() or v[0] != 0:
        add("nonneg_neutral_zero", f"drxs_vec(Z={z}, E={E!r}, w={w!r}) negative / non-finite / neutral entry {v[0]!r}", {"E": E, "w": w})
    # explicit formula
    sig = w / 2.35482
    from ebisim.physconst import PI
    sp = np.zeros(z + 1)
    g = np.exp(-(E - el.dr_e_res) ** 2 / (2 * sig ** 2)) / np.sqrt(2 * PI * sig ** 2) * el.dr_strength * 1e-24
    np.add.at(sp, el.dr_cs, g)
    ok, wst, i = common.compare(v, sp, 1e-9, scale=np.full(z + 1, 1e-300))
    if not ok:
        add("gaussian_sum", f"drxs_vec(Z={z}, E={E!r}, w={w!r})[{i}] = {v[i]!r} but the sum of Gaussians gives {sp[i]!r}", {"E": E, "w": w})
    # strength integral per charge state by quadrature over the whole band (trapezoid on a fine grid is exact enough for Gaussians)
    lo, hi = el.dr_e_res.min() - 8 * sig - 1, el.dr_e_res.max() + 8 * sig + 1
    npts = int(min(400000, max(2000, (hi - lo) / sig * 12)))
    if npts < 400000:
        es = np.linspace(lo, hi, npts)
        _, scan = ebisim.drxs_energyscan(el, w, es)
        integ = np.trapezoid(scan, es, axis=1) if hasattr(np, "trapezoid") else np.trapz(scan, es, axis=1)
        tot = np.zeros(z + 1); np.add.at(tot, el.dr_cs, el.dr_strength * 1e-24)
        bad = np.abs(integ - tot) > 1e-6 * np.maximum(tot, tot.max() * 1e-6)
        if bad.any():
            q = int(np.argmax(bad)); add("strength_integral", f"Z={z}, w={w!r}: integral of the DR cross section of charge state {q} is {integ[q]!r}, tabulated strength sum {tot[q]!r}", {"w": w})
    # isolated resonance: maximum position and half width
    order = np.argsort(el.dr_e_res)
    er = el.dr_e_res[order]; cs = el.dr_cs[order]; st = el.dr_strength[order]
    for k in rng.permutation(er.size)[:40]:
        same = (cs == cs[k])
        others = er[same & (np.arange(er.size) != k)]
        if st[k] <= 0:
            continue
        if others.size == 0 or np.min(np.abs(others - er[k])) > 12 * w:
            q = int(cs[k]); mu = float(er[k])
            f = lambda e: ebisim.drxs_vec(el, float(e), w)[q]
            peak = f(mu)
            xs_ = mu + np.linspace(-w, w, 2001)
            vals = np.array([f(e) for e in xs_])
            if abs(xs_[np.argmax(vals)] - mu) > w / 900:
                add("peak_position", f"Z={z}: isolated resonance of charge state {q} at {mu!r} eV has its maximum at {xs_[np.argmax(vals)]!r}", {"w": w, "mu": mu})
            # bisection for the half-maximum points
            def half(sign):
                a, b = 0.0, w
                for _ in range(60):
                    m = (a + b) / 2
                    if f(mu + sign * m) > peak / 2: a = m
                    else: b = m
                return (a + b) / 2
            width = half(1) + half(-1)
            if abs(width - w) > 1e-5 * w:
                add("fwhm", f"Z={z}: isolated resonance at {mu!r} eV has FWHM {width!r}, requested {w!r}", {"w": w, "mu": mu})
            break
    return out


def search(ctx):
    rng = np.random.default_rng([ctx.seed, 909])
    V = []
    zs = [int(f["input"]["Z"]) for f in ctx.failures if (f.get("input") or {}).get("Z")]
    zs += list(range(1, 106)) if (ctx.thorough or ctx.failures) else [int(z) for z in rng.choice(np.arange(1, 106), 10, replace=False)]
    for z in zs:
        V += stmt(z, rng); ctx.count("search_cases")
        if len(V) > 20: break
    return V


def replay(ctx, data):
    inp = data.get("violation", {}).get("input", {})
    clause = data.get("violation", {}).get("key", {}).get("clause")
    if "Z" in inp:
        for s in range(20):
            r = [v for v in stmt(int(inp["Z"]), np.random.default_rng(s)) if v["key"]["clause"] == clause]
            if r: return r[0]
    return None
