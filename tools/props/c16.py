"""C16 — thread-count / process-pool / repetition independence."""
import os, sys, subprocess, json, hashlib
import numpy as np
import common, gens

LEVEL = "proof"
RULE = ("_multithreading_indices vs Chunks.indices for ALL n_threads in 1..16 x n_cols in 1..400 (exhaustive) plus random larger pairs; "
        "_chunked_adv_rhs on C-ordered / F-ordered / sliced blocks vs column-wise _adv_rhs (bit-exact); runtime monitors: advanced_simulation "
        "for several n_threads, energy_scan parallel vs sequential, repetition in the same and in fresh processes (bit-exact). "
        "non-trivial = more than one chunk / block wider than one column; distinct = distinct (n_cols, n_threads) or block layout")
MONITORED = ["advanced_simulation(n_threads=k).res.y/t bit-identical for k in {1,2,3,5,8,16}",
             "energy_scan(parallel=True) bit-identical to parallel=False",
             "repeated calls in one process (shuffled) and in fresh processes reproduce identical numbers"]
OUTSIDE = ["actual thread interleavings, ThreadPoolExecutor.map / Pool.map order guarantees, shared state inside nogil code, BLAS threading: runtime, exercised by the monitors only"]
ASSUMPTIONS = ["ThreadPoolExecutor.map and multiprocessing.Pool.map preserve order (documented)"]
TRUSTED_EXTRA = ["C16 is partial: the theorems cover the chunk bookkeeping and the order-preserving-map model; interleavings are monitored"]


def run(ctx):
    from ebisim.simulation._advanced import _multithreading_indices, _chunked_adv_rhs, _adv_rhs
    D = ctx.driver
    pairs = [(n, t) for t in range(1, 17) for n in range(1, 401)]
    rng = ctx.rng
    pairs += [(int(rng.integers(401, 100000)), int(rng.integers(1, 65))) for _ in range(200 if ctx.thorough else 40)]
    ans = D.ask_many([f"chunks {n} {t}" for n, t in pairs])
    for (n, t), a in zip(pairs, ans):
        model = tuple((int(a[2 * i]), int(a[2 * i + 1])) for i in range(len(a) // 2))
        impl = tuple((int(x), int(y)) for x, y in _multithreading_indices.__wrapped__(n, t))
        ctx.evaluations += 1
        if len(impl) > 1:
            ctx.seen((n, t))
        if impl != model:
            ctx.fail("correspondence", f"_multithreading_indices({n}, {t}) = {impl} but Chunks.indices = {model}", inp={"op": "chunks", "n": n, "t": t})
            if len([f for f in ctx.failures]) > 5:
                break
    ctx.exhaustive = True
    ctx.sample({"op": "chunks", "n_cols": 10, "n_threads": 4, "impl": list(_multithreading_indices.__wrapped__(10, 4))})
    # chunked rhs vs column-wise rhs, different memory layouts
    dev, dkw = gens.make_device(rng, n_grid=60)
    tg, tdesc = gens.make_targets(rng, dev, k=2, zmax=8)
    bg, _ = gens.make_gases(rng, k=1)
    from ebisim.simulation import AdvancedModel
    for rd_on in (False, True):
        opts, okw = gens.make_options(rng, RADIAL_DYNAMICS=rd_on)
        m = AdvancedModel.get(dev, tg, bg, opts)
        ncol = 7
        Y = np.stack([gens.make_state(rng, m) for _ in range(ncol)], axis=1)
        if rd_on:   # keep the radial solver in its convergent regime: moderate densities, warm ions
            Y[: m.nq] = np.minimum(Y[: m.nq], 1e7); Y[m.nq:] = np.maximum(Y[m.nq:], (5.0 * np.maximum(m.q, 1))[:, None])
        ref = np.stack([_adv_rhs(m, 0.0, np.ascontiguousarray(Y[:, k]), None) for k in range(ncol)], axis=1)
        big = np.zeros((Y.shape[0], 2 * ncol + 3)); big[:, 2:2 + ncol] = Y
        layouts = {"C": np.ascontiguousarray(Y), "F": np.asfortranarray(Y), "sliced": big[:, 2:2 + ncol], "single": np.ascontiguousarray(Y[:, 3:4])}
        for name, blk in layouts.items():
            out = _chunked_adv_rhs(m, 0.0, blk)
            ctx.evaluations += 1
            ctx.seen(("chunked", name, rd_on))
            refb = ref if name != "single" else ref[:, 3:4]
            same = np.array_equal(out, refb, equal_nan=True)
            if not same:
                ctx.fail("correspondence", f"_chunked_adv_rhs on a {name}-ordered block (RADIAL_DYNAMICS={rd_on}) differs from column-wise _adv_rhs",
                         inp={"op": "chunked", "layout": name, "radial_dynamics": rd_on})
    ctx.sample({"op": "chunked_adv_rhs", "targets": tdesc, "options": okw, "block_shape": list(Y.shape)})
    # two settings of the radial solver's controls used alternately in one process: each call follows its own model
    import advcorr
    oa, _ = gens.make_options(None, bits=[True] * 12, RADIAL_DYNAMICS=True, RADIAL_SOLVER_REL_DIFF=1e-1, RADIAL_SOLVER_MAX_STEPS=2)
    ob, _ = gens.make_options(None, bits=[True] * 12, RADIAL_DYNAMICS=True, RADIAL_SOLVER_REL_DIFF=1e-9, RADIAL_SOLVER_MAX_STEPS=500)
    ma, mb = AdvancedModel.get(dev, tg, bg, oa), AdvancedModel.get(dev, tg, bg, ob)
    ya = advcorr.compensated_state(rng, ma, frac=0.3)
    for mm, nm in ((ma, "loose"), (mb, "tight"), (ma, "loose"), (mb, "tight")):
        advcorr.compare_rhs(ctx, mm, [ya], {"op": "solver_controls", "setting": nm, "device": dkw, "targets": tdesc})
        ctx.seen(("controls", nm))


SNIPPET = r'''
import sys, os, json, hashlib
sys.path.insert(0, %(tools)r); import common; common.setup_numba_cache(); sys.path.insert(0, common.REPO)
import numpy as np, ebisim
from ebisim.simulation import Device, advanced_simulation
d = Device.get(current=0.15, e_kin=4000., r_e=1e-4, v_ax=150., b_ax=2., r_dt=5e-3, length=0.8, n_grid=60)
t = [ebisim.Element.get_ions("C", 1e7, 5.0, 1), ebisim.Element.get_gas("Ne", 1e-9, d.r_dt)]
r = advanced_simulation(d, t, t_max=1e-3, n_threads=%(nt)d, verbose=False)
r = r[0] if isinstance(r, tuple) else r
h = hashlib.sha256(np.ascontiguousarray(r.res.y).tobytes() + np.ascontiguousarray(r.res.t).tobytes()).hexdigest()
b = ebisim.basic_simulation(ebisim.get_element("Ar"), 80., 3200., 0.05, dr_fwhm=15.)
h2 = hashlib.sha256(np.ascontiguousarray(b.N).tobytes() + np.ascontiguousarray(b.t).tobytes()).hexdigest()
print("HASH", h, h2)
'''


def res_of(r):
    return (r[0] if isinstance(r, tuple) else r).res


def digest(a, b):
    return hashlib.sha256(np.ascontiguousarray(a).tobytes() + np.ascontiguousarray(b).tobytes()).hexdigest()


def search(ctx):
    """runtime monitors (bit-exact) + direct statement of the partition property on the real code"""
    import ebisim
    from ebisim.simulation import Device, advanced_simulation, energy_scan
    from ebisim.simulation._advanced import _multithreading_indices
    V = []
    # partition property on the implementation itself (all pairs)
    for t in range(1, 17):
        for n in range(1, 401):
            ix = _multithreading_indices.__wrapped__(n, t)
            cols = [c for a, b in ix for c in range(a, b)]
            sizes = [b - a for a, b in ix]
            if cols != list(range(n)) or len(ix) > t or min(sizes) < 1 or max(sizes) - min(sizes) > 1:
                V.append({"key": {"clause": "partition", "n": n, "t": t}, "what": f"_multithreading_indices({n},{t}) = {ix} is not a balanced contiguous partition", "input": {"op": "chunks", "n": n, "t": t}})
                break
        if V:
            break
    from ebisim.simulation import ModelOptions
    d = Device.get(current=0.15, e_kin=4000., r_e=1e-4, v_ax=150., b_ax=2., r_dt=5e-3, length=0.8, n_grid=60)
    tg = [ebisim.Element.get_ions("C", 1e7, 5.0, 1), ebisim.Element.get_gas("Ne", 1e-9, d.r_dt)]
    threads = [1, 2, 3, 5, 8, 16] if ctx.thorough else [1, 3, 4]
    for optname, opts, tmax in (("default", None, 1e-3), ("radial_dynamics", ModelOptions(RADIAL_DYNAMICS=True), 2e-5)):
        hs = {}
        for nt in threads:
            r = advanced_simulation(d, tg, t_max=tmax, n_threads=nt, verbose=False, options=opts)
            hs[nt] = digest(res_of(r).y, res_of(r).t)
            ctx.evaluations += 1
        if len(set(hs.values())) != 1:
            V.append({"key": {"clause": "n_threads", "options": optname}, "what": f"advanced_simulation ({optname} options) result depends on n_threads: {hs}", "input": {"op": "threads", "threads": threads, "options": optname}})
        # repetition in the same process, shuffled order
        r2 = advanced_simulation(d, tg, t_max=tmax, n_threads=threads[-1], verbose=False, options=opts)
        r1 = advanced_simulation(d, tg, t_max=tmax, n_threads=1, verbose=False, options=opts)
        if digest(res_of(r2).y, res_of(r2).t) != hs[threads[-1]] or digest(res_of(r1).y, res_of(r1).t) != hs[1]:
            V.append({"key": {"clause": "repeat_same_process", "options": optname}, "what": "repeating advanced_simulation in the same process gives different numbers", "input": {"op": "repeat", "options": optname}})
    # an energy scan member equals the same simulation run alone (call history must not matter)
    es = [3000., 500., 8000.]
    kw = dict(element="Ar", j=80., t_max=0.02, dr_fwhm=None, solver_kwargs={"rtol": 1e-6})
    a = energy_scan(ebisim.basic_simulation, dict(kw), es, parallel=False)
    for e in es:
        alone = ebisim.basic_simulation(element="Ar", j=80., e_kin=e, t_max=0.02, dr_fwhm=None, solver_kwargs={"rtol": 1e-6, "dense_output": True})
        ra = a.get_result(e)
        ctx.evaluations += 1
        if digest(ra.N, ra.t) != digest(alone.N, alone.t):
            V.append({"key": {"clause": "scan_member_vs_alone"}, "what": f"sequential energy_scan member at {e} eV differs from the same simulation run alone (results depend on call history)", "input": {"op": "escan_alone", "e": e}})
            break
    again = ebisim.basic_simulation(element="Ar", j=80., e_kin=500., t_max=0.02, dr_fwhm=None, solver_kwargs={"rtol": 1e-6, "dense_output": True})
    first = a.get_result(500.)
    if digest(first.N, first.t) != digest(again.N, again.t):
        V.append({"key": {"clause": "repeat_basic"}, "what": "repeating basic_simulation with equal inputs gives different numbers", "input": {"op": "repeat_basic"}})
    # repetition with every optional argument in play: DR width given, CNI, then the plain run again (equal inputs, equal numbers —
    # whatever was simulated in between in this process)
    skw = {"rtol": 1e-6, "dense_output": True}
    plain0 = a.get_result(3000.)
    seq = []
    for label, kw2 in (("dr", dict(dr_fwhm=15.)), ("dr", dict(dr_fwhm=15.)), ("cni", dict(dr_fwhm=None, CNI=True)), ("cni", dict(dr_fwhm=None, CNI=True)),
                       ("dr+cni", dict(dr_fwhm=15., CNI=True)), ("dr", dict(dr_fwhm=15.)), ("plain", dict(dr_fwhm=None))):
        r_ = ebisim.basic_simulation(element="Ar", j=80., e_kin=3000., t_max=0.02, solver_kwargs=dict(skw), **kw2)
        seq.append((label, digest(r_.N, r_.t))); ctx.evaluations += 1
    by = {}
    for label, h in seq:
        by.setdefault(label, set()).add(h)
    for label, hs_ in by.items():
        if len(hs_) != 1:
            V.append({"key": {"clause": "repeat_basic", "variant": label}, "what": f"repeating basic_simulation(Ar, 3000 eV, {label}) with equal inputs in one process gives different numbers", "input": {"op": "repeat_basic_options", "variant": label}})
    if by.get("plain") and digest(plain0.N, plain0.t) not in by["plain"]:
        V.append({"key": {"clause": "repeat_basic", "variant": "plain-after-options"}, "what": "a plain basic_simulation repeated after runs with a DR width / CNI gives different numbers than before them", "input": {"op": "repeat_basic_options", "variant": "plain"}})
    fresh_xs(ctx, V)
    ctx.cov["thread_counts"] = threads
    # energy scan: process pool vs sequential, energies given out of order
    kw = dict(element="Ar", j=80., t_max=0.02, dr_fwhm=None, solver_kwargs={"rtol": 1e-6})
    es = [3000., 500., 8000., 1200.] if ctx.thorough else [3000., 500., 1200.]
    a = energy_scan(ebisim.basic_simulation, dict(kw), es, parallel=False)
    b = energy_scan(ebisim.basic_simulation, dict(kw), list(es), parallel=True)
    for i, e in enumerate(sorted(es)):
        ra, rb = a.get_result(e), b.get_result(e)
        if digest(ra.N, ra.t) != digest(rb.N, rb.t) or digest(a._results[i].N, a._results[i].t) != digest(b._results[i].N, b._results[i].t):
            V.append({"key": {"clause": "energy_scan_parallel"}, "what": f"energy_scan parallel and sequential results differ at {e} eV", "input": {"op": "escan", "e": e}})
            break
    # … and everything the scan result answers from them: queries between the solver's steps, the charge-state table (results that came
    # back from a worker process must carry the same interpolants as results produced here)
    tq = [0.0, 0.02, 1.234e-3, 7.7e-3, 1.9e-2]
    qa = [np.ascontiguousarray(a.abundance_at_time(t_)[1]).tobytes() for t_ in tq] + [np.ascontiguousarray(a.abundance_of_cs(8)[1]).tobytes()]
    qb = [np.ascontiguousarray(b.abundance_at_time(t_)[1]).tobytes() for t_ in tq] + [np.ascontiguousarray(b.abundance_of_cs(8)[1]).tobytes()]
    if qa != qb:
        k_ = [x != y for x, y in zip(qa, qb)].index(True)
        V.append({"key": {"clause": "energy_scan_parallel", "variant": "queries"}, "input": {"op": "escan_queries"},
                  "what": "energy_scan parallel and sequential give different " + (f"abundance_at_time({tq[k_]})" if k_ < len(tq) else "abundance_of_cs(8)") + " tables"})
    ctx.evaluations += 2
    if ctx.thorough:
        # fresh processes (warm cache, then a cold cache)
        outs = []
        for cold in (False, True):
            env = dict(os.environ)
            code = SNIPPET % {"tools": os.path.join(common.VERIF, "tools"), "nt": 3}
            if cold:
                code = code.replace("common.setup_numba_cache()", "os.environ['NUMBA_CACHE_DIR'] = %r" % os.path.join(common.CACHE, "numba_cold_tmp"))
                import shutil; shutil.rmtree(os.path.join(common.CACHE, "numba_cold_tmp"), ignore_errors=True)
            rc, out, dt = common.run([sys.executable, "-c", code], timeout=2400, env=env)
            line = [l for l in out.split("\n") if l.startswith("HASH")]
            outs.append(line[0] if line else f"rc={rc} {out[-200:]}")
            ctx.evaluations += 1
        import shutil; shutil.rmtree(os.path.join(common.CACHE, "numba_cold_tmp"), ignore_errors=True)
        ctx.cov["fresh_process_hashes"] = outs
        if len(set(outs)) != 1 or not outs[0].startswith("HASH"):
            V.append({"key": {"clause": "repeat_fresh_process"}, "what": f"fresh processes (warm / cold JIT cache) give different numbers: {outs}", "input": {"op": "fresh"}})
        else:
            h3 = advanced_simulation(d, tg, t_max=1e-3, n_threads=3, verbose=False)
            if outs[0].split()[1] != digest(res_of(h3).y, res_of(h3).t):
                V.append({"key": {"clause": "repeat_fresh_process"}, "what": "a fresh process gives numbers different from this process", "input": {"op": "fresh"}})
    if ctx.thorough or any((f.get("input") or {}).get("op") == "solver_controls" for f in ctx.failures):
        # two simulations that differ only in the radial solver's controls, in opposite orders, in two fresh processes with
        # private cold JIT caches: each simulation must give the same numbers whatever ran (and was compiled) before it
        import shutil
        outs = {}
        for order in ("AB", "BA"):
            cache = os.path.join(common.CACHE, "numba_order_" + order)
            shutil.rmtree(cache, ignore_errors=True)
            code = SNIPPET_ORDER % {"cache": cache, "order": order}
            rc, out, dt = common.run([sys.executable, "-c", code], timeout=2400, env=dict(os.environ))
            outs[order] = dict(l.split()[1:3] for l in out.split("\n") if l.startswith("HASH")) or {"error": f"rc={rc} {out[-200:]}"}
            shutil.rmtree(cache, ignore_errors=True)
            ctx.evaluations += 1
        ctx.cov["order_hashes"] = outs
        if outs["AB"] != outs["BA"] or "error" in outs["AB"]:
            V.append({"key": {"clause": "repeat_any_order"}, "input": {"op": "order"},
                      "what": f"two advanced simulations (radial solver controls loose / tight) give different numbers depending on which of them a fresh process runs first: {outs}"})
    return V


SNIPPET_XS = r'''
import sys, os, hashlib
sys.path.insert(0, %(tools)r); import common; common.setup_numba_cache(); sys.path.insert(0, common.REPO)
import numpy as np, ebisim
h = hashlib.sha256()
for z, e, w in ((26, 4700., 30.), (18, 2222.2, 15.), (10, 682.53, 8.)):
    el = ebisim.get_element(z)
    for a in (el.dr_cs, el.dr_e_res, el.dr_strength, ebisim.drxs_vec(el, e, w), ebisim.eixs_vec(el, e), ebisim.rrxs_vec(el, e)):
        h.update(np.ascontiguousarray(a).tobytes())
b = ebisim.basic_simulation(ebisim.get_element("Ar"), 80., 2222.2, 0.02, dr_fwhm=15.)
h.update(np.ascontiguousarray(b.N).tobytes() + np.ascontiguousarray(b.t).tobytes())
print("HASH", h.hexdigest())
'''


def fresh_xs(ctx, V):
    """tables, cross sections and a basic DR run in fresh interpreters started with different string-hash seeds: identical bytes"""
    outs = {}
    for seed in ("0", "1", "4242"):
        env = dict(os.environ); env["PYTHONHASHSEED"] = seed
        rc, out, dt = common.run([sys.executable, "-c", SNIPPET_XS % {"tools": os.path.join(common.VERIF, "tools")}], timeout=1200, env=env)
        line = [l for l in out.split("\n") if l.startswith("HASH")]
        outs[seed] = line[0].split()[1] if line else f"rc={rc} {out[-200:]}"
        ctx.evaluations += 1
    ctx.cov["fresh_process_xs_hashes"] = outs
    if len(set(outs.values())) != 1 or any(v.startswith("rc=") for v in outs.values()):
        V.append({"key": {"clause": "repeat_fresh_process", "variant": "tables_and_dr"}, "input": {"op": "fresh_xs"},
                  "what": f"fresh processes (different PYTHONHASHSEED) give different DR tables / cross sections / basic DR results: {outs}"})


SNIPPET_ORDER = r'''
import sys, os, hashlib
os.environ['NUMBA_CACHE_DIR'] = %(cache)r
sys.path.insert(0, os.environ.get('EBISIM_REPO', '/repo'))
import numpy as np, ebisim
from ebisim.simulation import Device, advanced_simulation, ModelOptions
d = Device.get(current=0.3, e_kin=4000., r_e=1e-4, v_ax=150., b_ax=2., r_dt=5e-3, length=0.8, n_grid=60)
def sim(tag):
    o = ModelOptions(RADIAL_DYNAMICS=True, RADIAL_SOLVER_REL_DIFF=1e-1 if tag == "A" else 1e-9, RADIAL_SOLVER_MAX_STEPS=2 if tag == "A" else 500)
    t = [ebisim.Element.get_ions("Ar", 2e9, 40.0, 8)]
    r = advanced_simulation(d, t, t_max=2e-5, options=o, verbose=False)
    print("HASH", tag, hashlib.sha256(np.ascontiguousarray(r.res.y).tobytes() + np.ascontiguousarray(r.res.t).tobytes()).hexdigest())
for tag in %(order)r:
    sim(tag)
'''

ALWAYS_SEARCH = True


def replay(ctx, data):
    for v in search(ctx):
        if v["key"].get("clause") == data.get("violation", {}).get("key", {}).get("clause"):
            return v
    return None
