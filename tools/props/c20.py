"""C20 — electron-beam space-charge estimate."""
import numpy as np
import common
from leanio import farr, bits, dec, unbits

LEVEL = "proof"
LEMMA_MODULES = ["Consts"]
RULE = ("ElectronBeam(...).characteristic_potential / herrmann_radius vs the generated definitions and space_charge_correction vs Beam.correction "
        "(value 1e-10, identical number of loop passes, ValueError on both sides) over currents 1 mA..2 A, 0.5..200 keV, 0.1..6 T, realistic radii / "
        "cathode temperatures, r in [0, r_d] incl. 0, r_e, r_d and outside. non-trivial = converged below the perveance limit; distinct = argument tuple")
MONITORED = ["|sc - phi0(E+sc)(2 ln(r_H(E+sc)/r_d) - 1)| <= 1e-5 |sc| on the returned on-axis value", "iterates approach monotonically below the perveance limit"]
OUTSIDE = ["convergence / monotonicity of the fixed-point iteration (needs quantitative bounds on r_H(E)); beyond the perveance limit the loop exits on NaN"]
ASSUMPTIONS = ["CPython float ** int and the model's repeated multiplication agree to 1e-11"]


def draw(rng):
    cur = float(10 ** rng.uniform(-3, np.log10(2)))
    e = float(10 ** rng.uniform(np.log10(500), np.log10(2e5)))
    # keep below the perveance limit (0.5 A at 2 keV is beyond)
    while cur / e ** 1.5 > 1.5e-6:
        cur *= 0.5
    b_d = float(rng.uniform(0.1, 6)); r_d = float(10 ** rng.uniform(-3, -1.7))
    b_c = float(10 ** rng.uniform(-5, -2)); r_c = float(10 ** rng.uniform(-4, -2.5)); t_c = float(rng.uniform(300, 2500))
    return (cur, b_d, r_d, b_c, r_c, t_c), e


def near_limit(p, rng):
    """an energy a little above the virtual-cathode limit of beam p (where the fixed-point iteration needs many passes)"""
    from ebisim.beams import ElectronBeam
    b = ElectronBeam(*p)
    def fin(e_):
        # the documented iteration, replayed with the public formulas (independent of the loop under test)
        new, old, it = 1.0, 0.0, 0
        while (new - old) / new > 1e-6 and it < 5000:
            ce = float(e_) + new
            old = new; new = float(b.characteristic_potential(ce)) * (2 * np.log(float(b.herrmann_radius(ce)) / p[2]) - 1); it += 1
            if not np.isfinite(new): return False
        return bool(np.isfinite(new)) and it < 5000
    hi = 2e5
    if not fin(hi): return None
    lo = 1.0
    if fin(lo): return None
    for _ in range(60):
        mid = np.sqrt(lo * hi)
        if fin(mid): hi = mid
        else: lo = mid
        if hi / lo < 1 + 1e-9: break
    return float(hi * (1 + 10 ** rng.uniform(-4, -1.3)))


def run(ctx):
    from ebisim.beams import ElectronBeam
    D = ctx.driver
    rng = ctx.rng
    n = 300 if ctx.thorough else 60
    iters = {}
    for k in range(n):
        p, e = draw(rng)
        if k % 5 == 2:
            with np.errstate(all="ignore"):
                e2 = near_limit(p, rng)
            if e2 is not None and 500 <= e2 <= 2e5: e = e2; ctx.count("near_limit_cases")
        b = ElectronBeam(*p)
        if k % 4 == 3:   # reach the same parameters through the public `current` setter after a first evaluation
            b = ElectronBeam(p[0] * 2.5, *p[1:]); b.space_charge_correction(e, 0.0); b.current = p[0]
        # generated formulas
        for name, f in (("characteristic_potential", b.characteristic_potential), ("herrmann_radius", b.herrmann_radius)):
            t = D.ask(f"k {name} " + farr(list(p) + [e]))
            m = unbits(t[0]); v = float(f(e))
            ctx.evaluations += 1
            if not (abs(m - v) <= 1e-11 * abs(v)):
                ctx.fail("correspondence", f"ElectronBeam{p}.{name}({e}) = {v!r} but generated definition gives {m!r}", inp={"op": name, "p": p, "E": e})
        r_e = float(b.herrmann_radius(e))
        rs = [0.0, r_e, p[2], float(rng.uniform(0, p[2])), float(rng.uniform(0, min(2 * r_e, p[2]))), p[2] * 1.0000001, -1e-9, float(np.nextafter(p[2], 0))]
        for r in rs:
            try:
                v = float(b.space_charge_correction(e, r)); st = "ok"
            except ValueError:
                v = None; st = "ValueError"
            t = D.ask("beam " + " ".join(bits(x) for x in p) + f" {bits(e)} {bits(r)}")
            ctx.evaluations += 1
            desc = {"op": "correction", "p": p, "E": e, "r": r}
            if st == "ValueError":
                if t != ["ValueError"]:
                    ctx.fail("correspondence", f"space_charge_correction raises ValueError for r={r} (r_d={p[2]}) but the model answers {t[:2]}", inp=desc)
                continue
            if t[0] != "ok":
                ctx.fail("correspondence", f"space_charge_correction(r={r}) = {v} but the model raises", inp=desc); continue
            mv = unbits(t[1]); it = int(t[2])
            iters[it] = iters.get(it, 0) + 1
            # hypotheses of C20.correction_self_consistent on the executable (Float) model: the loop left (not exhausted) at a positive corrected
            # energy, with positive current, b_d != 0, t_c >= 0 — counted so that the theorem is seen not to be vacuous on the inputs drawn —
            # and, at r = 0, its first conclusion (the returned value *is* the loop's last value) re-checked on the model's own output
            if r == 0.0 and len(t) >= 7:
                m_new, m_old, m_re, m_phi0 = (unbits(x) for x in t[3:7])
                hyp = t[-1] != "exhausted" and e + m_old > 0 and p[0] > 0 and p[1] != 0 and p[5] >= 0 and p[2] >= 0
                ctx.count("self_consistent_hypotheses_met" if hyp else "self_consistent_hypotheses_not_met")
                if hyp and np.isfinite(mv) and not (abs(mv - m_new) <= 4e-16 * abs(m_new) and m_phi0 > 0 and m_re > 0):
                    ctx.fail("correspondence", f"model: correction at r=0 is {mv!r} but the loop's last value is {m_new!r} (phi0={m_phi0!r}, r_e={m_re!r})", inp=desc)
            if np.isfinite(v):
                ctx.seen((p, e, r))
            if not ((np.isnan(v) and np.isnan(mv)) or abs(mv - v) <= 1e-10 * abs(v)):
                ctx.fail("correspondence", f"space_charge_correction{p}(E={e}, r={r}) = {v!r} but Beam.correction gives {mv!r} ({it} passes)", inp=desc)
        if k < 2:
            ctx.sample({"beam": p, "E": e, "on_axis": float(b.space_charge_correction(e, 0.0)), "r_e": r_e})
    ctx.cov["loop_passes_histogram"] = iters


def stmt(p, e, rng):
    from ebisim.beams import ElectronBeam
    from ebisim.plasma import electron_velocity
    from ebisim.physconst import PI, EPS_0, M_E, Q_E, K_B
    b = ElectronBeam(*p)
    cur, b_d, r_d, b_c, r_c, t_c = p
    out = []
    def add(clause, what, **kw):
        out.append({"key": {"clause": clause}, "what": what, "input": dict(p=list(p), E=e, **kw)})
    try:
        with np.errstate(all="ignore"):
            sc = float(b.space_charge_correction(e, 0.0))
    except Exception as ex:
        # in-domain (r = 0 lies in [0, r_d]); whether the beam is below the virtual-cathode limit is decided by the documented iteration
        new, old, it = 1.0, 0.0, 0
        with np.errstate(all="ignore"):
            while (new - old) / new > 1e-6 and it < 10000:
                ce = e + new
                new, old = float(b.characteristic_potential(ce)) * (2 * np.log(float(b.herrmann_radius(ce)) / r_d) - 1), new; it += 1
        if np.isfinite(new) and it < 10000:
            add("raises_in_domain", f"space_charge_correction(E={e!r}, r=0) raises {type(ex).__name__} ({str(ex)[:80]}) although the documented iteration converges to {new!r} V in {it} passes")
        return out
    if np.isfinite(sc):
        F = float(b.characteristic_potential(e + sc) * (2 * np.log(b.herrmann_radius(e + sc) / r_d) - 1))
        if abs(sc - F) > 1e-5 * abs(sc):
            add("fixed_point", f"on-axis value {sc!r} is not a fixed point: map gives {F!r}")
        # the documented iteration, re-stated with the public formulas only
        new, old, it = 1.0, 0.0, 0
        while (new - old) / new > 1e-6 and it < 10000:
            ce = e + new
            r_e = float(b.herrmann_radius(ce)); phi0 = float(b.characteristic_potential(ce))
            old = new; new = phi0 * (2 * np.log(r_e / r_d) - 1); it += 1
        r_e0 = float(b.herrmann_radius(e))
        if not (np.isfinite(new) and np.isfinite(r_e) and it < 10000):
            return out   # beyond the virtual-cathode limit: outside the property's domain
        if abs(sc - new) > 1e-5 * abs(new):
            add("fixed_point", f"on-axis value {sc!r} differs from the limit of the documented iteration {new!r} ({it} passes)")
        rs = np.sort(np.concatenate([[0.0, r_d], rng.uniform(0, r_d, 40), rng.uniform(0, min(1.5 * r_e, r_d), 20),
                                     r_e * (1 + np.array([-1e-9, 0, 1e-9])), r_e0 * (1 + np.array([-1e-9, 0, 1e-9])), [0.5 * (r_e + r_e0)]]))
        rs = rs[(rs >= 0) & (rs <= r_d)]
        v = np.array([b.space_charge_correction(e, float(r)) for r in rs])
        spec = np.where(rs < r_e, phi0 * (2 * np.log(r_e / r_d) + (rs / r_e) ** 2 - 1), phi0 * 2 * np.log(np.maximum(rs, 1e-300) / r_d))
        bad = np.abs(v - spec) > 1e-11 * abs(sc)
        if bad.any():
            i = int(np.argmax(np.abs(v - spec)))
            add("profile_formula", f"profile at r={rs[i]!r} is {v[i]!r}, quadratic/logarithmic profile with r_H(E+phi)={r_e!r} gives {spec[i]!r}", r=float(rs[i]))
        if v[-1] != 0 and abs(v[-1]) > 1e-12 * abs(sc):
            add("zero_at_tube", f"profile at r_d is {v[-1]!r}")
        if (v[:-1] >= 0).any():
            add("negative", "profile not negative inside the tube")
        if (np.diff(v) < -1e-9 * abs(sc)).any():
            add("non_decreasing", "profile decreases outward")
        i = np.searchsorted(rs, r_e)
        if 0 < i < rs.size and abs(v[i] - v[i - 1]) > 1e-6 * abs(sc):
            add("continuous", f"profile jumps at the beam edge: {v[i-1]!r} -> {v[i]!r}")
    # the beam current is a settable attribute: results must follow it ("for every beam")
    b2 = ElectronBeam(*p)
    b2.space_charge_correction(e, 0.0)
    b2.current = cur * 0.37
    fresh = ElectronBeam(cur * 0.37, b_d, r_d, b_c, r_c, t_c)
    a1, a2 = float(b2.space_charge_correction(e, 0.0)), float(fresh.space_charge_correction(e, 0.0))
    if not (a1 == a2 or (np.isnan(a1) and np.isnan(a2))):
        add("current_setter", f"after beam.current = {cur*0.37!r} the on-axis correction is {a1!r}, a fresh beam with that current gives {a2!r}")
    for r in (-1e-6, r_d * 1.001, float(np.nextafter(r_d, np.inf)), r_d * (1 + 1e-9), r_d + 5e-9, r_d * (1 + 8e-6), -float(np.nextafter(0, 1))):
        try:
            b.space_charge_correction(e, r); add("range_error", f"no ValueError for r={r}", r=r)
        except ValueError:
            pass
    v_e = electron_velocity(e)
    s1 = M_E * cur / (PI * EPS_0 * Q_E * v_e * b_d ** 2)
    rh = float(b.herrmann_radius(e))
    if rh < np.sqrt(2 * s1) * (1 - 1e-12):
        add("herrmann_ge_brillouin", f"Herrmann radius {rh!r} below the Brillouin radius {np.sqrt(2*s1)!r}")
    spec = np.sqrt(s1 + np.sqrt(s1 ** 2 + 8 * K_B * t_c * M_E * r_c ** 2 / (Q_E ** 2 * b_d ** 2) + b_c ** 2 * r_c ** 4 / b_d ** 2))
    if abs(rh - spec) > 1e-10 * spec:
        add("herrmann_formula", f"herrmann_radius {rh!r} != documented {spec!r}")
    cp = float(b.characteristic_potential(e))
    if abs(cp - cur / (4 * PI * EPS_0 * v_e)) > 1e-12 * abs(cp):
        add("charpot_formula", f"characteristic_potential {cp!r} != I/(4 pi eps0 v)")
    for idx, nm in ((5, "t_c"), (3, "b_c"), (4, "r_c")):
        q = list(p); q[idx] *= 1.3
        if float(ElectronBeam(*q).herrmann_radius(e)) < rh * (1 - 1e-13):
            add("herrmann_mono_" + nm, f"Herrmann radius shrinks when {nm} grows")
    return out


def search(ctx):
    rng = np.random.default_rng([ctx.seed, 2020])
    V = []
    for f in ctx.failures:
        inp = f.get("input") or {}
        if "p" in inp:
            V += stmt(tuple(inp["p"]), float(inp["E"]), rng)
    for k in range(60 if (ctx.thorough or ctx.failures) else 10):
        p, e = draw(rng)
        if k % 3 == 1:
            with np.errstate(all="ignore"):
                e2 = near_limit(p, rng)
            if e2 is not None and 500 <= e2 <= 2e5: e = e2
        V += stmt(p, e, rng); ctx.count("search_cases")
        if len(V) > 10: break
    return V


def replay(ctx, data):
    inp = data.get("violation", {}).get("input", {})
    if "p" not in inp: return None
    clause = data["violation"]["key"]["clause"]
    r = [v for v in stmt(tuple(inp["p"]), float(inp["E"]), np.random.default_rng(0)) if v["key"]["clause"] == clause]
    return r[0] if r else None
