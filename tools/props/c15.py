"""C15 — plasma rate formulas: generated definitions vs compiled kernels, numerical statements."""
import json, os
import numpy as np
from leanio import farr, dec, unbits
import common

LEVEL = "proof"
LEMMA_MODULES = ["Consts"]
RULE = ("every kernel of plasma.py is evaluated by the compiled implementation (scalar, array and broadcast call shapes, "
        "float and integer charge arguments) and by the Lean definition generated from its source, on log-uniform points of the "
        "property's box plus points on every branch boundary; non-trivial = the value is non-zero and finite; "
        "distinct = distinct (kernel, control-flow path, argument tuple)")
MONITORED = []
OUTSIDE = ["overflow for extreme arguments", "numpy broadcasting itself",
           "4th region of clog_ei is not an NRL expression: only equality with the source formula, non-negativity claimed"]
ASSUMPTIONS = ["libm exp/log/pow/sqrt of numba and of Lean's Float agree to <= 1e-11 relative"]
RTOL = 1e-11

ARGS = {
    "electron_velocity": ["E"],
    "_erfc_approx": ["x"],
    "clog_ei": ["N", "N", "T", "T", "A", "q"],
    "clog_ii": ["N", "N", "T", "T", "A", "A", "q", "q"],
    "coulomb_xs": ["N", "N", "T", "E", "A", "q"],
    "ion_coll_rate": ["N", "N", "T", "T", "A", "A", "q", "q"],
    "spitzer_heating": ["N", "N", "T", "E", "A", "q"],
    "collisional_thermalisation": ["T", "T", "A", "A", "nu"],
    "trapping_strength_axial": ["T", "q1", "V"],
    "trapping_strength_radial": ["T", "q1", "A", "V", "B", "r"],
    "collisional_escape_rate": ["nu", "w"],
}


def draw(rng, kind, n):
    if kind == "N": return 10 ** rng.uniform(0, 22, n)
    if kind == "T": return 10 ** rng.uniform(-3, 6, n)
    if kind == "E": return 10 ** rng.uniform(-3, 9, n)
    if kind == "A": return np.floor(rng.uniform(1, 263, n))
    if kind == "q": return np.floor(rng.uniform(0, 106, n))
    if kind == "q1": return np.floor(rng.uniform(0, 106, n))
    if kind == "nu": return 10 ** rng.uniform(-3, 8, n)
    if kind == "V": return 10 ** rng.uniform(-1, 4, n)
    if kind == "B": return rng.uniform(0.1, 6, n)
    if kind == "r": return 10 ** rng.uniform(-3, -1.5, n)
    if kind == "w": return 10 ** rng.uniform(-3, 2.5, n)
    if kind == "x": return 10 ** rng.uniform(-2, 1, n)
    raise KeyError(kind)


def special_points(name, rng, cols):
    """points on branch boundaries and clamps"""
    from ebisim.physconst import M_E, M_P
    n = cols[0].size
    c = [x.copy() for x in cols]
    if name in ("clog_ei", "coulomb_xs", "spitzer_heating"):
        # args: Ni Ne Ti Te/Ee Ai qi
        k = n // 6
        q = np.maximum(c[5][:k], 1); c[5][:k] = q
        c[3][:k] = 10 * q * q                       # T_e = 10 q^2 exactly
        red = c[2][k:2 * k] * M_E / (c[4][k:2 * k] * M_P)
        c[3][k:2 * k] = red                         # T_e = T_i m_e/m_i
        c[3][2 * k:3 * k] = red[: k] * 0.5 if red.size >= k else c[3][2 * k:3 * k]   # region 3
        # region 4: 10 q^2 < red <= Te  -> needs huge Ti
        c[2][3 * k:4 * k] = 10 ** rng.uniform(5.5, 6, k); c[4][3 * k:4 * k] = 1; c[5][3 * k:4 * k] = 1
        c[3][3 * k:4 * k] = c[2][3 * k:4 * k] * M_E / M_P * rng.uniform(1.0, 3.0, k)
        c[5][4 * k:4 * k + 3] = 0                    # neutrals
        c[0][4 * k + 3:4 * k + 6] = [0.5, 1.0, 1.0000001][: max(0, min(3, n - 4 * k - 3))] if n - 4 * k - 3 >= 3 else c[0][4 * k + 3:4 * k + 6]
        # very dense / cold: negative logarithm -> clamp
        c[1][5 * k:] = 10 ** rng.uniform(20, 22, n - 5 * k); c[3][5 * k:] = 10 ** rng.uniform(-3, -2, n - 5 * k)
    if name in ("ion_coll_rate",):
        k = n // 8
        c[0][:k] = rng.choice([0.5, 1.0, 1.0000001], k); c[1][k:2 * k] = rng.choice([0.5, 1.0], k)
        c[6][2 * k:3 * k] = 0; c[7][3 * k:4 * k] = 0
        c[0][4 * k:5 * k] = 10 ** rng.uniform(20, 22, k); c[2][4 * k:5 * k] = 1e-3; c[3][4 * k:5 * k] = 1e-3  # clog < 0
    if name == "collisional_thermalisation":
        c[0][:3] = [0.0, -1.0, 1.0]; c[1][3:6] = [0.0, -2.0, 5.0]
    if name == "collisional_escape_rate":
        c[1][:6] = [0.1, 0.1 - 1e-12, 0.1 + 1e-12, 0.0, -1.0, 0.05]
    if name in ("trapping_strength_axial", "trapping_strength_radial"):
        c[1][:2] = 0
    return c


def clog_scale(name, cols, vals, pl):
    """sensitivity of kernels that contain a Coulomb logarithm (23 - log(...) cancels)"""
    if name in ("clog_ei", "clog_ii"):
        return np.full(vals.shape, 60.0)
    if name == "ion_coll_rate":
        with np.errstate(all="ignore"):
            cl = pl.clog_ii(*cols)
        return np.abs(vals) * 60.0 / np.maximum(np.abs(cl), 1e-300)
    if name in ("coulomb_xs", "spitzer_heating"):
        with np.errstate(all="ignore"):
            cl = pl.clog_ei(cols[0], cols[1], cols[2], cols[3], cols[4], cols[5])
        return np.abs(vals) * 60.0 / np.maximum(np.abs(cl), 1e-300)
    return None


def run(ctx):
    import ebisim.plasma as pl
    D = ctx.driver
    rng = ctx.rng
    man = json.load(open(os.path.join(common.LEAN, "EbisimModel", "Gen", "manifest.json")))
    kinfo = man["kernels"]
    # constants: literal values and defining expressions
    t = D.ask("const")
    bar = t.index("|")
    vals, exprs = dec(t[:bar]), dec(t[bar + 1:])
    import ebisim.physconst as pc
    names = list(man["consts"].keys())
    for nm, v, e in zip(names, vals, exprs):
        ctx.evaluations += 1
        if v != getattr(pc, nm):
            ctx.fail("correspondence", f"constant {nm}: model {v!r} != implementation {getattr(pc, nm)!r}", inp={"const": nm})
        if abs(e - v) > 4e-16 * abs(v):
            ctx.fail("correspondence", f"constant {nm}: defining expression gives {e!r}, module holds {v!r}", inp={"const": nm})
    n = 400 if ctx.thorough else 90
    paths_hit = {}
    for name in man["plasma_kernels"]:
        if name not in ARGS:
            ctx.fail("correspondence", f"plasma.py defines kernel {name} that the harness has no generator for", inp={"kernel": name})
            continue
        f = getattr(pl, name)
        cols = [draw(rng, k, n) for k in ARGS[name]]
        cols = special_points(name, rng, cols)
        with np.errstate(all="ignore"):
            impl = np.asarray(f(*cols), dtype=float)
            # broadcast shape (m,1) x (m,) for two-species kernels, integer charges
            shapes_ok = True
            if name in ("ion_coll_rate", "clog_ii"):
                m = 6
                a = [c[:m] for c in cols]
                ar = [a[0][:, None], a[1], a[2][:, None], a[3], a[4][:, None], a[5], a[6][:, None].astype(np.int64), a[7].astype(np.int64)]
                bc = np.asarray(f(*ar), dtype=float)
                for i in range(m):
                    for j in range(m):
                        ref = f(a[0][i], a[1][j], a[2][i], a[3][j], a[4][i], a[5][j], a[6][i], a[7][j])
                        if not (bc[i, j] == ref or (np.isnan(bc[i, j]) and np.isnan(ref))):
                            shapes_ok = False
                ctx.evaluations += m * m
            sc = f(*[c[0] for c in cols])
            if not (sc == impl[0] or (np.isnan(sc) and np.isnan(impl[0]))):
                shapes_ok = False
        if not shapes_ok:
            ctx.fail("correspondence", f"{name}: scalar / array / broadcast call shapes disagree with each other", inp={"kernel": name})
        lines = [f"k {name} " + farr([c[i] for c in cols]) for i in range(n)]
        ans = D.ask_many(lines)
        model = np.array([unbits(a[0]) if a[0] != "bad-op" else np.nan for a in ans])
        br = [int(a[1]) if len(a) > 1 else -1 for a in ans]
        if any(a[0] == "bad-op" for a in ans):
            ctx.fail("correspondence", f"driver has no generated kernel {name} with {len(cols)} arguments", inp={"kernel": name})
            continue
        scale = clog_scale(name, cols, impl, pl)
        ok, w, i = common.compare(impl, model, RTOL, scale)
        ctx.evaluations += n
        ctx.count("kernel_points", n)
        for i2 in range(n):
            if np.isfinite(impl[i2]) and impl[i2] != 0:
                ctx.seen((name, br[i2], tuple(float(c[i2]) for c in cols)))
        paths_hit[name] = sorted(set(br))
        if not ok:
            ctx.fail("correspondence", f"{name}: compiled kernel and generated Lean definition differ (rel {w:.2e}) at {[float(c[i]) for c in cols]}: impl {impl[i]!r} model {model[i]!r}",
                     inp={"kernel": name, "args": [float(c[i]) for c in cols]})
        if len(ctx.samples) < 4:
            ctx.sample({"kernel": name, "args": [float(c[1]) for c in cols], "impl": float(impl[1]), "model": float(model[1]), "path": br[1]})
    ctx.cov["paths_hit"] = paths_hit
    ctx.cov["paths_total"] = {k: kinfo[k]["returns"] for k in paths_hit}
    missing = {k: sorted(set(range(kinfo[k]["returns"])) - set(v)) for k, v in paths_hit.items()}
    ctx.cov["paths_missing"] = {k: v for k, v in missing.items() if v}


# ---- numerical statements on the real code (search / monitors) -----------------------------

def search(ctx):
    import ebisim.plasma as pl
    from ebisim.physconst import M_E, M_P, Q_E, PI, EPS_0, C_L, M_E_EV, MINIMAL_N_3D
    rng = np.random.default_rng([ctx.seed, 1515])
    n = 4000 if (ctx.thorough or ctx.failures) else 500
    V = []
    def add(clause, what, args):
        V.append({"key": {"clause": clause}, "what": what, "input": {"clause": clause, "args": [float(a) for a in args]}})
    with np.errstate(all="ignore"):
        Ni, Nj = draw(rng, "N", n), draw(rng, "N", n)
        Ti, Tj = draw(rng, "T", n), draw(rng, "T", n)
        Ai, Aj = draw(rng, "A", n), draw(rng, "A", n)
        qi, qj = np.maximum(draw(rng, "q", n), 1), np.maximum(draw(rng, "q", n), 1)
        # symmetry of clog_ii
        a = pl.clog_ii(Ni, Nj, Ti, Tj, Ai, Aj, qi, qj); b = pl.clog_ii(Nj, Ni, Tj, Ti, Aj, Ai, qj, qi)
        bad = np.abs(a - b) > 1e-10 * 60
        if bad.any():
            i = int(np.argmax(bad)); add("clog_ii_symm", f"clog_ii not symmetric: {a[i]!r} vs {b[i]!r}", [Ni[i], Nj[i], Ti[i], Tj[i], Ai[i], Aj[i], qi[i], qj[i]])
        # documented formula
        spec = 23 - np.log(qi * qj * (Ai + Aj) / (Ai * Tj + Aj * Ti) * ((Ni * qi ** 2 / Ti + Nj * qj ** 2 / Tj) * 1e-6) ** 0.5)
        bad = np.abs(a - spec) > 1e-9 * 60
        if bad.any():
            i = int(np.argmax(bad)); add("clog_ii_formula", f"clog_ii {a[i]!r} != NRL expression {spec[i]!r}", [Ni[i], Nj[i], Ti[i], Tj[i], Ai[i], Aj[i], qi[i], qj[i]])
        # collision rate: formula, clamps, sign
        nu_ij = pl.ion_coll_rate(Ni, Nj, Ti, Tj, Ai, Aj, qi, qj); nu_ji = pl.ion_coll_rate(Nj, Ni, Tj, Ti, Aj, Ai, qj, qi)
        Mi = Ai * M_P
        spec = np.where((Ni <= MINIMAL_N_3D) | (Nj <= MINIMAL_N_3D), 0.0,
                        np.maximum(0, 1 / (4 * PI * EPS_0) ** 2 * 4 * np.sqrt(2 * PI) / 3 * Nj * (qi * qj * Q_E ** 2 / Mi) ** 2 * (Mi / (Ti * Q_E)) ** 1.5 * a))
        ok = np.abs(a) > 1e-3
        bad = ok & (np.abs(nu_ij - spec) > 1e-9 * np.maximum(np.abs(spec), np.abs(nu_ij)))
        if bad.any():
            i = int(np.argmax(bad)); add("coll_rate_formula", f"ion_coll_rate {nu_ij[i]!r} != documented expression {spec[i]!r}", [Ni[i], Nj[i], Ti[i], Tj[i], Ai[i], Aj[i], qi[i], qj[i]])
        if (nu_ij < 0).any() or not np.all(np.isfinite(nu_ij)):
            i = int(np.argmax((nu_ij < 0) | ~np.isfinite(nu_ij))); add("coll_rate_nonneg", f"ion_coll_rate = {nu_ij[i]!r}", [Ni[i], Nj[i], Ti[i], Tj[i], Ai[i], Aj[i], qi[i], qj[i]])
        z = pl.ion_coll_rate(Ni, Nj, Ti, Tj, Ai, Aj, 0 * qi, qj); z2 = pl.ion_coll_rate(Ni, Nj, Ti, Tj, Ai, Aj, qi, 0 * qj)
        if (z != 0).any() or (z2 != 0).any():
            add("coll_rate_neutral", "ion_coll_rate does not vanish for a neutral partner", [Ni[0], Nj[0], Ti[0], Tj[0], Ai[0], Aj[0], 0, qj[0]])
        z = pl.ion_coll_rate(0.5 + 0 * Ni, Nj, Ti, Tj, Ai, Aj, qi, qj); z2 = pl.ion_coll_rate(Ni, 1.0 + 0 * Nj, Ti, Tj, Ai, Aj, qi, qj)
        if (z != 0).any() or (z2 != 0).any():
            add("coll_rate_low_density", "ion_coll_rate does not vanish below the minimal density", [0.5, Nj[0], Ti[0], Tj[0], Ai[0], Aj[0], qi[0], qj[0]])
        # heat exchange: conservation and direction
        ct_ij = pl.collisional_thermalisation(Ti, Tj, Ai, Aj, nu_ij); ct_ji = pl.collisional_thermalisation(Tj, Ti, Aj, Ai, nu_ji)
        s = Ni * ct_ij + Nj * ct_ji
        den = np.abs(Ni * ct_ij) + np.abs(Nj * ct_ji)
        bad = ok & (den > 0) & np.isfinite(den) & (np.abs(s) > 1e-8 * den)
        if bad.any():
            i = int(np.argmax(bad)); add("heat_exchange_conserves", f"n_i dT_i|j = {Ni[i]*ct_ij[i]!r} but n_j dT_j|i = {Nj[i]*ct_ji[i]!r}", [Ni[i], Nj[i], Ti[i], Tj[i], Ai[i], Aj[i], qi[i], qj[i]])
        nu = draw(rng, "nu", n)
        ct = pl.collisional_thermalisation(Ti, Tj, Ai, Aj, nu)
        bad = np.sign(ct) != np.sign(Tj - Ti)
        if bad.any():
            i = int(np.argmax(bad)); add("heat_hot_to_cold", f"thermalisation {ct[i]!r} has the wrong sign for Ti={Ti[i]}, Tj={Tj[i]}", [Ti[i], Tj[i], Ai[i], Aj[i], nu[i]])
        spec = 2 * nu * Ai / Aj * (Tj - Ti) / (1 + Ai * Tj / (Aj * Ti)) ** 1.5
        bad = np.abs(ct - spec) > 1e-9 * np.abs(spec)
        if bad.any():
            i = int(np.argmax(bad)); add("thermalisation_formula", f"collisional_thermalisation {ct[i]!r} != documented {spec[i]!r}", [Ti[i], Tj[i], Ai[i], Aj[i], nu[i]])
        # electron velocity
        E = np.sort(draw(rng, "E", n))
        v = pl.electron_velocity(E)
        spec = C_L * np.sqrt(1 - (M_E_EV / (M_E_EV + E)) ** 2)
        if (np.abs(v - spec) > 1e-9 * spec).any():
            i = int(np.argmax(np.abs(v - spec) / spec)); add("ve_formula", f"electron_velocity({E[i]}) = {v[i]!r} != {spec[i]!r}", [E[i]])
        big = E > 1e-2   # below, 1-(..)^2 loses all digits in binary64
        if (v[big] <= 0).any() or (v >= C_L * (1 + 1e-15)).any() or (np.diff(v[big]) < -1e-9 * v[big][1:]).any():
            add("ve_range_mono", "electron_velocity not in (0, c) or not increasing", [E[0]])
        # e-i Coulomb log, Coulomb cross section, Spitzer heating
        Ne = draw(rng, "N", n); Te = draw(rng, "T", n); Ee = draw(rng, "E", n)
        ce = pl.clog_ei(Ni, Ne, Ti, Te, Ai, qi)
        if (ce < 0).any() or not np.all(np.isfinite(ce)):
            i = int(np.argmax((ce < 0) | ~np.isfinite(ce))); add("clog_ei_nonneg", f"clog_ei = {ce[i]!r}", [Ni[i], Ne[i], Ti[i], Te[i], Ai[i], qi[i]])
        red = Ti * M_E / (Ai * M_P); qq = 10 * qi * qi
        ne_, ni_ = Ne * 1e-6, Ni * 1e-6
        spec = np.where((red <= Te) & (Te <= qq), 23 - np.log(ne_ ** 0.5 * qi * Te ** -1.5),
                np.where((red <= qq) & (qq <= Te), 24 - np.log(ne_ ** 0.5 / Te),
                 np.where(Te <= red, 16 - np.log(ni_ ** 0.5 * Ti ** -1.5 * qi * qi * Ai), 24 - np.log(ne_ ** 0.5 / Te))))
        spec = np.maximum(spec, 0)
        if (np.abs(ce - spec) > 1e-9 * 60).any():
            i = int(np.argmax(np.abs(ce - spec))); add("clog_ei_formula", f"clog_ei {ce[i]!r} != NRL expression {spec[i]!r}", [Ni[i], Ne[i], Ti[i], Te[i], Ai[i], qi[i]])
        cx = pl.coulomb_xs(Ni, Ne, Ti, Ee, Ai, qi)
        cle = pl.clog_ei(Ni, Ne, Ti, Ee, Ai, qi)
        spec = 4 * PI * (qi * Q_E ** 2 / (4 * PI * EPS_0 * M_E)) ** 2 * cle / pl.electron_velocity(Ee) ** 4
        bad = (Ee > 1e-2) & (np.abs(cx - spec) > 1e-9 * np.abs(spec))
        if bad.any():
            i = int(np.argmax(bad)); add("coulomb_xs_formula", f"coulomb_xs {cx[i]!r} != documented {spec[i]!r}", [Ni[i], Ne[i], Ti[i], Ee[i], Ai[i], qi[i]])
        if (pl.coulomb_xs(Ni, Ne, Ti, Ee, Ai, 0 * qi) != 0).any():
            add("coulomb_xs_neutral", "coulomb_xs does not vanish for neutrals", [Ni[0], Ne[0], Ti[0], Ee[0], Ai[0], 0])
        sh = pl.spitzer_heating(Ni, Ne, Ti, Ee, Ai, qi)
        spec = np.where(Ni < MINIMAL_N_3D, 0, np.maximum(0, 2 / 3 * Ne * pl.electron_velocity(Ee) * 2 * M_E / (Ai * M_P) * Ee * cx))
        bad = (Ee > 1e-2) & np.isfinite(spec) & (np.abs(sh - spec) > 1e-9 * np.abs(spec))
        if bad.any():
            i = int(np.argmax(bad)); add("spitzer_formula", f"spitzer_heating {sh[i]!r} != documented {spec[i]!r}", [Ni[i], Ne[i], Ti[i], Ee[i], Ai[i], qi[i]])
        if (sh < 0).any():
            i = int(np.argmax(sh < 0)); add("spitzer_nonneg", f"spitzer_heating = {sh[i]!r} < 0", [Ni[i], Ne[i], Ti[i], Ee[i], Ai[i], qi[i]])
        if (pl.spitzer_heating(0.5 + 0 * Ni, Ne, Ti, Ee, Ai, qi) != 0).any():
            add("spitzer_low_density", "spitzer_heating does not vanish below the minimal density", [0.5, Ne[0], Ti[0], Ee[0], Ai[0], qi[0]])
        # trapping strengths
        V_ = draw(rng, "V", n); B = draw(rng, "B", n); r = draw(rng, "r", n)
        wa = pl.trapping_strength_axial(Ti, qi, V_)
        if (np.abs(wa - qi * V_ / Ti) > 1e-12 * np.abs(wa)).any():
            add("trap_ax_formula", "trapping_strength_axial != q V / kT", [Ti[0], qi[0], V_[0]])
        wr = pl.trapping_strength_radial(Ti, qi, Ai, V_, B, r)
        spec = qi * (V_ + B * r * np.sqrt(2 * Ti * Q_E / (3 * M_P * Ai))) / Ti
        if (np.abs(wr - spec) > 1e-10 * np.abs(spec)).any():
            i = int(np.argmax(np.abs(wr - spec) / np.abs(spec))); add("trap_ra_formula", f"trapping_strength_radial {wr[i]!r} != documented {spec[i]!r}", [Ti[i], qi[i], Ai[i], V_[i], B[i], r[i]])
        # escape rate
        w = np.sort(draw(rng, "w", n))
        es = pl.collisional_escape_rate(nu[0] + 0 * w, w)
        wc = np.maximum(w, 0.1)
        spec = 3 / np.sqrt(2) * nu[0] * np.exp(-wc) / wc
        if (np.abs(es - spec) > 1e-10 * spec).any():
            i = int(np.argmax(np.abs(es - spec) / spec)); add("escape_formula", f"collisional_escape_rate({nu[0]}, {w[i]}) = {es[i]!r} != {spec[i]!r}", [nu[0], w[i]])
        if (es < 0).any() or (np.diff(es) > 1e-12 * es[:-1]).any():
            add("escape_nonneg_antitone", "collisional_escape_rate negative or increasing in w", [nu[0], w[0]])
        lo = pl.collisional_escape_rate(nu[0], np.array([0.1, 0.05, 1e-3, 0.0, -3.0]))
        if not np.all(lo == lo[0]):
            add("escape_clamp", f"collisional_escape_rate not constant below the 0.1 clamp: {lo}", [nu[0], 0.05])
    ctx.count("search_points", n)
    if ctx.thorough or ctx.failures:
        V += integer_arguments(ctx, rng)
    return V


def integer_arguments(ctx, rng):
    """the documented expressions hold for every argument type the kernels accept: the same (integral) values given as int64 and as
    float64 must give the same result.  A ufunc that already owns a float64 loop serves integer arrays by casting them, so the integer
    specialisation is compiled first on a fresh dispatcher built from the kernel's own Python definition and options (as C19 does)."""
    import numba
    import ebisim.plasma as pl
    V = []
    for name, kinds in ARGS.items():
        obj = getattr(pl, name, None)
        if obj is None or not hasattr(obj, "_dispatcher"): continue
        disp = obj._dispatcher
        opts = {o: v for o, v in dict(disp.targetoptions).items() if o in ("nopython", "fastmath", "forceobj", "boundscheck")}
        cols = special_points(name, rng, [draw(rng, k, 60) for k in kinds])
        icols = [np.maximum(np.round(np.minimum(c, 1e12)), 0 if kd in ("q", "q1") else 1).astype(np.int64) for c, kd in zip(cols, kinds)]
        with np.errstate(all="ignore"):
            try:
                fresh = numba.vectorize(cache=True, **opts)(disp.py_func)
                ci = np.asarray(fresh(*icols), dtype=float)
                cf = np.asarray(obj(*[c.astype(float) for c in icols]), dtype=float)
            except Exception as e:
                V.append({"key": {"clause": "integer_arguments_" + name}, "what": f"{name} fails for integer arguments: {type(e).__name__}: {str(e)[:200]}",
                          "input": {"clause": "integer_arguments_" + name, "args": []}})
                continue
            ctx.count("integer_argument_points", ci.size)
            tol = 1e-9 * 25 if name in ("clog_ei", "clog_ii") else 1e-9 * np.maximum(np.abs(ci), np.abs(cf)) + 1e-300
            bad = ~(~np.isfinite(ci) & ~np.isfinite(cf)) & ~(np.abs(ci - cf) <= tol)
        if np.any(bad):
            i = int(np.argmax(bad))
            V.append({"key": {"clause": "integer_arguments_" + name},
                      "what": f"{name}{tuple(int(c[i]) for c in icols)} = {ci[i]!r} for integer arguments but {cf[i]!r} for the same values as floats",
                      "input": {"clause": "integer_arguments_" + name, "args": [int(c[i]) for c in icols]}})
    return V


def replay(ctx, data):
    v = data.get("violation", {})
    clause = v.get("key", {}).get("clause")
    if str(clause).startswith("integer_arguments_"):
        for w in integer_arguments(ctx, np.random.default_rng([ctx.seed, 1515])):
            if w["key"]["clause"] == clause:
                return w
        return None
    for w in search(ctx):
        if w["key"]["clause"] == clause:
            return w
    return None
