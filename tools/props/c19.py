"""C19 — compiled and interpreted definitions of every numeric kernel agree (translation validation).

Every numba kernel of the four files is discovered from the modules themselves; for each one a set of
call variants (float / integer arguments, scalars / arrays, C-, F-contiguous and strided blocks) is run
through the compiled dispatcher and through `py_func`, and, where the Lean model has an entry point for
the kernel, through the model as a third, independent pivot."""
import importlib, inspect, logging, copy
import numpy as np
import common, gens
from leanio import farr, bits, dec, unbits

LEVEL = "translation_validation"
LEMMA_MODULES = []
ALWAYS_SEARCH = False
RTOL = 1e-10
PIVOT_RTOL = 5e-11
MODULES = ("ebisim.xs", "ebisim.plasma", "ebisim.simulation._radial_dist", "ebisim.simulation._advanced")
RULE = ("every CPUDispatcher / DUFunc defined in xs.py, plasma.py, _radial_dist.py, _advanced.py (discovered at run time) x call variants "
        "(float64 / int64 arguments, scalar / 1-D / 2-D broadcast, C / F-contiguous / strided views): dispatcher vs py_func to 1e-10 relative "
        "(cancelling sums: relative to the summed absolute terms), plus the Lean pivot (5e-11) for the kernels with a driver entry point; "
        "a kernel that fails to compile or to execute is a violation. non-trivial = finite non-zero output; distinct = (kernel, variant, input)")
MONITORED = ["compilation of every kernel for every exercised signature", "decorator options unchanged (nopython, no fastmath)"]
OUTSIDE = ["numba / LLVM code generation itself (trusted base): agreement is established by exploration, not proof",
           "boltzmann_radial_potential_linear_density_ebeam_sor: dispatcher vs py_func here; its Lean model (Radial.bpEbeamSor) is compared in C13"]
ASSUMPTIONS = ["CPython + numpy evaluate py_func as the language reference"]


# ----------------------------------------------------------------------------------------------- helpers
def discover():
    from numba.core.registry import CPUDispatcher
    from numba.np.ufunc.dufunc import DUFunc
    out = {}
    for mn in MODULES:
        m = importlib.import_module(mn)
        for k, v in vars(m).items():
            if isinstance(v, (CPUDispatcher, DUFunc)) and getattr(v, "__module__", mn) == mn:
                disp = v if isinstance(v, CPUDispatcher) else v._dispatcher
                out[k] = dict(module=mn, obj=v, py=disp.py_func, ufunc=isinstance(v, DUFunc), opts=dict(disp.targetoptions),
                              params=list(inspect.signature(disp.py_func).parameters))
    return out


def flat(x):
    """output -> list of float arrays"""
    if isinstance(x, (tuple, list)):
        r = []
        for e in x: r += flat(e)
        return r
    return [np.atleast_1d(np.asarray(x, dtype=float))]


def agree(a, b, rtol, scale=None):
    """(ok, worst, description)"""
    fa, fb = flat(a), flat(b)
    if len(fa) != len(fb):
        return False, np.inf, f"{len(fa)} vs {len(fb)} outputs"
    worst = 0.0
    for i, (x, y) in enumerate(zip(fa, fb)):
        if x.shape != y.shape:
            return False, np.inf, f"output {i}: shape {x.shape} vs {y.shape}"
        sc = None if scale is None else (scale[i] if isinstance(scale, list) else scale)
        ok, w, j = common.compare(x, y, rtol, sc)
        if np.isfinite(w): worst = max(worst, w)
        if not ok:
            return False, w, f"output {i}[{j}]: {x.ravel()[j]!r} vs {y.ravel()[j]!r}"
    return True, worst, ""


def cp(args):
    """arguments are passed as they are (copying would destroy the memory layout under test)"""
    return tuple(args)


def snapshot(args):
    return [a.copy() if isinstance(a, np.ndarray) else None for a in args]


def restore(args, snap):
    """undo in-place modifications by a kernel, keeping every array's layout"""
    for a, s_ in zip(args, snap):
        if s_ is not None and a.flags.writeable and not np.array_equal(a, s_, equal_nan=True):
            a[...] = s_


class Runner:
    def __init__(self, ctx, kernels):
        self.ctx, self.K = ctx, kernels
        self.done = {}
        self.V = []

    def viol(self, kernel, variant, what, args=None):
        self.V.append({"key": {"kernel": kernel, "clause": what.split(":")[0][:40]}, "what": f"{kernel} [{variant}]: {what}",
                       "input": {"kernel": kernel, "variant": variant, "args": common.jsonable(args) if args is not None else None}})

    def call_py(self, name, args):
        k = self.K[name]
        if not k["ufunc"]:
            return k["py"](*cp(args))
        # element-wise evaluation of the scalar definition with Python scalars of the argument's own kind
        bs = np.broadcast_arrays(*[np.asarray(a) for a in args])
        out = np.empty(bs[0].shape, dtype=float)
        it = np.nditer(out, flags=["multi_index"], op_flags=["writeonly"])
        for _ in it:
            idx = it.multi_index
            out[idx] = k["py"](*[(int(b[idx]) if np.issubdtype(b.dtype, np.integer) else float(b[idx])) for b in bs])
        return out

    def fresh_int_first(self, name, iargs, jsonargs=None):
        """re-decorate the kernel's own Python definition with its own options and make the integer signature the first one it compiles"""
        import numba
        k = self.K[name]
        if not k["ufunc"]: return
        variant = "all-int64-first-signature"
        self.done.setdefault(name, set()).add(variant)
        opts = {o: v for o, v in k["opts"].items() if o in ("nopython", "fastmath", "forceobj", "boundscheck")}
        try:
            with np.errstate(all="ignore"):
                fresh = numba.vectorize(cache=True, **opts)(k["py"])
                c = np.asarray(fresh(*iargs), dtype=float)
                p = np.asarray(self.call_py(name, iargs), dtype=float)
        except Exception as e:
            self.viol(name, variant, f"integer specialisation fails: {type(e).__name__}: {str(e)[:200]}", jsonargs); return
        self.ctx.evaluations += 1; self.ctx.count("fresh_int_first")
        both_bad = ~np.isfinite(c) & ~np.isfinite(p)
        with np.errstate(all="ignore"):
            bad = ~both_bad & ~(np.abs(c - p) <= 1e-9 * np.maximum(np.abs(c), np.abs(p)) + 1e-300)
            if name in ("clog_ei", "clog_ii"):       # logarithms of ratios: absolute 1e-9 of the documented constant
                bad = ~both_bad & ~(np.abs(c - p) <= 1e-9 * 25)
        if np.any(bad):
            i = int(np.argmax(bad))
            self.viol(name, variant, f"compiled for integer arguments first: {c.ravel()[i]!r}, interpreted: {p.ravel()[i]!r} at {[a.ravel()[i].item() for a in np.broadcast_arrays(*iargs)]}", jsonargs)

    def pair(self, name, variant, args, scale=None, jsonargs=None, rtol=RTOL):
        """dispatcher vs py_func on one call variant; returns the dispatcher's output (or None)"""
        ctx = self.ctx
        k = self.K[name]
        self.done.setdefault(name, set()).add(variant)
        with np.errstate(all="ignore"):
            ec = ep = None
            snap = snapshot(args)
            try:
                c = k["obj"](*cp(args))
            except Exception as e:
                ec = e
            restore(args, snap)
            try:
                p = self.call_py(name, args)
            except Exception as e:
                ep = e
            restore(args, snap)
            if ec is not None and ep is not None and type(ec).__name__ == type(ep).__name__:
                # the input is outside the kernel's domain in both executions (e.g. default DR scan range of an element without resonances)
                ctx.count("both_raise_" + type(ec).__name__)
                return None
            if ec is not None:
                self.viol(name, variant, f"compiled kernel fails: {type(ec).__name__}: {str(ec)[:300]}" + ("" if ep is None else f" (interpreted: {type(ep).__name__})"), jsonargs)
                return None
            if ep is not None:
                self.viol(name, variant, f"interpreted definition fails: {type(ep).__name__}: {str(ep)[:300]}", jsonargs)
                return None
        ctx.evaluations += 1
        ctx.stats["disagreements_checked"] = ctx.stats.get("disagreements_checked", 0) + 1
        ok, w, d = agree(c, p, rtol, scale)
        ctx.cov.setdefault("worst", {})[name] = max(ctx.cov.get("worst", {}).get(name, 0.0), float(w) if np.isfinite(w) else 1e300)
        if not ok:
            self.viol(name, variant, f"disagree: compiled and interpreted results differ (rel {w:.2e}): {d}", jsonargs if jsonargs is not None else [a for a in args if isinstance(a, (int, float, np.ndarray))])
            return None
        f = flat(c)
        if any(np.isfinite(x).all() and np.any(x != 0) for x in f):
            ctx.seen((name, variant, hash(tuple(float(x.ravel()[0]) for x in f))))
        return c

    def pivot(self, name, variant, impl, model, scale=None, jsonargs=None):
        self.ctx.count("pivot_comparisons")
        ok, w, d = agree(impl, model, PIVOT_RTOL, scale)
        if not ok:
            self.ctx.fail("correspondence", f"{name} [{variant}]: compiled kernel differs from the Lean pivot (rel {w:.2e}): {d}", inp={"kernel": name, "variant": variant, "args": jsonargs})


# ----------------------------------------------------------------------------------------------- variants
def layouts(rng, cols, intmask):
    """call variants of a ufunc-style kernel: (label, args)"""
    n = cols[0].size
    out = [("f64-1d", tuple(cols))]
    ints = tuple(np.asarray(c, dtype=np.int64) if m else c for c, m in zip(cols, intmask))
    if any(intmask): out.append(("int64-1d", ints))
    k = (n // 4) * 4
    out.append(("f64-2d-F", tuple(np.asfortranarray(c[:k].reshape(4, k // 4)) for c in cols)))
    out.append(("f64-strided", tuple(np.repeat(c, 2)[::2] if i % 2 else c[::1] for i, c in enumerate(cols))))
    big = [np.stack([c, c[::-1]]) for c in cols]
    out.append(("f64-sliced-block", tuple(b[1, 1:n - 1:2] for b in big)))
    out.append(("scalar", tuple(float(c[0]) for c in cols)))
    if any(intmask): out.append(("scalar-int", tuple(int(c[0]) if m else float(c[0]) for c, m in zip(cols, intmask))))
    return out


def do_plasma(R, rng, n):
    from props import c15
    import ebisim.plasma as pl
    D = R.ctx.driver
    for name, kinds in c15.ARGS.items():
        if name not in R.K: continue
        cols = [c15.draw(rng, k, n) for k in kinds]
        cols = c15.special_points(name, rng, cols)
        intmask = [k in ("q", "q1", "A") for k in kinds]
        # integer-valued quantities are integral already; densities / energies as integers: a second variant below
        for label, args in layouts(rng, cols, intmask):
            vals = None
            with np.errstate(all="ignore"):
                try: vals = np.asarray(R.K[name]["obj"](*args), dtype=float)
                except Exception: pass
            fa = [np.asarray(a, dtype=float) for a in args]
            sc = c15.clog_scale(name, [np.broadcast_to(a, np.broadcast(*fa).shape) for a in fa], vals, pl) if vals is not None else None
            R.pair(name, label, args, scale=[np.atleast_1d(sc)] if sc is not None else None, jsonargs=[np.asarray(a).ravel()[:6] for a in args])
        # all-integer call (counts, temperatures and energies given as Python / numpy integers)
        icol = [np.maximum(np.round(np.minimum(c, 1e15)), 1).astype(np.int64) if kd not in ("q", "q1") else np.round(c).astype(np.int64) for c, kd in zip(cols, kinds)]
        R.pair(name, "all-int64", tuple(icol), scale=None if name not in ("clog_ei", "clog_ii", "ion_coll_rate", "coulomb_xs", "spitzer_heating") else
               [np.atleast_1d(c15.clog_scale(name, [c.astype(float) for c in icol], np.asarray(R.K[name]["obj"](*icol), dtype=float), pl))], jsonargs=[c[:6] for c in icol])
        # the same integer call on a *fresh* dispatcher that has no float loop yet: numpy's loop search lets a ufunc that already owns a
        # float64 loop serve integer arrays by casting them, which hides whatever the integer specialisation of the kernel would compute
        # (magnitudes kept below 1e12 so that products of three integer arguments stay inside int64: wrap-around of fixed-width
        #  integers versus CPython's unbounded ones is a property of the integer type, not a disagreement of the two definitions)
        icol_s = [np.minimum(c, 10 ** 12) for c in icol]
        R.fresh_int_first(name, tuple(icol_s), jsonargs=[c[:6] for c in icol_s])
        # pivot on the 1-D float variant
        with np.errstate(all="ignore"):
            impl = np.asarray(R.K[name]["obj"](*cols), dtype=float)
        ans = D.ask_many([f"k {name} " + farr([c[i] for c in cols]) for i in range(n)])
        if any(a[0] == "bad-op" for a in ans):
            R.ctx.fail("correspondence", f"driver has no generated kernel {name}", inp={"kernel": name}); continue
        model = np.array([unbits(a[0]) for a in ans])
        R.pivot(name, "f64-1d", impl, model, scale=[np.atleast_1d(c15.clog_scale(name, cols, impl, pl))] if c15.clog_scale(name, cols, impl, pl) is not None else None)
    for name, gen in (("electron_velocity", lambda: 10 ** rng.uniform(-2, 7, n)), ("_erfc_approx", lambda: 10 ** rng.uniform(-2, 1, n))):
        if name not in R.K: continue
        x = gen()
        for label, arg in (("f64-1d", x), ("int64-1d", np.maximum(np.round(x), 1).astype(np.int64)), ("f64-2d-F", np.asfortranarray(x[: (n // 4) * 4].reshape(4, -1))),
                           ("f64-strided", np.repeat(x, 2)[::2]), ("scalar", float(x[0])), ("scalar-int", int(max(1, round(x[0]))))):
            R.pair(name, label, (arg,), jsonargs=[np.asarray(arg).ravel()[:6]])
        impl = np.asarray(R.K[name]["obj"](x), dtype=float)
        ans = D.ask_many([f"k {name} " + farr([v]) for v in x])
        R.pivot(name, "f64-1d", impl, np.array([unbits(a[0]) for a in ans]))


def do_xs(R, rng, thorough):
    import ebisim
    from ebisim import xs
    D = R.ctx.driver
    n = 60 if thorough else 16
    # _normpdf(x, mu, sigma), cxxs(q, ip), _cubic_spline
    x = rng.uniform(-50, 9000, n); mu = x + rng.normal(0, 30, n); sg = 10 ** rng.uniform(-0.5, 2, n)
    for label, args in (("f64-1d", (x, mu, sg)), ("int64-1d", (np.round(x).astype(np.int64), np.round(mu).astype(np.int64), np.maximum(np.round(sg), 1).astype(np.int64))),
                        ("scalar", (float(x[0]), float(mu[0]), float(sg[0]))), ("scalar-int", (int(x[0]), int(mu[0]), 3)), ("mixed", (x, float(mu[0]), float(sg[0]))),
                        ("f64-strided", (np.repeat(x, 2)[::2], mu[::-1][::-1], sg))):
        R.pair("_normpdf", label, args, jsonargs=[np.asarray(a).ravel()[:6] for a in args])
    ans = D.ask_many([f"k normpdf " + farr([x[i], mu[i], sg[i]]) for i in range(n)])
    if all(a[0] != "bad-op" for a in ans):
        R.pivot("_normpdf", "f64-1d", xs._normpdf(x, mu, sg), np.array([unbits(a[0]) for a in ans]))
    q = np.floor(rng.uniform(1, 93, n)); ip = rng.uniform(4, 25, n)
    for label, args in (("f64-1d", (q, ip)), ("int64-q", (q.astype(np.int64), ip)), ("all-int64", (q.astype(np.int64), np.round(ip).astype(np.int64))), ("scalar", (float(q[0]), float(ip[0]))),
                        ("scalar-int", (int(q[0]), float(ip[0]))), ("q-array-ip-scalar", (np.arange(0, 20), float(ip[0]))), ("q-array-int-ip-scalar", (np.arange(0, 20, dtype=np.int64), 15))):
        R.pair("cxxs", label, args, jsonargs=[np.asarray(a).ravel()[:6] for a in args])
    ans = D.ask_many([f"k cxxs " + farr([q[i], ip[i]]) for i in range(n)])
    if all(a[0] != "bad-op" for a in ans):
        R.pivot("cxxs", "f64-1d", xs.cxxs(q, ip), np.array([unbits(a[0]) for a in ans]))
    # element kernels
    zs = [int(z) for z in rng.choice(np.arange(1, 93), 24 if thorough else 3, replace=False)] + [int(rng.choice([10, 18, 19, 20, 26]))]
    for z in zs:
        el = ebisim.Element.get(z)
        es = [float(10 ** rng.uniform(1, 5)), float(el.e_bind.max() * rng.uniform(0.5, 3)), int(10 ** rng.uniform(2, 4.5))]
        if el.dr_e_res.size:
            es.append(float(el.dr_e_res[int(rng.integers(0, el.dr_e_res.size))] + rng.normal(0, 3)))
        for e in es:
            lab = "int" if isinstance(e, int) else "f64"
            ja = [z, e]
            c = R.pair("eixs_vec", f"e_kin-{lab}", (el, e), jsonargs=ja)
            if c is not None and lab == "f64":
                R.pivot("eixs_vec", "f64", c, dec(D.ask(f"eixs {z} {bits(e)}")), scale=[np.full(z + 1, np.abs(c).max() + 1e-300)], jsonargs=ja)
            c = R.pair("rrxs_vec", f"e_kin-{lab}", (el, e), jsonargs=ja)
            if c is not None and lab == "f64":
                R.pivot("rrxs_vec", "f64", c, dec(D.ask(f"rrxs {z} {bits(e)}")), jsonargs=ja)
            R.pair("eixs_mat", f"e_kin-{lab}", (el, e), jsonargs=ja)
            R.pair("rrxs_mat", f"e_kin-{lab}", (el, e), jsonargs=ja)
            for w in (float(10 ** rng.uniform(0, 2)), 15):
                wl = "int" if isinstance(w, int) else "f64"
                c = R.pair("drxs_vec", f"e_kin-{lab}-fwhm-{wl}", (el, e, w), jsonargs=ja + [w])
                if c is not None and lab == "f64" and wl == "f64":
                    R.pivot("drxs_vec", "f64", c, dec(D.ask(f"drxs {z} {bits(e)} {bits(w)}")), scale=[np.full(z + 1, np.abs(c).max() + 1e-300)], jsonargs=ja + [w])
                R.pair("drxs_mat", f"e_kin-{lab}-fwhm-{wl}", (el, e, w), jsonargs=ja + [w])
        # scans: default range, two-element range (float / int), explicit samples
        for label, ek, nn in (("default", None, 40), ("range-f64", np.array([20.0, 5e4]), 25), ("range-int64", np.array([20, 50000]), 25), ("samples", np.sort(10 ** rng.uniform(1, 5, 7)), 7)):
            R.pair("_eirr_e_samp", label, (el, ek, nn), jsonargs=[z, ek, nn])
            R.pair("eixs_energyscan", label, (el, ek, nn), jsonargs=[z, ek, nn])
            R.pair("rrxs_energyscan", label, (el, ek, nn), jsonargs=[z, ek, nn])
            # the sampling energies themselves may differ by an ulp (10**x): a Gaussian tail amplifies that by (e-e_res)/sigma^2,
            # so the scan is compared relative to the peak of each charge state's row
            with np.errstate(all="ignore"):
                try: pk = np.abs(xs.drxs_energyscan(el, 12.5, ek, nn)[1]).max(axis=1, keepdims=True)
                except Exception: pk = None
            R.pair("drxs_energyscan", label, (el, 12.5, ek, nn), jsonargs=[z, 12.5, ek, nn],
                   scale=None if pk is None else [None, np.broadcast_to(pk + 1e-300, (z + 1, len(ek) if (ek is not None and len(ek) > 2) else nn))])
        cfg = np.array(el.e_cfg)
        from ebisim.elements import _SHELL_N as sn
        c = R.pair("precompute_rr_quantities", "int-C", (np.ascontiguousarray(cfg), np.ascontiguousarray(sn)), jsonargs=[z])
        R.pair("precompute_rr_quantities", "int-F", (np.asfortranarray(cfg), np.ascontiguousarray(sn)), jsonargs=[z])
        R.pair("precompute_rr_quantities", "float-cfg", (cfg.astype(float), np.asarray(sn).astype(float)), jsonargs=[z])
        if c is not None:
            m = dec(D.ask(f"rrpre {z}"))
            R.pivot("precompute_rr_quantities", "int-C", (c[0], c[1]), (m[: z + 1], m[z + 1:]), jsonargs=[z])


def do_radial(R, rng, thorough):
    from props import c12, c13
    import ebisim.simulation._radial_dist as rd
    D = R.ctx.driver
    reps = 24 if thorough else 2
    for k in range(reps):
        n = int(rng.integers(5, 200))
        l, d, u, b = c12.tdma_system(rng, n)
        sc = [np.full(n, 1.0)]
        def resid_scale(x):
            return [np.full(n, np.abs(np.asarray(x, float)).max() * 50 + 1e-300)]
        c = R.pair("tridiagonal_matrix_algorithm", "f64-C", (l, d, u, b), scale=None, rtol=1e-9)
        li, di, ui, bi = c12.tdma_system(rng, n, integer=True)
        R.pair("tridiagonal_matrix_algorithm", "int64", (li, di, ui, bi), rtol=1e-9)
        blk = np.stack([l, d, u, b, l])
        R.pair("tridiagonal_matrix_algorithm", "sliced-rows", (blk[0], blk[1], blk[2], blk[3]), rtol=1e-9)
        wide = np.asfortranarray(np.stack([l, d, u, b], axis=1))
        R.pair("tridiagonal_matrix_algorithm", "strided-columns", (wide[:, 0], wide[:, 1], wide[:, 2], wide[:, 3]), rtol=1e-9)
        if c is not None:
            R.pivot("tridiagonal_matrix_algorithm", "f64-C", c, dec(D.ask(f"tdma {farr(l)} {farr(d)} {farr(u)} {farr(b)}")), scale=resid_scale(c))
        # grids
        ru = np.linspace(0, float(10 ** rng.uniform(-3, -1)), n)
        rn = c12.grids(rng, max(n, 12))[1] if k % 2 else np.concatenate([[0.0], np.cumsum(10 ** rng.uniform(-6, -4, n - 1))])
        n2 = rn.size
        for name, r_, op in (("fd_system_uniform_grid", ru, "uni"), ("fd_system_nonuniform_grid", rn, "non")):
            c = R.pair(name, "f64-C", (r_,))
            R.pair(name, "int64", (np.arange(r_.size, dtype=np.int64) * 3,))
            R.pair(name, "f64-strided", (np.repeat(r_, 2)[::2],))
            if c is not None:
                R.pivot(name, "f64-C", c, np.split(dec(D.ask(f"fd {op} {farr(r_)}")), 3))
        rho_u = c12.density(rng, ru)[1]; rho_n = c12.density(rng, rn)[1]
        for name, r_, rho, op in (("radial_potential_uniform_grid", ru, rho_u, "uni"), ("radial_potential_nonuniform_grid", rn, rho_n, "non")):
            scp = None
            c = R.pair(name, "f64-C", (r_, rho), rtol=1e-9)
            R.pair(name, "rho-int64", (r_, np.round(rho * 1e12).astype(np.int64)), rtol=1e-9)
            R.pair(name, "strided", (np.repeat(r_, 2)[::2], np.stack([rho, rho])[1]), rtol=1e-9)
            if c is not None:
                R.pivot(name, "f64-C", c, dec(D.ask(f"radpot {op} {farr(r_)} {farr(rho)}")), scale=[np.full(r_.size, np.abs(c).max() * 20 + 1e-300)])
        # heat capacity, target function
        cur, e, r_e, r_d = c13.beam(rng)
        g = c13.grid(rng, r_e, r_d, int(rng.choice([60, 120])))
        phi = -np.abs(rng.normal(50, 20)) * (1 - (g / g[-1]) ** 0.5)
        for qv, kv in ((3.0, 25.0), (int(rng.integers(1, 30)), float(10 ** rng.uniform(1, 3))), (int(rng.integers(1, 30)), int(rng.integers(20, 900))), (0, 5.0)):
            lab = ("q-int" if isinstance(qv, int) else "q-f64") + ("-kT-int" if isinstance(kv, int) else "-kT-f64")
            c = R.pair("heat_capacity", lab, (g, phi, qv, kv), scale=[np.array([1.5])], jsonargs=[qv, kv])
            if c is not None and lab == "q-f64-kT-f64":
                R.pivot("heat_capacity", lab, c, dec(D.ask(f"cv {farr(g)} {farr(phi)} {bits(float(qv))} {bits(float(kv))}")), scale=[np.array([1.5])])
        R.pair("heat_capacity", "strided-grid", (np.repeat(g, 2)[::2], np.stack([phi, phi])[1], 4, 30.0), scale=[np.array([1.5])])
        ldu = rd.fd_system_nonuniform_grid(g)
        xx = rng.normal(0, 10, g.size); bb = rng.normal(0, 1, g.size)
        R.pair("_tridiag_targetfun", "f64", (ldu, xx, bb))
        # Boltzmann-Poisson solvers
        nl, kTs, qs = (v[:, None] for v in c13.species(rng, cur, e))
        rho0 = -cur / (np.pi * r_e ** 2 * np.sqrt(2 * 1.602176634e-19 * e / 9.1093837139e-31))
        rho_0 = np.where(g <= r_e, rho0, 0.0)
        nax = nl / (np.pi * r_e ** 2) * 0.3
        def bp_scale(c):
            return [np.full(g.size, np.abs(c[0]).max() + 1e-300)] + [None] * (len(flat(c)) - 1)
        for name, args in (("boltzmann_radial_potential_onaxis_density", (g, rho_0, nax, np.maximum(kTs, 10.0 * np.maximum(qs, 1)), qs)),
                           ("boltzmann_radial_potential_linear_density", (g, rho_0, nl, kTs, qs)),
                           ("boltzmann_radial_potential_linear_density_ebeam", (g, cur, r_e, e, nl, kTs, qs)),
                           ("boltzmann_radial_potential_linear_density_ebeam_sor", (g, cur, r_e, e, nl, kTs, qs))):
            if name not in R.K: continue
            with np.errstate(all="ignore"):
                try:
                    c0 = R.K[name]["obj"](*cp(args))
                except Exception as ex:
                    R.viol(name, "f64", f"compiled kernel fails: {type(ex).__name__}: {str(ex)[:300]}"); continue
            if not np.isfinite(flat(c0)[0]).all():
                R.ctx.count("bp_nonfinite_skipped"); continue
            R.pair(name, "f64", args, scale=bp_scale(c0), rtol=1e-8)
            R.pair(name, "q-int64", args[:-1] + (np.asarray(args[-1]).astype(np.int64),), scale=bp_scale(c0), rtol=1e-8)
            # a caller-supplied first guess (the converged potential, slightly disturbed) and a pre-computed finite-difference system
            fg = np.asarray(c0[0], float) * (1 + 1e-3 * np.cos(np.arange(g.size))) ; fg[-1] = 0.0
            R.pair(name, "first-guess+ldu", args + (fg, ldu), scale=bp_scale(c0), rtol=1e-8)
            # species arrays as non-contiguous views: a column block of a C-ordered matrix, a strided column
            def colblock(v):
                M = np.zeros((v.shape[0], 3)); M[:, 1:2] = v; return M[:, 1:2]
            def strided(v):
                M = np.repeat(v, 2, axis=0); return M[::2]
            R.pair(name, "species-column-block", args[:-3] + tuple(colblock(v) for v in args[-3:]), scale=bp_scale(c0), rtol=1e-8)
            R.pair(name, "species-strided", args[:-3] + tuple(strided(v) for v in args[-3:]), scale=bp_scale(c0), rtol=1e-8)
            R.pair(name, "grid-strided", (np.repeat(args[0], 2)[::2],) + ((np.repeat(args[1], 2)[::2],) if isinstance(args[1], np.ndarray) else (args[1],)) + args[2:], scale=bp_scale(c0), rtol=1e-8)
            R.pair(name, "species-F-column", args[:-3] + tuple(np.asfortranarray(np.hstack([v, v]))[:, 0:1] for v in args[-3:]), scale=bp_scale(c0), rtol=1e-8)
            if name.endswith("ebeam"):
                R.pair(name, "int-scalars+ldu", (g, cur, r_e, int(round(e)), nl, kTs, qs, None, ldu), scale=None, rtol=1e-8)


def do_advanced(R, rng, thorough):
    import numba
    import advcorr
    from ebisim.simulation import _advanced as adv
    from ebisim.simulation._result import Rate
    logging.getLogger("ebisim").setLevel(logging.ERROR)
    D = R.ctx.driver
    n = 200 if thorough else 40
    x = rng.uniform(-1, 3, n)
    a = (x, 0.0, 2.0, 0.0, 1.0, 0.0, 0.5)
    R.pair("_cubic_spline", "f64-array", a)
    R.pair("_cubic_spline", "int-knots", (x, 0, 2, 0, 1, 0, 1))
    R.pair("_cubic_spline", "scalar", tuple(float(v) if isinstance(v, float) else float(v[0]) for v in a))
    ans = D.ask_many([f"k cubic_spline " + farr([x[i], 0.0, 2.0, 0.0, 1.0, 0.0, 0.5]) for i in range(n)])
    if all(t[0] != "bad-op" for t in ans):
        R.pivot("_cubic_spline", "f64-array", adv._cubic_spline(*a), np.array([unbits(t[0]) for t in ans]))
    xs_ = 10 ** rng.uniform(-8, 1, n); xs_[:6] = [1e-6, 1e-3, 5e-7, 0.99e-3, 1.0000001e-6, 0.0]
    R.pair("_smooth_to_zero", "f64-1d", (xs_,))
    R.pair("_smooth_to_zero", "f64-strided", (np.repeat(xs_, 2)[::2],))
    R.pair("_smooth_to_zero", "int64", (np.arange(0, 5, dtype=np.int64),))
    # right-hand side
    # option patterns: every switch takes both values within the first four models
    pats = [[True] * 12, [False] * 12, [bool(i % 2) for i in range(12)], [not bool(i % 2) for i in range(12)]]
    for k in range(10 if thorough else 4):
        if k < 4:
            opts, okw = gens.make_options(bits=pats[k])
            fixed = {"RADIAL_DYNAMICS": okw["RADIAL_DYNAMICS"]}
            m, desc = advcorr.build_model(rng, n_grid=60, zmax=10, k=int(rng.integers(1, 3)), opts=opts, gases=(2 if k == 0 else None))
        else:
            fixed = {"RADIAL_DYNAMICS": bool(k % 2)}
            m, desc = advcorr.build_model(rng, n_grid=60, zmax=12, k=int(rng.integers(1, 3)), **fixed)
        y = gens.make_state(rng, m)
        if fixed["RADIAL_DYNAMICS"]:
            y[:m.nq] = np.minimum(y[:m.nq], 1e7); y[m.nq:] = np.maximum(y[m.nq:], 5.0 * np.maximum(m.q, 1))
        nq = m.nq
        exc = numba.typed.Dict.empty(key_type=numba.typeof(Rate.EI), value_type=numba.types.float64[::1])
        dyc = adv._adv_rhs(m, 0.0, y.copy(), exc)
        exp_ = {}
        try:
            dyp = adv._adv_rhs.py_func(m, 0.0, y.copy(), exp_)
        except Exception as ex:
            R.viol("_adv_rhs", "rates-dict", f"interpreted definition fails: {type(ex).__name__}: {str(ex)[:300]}", desc); continue
        R.done.setdefault("_adv_rhs", set()).add("rates-dict")
        R.ctx.evaluations += 1; R.ctx.stats["disagreements_checked"] = R.ctx.stats.get("disagreements_checked", 0) + 1
        g = lambda d_, key: np.asarray(d_[key]) if key in d_ else np.zeros(nq)
        Rs = sum(np.abs(g(exc, kk)) for kk in (Rate.EI, Rate.RR, Rate.DR, Rate.CX, Rate.AX_CO, Rate.RA_CO))
        Rs = Rs + np.concatenate([[0], Rs[:-1]]) + np.concatenate([Rs[1:], [0]])
        n_r = np.maximum(np.abs(y[:nq]), 1e-300); kTv = np.maximum(y[nq:], 1e-3)
        ih = np.abs(g(exc, Rate.IONISATION_HEAT)).max()
        Ts = Rs / n_r * (kTv + np.concatenate([[0], kTv[:-1]]) + np.concatenate([kTv[1:], [0]]) + ih + 1e-300) + np.abs(g(exc, Rate.T_SPITZER_HEATING)) \
            + np.abs(g(exc, Rate.COLLISION_RATE_TOTAL)) * (kTv.max() + 1e-300) + np.abs(g(exc, Rate.AX_CO) / n_r * kTv) + np.abs(g(exc, Rate.RA_CO) / n_r * kTv) * 50
        ok, w, dsc = agree(dyc, dyp, 1e-9, [np.concatenate([Rs + 1e-300, Ts + 1e-300])])
        bad = None if ok else f"derivative: {dsc} (rel {w:.2e})"
        if set(exc.keys()) != set(exp_.keys()):
            bad = f"rates keys differ: compiled {sorted(int(k_) for k_ in exc.keys())} vs interpreted {sorted(int(k_) for k_ in exp_.keys())}"
        else:
            for key in exc.keys():
                sc = None
                if key == Rate.T_COLLISIONAL_THERMALISATION: sc = [np.abs(g(exc, Rate.COLLISION_RATE_TOTAL)) * (kTv.max() + 1e-300) + 1e-300]
                if key in (Rate.W_AX, Rate.W_RA, Rate.V_AX, Rate.V_RA, Rate.TRAPPING_PARAMETER_AXIAL if hasattr(Rate, "TRAPPING_PARAMETER_AXIAL") else Rate.W_AX): sc = None
                ok2, w2, d2 = agree(np.asarray(exc[key]), np.asarray(exp_[key]), 1e-8, sc)
                if not ok2 and bad is None:
                    bad = f"rate {key!r}: {d2} (rel {w2:.2e})"
        if bad:
            R.viol("_adv_rhs", "rates-dict", "disagree: " + bad, dict(desc, y=y))
        else:
            R.ctx.seen(("_adv_rhs", k))
        # without a rates dictionary, F-ordered 2-D state block for the chunked variant
        R.pair("_adv_rhs", "no-rates", (m, 0.0, y.copy(), None), scale=[np.concatenate([Rs + 1e-300, Ts + 1e-300])], jsonargs=dict(desc, y=y), rtol=1e-9)
        Y = np.stack([y, y * (1 + 1e-3 * rng.uniform(-1, 1, y.size)), y], axis=1)
        sc2 = [np.repeat(np.concatenate([Rs + 1e-300, Ts + 1e-300])[:, None], 3, axis=1) * 2]
        R.pair("_chunked_adv_rhs", "C-block", (m, 0.0, np.ascontiguousarray(Y)), scale=sc2, jsonargs=dict(desc, y=y), rtol=1e-9)
        R.pair("_chunked_adv_rhs", "F-block", (m, 0.0, np.asfortranarray(Y)), scale=sc2, jsonargs=dict(desc, y=y), rtol=1e-9)
        big = np.zeros((y.size, 7)); big[:, 1:7:2] = Y
        R.pair("_chunked_adv_rhs", "strided-columns", (m, 0.0, big[:, 1:7:2]), scale=sc2, jsonargs=dict(desc, y=y), rtol=1e-9)


class LineCoverage:
    """which source lines of the kernels' Python definitions the harness's inputs execute (interpreted executions only; PEP 669 monitoring,
    every location is switched off after its first hit, so the cost is negligible).  Reported in the evidence: a line no input reaches is a
    line the differential comparison says nothing about."""
    def __init__(self, kernels):
        import sys
        self.mon = getattr(sys, "monitoring", None)
        self.codes, self.hit = {}, set()
        for name, k in kernels.items():
            stack = [k["py"].__code__]
            while stack:
                c = stack.pop()
                self.codes[c] = name
                stack += [x for x in c.co_consts if hasattr(x, "co_lines")]
        self.tool = None
        if self.mon is None: return
        for tid in (3, 4, 2):
            try:
                self.mon.use_tool_id(tid, "ebisim-verif-c19"); self.tool = tid; break
            except Exception:
                continue
        if self.tool is None: return
        self.mon.register_callback(self.tool, self.mon.events.LINE, self._line)
        for c in self.codes:
            self.mon.set_local_events(self.tool, c, self.mon.events.LINE)

    def _line(self, code, line):
        self.hit.add((code, line))
        return self.mon.DISABLE

    def report(self):
        out = {}
        if self.tool is None: return out
        per = {}
        for c, name in self.codes.items():
            lines = {l for (_, _, l) in c.co_lines() if l is not None and l != c.co_firstlineno}
            got = {l for (cc, l) in self.hit if cc is c}
            t = per.setdefault(name, [set(), set()]); t[0] |= lines; t[1] |= (got & lines)
        for name, (lines, got) in per.items():
            out[name] = {"executable_lines": len(lines), "executed": len(got), "not_executed": sorted(lines - got)[:40]}
        for c in self.codes:
            try: self.mon.set_local_events(self.tool, c, 0)
            except Exception: pass
        try: self.mon.free_tool_id(self.tool)
        except Exception: pass
        return out


def run(ctx):
    logging.getLogger("ebisim").setLevel(logging.ERROR)
    rng = ctx.rng
    K = discover()
    R = Runner(ctx, K)
    cover = LineCoverage(K)
    ctx.violations = R.V
    ctx.stats["programs"] = len(K)
    ctx.stats["disagreements_checked"] = 0
    # decorator options
    for name, k in K.items():
        o = k["opts"]
        if not o.get("nopython", False) or o.get("fastmath") or o.get("forceobj"):
            R.viol(name, "options", f"options: kernel is compiled with {o} (nopython without fastmath expected)")
    do_plasma(R, rng, 1200 if ctx.thorough else 48)
    do_xs(R, rng, ctx.thorough)
    do_radial(R, rng, ctx.thorough)
    do_advanced(R, rng, ctx.thorough)
    lc = cover.report()
    ctx.cov["py_line_coverage"] = lc
    ctx.cov["py_line_coverage_total"] = {"executable_lines": sum(v["executable_lines"] for v in lc.values()), "executed": sum(v["executed"] for v in lc.values())}
    ctx.cov["kernels"] = {n: sorted(v) for n, v in R.done.items()}
    un = sorted(set(K) - set(R.done))
    ctx.cov["unexercised_kernels"] = un
    for name in un:
        ctx.fail("correspondence", f"kernel {K[name]['module']}.{name} is not exercised by any generator of the harness (new kernel?)", inp={"kernel": name})
    for name in list(R.done)[:3]:
        ctx.sample({"kernel": name, "variants": sorted(R.done[name])})


def search(ctx):
    return []


def replay(ctx, data):
    v = data.get("violation", {})
    name = (v.get("key") or {}).get("kernel")
    if not name: return None
    K = discover()
    R = Runner(ctx, K)
    rng = np.random.default_rng(ctx.seed)
    mod = K.get(name, {}).get("module", "")
    {"ebisim.plasma": lambda: do_plasma(R, rng, 48), "ebisim.xs": lambda: do_xs(R, rng, False),
     "ebisim.simulation._radial_dist": lambda: do_radial(R, rng, False), "ebisim.simulation._advanced": lambda: do_advanced(R, rng, False)}.get(mod, lambda: None)()
    r = [x for x in R.V if x["key"].get("kernel") == name]
    return r[0] if r else None
