"""C08 — Kim–Pratt radiative recombination."""
import numpy as np
import common, xscorr

LEVEL = "proof"
LEMMA_MODULES = ["Consts"]
RULE = ("generated tables vs Element arrays (all 105, exact); rr_z_eff / rr_n_0_eff vs Xs.rrPre for the visited elements (bit-exact; thorough: all 105); "
        "rrxs_vec vs Xs.rrxsVec on log-uniform energies 1e-2..1e7 eV (1e-11 relative). non-trivial = ion entries positive; distinct = distinct (Z, E)")
MONITORED = []
OUTSIDE = ["rounding only"]
ASSUMPTIONS = ["libm log of numpy and Lean's Float agree to 1e-11"]


def run(ctx):
    xscorr.corr_tables(ctx)
    zs = list(range(1, 106)) if ctx.thorough else xscorr.zs_for(ctx, 40)
    xscorr.corr_rr(ctx, zs, n_grid=12 if ctx.thorough else 4)
    ctx.cov["elements"] = zs
    if ctx.thorough:
        ctx.exhaustive = True


def spec(el, E):
    from ebisim.physconst import RY_EV, ALPHA, PI, COMPT_E_RED
    from ebisim.resources import SHELL_N
    z = el.z
    out = np.zeros(z + 1)
    for q in range(1, z + 1):
        if q < z:
            occ = el.e_cfg[q]
            ns = np.asarray(SHELL_N[: occ.size])
            n0 = ns[occ > 0].max()
            w = 1 - occ[ns == n0].sum() / (2 * n0 ** 2)
        else:
            n0, w = 1, 1.0
        neff = n0 + (1 - w) - 0.3
        zeff = (z + q) / 2
        chi = 2 * zeff ** 2 * RY_EV / E
        out[q] = 8 * PI * ALPHA / (3 * np.sqrt(3)) * COMPT_E_RED ** 2 * chi * np.log(1 + chi / (2 * neff ** 2))
    return out


def stmt(z, E):
    import ebisim
    el = xscorr.element(z)
    v = ebisim.rrxs_vec(el, float(E))
    out = []
    def add(clause, what):
        out.append({"key": {"clause": clause, "Z": int(z)}, "what": what, "input": {"Z": int(z), "E": float(E)}})
    if v.shape != (z + 1,) or not np.all(np.isfinite(v)):
        add("finite", f"rrxs_vec(Z={z}, E={E!r}) not finite / wrong length"); return out
    if v[0] != 0:
        add("neutral_zero", f"rrxs_vec(Z={z}, E={E!r})[0] = {v[0]!r} for the neutral atom")
    if (v[1:] <= 0).any():
        add("ion_positive", f"rrxs_vec(Z={z}, E={E!r}) has a non-positive ion entry {v[1:].min()!r}")
    sp = spec(el, float(E))
    ok, w, i = common.compare(v, sp, 1e-9)
    if not ok:
        add("kim_pratt_formula", f"rrxs_vec(Z={z}, E={E!r})[{i}] = {v[i]!r} but the Kim-Pratt expression gives {sp[i]!r}")
    v2 = ebisim.rrxs_vec(el, float(E) * 1.01)
    if (v2[1:] >= v[1:]).any():
        add("decreasing", f"rrxs_vec(Z={z}) does not decrease from E={E!r} to {1.01*E!r}")
    return out


def search(ctx):
    rng = np.random.default_rng([ctx.seed, 808])
    V = []
    cases = [(int(f["input"]["Z"]), float(f["input"].get("E", 100.0))) for f in ctx.failures if (f.get("input") or {}).get("Z")]
    zs = range(1, 106) if (ctx.thorough or ctx.failures) else rng.choice(np.arange(1, 106), 15, replace=False)
    for z in zs:
        cases += [(int(z), float(10 ** rng.uniform(-2, 7))) for _ in range(3)]
    for z, e in cases:
        V += stmt(z, e); ctx.count("search_cases")
        if len(V) > 20: break
    return V


def replay(ctx, data):
    inp = data.get("violation", {}).get("input", {})
    r = stmt(int(inp["Z"]), float(inp["E"])) if "Z" in inp else []
    return r[0] if r else None
