"""C13 — Boltzmann–Poisson solutions."""
import numpy as np
import common
from leanio import farr, bits, dec, unbits, ulp_diff

LEVEL = "proof"
LEMMA_MODULES = ["Tdma", "Fd", "Newton", "Trapz", "Consts", "MaxPrinciple", "Comparison"]
RULE = ("the three public solvers vs Radial.bpStatic / bpEbeam (phi, nax, shape; 1e-9 relative to max|phi|; the e-beam variant also one update at a "
        "time via max_step=1) for 1..8 species, q in 0..40, kT/q above the stiffness limit, compensation 0..60 %, beams over the operating range, "
        "with/without first_guess and ldu, rel_diff 1e-3..1e-12; heat_capacity vs Radial.heatCapacity. non-trivial = at least one charged species "
        "with non-zero density; distinct = distinct (variant, case index)")
MONITORED = ["residual of the discrete Boltzmann-Poisson system on the returned triple <= 10 * tolerance * scale", "wall potential exactly 0.0",
             "2 pi trapz(r n(r)) = requested line density", "shape in (0,1], 1 at the reference node, identically 1 for neutrals",
             "ion-free result equals the pure beam potential", "adding positive ions never lowers the potential", "heat capacity >= 3/2, = 3/2 for neutrals / flat potential, -> 5/2 in a wide harmonic well"]
OUTSIDE = ["monotonicity of the converged solution in the ion charge, the harmonic-well limit, smallness of the Newton defect (convergence is the property's premise)"]
ASSUMPTIONS = ["np.linalg.norm (BLAS) and the model's sqrt(sum y^2) agree to 1e-12; borderline stopping decisions are re-checked with the tolerance shifted by 1e-9"]


def beam(rng):
    cur = float(10 ** rng.uniform(-2, 0)); e = float(10 ** rng.uniform(3.3, 4.3))
    while cur / e ** 1.5 > 2e-6:
        cur *= 0.5
    r_e = float(10 ** rng.uniform(np.log10(5e-5), np.log10(3e-4)))
    r_d = float(r_e * 10 ** rng.uniform(1.0, 2.0))
    return cur, e, r_e, r_d


def grid(rng, r_e, r_d, n):
    k = max(n // 6, 3)
    return np.concatenate([np.linspace(0, r_e, k, endpoint=False), np.linspace(r_e, 2 * r_e, k, endpoint=False), np.geomspace(2 * r_e, r_d, 4 * k)])


def species(rng, cur, e, ns=None, comp=None):
    from ebisim.physconst import Q_E, M_E
    ns = int(ns or rng.integers(1, 9))
    q = np.floor(rng.uniform(0, 41, ns)); q[rng.integers(ns)] = max(q[rng.integers(ns)], 1)
    if ns > 1 and rng.integers(3) == 0:
        q[0] = 0
    kT = np.maximum(q, 1) * 10 ** rng.uniform(0.5, 2.3, ns)
    comp = float(rng.uniform(0, 0.6)) if comp is None else comp
    lam_e = cur / np.sqrt(2 * Q_E * e / M_E) / Q_E      # electrons per metre
    wts = rng.uniform(0.1, 1, ns); wts /= wts.sum()
    nl = np.where(q > 0, comp * wts * lam_e / np.maximum(q, 1), 10 ** rng.uniform(3, 8, ns))
    return nl, kT, q


def fmt_opt(v):
    return ("1 " + farr(v)) if v is not None else "0"


def parse_bp(t, ng, ns):
    it = int(t[0]); a = dec(t[1:])
    return it, a[:ng], a[ng:ng + ns], a[ng + ns:].reshape(ns, ng)


def cmp3(impl, model, scale):
    phi, nax, sh = impl; it, mphi, mnax, msh = model
    ok1 = phi.shape == mphi.shape and np.abs(phi - mphi).max() <= 1e-9 * scale
    nax = np.asarray(nax, float).ravel()
    ok2 = nax.shape == mnax.shape and np.all(np.abs(nax - mnax) <= 1e-9 * np.maximum(np.abs(nax), 1e-300))
    ok3 = np.asarray(sh).shape == msh.shape and np.abs(np.asarray(sh) - msh).max() <= 1e-9
    return ok1 and ok2 and ok3


def run(ctx):
    import ebisim.simulation._radial_dist as rd
    from ebisim.physconst import Q_E, M_E, PI
    D = ctx.driver
    rng = ctx.rng
    n = 40 if ctx.thorough else 10
    border = 0
    for k in range(n):
        cur, e, r_e, r_d = beam(rng)
        r = grid(rng, r_e, r_d, int(rng.choice([60, 120, 240, 400])))
        if k == 3:
            # a fine mesh that is only mildly non-uniform (cells of ~0.1-0.5 um, 1 % wider outside the beam): the finite-difference system
            # of *this* mesh must be used, whatever an absolute tolerance in metres would say about "uniform"
            r_e = min(r_e, 1.5e-4); dr0 = r_e / 300
            r = np.concatenate([np.arange(300) * dr0, r_e + np.arange(0, int(1.5 * r_e / (1.01 * dr0)) + 1) * 1.01 * dr0])
        ng = r.size
        nl, kT, q = species(rng, cur, e)
        # "the ion-free result equals the pure beam potential": one ion-free call (what Device.get does) and one with neutrals only
        if k == 1: nl = np.zeros_like(nl)
        if k == 2: q = np.zeros_like(q)
        ns = nl.size
        col = lambda v: np.asarray(v, float)[:, None]
        # ---- e-beam variant
        rel = float(rng.choice([1e-3, 1e-6, 1e-10, 1e-12]))
        use_ldu = bool(rng.integers(2)); use_fg = bool(rng.integers(2))
        ldu = rd.fd_system_nonuniform_grid(r) if use_ldu else None
        fg = None
        if use_fg:
            fg, _, __ = rd.boltzmann_radial_potential_linear_density_ebeam(r, cur, r_e, e, 0, 1, 1)
        fg_given = None if fg is None else fg.copy()
        ldu_given = None if ldu is None else tuple(a.copy() for a in ldu)
        impl = rd.boltzmann_radial_potential_linear_density_ebeam(r, cur, r_e, e, col(nl), col(kT), col(q), first_guess=fg_given, ldu=ldu_given, max_step=500, rel_diff=rel)
        phi_eb = impl[0].copy()
        # the arrays the caller hands in (the ion-free potential as first guess, a pre-computed FD system, the grid) are the caller's: an
        # ion-free result used as first guess must still be the pure beam potential afterwards
        if (fg is not None and not np.array_equal(fg_given, fg)) or (ldu is not None and any(not np.array_equal(a, b) for a, b in zip(ldu_given, ldu))):
            ctx.fail("correspondence", "boltzmann_radial_potential_linear_density_ebeam modified the first_guess / ldu arrays of its caller", inp=dict(variant="ebeam_inputs_modified", cur=cur, e_kin=e, r_e=r_e, r=r, nl=nl, kT=kT, q=q))
        line = (f"bpebeam {bits(cur)} {bits(r_e)} {bits(e)} {bits(rel)} 500 " + " ".join(farr(v) for v in (r, nl, kT, q)) + " " + fmt_opt(fg) + " "
                + ("1 " + " ".join(farr(v) for v in ldu) if ldu is not None else "0"))
        model = parse_bp(D.ask(line), ng, ns)
        ctx.evaluations += 1
        if np.any((q > 0) & (nl > 0)):
            ctx.seen(("ebeam", k))
        desc = {"variant": "ebeam", "cur": cur, "e_kin": e, "r_e": r_e, "r": r, "nl": nl, "kT": kT, "q": q, "rel_diff": rel, "first_guess": use_fg, "ldu": use_ldu}
        if not cmp3(impl, model, np.abs(impl[0]).max()):
            ctx.fail("correspondence", f"boltzmann_radial_potential_linear_density_ebeam differs from Radial.bpEbeam ({model[0]} passes, rel_diff={rel}, species q={q.tolist()})", inp=desc)
        # one update at a time
        phi0 = impl[0] * (1 + 1e-3 * rng.normal(size=ng) * (np.arange(ng) < ng - 1))
        one = rd.boltzmann_radial_potential_linear_density_ebeam(r, cur, r_e, e, col(nl), col(kT), col(q), first_guess=phi0.copy(), max_step=1, rel_diff=1e-30)
        line = f"bpebeam {bits(cur)} {bits(r_e)} {bits(e)} {bits(1e-30)} 1 " + " ".join(farr(v) for v in (r, nl, kT, q)) + " " + fmt_opt(phi0) + " 0"
        m1 = parse_bp(D.ask(line), ng, ns)
        ctx.evaluations += 1
        if not cmp3(one, m1, np.abs(one[0]).max()):
            ctx.fail("correspondence", "one Newton update of the e-beam solver differs from Radial.step", inp=dict(desc, one_step=True))
        # ---- over-relaxed e-beam variant (Newton update + extrapolation every fifth pass): BLAS dot / norm may sum in another order
        # than the model, so the comparison is at 1e-8 of the potential scale (the exit test asks for 1e-10 relative change)
        if k % 2 == 0 or ctx.thorough:
            sor = rd.boltzmann_radial_potential_linear_density_ebeam_sor(r, cur, r_e, e, col(nl), col(kT), col(q), first_guess=None if fg is None else fg.copy(), ldu=ldu)
            line = (f"bpsor {bits(cur)} {bits(r_e)} {bits(e)} " + " ".join(farr(v) for v in (r, nl, kT, q)) + " " + fmt_opt(fg) + " "
                    + ("1 " + " ".join(farr(v) for v in ldu) if ldu is not None else "0"))
            msor = parse_bp(D.ask(line), ng, ns)
            ctx.evaluations += 1; ctx.count("sor_cases")
            if np.all(np.isfinite(sor[0])):
                ctx.seen(("sor", k))
                sc = np.abs(sor[0]).max()
                okp = np.asarray(msor[1]).shape == sor[0].shape and np.abs(np.asarray(msor[1]) - sor[0]).max() <= 1e-8 * sc
                oks = np.abs(np.asarray(msor[3]) - np.asarray(sor[2])).max() <= 1e-7
                okn = np.all(np.abs(np.asarray(msor[2]).ravel() - np.asarray(sor[1]).ravel()) <= 1e-7 * np.maximum(np.abs(np.asarray(sor[1]).ravel()), 1e-300))
                if not (okp and oks and okn):
                    ctx.fail("correspondence", f"boltzmann_radial_potential_linear_density_ebeam_sor differs from Radial.bpEbeamSor ({msor[0]} passes, species q={q.tolist()})", inp=dict(desc, variant="ebeam_sor"))
                if sor[0][-1] != 0:
                    ctx.fail("correspondence", f"over-relaxed e-beam solver: wall potential {sor[0][-1]!r}", inp=dict(desc, variant="ebeam_sor_wall"))
            else:
                ctx.count("non_convergent_skipped")
        # ---- static variants
        rho0 = np.where(r <= r_e, -cur / (np.sqrt(2 * Q_E * e / M_E) * PI * r_e ** 2), 0.0)
        if k % 2:   # static background that reaches the wall node (halo / residual fill): the boundary condition must still hold
            rho0 = rho0 + rho0[0] * float(10 ** rng.uniform(-6, -4)) * (1 + 0.3 * np.cos(np.arange(ng)))
        for variant, f in (("linear", rd.boltzmann_radial_potential_linear_density), ("onaxis", rd.boltzmann_radial_potential_onaxis_density)):
            dens = nl if variant == "linear" else nl / (PI * r_e ** 2) * 0.3
            impl = f(r, rho0, col(dens), col(kT), col(q))
            if not (np.all(np.isfinite(impl[0])) and np.all(np.isfinite(np.asarray(impl[2])))):
                ctx.count("non_convergent_skipped")     # outside the property's quantifier ("for which the iteration converges")
                continue
            model = parse_bp(D.ask(f"bpstatic {variant} " + " ".join(farr(v) for v in (r, rho0, dens, kT, q)) + " 0 0"), ng, ns)
            ctx.evaluations += 1
            ctx.seen((variant, k))
            okc = cmp3(impl, model, np.abs(impl[0]).max())
            if not okc:   # borderline stopping decision of the BLAS norm?
                for tol in (1e-3 * (1 + 1e-9), 1e-3 * (1 - 1e-9)):
                    m2 = parse_bp(D.ask(f"bpstatictol {variant} {bits(tol)} " + " ".join(farr(v) for v in (r, rho0, dens, kT, q))), ng, ns)
                    if cmp3(impl, m2, np.abs(impl[0]).max()):
                        okc = True; border += 1
                        break
            if not okc:
                ctx.fail("correspondence", f"boltzmann_radial_potential_{variant}_density differs from Radial.bpStatic ({model[0]} passes)", inp=dict(desc, variant=variant, rho0=rho0, dens=dens))
        # ---- heat capacity: a species of the case, a neutral, hot light ions, cold highly charged ions deep in the well
        for qq, kk in ((float(q[rng.integers(ns)]), float(kT[rng.integers(ns)])), (0.0, 3.0), (2.0, 900.0), (float(rng.integers(15, 41)), float(10 ** rng.uniform(0.3, 1.5)))):
            cv = float(rd.heat_capacity(r, phi_eb, qq, kk))
            mcv = unbits(D.ask("cv " + farr(r) + " " + farr(phi_eb) + f" {bits(qq)} {bits(kk)}")[0])
            ctx.evaluations += 1
            if not (abs(cv - mcv) <= 1e-9 * abs(cv) or (np.isnan(cv) and np.isnan(mcv))):
                ctx.fail("correspondence", f"heat_capacity(q={qq}, kT={kk}) = {cv!r} but Radial.heatCapacity = {mcv!r}", inp={"op": "cv", "r": r, "phi": phi_eb, "q": qq, "kT": kk})
        if k == 0:
            ctx.sample({"variant": "ebeam", "current": cur, "e_kin": e, "r_e": r_e, "n_grid": ng, "q": q.tolist(), "rel_diff": rel, "phi_axis": float(impl[0][0]), "passes_model": model[0]})
    ctx.cov["borderline_stopping_decisions"] = border


def check_triple(rd, r, phi, nax, shape, nl, kT, q, cden, e_kin, variant, tol, ref):
    """numerical statements on a returned triple (real code only)"""
    from ebisim.physconst import Q_E, M_E, PI, EPS_0
    out = []
    trap = np.trapezoid if hasattr(np, "trapezoid") else np.trapz
    if phi[-1] != 0.0:
        out.append(("wall_zero", f"potential at the wall is {phi[-1]!r}"))
    sh = np.asarray(shape)
    iref0 = int(np.argmin(phi)) if variant == "ebeam" else 0
    in_regime = bool(np.all(phi >= phi[iref0]))     # the reference node is the potential minimum (compensation <= 60 % regime)
    if in_regime and ((sh <= 0).any() or (sh > 1 + 1e-12).any()):
        out.append(("shape_bounds", f"shape factors outside (0,1]: min {sh.min()!r} max {sh.max()!r}"))
    for kq in np.nonzero(q == 0)[0]:
        if not np.all(sh[kq] == 1.0):
            out.append(("shape_neutral", "shape factor of a neutral species is not identically 1"))
    iref = int(np.argmin(phi)) if variant == "ebeam" else 0
    if np.any(np.abs(sh[:, iref] - 1) > 1e-12):
        out.append(("shape_reference", f"shape factor at the reference node is {sh[:, iref]}"))
    if variant in ("linear", "ebeam"):
        n_r = np.asarray(nax).reshape(-1, 1) * sh / (sh[:, [0]] if variant == "ebeam" else 1.0)
        integ = 2 * PI * trap(n_r * r, r, axis=1)
        bad = np.abs(integ - nl) > 1e-9 * np.maximum(nl, 1e-300)
        if bad.any():
            i = int(np.argmax(bad)); out.append(("line_density", f"2 pi int n r dr = {integ[i]!r} but the requested line density is {nl[i]!r} (species {i}, q={q[i]})"))
    # residual of the discretised Boltzmann-Poisson system
    # the finite-difference operator of *this* mesh, written out from the documented three-point stencil (not taken from the package, whose own
    # construction is under test): interior node r, left / right steps a, b
    l = np.zeros(r.size); d = np.zeros(r.size); u = np.zeros(r.size)
    a_ = r[1:-1] - r[:-2]; b_ = r[2:] - r[1:-1]; rr_ = r[1:-1]
    w1 = 2 / (b_ * a_ * (b_ + a_)); w2 = 1 / (rr_ * (b_ ** 2 * a_ + b_ * a_ ** 2))
    l[1:-1] = b_ * w1 - b_ ** 2 * w2; d[1:-1] = -(a_ + b_) * w1 + (b_ ** 2 - a_ ** 2) * w2; u[1:-1] = a_ * w1 + a_ ** 2 * w2
    d[0] = -2 / (r[1] - r[0]) ** 2; u[0] = 2 / (r[1] - r[0]) ** 2; d[-1] = 1.0
    n_ax = np.asarray(nax).reshape(-1, 1)
    bx = -(n_ax * q.reshape(-1, 1) * sh * Q_E / EPS_0); bx[:, -1] = 0
    b = bx.sum(axis=0) + (-cden / np.sqrt(2 * Q_E * (e_kin + phi) / M_E) / EPS_0 if variant == "ebeam" else ref)
    A = d * phi; A[:-1] += u[:-1] * phi[1:]; A[1:] += l[1:] * phi[:-1]
    res = np.abs(A - b)[:-1]
    scale = np.abs(d * phi)[:-1] + np.abs(b)[:-1]
    # the returned shapes belong to the iterate before the last update: defect <= O(tol)
    if (res > 50 * max(tol, 1e-9) * scale + 1e-6 * scale.max()).any() and tol <= 1e-6:
        i = int(np.argmax(res / scale)); out.append(("self_consistent", f"discrete Poisson residual {res[i]:.3e} at node {i} (scale {scale[i]:.3e}) for tolerance {tol}"))
    return out


def search(ctx):
    import ebisim.simulation._radial_dist as rd
    from ebisim.physconst import Q_E, M_E, PI, EPS_0
    rng = np.random.default_rng([ctx.seed, 1313])
    V = []
    def add(clause, what, inp):
        V.append({"key": {"clause": clause, "variant": inp.get("variant")}, "what": what, "input": inp})
    col = lambda v: np.asarray(v, float)[:, None]
    cases = []
    for f in ctx.failures:
        inp = f.get("input") or {}
        if inp.get("op") == "cv":
            rr_, pp_ = np.asarray(inp["r"], float), np.asarray(inp["phi"], float)
            cvv = float(rd.heat_capacity(rr_, pp_, float(inp["q"]), float(inp["kT"])))
            if (not np.isfinite(cvv) and np.all(pp_ >= pp_[0])) or cvv < 1.5 - 1e-9:
                add("heat_capacity_min", f"heat_capacity(q={inp['q']}, kT={inp['kT']}) = {cvv!r} (must be finite and >= 3/2)", {"variant": "cv", "r": rr_, "phi": pp_, "hq": inp["q"], "hkT": inp["kT"]})
        if "cur" in inp:
            # (re-solved to a tight tolerance, so that the residual statement is sharp on the mesh / species of the disagreement)
            cases.append((float(inp["cur"]), float(inp["e_kin"]), float(inp["r_e"]), np.asarray(inp["r"], float), np.asarray(inp["nl"], float), np.asarray(inp["kT"], float), np.asarray(inp["q"], float), min(float(inp.get("rel_diff", 1e-6)), 1e-10)))
    for _ in range(24 if (ctx.thorough or ctx.failures) else 5):
        cur, e, r_e, r_d = beam(rng)
        r = grid(rng, r_e, r_d, int(rng.choice([60, 120, 240])))
        nl, kT, q = species(rng, cur, e)
        cases.append((cur, e, r_e, r, nl, kT, q, float(rng.choice([1e-6, 1e-10, 1e-12]))))
    for cur, e, r_e, r, nl, kT, q, rel in cases:
        desc = {"variant": "ebeam", "cur": cur, "e_kin": e, "r_e": r_e, "r": r, "nl": nl, "kT": kT, "q": q, "rel_diff": rel}
        cden = np.where(r <= r_e, -cur / PI / r_e ** 2, 0.0)
        phi, nax, sh = rd.boltzmann_radial_potential_linear_density_ebeam(r, cur, r_e, e, col(nl), col(kT), col(q), rel_diff=rel)
        for clause, what in check_triple(rd, r, phi, nax, sh, nl, kT, q, cden, e, "ebeam", rel, None):
            add(clause, "e-beam solver: " + what, desc)
        # ion-free = pure beam; adding ions never lowers the potential
        free, _, __ = rd.boltzmann_radial_potential_linear_density_ebeam(r, cur, r_e, e, 0, 1, 1, rel_diff=rel)
        zero, _, __ = rd.boltzmann_radial_potential_linear_density_ebeam(r, cur, r_e, e, col(0 * nl), col(kT), col(q), rel_diff=rel)
        if np.abs(zero - free).max() > 1e-9 * np.abs(free).max():
            add("ion_free", "e-beam solver with zero line densities differs from the pure beam potential", desc)
        if np.any((q > 0) & (nl > 0)) and (phi < free - 1e-6 * np.abs(free).max() - 10 * rel * np.abs(free).max()).any():
            add("ions_raise_potential", f"adding positive ions lowers the potential by {np.max(free - phi):.3e}", desc)
        # the two-call sequence of a caller that keeps its ion-free result and hands it in as first guess (as
        # AdvancedResult.radial_distribution_at_time does): afterwards the kept array must still be the pure beam potential
        kept = free.copy()
        rd.boltzmann_radial_potential_linear_density_ebeam(r, cur, r_e, e, col(nl), col(kT), col(q), first_guess=kept, rel_diff=rel)
        if not np.array_equal(kept, free):
            add("ion_free", f"the ion-free potential handed in as first_guess was overwritten by the solver (changed by up to {np.abs(kept - free).max():.3e} V): "
                "the caller's ion-free result no longer equals the pure beam potential", dict(desc, variant="ebeam_first_guess_kept"))
        rho0 = np.where(r <= r_e, -cur / (np.sqrt(2 * Q_E * e / M_E) * PI * r_e ** 2), 0.0)
        rho0 = rho0 + rho0[0] * 1e-5 * (1 + 0.3 * np.cos(np.arange(r.size)))     # a faint halo that reaches the wall node
        rho_ = rho0.copy(); rho_[-1] = 0
        for variant, f in (("linear", rd.boltzmann_radial_potential_linear_density), ("onaxis", rd.boltzmann_radial_potential_onaxis_density)):
            dens = nl if variant == "linear" else nl / (PI * r_e ** 2) * 0.3
            p2, n2, s2 = f(r, rho0, col(dens), col(kT), col(q))
            if not (np.all(np.isfinite(p2)) and np.all(np.isfinite(np.asarray(s2)))):
                continue     # iteration did not converge: outside the property's quantifier
            for clause, what in check_triple(rd, r, p2, n2 if variant == "linear" else dens, s2, dens, kT, q, None, e, variant, 1e-3, -rho_ / EPS_0):
                if clause != "self_consistent":
                    add(clause, f"{variant} solver: " + what, dict(desc, variant=variant))
        # heat capacity
        for qq, kk in ((0.0, 10.0), (float(max(q.max(), 1)), float(kT.max())), (3.0, 0.5), (30.0, 4.0), (20.0, 50.0)):
            cv = float(rd.heat_capacity(r, phi, qq, kk))
            if not np.isfinite(cv):
                # exp(-q (phi - phi[0]) / kT) <= 1 whenever phi >= phi[0]: nothing may overflow then
                if np.all(phi >= phi[0]):
                    add("heat_capacity_finite", f"heat_capacity(q={qq}, kT={kk}) = {cv!r} on a potential with its minimum on the axis", dict(desc, hq=qq, hkT=kk))
                continue
            if cv < 1.5 - 1e-9 or (qq == 0 and cv != 1.5):
                add("heat_capacity_min", f"heat_capacity(q={qq}, kT={kk}) = {cv!r}", dict(desc, hq=qq, hkT=kk))
        if float(rd.heat_capacity(r, np.full(r.size, -3.0), 5.0, 7.0)) != 1.5:
            add("heat_capacity_flat", "heat capacity of a flat potential is not 3/2", desc)
        ctx.count("search_cases")
        if len(V) > 10:
            break
    # wide harmonic well -> 5/2
    rr = np.linspace(0, 1.0, 4000); cv = float(rd.heat_capacity(rr, 50.0 * rr ** 2, 1.0, 0.2))
    if abs(cv - 2.5) > 1e-3:
        add("heat_capacity_harmonic", f"heat capacity in a wide harmonic well is {cv!r}, expected 5/2", {"variant": "cv"})
    return V


def replay(ctx, data):
    v = data.get("violation", {})
    inp = v.get("input", {})
    if "cur" not in inp:
        return None
    class C: pass
    c = C(); c.seed = ctx.seed; c.thorough = False; c.failures = [{"input": inp}]; c.count = lambda *a, **k: None
    r = [x for x in search(c) if x["key"]["clause"] == v["key"]["clause"]]
    return r[0] if r else None
