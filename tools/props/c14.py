"""C14 — Device: grid, beam potential, trap parameters."""
import numpy as np
import common
from leanio import farr, bits, dec, ulp_diff

LEVEL = "proof"
LEMMA_MODULES = ["Tdma", "Fd", "Newton", "Consts", "MaxPrinciple", "Comparison"]
RULE = ("Device.get(**kw) field by field vs Dev.get: grid (1e-13), beam-edge index (exact), FD vectors bit-exact from the returned grid, scalars 1e-10, "
        "potentials 1e-9; current 0.01..1 A, 1..20 keV, r_e 20..500 um, tube 6..200 beam radii, barrier 0..1000 V, n_grid 60..2000 incl. values not "
        "divisible by 6, every subset of the four overrides, below the perveance limit. non-trivial = every case; distinct = argument tuple")
MONITORED = ["rad_phi_uncomp non-decreasing in r", "rad_phi_uncomp between the analytic uniform-beam potentials for v(E) and v(E+phi0) (1 % slack)",
             "grid strictly increasing from 0 to r_dt in binary64", "wall potential exactly 0"]
OUTSIDE = ["the two analytic bounds and outward monotonicity are properties of the converged non-linear solution"]
ASSUMPTIONS = ["numpy linspace / geomspace are reproduced to 1e-13"]


def draw(rng, k):
    cur = float(10 ** rng.uniform(-2, 0)); e = float(10 ** rng.uniform(3, np.log10(2e4)))
    while cur / e ** 1.5 > 2e-6:
        cur *= 0.5
    r_e = float(10 ** rng.uniform(np.log10(2e-5), np.log10(5e-4)))
    r_dt = float(r_e * 10 ** rng.uniform(np.log10(6), np.log10(200)))
    # barrier 0..1000 V, the unbiased barrier (exactly 0 V) included
    kw = dict(current=cur, e_kin=e, r_e=r_e, v_ax=(0.0 if k % 5 == 3 else float(rng.uniform(0, 1000))), b_ax=float(rng.uniform(0.5, 6)), r_dt=r_dt,
              n_grid=int(rng.choice([60, 61, 65, 100, 400, 997, 2000]) if k % 3 else rng.integers(60, 700)))
    mask = k % 16
    if mask & 1: kw["j"] = float(10 ** rng.uniform(0, 3))
    if mask & 2: kw["fwhm"] = float(10 ** rng.uniform(0, 2))
    if mask & 4: kw["v_ra"] = float(10 ** rng.uniform(0, 3))
    if mask & 8: kw["r_dt_bar"] = float(r_dt * rng.uniform(0.5, 2))
    return kw


def ask(D, kw):
    o = lambda k: (f"1 {bits(kw[k])}" if k in kw else "0")
    t = D.ask(f"devget {bits(kw['current'])} {bits(kw['e_kin'])} {bits(kw['r_e'])} {bits(kw['v_ax'])} {bits(kw['b_ax'])} {bits(kw['r_dt'])} {kw['n_grid']} "
              + " ".join(o(k) for k in ("v_ra", "j", "fwhm", "r_dt_bar")))
    idx, ng = int(t[0]), int(t[1])
    sc = dec(t[2:7]); rest = dec(t[7:])
    return dict(idx=idx, ng=ng, j=sc[0], fwhm=sc[1], v_ra=sc[2], v_ax_sc=sc[3], r_dt_bar=sc[4], grid=rest[:ng], phi=rest[ng:2 * ng],
                phib=rest[2 * ng:2 * ng + (rest.size - 5 * ng)], ldu=rest[-3 * ng:])


def run(ctx):
    from ebisim.simulation import Device
    import ebisim.simulation._radial_dist as rd
    D = ctx.driver
    rng = ctx.rng
    n = 48 if ctx.thorough else 16
    for k in range(n):
        kw = draw(rng, k)
        if not ctx.thorough and kw["n_grid"] > 700:
            kw["n_grid"] = 400
        d = Device.get(**kw)
        m = ask(D, kw)
        ctx.evaluations += 1
        ctx.seen(tuple(sorted(kw.items())))
        prob = []
        if m["ng"] != d.rad_grid.size or not np.allclose(m["grid"], d.rad_grid, rtol=1e-13, atol=0):
            prob.append("rad_grid")
        elif m["idx"] != d.rad_re_idx:
            prob.append(f"rad_re_idx {d.rad_re_idx} vs {m['idx']}")
        for nm in ("j", "fwhm", "v_ra", "v_ax_sc", "r_dt_bar"):
            a, b = getattr(d, nm), m[nm]
            if not abs(a - b) <= 1e-10 * abs(a):
                prob.append(f"{nm}: {a!r} vs model {b!r}")
        if not prob:
            sc = np.abs(d.rad_phi_uncomp).max()
            if np.abs(m["phi"] - d.rad_phi_uncomp).max() > 1e-9 * sc: prob.append("rad_phi_uncomp")
            if m["phib"].size != d.rad_phi_ax_barr.size or np.abs(m["phib"] - d.rad_phi_ax_barr).max() > 1e-9 * max(sc, abs(kw["v_ax"])): prob.append("rad_phi_ax_barr")
        # FD vectors belong to the returned grid (bit-exact recomputation by the implementation's own kernel)
        l, dd, u = rd.fd_system_nonuniform_grid(d.rad_grid)
        if not (np.array_equal(l, d.rad_fd_l) and np.array_equal(dd, d.rad_fd_d) and np.array_equal(u, d.rad_fd_u)):
            prob.append("rad_fd_* are not the FD system of rad_grid")
        for nm in ("current", "e_kin", "r_e", "v_ax", "b_ax", "r_dt"):
            if getattr(d, nm) != kw[nm]: prob.append(f"{nm} not stored verbatim")
        for nm in ("j", "fwhm", "v_ra", "r_dt_bar"):
            if nm in kw and getattr(d, nm) != kw[nm]: prob.append(f"override {nm} not stored verbatim")
        if prob:
            ctx.fail("correspondence", f"Device.get({kw}) differs from Dev.get: {prob}", inp={"kw": kw})
        if k < 2:
            ctx.sample({"kw": kw, "rad_re_idx": int(d.rad_re_idx), "j": d.j, "fwhm": d.fwhm, "v_ra": d.v_ra, "v_ax_sc": d.v_ax_sc})
    grid_sweep(ctx, 3000 if ctx.thorough else 400)
    device_survives_use(ctx)


def grid_sweep(ctx, n):
    """exact grid statements of `grid_spec` / `beam_edge_index` and the model grid in ulps, on many (r_e, r_dt, n_grid):
    the beam-edge node must be *exactly* r_e (the solvers select the beam with `r <= r_e`), which a correspondence at 1e-13 cannot see"""
    from ebisim.simulation import Device
    D = ctx.driver
    rng = np.random.default_rng([ctx.seed, 14014])
    round_re = [2e-5, 5e-5, 9e-5, 1e-4, 1.5e-4, 2e-4, 3.3e-4, 5e-4]
    for k in range(n):
        kw = draw(rng, 0)
        if k % 4 == 0: kw["r_e"] = float(rng.choice(round_re)); kw["r_dt"] = float(kw["r_e"] * rng.choice([6, 10, 50, 100, 200]))
        if k % 5 == 0: kw["n_grid"] = int(rng.choice([60, 100, 200, 400, 1000, 2000]))
        else: kw["n_grid"] = int(rng.integers(60, 2001))
        d = Device.get(**kw)
        g = d.rad_grid; kk = kw["n_grid"] // 6
        ctx.evaluations += 1; ctx.count("grid_sweep")
        ctx.seen(("grid", kw["r_e"], kw["r_dt"], kw["n_grid"]))
        prob = []
        if g.size != 6 * kk: prob.append(f"{g.size} nodes, expected 6*(n_grid//6) = {6 * kk}")
        if g[0] != 0 or g[-1] != kw["r_dt"]: prob.append(f"ends {g[0]!r}, {g[-1]!r} are not 0, r_dt")
        if np.any(np.diff(g) <= 0): prob.append("not strictly increasing")
        if d.rad_re_idx != kk or g[min(d.rad_re_idx, g.size - 1)] != kw["r_e"]:
            prob.append(f"rad_re_idx={d.rad_re_idx} (expected {kk}) points to {g[min(d.rad_re_idx, g.size - 1)]!r}, r_e = {kw['r_e']!r}")
        if int(np.count_nonzero(g <= kw["r_e"])) != kk + 1: prob.append("number of nodes inside the beam is not rad_re_idx + 1")
        if not prob and k % 8 == 0:
            t = D.ask(f"devgrid {bits(kw['r_e'])} {bits(kw['r_dt'])} {kw['n_grid']}")
            mg = dec(t[1:])
            if int(t[0]) != d.rad_re_idx or mg.size != g.size: prob.append("model grid size / index")
            else:
                # uniform sections: same operations as numpy (i*step + start) -> a few ulp; geometric section through log10/pow
                if ulp_diff(mg[:2 * kk], g[:2 * kk]).max() > 4: prob.append("uniform grid sections differ from the model by more than 4 ulp")
                if not np.allclose(mg, g, rtol=1e-13, atol=0): prob.append("grid differs from the model by more than 1e-13")
        if prob:
            ctx.fail("correspondence", f"Device.get grid for r_e={kw['r_e']!r}, r_dt={kw['r_dt']!r}, n_grid={kw['n_grid']}: {prob}", inp={"kw": kw})
            if len(ctx.failures) > 8: break


def device_survives_use(ctx):
    """a Device is a value: after it has been used — a simulation, then the radial distribution queried from the result, which hands
    `device.rad_phi_uncomp` to the solver as first guess — all its derived quantities are still those of `Device.get` with the same arguments"""
    import ebisim, logging
    from ebisim.simulation import Device, advanced_simulation
    logging.getLogger("ebisim").setLevel(logging.ERROR)
    rng = np.random.default_rng([ctx.seed, 14140])
    kw = draw(rng, 0); kw["n_grid"] = 120
    d = Device.get(**kw)
    before = {f: (np.array(getattr(d, f), copy=True) if isinstance(getattr(d, f), np.ndarray) else getattr(d, f)) for f in d._fields}
    try:
        edge = abs(d.rad_phi_uncomp[d.rad_re_idx] - d.rad_phi_uncomp[0])
        res = advanced_simulation(d, ebisim.Element.get_ions(6, 1e7, float(edge / 10), 2), t_max=1e-5, verbose=False)
        res.radial_distribution_at_time(float(res.t[res.t.size // 2]))
        res.radial_distribution_at_time(float(res.t[-1]))
    except Exception as ex:
        ctx.count("device_use_raised_" + type(ex).__name__)
    ctx.evaluations += 1; ctx.count("device_use_sequences")
    fresh = Device.get(**kw)
    changed = [f for f in d._fields if not (np.array_equal(getattr(d, f), before[f]) if isinstance(before[f], np.ndarray) else getattr(d, f) == before[f] or (before[f] != before[f]))]
    differs = [f for f in d._fields if isinstance(before[f], np.ndarray) and not np.array_equal(getattr(d, f), getattr(fresh, f))]
    if changed or differs:
        ctx.fail("correspondence", f"after a simulation and a radial-distribution query the Device's fields {sorted(set(changed + differs))} are no longer those Device.get derived", inp={"kw": kw, "sequence": "use"})


def stmt(kw, sequence=None):
    from ebisim.simulation import Device
    import ebisim.simulation._radial_dist as rd
    from ebisim.plasma import electron_velocity
    from ebisim.physconst import PI, EPS_0
    d = Device.get(**kw)
    if sequence == "use":
        import ebisim, logging
        from ebisim.simulation import advanced_simulation
        logging.getLogger("ebisim").setLevel(logging.ERROR)
        try:
            edge = abs(d.rad_phi_uncomp[d.rad_re_idx] - d.rad_phi_uncomp[0])
            res = advanced_simulation(d, ebisim.Element.get_ions(6, 1e7, float(edge / 10), 2), t_max=1e-5, verbose=False)
            res.radial_distribution_at_time(float(res.t[res.t.size // 2])); res.radial_distribution_at_time(float(res.t[-1]))
        except Exception:
            pass
    out = []
    def add(clause, what):
        out.append({"key": {"clause": clause}, "what": what + (" (after the device was used for a simulation and a radial-distribution query)" if sequence else ""),
                    "input": {"kw": kw, "sequence": sequence}})
    g = d.rad_grid
    if g[0] != 0 or g[-1] != kw["r_dt"] or np.any(np.diff(g) <= 0):
        add("grid", f"radial grid is not strictly increasing from 0 to r_dt (first {g[0]!r}, last {g[-1]!r}, min step {np.diff(g).min()!r})")
    if not (0 <= d.rad_re_idx < g.size and g[d.rad_re_idx] == kw["r_e"]):
        add("beam_edge", f"rad_re_idx={d.rad_re_idx} does not point to a node equal to r_e (node {g[min(d.rad_re_idx, g.size-1)]!r}, r_e {kw['r_e']!r})")
    l, dd, u = rd.fd_system_nonuniform_grid(g)
    if not (np.array_equal(l, d.rad_fd_l) and np.array_equal(dd, d.rad_fd_d) and np.array_equal(u, d.rad_fd_u)):
        add("fd_belongs", "finite-difference vectors do not belong to the stored grid")
    phi = d.rad_phi_uncomp
    if phi[-1] != 0:
        add("wall_zero", f"beam potential at the wall is {phi[-1]!r}")
    if np.any(np.diff(phi) < -1e-9 * np.abs(phi).max()):
        add("monotone", "beam potential decreases outward")
    # analytic uniform-beam potential for velocity v: phi(r) = -I/(4 pi eps0 v) (2 ln(r_d/r_e) + 1 - (r/r_e)^2) inside, -I/(2 pi eps0 v) ln(r_d/r) outside
    def ana(v):
        c = kw["current"] / (4 * PI * EPS_0 * v)
        return np.where(g <= kw["r_e"], -c * (2 * np.log(kw["r_dt"] / kw["r_e"]) + 1 - (g / kw["r_e"]) ** 2), -2 * c * np.log(kw["r_dt"] / np.maximum(g, 1e-300)))
    # the Boltzmann-Poisson solver models the beam with the non-relativistic velocity sqrt(2 e E / m_e) (its documented charge
    # density -j / v); the analytic bounds are taken with that same velocity model (the relativistic one differs by 2.5 % at 17 keV)
    from ebisim.physconst import Q_E, M_E
    vnr = lambda E_: np.sqrt(2 * Q_E * E_ / M_E)
    lo_, hi_ = ana(vnr(kw["e_kin"] + phi.min())), ana(vnr(kw["e_kin"]))
    # discretisation allowance: the edge node r_e carries the full beam density, i.e. the discrete beam is wider by half a cell,
    # a first-order (1/k, k = n_grid//6 nodes inside the beam) excess of charge; observed 6.8 % at n_grid = 65, < 1 % at 400
    kk = max(kw["n_grid"] // 6, 1)
    slack = max(0.01, 1.5 / kk) * np.abs(phi).max()
    if np.any(phi < lo_ - slack) or np.any(phi > hi_ + slack):
        add("analytic_bounds", "beam potential is not between the analytic uniform-beam potentials for the nominal and the space-charge-reduced velocity")
    if "v_ra" not in kw and d.v_ra != -phi.min():
        add("v_ra_default", f"radial trap depth {d.v_ra!r} is not minus the minimum of the beam potential {-phi.min()!r}")
    if "j" not in kw and abs(d.j - kw["current"] / (PI * kw["r_e"] ** 2) * 1e-4) > 1e-12 * d.j:
        add("j_default", f"current density {d.j!r} is not I/(pi r_e^2) in A/cm^2")
    if "fwhm" not in kw:
        ref = 0.5 * kw["current"] / (4 * PI * EPS_0 * electron_velocity(kw["e_kin"] + phi.min()))
        if abs(d.fwhm - ref) > 1e-10 * ref:
            add("fwhm_default", f"default energy spread {d.fwhm!r} is not half the characteristic beam potential {ref!r}")
    for nm in ("j", "fwhm", "v_ra", "r_dt_bar"):
        if nm in kw and getattr(d, nm) != kw[nm]:
            add("override_" + nm, f"explicit {nm}={kw[nm]!r} is stored as {getattr(d, nm)!r}")
    # barrier correction: on-axis potential of the same beam at the energy raised by the barrier voltage
    gb = g if "r_dt_bar" not in kw else Device.get(**dict({k: v for k, v in kw.items() if k not in ("r_dt_bar",)}, r_dt=kw["r_dt_bar"])).rad_grid
    pb, _, __ = rd.boltzmann_radial_potential_linear_density_ebeam(gb, kw["current"], kw["r_e"], kw["e_kin"] + kw["v_ax"], 0, 1, 1)
    if abs(d.v_ax_sc - pb[0]) > 1e-8 * abs(pb[0]):
        add("barrier_correction", f"v_ax_sc {d.v_ax_sc!r} is not the on-axis potential {pb[0]!r} of the beam at E + V_ax")
    if d.rad_phi_ax_barr.shape != pb.shape or np.abs(d.rad_phi_ax_barr - (pb + kw["v_ax"])).max() > 1e-8 * max(np.abs(pb).max(), kw["v_ax"]):
        add("barrier_potential", "rad_phi_ax_barr is not the barrier beam potential shifted by V_ax")
    return out


def search(ctx):
    rng = np.random.default_rng([ctx.seed, 1414])
    V = []
    for f in ctx.failures:
        kw = (f.get("input") or {}).get("kw")
        if kw: V += stmt(dict(kw), (f.get("input") or {}).get("sequence"))
    for k in range(32 if (ctx.thorough or ctx.failures) else 6):
        kw = draw(rng, k)
        if kw["n_grid"] > 700 and not ctx.thorough: kw["n_grid"] = 400
        V += stmt(kw); ctx.count("search_cases")
        if len(V) > 10: break
    return V


def replay(ctx, data):
    v = data.get("violation", {})
    kw = v.get("input", {}).get("kw")
    if not kw: return None
    r = [x for x in stmt(dict(kw), v.get("input", {}).get("sequence")) if x["key"] == v["key"]]
    return r[0] if r else None
