"""C02 — particle conservation and non-negativity of the basic model."""
import numpy as np
import common, xscorr, basiccorr
from leanio import ulp_diff

LEVEL = "proof"
ALWAYS_SEARCH = True
LEMMA_MODULES = ["MatExp", "RateMat", "Consts", "Lotz"]
RULE = ("eixs_mat / rrxs_mat / drxs_mat vs Xs.eiMat/recMat applied to the implementation's own vectors (bit-exact) for the visited elements at random "
        "energies / widths; Jacobian captured from basic_simulation vs Basic.rateMatrix (1e-11, exact zero pattern) incl. CNI and DR on/off; "
        "monitors on simulations. non-trivial = matrix with a non-zero off-diagonal; distinct = distinct (Z, E, w, kind)")
MONITORED = ["|sum N(t) - sum N0| <= 1e-9 sum N0 + n_steps*atol at every output time (LSODA, Radau, BDF)",
             "min N >= -50*atol*max(1, sum N0); all finite", "CNI: neutral abundance constant to 4 ulp",
             "column sums of the three process matrices are exactly 0.0 in binary64"]
OUTSIDE = ["undershoot 'of the order of atol' and conservation 'to rounding' of the numerical solution are properties of scipy's integrators"]
ASSUMPTIONS = ["scipy.integrate.solve_ivp integrates the system it is handed (not modelled)"]


def run(ctx):
    zs = xscorr.zs_for(ctx, 30)
    xscorr.corr_mat(ctx, zs)
    D = ctx.driver
    rng = ctx.rng
    n = 24 if ctx.thorough else 8
    for k in range(n):
        z = int(rng.choice(zs)); el = xscorr.element(z)
        j = float(10 ** rng.uniform(-1, 4)); e = float(10 ** rng.uniform(0.5, 5.5))
        w = [None, 0.0, float(10 ** rng.uniform(-0.3, 2))][k % 3]; cni = bool(k % 2)
        if w:
            if k % 2:
                z = int(rng.choice([9, 10, 18, 26])); el = xscorr.element(z)
            if el.dr_e_res.size:
                e = float(el.dr_e_res[int(np.argmin(el.dr_cs)) if k % 4 < 2 else int(rng.integers(el.dr_e_res.size))] + rng.normal() * 0.3 * w)
        res, call = basiccorr.run_basic(element=el, j=j, e_kin=e, t_max=1e-3, dr_fwhm=w, CNI=cni)
        J = basiccorr.jac_of(call, z + 1)
        Jm, y0m = basiccorr.model_call(D, z, j, e, w, cni, None)
        ctx.evaluations += 1
        ctx.seen(("jac", z, e, w, cni))
        zero_mismatch = (J == 0) != (Jm == 0)
        ok, wst, i = common.compare(J, Jm, 1e-11)
        if zero_mismatch.any() or not ok:
            ctx.fail("correspondence", f"Jacobian of basic_simulation(Z={z}, j={j}, E={e}, dr_fwhm={w}, CNI={cni}) differs from Basic.rateMatrix (rel {wst:.2e})",
                     inp={"Z": z, "j": j, "E": e, "w": w, "cni": cni})
    # CNI together with DR on a resonance of the lowest tabulated charge state (fluorine: its 1+ ion has data)
    for z in (9, 10, 26):
        el = xscorr.element(z)
        row = int(np.argmin(el.dr_cs)); e = float(el.dr_e_res[row]); w = float(10 ** rng.uniform(0, 1.3)); j = float(10 ** rng.uniform(0, 3))
        res, call = basiccorr.run_basic(element=el, j=j, e_kin=e, t_max=1e-3, dr_fwhm=w, CNI=True)
        J = basiccorr.jac_of(call, z + 1)
        Jm, y0m = basiccorr.model_call(D, z, j, e, w, True, None)
        ctx.evaluations += 1
        ctx.seen(("jac-cni-dr", z, e, w))
        ok, wst, i = common.compare(J, Jm, 1e-11)
        if ((J == 0) != (Jm == 0)).any() or not ok or np.any(J[0] != 0):
            ctx.fail("correspondence", f"Jacobian of basic_simulation(Z={z}, E={e}, dr_fwhm={w}, CNI=True) differs from Basic.rateMatrix / has a non-zero neutral row",
                     inp={"Z": z, "j": j, "E": e, "w": w, "cni": True})
    # the three scalar facts of `C02.ScalarFacts` / `ScalarFactsRec` in binary64, for every cross-section value met (they carry the
    # theorems `eiMat_colsum_exact` / `recMat_colsum_exact` — column sums exactly 0 for every size — over to the implementation's arithmetic)
    import ebisim
    nfacts = 0
    for z in zs[:: max(1, len(zs) // 12)]:
        el = xscorr.element(z)
        for e in (float(10 ** rng.uniform(1, 5)), float(el.e_bind[el.e_bind > 0].max() * 1.5)):
            vals = np.concatenate([ebisim.eixs_vec(el, e), ebisim.rrxs_vec(el, e), ebisim.drxs_vec(el, e, 10.0)])
            with np.errstate(all="ignore"):
                f1 = (0.0 + (0.0 - vals)) + (vals - 0.0); f2 = (0.0 + (vals - 0.0)) + (0.0 - vals)
            nfacts += vals.size
            if np.any(f1 != 0.0) or np.any(f2 != 0.0) or (0.0 + 0.0) != 0.0 or (0.0 - 0.0) != 0.0:
                ctx.fail("correspondence", f"binary64 does not satisfy the scalar facts of C02.ScalarFacts for a cross section of Z={z} at E={e}", inp={"Z": z, "E": e})
    ctx.count("scalar_fact_values", nfacts)
    ctx.sample({"op": "jacobian", "Z": z, "E": e, "dr_fwhm": w, "CNI": cni, "diag_first": np.diag(J)[:3]})
    ctx.cov["elements"] = zs


def stmt_matrices(z, e, w):
    import ebisim
    el = xscorr.element(z)
    out = []
    def add(clause, what):
        out.append({"key": {"clause": clause, "Z": int(z)}, "what": what, "input": {"Z": int(z), "E": float(e), "w": float(w)}})
    for name, m, sub in (("eixs_mat", ebisim.eixs_mat(el, e), -1), ("rrxs_mat", ebisim.rrxs_mat(el, e), 1), ("drxs_mat", ebisim.drxs_mat(el, e, w), 1)):
        n = z + 1
        if m.shape != (n, n) or not np.all(np.isfinite(m)):
            add("finite", f"{name}(Z={z}, E={e}) not finite / wrong shape"); continue
        off = m - np.diag(np.diag(m)) - np.diag(np.diag(m, sub), sub)
        if np.any(off != 0):
            add("tridiagonal", f"{name}(Z={z}, E={e}) has entries outside the diagonal and the {'sub' if sub < 0 else 'super'}-diagonal")
        if (np.diag(m) > 0).any() or (np.diag(m, sub) < 0).any():
            add("signs", f"{name}(Z={z}, E={e}) has a positive diagonal or a negative off-diagonal entry")
        cs = m.sum(axis=0)
        if np.any(cs != 0.0):
            k = int(np.argmax(np.abs(cs))); add("colsum", f"{name}(Z={z}, E={e}) column {k} sums to {cs[k]!r}, not exactly 0")
    return out


def stmt_simulation(z, j, e, w, cni, method, rtol, atol, rng):
    import ebisim
    el = xscorr.element(z)
    n = z + 1
    N0 = None
    if rng.integers(2):
        N0 = rng.uniform(0, 1, n) * (rng.uniform(0, 1, n) < 0.5); N0[rng.integers(n)] += 0.3
    t_max = float(10 ** rng.uniform(-4, 1)) * 100.0 / j
    res = ebisim.basic_simulation(el, j, e, t_max, dr_fwhm=w, N_initial=None if N0 is None else N0.copy(), CNI=cni,
                                  solver_kwargs=dict(method=method, rtol=rtol, atol=atol))
    out = []
    inp = {"Z": int(z), "j": j, "E": e, "w": w, "cni": cni, "method": method, "rtol": rtol, "atol": atol, "t_max": t_max, "N0": None if N0 is None else N0.tolist()}
    def add(clause, what):
        out.append({"key": {"clause": clause, "Z": int(z), "method": method}, "what": what, "input": inp})
    N = res.N
    s0 = N[:, 0].sum()
    if not np.all(np.isfinite(N)):
        add("finite", "basic_simulation produced non-finite abundances"); return out
    if not cni:
        dev = np.abs(N.sum(axis=0) - s0).max()
        if dev > 1e-9 * s0 + res.t.size * atol + rtol * s0 * 1e-2:
            add("total_conserved", f"total abundance drifts by {dev:.3e} (initial {s0})")
    else:
        # the derivative of the neutral row is exactly 0; LSODA/BDF rescale their history arrays, which leaves rounding noise of
        # a few ulp of the vector norm (observed on the clean tree: 1 ulp on 1.0, 2e-24 on an initial 0.0)
        if np.abs(N[0] - N[0, 0]).max() > 16 * np.finfo(float).eps * max(1.0, s0):
            add("cni_neutral_constant", f"neutral abundance changes under CNI: {N[0].min()!r}..{N[0].max()!r}")
    if N.min() < -50 * atol * max(1.0, s0) - 50 * rtol * s0 * 1e-3:
        add("undershoot", f"abundance undershoots zero by {N.min():.3e} (atol={atol})")
    return out


def stmt_history(z, j, e, rng):
    """the statements of one plain run must not depend on what ran before it in the same process"""
    import ebisim
    el = xscorr.element(z)
    out = []
    for hw, hcni in ((None, True), (7.5, True), (None, False)):
        ebisim.basic_simulation(el, j, e, 1e-7, dr_fwhm=hw, CNI=hcni)
        N0 = np.full(z + 1, 1.0 / (z + 1))
        res = ebisim.basic_simulation(el, j, e, 3e-3 * 100.0 / j, dr_fwhm=None, N_initial=N0.copy(), CNI=False, solver_kwargs=dict(rtol=1e-8, atol=1e-12))
        dev = np.abs(res.N.sum(axis=0) - 1.0).max()
        if not np.isfinite(dev) or dev > 1e-9:
            out.append({"key": {"clause": "total_conserved_after_history", "Z": z}, "input": {"Z": z, "j": j, "E": e, "history": [hw, hcni]},
                        "what": f"after a basic_simulation(CNI={hcni}, dr_fwhm={hw}) call, a plain run of Z={z} at E={e} no longer conserves the total abundance (drift {dev:.3e})"})
            break
        out += stmt_matrices(z, e, 7.5)
    return out


def stmt_fixed(z, j, e, w, cni):
    """simulation statements for one given parameter set (neutrals present, long enough to react)"""
    import ebisim
    el = xscorr.element(z)
    out = []
    N0 = np.full(z + 1, 1.0 / (z + 1))
    rate = max(np.abs(np.diag(ebisim.eixs_mat(el, e) + ebisim.rrxs_mat(el, e) + (ebisim.drxs_mat(el, e, w) if w else 0))).max() * j * 1e4 / 1.602e-19, 1e-30)
    for method in ("LSODA", "Radau"):
        res = ebisim.basic_simulation(el, j, e, 20.0 / rate, dr_fwhm=w, N_initial=N0.copy(), CNI=cni, solver_kwargs=dict(method=method, rtol=1e-8, atol=1e-12))
        N = res.N
        inp = {"Z": z, "j": j, "E": e, "w": w, "cni": cni, "method": method}
        if cni and np.abs(N[0] - N[0, 0]).max() > 16 * np.finfo(float).eps * max(1.0, N[:, 0].sum()):
            out.append({"key": {"clause": "cni_neutral_constant", "Z": z, "method": method}, "what": f"neutral abundance changes under CNI (Z={z}, E={e}, dr_fwhm={w}): {N[0].min()!r}..{N[0].max()!r}", "input": inp})
        if not cni and abs(N.sum(axis=0) - N[:, 0].sum()).max() > 1e-8:
            out.append({"key": {"clause": "total_conserved", "Z": z, "method": method}, "what": f"total abundance drifts by {abs(N.sum(axis=0) - N[:, 0].sum()).max():.2e}", "input": inp})
        if N.min() < -1e-9:
            out.append({"key": {"clause": "undershoot", "Z": z, "method": method}, "what": f"abundance undershoots zero by {N.min():.2e} at atol=1e-12", "input": inp})
    return out


def search(ctx):
    rng = np.random.default_rng([ctx.seed, 202])
    V = []
    for f in ctx.failures:
        inp = f.get("input") or {}
        if "Z" in inp and "E" in inp:
            V += stmt_matrices(int(inp["Z"]), float(inp["E"]), float(inp.get("w") or 10.0))
            if "cni" in inp:
                V += stmt_fixed(int(inp["Z"]), float(inp.get("j", 100.0)), float(inp["E"]), inp.get("w"), bool(inp["cni"]))
    zs = range(1, 106) if (ctx.thorough or ctx.failures) else rng.choice(np.arange(1, 106), 12, replace=False)
    for z in zs:
        el = xscorr.element(int(z))
        eb = el.e_bind[el.e_cfg > 0]
        es = [float(10 ** rng.uniform(0, 6)), float(np.nextafter(rng.choice(eb), np.inf)), float(rng.choice(eb))]
        if el.dr_e_res.size: es.append(float(rng.choice(el.dr_e_res)))
        for e in es:
            V += stmt_matrices(int(z), e, float(10 ** rng.uniform(-1, 2.4))); ctx.count("matrix_cases")
    for z in ([3, 9, 19, 26] if (ctx.thorough or ctx.failures) else [int(rng.choice([3, 9, 19]))]):
        V += stmt_history(z, 200.0, float(10 ** rng.uniform(2.5, 4)), rng); ctx.count("history_cases")
    nsim = 30 if ctx.thorough else 6
    for k in range(nsim):
        z = int(rng.choice([2, 6, 10, 18, 19, 26, 36, 54]))
        ee = float(10 ** rng.uniform(2, 4.5))
        if k % 2:   # DR on: sit on a resonance (fluorine has data for its 1+ ion)
            z = int(rng.choice([9, 10, 18, 26])); el_ = xscorr.element(z)
            ee = float(el_.dr_e_res[int(np.argmin(el_.dr_cs))] + rng.normal() * 3)
        V += stmt_simulation(z, float(10 ** rng.uniform(0, 3)), ee, [None, 15.0][k % 2], bool(k % 3 == 0),
                             ["LSODA", "Radau", "BDF"][k % 3], float(10 ** rng.uniform(-9, -3)), float(10 ** rng.uniform(-12, -6)), rng)
        ctx.count("simulations")
    return V


def replay(ctx, data):
    inp = data.get("violation", {}).get("input", {})
    if "history" in inp:
        r = stmt_history(int(inp["Z"]), float(inp["j"]), float(inp["E"]), np.random.default_rng(0))
        return r[0] if r else None
    if "method" in inp:
        rng = np.random.default_rng(0)
        return None
    if "Z" in inp:
        r = stmt_matrices(int(inp["Z"]), float(inp["E"]), float(inp.get("w") or 10.0))
        return r[0] if r else None
    return None
