"""Numerical statements of C03 / C04 / C05 on the real kernel (search / monitors)."""
import numpy as np
import advcorr, gens


def rates_full(m, ex, nq):
    from ebisim.simulation._result import Rate
    g = lambda k: np.array(ex[k]) if k in ex else np.zeros(nq)
    return dict(ei=g(Rate.EI), rr=g(Rate.RR), dr=g(Rate.DR), cx=g(Rate.CX), ax=g(Rate.AX_CO), ra=g(Rate.RA_CO), fei=g(Rate.F_EI), ih=g(Rate.IONISATION_HEAT),
                sh=g(Rate.T_SPITZER_HEATING), ct=g(Rate.T_COLLISIONAL_THERMALISATION), w_ax=g(Rate.W_AX), w_ra=g(Rate.W_RA), ri=g(Rate.COLLISION_RATE_TOTAL))


def stmt_balance(m, y, desc):
    """C03 particle balance + C04 thermal-energy balance on one state of one model"""
    import ebisim.plasma as pl
    out = []
    nq = m.nq
    dy, ex = advcorr.impl_rhs(m, y)
    R = rates_full(m, ex, nq)
    dn, dkT = dy[:nq], dy[nq:]
    n_r = y[:nq]; T = np.maximum(y[nq:], 1e-3)
    def add(prop, clause, what):
        out.append({"prop": prop, "key": {"clause": clause}, "what": what, "input": dict(desc, y=y)})
    if not np.all(np.isfinite(dy)):
        add("C03", "finite", f"_adv_rhs returns non-finite derivatives ({np.count_nonzero(~np.isfinite(dy))} entries)")
        return out
    rec = R["rr"] + R["dr"] + R["cx"]
    for i in range(len(m.lb)):
        L, U = int(m.lb[i]), int(m.ub[i])
        if dn[L] != 0 or dkT[L] != 0:
            add("C03", "neutrals_frozen", f"neutral row {L} has dn={dn[L]!r}, dkT={dkT[L]!r}")
        if R["ax"][L] != 0 or R["ra"][L] != 0 or (R["ax"] < 0).any() or (R["ra"] < 0).any():
            add("C03", "escape_nonneg", f"escape rates negative or non-zero for the neutral row {L}")
        if R["ei"][U - 1] != 0 or rec[L] != 0:
            add("C03", "boundary_zero", f"block [{L},{U}): R_ei of the bare nucleus = {R['ei'][U-1]!r}, recombination rate of the neutral = {rec[L]!r} (would leak into the neighbouring species)")
        ion = slice(L + 1, U)
        lhs = dn[ion].sum()
        rhs = R["ei"][L] - rec[L + 1] - (R["ax"][ion] + R["ra"][ion]).sum()
        scale = np.abs(R["ei"][L:U]).sum() + np.abs(rec[L:U]).sum() + np.abs(R["ax"][ion]).sum() + np.abs(R["ra"][ion]).sum()
        if abs(lhs - rhs) > 1e-9 * scale + 1e-300:
            add("C03", "dn_balance", f"block [{L},{U}): sum of ion derivatives {lhs!r} != R_ei[neutral] - R_rec[1+] - escape = {rhs!r} (scale {scale:.3e})")
        # empty states can only gain
        emp = np.nonzero(n_r[L:U] < 1e-6)[0] + L
        if (dn[emp] < 0).any():
            k = int(emp[np.argmin(dn[emp])]); add("C03", "empty_gains", f"state {k} with density {n_r[k]!r} below the cut-off has dn = {dn[k]!r} < 0")
        # thermal energy balance
        opts = m.options
        ih = R["ih"]
        e_ax = pl.collisional_escape_rate(R["ri"], R["w_ax"]) if opts.ESCAPE_AXIAL else np.zeros(nq)
        e_ra = pl.collisional_escape_rate(R["ri"], R["w_ra"]) if opts.ESCAPE_RADIAL else np.zeros(nq)
        lhsE = (T[ion] * dn[ion] + n_r[ion] * dkT[ion]).sum()
        terms = [R["ei"][L] * (T[L] + ih[L]), -rec[L + 1] * T[L + 1], (R["ei"][L + 1:U - 1] * ih[L + 1:U - 1]).sum(), -(rec[L + 2:U] * ih[L + 2:U]).sum(),
                 (n_r[ion] * (R["sh"][ion] + R["ct"][ion])).sum(), -((R["ax"][ion] + R["ra"][ion]) * T[ion]).sum(),
                 -(n_r[ion] * 2 / 3 * (e_ax[ion] * R["w_ax"][ion] + e_ra[ion] * R["w_ra"][ion]) * T[ion]).sum()]
        rhsE = sum(terms)
        scaleE = (np.abs(R["ei"][L:U]) * (T[L:U] + np.abs(ih[L:U]))).sum() * 2 + (np.abs(rec[L:U]) * (T[L:U] + np.abs(ih[L:U]))).sum() * 2 \
            + (np.abs(n_r[ion] * R["sh"][ion]) + np.abs(n_r[ion] * R["ct"][ion])).sum() + np.abs(terms[5]) + np.abs(terms[6])
        if abs(lhsE - rhsE) > 1e-9 * scaleE + 1e-300:
            add("C04", "thermal_energy_balance", f"block [{L},{U}): d/dt sum(n kT) = {lhsE!r} but the documented terms give {rhsE!r} (scale {scaleE:.3e})")
    if (R["sh"] < 0).any():
        add("C04", "spitzer_nonneg", "Spitzer heating rate negative")
    if (R["fei"] < 0).any() or (R["fei"] > 1 + 1e-12).any():
        add("C05", "fei_range", f"overlap factors outside [0,1]: {R['fei'].min()!r} .. {R['fei'].max()!r}")
    return out


def stmt_rates(m, y, desc):
    """C05: every reported quantity vs the documented formula from device / target / gas definitions"""
    import ebisim.plasma as pl
    import ebisim.xs as X
    from ebisim.simulation._result import Rate
    from ebisim.physconst import Q_E, PI, M_P
    out = []
    nq = m.nq
    dy, ex = advcorr.impl_rhs(m, y)
    d, o = m.device, m.options
    def add(clause, what):
        out.append({"prop": "C05", "key": {"clause": clause}, "what": what, "input": dict(desc, y=y)})
    if o.RADIAL_DYNAMICS:
        return out      # phi is taken from the solver (C13), not re-derived here
    trap = np.trapezoid if hasattr(np, "trapezoid") else np.trapz
    n_r = y[:nq]; kT = np.maximum(y[nq:], 1e-3)
    N1, N2 = 1e-6, 1e-3
    n = n_r.copy(); n[n_r < N1] = 0
    band = (N1 < n_r) & (n_r < N2)
    t = (n_r[band] - N1) / (N2 - N1)
    n[band] = t * N2 + t * (1 - t) * ((1 - t) * (-(N2)) + t * (-(N2 - N1) + N2))
    phi = d.rad_phi_uncomp; r = d.rad_grid; ix = d.rad_re_idx
    q = m.q.astype(float); a = m.a.astype(float)
    sh = np.exp(-q[:, None] * (phi - phi.min()) / kT[:, None])
    i_re = trap(sh[:, :ix + 1] * r[:ix + 1], r[:ix + 1]); i_rd = trap(sh * r, r)
    fei = i_re / i_rd
    n3d = n / 2 / PI / i_rd * sh[:, 0]
    sc_mean = 2 * trap(r[:ix + 1] * phi[:ix + 1], r[:ix + 1]) / d.r_e ** 2
    e_kin = d.e_kin + sc_mean
    fwhm = d.fwhm if o.OVERRIDE_FWHM else 2.355 * np.sqrt(2 * trap(r[:ix + 1] * (phi[:ix + 1] - sc_mean) ** 2, r[:ix + 1]) / d.r_e ** 2)
    je = d.j / Q_E * 1e4
    vth = np.sqrt(8 * Q_E * kT / (PI * a * M_P))
    def cat(f):
        return np.concatenate([f(t_) for t_ in m.targets])
    if o.RECOMPUTE_CROSS_SECTIONS:
        eixs, rrxs, drxs = cat(lambda t_: X.eixs_vec(t_, e_kin)), cat(lambda t_: X.rrxs_vec(t_, e_kin)), cat(lambda t_: X.drxs_vec(t_, e_kin, fwhm))
    else:
        eixs, rrxs, drxs = cat(lambda t_: X.eixs_vec(t_, d.e_kin)), cat(lambda t_: X.rrxs_vec(t_, d.e_kin)), cat(lambda t_: X.drxs_vec(t_, d.e_kin, d.fwhm))
    def chk(key, name, spec, scale=None):
        if key not in ex:
            add("missing_" + name, f"rate {name} is not reported although its effect is enabled"); return
        v = np.array(ex[key])
        sc = np.maximum(np.abs(spec), np.abs(v)) + (0 if scale is None else scale)
        bad = np.abs(v - spec) > 1e-9 * sc + 1e-300
        if bad.any():
            i = int(np.argmax(np.abs(v - spec) / (sc + 1e-300))); add(name, f"reported {name}[{i}] = {v[i]!r} but the documented formula gives {np.atleast_1d(spec)[i]!r}")
    chk(Rate.F_EI, "F_EI", fei)
    chk(Rate.E_KIN_MEAN, "E_KIN_MEAN", np.array([e_kin])); chk(Rate.E_KIN_FWHM, "E_KIN_FWHM", np.array([fwhm]))
    chk(Rate.V_RA, "V_RA", np.array([-phi.min()])); chk(Rate.V_AX, "V_AX", np.array([d.v_ax + d.v_ax_sc - phi.min()]))
    # … where the barrier's space-charge correction is itself re-derived from the device definition: on-axis potential of the same beam
    # at E + V_ax in the barrier tube (radius r_dt_bar when given, else the trap's), by the package's own e-beam solver on that tube's mesh
    dk = (desc or {}).get("device")
    if dk:
        import ebisim.simulation._radial_dist as rd
        from ebisim.simulation import Device
        gb = d.rad_grid if "r_dt_bar" not in dk else Device.get(**dict({k_: v_ for k_, v_ in dk.items() if k_ != "r_dt_bar"}, r_dt=dk["r_dt_bar"])).rad_grid
        pb = rd.boltzmann_radial_potential_linear_density_ebeam(np.ascontiguousarray(gb), d.current, d.r_e, d.e_kin + d.v_ax, 0, 1, 1)[0]
        if abs(d.v_ax_sc - pb[0]) > 1e-8 * abs(pb[0]):
            add("V_AX", f"axial trap depth uses a barrier space-charge correction of {d.v_ax_sc!r} V, the beam at E + V_ax in the barrier tube gives {pb[0]!r} V")
    if o.EI: chk(Rate.EI, "EI", eixs * n * je * fei)
    if o.RR: chk(Rate.RR, "RR", rrxs * n * je * fei)
    if o.DR: chk(Rate.DR, "DR", drxs * n * je * fei)
    if o.CX:
        R = np.zeros(nq)
        for g in m.bg_gases:
            R += X.cxxs(q, g.ip) * g.n0 * n * vth
        for j, tj in enumerate(m.targets):
            if tj.cx:
                R += X.cxxs(q, tj.ip) * n3d[m.lb[j]] * n * vth
        chk(Rate.CX, "CX", R)
    if o.IONISATION_HEATING:
        chk(Rate.IONISATION_HEAT, "IONISATION_HEAT", 2 / 3 * trap(sh[:, :ix + 1] * r[:ix + 1] * (phi[:ix + 1] - phi.min()), r[:ix + 1]) / i_re)
    rij = pl.ion_coll_rate(n3d[:, None], n3d, kT[:, None], kT, a[:, None], a, q[:, None], q)
    ri = rij.sum(axis=1)
    chk(Rate.COLLISION_RATE_TOTAL, "COLLISION_RATE_TOTAL", ri); chk(Rate.COLLISION_RATE_SELF, "COLLISION_RATE_SELF", np.diag(rij))
    if o.SPITZER_HEATING:
        chk(Rate.T_SPITZER_HEATING, "T_SPITZER_HEATING", pl.spitzer_heating(n3d, je / pl.electron_velocity(e_kin), kT, e_kin, a, q) * fei)
    if o.COLLISIONAL_THERMALISATION:
        ion_rad = trap(sh * r * r, r) / i_rd
        fij = np.minimum((ion_rad / ion_rad[:, None]) ** 2, 1.0)
        ctm = fij * pl.collisional_thermalisation(kT[:, None], kT, a[:, None], a, rij)
        chk(Rate.T_COLLISIONAL_THERMALISATION, "T_COLLISIONAL_THERMALISATION", ctm.sum(axis=1), scale=np.abs(ctm).sum(axis=1))
    if o.ESCAPE_AXIAL:
        w = q * (d.v_ax + d.v_ax_sc - phi.min()) / kT
        chk(Rate.W_AX, "W_AX", w)
        Rx = np.maximum(pl.collisional_escape_rate(ri, w) * n, 0); Rx[np.asarray(m.lb)] = 0
        chk(Rate.AX_CO, "AX_CO", Rx)
    if o.ESCAPE_RADIAL:
        w = pl.trapping_strength_radial(kT, q, a, -phi.min(), d.b_ax, d.r_dt)
        chk(Rate.W_RA, "W_RA", w)
        Rx = np.maximum(pl.collisional_escape_rate(ri, w) * n, 0); Rx[np.asarray(m.lb)] = 0
        chk(Rate.RA_CO, "RA_CO", Rx)
    return out


def stmt_switches(desc, y):
    """C05: switching one effect off removes exactly its own contribution and nothing else"""
    from ebisim.simulation._result import Rate
    out = []
    base = advcorr.rebuild(desc)
    nq = base.nq
    dy0, ex0 = advcorr.impl_rhs(base, y)
    own = {"EI": [Rate.EI], "RR": [Rate.RR], "DR": [Rate.DR], "CX": [Rate.CX], "SPITZER_HEATING": [Rate.T_SPITZER_HEATING],
           "COLLISIONAL_THERMALISATION": [Rate.T_COLLISIONAL_THERMALISATION], "ESCAPE_AXIAL": [Rate.AX_CO, Rate.W_AX, Rate.T_AX_CO],
           "ESCAPE_RADIAL": [Rate.RA_CO, Rate.W_RA, Rate.T_RA_CO]}
    for name, keys in own.items():
        if not desc["options"].get(name):
            continue
        m1 = advcorr.rebuild(desc, {name: False})
        dy1, ex1 = advcorr.impl_rhs(m1, y)
        for k in keys:
            if k in ex1:
                out.append({"prop": "C05", "key": {"clause": "switch_off_" + name}, "what": f"{name}=False still reports {k!r}", "input": dict(desc, y=y, switch=name)})
        for k, v in ex0.items():
            if k in keys: continue
            if k not in ex1 or not np.array_equal(np.array(v), np.array(ex1[k]), equal_nan=True):
                out.append({"prop": "C05", "key": {"clause": "switch_off_" + name + "_changes_other"}, "what": f"switching {name} off changes the reported {k!r}", "input": dict(desc, y=y, switch=name)})
                break
    return out


def stmt_heatflow(rng, n=6):
    """C04: with exactly one populated state per species the ion-ion heat exchange of each has the sign of T_other - T_own"""
    import ebisim
    from ebisim.simulation._result import Rate
    out = []
    for k in range(n):
        zs = rng.choice([2, 6, 10, 18, 19, 26, 36, 54], size=2, replace=False)
        dev, dkw = gens.make_device(rng, n_grid=60)
        tdesc = []
        for z in zs:
            tdesc.append(("ions", int(z), float(10 ** rng.uniform(5, 8)), 1.0, int(rng.integers(1, min(int(z), 12) + 1)), False))
        opts, okw = gens.make_options(rng, COLLISIONAL_THERMALISATION=True, RADIAL_DYNAMICS=False)
        desc = {"device": dkw, "targets": tdesc, "gases": [], "options": {a: b for a, b in okw.items() if isinstance(b, bool)}}
        m = advcorr.rebuild(desc)
        nq = m.nq
        y = np.concatenate([np.full(nq, 1e-9), np.full(nq, 1.0)])
        idx = []
        for i, t in enumerate(tdesc):
            j = int(m.lb[i]) + t[4]; idx.append(j); y[j] = t[2]
        # temperatures: the heavier species hotter in kT but colder in kT/A in half of the cases
        A = [float(m.a[j]) for j in idx]
        T0 = float(10 ** rng.uniform(0.5, 3))
        r = float(rng.uniform(1.05, 0.95 * max(A) / min(A))) if (k % 2 == 0 and max(A) / min(A) > 1.2) else float(rng.uniform(1.05, 20))
        hot = int(np.argmax(A)) if k % 2 == 0 else int(rng.integers(0, 2))
        y[nq + idx[hot]] = T0 * r; y[nq + idx[1 - hot]] = T0
        dy, ex = advcorr.impl_rhs(m, y)
        ct = np.array(ex[Rate.T_COLLISIONAL_THERMALISATION])
        for a, b in ((0, 1), (1, 0)):
            want = np.sign(y[nq + idx[b]] - y[nq + idx[a]])
            if np.sign(ct[idx[a]]) != want:
                out.append({"prop": "C04", "key": {"clause": "heat_hot_to_cold"}, "input": dict(desc, y=y),
                            "what": f"species A={A[a]:.0f} at kT={y[nq+idx[a]]:.4g} eV exchanging with A={A[b]:.0f} at kT={y[nq+idx[b]]:.4g} eV has thermalisation rate {ct[idx[a]]!r} (heat must flow from hot to cold)"})
                break
        if out: break
    return out
