#!/venv/bin/python
"""Entry point of every check:  check.py <Cxx> [--tier quick|thorough] [--replay file]

1. regenerate the generated model from /repo's working tree, build model, driver and the
   property's theorems (under a lock), audit the axioms;
2. run the correspondence (model vs implementation) and the monitored clauses;
3. verdict: a broken proof obligation / correspondence triggers the search for a concrete failing
   input on the real code -> VIOLATION (with the input as replay, or `no-failing-input-found`).
Exit 0 = held, 1 = violation, 2 = infrastructure problem / timeout.
"""
import sys, os, json, time, argparse, importlib, traceback, hashlib

HERE = os.path.dirname(os.path.abspath(__file__))
sys.path.insert(0, HERE)
import common
from common import Ctx, VERIF, LEAN


def build(ctx, mod):
    info = {"translate": None, "model": None, "proofs": None, "axioms": {}, "declared": [], "build_s": 0.0}
    t0 = time.time()
    with common.Lock():
        ok, msg = common.translate()
        info["translate"] = ok
        if not ok:
            ctx.fail("translator", "translate.py could not translate the current sources: " + msg[-600:])
        okm, out, _ = common.lake_build(["EbisimModel", "driver"])
        info["model"] = okm
        if not okm:
            ctx.fail("model-build", "model/driver no longer builds against the regenerated definitions",
                     errors=common.lean_errors(out))
        target = f"EbisimProofs.Props.{ctx.pid}"
        if getattr(mod, "LEVEL", "proof") == "translation_validation":
            # no theorem of its own: the Lean model (built above) is the pivot of a differential comparison
            info["proofs"] = True
            info["checker_cmd"] = "cd lean && lake build EbisimModel driver"
            info["build_s"] = round(time.time() - t0, 1)
            return info
        okp, out, _ = common.lake_build([target])
        info["proofs"] = okp
        info["checker_cmd"] = f"cd lean && lake build {target} && lake env lean EbisimProofs/Audit/{ctx.pid}.lean"
        if not okp:
            errs = common.lean_errors(out)
            ctx.fail("proof", f"proof obligations of {ctx.pid} no longer check (lake build {target} failed)", errors=errs)
        else:
            ax, declared, problems, raw = common.audit(ctx.pid)
            info["axioms"], info["declared"] = ax, declared
            for p in problems:
                ctx.fail("audit", p)
        if ctx.thorough and okp:
            mods = [target] + [f"EbisimProofs.Lemmas.{m}" for m in getattr(mod, "LEMMA_MODULES", [])]
            rc, out, dt = common.run(["lake", "env", "leanchecker"] + mods, cwd=LEAN, timeout=3000)
            info["leanchecker"] = {"rc": rc, "s": round(dt, 1), "modules": mods}
            info["checker_cmd"] += " && lake env leanchecker " + " ".join(mods)
            if rc != 0:
                ctx.fail("audit", "leanchecker rejected the compiled proof modules: " + out[-400:])
    info["build_s"] = round(time.time() - t0, 1)
    return info


def write_replay(ctx, name, data):
    os.makedirs(os.path.join(VERIF, "replays"), exist_ok=True)
    h = hashlib.sha256(json.dumps(common.jsonable(data), sort_keys=True).encode()).hexdigest()[:10]
    p = os.path.join(VERIF, "replays", f"{ctx.pid}-{name}-{h}.json")
    with open(p, "w") as f:
        json.dump(common.jsonable(data), f, indent=1)
    return os.path.relpath(p, VERIF)


def is_known(ctx, v):
    for k in ctx.known:
        key = k.get("key", {})
        vk = v.get("key", {})
        if key and all(str(vk.get(a)) == str(b) for a, b in key.items()):
            return k
    return None


def main():
    ap = argparse.ArgumentParser()
    ap.add_argument("pid")
    ap.add_argument("--tier", default=os.environ.get("VERIF_TIER", "quick"), choices=["quick", "thorough"])
    ap.add_argument("--replay")
    a = ap.parse_args()
    pid = a.pid.upper()
    mod = importlib.import_module(f"props.{pid.lower()}")
    ctx = Ctx(pid, a.tier, getattr(mod, "LEVEL", "proof"))
    common.setup_numba_cache()
    sys.path.insert(0, common.REPO)
    violations = []
    try:
        if a.replay:
            data = json.load(open(a.replay))
            v = mod.replay(ctx, data)
            if v:
                print(f"VIOLATION property={pid} replay={a.replay}")
                print("replayed:", json.dumps(common.jsonable(v))[:1500])
                return 1
            print("replay: the recorded input no longer violates the property")
            return 0
        info = build(ctx, mod)
        if info["model"]:
            try:
                mod.run(ctx)
            except common.ImplementationError as e:
                ctx.fail("correspondence", f"implementation raised on an in-domain input: {e}", inp=getattr(e, "inp", None))
            except Exception as e:
                # the comparison itself could not be carried out on this tree (the implementation raised inside a harness call, or
                # returned something the harness cannot even compare): the correspondence is not established; the search below
                # looks for a property-level failing input. (Toolchain / build problems are raised by build() and stay exit 2.)
                tb = traceback.extract_tb(e.__traceback__)
                where = next((f"{os.path.relpath(f.filename, common.REPO)}:{f.lineno}" for f in reversed(tb) if f.filename.startswith(common.REPO)), None)
                traceback.print_exc()
                ctx.fail("correspondence", (f"implementation raised {type(e).__name__} at {where}: " if where else f"correspondence run could not be completed ({type(e).__name__}): ") + str(e)[:300])
        # monitors / search: concrete failing inputs on the real code
        violations = list(getattr(ctx, "violations", []))
        if ctx.failures or getattr(mod, "ALWAYS_SEARCH", False) or ctx.thorough:
            try:
                violations += mod.search(ctx) or []
            except common.ImplementationError as e:
                violations.append({"key": {"error": str(e)[:120]}, "what": f"implementation raised: {e}", "input": getattr(e, "inp", None)})
            except Exception as e:
                traceback.print_exc()
                ctx.fail("correspondence", f"search for a failing input could not be completed ({type(e).__name__}): {str(e)[:300]}")
    except Exception:
        traceback.print_exc()
        print(f"INFRASTRUCTURE-ERROR property={pid}")
        return 2
    finally:
        ctx.close()

    # verdict
    new, known_lines = [], []
    seen = set()
    for v in violations:
        k = is_known(ctx, v)
        sig = json.dumps(common.jsonable(v.get("key", v.get("what"))), sort_keys=True)
        if sig in seen:
            continue
        seen.add(sig)
        if k:
            known_lines.append(f"KNOWN-FINDING: property={pid} {k.get('what', v.get('what'))}")
        else:
            new.append(v)
    for l in known_lines:
        print(l)
    rc = 0
    lines = []
    if new:
        rc = 1
        for v in new[:5]:
            p = write_replay(ctx, "input", {"property": pid, "violation": v, "failures": ctx.failures[:5]})
            lines.append(f"VIOLATION property={pid} replay={p}")
            print("  what:", str(v.get("what"))[:400])
    elif ctx.failures:
        # broken obligations explained entirely by known findings do not count
        unexplained = [f for f in ctx.failures if not f.get("explained_by_known")]
        if unexplained:
            rc = 1
            p = write_replay(ctx, "broken", {"property": pid, "no_failing_input_found": True, "broken": unexplained[:10]})
            lines.append(f"VIOLATION property={pid} replay={p} no-failing-input-found")
            for f in unexplained[:5]:
                print("  broken:", f["kind"], "-", str(f["what"])[:300])
    for l in lines:
        print(l)

    # evidence
    declared = info.get("declared", [])
    ax = info.get("axioms", {})
    discharged = sum(1 for d in declared if d in ax and all(x in common.ALLOWED_AXIOMS for x in ax[d])) if info.get("proofs") else 0
    cov = {
        "evaluations": int(ctx.evaluations),
        "distinct_nontrivial": int(len(ctx.nontrivial)),
        "rule": getattr(mod, "RULE", ""),
        "samples": common.jsonable(ctx.samples) or [{"note": "no case explored"}],
        "obligations": len(declared),
        "discharged": discharged,
        "checker_cmd": info.get("checker_cmd", ""),
        "trusted_base": common.TRUSTED_BASE + getattr(mod, "TRUSTED_EXTRA", []),
        "theorems": {d: ax.get(d) for d in declared},
        "stats": common.jsonable(ctx.stats),
        "coverage_detail": common.jsonable(ctx.cov),
        "monitored_clauses": getattr(mod, "MONITORED", []),
        "outside_theorems": getattr(mod, "OUTSIDE", []),
        "build": {k: info.get(k) for k in ("translate", "model", "proofs", "build_s", "leanchecker")},
        "known_findings_hit": known_lines,
    }
    if getattr(mod, "LEVEL", "proof") == "translation_validation":
        cov["programs"] = int(ctx.stats.get("programs", 0))
        cov["disagreements_checked"] = int(ctx.stats.get("disagreements_checked", 0))
    if ctx.exhaustive is not None:
        cov["exhaustive"] = bool(ctx.exhaustive)
    ev = {
        "property_id": pid, "tier": a.tier, "seed": ctx.seed, "level": getattr(mod, "LEVEL", "proof"),
        "coverage": cov, "assumptions": getattr(mod, "ASSUMPTIONS", []),
        "wall_s": round(time.time() - ctx.t0, 2), "violations": len(new) + (1 if (rc and not new) else 0),
    }
    os.makedirs(os.path.join(VERIF, "evidence"), exist_ok=True)
    with open(os.path.join(VERIF, "evidence", f"{pid}.json"), "w") as f:
        json.dump(ev, f, indent=1)
    print(f"{pid} {a.tier}: theorems {discharged}/{len(declared)}, evaluations {ctx.evaluations}, "
          f"non-trivial {len(ctx.nontrivial)}, failures {len(ctx.failures)}, violations {len(new)}, "
          f"known {len(known_lines)}, {ev['wall_s']} s -> exit {rc}")
    return rc


if __name__ == "__main__":
    sys.exit(main())
