#!/venv/bin/python
"""setup: regenerate the model from /repo, build model library, driver and all proof modules,
warm the numba cache.  build.py --all"""
import sys, os, glob, time
HERE = os.path.dirname(os.path.abspath(__file__)); sys.path.insert(0, HERE)
import common
def main():
    t0 = time.time()
    with common.Lock():
        ok, msg = common.translate(); print(msg)
        if not ok: return 1
        ok, out, dt = common.lake_build(["EbisimModel", "driver"]); print("model+driver", ok, round(dt, 1), "s")
        if not ok: print(out[-3000:]); return 1
        props = sorted(os.path.basename(p)[:-5] for p in glob.glob(os.path.join(common.LEAN, "EbisimProofs", "Props", "C*.lean")))
        ok, out, dt = common.lake_build([f"EbisimProofs.Props.{p}" for p in props]); print("proofs", props, ok, round(dt, 1), "s")
        if not ok: print(out[-3000:]); return 1
    if "--no-warm" not in sys.argv:
        common.setup_numba_cache()
        rc, out, dt = common.run([sys.executable, os.path.join(HERE, "warm.py")], timeout=3000)
        print("numba warm-up", rc, round(dt, 1), "s", out[-300:] if rc else "")
        # the translation-validation check compiles every kernel for integer / strided / F-ordered signatures (and the integer-first
        # specialisations): one run here puts them into the content-keyed cache, so that the registered quick commands start warm
        rc, out, dt = common.run([sys.executable, os.path.join(HERE, "check.py"), "C19", "--tier", "quick"], timeout=3000)
        print("signature warm-up (C19 quick)", rc, round(dt, 1), "s")
    print("setup done in", round(time.time() - t0, 1), "s")
    return 0
if __name__ == "__main__": sys.exit(main())
