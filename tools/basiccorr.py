"""Observation channel for basic_simulation: wrap scipy.integrate.solve_ivp from outside."""
import numpy as np
import scipy.integrate
from leanio import farr, dec, bits, ulp_diff
import common


class Capture:
    def __init__(self):
        self.calls = []
    def __enter__(self):
        self.orig = scipy.integrate.solve_ivp
        cap = self
        def wrapped(fun, t_span, y0, *a, **kw):
            ret = cap.orig(fun, t_span, y0, *a, **kw)
            cap.calls.append(dict(fun=fun, t_span=t_span, y0=np.array(y0, copy=True), y0_obj=y0, args=a, kwargs=dict(kw), ret=ret))
            return ret
        scipy.integrate.solve_ivp = wrapped
        return self
    def __exit__(self, *a):
        scipy.integrate.solve_ivp = self.orig


def run_basic(**kw):
    import ebisim
    with Capture() as cap:
        res = ebisim.basic_simulation(**kw)
    assert len(cap.calls) == 1, "basic_simulation did not call solve_ivp exactly once"
    return res, cap.calls[0]


def jac_of(call, n):
    j = call["kwargs"].get("jac")
    if callable(j):
        return np.array(j(0.0, np.zeros(n)))
    return np.array(j)


def model_call(D, z, j, e, w, cni, n0):
    line = f"basic {z} {bits(j)} {bits(e)} " + (f"1 {bits(w)} " if w is not None else "0 ") + ("1 " if cni else "0 ") + (("1 " + farr(n0)) if n0 is not None else "0")
    t = D.ask(line)
    bar = t.index("|")
    J = dec(t[:bar]).reshape(z + 1, z + 1)
    y0 = dec(t[bar + 1:])
    return J, y0


def independent_jac(el, j, e, w, cni):
    """assembled independently from the package's own cross-section vectors (property text)"""
    import ebisim
    from ebisim.physconst import Q_E
    n = el.z + 1
    ei = ebisim.eixs_vec(el, e); rr = ebisim.rrxs_vec(el, e)
    J = np.zeros((n, n))
    for k in range(n):
        J[k, k] -= ei[k] + rr[k]
        if k + 1 < n: J[k + 1, k] += ei[k]
        if k >= 1: J[k - 1, k] += rr[k]
    if w:
        dr = ebisim.drxs_vec(el, e, w)
        for k in range(n):
            J[k, k] -= dr[k]
            if k >= 1: J[k - 1, k] += dr[k]
    if cni:
        J[0, :] = 0
    return J * (j * 1e4 / Q_E)


def expm_apply(J, t, N0):
    import scipy.linalg
    return scipy.linalg.expm(J * t) @ N0
