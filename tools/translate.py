#!/venv/bin/python
"""Translator: regenerates the generated part of the Lean model (`lean/EbisimModel/Gen/*.lean`)
from the *current* working tree of /repo.

  T-tables : shell tables (8 chunks), DR tables, Lotz dictionaries, element data, constants
             -> exact scaled naturals / literals.
  T-kernels: scalar kernels (all of plasma.py, xs._normpdf, xs.cxxs, _advanced._cubic_spline,
             beams.ElectronBeam.characteristic_potential / herrmann_radius, physconst expressions)
             -> polymorphic Lean definitions over `Num α`, by a statement-by-statement walk of
             the Python AST.  Anything outside the supported subset raises (broken tie, handled
             by the runner), it is never skipped silently.

Files are only rewritten when their content changes, so `lake build` is a no-op on an
unchanged tree.  Usage: translate.py [repo] [outdir]
"""
import ast, sys, re, os, hashlib, json, importlib.util
from fractions import Fraction

HERE = os.path.dirname(os.path.abspath(__file__))
REPO = os.environ.get("EBISIM_REPO", "/repo")
OUT = os.path.join(os.path.dirname(HERE), "lean", "EbisimModel", "Gen")

UN = {"sqrt": "Transc.sqrt", "log": "Transc.log", "exp": "Transc.exp"}


class Unsupported(Exception):
    pass


def flit(x: float) -> str:
    """decimal literal that denotes exactly the binary64 `x` (repr round-trips)"""
    x = float(x)
    if x != x or x in (float("inf"), float("-inf")):
        raise Unsupported(f"non-finite literal {x}")
    s = repr(x)
    m = re.fullmatch(r"(-?)(\d+)(?:\.(\d+))?(?:e([+-]?\d+))?", s)
    if not m:
        raise Unsupported(f"literal {s}")
    sign, ip, fp, ex = m.group(1), m.group(2), m.group(3) or "0", m.group(4)
    body = f"{ip}.{fp}" + (f"e{int(ex)}" if ex else "")
    assert float(body) == abs(x)
    return f"(-({body} : α))" if sign else f"({body} : α)"


class Tr:
    """Python scalar kernel -> Lean term (continuation-passing over statements)."""

    def __init__(self, consts, kernels, selfattrs=()):
        self.consts = consts      # names usable as global constants
        self.kernels = kernels    # translated function name -> (lean name, arity)
        self.selfattrs = selfattrs

    def expr(self, e, env):
        if isinstance(e, ast.Constant):
            if isinstance(e.value, bool):
                raise Unsupported("bool const")
            if isinstance(e.value, int):
                if e.value < 0:
                    raise Unsupported("negative int literal")
                return f"(lit {e.value} : α)"
            if isinstance(e.value, float):
                return flit(e.value)
            raise Unsupported(repr(e.value))
        if isinstance(e, ast.Name):
            if e.id in env:
                return env[e.id]
            if e.id in self.consts:
                return f"(Const.{e.id} : α)"
            raise Unsupported(f"unknown name {e.id}")
        if isinstance(e, ast.Attribute) and isinstance(e.value, ast.Name) and e.value.id == "self":
            if e.attr in self.selfattrs:
                return e.attr.lstrip("_")
            raise Unsupported(f"self.{e.attr}")
        if isinstance(e, ast.UnaryOp) and isinstance(e.op, ast.USub):
            return f"(-{self.expr(e.operand, env)})"
        if isinstance(e, ast.UnaryOp) and isinstance(e.op, ast.UAdd):
            return self.expr(e.operand, env)
        if isinstance(e, ast.BinOp):
            if isinstance(e.op, ast.Pow):
                b = self.expr(e.left, env)
                r = e.right
                if isinstance(r, ast.Constant) and isinstance(r.value, int) and not isinstance(r.value, bool) and r.value >= 0:
                    return f"(powN {b} {r.value})"
                return f"(Transc.rpow {b} {self.expr(r, env)})"
            ops = {ast.Add: "+", ast.Sub: "-", ast.Mult: "*", ast.Div: "/"}
            if type(e.op) not in ops:
                raise Unsupported(ast.dump(e.op))
            return f"({self.expr(e.left, env)} {ops[type(e.op)]} {self.expr(e.right, env)})"
        if isinstance(e, ast.Call):
            f = e.func
            if e.keywords:
                raise Unsupported("keyword arguments")
            args = [self.expr(a, env) for a in e.args]
            if isinstance(f, ast.Attribute) and isinstance(f.value, ast.Name) and f.value.id in ("np", "math", "numpy"):
                name = f.attr
                if name in UN and len(args) == 1:
                    return f"({UN[name]} {args[0]})"
                if name == "maximum" and len(args) == 2:
                    return f"(max' {args[0]} {args[1]})"
                if name == "minimum" and len(args) == 2:
                    return f"(min' {args[0]} {args[1]})"
                if name in ("abs", "fabs", "absolute") and len(args) == 1:
                    return f"(abs' {args[0]})"
                raise Unsupported(f"call np.{name}")
            if isinstance(f, ast.Attribute) and isinstance(f.value, ast.Name) and f.value.id == "self":
                name = f.attr
                if name in self.kernels:
                    ln, ar = self.kernels[name]
                    sa = [a.lstrip("_") for a in self.selfattrs]
                    assert len(args) + len(sa) == ar, name
                    return "(" + " ".join([ln] + sa + args) + ")"
                raise Unsupported(f"call self.{name}")
            if isinstance(f, ast.Name) and f.id in self.kernels:
                ln, ar = self.kernels[f.id]
                if len(args) != ar:
                    raise Unsupported(f"arity of {f.id}")
                return "(" + " ".join([ln] + args) + ")"
            if isinstance(f, ast.Name) and f.id == "abs" and len(args) == 1:
                return f"(abs' {args[0]})"
            if isinstance(f, ast.Name) and f.id == "max" and len(args) == 2:
                # Python's max(a, b) returns b only when b > a
                return f"(max' {args[0]} {args[1]})"
            if isinstance(f, ast.Name) and f.id == "min" and len(args) == 2:
                return f"(min' {args[0]} {args[1]})"
            raise Unsupported(f"call {ast.dump(f)}")
        raise Unsupported(ast.dump(e))

    def cond(self, e, env):
        if isinstance(e, ast.BoolOp):
            op = " ∧ " if isinstance(e.op, ast.And) else " ∨ "
            return "(" + op.join(self.cond(v, env) for v in e.values) + ")"
        if isinstance(e, ast.UnaryOp) and isinstance(e.op, ast.Not):
            return f"(¬ {self.cond(e.operand, env)})"
        if isinstance(e, ast.Compare):
            parts, left = [], e.left
            for op, right in zip(e.ops, e.comparators):
                a, b = self.expr(left, env), self.expr(right, env)
                if isinstance(op, ast.Lt): parts.append(f"{a} < {b}")
                elif isinstance(op, ast.LtE): parts.append(f"{a} ≤ {b}")
                elif isinstance(op, ast.Gt): parts.append(f"{b} < {a}")
                elif isinstance(op, ast.GtE): parts.append(f"{b} ≤ {a}")
                elif isinstance(op, ast.Eq): parts.append(f"({a} ≤ {b} ∧ {b} ≤ {a})")
                elif isinstance(op, ast.NotEq): parts.append(f"(¬ ({a} ≤ {b} ∧ {b} ≤ {a}))")
                else: raise Unsupported(ast.dump(op))
                left = right
            return "(" + " ∧ ".join(parts) + ")"
        raise Unsupported(ast.dump(e))

    def block(self, stmts, env, ind, ret):
        """`ret(expr_node, env)` renders a return statement; statement list must end in a return"""
        pad = "  " * ind
        if not stmts:
            raise Unsupported("fell off the end without return")
        s, rest = stmts[0], stmts[1:]
        if isinstance(s, ast.Expr) and isinstance(s.value, ast.Constant) and isinstance(s.value.value, str):
            return self.block(rest, env, ind, ret)
        if isinstance(s, ast.Return):
            if s.value is None:
                raise Unsupported("bare return")
            return pad + ret(s, env)
        if isinstance(s, (ast.Assign, ast.AugAssign)):
            if isinstance(s, ast.AugAssign):
                tgt = s.target
                val = ast.BinOp(left=ast.Name(id=tgt.id), op=s.op, right=s.value)
            else:
                if len(s.targets) != 1:
                    raise Unsupported("multiple assignment targets")
                tgt, val = s.targets[0], s.value
            if not isinstance(tgt, ast.Name):
                raise Unsupported("assignment target " + ast.dump(tgt))
            v = tgt.id
            env2 = dict(env); env2[v] = v
            return f"{pad}let {v} : α := {self.expr(val, env)}\n" + self.block(rest, env2, ind, ret)
        if isinstance(s, ast.If):
            c = self.cond(s.test, env)
            return (f"{pad}if {c} then\n" + self.block(list(s.body) + rest, env, ind + 1, ret) + "\n"
                    f"{pad}else\n" + self.block(list(s.orelse) + rest, env, ind + 1, ret))
        raise Unsupported(ast.dump(s)[:200])

    def func(self, fn: ast.FunctionDef, lean_name=None):
        lean_name = lean_name or fn.name
        args = [a.arg for a in fn.args.args if a.arg != "self"]
        if fn.args.defaults or fn.args.kwonlyargs or fn.args.vararg or fn.args.kwarg:
            raise Unsupported(f"{fn.name}: default/keyword/var arguments")
        sa = [a.lstrip("_") for a in self.selfattrs]
        env = {a: a for a in args}
        allargs = sa + args
        body = self.block(fn.body, env, 1, lambda s, env: self.expr(s.value, env))
        # branch id: index of the leaf of the if-tree (= control-flow path) that is reached
        cnt = [0]
        def leaf(s, env):
            cnt[0] += 1
            return str(cnt[0] - 1)
        bbody = self.block(fn.body, env, 1, leaf)
        rets = list(range(cnt[0]))
        out = f"def {lean_name} ({' '.join(allargs)} : α) : α :=\n{body}\n"
        out += f"/-- index of the control-flow path `{fn.name}` takes -/\n"
        out += f"def {lean_name}_branch ({' '.join(allargs)} : α) : Nat :=\n{bbody}\n"
        return out, len(allargs), len(rets)


def find_func(mod, name, cls=None):
    body = mod.body
    if cls:
        for n in body:
            if isinstance(n, ast.ClassDef) and n.name == cls:
                body = n.body
                break
        else:
            raise Unsupported(f"class {cls} not found")
    for n in body:
        if isinstance(n, ast.FunctionDef) and n.name == name:
            return n
    raise Unsupported(f"function {name} not found")


def write(name, text, changed):
    p = os.path.join(OUT, name)
    if not os.path.exists(p) or open(p).read() != text:
        with open(p, "w") as f:
            f.write(text)
        changed.append(name)


def load_module(path, name):
    spec = importlib.util.spec_from_file_location(name, path)
    m = importlib.util.module_from_spec(spec)
    spec.loader.exec_module(m)
    return m


def sc(x, k):
    """exact: x * 2**k as an integer literal (asserted)"""
    f = Fraction(float(x)) * 2 ** k
    if f.denominator != 1 or f < 0:
        raise Unsupported(f"table entry {x!r} is not a non-negative multiple of 2^-{k}")
    return str(f.numerator)


SC_EBIND, SC_ERES, SC_STR, SC_COEF = 80, 48, 96, 60
NCH = 8


def gen_consts(repo, changed, manifest):
    path = f"{repo}/ebisim/physconst.py"
    src = open(path).read()
    mod = ast.parse(src)
    pc = load_module(path, "_verif_physconst")
    import scipy.constants
    names, exprs = [], {}
    for n in mod.body:
        if isinstance(n, ast.Assign) and len(n.targets) == 1 and isinstance(n.targets[0], ast.Name):
            nm = n.targets[0].id
            if not nm.isupper():
                continue
            names.append(nm)
            exprs[nm] = n.value
    L = ["import EbisimModel.Num", "/-! GENERATED by tools/translate.py from ebisim/physconst.py — do not edit -/",
         "set_option linter.unusedVariables false", "namespace Gen", "open Num", "variable {α : Type} [Num α]", "namespace Const"]
    for nm in names:
        L.append(f"def {nm} : α := {flit(getattr(pc, nm))}")
    # the defining expressions (scipy.constants.X become literals of the installed values)
    class CT(Tr):
        def expr(self, e, env):
            if (isinstance(e, ast.Attribute) and isinstance(e.value, ast.Attribute)
                    and isinstance(e.value.value, ast.Name) and e.value.value.id == "scipy"
                    and e.value.attr == "constants"):
                return flit(getattr(scipy.constants, e.attr))
            return super().expr(e, env)
    tr = CT(set(names), {})
    for nm in names:
        L.append(f"/-- defining expression of `{nm}` in physconst.py -/")
        L.append(f"def {nm}_expr : α := {tr.expr(exprs[nm], {})}")
    L.append("def names : List String := [" + ", ".join(f'"{n}"' for n in names) + "]")
    L.append("def values : List α := [" + ", ".join(names) + "]")
    L.append("def exprValues : List α := [" + ", ".join(n + "_expr" for n in names) + "]")
    L += ["end Const", "end Gen", ""]
    write("Const.lean", "\n".join(L), changed)
    manifest["consts"] = {n: float(getattr(pc, n)) for n in names}
    return set(names)


def gen_kernels(repo, consts, changed, manifest):
    hdr = ["import EbisimModel.Gen.Const", "/-! GENERATED by tools/translate.py — do not edit -/",
           "set_option linter.unusedVariables false", "namespace Gen", "open Num", "variable {α : Type} [Num α]", ""]
    kern = {}       # python name -> (lean name, arity)
    out = list(hdr)
    info = {}

    def emit(path, fn, tr, lean_name=None):
        src = open(path).read()
        seg = ast.get_source_segment(src, fn)
        rel = os.path.relpath(path, repo)
        txt, ar, nret = tr.func(fn, lean_name)
        out.append(f"/-- {rel}:{fn.lineno}-{fn.end_lineno} sha256={hashlib.sha256(seg.encode()).hexdigest()[:16]} -/")
        out.append(txt)
        info[lean_name or fn.name] = {"file": rel, "lines": [fn.lineno, fn.end_lineno], "arity": ar, "returns": nret,
                                      "args": [a.lstrip("_") for a in tr.selfattrs] + [a.arg for a in fn.args.args if a.arg != "self"]}
        return ar

    # plasma.py: every top-level function, in source order
    p = f"{repo}/ebisim/plasma.py"
    mod = ast.parse(open(p).read())
    fns = [n for n in mod.body if isinstance(n, ast.FunctionDef)]
    for f in fns:
        kern[f.name] = (f.name, len(f.args.args))
    tr = Tr(consts, kern)
    for f in fns:
        emit(p, f, tr)
    manifest["plasma_kernels"] = [f.name for f in fns]
    # xs.py scalar kernels
    p = f"{repo}/ebisim/xs.py"
    mod = ast.parse(open(p).read())
    for nm in ("_normpdf", "cxxs"):
        f = find_func(mod, nm)
        ln = nm.lstrip("_")
        kern[nm] = (ln, len(f.args.args))
        emit(p, f, tr, ln)
    # _advanced._cubic_spline
    p = f"{repo}/ebisim/simulation/_advanced.py"
    mod = ast.parse(open(p).read())
    f = find_func(mod, "_cubic_spline")
    kern["_cubic_spline"] = ("cubic_spline", len(f.args.args))
    emit(p, f, tr, "cubic_spline")
    # beams.ElectronBeam formulas (self._x become leading parameters)
    p = f"{repo}/ebisim/beams.py"
    mod = ast.parse(open(p).read())
    init = find_func(mod, "__init__", "ElectronBeam")
    attrs = []
    for s in init.body:
        if (isinstance(s, ast.Assign) and isinstance(s.targets[0], ast.Attribute)
                and isinstance(s.targets[0].value, ast.Name) and s.targets[0].value.id == "self"):
            if not (isinstance(s.value, ast.Name) and s.value.id == s.targets[0].attr.lstrip("_")):
                raise Unsupported("ElectronBeam.__init__ does more than store its arguments")
            attrs.append(s.targets[0].attr)
    initargs = [a.arg for a in init.args.args if a.arg != "self"]
    attrs = ["_" + a for a in initargs if "_" + a in attrs]
    if len(attrs) != len(initargs):
        raise Unsupported("ElectronBeam.__init__ attribute set")
    trb = Tr(consts, kern, selfattrs=tuple(attrs))
    for nm in ("characteristic_potential", "herrmann_radius"):
        f = find_func(mod, nm, "ElectronBeam")
        ar = emit(p, f, trb, nm)
        kern[nm] = (nm, ar)
    manifest["beam_attrs"] = [a.lstrip("_") for a in attrs]
    out.append("end Gen\n")
    write("Kernels.lean", "\n".join(out), changed)
    manifest["kernels"] = info
    # dispatcher for the driver
    D = ["import EbisimModel.Gen.Kernels", "/-! GENERATED by tools/translate.py — do not edit -/", "namespace Gen",
         "/-- evaluate generated kernel `name` on `a`; `none` = unknown kernel or wrong arity -/",
         "def callKernel (name : String) (a : Array Float) : Option (Float × Nat) :=", "  match name, a.size with"]
    for nm, d in info.items():
        ar = d["arity"]
        args = " ".join(f"a[{i}]!" for i in range(ar))
        D.append(f'  | "{nm}", {ar} => some ({nm} {args}, {nm}_branch {args})')
    D += ["  | _, _ => none", "end Gen", ""]
    write("Dispatch.lean", "\n".join(D), changed)


def gen_tables(repo, changed, manifest):
    sd = load_module(f"{repo}/ebisim/resources/_shell_data.py", "_verif_shell_data")
    ed = load_module(f"{repo}/ebisim/resources/_element_data.py", "_verif_element_data")
    CFG, EBIND, ORDER, N = sd.CFG, sd.EBIND, sd.ORDER, sd.N
    nz = len(ed.Z)
    manifest["n_elements"] = nz
    zs_all = [int(z) for z in ed.Z]
    chunks = [zs_all[i::NCH] for i in range(NCH)]
    for ci, zs in enumerate(chunks):
        L = ["/-! GENERATED by tools/translate.py from ebisim/resources/_shell_data.py — do not edit -/", "namespace Gen"]
        for z in zs:
            c, e = CFG[z], EBIND[z]
            L.append(f"def cfg{z} : List (List Nat) := [\n  " + ",\n  ".join("[" + ", ".join(str(int(v)) for v in r) + "]" for r in c) + "]")
            L.append(f"def ebind{z} : List (List Nat) := [\n  " + ",\n  ".join("[" + ", ".join(sc(v, SC_EBIND) for v in r) + "]" for r in e) + "]")
        L.append("end Gen")
        write(f"Shell{ci}.lean", "\n".join(L) + "\n", changed)
    # DR tables: read from the data files by an independent reader (csv module, columns addressed by their header names), NOT through
    # the package's own loader — `utils.load_dr_data/_parse_dr_file` and `Element.get` are then validated against these tables by the
    # correspondence check (`drtab`), so a change to the loading code cannot silently change model and implementation together
    sys.path.insert(0, repo)
    import numpy as np, csv
    nrows = 0
    drtxt = {}
    for z in zs_all:
        p = f"{repo}/ebisim/resources/drdata/DR_{z}.csv"
        rows = []
        if os.path.exists(p):
            with open(p, newline="") as f:
                rd = csv.DictReader(f)
                for rec in rd:
                    if not any((v or "").strip() for v in rec.values()): continue
                    rows.append((int(rec["CHARGE_STATE"]), float(rec["DELTA_E_AI"]), float(rec["RECOMB_STRENGTH"])))
        nrows += len(rows)
        for c, e, s_ in rows:
            if int(c) != c or c < 0:
                raise Unsupported(f"DR charge state {c}")
        body = ", ".join(f"({int(c)}, {sc(e, SC_ERES)}, {sc(s_, SC_STR)})" for c, e, s_ in rows)
        drtxt[z] = (len(body), f"def dr{z} : List (Nat × Nat × Nat) := [{body}]")
    # balance the chunks by size (greedy)
    bins = [[0, []] for _ in range(NCH)]
    for z in sorted(zs_all, key=lambda z: -drtxt[z][0]):
        b = min(bins, key=lambda b: b[0])
        b[0] += drtxt[z][0]; b[1].append(z)
    for ci, (_, zs) in enumerate(bins):
        L = ["/-! GENERATED by tools/translate.py from ebisim/resources/drdata/*.csv — do not edit -/", "namespace Gen"]
        for z in sorted(zs):
            L.append(drtxt[z][1])
        L.append("end Gen")
        write(f"Dr{ci}.lean", "\n".join(L) + "\n", changed)
    manifest["dr_rows"] = nrows
    # Lotz dictionaries straight from the source text
    src = open(os.path.join(repo, "ebisim/xs.py")).read()
    mod = ast.parse(src)
    tabs = {}
    for n in mod.body:
        if isinstance(n, ast.Assign) and isinstance(n.targets[0], ast.Name) and n.targets[0].id.startswith("_LOTZ"):
            tabs[n.targets[0].id] = ast.literal_eval(n.value)
    def tri(t):
        if len(t) != 3:
            raise Unsupported("Lotz entry is not a triple")
        return "(" + ", ".join(sc(x, SC_COEF) for x in t) + ")"
    L = ["/-! GENERATED by tools/translate.py from ebisim/xs.py, resources/_element_data.py — do not edit -/",
         "namespace Gen", "abbrev Tri := Nat × Nat × Nat",
         f"def scEbind : Nat := {SC_EBIND}", f"def scEres : Nat := {SC_ERES}", f"def scStr : Nat := {SC_STR}", f"def scCoef : Nat := {SC_COEF}"]
    L.append("def lotzNeutral : List (String × Tri) := [" + ", ".join(f'("{k}", {tri(v)})' for k, v in tabs["_LOTZ_NEUTRAL_TABLE"].items()) + "]")
    adv = []
    for z, t in tabs["_LOTZ_ADVANCED_TABLE"].items():
        css = ", ".join(f"({cs}, [" + ", ".join(f'("{sh}", {tri(v)})' for sh, v in d.items()) + "])" for cs, d in t.items())
        adv.append(f"({z}, [{css}])")
    L.append("def lotzAdvanced : List (Nat × List (Nat × List (String × Tri))) := [\n  " + ",\n  ".join(adv) + "]")
    # structured (string-free) forms for the kernel-decidable table theorems
    LCH = {"s": 0, "p": 1, "d": 2, "f": 3}
    SGN = {"": 0, "-": 1, "+": 2}
    def shell_s(name):
        m = re.fullmatch(r"(\d)([spdf])([+-]?)", name)
        if not m:
            raise Unsupported(f"shell name {name!r}")
        return f"({int(m.group(1))}, {LCH[m.group(2)]}, {SGN[m.group(3)]})"
    def nkey_s(key):
        m = re.fullmatch(r"(n|\d)([spdf])(\d+)", key)
        if not m:
            raise Unsupported(f"neutral Lotz key {key!r}")
        return f"({0 if m.group(1) == 'n' else int(m.group(1))}, {LCH[m.group(2)]}, {int(m.group(3))})"
    def stub_s(key):
        m = re.fullmatch(r"(\d)([spdf])", key)
        if not m:
            raise Unsupported(f"advanced Lotz key {key!r}")
        return f"({int(m.group(1))}, {LCH[m.group(2)]})"
    L.append("/-- shells as (principal quantum number, l: s=0 p=1 d=2 f=3, sign: none=0 '-'=1 '+'=2) -/")
    L.append("def shellOrderS : List (Nat × Nat × Nat) := [" + ", ".join(shell_s(s) for s in ORDER) + "]")
    L.append("/-- neutral table keyed by (n class: 0 = 'n', l, occupation) -/")
    L.append("def lotzNeutralS : List ((Nat × Nat × Nat) × Tri) := [" + ", ".join(f'({nkey_s(k)}, {tri(v)})' for k, v in tabs["_LOTZ_NEUTRAL_TABLE"].items()) + "]")
    advs = []
    for z, t in tabs["_LOTZ_ADVANCED_TABLE"].items():
        css = ", ".join(f"({cs}, [" + ", ".join(f'({stub_s(sh)}, {tri(v)})' for sh, v in d.items()) + "])" for cs, d in t.items())
        advs.append(f"({z}, [{css}])")
    L.append("def lotzAdvancedS : List (Nat × List (Nat × List ((Nat × Nat) × Tri))) := [\n  " + ",\n  ".join(advs) + "]")
    L.append("def shellOrder : List String := [" + ", ".join(f'"{s}"' for s in ORDER) + "]")
    L.append("def shellN : List Nat := [" + ", ".join(str(int(x)) for x in N) + "]")
    L.append("def elemZ : List Nat := [" + ", ".join(str(int(x)) for x in ed.Z) + "]")
    for x in ed.A:
        if int(x) != x:
            raise Unsupported("non-integer default mass number")
    L.append("def elemA : List Nat := [" + ", ".join(str(int(x)) for x in ed.A) + "]")
    L.append("def elemIP : List Nat := [" + ", ".join(sc(x, SC_COEF) for x in ed.IP) + "]")
    def codes(st):
        return "[" + ", ".join(str(ord(ch)) for ch in st) + "]"
    L.append("/-- symbols / names as lists of code points (string-free, kernel-decidable) -/")
    L.append("def elemESc : List (List Nat) := [" + ", ".join(codes(x) for x in ed.ES) + "]")
    L.append("def elemNAMEc : List (List Nat) := [" + ", ".join(codes(x) for x in ed.NAME) + "]")
    L.append("def elemES : List String := [" + ", ".join(f'"{s}"' for s in ed.ES) + "]")
    L.append("def elemNAME : List String := [" + ", ".join(f'"{s}"' for s in ed.NAME) + "]")
    L.append("end Gen")
    write("Lotz.lean", "\n".join(L) + "\n", changed)
    imports = "\n".join(f"import EbisimModel.Gen.Shell{i}" for i in range(NCH)) + "\n" + "\n".join(f"import EbisimModel.Gen.Dr{i}" for i in range(NCH)) + "\nimport EbisimModel.Gen.Lotz\n"
    L = [imports, "/-! GENERATED by tools/translate.py — do not edit -/", "namespace Gen"]
    L.append("def cfg : Nat → List (List Nat)\n" + "\n".join(f"  | {z} => cfg{z}" for z in zs_all) + "\n  | _ => []")
    L.append("def ebind : Nat → List (List Nat)\n" + "\n".join(f"  | {z} => ebind{z}" for z in zs_all) + "\n  | _ => []")
    L.append("def dr : Nat → List (Nat × Nat × Nat)\n" + "\n".join(f"  | {z} => dr{z}" for z in zs_all) + "\n  | _ => []")
    L.append("end Gen")
    write("Tables.lean", "\n".join(L) + "\n", changed)


def main(repo=REPO):
    os.makedirs(OUT, exist_ok=True)
    changed, manifest = [], {}
    consts = gen_consts(repo, changed, manifest)
    gen_kernels(repo, consts, changed, manifest)
    gen_tables(repo, changed, manifest)
    manifest["changed"] = changed
    with open(os.path.join(OUT, "manifest.json"), "w") as f:
        json.dump(manifest, f, indent=1)
    return changed


if __name__ == "__main__":
    try:
        ch = main(sys.argv[1] if len(sys.argv) > 1 else REPO)
    except Unsupported as e:
        print(f"TRANSLATOR-UNSUPPORTED: {e}")
        sys.exit(3)
    print("translate: changed =", ch)
