"""Correspondence of _adv_rhs / AdvancedModel.get / _assemble_initial_conditions with the Lean model
(shared by C03–C06, C18)."""
import numpy as np
from leanio import farr, narr, bits, dec
import common, gens

KEYS = ["dn", "dkT", "R_ei", "R_rr", "R_dr", "R_cx", "R_ax", "R_ra", "fei", "iheat", "sh", "ct", "ri", "rself", "w_ax", "w_ra", "e_ax", "e_ra", "n3d", "scal", "phi"]
RTOL = 1e-10


def rate_keys():
    from ebisim.simulation._result import Rate
    return {"R_ei": Rate.EI, "R_rr": Rate.RR, "R_dr": Rate.DR, "R_cx": Rate.CX, "R_ax": Rate.AX_CO, "R_ra": Rate.RA_CO, "fei": Rate.F_EI,
            "iheat": Rate.IONISATION_HEAT, "sh": Rate.T_SPITZER_HEATING, "ct": Rate.T_COLLISIONAL_THERMALISATION, "ri": Rate.COLLISION_RATE_TOTAL,
            "rself": Rate.COLLISION_RATE_SELF, "w_ax": Rate.W_AX, "w_ra": Rate.W_RA}


def opt_bits(o):
    return [o.EI, o.RR, o.CX, o.DR, o.SPITZER_HEATING, o.COLLISIONAL_THERMALISATION, o.ESCAPE_AXIAL, o.ESCAPE_RADIAL,
            o.RECOMPUTE_CROSS_SECTIONS, o.RADIAL_DYNAMICS, o.IONISATION_HEATING, o.OVERRIDE_FWHM]


def model_line(m, ys):
    d, o = m.device, m.options
    parts = ["advrhs"] + ["1" if b else "0" for b in opt_bits(o)] + [str(int(o.RADIAL_SOLVER_MAX_STEPS)), bits(o.RADIAL_SOLVER_REL_DIFF)]
    parts.append(farr([d.r_e, d.e_kin, d.fwhm, d.j, d.v_ax, d.v_ax_sc, d.b_ax, d.r_dt, d.current]))
    parts.append(str(int(d.rad_re_idx)))
    parts += [narr(m.lb), narr(m.ub), narr([t.z for t in m.targets])]
    parts += [farr(m.q), farr(m.a), farr(m.eixs), farr(m.rrxs), farr(m.drxs)]
    parts.append(str(len(m.cxxs_bggas))); parts += [farr(x) for x in m.cxxs_bggas]
    parts.append(farr([g.n0 for g in m.bg_gases]))
    parts.append(str(len(m.cxxs_trgts))); parts += [farr(x) for x in m.cxxs_trgts]
    parts.append(narr([1 if t.cx else 0 for t in m.targets]))
    parts += [farr(d.rad_grid), farr(d.rad_phi_uncomp), farr(d.rad_fd_l), farr(d.rad_fd_d), farr(d.rad_fd_u)]
    parts.append(str(len(ys))); parts += [farr(y) for y in ys]
    return " ".join(parts)


def parse(tokens, nq, ng, ny):
    out = []
    pos = 0
    for _ in range(ny):
        blk = {}
        for k in KEYS:
            n = 4 if k == "scal" else (ng if k == "phi" else nq)
            blk[k] = dec(tokens[pos:pos + n]); pos += n
        out.append(blk)
        if pos < len(tokens) and tokens[pos] == "|":
            pos += 1
    return out


def impl_rhs(m, y):
    import numba
    from ebisim.simulation._advanced import _adv_rhs
    from ebisim.simulation._result import Rate
    ex = numba.typed.Dict.empty(key_type=numba.typeof(Rate.EI), value_type=numba.types.float64[::1])
    dy = _adv_rhs(m, 0.0, np.ascontiguousarray(y), ex)
    return dy, {k: np.array(v) for k, v in ex.items()}


def retype(m):
    """the model stored in a result carries plain lists (for pickling): rebuild the numba-typed one"""
    from ebisim.simulation import AdvancedModel
    return AdvancedModel.get(m.device, list(m.targets), list(m.bg_gases), m.options)


def compare_rhs(ctx, m, ys, desc):
    """runs the kernel and the model on the states `ys`; returns worst relative deviation"""
    from ebisim.simulation._result import Rate
    D = ctx.driver
    nq, ng = m.nq, m.device.rad_grid.size
    blocks = parse(D.ask(model_line(m, ys)), nq, ng, len(ys))
    km = rate_keys()
    worst = 0.0
    for y, blk in zip(ys, blocks):
        dy, ex = impl_rhs(m, y)
        ctx.evaluations += 1
        # scale for the cancelling sums: sum of the absolute particle rates around each state
        Rs = sum(np.abs(blk[k]) for k in ("R_ei", "R_rr", "R_dr", "R_cx", "R_ax", "R_ra"))
        Rs = Rs + np.concatenate([[0], Rs[:-1]]) + np.concatenate([Rs[1:], [0]])
        n_r = np.maximum(np.abs(y[:nq]), 1e-300)
        kTv = np.maximum(y[nq:], 1e-3)
        Ts = Rs / n_r * (kTv + np.concatenate([[0], kTv[:-1]]) + np.concatenate([kTv[1:], [0]]) + np.abs(blk["iheat"]).max() + 1e-300) \
            + np.abs(blk["sh"]) + np.abs(blk["ct"]) + np.abs(blk["e_ax"] * blk["w_ax"] * kTv) + np.abs(blk["e_ra"] * blk["w_ra"] * kTv)
        # thermalisation sums cancel between partners: use the total collision rate times the temperature spread as scale
        Ts = Ts + np.abs(blk["ri"]) * (kTv.max() - kTv.min()) * 1e-3
        checks = [("dn", dy[:nq], blk["dn"], Rs), ("dkT", dy[nq:], blk["dkT"], Ts)]
        for name, rk in km.items():
            if rk in ex:
                sc = None
                if name == "ct":
                    sc = np.abs(blk["ri"]) * (kTv.max() + 1e-300)
                checks.append((name, ex[rk], blk[name], sc))
        checks.append(("scal", np.array([ex[Rate.E_KIN_MEAN][0], ex[Rate.E_KIN_FWHM][0], ex[Rate.V_AX][0], ex[Rate.V_RA][0]]), blk["scal"], None))
        for name, a, b, sc in checks:
            ok, w, i = common.compare(a, b, RTOL, sc)
            zero_mis = ((np.asarray(a) == 0) != (np.asarray(b) == 0)) if name in ("R_ei", "R_rr", "R_dr", "R_cx", "R_ax", "R_ra", "dn") and sc is None else np.zeros(1, bool)
            if np.isfinite(w):
                worst = max(worst, w)
            if not ok or zero_mis.any():
                ctx.fail("correspondence", f"_adv_rhs output '{name}'[{i}] = {np.asarray(a).ravel()[i]!r} but Adv.rhs gives {np.asarray(b).ravel()[i]!r} (rel {w:.2e}) for {desc}",
                         inp=dict(desc, y=y, key=name))
                return worst
    return worst


def build_model(rng, n_grid=60, k=None, zmax=30, gases=None, opts=None, **fixed_opts):
    from ebisim.simulation import AdvancedModel
    dev, dkw = gens.make_device(rng, n_grid=n_grid)
    tg, tdesc = gens.make_targets(rng, dev, k=k, zmax=zmax)
    bg, bdesc = gens.make_gases(rng, k=gases)
    if opts is None:
        opts, okw = gens.make_options(rng, **fixed_opts)
    else:
        okw = opts._asdict()
    m = AdvancedModel.get(dev, tg, bg, opts)
    return m, {"device": dkw, "targets": tdesc, "gases": bdesc, "options": {k: v for k, v in okw.items() if isinstance(v, (bool, int, float))}}


def rebuild(desc, opts_override=None):
    """re-create a model from its description"""
    import ebisim
    from ebisim.simulation import AdvancedModel, Device, BackgroundGas, ModelOptions
    dev = Device.get(**desc["device"])
    tg = []
    for t in desc["targets"]:
        if t[0] == "gas":
            tg.append(ebisim.Element.get_gas(int(t[1]), t[2], dev.r_dt, t[3], cx=bool(t[4])))
        elif t[0] == "explicit":
            tg.append(ebisim.Element.get(int(t[1]), n=np.asarray(t[2], float), kT=np.asarray(t[3], float), cx=bool(t[4])))
        else:
            tg.append(ebisim.Element.get_ions(int(t[1]), t[2], t[3], int(t[4]), cx=bool(t[5])))
    bg = [BackgroundGas.get(int(z), p, T) for z, p, T in desc["gases"]]
    o = dict(desc["options"]); o.update(opts_override or {})
    return AdvancedModel.get(dev, tg, bg, ModelOptions(**o))


def compare_build(ctx, m, desc):
    D = ctx.driver
    d = m.device
    line = f"advbuild {bits(d.e_kin)} {bits(d.fwhm)} {len(m.targets)} " + " ".join(f"{t.z} {bits(t.a)} {bits(t.ip)}" for t in m.targets) + " " + farr([g.ip for g in m.bg_gases])
    t = D.ask(line)
    pos = [0]
    def nl():
        n = int(t[pos[0]]); v = [int(x) for x in t[pos[0] + 1: pos[0] + 1 + n]]; pos[0] += 1 + n; return v
    def fl():
        n = int(t[pos[0]]); v = dec(t[pos[0] + 1: pos[0] + 1 + n]); pos[0] += 1 + n; return v
    lb, ub = nl(), nl(); nq = int(t[pos[0]]); pos[0] += 1
    q = nl(); a = fl(); eixs = fl(); rrxs = fl(); drxs = fl()
    nb = int(t[pos[0]]); pos[0] += 1; cxb = [fl() for _ in range(nb)]
    nt = int(t[pos[0]]); pos[0] += 1; cxt = [fl() for _ in range(nt)]
    ctx.evaluations += 1
    prob = []
    if lb != list(m.lb) or ub != list(m.ub) or nq != m.nq: prob.append("lb/ub/nq")
    if q != list(m.q): prob.append("q")
    if not np.array_equal(a, m.a.astype(float)): prob.append("a")
    for nm, x, y in (("eixs", eixs, m.eixs), ("rrxs", rrxs, m.rrxs), ("drxs", drxs, m.drxs)):
        if x.shape != y.shape or not common.compare(x, y, 1e-12, np.full(y.shape, 1e-300))[0] or ((x == 0) != (y == 0)).any(): prob.append(nm)
    for i, (x, y) in enumerate(zip(cxb, m.cxxs_bggas)):
        if not common.compare(x, np.asarray(y), 1e-12)[0]: prob.append(f"cxxs_bggas[{i}]")
    for i, (x, y) in enumerate(zip(cxt, m.cxxs_trgts)):
        if not common.compare(x, np.asarray(y), 1e-12)[0]: prob.append(f"cxxs_trgts[{i}]")
    if len(cxb) != len(m.cxxs_bggas) or len(cxt) != len(m.cxxs_trgts): prob.append("cx table count")
    if prob:
        ctx.fail("correspondence", f"AdvancedModel.get fields {prob} differ from Adv.build for {desc}", inp=desc)


def compare_initial(ctx, m, desc):
    from ebisim.simulation._advanced import _assemble_initial_conditions
    import logging
    logging.getLogger("ebisim").setLevel(logging.ERROR)
    D = ctx.driver
    y0 = _assemble_initial_conditions(m)
    line = f"advinit {bits(m.device.fwhm)} {len(m.targets)} " + " ".join(farr(t.n) + " " + farr(t.kT) for t in m.targets)
    mm = D.floats(line)
    ctx.evaluations += 1
    if mm.shape != y0.shape or not np.array_equal(mm, y0):
        ctx.fail("correspondence", f"_assemble_initial_conditions differs from Adv.initial for {desc}", inp=desc)
    return y0


def resonant_model(rng, **fixed_opts):
    """model whose (space-charge corrected, when cross sections are recomputed) beam energy sits on a DR resonance of its first
    target; DR enabled. Without this the DR cross sections are exactly 0 for almost every random energy."""
    import ebisim
    from ebisim.simulation import AdvancedModel, Device
    from ebisim.simulation._result import Rate
    fixed = dict(DR=True, RADIAL_DYNAMICS=False); fixed.update(fixed_opts)
    z = int(rng.choice([9, 10, 11, 12, 14, 18, 19, 20, 26]))
    el = ebisim.Element.get(z)
    er = float(el.dr_e_res[int(rng.integers(0, el.dr_e_res.size))])
    kw = gens.device_kwargs(rng, n_grid=60)
    kw["e_kin"] = er
    if kw["current"] / er ** 1.5 > 1.5e-6: kw["current"] = 1.5e-6 * er ** 1.5
    if rng.random() < 0.7: kw["fwhm"] = float(rng.uniform(8, 40))
    opts, okw = gens.make_options(rng, **fixed)
    dev = Device.get(**kw)
    tg, tdesc = gens.make_targets(rng, dev, k=int(rng.integers(1, 4)), zmax=30)
    nl = float(10 ** rng.uniform(4, 8))
    tdesc = [("ions", z, nl, float(rng.uniform(5, 50)), int(rng.integers(max(1, z - 9), z)), True)] + tdesc
    pos = int(rng.integers(0, len(tdesc)))
    tdesc = tdesc[1:pos + 1] + tdesc[:1] + tdesc[pos + 1:]
    bg, bdesc = gens.make_gases(rng)
    desc = {"device": kw, "targets": tdesc, "gases": bdesc, "options": {k: v for k, v in okw.items() if isinstance(v, (bool, int, float))}}
    m = rebuild(desc)
    if okw["RECOMPUTE_CROSS_SECTIONS"]:
        y = _assemble(m)
        _, ex = impl_rhs(m, y)
        shift = float(ex[Rate.E_KIN_MEAN][0]) - kw["e_kin"]
        kw["e_kin"] = er - shift
        m = rebuild(desc)
    return m, desc


def _assemble(m):
    from ebisim.simulation._advanced import _assemble_initial_conditions
    import logging
    logging.getLogger("ebisim").setLevel(logging.ERROR)
    return _assemble_initial_conditions(m)


def compensated_state(rng, m, frac=None):
    """state whose ion cloud compensates a sizeable fraction of the beam's space charge (hot enough for the
    Boltzmann-Poisson iteration to converge): the regime where trap depths shrink or change sign"""
    from ebisim.physconst import Q_E, M_E
    d = m.device
    nq = m.nq
    frac = float(rng.uniform(0.2, 0.9)) if frac is None else frac
    ne_l = d.current / (Q_E * np.sqrt(2 * Q_E * d.e_kin / M_E))
    n = np.full(nq, 1e-7)
    ions = np.nonzero(np.asarray(m.q) >= 1)[0]
    pick = rng.choice(ions, size=min(len(ions), int(rng.integers(1, 5))), replace=False)
    w = rng.uniform(0.2, 1, pick.size)
    for k, wk in zip(pick, w / w.sum()):
        n[k] = frac * ne_l * wk / m.q[k]
    kT = np.maximum(10 ** rng.uniform(0.5, 2.5, nq), 3.0 * np.maximum(m.q, 1))
    return np.concatenate([n, kT])
