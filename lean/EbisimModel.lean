import EbisimModel.Num
import EbisimModel.Gen.Const
import EbisimModel.Gen.Kernels
import EbisimModel.Gen.Dispatch
import EbisimModel.Gen.Tables
import EbisimModel.Model.Radial
import EbisimModel.Model.Chunks
