import EbisimModel
/-! Line-protocol driver: one request per line on stdin, one answer line on stdout.
Every floating-point number travels as the decimal rendering of its IEEE-754 bit pattern. -/
open Radial Xs Elements Basic

def fb (s : String) : Float := Float.ofBits (UInt64.ofNat s.toNat!)
def tokz (s : String) : Array String := Id.run do
  let mut out : Array String := #[]
  let mut cur := ""
  for c in s.toList do
    if c == ' ' || c == '\n' || c == '\r' then
      if cur ≠ "" then out := out.push cur; cur := ""
    else cur := cur.push c
  if cur ≠ "" then out := out.push cur
  return out
/-- length-prefixed float array starting at `pos`; returns the array and the next position -/
def farr (t : Array String) (pos : Nat) : Array Float × Nat :=
  let n := t[pos]!.toNat!
  ((Array.ofFn (n := n) fun i => fb t[pos + 1 + i.val]!), pos + 1 + n)
def farrs (t : Array String) (pos : Nat) : Array (Array Float) × Nat := Id.run do
  let k := t[pos]!.toNat!
  let mut p := pos + 1
  let mut acc : Array (Array Float) := #[]
  for _ in [0:k] do
    let (v, p') := farr t p
    acc := acc.push v; p := p'
  return (acc, p)
def flist (t : Array String) (pos : Nat) : List Float × Nat :=
  let (a, p) := farr t pos; (a.toList, p)
def narr (t : Array String) (pos : Nat) : Array Nat × Nat :=
  let n := t[pos]!.toNat!
  ((Array.ofFn (n := n) fun i => t[pos + 1 + i.val]!.toNat!), pos + 1 + n)
def pb (x : Float) : String := toString x.toBits.toNat
def pr (v : List Float) : String := " ".intercalate (v.map pb)
def prA (v : Array Float) : String := pr v.toList

def triples (l d u : List Float) : List (Float × Float × Float) :=
  zipWith3 (fun a b c => (a, b, c)) l d u
def untriple (c : List (Float × Float × Float)) : List Float :=
  c.map (·.1) ++ c.map (·.2.1) ++ c.map (·.2.2)

def species (nl kT q : List Float) : List (Species Float) :=
  zipWith3 (fun a b c => (⟨a, b, c⟩ : Species Float)) nl kT q

def bpAnswer (o : BPOut Float) : String :=
  toString o.iters ++ " " ++ pr (o.phi ++ o.nax ++ o.shape.foldr (· ++ ·) [])

/-- identifier: `num <int>` or `str <len> <code points…>` -/
def parseIdent (t : Array String) (pos : Nat) : Option Ident × Nat :=
  match t[pos]! with
  | "num" => (some (.num t[pos+1]!.toInt!), pos + 2)
  | "str" =>
    let n := t[pos+1]!.toNat!
    (some (.str ((List.range n).map fun i => t[pos + 2 + i]!.toNat!)), pos + 2 + n)
  | _ => (none, pos)
def codesToStr (c : List Nat) : String := String.ofList (c.map Char.ofNat)

def handle (t : Array String) : String :=
  match t[0]! with
  | "const" =>
    pr (Gen.Const.values (α := Float)) ++ " | " ++ pr (Gen.Const.exprValues (α := Float))
  | "k" =>
    let (a, _) := farr t 2
    match Gen.callKernel t[1]! a with
    | some (v, br) => pb v ++ " " ++ toString br
    | none => "bad-op"
  | "tdma" =>
    let (l, p) := flist t 1; let (d, p) := flist t p; let (u, p) := flist t p; let (b, _) := flist t p
    pr (tdma l d u b)
  | "fd" =>
    let (r, _) := flist t 2
    match t[1]! with
    | "uni" => pr (untriple (fdUniform r))
    | "non" => pr (untriple (fdNonuniform r))
    | _ => "bad-op"
  | "radpot" =>
    let (r, p) := flist t 2; let (rho, _) := flist t p
    match t[1]! with
    | "uni" => pr (potentialUniform r rho)
    | "non" => pr (potentialNonuniform r rho)
    | _ => "bad-op"
  | "cv" =>
    let (r, p) := flist t 1; let (phi, p) := flist t p
    pb (heatCapacity r phi (fb t[p]!) (fb t[p+1]!))
  | "bpstatic" =>
    -- bpstatic onaxis|linear r rho0 nl kT q hasFg [fg] hasLdu [l d u]
    let v := if t[1]! == "onaxis" then Variant.onaxis else Variant.linear
    let (r, p) := flist t 2; let (rho0, p) := flist t p
    let (nl, p) := flist t p; let (kT, p) := flist t p; let (q, p) := flist t p
    let hasFg := t[p]! == "1"
    let (fg, p) := if hasFg then let (f, p') := flist t (p+1); (some f, p') else (none, p+1)
    let hasLdu := t[p]! == "1"
    let ldu := if hasLdu then
        let (l, p1) := flist t (p+1); let (d, p2) := flist t p1; let (u, _) := flist t p2
        some (triples l d u) else none
    bpAnswer (bpStatic v r rho0 (species nl kT q) fg ldu)
  | "bpstatictol" =>
    -- like bpstatic but with an explicit tolerance as token 2 (borderline re-checks of the BLAS norm)
    let v := if t[1]! == "onaxis" then Variant.onaxis else Variant.linear
    let tol := fb t[2]!
    let (r, p) := flist t 3; let (rho0, p) := flist t p
    let (nl, p) := flist t p; let (kT, p) := flist t p; let (q, _) := flist t p
    let b0 := poissonRhs rho0
    let ldu := fdNonuniform r
    let phi0 := solve (withRhs ldu b0)
    let I : BPIn Float := { variant := v, r, ldu, b0, cden := [], e_kin := 0, sp := species nl kT q }
    bpAnswer (finish (Radial.loop I tol 500 phi0 0 none))
  | "bpebeam" =>
    -- bpebeam current r_e e_kin relDiff maxStep r nl kT q hasFg [fg] hasLdu [l d u]
    let cur := fb t[1]!; let r_e := fb t[2]!; let e_kin := fb t[3]!; let rd := fb t[4]!
    let ms := t[5]!.toNat!
    let (r, p) := flist t 6
    let (nl, p) := flist t p; let (kT, p) := flist t p; let (q, p) := flist t p
    let hasFg := t[p]! == "1"
    let (fg, p) := if hasFg then let (f, p') := flist t (p+1); (some f, p') else (none, p+1)
    let hasLdu := t[p]! == "1"
    let ldu := if hasLdu then
        let (l, p1) := flist t (p+1); let (d, p2) := flist t p1; let (u, _) := flist t p2
        some (triples l d u) else none
    bpAnswer (bpEbeam r cur r_e e_kin (species nl kT q) fg ldu ms rd)
  | "bpsor" =>
    -- bpsor current r_e e_kin r nl kT q hasFg [fg] hasLdu [l d u]
    let cur := fb t[1]!; let r_e := fb t[2]!; let e_kin := fb t[3]!
    let (r, p) := flist t 4
    let (nl, p) := flist t p; let (kT, p) := flist t p; let (q, p) := flist t p
    let hasFg := t[p]! == "1"
    let (fg, p) := if hasFg then let (f, p') := flist t (p+1); (some f, p') else (none, p+1)
    let hasLdu := t[p]! == "1"
    let ldu := if hasLdu then
        let (l, p1) := flist t (p+1); let (d, p2) := flist t p1; let (u, _) := flist t p2
        some (triples l d u) else none
    bpAnswer (bpEbeamSor r cur r_e e_kin (species nl kT q) fg ldu)
  | "bpstep" =>
    -- one Newton update: bpstep variant e_kin r phi b0 cden nl kT q l d u -> phi' nax shape y b jd
    let v := match t[1]! with | "onaxis" => Variant.onaxis | "linear" => Variant.linear | _ => Variant.ebeam
    let e_kin := fb t[2]!
    let (r, p) := flist t 3; let (phi, p) := flist t p; let (b0, p) := flist t p; let (cden, p) := flist t p
    let (nl, p) := flist t p; let (kT, p) := flist t p; let (q, p) := flist t p
    let (l, p) := flist t p; let (d, p) := flist t p; let (u, _) := flist t p
    let o := step { variant := v, r, ldu := triples l d u, b0, cden, e_kin, sp := species nl kT q } phi
    pr (o.phi ++ o.nax ++ o.shape.foldr (· ++ ·) [] ++ o.y ++ o.b ++ o.jd)
  | "eixs" => pr (eixsVec t[1]!.toNat! (fb t[2]!))
  | "rrxs" => pr (rrxsVec t[1]!.toNat! (fb t[2]!))
  | "drxs" => pr (drxsVec t[1]!.toNat! (fb t[2]!) (fb t[3]!))
  | "rrpre" =>
    let r := rrPre (α := Float) t[1]!.toNat!
    pr (r.map (·.1) ++ r.map (·.2))
  | "lotz" =>
    -- lotz Z ncs ncol : per (cs, shell) a status code and the triple
    let z := t[1]!.toNat!
    let rows := (List.range t[2]!.toNat!).flatMap fun cs => (List.range t[3]!.toNat!).map fun i =>
      let r := lotzEntry z cs i
      let code := match r with | .tab _ => "t" | .zero => "z" | .dflt => "d" | .outside => "o" | .keyError => "k"
      match coefOf (α := Float) r with
      | some (a, b, c) => code ++ " " ++ pb a ++ " " ++ pb b ++ " " ++ pb c
      | none => code ++ " 0 0 0"
    " ".intercalate rows
  | "cfg" => " ".intercalate ((Gen.cfg t[1]!.toNat!).map fun r => " ".intercalate (r.map toString))
  | "ebind" => pr ((Gen.ebind t[1]!.toNat!).flatten.map fun x => (Num.ofScaled x Gen.scEbind : Float))
  | "drtab" =>
    let rows := Gen.dr t[1]!.toNat!
    " ".intercalate (rows.map fun (cs, er, st) => toString cs ++ " " ++ pb (Num.ofScaled er Gen.scEres : Float) ++ " " ++ pb (Num.ofScaled st Gen.scStr : Float))
  | "mat" =>
    let (xs, _) := flist t 2
    match t[1]! with
    | "ei" => pr (eiMat xs).flatten
    | "rec" => pr (recMat xs).flatten
    | _ => "bad-op"
  | "esamp" => pr (eSampDefault (α := Float) t[1]!.toNat! t[2]!.toNat!)
  | "elimits" => pr [eMinRule (α := Float) t[1]!.toNat!, eMaxRule (α := Float) t[1]!.toNat!]
  | "drsamp" => pr (drSampDefault (α := Float) t[1]!.toNat! (fb t[2]!) t[3]!.toNat!)
  | "logspace" => pr (logspace (fb t[1]!) (fb t[2]!) t[3]!.toNat!)
  | "ident" =>
    match parseIdent t 1 with
    | (some id, _) =>
      (match identify id with
        | some (z, nm, sym) => "ok " ++ toString z ++ " " ++ codesToStr nm ++ " " ++ codesToStr sym
        | none => "ValueError")
    | (none, _) => "bad-op"
  | "ez" =>
    match parseIdent t 1 with
    | (some (.str s), _) => (match elementZ s with | some z => "ok " ++ toString z | none => "ValueError")
    | _ => "bad-op"
  | "esym" =>
    match parseIdent t 1 with
    | (some id, _) => (match elementSymbol id with | some c => "ok " ++ codesToStr c | none => "ValueError")
    | _ => "bad-op"
  | "ename" =>
    match parseIdent t 1 with
    | (some id, _) => (match elementName id with | some c => "ok " ++ codesToStr c | none => "ValueError")
    | _ => "bad-op"
  | "ehead" =>
    match parseIdent t 1 with
    | (some id, p) =>
      let a : Option Float := if t[p]! == "1" then some (fb t[p+1]!) else none
      (match elementHead id a with
        | some (z, a', ip) => "ok " ++ toString z ++ " " ++ pb a' ++ " " ++ pb ip
        | none => "ValueError")
    | (none, _) => "bad-op"
  | "eget" =>
    -- eget <ident> hasN [n…] hasKT [kT…]
    match parseIdent t 1 with
    | (some id, p) =>
      let (n, p) := if t[p]! == "1" then let (v, p') := flist t (p+1); (some v, p') else (none, p+1)
      let (k, _) := if t[p]! == "1" then let (v, p') := flist t (p+1); (some v, p') else (none, p+1)
      (match elementGetNK id n k with
        | some (n', k') => "ok " ++ (match n' with | some v => "1 " ++ toString v.length ++ " " ++ pr v | none => "0") ++ " "
            ++ (match k' with | some v => "1 " ++ toString v.length ++ " " ++ pr v | none => "0")
        | none => "ValueError")
    | (none, _) => "bad-op"
  | "gas" =>
    match parseIdent t 1 with
    | (some id, p) =>
      (match getGas id (fb t[p]!) (fb t[p+1]!) (fb t[p+2]!) with
        | some (n, kT) => "ok " ++ pr (n ++ kT)
        | none => "ValueError")
    | (none, _) => "bad-op"
  | "ions" =>
    match parseIdent t 1 with
    | (some id, p) =>
      (match getIons id (fb t[p]!) (fb t[p+1]!) t[p+2]!.toNat! with
        | some (n, kT) => "ok " ++ pr (n ++ kT)
        | none => "ValueError")
    | (none, _) => "bad-op"
  | "basic" =>
    -- basic Z j E hasW [w] cni hasN0 [n0…] : rate matrix (flattened) | y0
    let z := t[1]!.toNat!
    let j := fb t[2]!; let e := fb t[3]!
    let hasW := t[4]! == "1"
    let (w, p) := if hasW then (some (fb t[5]!), 6) else (none, 5)
    let cni := t[p]! == "1"
    let hasN := t[p+1]! == "1"
    let given := if hasN then some (flist t (p+2)).1 else none
    let c := Basic.call z j e (Num.lit 0) w given cni none
    pr c.jac.flatten ++ " | " ++ pr c.y0
  | "matvec" =>
    let n := t[1]!.toNat!
    let (m, p) := flist t 2
    let (v, _) := flist t p
    let rows := (List.range n).map fun i => (m.drop (i * n)).take n
    pr (Basic.matVec rows v)
  | "beam" =>
    -- beam cur b_d r_d b_c r_c t_c e_kin r -> ok value iters new old r_e phi0 | ValueError
    let B : Beam.Params Float := ⟨fb t[1]!, fb t[2]!, fb t[3]!, fb t[4]!, fb t[5]!, fb t[6]!⟩
    match Beam.correction B 10000 (fb t[7]!) (fb t[8]!) with
    | none => "ValueError"
    | some (v, s) => "ok " ++ pb v ++ " " ++ toString s.iters ++ " " ++ pr [s.new, s.old, s.r_e, s.phi0] ++ (if s.exhausted then " exhausted" else "")
  | "devgrid" =>
    let g := Dev.grid (fb t[1]!) (fb t[2]!) t[3]!.toNat!
    toString (Dev.argminSq g (fb t[1]!)) ++ " " ++ pr g
  | "devget" =>
    -- devget current e_kin r_e v_ax b_ax r_dt n_grid  hasVra [v] hasJ [j] hasFwhm [f] hasRbar [r]
    let opt := fun (p : Nat) => if t[p]! == "1" then (some (fb t[p+1]!), p + 2) else ((none : Option Float), p + 1)
    let (vra, p) := opt 8; let (j, p) := opt p; let (fw, p) := opt p; let (rb, _) := opt p
    let d := Dev.get { current := fb t[1]!, e_kin := fb t[2]!, r_e := fb t[3]!, v_ax := fb t[4]!, b_ax := fb t[5]!, r_dt := fb t[6]!,
                       n_grid := t[7]!.toNat!, v_ra := vra, j := j, fwhm := fw, r_dt_bar := rb }
    toString d.reIdx ++ " " ++ toString d.grid.length ++ " " ++ pr [d.j, d.fwhm, d.v_ra, d.v_ax_sc, d.r_dt_bar] ++ " "
      ++ pr d.grid ++ " " ++ pr d.phi ++ " " ++ pr d.phiAxBarr ++ " " ++ pr (untriple d.ldu)
  | "advrhs" =>
    -- advrhs <12 option bits> maxSteps relDiff  scal[9]  ix  lb ub zs  q a eixs rrxs drxs  cxBg[] bgN0 cxTg[] tgCx  r phi0 l d u  ys[]
    let ob := fun (i : Nat) => t[1 + i]! == "1"
    let o : Adv.Options := ⟨ob 0, ob 1, ob 2, ob 3, ob 4, ob 5, ob 6, ob 7, ob 8, ob 9, ob 10, ob 11⟩
    let maxSteps := t[13]!.toNat!; let relDiff := fb t[14]!
    let (sc, p) := farr t 15
    let ix := t[p]!.toNat!
    let (lb, p) := narr t (p+1); let (ub, p) := narr t p; let (zs, p) := narr t p
    let (q, p) := farr t p; let (a, p) := farr t p
    let (eixs, p) := farr t p; let (rrxs, p) := farr t p; let (drxs, p) := farr t p
    let (cxBg, p) := farrs t p; let (bgN0, p) := farr t p
    let (cxTg, p) := farrs t p; let (tgcx, p) := narr t p
    let (r, p) := farr t p; let (phi0, p) := farr t p
    let (l, p) := flist t p; let (d, p) := flist t p; let (u, p) := flist t p
    let (ys, _) := farrs t p
    let m : Adv.Model Float :=
      { nq := q.size, lb := lb.toList, ub := ub.toList, zs := zs.toList, q, a, eixs, rrxs, drxs, cxBg, bgN0, cxTg,
        tgCx := tgcx.map (· == 1), r, phi0, ldu := triples l d u, ix,
        r_e := sc[0]!, e_kin := sc[1]!, fwhm := sc[2]!, j := sc[3]!, v_ax := sc[4]!, v_ax_sc := sc[5]!, b_ax := sc[6]!,
        r_dt := sc[7]!, current := sc[8]!, maxSteps, relDiff, opts := o }
    let nq := q.size
    let tab := fun (f : Nat → Float) => prA (Array.ofFn (n := nq) fun k => f k.val)
    " | ".intercalate (ys.toList.map fun y =>
      let res := Adv.rhs m y
      let S := res.S
      " ".intercalate [tab res.dn, tab res.dkT, prA S.R_ei, prA S.R_rr, prA S.R_dr, prA S.R_cx, prA S.R_ax, prA S.R_ra,
        prA S.fei, prA S.iheat, prA S.sh, prA S.ct, prA S.ri, prA S.rself, prA S.w_ax, prA S.w_ra, prA S.e_ax, prA S.e_ra,
        prA S.n3d, pr [S.e_kin, S.fwhm, S.v_ax, S.v_ra], prA S.phi])
  | "advbuild" =>
    -- advbuild e_kin fwhm  ntargets (Z a ip)*  gasIp
    let e_kin := fb t[1]!; let fwhm := fb t[2]!
    let nt := t[3]!.toNat!
    let tg := (List.range nt).map fun i => (t[4 + 3*i]!.toNat!, fb t[5 + 3*i]!, fb t[6 + 3*i]!)
    let (gip, _) := flist t (4 + 3*nt)
    let b := Adv.build e_kin fwhm tg gip
    let nl := fun (l : List Nat) => toString l.length ++ " " ++ " ".intercalate (l.map toString)
    let fl := fun (l : List Float) => toString l.length ++ " " ++ pr l
    " ".intercalate ([nl b.lb, nl b.ub, toString b.nq, nl b.q, fl b.a, fl b.eixs, fl b.rrxs, fl b.drxs,
      toString b.cxBg.length] ++ b.cxBg.map fl ++ [toString b.cxTg.length] ++ b.cxTg.map fl)
  | "advcall" =>
    -- advcall t_max hasMethod [method] -> t0 t1 method vectorized   (the start vector is `advinit`)
    let c := Adv.call (Num.lit 0 : Float) (fb t[1]!) [] (if t[2]! == "1" then some t[3]! else none)
    pr [c.t0, c.t1] ++ " " ++ c.method ++ " " ++ (if c.vectorized then "1" else "0")
  | "advinit" =>
    -- advinit fwhm ntargets (n kT)*
    let fwhm := fb t[1]!
    let nt := t[2]!.toNat!
    let rec go (k : Nat) (p : Nat) (acc : List (List Float × List Float)) : List (List Float × List Float) :=
      match k with
      | 0 => acc.reverse
      | k + 1 => let (n, p1) := flist t p; let (kT, p2) := flist t p1; go k p2 ((n, kT) :: acc)
    pr (Adv.initial fwhm (go nt 3 []))
  | "chunks" =>
    " ".intercalate ((Chunks.indices t[1]!.toNat! t[2]!.toNat!).map fun ab => toString ab.1 ++ " " ++ toString ab.2)
  | "escan" =>
    -- escan <energies>: sorted energies | results of the tagging simulation (result = its energy)
    let (es, _) := flist t 1
    let r := Scan.run (fun a b : Float => decide (a ≤ b)) id (fun (_ : Unit) e => e) () es
    pr r.1 ++ " | " ++ pr r.2
  | "escanget" =>
    -- escanget <sorted energies> e: index of the returned result or none
    let (es, p) := flist t 1
    match Scan.getResult (fun a b : Float => a == b) es (List.range es.length) (fb t[p]!) with
    | some i => toString i
    | none => "none"
  | "escantime" =>
    match Scan.abundanceAtTime (fb t[1]!) [()] (fun _ _ => ()) (fb t[2]!) with
    | some _ => "ok"
    | none => "err"
  | "escancs" =>
    -- escancs z tmax cs
    match Scan.abundanceOfCs t[1]!.toNat! (fb t[2]!) ([] : List Unit) (fun _ _ => []) t[3]!.toNat! with
    | some (ts, _) => pr ts
    | none => "err"
  | "resdomain" =>
    let (ts, p) := flist t 1
    if Res.outOfDomain ts (fb t[p]!) then "err" else "ok"
  | "resassemble" =>
    -- resassemble nq ncols (col)* nb (lb ub)*: per target: N rows (column-major as given), kT rows
    let nq := t[1]!.toNat!
    let (cols, p) := farrs t 2
    let nb := t[p]!.toNat!
    let bounds := (List.range nb).map fun i => (t[p + 1 + 2 * i]!.toNat!, t[p + 2 + 2 * i]!.toNat!)
    let out := Res.assemble (cols.toList.map (·.toList)) nq bounds
    " | ".intercalate (out.map fun (n, k) => pr n.flatten ++ " ; " ++ pr k.flatten)
  | "resdense" =>
    -- resdense lb ub <column>: abundance rows ; temperature rows of one dense column
    let (c, _) := flist t 3
    let lb := t[1]!.toNat!; let ub := t[2]!.toNat!
    pr (Res.denseAbundance (fun (_ : Float) => c) lb ub 0.0) ++ " ; " ++ pr (Res.denseTemperature (fun (_ : Float) => c) c.length lb ub 0.0)
  | "reslerp" =>
    -- reslerp <ts> ncols (col)* t : interp1d of the stored columns at t
    let (ts, p) := flist t 1
    let (cols, p2) := farrs t p
    pr (Res.lerp ts (cols.toList.map (·.toList)) (fb t[p2]!))
  | "bounds" =>
    let (zs, _) := narr t 1
    " ".intercalate ((Adv.bounds zs.toList 0).map fun b => toString b.1 ++ " " ++ toString b.2)
  | _ => "bad-op"

partial def loop (h : IO.FS.Stream) (out : IO.FS.Stream) : IO Unit := do
  let line ← h.getLine
  if line.isEmpty then return
  let t := tokz line
  if t.size == 0 then out.putStrLn "bad-op" else out.putStrLn (handle t)
  out.flush
  loop h out
def main : IO Unit := do loop (← IO.getStdin) (← IO.getStdout)
