import EbisimModel
/-! Line-protocol driver: one request per line on stdin, one answer line on stdout.
Every floating-point number travels as the decimal rendering of its IEEE-754 bit pattern. -/
open Radial

def fb (s : String) : Float := Float.ofBits (UInt64.ofNat s.toNat!)
def tokz (s : String) : Array String := Id.run do
  let mut out : Array String := #[]
  let mut cur := ""
  for c in s.toList do
    if c == ' ' || c == '\n' || c == '\r' then
      if cur ≠ "" then out := out.push cur; cur := ""
    else cur := cur.push c
  if cur ≠ "" then out := out.push cur
  return out
/-- length-prefixed float array starting at `pos`; returns the array and the next position -/
def farr (t : Array String) (pos : Nat) : Array Float × Nat :=
  let n := t[pos]!.toNat!
  ((Array.ofFn (n := n) fun i => fb t[pos + 1 + i.val]!), pos + 1 + n)
def flist (t : Array String) (pos : Nat) : List Float × Nat :=
  let (a, p) := farr t pos; (a.toList, p)
def narr (t : Array String) (pos : Nat) : Array Nat × Nat :=
  let n := t[pos]!.toNat!
  ((Array.ofFn (n := n) fun i => t[pos + 1 + i.val]!.toNat!), pos + 1 + n)
def pb (x : Float) : String := toString x.toBits.toNat
def pr (v : List Float) : String := " ".intercalate (v.map pb)
def prA (v : Array Float) : String := pr v.toList

def triples (l d u : List Float) : List (Float × Float × Float) :=
  zipWith3 (fun a b c => (a, b, c)) l d u
def untriple (c : List (Float × Float × Float)) : List Float :=
  c.map (·.1) ++ c.map (·.2.1) ++ c.map (·.2.2)

def species (nl kT q : List Float) : List (Species Float) :=
  zipWith3 (fun a b c => (⟨a, b, c⟩ : Species Float)) nl kT q

def bpAnswer (o : BPOut Float) : String :=
  toString o.iters ++ " " ++ pr (o.phi ++ o.nax ++ o.shape.foldr (· ++ ·) [])

def handle (t : Array String) : String :=
  match t[0]! with
  | "const" =>
    pr (Gen.Const.values (α := Float)) ++ " | " ++ pr (Gen.Const.exprValues (α := Float))
  | "k" =>
    let (a, _) := farr t 2
    match Gen.callKernel t[1]! a with
    | some (v, br) => pb v ++ " " ++ toString br
    | none => "bad-op"
  | "tdma" =>
    let (l, p) := flist t 1; let (d, p) := flist t p; let (u, p) := flist t p; let (b, _) := flist t p
    pr (tdma l d u b)
  | "fd" =>
    let (r, _) := flist t 2
    match t[1]! with
    | "uni" => pr (untriple (fdUniform r))
    | "non" => pr (untriple (fdNonuniform r))
    | _ => "bad-op"
  | "radpot" =>
    let (r, p) := flist t 2; let (rho, _) := flist t p
    match t[1]! with
    | "uni" => pr (potentialUniform r rho)
    | "non" => pr (potentialNonuniform r rho)
    | _ => "bad-op"
  | "cv" =>
    let (r, p) := flist t 1; let (phi, p) := flist t p
    pb (heatCapacity r phi (fb t[p]!) (fb t[p+1]!))
  | "bpstatic" =>
    -- bpstatic onaxis|linear r rho0 nl kT q hasFg [fg] hasLdu [l d u]
    let v := if t[1]! == "onaxis" then Variant.onaxis else Variant.linear
    let (r, p) := flist t 2; let (rho0, p) := flist t p
    let (nl, p) := flist t p; let (kT, p) := flist t p; let (q, p) := flist t p
    let hasFg := t[p]! == "1"
    let (fg, p) := if hasFg then let (f, p') := flist t (p+1); (some f, p') else (none, p+1)
    let hasLdu := t[p]! == "1"
    let ldu := if hasLdu then
        let (l, p1) := flist t (p+1); let (d, p2) := flist t p1; let (u, _) := flist t p2
        some (triples l d u) else none
    bpAnswer (bpStatic v r rho0 (species nl kT q) fg ldu)
  | "bpebeam" =>
    -- bpebeam current r_e e_kin relDiff maxStep r nl kT q hasFg [fg] hasLdu [l d u]
    let cur := fb t[1]!; let r_e := fb t[2]!; let e_kin := fb t[3]!; let rd := fb t[4]!
    let ms := t[5]!.toNat!
    let (r, p) := flist t 6
    let (nl, p) := flist t p; let (kT, p) := flist t p; let (q, p) := flist t p
    let hasFg := t[p]! == "1"
    let (fg, p) := if hasFg then let (f, p') := flist t (p+1); (some f, p') else (none, p+1)
    let hasLdu := t[p]! == "1"
    let ldu := if hasLdu then
        let (l, p1) := flist t (p+1); let (d, p2) := flist t p1; let (u, _) := flist t p2
        some (triples l d u) else none
    bpAnswer (bpEbeam r cur r_e e_kin (species nl kT q) fg ldu ms rd)
  | "bpstep" =>
    -- one Newton update: bpstep variant e_kin r phi b0 cden nl kT q l d u -> phi' nax shape y b jd
    let v := match t[1]! with | "onaxis" => Variant.onaxis | "linear" => Variant.linear | _ => Variant.ebeam
    let e_kin := fb t[2]!
    let (r, p) := flist t 3; let (phi, p) := flist t p; let (b0, p) := flist t p; let (cden, p) := flist t p
    let (nl, p) := flist t p; let (kT, p) := flist t p; let (q, p) := flist t p
    let (l, p) := flist t p; let (d, p) := flist t p; let (u, _) := flist t p
    let o := step { variant := v, r, ldu := triples l d u, b0, cden, e_kin, sp := species nl kT q } phi
    pr (o.phi ++ o.nax ++ o.shape.foldr (· ++ ·) [] ++ o.y ++ o.b ++ o.jd)
  | "chunks" =>
    " ".intercalate ((Chunks.indices t[1]!.toNat! t[2]!.toNat!).map fun ab => toString ab.1 ++ " " ++ toString ab.2)
  | _ => "bad-op"

partial def loop (h : IO.FS.Stream) (out : IO.FS.Stream) : IO Unit := do
  let line ← h.getLine
  if line.isEmpty then return
  let t := tokz line
  if t.size == 0 then out.putStrLn "bad-op" else out.putStrLn (handle t)
  out.flush
  loop h out
def main : IO Unit := do loop (← IO.getStdin) (← IO.getStdout)
