import EbisimProofs.Props.C13
#print axioms C13.step_is_newton
#print axioms C13.self_consistent_partial
#print axioms C13.converged_exit
#print axioms C13.getLast?_zipWith_sub
#print axioms C13.targetFun_getLast?
#print axioms C13.newtonRows_getLast?
#print axioms C13.newton_wall_zero
#print axioms C13.trapz_smul
#print axioms C13.line_density_linear
#print axioms C13.line_density_ebeam
#print axioms C13.zipWith3_map
#print axioms C13.step_nax
#print axioms C13.shape_bounds
#print axioms C13.step_shape
#print axioms C13.heat_capacity_ge
#print axioms C13.heat_capacity_flat
