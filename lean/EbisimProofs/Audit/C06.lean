import EbisimProofs.Props.C06
#print axioms C06.eiM_mulVec
#print axioms C06.recM_mulVec
#print axioms C06.adv_refines_basic
#print axioms C06.neutral_constant
#print axioms C06.ei_only_ion_growth
#print axioms C06.flux_agrees
