import EbisimProofs.Props.C17
#print axioms C17.energies_sorted_perm
#print axioms C17.results_pointwise
#print axioms C17.indexOf?_spec
#print axioms C17.getResult_spec
#print axioms C17.abundanceAtTime_spec
#print axioms C17.abundanceOfCs_spec
#print axioms C17.csTimes_in_domain
#print axioms C17.getResult_of_mem
#print axioms C17.tables_consistent
