import EbisimProofs.Props.C20
#print axioms C20.charPot_eq_spec
#print axioms C20.herrmann_eq_spec
#print axioms C20.herrmann_ge_brillouin
#print axioms C20.herrmann_mono
#print axioms C20.herrmann_mono_cathode
#print axioms C20.body_consistent
#print axioms C20.loop_spec
#print axioms C20.fixed_point_partial
#print axioms C20.profile_continuous
#print axioms C20.profile_zero_at_tube
#print axioms C20.profile_neg
#print axioms C20.profile_mono
#print axioms C20.range_error
