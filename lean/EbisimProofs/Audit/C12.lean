import EbisimProofs.Props.C12
#print axioms C12.tdma_correct
#print axioms C12.grid_steps
#print axioms C12.fd_interior_exact
#print axioms C12.fdUni_eq_aux
#print axioms C12.fd_uniform_eq_nonuniform
#print axioms C12.fdInterior_getLast?
#print axioms C12.fdUniInterior_getLast?
#print axioms C12.poissonRhs_getLast?
#print axioms C12.poissonRhs_length
#print axioms C12.withRhs_getLast?
#print axioms C12.solve_getLast?_of_wall
#print axioms C12.wall_zero
#print axioms C12.poissonRhs_linear
#print axioms C12.withRhs_eq_setRhs
#print axioms C12.potential_linear
