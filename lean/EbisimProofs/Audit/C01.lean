import EbisimProofs.Props.C01
#print axioms C01.rate_ode_solution
#print axioms C01.continuation
#print axioms C01.current_time_scaling
#print axioms C01.unit_conversion
#print axioms C01.default_start
#print axioms C01.cniM_smul
#print axioms C01.toM_rateMatrix
#print axioms C01.jacobian_is_documented
#print axioms C01.dr_iff_width
#print axioms C01.cni_row
