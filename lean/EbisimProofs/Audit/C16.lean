import EbisimProofs.Props.C16
#print axioms C16.cover_go
#print axioms C16.sum_const_add
#print axioms C16.sum_indicator
#print axioms C16.sum_lens
#print axioms C16.cover_indices
#print axioms C16.go_nonempty
#print axioms C16.indices_nonempty
#print axioms C16.go_length
#print axioms C16.indices_length
#print axioms C16.go_sizes
#print axioms C16.indices_sizes
#print axioms C16.go_contig
#print axioms C16.indices_contiguous
#print axioms C16.slices_go
#print axioms C16.threaded_eq_sequential
#print axioms C16.thread_count_irrelevant
#print axioms C16.scan_parallel_eq_sequential
