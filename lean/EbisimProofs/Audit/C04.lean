import EbisimProofs.Props.C04
#print axioms C04.dkT_is_documented_sum
#print axioms C04.state_energy
#print axioms C04.thermal_energy_balance
#print axioms C04.escape_cools
#print axioms C04.escape_inputs_nonneg
#print axioms C04.heat_flows_hot_to_cold
#print axioms C04.spitzer_never_cools
