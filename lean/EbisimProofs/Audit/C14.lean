import EbisimProofs.Props.C14
#print axioms C14.fd_belongs_to_grid
#print axioms C14.j_default
#print axioms C14.vra_default
#print axioms C14.fwhm_default
#print axioms C14.barrier_correction
#print axioms C14.trap_potential
#print axioms C14.overrides_verbatim
#print axioms C14.linspace_open
#print axioms C14.geomspace_closed
#print axioms C14.pairwise_map_range
#print axioms C14.grid_spec
#print axioms C14.argmin_go_zero
#print axioms C14.argmin_go_hit
#print axioms C14.argminSq_hit
#print axioms C14.beam_edge_index
