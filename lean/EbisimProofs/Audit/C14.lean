import EbisimProofs.Props.C14
#print axioms C14.fd_belongs_to_grid
#print axioms C14.j_default
#print axioms C14.vra_default
#print axioms C14.fwhm_default
#print axioms C14.barrier_correction
#print axioms C14.trap_potential
#print axioms C14.overrides_verbatim
