import EbisimModel.Model.Chunks

/-! # C16 — independence of thread count: the bookkeeping part

For all `n_cols` and all `n_threads ≥ 1` (no bound): the chunks are a partition of the columns
into at most `n_threads` contiguous non-empty pieces whose sizes differ by at most one, and the
threaded block evaluation equals the state-by-state evaluation for every right-hand side `f`.
Real thread / process interleavings are outside the model (monitored bit-exactly). Core Lean only. -/
namespace C16
open Chunks

/-- columns covered by a list of chunks, in order -/
def cover (l : List (Nat × Nat)) : List Nat := l.flatMap fun ab => List.range' ab.1 (ab.2 - ab.1)

theorem cover_go (s : Nat) (cs : List Nat) : cover (go s cs) = List.range' s cs.sum := by
  induction cs generalizing s with
  | nil => simp [go, cover]
  | cons c cs ih =>
    simp only [go]
    split
    · simp only [cover, List.flatMap_cons] at ih ⊢
      rw [ih, List.sum_cons]
      have : s + c - s = c := by omega
      rw [this, ← List.range'_append_1]
    · have : c = 0 := by omega
      subst this; simpa using ih s

theorem sum_const_add (a : Nat) (f : Nat → Nat) (l : List Nat) :
    (l.map fun k => a + f k).sum = l.length * a + (l.map f).sum := by
  induction l with
  | nil => simp
  | cons x xs ih => simp only [List.map_cons, List.sum_cons, List.length_cons, ih]; rw [Nat.succ_mul]; omega

theorem sum_indicator (m t : Nat) (h : m ≤ t) :
    ((List.range t).map fun k => if k < m then 1 else 0).sum = m := by
  induction t with
  | zero => have : m = 0 := by omega
            subst this; simp
  | succ t ih =>
    rw [List.range_succ, List.map_append, List.sum_append]
    by_cases hm : m ≤ t
    · rw [ih hm]; simp; omega
    · have : m = t + 1 := by omega
      subst this
      have h1 : ((List.range t).map fun k => if k < t + 1 then 1 else 0) = (List.range t).map fun _ => 1 := by
        apply List.map_congr_left; intro k hk; simp at hk; simp; omega
      rw [h1]
      have : ∀ l : List Nat, (l.map fun _ => 1).sum = l.length := by
        intro l; induction l with
        | nil => rfl
        | cons x xs ih => simp only [List.map_cons, List.sum_cons, List.length_cons, ih]; omega
      rw [this, List.length_range]; simp

theorem sum_lens (n t : Nat) (ht : 0 < t) : (lens n t).sum = n := by
  unfold lens len
  rw [sum_const_add, sum_indicator _ _ (Nat.le_of_lt (Nat.mod_lt _ ht)), List.length_range]
  exact Nat.div_add_mod n t

/-- **the chunks cover columns `0 … n-1` exactly once, in order** -/
theorem cover_indices (n t : Nat) (ht : 0 < t) : cover (indices n t) = List.range n := by
  rw [indices, cover_go, sum_lens n t ht, List.range_eq_range']

theorem go_nonempty (s : Nat) (cs : List Nat) : ∀ ab ∈ go s cs, ab.1 < ab.2 := by
  induction cs generalizing s with
  | nil => simp [go]
  | cons c cs ih =>
    simp only [go]; split
    · intro ab h; simp at h; rcases h with rfl | h
      · simp; omega
      · exact ih _ ab h
    · exact ih _

/-- **every chunk is non-empty** -/
theorem indices_nonempty (n t : Nat) : ∀ ab ∈ indices n t, ab.1 < ab.2 := go_nonempty 0 _

theorem go_length (s : Nat) (cs : List Nat) : (go s cs).length ≤ cs.length := by
  induction cs generalizing s with
  | nil => simp [go]
  | cons c cs ih => simp only [go]; split <;> simp <;> have := ih (s + c) <;> omega

/-- **at most `n_threads` chunks** -/
theorem indices_length (n t : Nat) : (indices n t).length ≤ t := by
  have := go_length 0 (lens n t); simpa [indices, lens] using this

theorem go_sizes (s : Nat) (cs : List Nat) (a : Nat) (h : ∀ c ∈ cs, c = a ∨ c = a + 1) :
    ∀ ab ∈ go s cs, ab.2 - ab.1 = a ∨ ab.2 - ab.1 = a + 1 := by
  induction cs generalizing s with
  | nil => simp [go]
  | cons c cs ih =>
    have hc := h c (by simp)
    have ht : ∀ c' ∈ cs, c' = a ∨ c' = a + 1 := fun c' h' => h c' (by simp [h'])
    simp only [go]; split
    · intro ab hab; simp at hab; rcases hab with rfl | hab
      · simp; omega
      · exact ih _ ht ab hab
    · exact ih _ ht

/-- **chunk sizes differ by at most one**: each is `⌊n/t⌋` or `⌊n/t⌋+1` -/
theorem indices_sizes (n t : Nat) : ∀ ab ∈ indices n t,
    ab.2 - ab.1 = n / t ∨ ab.2 - ab.1 = n / t + 1 := by
  apply go_sizes
  intro c hc
  simp only [lens, List.mem_map, List.mem_range] at hc
  obtain ⟨k, _, rfl⟩ := hc
  unfold len; split <;> simp

/-- chunks form a contiguous chain starting at `s` -/
def Contig : Nat → List (Nat × Nat) → Prop
  | _, [] => True
  | s, ab :: rest => ab.1 = s ∧ Contig ab.2 rest

theorem go_contig (s : Nat) (cs : List Nat) : Contig s (go s cs) := by
  induction cs generalizing s with
  | nil => simp [go, Contig]
  | cons c cs ih =>
    simp only [go]; split
    · exact ⟨rfl, ih _⟩
    · have : c = 0 := by omega
      subst this; simpa using ih s

/-- **chunks are contiguous**: the first starts at column 0 and each starts where the previous ends -/
theorem indices_contiguous (n t : Nat) : Contig 0 (indices n t) := go_contig 0 _

theorem slices_go {β γ : Type} (f : β → γ) (cols : List β) (s : Nat) (cs : List Nat) :
    ((go s cs).flatMap fun ab => chunked f (slice cols ab)) = ((cols.drop s).take cs.sum).map f := by
  induction cs generalizing s with
  | nil => simp [go]
  | cons c cs ih =>
    simp only [go]
    split
    · simp only [List.flatMap_cons]
      rw [ih]
      simp only [chunked, slice, List.sum_cons]
      have : s + c - s = c := by omega
      rw [this, List.take_add, List.map_append, List.drop_drop]
    · have : c = 0 := by omega
      subst this; simpa using ih s

/-- **block evaluation by any number of threads equals state-by-state evaluation**, for every
right-hand side `f`, every block and every `n_threads ≥ 1` -/
theorem threaded_eq_sequential {β γ : Type} (f : β → γ) (cols : List β) (t : Nat) (ht : 0 < t) :
    threaded f cols t = cols.map f := by
  unfold threaded indices
  rw [slices_go, sum_lens _ _ ht]
  simp

/-- consequently the result does not depend on the thread count -/
theorem thread_count_irrelevant {β γ : Type} (f : β → γ) (cols : List β) (t t' : Nat) (ht : 0 < t) (ht' : 0 < t') :
    threaded f cols t = threaded f cols t' := by
  rw [threaded_eq_sequential f cols t ht, threaded_eq_sequential f cols t' ht']

/-- an energy scan run through an order-preserving pool `map` equals the sequential loop
(`pool.map = List.map` is the assumed contract of `multiprocessing.Pool.map`) -/
theorem scan_parallel_eq_sequential {β γ : Type} (sim : β → γ) (energies : List β)
    (poolMap : (β → γ) → List β → List γ) (hpool : ∀ g l, poolMap g l = l.map g) :
    poolMap sim energies = energies.map sim := hpool sim energies

-- non-vacuity / sanity: 10 columns on 4 threads
example : indices 10 4 = [(0, 3), (3, 6), (6, 8), (8, 10)] := by decide
example : indices 3 8 = [(0, 1), (1, 2), (2, 3)] := by decide
end C16
