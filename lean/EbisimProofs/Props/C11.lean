import EbisimProofs.Lemmas.Consts
import EbisimModel.Model.Elements

/-! # C11 — element database is self-consistent, lookups exact

Tables are regenerated from `resources/_element_data.py`, `_shell_data.py` on every run; the lookup
functions are the hand model `Elements.*` of `ebisim/elements.py` (exhaustive correspondence over
all identifiers). Table facts are kernel evaluations over *all* rows. -/
namespace C11
open Elements Xs Gen Num

/-! ## A. identifier lookups -/

theorem idxOfK_none {κ : Type} [DecidableEq κ] (k : κ) : ∀ (l : List κ) (i : ℕ), k ∉ l → idxOfK k l i = none := by
  intro l
  induction l with
  | nil => intro i _; rfl
  | cons x xs ih =>
    intro i h
    simp only [List.mem_cons, not_or] at h
    simp only [idxOfK]
    rw [if_neg (fun e => h.1 e.symm)]
    exact ih (i + 1) h.2

theorem idxOfK_some_mem {κ : Type} [DecidableEq κ] (k : κ) : ∀ (l : List κ) (i j : ℕ), idxOfK k l i = some j → k ∈ l := by
  intro l
  induction l with
  | nil => intro i j h; simp [idxOfK] at h
  | cons x xs ih =>
    intro i j h
    simp only [idxOfK] at h
    split_ifs at h with hx
    · simp [hx]
    · exact List.mem_cons_of_mem _ (ih (i + 1) j h)

/-- row `i` of the element tables: identification by Z, by symbol and by name all return this row's
`(Z, name, symbol)`; `Z = i+1`; the symbol has ≤ 2 characters, the name ≥ 3; default mass number
and ionisation potential are this row's -/
def lookupRowOkB (i : ℕ) : Bool :=
  match elemZ[i]?, elemESc[i]?, elemNAMEc[i]? with
  | some z, some s, some nm =>
    Nat.beq z (i + 1) && decide (identify (.num z) = some (z, nm, s)) && decide (identify (.str s) = some (z, nm, s))
      && decide (identify (.str nm) = some (z, nm, s)) && Nat.ble s.length 2 && Nat.ble 3 nm.length
      && decide (indexOf z elemZ = some i)
  | _, _, _ => false

def lookupAllB : ℕ → Bool
  | 0 => true
  | n + 1 => lookupRowOkB n && lookupAllB n

theorem lookup_tables_ok : lookupAllB 105 = true := by decide +kernel
theorem table_lengths : elemZ.length = 105 ∧ elemESc.length = 105 ∧ elemNAMEc.length = 105 ∧
    elemA.length = 105 ∧ elemIP.length = 105 := by decide +kernel

theorem lookupAllB_sound : ∀ n, lookupAllB n = true → ∀ i, i < n → lookupRowOkB i = true := by
  intro n
  induction n with
  | zero => intro _ i h; omega
  | succ m ih =>
    intro hb i hi
    simp only [lookupAllB, Bool.and_eq_true] at hb
    by_cases h : i = m
    · subst h; exact hb.1
    · exact ih hb.2 i (by omega)

/-- **lookup round trip, all 105 elements**: by proton number, by symbol and by name the same
element with its own Z, name and symbol is returned -/
theorem lookup_roundtrip (i : ℕ) (hi : i < 105) :
    ∃ (z : ℕ) (s nm : List ℕ), elemZ[i]? = some z ∧ elemESc[i]? = some s ∧ elemNAMEc[i]? = some nm ∧
      z = i + 1 ∧ identify (.num z) = some (z, nm, s) ∧ identify (.str s) = some (z, nm, s) ∧
      identify (.str nm) = some (z, nm, s) ∧ s.length ≤ 2 ∧ 3 ≤ nm.length ∧ indexOf z elemZ = some i := by
  have h := lookupAllB_sound 105 lookup_tables_ok i hi
  unfold lookupRowOkB at h
  split at h
  · rename_i z s nm hz hs hn
    simp only [Bool.and_eq_true, decide_eq_true_eq, Nat.ble_eq] at h
    exact ⟨z, s, nm, hz, hs, hn, Nat.eq_of_beq_eq_true h.1.1.1.1.1.1, h.1.1.1.1.1.2, h.1.1.1.1.2, h.1.1.1.2, h.1.1.2, h.1.2, h.2⟩
  · simp at h

/-- default mass number and ionisation potential of a looked-up element are its own row's -/
theorem element_head_default (i : ℕ) (hi : i < 105) (a ip : ℕ) (ha : elemA[i]? = some a) (hip : elemIP[i]? = some ip)
    (hapos : 0 < a) :
    elementHead (α := ℝ) (.num (i + 1 : ℕ)) none = some (i + 1, (a : ℝ), ofScaled ip scCoef) := by
  obtain ⟨z, s, nm, hz, hs, hn, rfl, hid, _, _, _, _, hidx⟩ := lookup_roundtrip i hi
  have hid' : identify (.num ((i + 1 : ℕ) : ℤ)) = some (i + 1, nm, s) := by exact_mod_cast hid
  simp only [elementHead, hid', Option.bind_some, hidx]
  have h1 : elemIP.getD i 0 = ip := by simp [List.getD_eq_getElem?_getD, hip]
  have h2 : elemA.getD i 0 = a := by simp [List.getD_eq_getElem?_getD, ha]
  rw [h1, h2]
  have : ¬ ((a : ℝ) ≤ 0) := by push Not; exact_mod_cast hapos
  simp [this]

/-- **unknown identifiers raise** (`none` = ValueError): a string that is neither a symbol nor a name -/
theorem lookup_unknown_str (s : List ℕ) (h1 : s ∉ elemESc) (h2 : s ∉ elemNAMEc) : identify (.str s) = none := by
  have : elementZ s = none := by
    unfold elementZ indexOf
    split_ifs
    · rw [idxOfK_none s elemESc 0 h1]; rfl
    · rw [idxOfK_none s elemNAMEc 0 h2]; rfl
  simp [identify, this]

/-- … and a proton number outside the table -/
theorem lookup_unknown_num (z : ℤ) (h : z < 0 ∨ z.toNat ∉ elemZ) : identify (.num z) = none := by
  have : elementSymbol (.num z) = none := by
    unfold elementSymbol indexOf
    rcases h with h | h
    · simp [h]
    · by_cases hz : z < 0
      · simp [hz]
      · simp only [hz, if_false]; rw [idxOfK_none _ elemZ 0 h]; rfl
  simp [identify, this]

/-- the table of proton numbers is exactly `1 … 105` -/
theorem elemZ_eq : elemZ = List.range' 1 105 := by decide +kernel

/-- **non-positive mass numbers raise** -/
theorem mass_number_guard (id : Ident) (a : ℝ) (ha : a ≤ 0) : elementHead id (some a) = none := by
  unfold elementHead
  cases identify id with
  | none => rfl
  | some r =>
    obtain ⟨z, nm, s⟩ := r
    simp only [Option.bind_some]
    cases indexOf z elemZ with
    | none => rfl
    | some idx => simp [ha]

/-! ## B. shell tables: all 5565 rows -/

def caps : List ℕ := [2, 2, 2, 4, 2, 2, 4, 4, 6, 2, 2, 4, 4, 6, 6, 8, 2, 2, 4, 4, 6, 6, 8, 2, 2, 4, 4, 6, 2, 2]
/-- rows whose electron count is wrong in the pinned tables (known findings, DESIGN §2 D7) -/
def knownBad : List (ℕ × ℕ) := [(8, 0), (9, 1), (74, 0), (74, 1), (78, 0)]

def rowSum : List ℕ → ℕ
  | [] => 0
  | x :: xs => x + rowSum xs
def capOk : List ℕ → List ℕ → Bool
  | [], _ => true
  | _ :: _, [] => false
  | x :: xs, c :: cs => Nat.ble x c && capOk xs cs
/-- occupied ⇔ bound, entry by entry (and equal lengths) -/
def occBoundB : List ℕ → List ℕ → Bool
  | [], [] => true
  | n :: ns, e :: es => (Nat.blt 0 n == Nat.blt 0 e) && occBoundB ns es
  | _, _ => false

def RowOk (z q : ℕ) (c e : List ℕ) : Prop :=
  ((z, q) ∉ knownBad → rowSum c = z - q) ∧ capOk c caps = true ∧ occBoundB c e = true
def rowOkB (z q : ℕ) (c e : List ℕ) : Bool :=
  (knownBad.contains (z, q) || (rowSum c).beq (z - q)) && capOk c caps && occBoundB c e

theorem rowOkB_iff (z q c e) : rowOkB z q c e = true → RowOk z q c e := by
  intro h
  simp only [rowOkB, Bool.and_eq_true, Bool.or_eq_true, List.contains_iff_mem] at h
  refine ⟨fun hk => ?_, h.1.2, h.2⟩
  rcases h.1.1 with hc | hs
  · exact absurd hc hk
  · exact Nat.eq_of_beq_eq_true hs

/-- lowest binding energy strictly increasing from row to row: `prev` is the previous row's minimum -/
def monoB : Option ℕ → List (List ℕ) → List (List ℕ) → Bool
  | _, [], [] => true
  | prev, c :: cs, e :: es =>
    match minBindN c e with
    | none => false
    | some m => (match prev with | none => true | some p => Nat.blt p m) && monoB (some m) cs es
  | _, _, _ => false

def rowsOkB (z : ℕ) : ℕ → List (List ℕ) → List (List ℕ) → Bool
  | _, [], [] => true
  | q, c :: cs, e :: es => rowOkB z q c e && rowsOkB z (q + 1) cs es
  | _, _, _ => false

def allOkB : ℕ → Bool
  | 0 => true
  | z + 1 => ((cfg (z + 1)).length.beq (z + 1) && rowsOkB (z + 1) 0 (cfg (z + 1)) (ebind (z + 1))
      && monoB none (cfg (z + 1)) (ebind (z + 1))) && allOkB z

theorem tables_checked : allOkB 105 = true := by decide +kernel

theorem rowsOkB_sound (z : ℕ) : ∀ (q0 : ℕ) (C B : List (List ℕ)), rowsOkB z q0 C B = true →
    C.length = B.length ∧ ∀ i (h : i < C.length) (h' : i < B.length), RowOk z (q0 + i) C[i] B[i] := by
  intro q0 C
  induction C generalizing q0 with
  | nil => intro B h; cases B <;> simp [rowsOkB] at h ⊢
  | cons c cs ih =>
    intro B hb
    cases B with
    | nil => simp [rowsOkB] at hb
    | cons e es =>
      simp only [rowsOkB, Bool.and_eq_true] at hb
      obtain ⟨hl, hr⟩ := ih (q0 + 1) es hb.2
      refine ⟨by simp [hl], fun i hi hi' => ?_⟩
      cases i with
      | zero => simpa using rowOkB_iff z q0 c e hb.1
      | succ j =>
        have := hr j (by simpa using hi) (by simpa using hi')
        simpa [Nat.add_assoc, Nat.add_comm 1 j] using this

theorem monoB_sound : ∀ (C B : List (List ℕ)) (prev : Option ℕ), monoB prev C B = true →
    ∀ i (h1 : i + 1 < C.length) (h2 : i + 1 < B.length),
      ∃ m m', minBindN (C[i]'(by omega)) (B[i]'(by omega)) = some m ∧ minBindN C[i + 1] B[i + 1] = some m' ∧ m < m' := by
  intro C
  induction C with
  | nil => intro B prev _ i h1; simp at h1
  | cons c cs ih =>
    intro B prev hb i h1 h2
    cases B with
    | nil => simp at h2
    | cons e es =>
      simp only [monoB] at hb
      cases hm : minBindN c e with
      | none => rw [hm] at hb; simp at hb
      | some m =>
        rw [hm] at hb
        simp only [Bool.and_eq_true] at hb
        cases i with
        | zero =>
          -- rows 0 and 1
          match cs, es, hb.2, h1, h2 with
          | c1 :: cs', e1 :: es', hb2, _, _ =>
            simp only [monoB] at hb2
            cases hm1 : minBindN c1 e1 with
            | none => rw [hm1] at hb2; simp at hb2
            | some m1 =>
              rw [hm1] at hb2
              simp only [Bool.and_eq_true, Nat.blt_eq] at hb2
              exact ⟨m, m1, by simpa using hm, by simpa using hm1, hb2.1⟩
        | succ j =>
          have := ih es (some m) hb.2 j (by simpa using h1) (by simpa using h2)
          simpa using this

theorem allOkB_sound : ∀ n, allOkB n = true → ∀ z, 1 ≤ z → z ≤ n →
    (cfg z).length = z ∧ rowsOkB z 0 (cfg z) (ebind z) = true ∧ monoB none (cfg z) (ebind z) = true := by
  intro n
  induction n with
  | zero => intro _ z h1 h2; omega
  | succ m ih =>
    intro hb z h1 h2
    simp only [allOkB, Bool.and_eq_true] at hb
    by_cases hz : z = m + 1
    · subst hz; exact ⟨Nat.eq_of_beq_eq_true hb.1.1.1, hb.1.1.2, hb.1.2⟩
    · exact ih hb.2 z h1 (by omega)

/-- **shell tables, every element and charge state**: one row per charge state `0 … Z-1`; outside
the five listed known findings the occupations sum to `Z − q`; occupations respect the sub-shell
capacities; a binding energy is positive exactly where a sub-shell is occupied -/
theorem shell_rows (z q : ℕ) (hz1 : 1 ≤ z) (hz : z ≤ 105) (hq : q < z) :
    (cfg z).length = z ∧ (ebind z).length = z ∧
    ∃ (h : q < (cfg z).length) (h' : q < (ebind z).length), RowOk z q (cfg z)[q] (ebind z)[q] := by
  obtain ⟨hlen, hrows, _⟩ := allOkB_sound 105 tables_checked z hz1 hz
  obtain ⟨hl, hr⟩ := rowsOkB_sound z 0 _ _ hrows
  have h1 : q < (cfg z).length := by omega
  have h2 : q < (ebind z).length := by omega
  exact ⟨hlen, by omega, h1, h2, by simpa using hr q h1 h2⟩

/-- **the lowest binding energy grows strictly with the charge state** (on the exact binary64 values) -/
theorem threshold_strictMono (z q : ℕ) (hz1 : 1 ≤ z) (hz : z ≤ 105) (hq : q + 1 < z) :
    ∃ m m', minBindN ((cfg z).getD q []) ((ebind z).getD q []) = some m ∧
      minBindN ((cfg z).getD (q + 1) []) ((ebind z).getD (q + 1) []) = some m' ∧ m < m' := by
  obtain ⟨hlen, hrows, hmono⟩ := allOkB_sound 105 tables_checked z hz1 hz
  obtain ⟨hl, _⟩ := rowsOkB_sound z 0 _ _ hrows
  have h1 : q + 1 < (cfg z).length := by omega
  have h2 : q + 1 < (ebind z).length := by omega
  obtain ⟨m, m', e1, e2, hlt⟩ := monoB_sound _ _ none hmono q h1 h2
  refine ⟨m, m', ?_, ?_, hlt⟩
  · simpa [List.getD_eq_getElem?_getD, List.getElem?_eq_getElem (show q < (cfg z).length by omega),
      List.getElem?_eq_getElem (show q < (ebind z).length by omega)] using e1
  · simpa [List.getD_eq_getElem?_getD, List.getElem?_eq_getElem h1, List.getElem?_eq_getElem h2] using e2

/-! ## C. initial conditions of targets -/

theorem clampVec_eq (z : ℕ) (m : ℝ) (v : List ℝ) (h : v.length = z + 1) :
    clampVec z m v = some (v.map fun x => max x m) := by
  unfold clampVec
  rw [if_neg (by simp [h])]
  split_ifs with hany
  · simp [max'_real]
  · congr 1
    simp only [List.any_eq_true, decide_eq_true_eq, not_exists, not_and, not_lt] at hany
    symm
    calc v.map (fun x => max x m) = v.map id := List.map_congr_left (fun x hx => max_eq_left (hany x hx))
      _ = v := List.map_id v

/-- every entry produced by the clamp is at least the minimum -/
theorem clampVec_floor (z : ℕ) (m : ℝ) (v w : List ℝ) (h : clampVec z m v = some w) : ∀ x ∈ w, m ≤ x := by
  unfold clampVec at h
  split_ifs at h with hl hany
  · cases h; intro x hx
    simp only [List.mem_map] at hx
    obtain ⟨y, _, rfl⟩ := hx
    rw [max'_real]; exact le_max_right _ _
  · cases h; intro x hx
    simp only [List.any_eq_true, decide_eq_true_eq, not_exists, not_and, not_lt] at hany
    exact hany x hx

/-- **gas factory**: accepted iff the resulting line density is at least the minimum; charge state 0
gets `100 p/(k_B T) · π r²` and `max(k_B T/e, kT_min)`, all other states the minima -/
theorem getGas_formula (id : Ident) (z : ℕ) (nm s : List ℕ) (hid : identify id = some (z, nm, s)) (p r T : ℝ) :
    let n0 := p * 100 / (Const.K_B * T) * Const.PI * r ^ 2
    (n0 < Const.MINIMAL_N_1D → getGas id p r T = none) ∧
    (Const.MINIMAL_N_1D ≤ n0 → getGas id p r T =
      some (n0 :: List.replicate z Const.MINIMAL_N_1D,
            max (Const.K_B * T / Const.Q_E) Const.MINIMAL_KBT :: List.replicate z Const.MINIMAL_KBT)) := by
  intro n0
  have hn0 : (p * lit 100) / (Const.K_B * T) * Const.PI * powN r 2 = n0 := by simp [n0]
  constructor
  · intro h
    simp only [getGas, hid, Option.bind_some, hn0, h, if_true]
  · intro h
    have hlt : ¬ n0 < Const.MINIMAL_N_1D := not_lt.mpr h
    simp only [getGas, hid, Option.bind_some, hn0, hlt, if_false]
    rw [clampVec_eq z _ _ (by simp), clampVec_eq z _ _ (by simp)]
    simp only [Option.bind_some, Option.map_some, List.map_cons, List.map_replicate, max_self]
    rw [max_eq_left h]

/-- **ion factory**: rejected iff the requested density is below the minimum; otherwise the requested
line density and `max(kT, kT_min)` in the requested charge state and the minima everywhere else -/
theorem getIons_formula (id : Ident) (z : ℕ) (nm s : List ℕ) (hid : identify id = some (z, nm, s))
    (nl kT : ℝ) (q : ℕ) (hq : q ≤ z) :
    (nl < Const.MINIMAL_N_1D → getIons id nl kT q = none) ∧
    (Const.MINIMAL_N_1D ≤ nl → getIons id nl kT q =
      some ((List.range (z + 1)).map (fun k => if k = q then nl else Const.MINIMAL_N_1D),
            (List.range (z + 1)).map (fun k => if k = q then max kT Const.MINIMAL_KBT else Const.MINIMAL_KBT))) := by
  constructor
  · intro h; simp [getIons, h]
  · intro h
    have hlt : ¬ nl < Const.MINIMAL_N_1D := not_lt.mpr h
    have hq' : ¬ q > z := by omega
    simp only [getIons, hlt, if_false, hid, Option.bind_some, hq']
    rw [clampVec_eq z _ _ (by simp), clampVec_eq z _ _ (by simp)]
    simp only [Option.bind_some, Option.map_some, List.map_map]
    congr 2
    · apply List.map_congr_left; intro k _
      simp only [Function.comp]; split_ifs
      · exact max_eq_left h
      · exact max_self _
    · apply List.map_congr_left; intro k _
      simp only [Function.comp]; split_ifs
      · rfl
      · exact max_self _

/-- **initial densities and temperatures are never below the documented minima** -/
theorem targets_floor (id : Ident) (p r T nl kT : ℝ) (q : ℕ) :
    (∀ n k, getGas id p r T = some (n, k) → (∀ x ∈ n, Const.MINIMAL_N_1D ≤ x) ∧ (∀ x ∈ k, Const.MINIMAL_KBT ≤ x)) ∧
    (∀ n k, getIons id nl kT q = some (n, k) → (∀ x ∈ n, Const.MINIMAL_N_1D ≤ x) ∧ (∀ x ∈ k, Const.MINIMAL_KBT ≤ x)) := by
  constructor
  · intro n k h
    unfold getGas at h
    cases hid : identify id with
    | none => rw [hid] at h; simp at h
    | some rr =>
      obtain ⟨z, nm, s⟩ := rr
      rw [hid] at h
      simp only [Option.bind_some] at h
      split_ifs at h
      cases h1 : clampVec z Const.MINIMAL_N_1D ((p * lit 100 / (Const.K_B * T) * Const.PI * powN r 2) :: List.replicate z Const.MINIMAL_N_1D) with
      | none => rw [h1] at h; simp at h
      | some n' =>
        rw [h1] at h
        cases h2 : clampVec z Const.MINIMAL_KBT ((Const.K_B * T / Const.Q_E) :: List.replicate z Const.MINIMAL_KBT) with
        | none => rw [h2] at h; simp at h
        | some k' =>
          rw [h2] at h
          simp only [Option.bind_some, Option.map_some, Option.some.injEq, Prod.mk.injEq] at h
          obtain ⟨rfl, rfl⟩ := h
          exact ⟨clampVec_floor _ _ _ _ h1, clampVec_floor _ _ _ _ h2⟩
  · intro n k h
    unfold getIons at h
    split_ifs at h
    cases hid : identify id with
    | none => rw [hid] at h; simp at h
    | some rr =>
      obtain ⟨z, nm, s⟩ := rr
      rw [hid] at h
      simp only [Option.bind_some] at h
      split_ifs at h
      cases h1 : clampVec z Const.MINIMAL_N_1D ((List.range (z + 1)).map fun k => if k = q then nl else Const.MINIMAL_N_1D) with
      | none => rw [h1] at h; simp at h
      | some n' =>
        rw [h1] at h
        cases h2 : clampVec z Const.MINIMAL_KBT ((List.range (z + 1)).map fun k => if k = q then kT else Const.MINIMAL_KBT) with
        | none => rw [h2] at h; simp at h
        | some k' =>
          rw [h2] at h
          simp only [Option.bind_some, Option.map_some, Option.some.injEq, Prod.mk.injEq] at h
          obtain ⟨rfl, rfl⟩ := h
          exact ⟨clampVec_floor _ _ _ _ h1, clampVec_floor _ _ _ _ h2⟩

-- non-vacuity: tungsten 2+ is covered by `shell_rows` and really holds 72 electrons
example : RowOk 74 2 ((cfg 74).getD 2 []) ((ebind 74).getD 2 []) ∧ (74, 2) ∉ knownBad := by
  constructor
  · apply rowOkB_iff; decide +kernel
  · decide
end C11
