import EbisimProofs.Lemmas.RateMat
import EbisimModel.Gen.Kernels

/-! # C10 — vector, matrix and energy-scan forms agree; charge-exchange formula

`Xs.eiMat/recMat` (matrix arrangement), `Xs.eSamp/logspace/eMinRule/eMaxRule` (sampling rules of
`_eirr_e_samp`, after the D6 repair), `Xs.scanCols`, and the *generated* `Gen.cxxs`. -/
namespace C10
open Xs Num Gen RateMat Real

/-! ## matrix form = arrangement of the vector form -/

/-- **ionisation**: minus the cross section on the diagonal, the same value one row below, zeros elsewhere -/
theorem ei_mat_arrangement (l : List ℝ) (i j : Fin l.length) :
    toM l.length (eiMat l) i j =
      if i = j then -(l[(j : ℕ)]) else if (i : ℕ) = (j : ℕ) + 1 then l[(j : ℕ)] else 0 := by
  rw [toM_eiMat]
  simp only [eiM, toV, List.getD_eq_getElem?_getD, List.getElem?_eq_getElem j.2, Option.getD_some]
  by_cases h : i = j
  · subst h; simp
  · have : ¬ (i : ℕ) = (j : ℕ) → True := fun _ => trivial
    simp only [h, if_false, sub_zero]

/-- **recombination**: minus the cross section on the diagonal, the same value one row above, zeros elsewhere -/
theorem rec_mat_arrangement (l : List ℝ) (i j : Fin l.length) :
    toM l.length (recMat l) i j =
      if i = j then -(l[(j : ℕ)]) else if (i : ℕ) + 1 = (j : ℕ) then l[(j : ℕ)] else 0 := by
  rw [toM_recMat]
  simp only [recM, toV, List.getD_eq_getElem?_getD, List.getElem?_eq_getElem j.2, Option.getD_some]
  by_cases h : i = j
  · subst h; simp
  · simp only [h, if_false, sub_zero]

/-! ## energy scan -/

/-- **column `k` of a scan is the vector form at the `k`-th returned energy** -/
theorem scan_columns (vec : ℝ → List ℝ) (es : List ℝ) (k : ℕ) (h : k < es.length) :
    (scanCols vec es).length = es.length ∧ (scanCols vec es)[k]'(by simpa [scanCols] using h) = vec es[k] := by
  simp [scanCols]

/-- **sampling modes**: more than two (or fewer than two) entries → the caller's array; exactly two →
`n` log-spaced points; none → the default grid -/
theorem eSamp_modes (Z n : ℕ) (lo hi : ℝ) (es : List ℝ) (hes : es.length ≠ 2) :
    eSamp Z (some es) n = es ∧ eSamp Z (some [lo, hi]) n = logspace lo hi n ∧
    eSamp (α := ℝ) Z none n = logspace (eMinRule Z) (eMaxRule Z) n := by
  refine ⟨?_, rfl, rfl⟩
  match es, hes with
  | [], _ => rfl
  | [_], _ => rfl
  | [_, _], h => simp at h
  | _ :: _ :: _ :: _, _ => rfl

theorem ten_pow_log10 (x : ℝ) (hx : 0 < x) : (10 : ℝ) ^ (Real.log x / Real.log 10) = x := by
  have h10 : (0 : ℝ) < 10 := by norm_num
  rw [Real.rpow_def_of_pos h10]
  have : Real.log 10 ≠ 0 := by
    have := Real.log_pos (show (1 : ℝ) < 10 by norm_num); linarith
  rw [mul_div_cancel₀ _ this, Real.exp_log hx]

theorem logspace_length (lo hi : ℝ) (n : ℕ) : (logspace lo hi n).length = n := by simp [logspace, linspace]

theorem logspace_getElem (lo hi : ℝ) (n k : ℕ) (h : k < n) :
    (logspace lo hi n)[k]'(by rw [logspace_length]; exact h) =
      (10 : ℝ) ^ (Real.log lo / Real.log 10 + (Real.log hi / Real.log 10 - Real.log lo / Real.log 10) * ((k : ℝ) / ((n - 1 : ℕ) : ℝ))) := by
  simp only [logspace, linspace, List.getElem_map, List.getElem_range, Transc.log10_real, Transc.rpow_real, lit_real]
  split_ifs with hk
  · subst hk; simp
  · norm_num

/-- **`n` log-spaced points between the two limits**: first point `lo`, last point `hi`, strictly
increasing when `lo < hi`, equidistant in `log₁₀` -/
theorem logspace_spec (lo hi : ℝ) (hlo : 0 < lo) (hlh : lo < hi) (n : ℕ) (hn : 2 ≤ n) :
    (logspace lo hi n)[0]'(by rw [logspace_length]; omega) = lo ∧
    (logspace lo hi n)[n - 1]'(by rw [logspace_length]; omega) = hi ∧
    (∀ k (h : k + 1 < n), (logspace lo hi n)[k]'(by rw [logspace_length]; omega) < (logspace lo hi n)[k + 1]'(by rw [logspace_length]; omega)) := by
  have hhi : 0 < hi := lt_trans hlo hlh
  have hl10 : 0 < Real.log 10 := Real.log_pos (by norm_num)
  have hn1 : (0 : ℝ) < ((n - 1 : ℕ) : ℝ) := by exact_mod_cast (show 0 < n - 1 by omega)
  refine ⟨?_, ?_, ?_⟩
  · rw [logspace_getElem lo hi n 0 (by omega)]; simp [ten_pow_log10 lo hlo]
  · rw [logspace_getElem lo hi n (n - 1) (by omega)]
    rw [div_self hn1.ne', mul_one]
    have : Real.log lo / Real.log 10 + (Real.log hi / Real.log 10 - Real.log lo / Real.log 10) = Real.log hi / Real.log 10 := by ring
    rw [this, ten_pow_log10 hi hhi]
  · intro k hk
    rw [logspace_getElem lo hi n k (by omega), logspace_getElem lo hi n (k + 1) hk]
    apply Real.rpow_lt_rpow_of_exponent_lt (by norm_num)
    have hd : 0 < Real.log hi / Real.log 10 - Real.log lo / Real.log 10 := by
      rw [← sub_div]; apply div_pos _ hl10
      have := Real.log_lt_log hlo hlh; linarith
    have hk' : (k : ℝ) / ((n - 1 : ℕ) : ℝ) < ((k + 1 : ℕ) : ℝ) / ((n - 1 : ℕ) : ℝ) := by
      apply div_lt_div_of_pos_right _ hn1; push_cast; linarith
    nlinarith

/-! ## the default grid covers the element's binding energies -/

theorem ofScaled_pos' (n k : ℕ) (h : 0 < n) : (0 : ℝ) < ofScaled n k := by
  rw [ofScaled_real]; positivity

theorem fold_min_spec (l : List ℕ) : ∀ (m0 : ℝ), 0 < m0 →
    let em := l.foldl (fun (m : ℝ) x => let eb : ℝ := ofScaled x scEbind; if lit 0 < eb ∧ eb < m then eb else m) m0
    0 < em ∧ em ≤ m0 ∧ ∀ x ∈ l, 0 < x → em ≤ ofScaled x scEbind := by
  induction l with
  | nil => intro m0 h0; simp [h0]
  | cons a as ih =>
    intro m0 h0
    simp only [List.foldl_cons]
    set eb : ℝ := ofScaled a scEbind
    by_cases hc : lit 0 < eb ∧ eb < m0
    · simp only [hc, and_self, if_true]
      have hpos : 0 < eb := by simpa using hc.1
      obtain ⟨h1, h2, h3⟩ := ih eb hpos
      refine ⟨h1, le_trans h2 hc.2.le, fun x hx hxp => ?_⟩
      rcases List.mem_cons.mp hx with rfl | hx'
      · exact h2
      · exact h3 x hx' hxp
    · simp only [hc, if_false]
      obtain ⟨h1, h2, h3⟩ := ih m0 h0
      refine ⟨h1, h2, fun x hx hxp => ?_⟩
      rcases List.mem_cons.mp hx with rfl | hx'
      · have hpos : (0 : ℝ) < eb := ofScaled_pos' _ _ hxp
        have : ¬ eb < m0 := fun hlt => hc ⟨by simpa using hpos, hlt⟩
        exact le_trans h2 (not_lt.mp this)
      · exact h3 x hx' hxp

theorem pow_floor_log10_le (x : ℝ) (hx : 0 < x) : (10 : ℝ) ^ ((Int.floor (Real.log x / Real.log 10) : ℤ) : ℝ) ≤ x := by
  calc (10 : ℝ) ^ ((Int.floor (Real.log x / Real.log 10) : ℤ) : ℝ) ≤ (10 : ℝ) ^ (Real.log x / Real.log 10) :=
        Real.rpow_le_rpow_of_exponent_le (by norm_num) (Int.floor_le _)
    _ = x := ten_pow_log10 x hx

theorem le_pow_ceil_log10 (x : ℝ) (hx : 0 < x) : x ≤ (10 : ℝ) ^ ((Int.ceil (Real.log x / Real.log 10) : ℤ) : ℝ) := by
  calc x = (10 : ℝ) ^ (Real.log x / Real.log 10) := (ten_pow_log10 x hx).symm
    _ ≤ _ := Real.rpow_le_rpow_of_exponent_le (by norm_num) (Int.le_ceil _)

theorem fold_max_ge (l : List ℕ) : ∀ (m0 : ℕ), m0 ≤ l.foldl max m0 ∧ ∀ x ∈ l, x ≤ l.foldl max m0 := by
  induction l with
  | nil => intro m0; simp
  | cons a as ih =>
    intro m0
    simp only [List.foldl_cons]
    obtain ⟨h1, h2⟩ := ih (max m0 a)
    refine ⟨le_trans (le_max_left _ _) h1, fun x hx => ?_⟩
    rcases List.mem_cons.mp hx with rfl | hx'
    · exact le_trans (le_max_right _ _) h1
    · exact h2 x hx'

/-- **the default sampling grid covers every binding energy of the element**: for every tabulated
positive binding energy `P` of any element, `e_min ≤ P ≤ e_max` -/
theorem eSamp_covers (Z : ℕ) (x : ℕ) (hx : x ∈ (ebind Z).flatten) (hpos : 0 < x) :
    eMinRule (α := ℝ) Z ≤ ofScaled x scEbind ∧ (ofScaled x scEbind : ℝ) ≤ eMaxRule Z := by
  constructor
  · unfold eMinRule
    obtain ⟨h1, _, h3⟩ := fold_min_spec (ebind Z).flatten (100.0 : ℝ) (by norm_num)
    simp only [Transc.rpow_real, Transc.log10_real, min'_real]
    refine le_trans (min_le_right _ _) (le_trans ?_ (h3 x hx hpos))
    have := pow_floor_log10_le _ h1
    have e10 : (10.0 : ℝ) = 10 := by norm_num
    rw [e10]
    simpa [Transc.floor] using this
  · unfold eMaxRule ebMax
    obtain ⟨_, h2⟩ := fold_max_ge (ebind Z).flatten 0
    have hle : (ofScaled x scEbind : ℝ) ≤ ofScaled ((ebind Z).flatten.foldl max 0) scEbind := by
      rw [ofScaled_real, ofScaled_real]
      apply div_le_div_of_nonneg_right _ (by positivity)
      exact_mod_cast h2 x hx
    have hxp : (0 : ℝ) < ofScaled x scEbind := by rw [ofScaled_real]; positivity
    have hmp : (0 : ℝ) < lit 10 * ofScaled ((ebind Z).flatten.foldl max 0) scEbind := by
      simp only [lit_real]; have : (0:ℝ) < ofScaled ((ebind Z).flatten.foldl max 0) scEbind := lt_of_lt_of_le hxp hle
      positivity
    simp only [Transc.rpow_real, Transc.log10_real]
    have := le_pow_ceil_log10 _ hmp
    simp only [lit_real] at this hmp ⊢
    refine le_trans hle (le_trans ?_ (by simpa [Transc.ceil] using this))
    have : (0:ℝ) ≤ ofScaled ((ebind Z).flatten.foldl max 0) scEbind := by rw [ofScaled_real]; positivity
    push_cast; linarith

/-! ## charge exchange (generated definition) -/

/-- documented Müller–Salzborn formula `1.43e-16 q^1.17 IP^-2.76` (m²) -/
noncomputable def Spec.cx (q ip : ℝ) : ℝ := 1.43e-16 * q ^ (1.17 : ℝ) * ip ^ (-2.76 : ℝ)

theorem cxxs_eq_spec (q ip : ℝ) : cxxs q ip = Spec.cx q ip := by
  simp [cxxs, Spec.cx]

/-- **zero for neutrals** -/
theorem cx_zero_neutral (ip : ℝ) : cxxs 0 ip = 0 := by
  rw [cxxs_eq_spec]; unfold Spec.cx
  rw [Real.zero_rpow (by norm_num)]; simp

/-- **strictly increasing in the charge state** (`q ≥ 0`) for a fixed partner `IP > 0` -/
theorem cx_strictMono_q (ip : ℝ) (hip : 0 < ip) : StrictMonoOn (fun q => cxxs q ip) (Set.Ici 0) := by
  intro a ha b hb hab
  simp only [Set.mem_Ici] at ha hb
  simp only [cxxs_eq_spec, Spec.cx]
  have h1 : a ^ (1.17 : ℝ) < b ^ (1.17 : ℝ) := Real.rpow_lt_rpow ha hab (by norm_num)
  have h2 : 0 < ip ^ (-2.76 : ℝ) := Real.rpow_pos_of_pos hip _
  have h3 : (0 : ℝ) < 1.43e-16 := by norm_num
  nlinarith [mul_pos h3 h2]

/-- **strictly decreasing in the partner's ionisation potential** for `q > 0` -/
theorem cx_strictAnti_ip (q : ℝ) (hq : 0 < q) : StrictAntiOn (fun ip => cxxs q ip) (Set.Ioi 0) := by
  intro a ha b hb hab
  simp only [Set.mem_Ioi] at ha hb
  simp only [cxxs_eq_spec, Spec.cx]
  have h1 : b ^ (-2.76 : ℝ) < a ^ (-2.76 : ℝ) := Real.rpow_lt_rpow_of_neg ha hab (by norm_num)
  have h2 : 0 < q ^ (1.17 : ℝ) := Real.rpow_pos_of_pos hq _
  have h3 : (0 : ℝ) < 1.43e-16 := by norm_num
  nlinarith [mul_pos h3 h2]

-- non-vacuity
example : (0 : ℝ) < 1 ∧ (1 : ℝ) < 1000 ∧ 2 ≤ 50 := by norm_num
/-! ## default DR sampling band -/

theorem foldl_min_real (xs : List ℝ) (x : ℝ) :
    (xs.foldl (fun m y => if y < m then y else m) x ≤ x) ∧ (∀ a ∈ xs, xs.foldl (fun m y => if y < m then y else m) x ≤ a) := by
  induction xs generalizing x with
  | nil => simp
  | cons y ys ih =>
    simp only [List.foldl_cons, List.mem_cons, forall_eq_or_imp]
    obtain ⟨h1, h2⟩ := ih (if y < x then y else x)
    by_cases hyx : y < x
    · simp only [hyx, if_true] at h1 h2 ⊢; exact ⟨by linarith, h1, h2⟩
    · simp only [hyx, if_false] at h1 h2 ⊢; exact ⟨h1, by linarith [not_lt.mp hyx], h2⟩

theorem foldl_max_real (xs : List ℝ) (x : ℝ) :
    (x ≤ xs.foldl (fun m y => if m < y then y else m) x) ∧ (∀ a ∈ xs, a ≤ xs.foldl (fun m y => if m < y then y else m) x) := by
  induction xs generalizing x with
  | nil => simp
  | cons y ys ih =>
    simp only [List.foldl_cons, List.mem_cons, forall_eq_or_imp]
    obtain ⟨h1, h2⟩ := ih (if x < y then y else x)
    by_cases hxy : x < y
    · simp only [hxy, if_true] at h1 h2 ⊢; exact ⟨by linarith, h1, h2⟩
    · simp only [hxy, if_false] at h1 h2 ⊢; exact ⟨h1, by linarith [not_lt.mp hxy], h2⟩

/-- **the default DR sampling grid covers the resonance band**: for an element with tabulated resonances, a width `w ≥ 0` that keeps the lower
limit positive and `n ≥ 2`, the grid starts at `min(e_res) − 3w`, ends at `max(e_res) + 3w`, and every tabulated resonance energy lies between
`first + 3w` and `last − 3w` -/
theorem drSamp_covers (Z : ℕ) (w : ℝ) (n : ℕ) (hw : 0 ≤ w) (hn : 2 ≤ n) (e0 : ℝ) (rest : List ℝ)
    (hers : (dr Z).map (fun r => (ofScaled r.2.1 scEres : ℝ)) = e0 :: rest)
    (hpos : 0 < rest.foldl (fun m x => if x < m then x else m) e0 - 3 * w) :
    ∃ (h0 : 0 < (drSampDefault Z w n).length) (h1 : n - 1 < (drSampDefault Z w n).length),
      ∀ e ∈ e0 :: rest, (drSampDefault Z w n)[0] + 3 * w ≤ e ∧ e ≤ (drSampDefault Z w n)[n - 1] - 3 * w := by
  set lo := rest.foldl (fun m x => if x < m then x else m) e0 with hlo
  set hi := rest.foldl (fun m x => if m < x then x else m) e0 with hhi
  have hmin := foldl_min_real rest e0
  have hmax := foldl_max_real rest e0
  have hlh : lo - 3 * w < hi + 3 * w ∨ lo - 3 * w = hi + 3 * w := by
    have : lo ≤ hi := le_trans hmin.1 hmax.1
    rcases lt_or_eq_of_le (by linarith : lo - 3 * w ≤ hi + 3 * w) with h | h
    · exact Or.inl h
    · exact Or.inr h
  have hdef : drSampDefault Z w n = logspace (lo - 3 * w) (hi + 3 * w) n := by
    unfold drSampDefault
    simp only [hers, lit_real]
    norm_num
    rw [← hlo, ← hhi]
  have hlen : (drSampDefault Z w n).length = n := by rw [hdef, logspace_length]
  refine ⟨by omega, by omega, ?_⟩
  have hfirst : (drSampDefault Z w n)[0]'(by omega) = lo - 3 * w := by
    simp only [hdef]
    rw [logspace_getElem _ _ n 0 (by omega)]
    simp [ten_pow_log10 _ hpos]
  have hlast : (drSampDefault Z w n)[n - 1]'(by omega) = hi + 3 * w := by
    simp only [hdef]
    rw [logspace_getElem _ _ n (n - 1) (by omega)]
    have hn1 : (0 : ℝ) < ((n - 1 : ℕ) : ℝ) := by exact_mod_cast (show 0 < n - 1 by omega)
    rw [div_self hn1.ne', mul_one]
    have hhip : 0 < hi + 3 * w := by
      have : lo ≤ hi := le_trans hmin.1 hmax.1
      linarith
    have : Real.log (lo - 3 * w) / Real.log 10 + (Real.log (hi + 3 * w) / Real.log 10 - Real.log (lo - 3 * w) / Real.log 10)
        = Real.log (hi + 3 * w) / Real.log 10 := by ring
    rw [this, ten_pow_log10 _ hhip]
  intro e he
  rw [hfirst, hlast]
  rcases List.mem_cons.mp he with rfl | he'
  · exact ⟨by linarith [hmin.1], by linarith [hmax.1]⟩
  · exact ⟨by linarith [hmin.2 e he'], by linarith [hmax.2 e he']⟩

end C10
