import EbisimProofs.Props.C02

/-! # C01 — the basic simulation integrates the documented rate equations

`Basic.call` is the hand model of what `basic_simulation` hands to `scipy.integrate.solve_ivp`
(Jacobian, start vector, time span, method); the correspondence check captures exactly that record
from the real call.  The theorems identify the captured matrix with the documented
`(j/e)[σ_EI + σ_RR (+ σ_DR)]` arrangement and show that `exp(t J) N₀` — the expression the property
names — *is* the solution of the linear system, is a semigroup in `t` (continuation) and is
invariant under `(j, t) ↦ (k j, t/k)`.  The numerical integrator itself is outside the model. -/
open Matrix NormedSpace
namespace C01
open RateMat Xs Gen C02 Basic Num

attribute [local instance] Matrix.linftyOpNormedRing Matrix.linftyOpNormedAlgebra

/-! ## the matrix exponential is the exact solution -/

/-- **`N(t) = exp(t J) N₀` starts at `N₀` and satisfies `dN/dt = J N` for every `t`** -/
theorem rate_ode_solution {n : ℕ} (J : Matrix (Fin n) (Fin n) ℝ) (N0 : Fin n → ℝ) :
    (exp ((0 : ℝ) • J) *ᵥ N0 = N0) ∧
    ∀ (t : ℝ) (i : Fin n), HasDerivAt (fun u : ℝ => (exp (u • J) *ᵥ N0) i) ((J *ᵥ (exp (t • J) *ᵥ N0)) i) t := by
  refine ⟨by simp, fun t i => hasDerivAt_solution J N0 t i⟩

/-- **continuation**: a run of length `s` continued for `t` from its last state equals the single
run of length `s + t`, for every split -/
theorem continuation {n : ℕ} (J : Matrix (Fin n) (Fin n) ℝ) (s t : ℝ) (N0 : Fin n → ℝ) :
    exp ((s + t) • J) *ᵥ N0 = exp (t • J) *ᵥ (exp (s • J) *ᵥ N0) := by
  rw [exp_add_smul, Matrix.mulVec_mulVec]

/-- **`k`-fold current for `1/k` of the time** reproduces the run -/
theorem current_time_scaling (Z : ℕ) (j E k t : ℝ) (hk : k ≠ 0) (w : Option ℝ) (N0 : Fin (Z + 1) → ℝ) :
    rateM Z (k * j) E w = k • rateM Z j E w ∧
    exp ((t / k) • rateM Z (k * j) E w) *ᵥ N0 = exp (t • rateM Z j E w) *ᵥ N0 := by
  have h1 : rateM Z (k * j) E w = k • rateM Z j E w := by
    unfold rateM
    have : Basic.flux (k * j) = k * Basic.flux j := by unfold Basic.flux; ring
    rw [this, smul_smul]
  exact ⟨h1, by rw [h1, exp_scale _ k t hk]⟩

/-- **unit conversion** A/cm² → electrons/(m² s): `j · 10⁴ / e` -/
theorem unit_conversion (j : ℝ) : Basic.flux j = j * 1e4 / Const.Q_E := by
  unfold Basic.flux; norm_num

/-! ## decision logic of the start vector and of the matrix assembly -/

/-- **default start**: pure 1+ (pure neutral under CNI); a supplied vector is used unchanged -/
theorem default_start (Z : ℕ) (cni : Bool) (given : List ℝ) :
    (∀ k (h : k < (n0Default (α := ℝ) Z cni).length),
        (n0Default (α := ℝ) Z cni)[k] = if k = (if cni then 0 else 1) then 1 else 0) ∧
    (n0Default (α := ℝ) Z cni).length = Z + 1 ∧
    n0 Z cni (some given) = given ∧ n0 (α := ℝ) Z cni none = n0Default Z cni := by
  refine ⟨fun k h => ?_, by simp [n0Default], rfl, rfl⟩
  simp [n0Default]

/-- the width a caller passes counts only if it is non-zero (`if dr_fwhm:`) -/
noncomputable def effWidth : Option ℝ → Option ℝ
  | none => none
  | some w => if w = 0 then none else some w

theorem cniM_smul {n : ℕ} (c : ℝ) (J : Matrix (Fin n) (Fin n) ℝ) : c • cniM J = cniM (c • J) := by
  ext i k
  simp only [cniM, Matrix.smul_apply, smul_eq_mul]
  split_ifs <;> simp

theorem toM_rateMatrix (Z : ℕ) (hZ1 : 1 ≤ Z) (hZ : Z ≤ 105) (j E : ℝ) (w : Option ℝ) (cni : Bool) :
    toM (Z + 1) (Basic.rateMatrix Z j E w cni) =
      if cni then cniM (rateM Z j E (effWidth w)) else rateM Z j E (effWidth w) := by
  have l1 := (C07.eixs_bare_zero Z hZ1 hZ E).1
  have l2 := (C08.rr_neutral_zero Z hZ1 hZ E).1
  have s1 := isSq_eiMat (eixsVec Z E); rw [l1] at s1
  have s2 := isSq_recMat (rrxsVec Z E); rw [l2] at s2
  obtain ⟨ha, hs⟩ := toM_matAdd (Z + 1) _ _ s1 s2
  have e1 := toM_eiMat (eixsVec Z E); rw [l1] at e1
  have e2 := toM_recMat (rrxsVec Z E); rw [l2] at e2
  -- the matrix before CNI / scaling
  have key : ∃ m : List (List ℝ), IsSq (Z + 1) m ∧
      toM (Z + 1) m = eiM (toV (Z + 1) (eixsVec Z E)) + recM (toV (Z + 1) (rrxsVec Z E))
        + (match effWidth w with | none => 0 | some w => recM (toV (Z + 1) (drxsVec Z E w))) ∧
      Basic.xsMat Z E w cni = if cni then Basic.zeroRow0 m else m := by
    cases w with
    | none =>
      refine ⟨_, hs, by simp [effWidth, ha, e1, e2], by simp [Basic.xsMat]⟩
    | some x =>
      by_cases hx : x = 0
      · refine ⟨_, hs, by simp [effWidth, hx, ha, e1, e2], ?_⟩
        simp [Basic.xsMat, hx]
      · have l3 := (C09.dr_main Z hZ1 hZ E x).1
        have s3 := isSq_recMat (drxsVec Z E x); rw [l3] at s3
        obtain ⟨hb, hs'⟩ := toM_matAdd (Z + 1) _ _ hs s3
        have e3 := toM_recMat (drxsVec Z E x); rw [l3] at e3
        refine ⟨_, hs', by simp [effWidth, hx, hb, ha, e1, e2, e3], ?_⟩
        have hne : ¬ (x ≤ 0 ∧ 0 ≤ x) := fun ⟨a, b⟩ => hx (le_antisymm a b)
        simp [Basic.xsMat, hne]
  obtain ⟨m, hm, htm, hx⟩ := key
  unfold Basic.rateMatrix
  rw [hx]
  cases cni with
  | false =>
    simp only [Bool.false_eq_true, if_false]
    rw [toM_matScale _ _ _ hm, htm]; rfl
  | true =>
    simp only [if_true]
    have hz : toM (Z + 1) (Basic.zeroRow0 m) = cniM (toM (Z + 1) m) := by
      rw [toM_zeroRow0 _ _ hm]; rfl
    rw [toM_matScale _ _ _ (isSq_zeroRow0 _ _ hm), hz, htm, cniM_smul]
    rfl

/-- **the Jacobian handed to the solver is the documented matrix**: `(j·10⁴/e)[σ_EI + σ_RR]`, plus
`σ_DR` iff a non-zero width is given, with the neutral row zeroed iff CNI -/
theorem jacobian_is_documented (Z : ℕ) (hZ1 : 1 ≤ Z) (hZ : Z ≤ 105) (j E tMax : ℝ) (w : Option ℝ)
    (given : Option (List ℝ)) (cni : Bool) (method : Option String) :
    let c := Basic.call Z j E tMax w given cni method
    toM (Z + 1) c.jac = (if cni then cniM (rateM Z j E (effWidth w)) else rateM Z j E (effWidth w)) ∧
    c.y0 = n0 Z cni given ∧ c.t0 = 0 ∧ c.t1 = tMax ∧ c.method = method.getD "LSODA" := by
  refine ⟨toM_rateMatrix Z hZ1 hZ j E w cni, rfl, by simp [Basic.call], rfl, rfl⟩

/-- DR enters iff a non-zero width is given -/
theorem dr_iff_width (w : ℝ) : (effWidth (some w) = some w ↔ w ≠ 0) ∧ effWidth none = none ∧ effWidth (some 0) = none := by
  refine ⟨?_, rfl, by simp [effWidth]⟩
  simp only [effWidth]; split_ifs with h <;> simp [h]

/-- CNI freezes exactly the neutral row -/
theorem cni_row {n : ℕ} (J : Matrix (Fin n) (Fin n) ℝ) (i c : Fin n) :
    cniM J i c = if (i : ℕ) = 0 then 0 else J i c := rfl

-- non-vacuity
example : effWidth (some 15) = some 15 := by simp [effWidth]
end C01
