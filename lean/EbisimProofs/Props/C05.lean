import EbisimProofs.Props.C04

/-! # C05 — reported rates equal cross section × flux × density × overlap

The fields of `Adv.Stage` are what `_adv_rhs` writes into the rates dictionary (compared entry by
entry with the compiled kernel). The theorems below state each of them as the documented formula
over the device / target / gas definitions, the derivative as the signed sum of the enabled terms,
and what switching one effect off changes. -/
namespace C05
open Adv Num Gen

variable (m : Model ℝ) (y : Array ℝ)

/-! ## every reported quantity is its documented formula -/

/-- electron flux `j/e · 10⁴` (A/cm² → 1/(m² s)) -/
theorem je_formula : (stage m y).je = m.j / Const.Q_E * 1e4 := by
  show m.j / Const.Q_E * (1e4 : ℝ) = _; rfl

/-- ionisation / recombination rates: `σ · n · j_e · f_ei` with the smoothed density -/
theorem R_ei_formula (k : ℕ) (hk : k < m.nq) (h : m.opts.EI = true) :
    at' (stage m y).R_ei k = at' (stage m y).xs_ei k * at' (stage m y).n k * (stage m y).je * at' (stage m y).fei k := by
  rw [C03.stage_R_ei, if_pos h, at'_ofFn _ k hk]
theorem R_rr_formula (k : ℕ) (hk : k < m.nq) (h : m.opts.RR = true) :
    at' (stage m y).R_rr k = at' (stage m y).xs_rr k * at' (stage m y).n k * (stage m y).je * at' (stage m y).fei k := by
  rw [C03.stage_R_rr, if_pos h, at'_ofFn _ k hk]
theorem R_dr_formula (k : ℕ) (hk : k < m.nq) (h : m.opts.DR = true) :
    at' (stage m y).R_dr k = at' (stage m y).xs_dr k * at' (stage m y).n k * (stage m y).je * at' (stage m y).fei k := by
  rw [C03.stage_R_dr, if_pos h, at'_ofFn _ k hk]

/-- the cross sections used are the precomputed ones, or — with `RECOMPUTE_CROSS_SECTIONS` — the
vector forms at the space-charge corrected mean energy (and the computed spread for DR) -/
theorem xs_used :
    (stage m y).xs_ei = (if m.opts.RECOMPUTE then ((m.zs.map fun z => Xs.eixsVec z (stage m y).e_kin).flatten.toArray) else m.eixs) ∧
    (stage m y).xs_rr = (if m.opts.RECOMPUTE then ((m.zs.map fun z => Xs.rrxsVec z (stage m y).e_kin).flatten.toArray) else m.rrxs) ∧
    (stage m y).xs_dr = (if m.opts.RECOMPUTE then ((m.zs.map fun z => Xs.drxsVec z (stage m y).e_kin (stage m y).fwhm).flatten.toArray) else m.drxs) :=
  ⟨rfl, rfl, rfl⟩

/-- charge exchange: `(Σ_gases σ_CX(q, IP_g) n0_g + Σ_{targets j with cx} σ_CX(q, IP_j) n3d(lb_j)) · n · v_th`,
accumulated gas by gas, then target by target -/
theorem R_cx_formula (k : ℕ) (hk : k < m.nq) (h : m.opts.CX = true) :
    at' (stage m y).R_cx k =
      (List.range m.cxTg.size).foldl (fun acc t =>
        if m.tgCx.getD t false then acc + at' (m.cxTg.getD t #[]) k * at' (stage m y).n3d (m.lb.getD t 0) * at' (stage m y).n k * at' (stage m y).v_th k else acc)
        ((List.range m.cxBg.size).foldl (fun acc g =>
          acc + at' (m.cxBg.getD g #[]) k * at' m.bgN0 g * at' (stage m y).n k * at' (stage m y).v_th k) 0) := by
  have e : (stage m y).R_cx = if m.opts.CX then Array.ofFn (n := m.nq) fun k =>
      (List.range m.cxTg.size).foldl (fun acc t =>
        if m.tgCx.getD t false then acc + at' (m.cxTg.getD t #[]) k.val * at' (stage m y).n3d (m.lb.getD t 0) * at' (stage m y).n k.val * at' (stage m y).v_th k.val else acc)
        ((List.range m.cxBg.size).foldl (fun acc g =>
          acc + at' (m.cxBg.getD g #[]) k.val * at' m.bgN0 g * at' (stage m y).n k.val * at' (stage m y).v_th k.val) (lit 0))
      else Array.replicate m.nq (lit 0 : ℝ) := rfl
  rw [e, if_pos h, at'_ofFn _ k hk]; simp

/-- effective trap depths, mean beam energy -/
theorem trap_depths :
    (stage m y).v_ax = (m.v_ax + m.v_ax_sc) - minA (stage m y).phi ∧ (stage m y).v_ra = -(minA (stage m y).phi) := ⟨rfl, rfl⟩

/-- the potential is the device's ion-free beam potential unless radial dynamics are on, in which
case it is the e-beam Boltzmann–Poisson solution for the current (smoothed) line densities (C13) -/
theorem potential_used :
    (stage m y).phi = if m.opts.RADIAL then
        (Radial.bpEbeam m.r.toList m.current m.r_e m.e_kin
          ((List.range m.nq).map fun k => (⟨at' (stage m y).n k, at' (stage m y).kT k, at' m.q k⟩ : Radial.Species ℝ))
          none (some m.ldu) m.maxSteps m.relDiff).phi.toArray
      else m.phi0 := rfl

/-- thermal velocity `√(8 e kT / (π A m_p))`, trapping parameters and escape rates -/
theorem v_th_formula (k : ℕ) (hk : k < m.nq) :
    at' (stage m y).v_th k = Real.sqrt (8 * Const.Q_E * at' (stage m y).kT k / (Const.PI * at' m.a k * Const.M_P)) := by
  have e : (stage m y).v_th = Array.ofFn (n := m.nq) fun k =>
      Transc.sqrt (lit 8 * Const.Q_E * at' (stage m y).kT k.val / (Const.PI * at' m.a k.val * Const.M_P)) := rfl
  rw [e, at'_ofFn _ k hk]; simp

theorem w_ax_formula (k : ℕ) (hk : k < m.nq) :
    at' (stage m y).w_ax k = trapping_strength_axial (at' (stage m y).kT k) (at' m.q k) (stage m y).v_ax ∧
    at' (stage m y).w_ra k = trapping_strength_radial (at' (stage m y).kT k) (at' m.q k) (at' m.a k) (stage m y).v_ra m.b_ax m.r_dt ∧
    at' (stage m y).e_ax k = collisional_escape_rate (at' (stage m y).ri k) (at' (stage m y).w_ax k) ∧
    at' (stage m y).e_ra k = collisional_escape_rate (at' (stage m y).ri k) (at' (stage m y).w_ra k) := by
  have e1 : (stage m y).w_ax = Array.ofFn (n := m.nq) fun k => trapping_strength_axial (at' (stage m y).kT k.val) (at' m.q k.val) (stage m y).v_ax := rfl
  have e2 : (stage m y).w_ra = Array.ofFn (n := m.nq) fun k =>
      trapping_strength_radial (at' (stage m y).kT k.val) (at' m.q k.val) (at' m.a k.val) (stage m y).v_ra m.b_ax m.r_dt := rfl
  have e3 : (stage m y).e_ax = Array.ofFn (n := m.nq) fun k => collisional_escape_rate (at' (stage m y).ri k.val) (at' (stage m y).w_ax k.val) := rfl
  have e4 : (stage m y).e_ra = Array.ofFn (n := m.nq) fun k => collisional_escape_rate (at' (stage m y).ri k.val) (at' (stage m y).w_ra k.val) := rfl
  refine ⟨by rw [e1, at'_ofFn _ k hk], by rw [e2, at'_ofFn _ k hk], by rw [e3, at'_ofFn _ k hk], by rw [e4, at'_ofFn _ k hk]⟩

/-- escape rates: `max(ν_esc · n, 0)`, zero for neutral rows -/
theorem R_ax_formula (k : ℕ) (hk : k < m.nq) (h : m.opts.ESC_AX = true) :
    at' (stage m y).R_ax k = if k ∈ m.lb then 0 else max (at' (stage m y).e_ax k * at' (stage m y).n k) 0 := by
  rw [C03.stage_R_ax, if_pos h, at'_zeroAt]
  split_ifs
  · rfl
  · rw [at'_ofFn _ k hk, max'_real]; norm_num

/-- Spitzer heating `spitzer_heating(n3d, n_e, kT, E_mean, A, q) · f_ei` with `n_e = j_e / v_e(E_mean)` -/
theorem sh_formula (k : ℕ) (hk : k < m.nq) (h : m.opts.SPITZER = true) :
    at' (stage m y).sh k = spitzer_heating (at' (stage m y).n3d k) ((stage m y).je / electron_velocity (stage m y).e_kin)
      (at' (stage m y).kT k) (stage m y).e_kin (at' m.a k) (at' m.q k) * at' (stage m y).fei k := by
  have e : (stage m y).sh = if m.opts.SPITZER then Array.ofFn (n := m.nq) fun k =>
      spitzer_heating (at' (stage m y).n3d k.val) ((stage m y).je / electron_velocity (stage m y).e_kin) (at' (stage m y).kT k.val)
        (stage m y).e_kin (at' m.a k.val) (at' m.q k.val) * at' (stage m y).fei k.val
    else Array.replicate m.nq (lit 0 : ℝ) := rfl
  rw [e, if_pos h, at'_ofFn _ k hk]

/-! ## the derivative is the signed sum of the enabled terms -/

/-- the returned derivative is `dnAt` / `dkTAt` over these arrays (C03 `dn_interior`, C04
`dkT_is_documented_sum` spell the sums out), neutral rows zero -/
theorem rhs_is_signed_sum (k : ℕ) (hk : k ∉ m.lb) :
    (rhs m y).dn k = (-at' (stage m y).R_ei k + shiftUp (at' (stage m y).R_ei) k)
      + (-at' (stage m y).R_rr k + shiftDown m.nq (at' (stage m y).R_rr) k)
      + (-at' (stage m y).R_dr k + shiftDown m.nq (at' (stage m y).R_dr) k)
      + (-at' (stage m y).R_cx k + shiftDown m.nq (at' (stage m y).R_cx) k)
      - at' (stage m y).R_ax k - at' (stage m y).R_ra k :=
  C03.dn_interior m.nq m.lb (stage m y).prates k hk

/-! ## switching one effect off removes exactly its own contribution -/

/-- a disabled process contributes the zero array … -/
theorem disabled_is_zero (k : ℕ) :
    (m.opts.EI = false → at' (stage m y).R_ei k = 0) ∧ (m.opts.RR = false → at' (stage m y).R_rr k = 0) ∧
    (m.opts.DR = false → at' (stage m y).R_dr k = 0) ∧ (m.opts.ESC_AX = false → at' (stage m y).R_ax k = 0) ∧
    (m.opts.ESC_RA = false → at' (stage m y).R_ra k = 0) := by
  refine ⟨fun h => ?_, fun h => ?_, fun h => ?_, fun h => ?_, fun h => ?_⟩
  · rw [C03.stage_R_ei, if_neg (by simp [h])]; exact at'_replicate _ _
  · rw [C03.stage_R_rr, if_neg (by simp [h])]; exact at'_replicate _ _
  · rw [C03.stage_R_dr, if_neg (by simp [h])]; exact at'_replicate _ _
  · rw [C03.stage_R_ax, if_neg (by simp [h])]; exact at'_replicate _ _
  · rw [C03.stage_R_ra, if_neg (by simp [h])]; exact at'_replicate _ _

/-- the same for charge exchange, Spitzer heating and ion–ion heat exchange: the reported array is
identically zero when the process is switched off -/
theorem disabled_is_zero' (k : ℕ) :
    (m.opts.CX = false → at' (stage m y).R_cx k = 0) ∧ (m.opts.SPITZER = false → at' (stage m y).sh k = 0) ∧
    (m.opts.CT = false → at' (stage m y).ct k = 0) := by
  have hcx : m.opts.CX = false → (stage m y).R_cx = Array.replicate m.nq (lit 0 : ℝ) := by
    intro h; show (if m.opts.CX then _ else _) = _; rw [if_neg (by simp [h])]
  have hsh : m.opts.SPITZER = false → (stage m y).sh = Array.replicate m.nq (lit 0 : ℝ) := by
    intro h; show (if m.opts.SPITZER then _ else _) = _; rw [if_neg (by simp [h])]
  have hct : m.opts.CT = false → (stage m y).ct = Array.replicate m.nq (lit 0 : ℝ) := by
    intro h; show (if m.opts.CT then _ else _) = _; rw [if_neg (by simp [h])]
  exact ⟨fun h => by rw [hcx h]; exact at'_replicate _ _, fun h => by rw [hsh h]; exact at'_replicate _ _,
    fun h => by rw [hct h]; exact at'_replicate _ _⟩

/-- … and leaves every other reported quantity untouched: with EI switched off all other stage
arrays are the same arrays (definitional: none of them reads the switch) -/
theorem switch_EI_leaves_others (o : Options) (h : o = { m.opts with EI := false }) :
    let m' : Model ℝ := { m with opts := o }
    (stage m' y).R_rr = (stage m y).R_rr ∧ (stage m' y).R_dr = (stage m y).R_dr ∧ (stage m' y).R_cx = (stage m y).R_cx ∧
    (stage m' y).R_ax = (stage m y).R_ax ∧ (stage m' y).R_ra = (stage m y).R_ra ∧ (stage m' y).sh = (stage m y).sh ∧
    (stage m' y).ct = (stage m y).ct ∧ (stage m' y).fei = (stage m y).fei ∧ (stage m' y).iheat = (stage m y).iheat ∧
    (stage m' y).e_kin = (stage m y).e_kin ∧ (stage m' y).fwhm = (stage m y).fwhm := by
  subst h
  exact ⟨rfl, rfl, rfl, rfl, rfl, rfl, rfl, rfl, rfl, rfl, rfl⟩

theorem switch_RR_leaves_others (o : Options) (h : o = { m.opts with RR := false }) :
    let m' : Model ℝ := { m with opts := o }
    (stage m' y).R_ei = (stage m y).R_ei ∧ (stage m' y).R_dr = (stage m y).R_dr ∧ (stage m' y).R_cx = (stage m y).R_cx ∧
    (stage m' y).R_ax = (stage m y).R_ax ∧ (stage m' y).R_ra = (stage m y).R_ra ∧ (stage m' y).sh = (stage m y).sh ∧
    (stage m' y).ct = (stage m y).ct ∧ (stage m' y).fei = (stage m y).fei := by
  subst h
  exact ⟨rfl, rfl, rfl, rfl, rfl, rfl, rfl, rfl⟩

theorem switch_escape_leaves_others (o : Options) (h : o = { m.opts with ESC_AX := false }) :
    let m' : Model ℝ := { m with opts := o }
    (stage m' y).R_ei = (stage m y).R_ei ∧ (stage m' y).R_rr = (stage m y).R_rr ∧ (stage m' y).R_dr = (stage m y).R_dr ∧
    (stage m' y).R_cx = (stage m y).R_cx ∧ (stage m' y).R_ra = (stage m y).R_ra ∧ (stage m' y).sh = (stage m y).sh ∧
    (stage m' y).ct = (stage m y).ct := by
  subst h
  exact ⟨rfl, rfl, rfl, rfl, rfl, rfl, rfl⟩

/-- switching `DR` off leaves every other stage array (rates, heating terms, overlap factors, trap
parameters, cross sections used, potential) definitionally unchanged -/
theorem switch_DR_leaves_others (o : Options) (h : o = { m.opts with DR := false }) :
    let m' : Model ℝ := { m with opts := o }
    (stage m' y).R_ei = (stage m y).R_ei ∧
    (stage m' y).R_rr = (stage m y).R_rr ∧
    (stage m' y).R_cx = (stage m y).R_cx ∧
    (stage m' y).R_ax = (stage m y).R_ax ∧
    (stage m' y).R_ra = (stage m y).R_ra ∧
    (stage m' y).sh = (stage m y).sh ∧
    (stage m' y).ct = (stage m y).ct ∧
    (stage m' y).fei = (stage m y).fei ∧
    (stage m' y).iheat = (stage m y).iheat ∧
    (stage m' y).e_kin = (stage m y).e_kin ∧
    (stage m' y).fwhm = (stage m y).fwhm ∧
    (stage m' y).w_ax = (stage m y).w_ax ∧
    (stage m' y).w_ra = (stage m y).w_ra ∧
    (stage m' y).ri = (stage m y).ri ∧
    (stage m' y).v_th = (stage m y).v_th ∧
    (stage m' y).xs_ei = (stage m y).xs_ei ∧
    (stage m' y).xs_rr = (stage m y).xs_rr ∧
    (stage m' y).xs_dr = (stage m y).xs_dr ∧
    (stage m' y).phi = (stage m y).phi := by
  subst h
  exact ⟨rfl, rfl, rfl, rfl, rfl, rfl, rfl, rfl, rfl, rfl, rfl, rfl, rfl, rfl, rfl, rfl, rfl, rfl, rfl⟩

/-- switching `CX` off leaves every other stage array (rates, heating terms, overlap factors, trap
parameters, cross sections used, potential) definitionally unchanged -/
theorem switch_CX_leaves_others (o : Options) (h : o = { m.opts with CX := false }) :
    let m' : Model ℝ := { m with opts := o }
    (stage m' y).R_ei = (stage m y).R_ei ∧
    (stage m' y).R_rr = (stage m y).R_rr ∧
    (stage m' y).R_dr = (stage m y).R_dr ∧
    (stage m' y).R_ax = (stage m y).R_ax ∧
    (stage m' y).R_ra = (stage m y).R_ra ∧
    (stage m' y).sh = (stage m y).sh ∧
    (stage m' y).ct = (stage m y).ct ∧
    (stage m' y).fei = (stage m y).fei ∧
    (stage m' y).iheat = (stage m y).iheat ∧
    (stage m' y).e_kin = (stage m y).e_kin ∧
    (stage m' y).fwhm = (stage m y).fwhm ∧
    (stage m' y).w_ax = (stage m y).w_ax ∧
    (stage m' y).w_ra = (stage m y).w_ra ∧
    (stage m' y).ri = (stage m y).ri ∧
    (stage m' y).v_th = (stage m y).v_th ∧
    (stage m' y).xs_ei = (stage m y).xs_ei ∧
    (stage m' y).xs_rr = (stage m y).xs_rr ∧
    (stage m' y).xs_dr = (stage m y).xs_dr ∧
    (stage m' y).phi = (stage m y).phi := by
  subst h
  exact ⟨rfl, rfl, rfl, rfl, rfl, rfl, rfl, rfl, rfl, rfl, rfl, rfl, rfl, rfl, rfl, rfl, rfl, rfl, rfl⟩

/-- switching `SPITZER` off leaves every other stage array (rates, heating terms, overlap factors, trap
parameters, cross sections used, potential) definitionally unchanged -/
theorem switch_SPITZER_leaves_others (o : Options) (h : o = { m.opts with SPITZER := false }) :
    let m' : Model ℝ := { m with opts := o }
    (stage m' y).R_ei = (stage m y).R_ei ∧
    (stage m' y).R_rr = (stage m y).R_rr ∧
    (stage m' y).R_dr = (stage m y).R_dr ∧
    (stage m' y).R_cx = (stage m y).R_cx ∧
    (stage m' y).R_ax = (stage m y).R_ax ∧
    (stage m' y).R_ra = (stage m y).R_ra ∧
    (stage m' y).ct = (stage m y).ct ∧
    (stage m' y).fei = (stage m y).fei ∧
    (stage m' y).iheat = (stage m y).iheat ∧
    (stage m' y).e_kin = (stage m y).e_kin ∧
    (stage m' y).fwhm = (stage m y).fwhm ∧
    (stage m' y).w_ax = (stage m y).w_ax ∧
    (stage m' y).w_ra = (stage m y).w_ra ∧
    (stage m' y).ri = (stage m y).ri ∧
    (stage m' y).v_th = (stage m y).v_th ∧
    (stage m' y).xs_ei = (stage m y).xs_ei ∧
    (stage m' y).xs_rr = (stage m y).xs_rr ∧
    (stage m' y).xs_dr = (stage m y).xs_dr ∧
    (stage m' y).phi = (stage m y).phi := by
  subst h
  exact ⟨rfl, rfl, rfl, rfl, rfl, rfl, rfl, rfl, rfl, rfl, rfl, rfl, rfl, rfl, rfl, rfl, rfl, rfl, rfl⟩

/-- switching `CT` off leaves every other stage array (rates, heating terms, overlap factors, trap
parameters, cross sections used, potential) definitionally unchanged -/
theorem switch_CT_leaves_others (o : Options) (h : o = { m.opts with CT := false }) :
    let m' : Model ℝ := { m with opts := o }
    (stage m' y).R_ei = (stage m y).R_ei ∧
    (stage m' y).R_rr = (stage m y).R_rr ∧
    (stage m' y).R_dr = (stage m y).R_dr ∧
    (stage m' y).R_cx = (stage m y).R_cx ∧
    (stage m' y).R_ax = (stage m y).R_ax ∧
    (stage m' y).R_ra = (stage m y).R_ra ∧
    (stage m' y).sh = (stage m y).sh ∧
    (stage m' y).fei = (stage m y).fei ∧
    (stage m' y).iheat = (stage m y).iheat ∧
    (stage m' y).e_kin = (stage m y).e_kin ∧
    (stage m' y).fwhm = (stage m y).fwhm ∧
    (stage m' y).w_ax = (stage m y).w_ax ∧
    (stage m' y).w_ra = (stage m y).w_ra ∧
    (stage m' y).ri = (stage m y).ri ∧
    (stage m' y).v_th = (stage m y).v_th ∧
    (stage m' y).xs_ei = (stage m y).xs_ei ∧
    (stage m' y).xs_rr = (stage m y).xs_rr ∧
    (stage m' y).xs_dr = (stage m y).xs_dr ∧
    (stage m' y).phi = (stage m y).phi := by
  subst h
  exact ⟨rfl, rfl, rfl, rfl, rfl, rfl, rfl, rfl, rfl, rfl, rfl, rfl, rfl, rfl, rfl, rfl, rfl, rfl, rfl⟩

/-- switching `ESC_RA` off leaves every other stage array (rates, heating terms, overlap factors, trap
parameters, cross sections used, potential) definitionally unchanged -/
theorem switch_ESC_RA_leaves_others (o : Options) (h : o = { m.opts with ESC_RA := false }) :
    let m' : Model ℝ := { m with opts := o }
    (stage m' y).R_ei = (stage m y).R_ei ∧
    (stage m' y).R_rr = (stage m y).R_rr ∧
    (stage m' y).R_dr = (stage m y).R_dr ∧
    (stage m' y).R_cx = (stage m y).R_cx ∧
    (stage m' y).R_ax = (stage m y).R_ax ∧
    (stage m' y).sh = (stage m y).sh ∧
    (stage m' y).ct = (stage m y).ct ∧
    (stage m' y).fei = (stage m y).fei ∧
    (stage m' y).iheat = (stage m y).iheat ∧
    (stage m' y).e_kin = (stage m y).e_kin ∧
    (stage m' y).fwhm = (stage m y).fwhm ∧
    (stage m' y).w_ax = (stage m y).w_ax ∧
    (stage m' y).w_ra = (stage m y).w_ra ∧
    (stage m' y).ri = (stage m y).ri ∧
    (stage m' y).v_th = (stage m y).v_th ∧
    (stage m' y).xs_ei = (stage m y).xs_ei ∧
    (stage m' y).xs_rr = (stage m y).xs_rr ∧
    (stage m' y).xs_dr = (stage m y).xs_dr ∧
    (stage m' y).phi = (stage m y).phi := by
  subst h
  exact ⟨rfl, rfl, rfl, rfl, rfl, rfl, rfl, rfl, rfl, rfl, rfl, rfl, rfl, rfl, rfl, rfl, rfl, rfl, rfl⟩

/-- switching `IHEAT` off leaves every other stage array (rates, heating terms, overlap factors, trap
parameters, cross sections used, potential) definitionally unchanged -/
theorem switch_IHEAT_leaves_others (o : Options) (h : o = { m.opts with IHEAT := false }) :
    let m' : Model ℝ := { m with opts := o }
    (stage m' y).R_ei = (stage m y).R_ei ∧
    (stage m' y).R_rr = (stage m y).R_rr ∧
    (stage m' y).R_dr = (stage m y).R_dr ∧
    (stage m' y).R_cx = (stage m y).R_cx ∧
    (stage m' y).R_ax = (stage m y).R_ax ∧
    (stage m' y).R_ra = (stage m y).R_ra ∧
    (stage m' y).sh = (stage m y).sh ∧
    (stage m' y).ct = (stage m y).ct ∧
    (stage m' y).fei = (stage m y).fei ∧
    (stage m' y).e_kin = (stage m y).e_kin ∧
    (stage m' y).fwhm = (stage m y).fwhm ∧
    (stage m' y).w_ax = (stage m y).w_ax ∧
    (stage m' y).w_ra = (stage m y).w_ra ∧
    (stage m' y).ri = (stage m y).ri ∧
    (stage m' y).v_th = (stage m y).v_th ∧
    (stage m' y).xs_ei = (stage m y).xs_ei ∧
    (stage m' y).xs_rr = (stage m y).xs_rr ∧
    (stage m' y).xs_dr = (stage m y).xs_dr ∧
    (stage m' y).phi = (stage m y).phi := by
  subst h
  exact ⟨rfl, rfl, rfl, rfl, rfl, rfl, rfl, rfl, rfl, rfl, rfl, rfl, rfl, rfl, rfl, rfl, rfl, rfl, rfl⟩

/-- consequently: switching ionisation off changes the derivative of every non-neutral state by
exactly the ionisation term -/
theorem switch_EI_removes_own_term (k : ℕ) (hk : k ∉ m.lb) (o : Options) (h : o = { m.opts with EI := false }) :
    let m' : Model ℝ := { m with opts := o }
    (rhs m' y).dn k = (rhs m y).dn k - (-at' (stage m y).R_ei k + shiftUp (at' (stage m y).R_ei) k) := by
  intro m'
  obtain ⟨h1, h2, h3, h4, h5, _⟩ := switch_EI_leaves_others m y o h
  have hz : ∀ j, at' (stage m' y).R_ei j = 0 := fun j => (disabled_is_zero m' y j).1 (by simp [m', h])
  have hlb : m'.lb = m.lb := rfl
  have hnq : m'.nq = m.nq := rfl
  rw [rhs_is_signed_sum m' y k (by rw [hlb]; exact hk), rhs_is_signed_sum m y k hk, hnq, h1, h2, h3, h4, h5]
  have : shiftUp (at' (stage m' y).R_ei) k = 0 := by unfold shiftUp; split_ifs <;> simp [hz]
  rw [hz k, this]; ring

/-! ## the particle balance on the kernel itself -/

/-- a rate `σ · n · j_e · f_ei` (or the zero array of a disabled process) vanishes where the cross
section used vanishes -/
theorem rate_zero_of_xs_zero (k : ℕ) (hk : k < m.nq) :
    (at' (stage m y).xs_ei k = 0 → at' (stage m y).R_ei k = 0) ∧ (at' (stage m y).xs_rr k = 0 → at' (stage m y).R_rr k = 0) ∧
    (at' (stage m y).xs_dr k = 0 → at' (stage m y).R_dr k = 0) := by
  refine ⟨fun h => ?_, fun h => ?_, fun h => ?_⟩
  · cases ho : m.opts.EI with
    | true => rw [R_ei_formula m y k hk ho, h]; ring
    | false => exact (disabled_is_zero m y k).1 ho
  · cases ho : m.opts.RR with
    | true => rw [R_rr_formula m y k hk ho, h]; ring
    | false => exact (disabled_is_zero m y k).2.1 ho
  · cases ho : m.opts.DR with
    | true => rw [R_dr_formula m y k hk ho, h]; ring
    | false => exact (disabled_is_zero m y k).2.2.1 ho

/-- **particle balance of one species, stated on the kernel's own output** (`Adv.rhs`, any option set,
any state): for the block `[L, U)` of a target whose bare nucleus has no ionisation cross section and
— when another target follows — whose successor's neutral row has no recombination / charge-exchange
rate, the sum of the ion derivatives is the ionisation of the neutral minus the recombination into
the neutral minus the two escape rates. The hypotheses are facts about the cross-section *data* the
kernel uses (`stage.xs_*`: the precomputed vectors or, with `RECOMPUTE_CROSS_SECTIONS`, the vector
forms of C07–C09), not about the state. -/
theorem kernel_block_balance (L U : ℕ) (h : L + 2 ≤ U) (hU : U ≤ m.nq)
    (hint : ∀ k ∈ Finset.Ico (L + 1) U, k ∉ m.lb)
    (hei : at' (stage m y).xs_ei (U - 1) = 0)
    (hrr : U < m.nq → at' (stage m y).xs_rr U = 0) (hdr : U < m.nq → at' (stage m y).xs_dr U = 0)
    (hcx : U < m.nq → at' (stage m y).R_cx U = 0) :
    ∑ k ∈ Finset.Ico (L + 1) U, (rhs m y).dn k =
      at' (stage m y).R_ei L - (at' (stage m y).R_rr (L + 1) + at' (stage m y).R_dr (L + 1) + at' (stage m y).R_cx (L + 1))
        - ∑ k ∈ Finset.Ico (L + 1) U, (at' (stage m y).R_ax k + at' (stage m y).R_ra k) := by
  have hb := C03.dn_balance m.nq m.lb (stage m y).prates L U h hU hint
    ((rate_zero_of_xs_zero m y (U - 1) (by omega)).1 hei)
    (fun hlt => (rate_zero_of_xs_zero m y U hlt).2.1 (hrr hlt))
    (fun hlt => (rate_zero_of_xs_zero m y U hlt).2.2 (hdr hlt))
    hcx
  exact hb

/-- **thermal-energy balance of one species, stated on the kernel's own output**: same data hypotheses
as `kernel_block_balance`, non-zero raw densities in the block. `T` is the clamped temperature the
kernel uses, `n_r` the raw density; all terms are entries of the kernel's reported arrays. -/
theorem kernel_energy_balance (L U : ℕ) (h : L + 2 ≤ U) (hU : U ≤ m.nq)
    (hint : ∀ k ∈ Finset.Ico (L + 1) U, k ∉ m.lb) (hn : ∀ k ∈ Finset.Ico (L + 1) U, at' (stage m y).n_r k ≠ 0)
    (hei : at' (stage m y).xs_ei (U - 1) = 0)
    (hrr : U < m.nq → at' (stage m y).xs_rr U = 0) (hdr : U < m.nq → at' (stage m y).xs_dr U = 0)
    (hcx : U < m.nq → at' (stage m y).R_cx U = 0) :
    let S := stage m y
    let T := S.tin m
    let P := S.prates
    ∑ k ∈ Finset.Ico (L + 1) U, (T.kT k * (rhs m y).dn k + T.n_r k * (rhs m y).dkT k) =
      P.ei L * T.kT L - (P.rr (L + 1) + P.dr (L + 1) + P.cx (L + 1)) * T.kT (L + 1)
      + ∑ k ∈ Finset.Ico (L + 1) U, T.ih (k - 1) * P.ei (k - 1)
      - ∑ k ∈ Finset.Ico (L + 1) U, T.ih (k + 1) * (C04.cut m.nq P.rr (k + 1) + C04.cut m.nq P.dr (k + 1) + C04.cut m.nq P.cx (k + 1))
      + ∑ k ∈ Finset.Ico (L + 1) U, T.n_r k * (T.sh k + T.ct k)
      - ∑ k ∈ Finset.Ico (L + 1) U, T.kT k * (P.ax k + P.ra k)
      - ∑ k ∈ Finset.Ico (L + 1) U, T.n_r k * (Adv.axCool T k + Adv.raCool T k) := by
  intro S T P
  exact C04.thermal_energy_balance m.nq m.lb T P L U rfl h hU hint hn
    ((rate_zero_of_xs_zero m y (U - 1) (by omega)).1 hei)
    (fun hlt => (rate_zero_of_xs_zero m y U hlt).2.1 (hrr hlt))
    (fun hlt => (rate_zero_of_xs_zero m y U hlt).2.2 (hdr hlt))
    hcx

/-! ## overlap factors and ionisation heating: documented radial integrals, range, sign -/

theorem sumA_ofFn (n : ℕ) (t : ℕ → ℝ) :
    sumA (Array.ofFn (n := n) fun i => t i.val) = ∑ i ∈ Finset.range n, t i := by
  unfold sumA
  rw [← Array.foldl_toList, Array.toList_ofFn, lit_real, Nat.cast_zero]
  induction n with
  | zero => simp
  | succ k ih =>
    rw [List.ofFn_succ', List.concat_eq_append, List.foldl_append, Finset.sum_range_succ]
    simp only [List.foldl_cons, List.foldl_nil, Fin.val_last]
    have : (List.ofFn fun i : Fin k => t (Fin.castSucc i).val) = List.ofFn fun i : Fin k => t i.val := by
      congr
    rw [this, ih]

/-- the trapezoid rule on the first `m` nodes as a finite sum -/
theorem trapzA_eq_sum (yv x : Array ℝ) (mm : ℕ) :
    trapzA yv x mm = ∑ i ∈ Finset.range (mm - 1), (at' x (i + 1) - at' x i) * (at' yv (i + 1) + at' yv i) / 2 := by
  unfold trapzA
  rw [sumA_ofFn (mm - 1) fun i => (at' x (i + 1) - at' x i) * (at' yv (i + 1) + at' yv i) / (2.0 : ℝ)]
  apply Finset.sum_congr rfl
  intro i _; norm_num

/-- a non-negative integrand on a non-decreasing grid: the integral over the first `m₁` nodes is non-negative and not
larger than the integral over the first `m₂ ≥ m₁` nodes -/
theorem trapzA_mono (yv x : Array ℝ) (m1 m2 : ℕ) (h12 : m1 ≤ m2) (hy : ∀ i, 0 ≤ at' yv i)
    (hx : ∀ i, i + 1 < m2 → at' x i ≤ at' x (i + 1)) :
    0 ≤ trapzA yv x m1 ∧ trapzA yv x m1 ≤ trapzA yv x m2 := by
  rw [trapzA_eq_sum, trapzA_eq_sum]
  have hterm : ∀ i ∈ Finset.range (m2 - 1), 0 ≤ (at' x (i + 1) - at' x i) * (at' yv (i + 1) + at' yv i) / 2 := by
    intro i hi
    have hi' : i + 1 < m2 := by have := Finset.mem_range.mp hi; omega
    have := hx i hi'
    have := hy i; have := hy (i + 1)
    apply div_nonneg _ (by norm_num)
    apply mul_nonneg <;> linarith
  have hsub : Finset.range (m1 - 1) ⊆ Finset.range (m2 - 1) := by
    intro i hi; simp only [Finset.mem_range] at hi ⊢; omega
  exact ⟨Finset.sum_nonneg fun i hi => hterm i (hsub hi), Finset.sum_le_sum_of_subset_of_nonneg hsub fun i hi _ => hterm i hi⟩

theorem at'_map {β : Type} (v : Array β) (f : β → ℝ) (k : ℕ) (hk : k < v.size) : at' (v.map f) k = f v[k] := by
  simp [at', Array.getD, hk]

/-- **the beam overlap factor is the documented ratio of radial integrals**: `∫₀^{r_e} r s dr / ∫₀^{r_dt} r s dr` (trapezoid rule on the
device grid) of the Boltzmann shape `s = exp(−q (φ − φ_min)/kT)` of the state -/
theorem fei_formula (k : ℕ) (hk : k < m.nq) :
    at' (stage m y).fei k =
      trapzA (Array.ofFn (n := m.r.size) fun g =>
          at' (Array.ofFn (n := m.r.size) fun g' => Real.exp (-(at' m.q k) * (at' (stage m y).phi g'.val - minA (stage m y).phi) / at' (stage m y).kT k)) g.val
            * at' m.r g.val) m.r (m.ix + 1)
      / trapzA (Array.ofFn (n := m.r.size) fun g =>
          at' (Array.ofFn (n := m.r.size) fun g' => Real.exp (-(at' m.q k) * (at' (stage m y).phi g'.val - minA (stage m y).phi) / at' (stage m y).kT k)) g.val
            * at' m.r g.val) m.r m.r.size := by
  have e : (stage m y).fei = Array.ofFn (n := m.nq) fun k =>
      at' (((Array.ofFn (n := m.nq) fun k => Array.ofFn (n := m.r.size) fun g =>
          Transc.exp (-(at' m.q k.val) * (at' (stage m y).phi g.val - minA (stage m y).phi) / at' (stage m y).kT k.val)).map
          fun s => Array.ofFn (n := m.r.size) fun g => at' s g.val * at' m.r g.val).map fun s => trapzA s m.r (m.ix + 1)) k.val
      / at' (((Array.ofFn (n := m.nq) fun k => Array.ofFn (n := m.r.size) fun g =>
          Transc.exp (-(at' m.q k.val) * (at' (stage m y).phi g.val - minA (stage m y).phi) / at' (stage m y).kT k.val)).map
          fun s => Array.ofFn (n := m.r.size) fun g => at' s g.val * at' m.r g.val).map fun s => trapzA s m.r m.r.size) k.val := rfl
  rw [e, at'_ofFn _ k hk]
  simp only
  rw [at'_map _ _ k (by simp [hk]), at'_map _ _ k (by simp [hk])]
  simp

/-- **beam overlap factors lie in `[0, 1]`** on every non-negative, non-decreasing grid whose beam-edge index lies on the grid — for
every state, potential and temperature (no positivity of the denominator is needed: the integrand is non-negative) -/
theorem fei_unit_interval (k : ℕ) (hk : k < m.nq) (hr0 : ∀ i, 0 ≤ at' m.r i)
    (hmono : ∀ i, i + 1 < m.r.size → at' m.r i ≤ at' m.r (i + 1)) (hix : m.ix + 1 ≤ m.r.size) :
    0 ≤ at' (stage m y).fei k ∧ at' (stage m y).fei k ≤ 1 := by
  rw [fei_formula m y k hk]
  set S : Array ℝ := Array.ofFn (n := m.r.size) fun g' =>
    Real.exp (-(at' m.q k) * (at' (stage m y).phi g'.val - minA (stage m y).phi) / at' (stage m y).kT k) with hS
  set Y : Array ℝ := Array.ofFn (n := m.r.size) fun g => at' S g.val * at' m.r g.val with hY
  have hSnn : ∀ i, 0 ≤ at' S i := by
    intro i
    by_cases h : i < m.r.size
    · rw [hS, at'_ofFn _ i h]; exact (Real.exp_pos _).le
    · rw [hS, at'_ofFn_ge _ i (by omega)]
  have hy : ∀ i, 0 ≤ at' Y i := by
    intro i
    by_cases h : i < m.r.size
    · rw [hY, at'_ofFn _ i h]; exact mul_nonneg (hSnn i) (hr0 i)
    · rw [hY, at'_ofFn_ge _ i (by omega)]
  obtain ⟨h0, h1⟩ := trapzA_mono Y m.r (m.ix + 1) m.r.size hix hy hmono
  exact ⟨div_nonneg h0 (le_trans h0 h1), div_le_one_of_le₀ h1 (le_trans h0 h1)⟩

theorem foldl_min_le' (xs : List ℝ) (x : ℝ) :
    (xs.foldl (fun m y => if y < m then y else m) x ≤ x) ∧ (∀ a ∈ xs, xs.foldl (fun m y => if y < m then y else m) x ≤ a) := by
  induction xs generalizing x with
  | nil => simp
  | cons y ys ih =>
    simp only [List.foldl_cons, List.mem_cons, forall_eq_or_imp]
    obtain ⟨h1, h2⟩ := ih (if y < x then y else x)
    by_cases hyx : y < x
    · simp only [hyx, if_true] at h1 h2 ⊢
      exact ⟨by linarith, h1, h2⟩
    · simp only [hyx, if_false] at h1 h2 ⊢
      exact ⟨h1, by linarith [not_lt.mp hyx], h2⟩

/-- `phi.min()` is a lower bound of every node value -/
theorem minA_le (v : Array ℝ) (i : ℕ) (hi : i < v.size) : minA v ≤ at' v i := by
  unfold minA
  rw [← Array.foldl_toList]
  have hmem : at' v i ∈ v.toList := by
    have : at' v i = v[i] := by simp [at', Array.getD, hi]
    rw [this]; exact Array.getElem_mem_toList hi
  exact (foldl_min_le' v.toList _).2 _ hmem

/-- **ionisation heating** is `2/3` of the mean potential energy (above the potential minimum) of the state's ions inside the beam,
`⅔ ∫₀^{r_e} r s (φ − φ_min) dr / ∫₀^{r_e} r s dr`, and it is never negative -/
theorem iheat_nonneg (k : ℕ) (hk : k < m.nq) (hr0 : ∀ i, 0 ≤ at' m.r i) (hphi : (stage m y).phi.size = m.r.size)
    (hmono : ∀ i, i + 1 < m.ix + 1 → at' m.r i ≤ at' m.r (i + 1)) :
    0 ≤ at' (stage m y).iheat k := by
  have e : (stage m y).iheat = Array.ofFn (n := m.nq) fun k =>
      if m.opts.IHEAT then lit 2 / lit 3 *
        at' (((Array.ofFn (n := m.nq) fun k => Array.ofFn (n := m.r.size) fun g =>
          Transc.exp (-(at' m.q k.val) * (at' (stage m y).phi g.val - minA (stage m y).phi) / at' (stage m y).kT k.val)).map
          fun s => Array.ofFn (n := m.r.size) fun g => at' s g.val * at' m.r g.val).map fun s =>
            trapzA (Array.ofFn (n := m.r.size) fun g => at' s g.val * (at' (stage m y).phi g.val - minA (stage m y).phi)) m.r (m.ix + 1)) k.val
        / at' (((Array.ofFn (n := m.nq) fun k => Array.ofFn (n := m.r.size) fun g =>
          Transc.exp (-(at' m.q k.val) * (at' (stage m y).phi g.val - minA (stage m y).phi) / at' (stage m y).kT k.val)).map
          fun s => Array.ofFn (n := m.r.size) fun g => at' s g.val * at' m.r g.val).map fun s => trapzA s m.r (m.ix + 1)) k.val
      else lit 0 := rfl
  rw [e, at'_ofFn _ k hk]
  simp only
  split_ifs
  · rw [at'_map _ _ k (by simp [hk]), at'_map _ _ k (by simp [hk])]
    simp only [Array.getElem_map, Array.getElem_ofFn, lit_real, Transc.exp_real]
    set S : Array ℝ := Array.ofFn (n := m.r.size) fun g' =>
      Real.exp (-(at' m.q k) * (at' (stage m y).phi g'.val - minA (stage m y).phi) / at' (stage m y).kT k) with hS
    set Y : Array ℝ := Array.ofFn (n := m.r.size) fun g => at' S g.val * at' m.r g.val with hY
    have hSnn : ∀ i, 0 ≤ at' S i := by
      intro i
      by_cases h : i < m.r.size
      · rw [hS, at'_ofFn _ i h]; exact (Real.exp_pos _).le
      · rw [hS, at'_ofFn_ge _ i (by omega)]
    have hy : ∀ i, 0 ≤ at' Y i := by
      intro i
      by_cases h : i < m.r.size
      · rw [hY, at'_ofFn _ i h]; exact mul_nonneg (hSnn i) (hr0 i)
      · rw [hY, at'_ofFn_ge _ i (by omega)]
    have hyp : ∀ i, 0 ≤ at' (Array.ofFn (n := m.r.size) fun g => at' Y g.val * (at' (stage m y).phi g.val - minA (stage m y).phi)) i := by
      intro i
      by_cases h : i < m.r.size
      · rw [at'_ofFn _ i h]
        exact mul_nonneg (hy i) (by have := minA_le (stage m y).phi i (by omega); linarith)
      · rw [at'_ofFn_ge _ i (by omega)]
    have h1 := (trapzA_mono _ m.r (m.ix + 1) (m.ix + 1) le_rfl hyp hmono).1
    have h2 := (trapzA_mono Y m.r (m.ix + 1) (m.ix + 1) le_rfl hy hmono).1
    have : (0:ℝ) ≤ 2 / 3 := by norm_num
    exact div_nonneg (mul_nonneg (by norm_num) h1) h2
  · simp

/-- a positive integrand at the second node on a grid that increases there: the trapezoid integral over `mm ≥ 2` nodes is positive -/
theorem trapzA_pos (yv x : Array ℝ) (mm : ℕ) (hm : 2 ≤ mm) (hy : ∀ i, 0 ≤ at' yv i) (hy1 : 0 < at' yv 1)
    (hx : ∀ i, i + 1 < mm → at' x i ≤ at' x (i + 1)) (hx01 : at' x 0 < at' x 1) : 0 < trapzA yv x mm := by
  rw [trapzA_eq_sum]
  have hterm : ∀ i ∈ Finset.range (mm - 1), 0 ≤ (at' x (i + 1) - at' x i) * (at' yv (i + 1) + at' yv i) / 2 := by
    intro i hi
    have hi' : i + 1 < mm := by have := Finset.mem_range.mp hi; omega
    have := hx i hi'; have := hy i; have := hy (i + 1)
    apply div_nonneg _ (by norm_num); apply mul_nonneg <;> linarith
  have h0 : (0 : ℕ) ∈ Finset.range (mm - 1) := by simp; omega
  have hfirst : 0 < (at' x (0 + 1) - at' x 0) * (at' yv (0 + 1) + at' yv 0) / 2 := by
    have := hy 0
    apply div_pos _ (by norm_num)
    apply mul_pos <;> [(simp only [zero_add]; linarith); (simp only [zero_add]; linarith)]
  exact lt_of_lt_of_le hfirst (Finset.single_le_sum hterm h0)

/-- **the radial integrals the kernel divides by are positive** — `∫₀^{r_dt} r s dr` (denominator of the on-axis density, the ion-cloud
radius and the overlap factor) and `∫₀^{r_e} r s dr` (denominator of the ionisation heating) — for every state, potential and temperature,
on every grid that is non-negative, non-decreasing, strictly increasing at its first step, with the beam edge at node `ix ≥ 1`: the
Boltzmann shape `exp(−q(φ−φ_min)/kT)` is strictly positive, whatever its argument. (Over ℝ; in binary64 the shape can underflow to 0 when
`kT < q Δφ₁/500`, the limit the property itself names.) -/
theorem overlap_denominators_pos (k : ℕ) (hr0 : ∀ i, 0 ≤ at' m.r i)
    (hmono : ∀ i, i + 1 < m.r.size → at' m.r i ≤ at' m.r (i + 1)) (h01 : at' m.r 0 < at' m.r 1)
    (hix : 1 ≤ m.ix) (hixs : m.ix + 1 ≤ m.r.size) :
    let S : Array ℝ := Array.ofFn (n := m.r.size) fun g' =>
      Real.exp (-(at' m.q k) * (at' (stage m y).phi g'.val - minA (stage m y).phi) / at' (stage m y).kT k)
    let Y : Array ℝ := Array.ofFn (n := m.r.size) fun g => at' S g.val * at' m.r g.val
    0 < trapzA Y m.r (m.ix + 1) ∧ 0 < trapzA Y m.r m.r.size := by
  intro S Y
  have hsz : 2 ≤ m.r.size := by omega
  have hSnn : ∀ i, 0 ≤ at' S i := by
    intro i
    by_cases h : i < m.r.size
    · rw [at'_ofFn _ i h]; exact (Real.exp_pos _).le
    · rw [at'_ofFn_ge _ i (by omega)]
  have hy : ∀ i, 0 ≤ at' Y i := by
    intro i
    by_cases h : i < m.r.size
    · rw [at'_ofFn _ i h]; exact mul_nonneg (hSnn i) (hr0 i)
    · rw [at'_ofFn_ge _ i (by omega)]
  have hy1 : 0 < at' Y 1 := by
    rw [at'_ofFn _ 1 (by omega), at'_ofFn _ 1 (by omega)]
    exact mul_pos (Real.exp_pos _) (lt_of_le_of_lt (hr0 0) h01)
  exact ⟨trapzA_pos Y m.r (m.ix + 1) (by omega) hy hy1 (fun i hi => hmono i (by omega)) h01,
         trapzA_pos Y m.r m.r.size hsz hy hy1 hmono h01⟩

/-- **mean beam energy and energy spread**: the space-charge corrected energy is `E + ⟨φ⟩`, `⟨φ⟩ = (2/r_e²) ∫₀^{r_e} φ r dr` the beam-area
average of the potential (trapezoid rule up to the beam-edge node); the spread is the device's value when `OVERRIDE_FWHM` is set and otherwise
`2.355 · sqrt(⟨(φ − ⟨φ⟩)²⟩)`, the FWHM of a Gaussian with the variance of the potential over the beam area -/
theorem beam_energy_and_spread :
    (stage m y).e_kin = m.e_kin + 2 * trapzA (Array.ofFn (n := m.r.size) fun g => at' m.r g.val * at' (stage m y).phi g.val) m.r (m.ix + 1) / m.r_e ^ 2 ∧
    (stage m y).fwhm = (if m.opts.OVERRIDE_FWHM then m.fwhm else
      2.355 * Real.sqrt (2 * trapzA (Array.ofFn (n := m.r.size) fun g =>
        at' m.r g.val * (at' (stage m y).phi g.val - ((stage m y).e_kin - m.e_kin)) ^ 2) m.r (m.ix + 1) / m.r_e ^ 2)) := by
  have e1 : (stage m y).e_kin = m.e_kin + lit 2 * trapzA (Array.ofFn (n := m.r.size) fun g => at' m.r g.val * at' (stage m y).phi g.val) m.r (m.ix + 1) / powN m.r_e 2 := rfl
  have e2 : (stage m y).fwhm = (if m.opts.OVERRIDE_FWHM then m.fwhm else
      (2.355 : ℝ) * Transc.sqrt (lit 2 * trapzA (Array.ofFn (n := m.r.size) fun g =>
        at' m.r g.val * powN (at' (stage m y).phi g.val - (lit 2 * trapzA (Array.ofFn (n := m.r.size) fun g => at' m.r g.val * at' (stage m y).phi g.val) m.r (m.ix + 1) / powN m.r_e 2)) 2) m.r (m.ix + 1) / powN m.r_e 2)) := rfl
  refine ⟨by rw [e1]; simp, ?_⟩
  rw [e2, e1]
  simp only [lit_real, powN_real, Transc.sqrt_real, Nat.cast_ofNat, add_sub_cancel_left]

/-- the variance under the square root is never negative on a non-negative, non-decreasing grid: the computed spread is a real number ≥ 0 -/
theorem spread_variance_nonneg (c : ℝ) (hr0 : ∀ i, 0 ≤ at' m.r i) (hmono : ∀ i, i + 1 < m.ix + 1 → at' m.r i ≤ at' m.r (i + 1)) :
    0 ≤ trapzA (Array.ofFn (n := m.r.size) fun g => at' m.r g.val * (at' (stage m y).phi g.val - c) ^ 2) m.r (m.ix + 1) := by
  refine (trapzA_mono _ m.r (m.ix + 1) (m.ix + 1) le_rfl ?_ hmono).1
  intro i
  by_cases h : i < m.r.size
  · rw [at'_ofFn _ i h]; exact mul_nonneg (hr0 i) (sq_nonneg _)
  · rw [at'_ofFn_ge _ i (by omega)]

/-- **the ionisation and recombination rates are non-negative** for every state with non-negative densities, whenever the cross sections used
are non-negative (C07–C09 for the package's vectors) and the current density is: `σ ≥ 0`, smoothed density `≥ 0`, flux `≥ 0`, overlap factor
in `[0, 1]`. This discharges the sign hypothesis of `C03.empty_gains` for these three processes. -/
theorem reaction_rates_nonneg (k : ℕ) (hj : 0 ≤ m.j) (hy : 0 ≤ at' y k)
    (hr0 : ∀ i, 0 ≤ at' m.r i) (hmono : ∀ i, i + 1 < m.r.size → at' m.r i ≤ at' m.r (i + 1)) (hix : m.ix + 1 ≤ m.r.size)
    (hei : 0 ≤ at' (stage m y).xs_ei k) (hrr : 0 ≤ at' (stage m y).xs_rr k) (hdr : 0 ≤ at' (stage m y).xs_dr k) :
    0 ≤ at' (stage m y).R_ei k ∧ 0 ≤ at' (stage m y).R_rr k ∧ 0 ≤ at' (stage m y).R_dr k := by
  by_cases hk : k < m.nq
  · have hn : 0 ≤ at' (stage m y).n k := by rw [C03.at'_n m y k hk]; exact C03.smooth_nonneg _ hy
    have hje : 0 ≤ (stage m y).je := by
      rw [je_formula]; have := Const.Q_E_pos
      positivity
    have hf := (fei_unit_interval m y k hk hr0 hmono hix).1
    refine ⟨?_, ?_, ?_⟩
    · rw [C03.stage_R_ei]; split_ifs
      · rw [at'_ofFn _ k hk]; positivity
      · rw [at'_replicate]
    · rw [C03.stage_R_rr]; split_ifs
      · rw [at'_ofFn _ k hk]; positivity
      · rw [at'_replicate]
    · rw [C03.stage_R_dr]; split_ifs
      · rw [at'_ofFn _ k hk]; positivity
      · rw [at'_replicate]
  · have hge : m.nq ≤ k := by omega
    refine ⟨?_, ?_, ?_⟩
    · rw [C03.stage_R_ei]; split_ifs
      · rw [at'_ofFn_ge _ k hge]
      · rw [at'_replicate]
    · rw [C03.stage_R_rr]; split_ifs
      · rw [at'_ofFn_ge _ k hge]
      · rw [at'_replicate]
    · rw [C03.stage_R_dr]; split_ifs
      · rw [at'_ofFn_ge _ k hge]
      · rw [at'_replicate]

end C05
