import EbisimProofs.RealInst
import EbisimModel.Model.Book
import EbisimModel.Model.Adv
import Mathlib.Tactic.Ring
import Mathlib.Tactic.Linarith
import Mathlib.Tactic.FieldSimp

/-! # C18 — result objects expose exactly the solver's solution, per target

`Adv.bounds` (the `lb/ub` arrays of `AdvancedModel.get`), `Res.assemble` (`_assemble_results`),
`Res.denseAbundance/denseTemperature` (the interpolators of `AdvancedResult`), `Res.outOfDomain`
(`_check_time_in_domain`), `Res.lerp` (`interp1d`) and `Adv.initial` (`_assemble_initial_conditions`). -/
namespace C18
open Adv Res Num

theorem getD_eq_getElem' {β : Type} (l : List β) (d : β) (i : ℕ) (h : i < l.length) : l.getD i d = l[i] := by
  rw [List.getD_eq_getElem?_getD, List.getElem?_eq_getElem h]; rfl

/-! ## the row blocks of the targets partition the joint vector -/

/-- sum of the block sizes `Z+1` -/
def total (zs : List ℕ) : ℕ := (zs.map (· + 1)).sum

theorem bounds_length (zs : List ℕ) (off : ℕ) : (bounds zs off).length = zs.length := by
  induction zs generalizing off with
  | nil => rfl
  | cons z zs ih => simp [bounds, ih]

/-- block `i` starts after the blocks before it and has `Z_i + 1` rows -/
theorem bounds_getElem (zs : List ℕ) (off i : ℕ) (h : i < zs.length) :
    (bounds zs off)[i]'(by rw [bounds_length]; exact h) = (off + total (zs.take i), off + total (zs.take i) + zs[i] + 1) := by
  induction zs generalizing off i with
  | nil => simp at h
  | cons z zs ih =>
    cases i with
    | zero => simp [bounds, total]
    | succ i =>
      simp only [bounds, List.getElem_cons_succ, List.take_succ_cons]
      rw [ih (off + z + 1) i (by simpa using h)]
      simp only [total, List.map_cons, List.sum_cons]
      ext <;> simp <;> omega

theorem total_take_succ (zs : List ℕ) (i : ℕ) (h : i < zs.length) : total (zs.take (i + 1)) = total (zs.take i) + zs[i] + 1 := by
  rw [List.take_succ_eq_append_getElem h]
  simp only [total, List.map_append, List.sum_append, List.map_cons, List.map_nil, List.sum_cons, List.sum_nil]; omega

/-- **consecutive blocks are adjacent, the first starts at row 0, the last ends at `nq`** -/
theorem bounds_contiguous (zs : List ℕ) (i : ℕ) (h : i + 1 < zs.length) :
    ((bounds zs 0)[i + 1]'(by rw [bounds_length]; exact h)).1 = ((bounds zs 0)[i]'(by rw [bounds_length]; omega)).2 := by
  rw [bounds_getElem zs 0 (i + 1) h, bounds_getElem zs 0 i (by omega)]
  simp only [Nat.zero_add]
  exact total_take_succ zs i (by omega)

theorem bounds_first_last (zs : List ℕ) (h : 0 < zs.length) :
    ((bounds zs 0)[0]'(by rw [bounds_length]; exact h)).1 = 0 ∧
    ((bounds zs 0)[zs.length - 1]'(by rw [bounds_length]; omega)).2 = total zs := by
  rw [bounds_getElem zs 0 0 h, bounds_getElem zs 0 (zs.length - 1) (by omega)]
  refine ⟨by simp [total], ?_⟩
  simp only [Nat.zero_add]
  rw [← total_take_succ zs (zs.length - 1) (by omega), List.take_of_length_le (by omega)]

/-! ## slicing -/

theorem rows_length {β : Type} (col : List β) (lo hi : ℕ) (h : hi ≤ col.length) : (rows col lo hi).length = hi - lo := by
  simp [rows]; omega

/-- row `k` of the block is row `lo + k` of the column -/
theorem rows_getElem? {β : Type} (col : List β) (lo hi k : ℕ) (hk : k < hi - lo) : (rows col lo hi)[k]? = col[lo + k]? := by
  simp [rows, List.getElem?_take, hk]

theorem rows_append {β : Type} (col : List β) (a b c : ℕ) (h1 : a ≤ b) (h2 : b ≤ c) : rows col a b ++ rows col b c = rows col a c := by
  unfold rows
  obtain ⟨m, rfl⟩ := Nat.exists_eq_add_of_le h1
  obtain ⟨n, rfl⟩ := Nat.exists_eq_add_of_le h2
  have e1 : a + m - a = m := by omega
  have e2 : a + m + n - (a + m) = n := by omega
  have e3 : a + m + n - a = m + n := by omega
  rw [e1, e2, e3, List.take_add, List.drop_drop]

/-- **the blocks of all targets, concatenated in target order, are exactly the rows `[off, off + Σ(Z+1))` of the column**: every row of
the joint solution belongs to exactly one target and no row is duplicated or lost -/
theorem blocks_partition {β : Type} (col : List β) (zs : List ℕ) (off : ℕ) :
    ((bounds zs off).map fun b => rows col b.1 b.2).flatten = rows col off (off + total zs) := by
  induction zs generalizing off with
  | nil => simp [bounds, rows, total]
  | cons z zs ih =>
    simp only [bounds, List.map_cons, List.flatten_cons, ih]
    rw [rows_append col off (off + z + 1) _ (by omega) (by omega)]
    congr 1
    simp only [total, List.map_cons, List.sum_cons]; omega

/-- **`_assemble_results`**: target `i` receives, for every stored column, the density rows
`[lb_i, ub_i)` and the temperature rows `[nq + lb_i, nq + ub_i)` -/
theorem assemble_spec {β : Type} (cols : List (List β)) (nq : ℕ) (bs : List (ℕ × ℕ)) (i : ℕ) (h : i < bs.length) :
    (assemble cols nq bs)[i]'(by simpa [assemble] using h) =
      (cols.map fun c => rows c bs[i].1 bs[i].2, cols.map fun c => rows c (nq + bs[i].1) (nq + bs[i].2)) := by
  simp [assemble]

/-- one result per target, each with one column per stored time -/
theorem assemble_shape {β : Type} (cols : List (List β)) (nq : ℕ) (bs : List (ℕ × ℕ)) :
    (assemble cols nq bs).length = bs.length ∧ ∀ r ∈ assemble cols nq bs, r.1.length = cols.length ∧ r.2.length = cols.length := by
  constructor
  · simp [assemble]
  · intro r hr
    simp only [assemble, List.mem_map] at hr
    obtain ⟨b, _, rfl⟩ := hr
    simp

/-- **the dense-output queries address the same rows as the stored arrays**: with `2·nq` rows in the
joint solution, `y.shape[0]//2 + lb = nq + lb` -/
theorem dense_rows_agree {β : Type} (sol : ℝ → List β) (nq lb ub : ℕ) (t : ℝ) :
    denseAbundance sol lb ub t = rows (sol t) lb ub ∧
    denseTemperature sol (2 * nq) lb ub t = rows (sol t) (nq + lb) (nq + ub) := by
  constructor
  · rfl
  · simp [denseTemperature]

/-! ## time domain -/

theorem foldl_min_le (xs : List ℝ) (x : ℝ) :
    (xs.foldl (fun m y => if y < m then y else m) x ≤ x) ∧ (∀ a ∈ xs, xs.foldl (fun m y => if y < m then y else m) x ≤ a) ∧
    (xs.foldl (fun m y => if y < m then y else m) x = x ∨ xs.foldl (fun m y => if y < m then y else m) x ∈ xs) := by
  induction xs generalizing x with
  | nil => simp
  | cons y ys ih =>
    simp only [List.foldl_cons, List.mem_cons, forall_eq_or_imp]
    obtain ⟨h1, h2, h3⟩ := ih (if y < x then y else x)
    by_cases hyx : y < x
    · simp only [hyx, if_true] at h1 h2 h3 ⊢
      refine ⟨by linarith, ⟨h1, h2⟩, ?_⟩
      rcases h3 with h | h
      · right; left; exact h
      · right; right; exact h
    · simp only [hyx, if_false] at h1 h2 h3 ⊢
      refine ⟨h1, ⟨by linarith [not_lt.mp hyx], h2⟩, ?_⟩
      rcases h3 with h | h
      · left; exact h
      · right; right; exact h

theorem foldl_max_ge (xs : List ℝ) (x : ℝ) :
    (x ≤ xs.foldl (fun m y => if m < y then y else m) x) ∧ (∀ a ∈ xs, a ≤ xs.foldl (fun m y => if m < y then y else m) x) ∧
    (xs.foldl (fun m y => if m < y then y else m) x = x ∨ xs.foldl (fun m y => if m < y then y else m) x ∈ xs) := by
  induction xs generalizing x with
  | nil => simp
  | cons y ys ih =>
    simp only [List.foldl_cons, List.mem_cons, forall_eq_or_imp]
    obtain ⟨h1, h2, h3⟩ := ih (if x < y then y else x)
    by_cases hyx : x < y
    · simp only [hyx, if_true] at h1 h2 h3 ⊢
      refine ⟨by linarith, ⟨h1, h2⟩, ?_⟩
      rcases h3 with h | h
      · right; left; exact h
      · right; right; exact h
    · simp only [hyx, if_false] at h1 h2 h3 ⊢
      refine ⟨h1, ⟨by linarith [not_lt.mp hyx], h2⟩, ?_⟩
      rcases h3 with h | h
      · left; exact h
      · right; right; exact h

/-- **`ValueError` exactly outside the simulated interval**: the query is rejected iff `t` lies below
every stored time or above every stored time -/
theorem domain_error (ts : List ℝ) (hne : ts ≠ []) (t : ℝ) :
    outOfDomain ts t = true ↔ (∀ a ∈ ts, t < a) ∨ (∀ a ∈ ts, a < t) := by
  cases ts with
  | nil => exact absurd rfl hne
  | cons x xs =>
    unfold outOfDomain
    rw [decide_eq_true_iff]
    simp only [minL, maxL, List.mem_cons, forall_eq_or_imp]
    obtain ⟨a1, a2, a3⟩ := foldl_min_le xs x
    obtain ⟨b1, b2, b3⟩ := foldl_max_ge xs x
    constructor
    · rintro (h | h)
      · left; exact ⟨by linarith, fun a ha => by linarith [a2 a ha]⟩
      · right; exact ⟨by linarith, fun a ha => by linarith [b2 a ha]⟩
    · rintro (⟨h1, h2⟩ | ⟨h1, h2⟩)
      · left
        rcases a3 with h | h
        · rw [h]; exact h1
        · exact h2 _ h
      · right
        rcases b3 with h | h
        · rw [h]; exact h1
        · exact h2 _ h

/-- in particular every stored time is accepted -/
theorem stored_time_in_domain (ts : List ℝ) (t : ℝ) (h : t ∈ ts) : outOfDomain ts t = false := by
  have hne : ts ≠ [] := by intro e; rw [e] at h; cases h
  by_contra hc
  have := (domain_error ts hne t).mp (by simpa using hc)
  rcases this with h1 | h1 <;> exact lt_irrefl _ (h1 t h)

/-! ## linear interpolation without dense output -/

theorem takeWhile_lt_sorted (ts : List ℝ) (hs : ts.Pairwise (· < ·)) (i : ℕ) (h : i < ts.length) :
    (ts.takeWhile fun x => decide (x < ts[i])).length = i := by
  induction ts generalizing i with
  | nil => simp at h
  | cons x xs ih =>
    rw [List.pairwise_cons] at hs
    cases i with
    | zero => simp [List.takeWhile]
    | succ i =>
      have hx : x < xs[i]'(by simpa using h) := hs.1 _ (List.getElem_mem _)
      simp only [List.getElem_cons_succ, List.takeWhile_cons, hx, decide_true, if_true, List.length_cons]
      rw [ih hs.2 i (by simpa using h)]

/-- **a query at a stored time returns the stored column** (linear interpolation, strictly
increasing times, at least two of them, all columns of the same length) -/
theorem lerp_at_node (ts : List ℝ) (cols : List (List ℝ)) (hs : ts.Pairwise (· < ·)) (hl : cols.length = ts.length)
    (h2 : 2 ≤ ts.length) (hc : ∀ c ∈ cols, ∀ d ∈ cols, c.length = d.length) (i : ℕ) (h : i < ts.length) :
    lerp ts cols ts[i] = cols[i]'(by omega) := by
  unfold lerp searchLeft
  rw [takeWhile_lt_sorted ts hs i h]
  by_cases hi0 : i = 0
  · -- first node: hi = 1, lo = 0, t = x0
    subst hi0
    have e : min (max 0 1) (ts.length - 1) = 1 := by omega
    simp only [e, Nat.sub_self]
    rw [getD_eq_getElem' _ _ _ (by omega : 0 < ts.length), getD_eq_getElem' _ _ _ (by omega : 0 < cols.length),
      getD_eq_getElem' _ _ _ (by omega : 1 < cols.length)]
    apply List.ext_getElem
    · simp only [List.length_zipWith]
      rw [hc cols[1] (List.getElem_mem _) cols[0] (List.getElem_mem _)]; simp
    · intro k h1 h2'
      simp
  · have e : min (max i 1) (ts.length - 1) = i := by omega
    simp only [e]
    have hlo : i - 1 < ts.length := by omega
    rw [getD_eq_getElem' _ _ _ hlo, getD_eq_getElem' _ _ _ h, getD_eq_getElem' _ _ _ (by omega : i - 1 < cols.length),
      getD_eq_getElem' _ _ _ (by omega : i < cols.length)]
    have hlt : ts[i - 1] < ts[i] := by
      have := List.pairwise_iff_getElem.mp hs (i - 1) i hlo h (by omega)
      exact this
    apply List.ext_getElem
    · simp only [List.length_zipWith]
      rw [hc (cols[i - 1]'(by omega)) (List.getElem_mem _) (cols[i]'(by omega)) (List.getElem_mem _)]; simp
    · intro k h1 h2'
      simp only [List.getElem_zipWith]
      have : ts[i] - ts[i - 1] ≠ 0 := by linarith
      field_simp
      ring


/-- number of leading entries `< t` of a strictly increasing list, for `ts[i] < t ≤ ts[i+1]` -/
theorem takeWhile_lt_between (ts : List ℝ) (hs : ts.Pairwise (· < ·)) (i : ℕ) (h : i + 1 < ts.length) (t : ℝ)
    (h0 : ts[i] < t) (h1 : t ≤ ts[i + 1]) :
    (ts.takeWhile fun x => decide (x < t)).length = i + 1 := by
  induction ts generalizing i with
  | nil => simp at h
  | cons x xs ih =>
    rw [List.pairwise_cons] at hs
    cases i with
    | zero =>
      simp only [List.getElem_cons_zero] at h0
      simp only [List.getElem_cons_succ] at h1
      simp only [List.length_cons] at h
      have hx : 0 < xs.length := by omega
      obtain ⟨y, ys, rfl⟩ := List.exists_cons_of_length_pos hx
      simp only [List.getElem_cons_zero] at h1
      simp [h0, not_lt.mpr h1]
    | succ i =>
      simp only [List.getElem_cons_succ] at h0 h1
      have hlen : i + 1 < xs.length := by simpa using h
      have hx : x < t := lt_trans (hs.1 _ (List.getElem_mem _)) h0
      simp only [List.takeWhile_cons, hx, decide_true, if_true, List.length_cons]
      rw [ih hs.2 i hlen h0 h1]

/-- **a query between two stored times is the linear interpolation of the two neighbouring stored columns**
(no dense output): for `ts[i] < t ≤ ts[i+1]`, entry `k` is
`(Y[k,i+1] − Y[k,i]) / (ts[i+1] − ts[i]) · (t − ts[i]) + Y[k,i]`, and it lies between the two stored values -/
theorem lerp_between (ts : List ℝ) (cols : List (List ℝ)) (hs : ts.Pairwise (· < ·)) (hl : cols.length = ts.length)
    (i : ℕ) (h : i + 1 < ts.length) (t : ℝ) (h0 : ts[i] < t) (h1 : t ≤ ts[i + 1])
    (k : ℕ) (hk0 : k < (cols[i]'(by omega)).length) (hk1 : k < (cols[i + 1]'(by omega)).length) :
    ∃ hk : k < (lerp ts cols t).length,
      (lerp ts cols t)[k] = ((cols[i + 1]'(by omega))[k] - (cols[i]'(by omega))[k]) / (ts[i + 1] - ts[i]) * (t - ts[i]) + (cols[i]'(by omega))[k] ∧
      min ((cols[i]'(by omega))[k]) ((cols[i + 1]'(by omega))[k]) ≤ (lerp ts cols t)[k] ∧
      (lerp ts cols t)[k] ≤ max ((cols[i]'(by omega))[k]) ((cols[i + 1]'(by omega))[k]) := by
  have e : min (max (i + 1) 1) (ts.length - 1) = i + 1 := by omega
  have hlerp : lerp ts cols t = List.zipWith (fun y0 y1 => (y1 - y0) / (ts[i + 1] - ts[i]) * (t - ts[i]) + y0)
      (cols[i]'(by omega)) (cols[i + 1]'(by omega)) := by
    unfold lerp searchLeft
    rw [takeWhile_lt_between ts hs i h t h0 h1]
    simp only [e, Nat.add_sub_cancel]
    rw [getD_eq_getElem' _ _ _ (by omega : i < ts.length), getD_eq_getElem' _ _ _ h,
      getD_eq_getElem' _ _ _ (by omega : i < cols.length), getD_eq_getElem' _ _ _ (by omega : i + 1 < cols.length)]
  have hk : k < (lerp ts cols t).length := by
    rw [hlerp, List.length_zipWith]; omega
  refine ⟨hk, ?_⟩
  have hval : (lerp ts cols t)[k] = ((cols[i + 1]'(by omega))[k] - (cols[i]'(by omega))[k]) / (ts[i + 1] - ts[i]) * (t - ts[i]) + (cols[i]'(by omega))[k] := by
    simp only [hlerp, List.getElem_zipWith]
  have hlt : ts[i] < ts[i + 1] := List.pairwise_iff_getElem.mp hs i (i + 1) (by omega) h (by omega)
  refine ⟨hval, ?_, ?_⟩
  all_goals
    rw [hval]
    set a := (cols[i]'(by omega))[k]
    set b := (cols[i + 1]'(by omega))[k]
    set w := (t - ts[i]) / (ts[i + 1] - ts[i]) with hw
    have hd : 0 < ts[i + 1] - ts[i] := by linarith
    have hw0 : 0 ≤ w := div_nonneg (by linarith) hd.le
    have hw1 : w ≤ 1 := by rw [hw, div_le_one hd]; linarith
    have heq : (b - a) / (ts[i + 1] - ts[i]) * (t - ts[i]) + a = (1 - w) * a + w * b := by
      rw [hw]; field_simp; ring
    rw [heq]
  · rcases le_total a b with hab | hab
    · rw [min_eq_left hab]; nlinarith
    · rw [min_eq_right hab]; nlinarith
  · rcases le_total a b with hab | hab
    · rw [max_eq_right hab]; nlinarith
    · rw [max_eq_left hab]; nlinarith

/-! ## initial conditions -/

/-- the temperature the integration starts from for a state with declared `(n, kT)` and charge `q` -/
noncomputable def startKT (fwhm : ℝ) (q : ℕ) (n kT : ℝ) : ℝ :=
  if n < (1.00001 : ℝ) * Gen.Const.MINIMAL_N_1D then max kT (max (fwhm * q) Gen.Const.MINIMAL_KBT) else kT

/-- **first column = declared initial conditions**, densities verbatim in target order followed by the
temperatures, where only states at the minimal density have their temperature raised -/
theorem initial_spec (fwhm : ℝ) (targets : List (List ℝ × List ℝ)) :
    initial fwhm targets = (targets.map (·.1)).flatten ++
      (targets.map fun t => (List.zipWith (fun n kT => (n, kT)) t.1 t.2).mapIdx fun q p => startKT fwhm q p.1 p.2).flatten := by
  unfold initial startKT
  simp only [max'_real]

/-- **temperatures of unpopulated charge states are raised to at least energy spread × charge**, those
of populated states are the declared ones -/
theorem startKT_floor (fwhm : ℝ) (q : ℕ) (n kT : ℝ) :
    (n < (1.00001 : ℝ) * Gen.Const.MINIMAL_N_1D → fwhm * q ≤ startKT fwhm q n kT ∧ kT ≤ startKT fwhm q n kT ∧
        (fwhm * q ≤ kT → Gen.Const.MINIMAL_KBT ≤ kT → startKT fwhm q n kT = kT)) ∧
    (¬ n < (1.00001 : ℝ) * Gen.Const.MINIMAL_N_1D → startKT fwhm q n kT = kT) := by
  unfold startKT
  constructor
  · intro h
    simp only [h, if_true]
    refine ⟨le_trans (le_max_left _ _) (le_max_right _ _), le_max_left _ _, ?_⟩
    intro h1 h2
    exact max_eq_left (max_le h1 h2)
  · intro h; simp only [h, if_false]

/-- the start vector has one density and one temperature per state -/
theorem initial_length (fwhm : ℝ) (targets : List (List ℝ × List ℝ)) (h : ∀ t ∈ targets, t.1.length = t.2.length) :
    (initial fwhm targets).length = 2 * ((targets.map (·.1.length)).sum) := by
  rw [initial_spec]
  simp only [List.length_append, List.length_flatten, List.map_map]
  have : (targets.map (List.length ∘ fun t => (List.zipWith (fun n kT => (n, kT)) t.1 t.2).mapIdx fun q p => startKT fwhm q p.1 p.2))
      = targets.map (List.length ∘ fun t => t.1) := by
    apply List.map_congr_left
    intro t ht
    simp [h t ht]
  rw [this]
  simp only [Function.comp_def]
  omega

-- non-vacuity: two targets (Z = 2, Z = 1) and a three-point time axis
example : bounds [2, 1] 0 = [(0, 3), (3, 5)] := by decide
example : ([0, 1, 3] : List ℝ).Pairwise (· < ·) := by simp [List.pairwise_cons]
/-- **the record `advanced_simulation` hands to the solver**: the start vector is the assembled initial condition (`initial_spec`),
the integration runs over `(0, t_max)`, the right-hand side is declared vectorised, the method is Radau unless the caller chooses one -/
theorem solver_call_spec (fwhm tMax : ℝ) (targets : List (List ℝ × List ℝ)) (method : Option String) :
    (Adv.call fwhm tMax targets method).y0 = Adv.initial fwhm targets ∧
    (Adv.call fwhm tMax targets method).t0 = 0 ∧ (Adv.call fwhm tMax targets method).t1 = tMax ∧
    (Adv.call fwhm tMax targets method).vectorized = true ∧
    (method = none → (Adv.call fwhm tMax targets method).method = "Radau") ∧
    (∀ m, method = some m → (Adv.call fwhm tMax targets method).method = m) := by
  refine ⟨rfl, by simp [Adv.call], rfl, rfl, ?_, ?_⟩
  · intro h; simp [Adv.call, h]
  · intro m h; simp [Adv.call, h]

/-- **rate arrays of a target**: one column per stored time; a device-wide rate (one row) keeps its single row for every target, every other
rate has exactly the `ub − lb = Z + 1` rows of the target — rows `[lb, ub)` of the joint array -/
theorem assembleRate_spec {β : Type} (cols : List (List β)) (lb ub nq : ℕ) (hlu : lb ≤ ub) (hub : ub ≤ nq) :
    (assembleRate cols lb ub).length = cols.length ∧
    (∀ c ∈ cols, c.length = 1 → ∀ k (h : k < (assembleRate cols lb ub).length) (hk : k < cols.length), cols[k] = c →
        (assembleRate cols lb ub)[k] = c) ∧
    (∀ k (h : k < (assembleRate cols lb ub).length) (hk : k < cols.length), cols[k].length = nq → nq ≠ 1 →
        (assembleRate cols lb ub)[k] = rows cols[k] lb ub ∧ ((assembleRate cols lb ub)[k]).length = ub - lb) := by
  refine ⟨by simp [assembleRate], ?_, ?_⟩
  · intro c _ hc1 k h hk e
    simp only [assembleRate, List.getElem_map, e, hc1, if_true]
  · intro k h hk hlen hne
    have hne' : ¬ cols[k].length = 1 := by rw [hlen]; exact hne
    simp only [assembleRate, List.getElem_map, hne', if_false, true_and]
    rw [rows_length]
    omega

/-- the rate columns stored by `_gather_rates` are the kernel's rates at the stored solution points, in order -/
theorem gatherRates_spec {κ β γ : Type} (rates : γ → List (κ × List β)) (points : List γ) :
    (gatherRates rates points).length = points.length ∧
    ∀ k (h : k < (gatherRates rates points).length) (hk : k < points.length), (gatherRates rates points)[k] = rates points[k] := by
  refine ⟨by simp [gatherRates], fun k h hk => by simp [gatherRates]⟩

end C18
