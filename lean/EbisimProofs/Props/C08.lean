import EbisimProofs.Lemmas.Consts
import EbisimModel.Model.Xs

/-! # C08 — radiative recombination follows the Kim–Pratt formula

Model: `Xs.rrN0/rrOcc/rrShell/rrPre` (hand model of `precompute_rr_quantities`), `Xs.rrFormula`,
`Xs.rrxsVec` (hand model of `rrxs_vec`), bit-identical to the implementation on all 105 elements. -/
namespace C08
open Xs Num Gen

/-! ## the Kim–Pratt expression -/

/-- documented formula: `(8πα/3√3) λ_e² χ ln(1 + χ/(2 n_eff²))`, `χ = 2 Z_eff² Ry / E` -/
noncomputable def Spec.kimPratt (zeff neff E : ℝ) : ℝ :=
  let chi := 2 * zeff ^ 2 * Const.RY_EV / E
  8 * Const.PI * Const.ALPHA / (3 * Real.sqrt 3) * Const.COMPT_E_RED ^ 2 * chi * Real.log (1 + chi / (2 * neff ^ 2))

theorem rrFormula_eq_spec (zeff neff E : ℝ) : rrFormula zeff neff E = Spec.kimPratt zeff neff E := by
  simp [rrFormula, Spec.kimPratt]

theorem kimPratt_pos (zeff neff E : ℝ) (hz : 0 < zeff) (hn : 0 < neff) (hE : 0 < E) :
    0 < Spec.kimPratt zeff neff E := by
  unfold Spec.kimPratt
  have hR := Const.RY_EV_pos; have hP := Const.PI_pos; have hA := Const.ALPHA_pos; have hC := Const.COMPT_E_RED_pos
  have hchi : 0 < 2 * zeff ^ 2 * Const.RY_EV / E := by positivity
  have : 0 < Real.log (1 + 2 * zeff ^ 2 * Const.RY_EV / E / (2 * neff ^ 2)) := Real.log_pos (by
    have : 0 < 2 * zeff ^ 2 * Const.RY_EV / E / (2 * neff ^ 2) := by positivity
    linarith)
  positivity

/-- **strictly decreasing in the energy** -/
theorem kimPratt_strictAnti (zeff neff : ℝ) (hz : 0 < zeff) (hn : 0 < neff) :
    StrictAntiOn (Spec.kimPratt zeff neff) (Set.Ioi 0) := by
  intro E1 hE1 E2 hE2 h12
  simp only [Set.mem_Ioi] at hE1 hE2
  unfold Spec.kimPratt
  simp only
  have hR := Const.RY_EV_pos; have hP := Const.PI_pos; have hA := Const.ALPHA_pos; have hC := Const.COMPT_E_RED_pos
  set K : ℝ := 8 * Const.PI * Const.ALPHA / (3 * Real.sqrt 3) * Const.COMPT_E_RED ^ 2 with hK
  have hKpos : 0 < K := by positivity
  have hc : 0 < 2 * zeff ^ 2 * Const.RY_EV := by positivity
  have chi_lt : 2 * zeff ^ 2 * Const.RY_EV / E2 < 2 * zeff ^ 2 * Const.RY_EV / E1 := div_lt_div_of_pos_left hc hE1 h12
  have chi2_pos : 0 < 2 * zeff ^ 2 * Const.RY_EV / E2 := by positivity
  have hnn : 0 < 2 * neff ^ 2 := by positivity
  have arg_lt : 1 + 2 * zeff ^ 2 * Const.RY_EV / E2 / (2 * neff ^ 2) < 1 + 2 * zeff ^ 2 * Const.RY_EV / E1 / (2 * neff ^ 2) := by
    have := div_lt_div_of_pos_right chi_lt hnn; linarith
  have arg2_gt : 1 < 1 + 2 * zeff ^ 2 * Const.RY_EV / E2 / (2 * neff ^ 2) := by
    have : 0 < 2 * zeff ^ 2 * Const.RY_EV / E2 / (2 * neff ^ 2) := by positivity
    linarith
  have log_lt := Real.log_lt_log (by linarith) arg_lt
  have log2_pos := Real.log_pos arg2_gt
  have h1 : K * (2 * zeff ^ 2 * Const.RY_EV / E2) < K * (2 * zeff ^ 2 * Const.RY_EV / E1) := mul_lt_mul_of_pos_left chi_lt hKpos
  have h2 : 0 < K * (2 * zeff ^ 2 * Const.RY_EV / E2) := by positivity
  nlinarith [mul_pos h2 log2_pos]

/-! ## valence shell and occupation -/

/-- `rrN0` is an upper bound of the principal quantum numbers of the occupied shells … -/
theorem rrN0_ge : ∀ (c ns : List ℕ) (i : ℕ) (h1 : i < c.length) (h2 : i < ns.length), 0 < c[i] → ns[i] ≤ rrN0 c ns := by
  intro c
  induction c with
  | nil => intro ns i h1; simp at h1
  | cons x xs ih =>
    intro ns i h1 h2 hpos
    cases ns with
    | nil => simp at h2
    | cons n nr =>
      simp only [rrN0]
      cases i with
      | zero =>
        simp only [List.getElem_cons_zero] at hpos ⊢
        rw [if_pos hpos]; exact le_max_left _ _
      | succ j =>
        have := ih nr j (by simpa using h1) (by simpa using h2) (by simpa using hpos)
        simp only [List.getElem_cons_succ]
        split_ifs
        · exact le_trans this (le_max_right _ _)
        · exact this

/-- … and it is attained by an occupied shell (when one exists): it is *the highest occupied
principal shell* -/
theorem rrN0_attained : ∀ (c ns : List ℕ), 0 < rrN0 c ns →
    ∃ (i : ℕ) (h1 : i < c.length) (h2 : i < ns.length), 0 < c[i] ∧ ns[i] = rrN0 c ns := by
  intro c
  induction c with
  | nil => intro ns h; simp [rrN0] at h
  | cons x xs ih =>
    intro ns h
    cases ns with
    | nil => simp [rrN0] at h
    | cons n nr =>
      simp only [rrN0] at h ⊢
      by_cases hx : 0 < x
      · rw [if_pos hx] at h ⊢
        by_cases hm : rrN0 xs nr ≤ n
        · exact ⟨0, by simp, by simp, by simpa using hx, by simp [max_eq_left hm]⟩
        · have hlt : n < rrN0 xs nr := Nat.lt_of_not_le hm
          obtain ⟨i, h1, h2, hc, he⟩ := ih nr (by omega)
          exact ⟨i + 1, by simpa using h1, by simpa using h2, by simpa using hc, by simp [he, max_eq_right hlt.le]⟩
      · rw [if_neg hx] at h ⊢
        obtain ⟨i, h1, h2, hc, he⟩ := ih nr h
        exact ⟨i + 1, by simpa using h1, by simpa using h2, by simpa using hc, by simpa using he⟩

/-! ## table facts: every charge state has `1 ≤ n0` and `occ ≤ 2 n0²` -/

def shellOkB : List (ℕ × ℕ) → Bool
  | [] => true
  | (n0, oc) :: r => (Nat.ble 1 n0 && Nat.ble oc (2 * n0 * n0)) && shellOkB r

def allOkB : ℕ → Bool
  | 0 => true
  | z + 1 => ((rrShell (z + 1)).length.beq (z + 2) && shellOkB (rrShell (z + 1))) && allOkB z

theorem tables_ok : allOkB 105 = true := by decide +kernel

theorem shellOkB_getElem : ∀ (l : List (ℕ × ℕ)), shellOkB l = true → ∀ (i : ℕ) (h : i < l.length),
    1 ≤ l[i].1 ∧ l[i].2 ≤ 2 * l[i].1 * l[i].1 := by
  intro l
  induction l with
  | nil => intro _ i h; simp at h
  | cons p r ih =>
    intro hb i h
    obtain ⟨n0, oc⟩ := p
    simp only [shellOkB, Bool.and_eq_true, Nat.ble_eq] at hb
    cases i with
    | zero => exact ⟨hb.1.1, hb.1.2⟩
    | succ j => simpa using ih hb.2 j (by simpa using h)

theorem allOkB_sound : ∀ n, allOkB n = true → ∀ z, 1 ≤ z → z ≤ n →
    (rrShell z).length = z + 1 ∧ shellOkB (rrShell z) = true := by
  intro n
  induction n with
  | zero => intro _ z h1 h2; omega
  | succ m ih =>
    intro hb z h1 h2
    simp only [allOkB, Bool.and_eq_true] at hb
    by_cases hz : z = m + 1
    · subst hz; exact ⟨Nat.eq_of_beq_eq_true hb.1.1, hb.1.2⟩
    · exact ih hb.2 z h1 (by omega)

/-! ## the precomputed quantities -/

/-- documented effective quantum number `n_eff = n0 + (1 − w) − 0.3`, vacancy fraction
`w = (2 n0² − occ)/(2 n0²)`, i.e. `n0 + occ/(2 n0²) − 0.3` -/
noncomputable def Spec.nEff (n0 occ : ℕ) : ℝ := (n0 : ℝ) + (occ : ℝ) / (2 * (n0 : ℝ) ^ 2) - 0.3
noncomputable def Spec.zEff (Z q : ℕ) : ℝ := ((Z : ℝ) + (q : ℝ)) / 2

theorem rrPreGo_length (Z : ℕ) : ∀ (l : List (ℕ × ℕ)) (q : ℕ), (rrPreGo (α := ℝ) Z l q).length = l.length := by
  intro l; induction l with
  | nil => intro q; rfl
  | cons p r ih => intro q; obtain ⟨a, b⟩ := p; simp [rrPreGo, ih]

theorem rrPreGo_getElem (Z : ℕ) : ∀ (l : List (ℕ × ℕ)) (q i : ℕ) (h : i < l.length), 1 ≤ l[i].1 →
    (rrPreGo (α := ℝ) Z l q)[i]'(by rw [rrPreGo_length]; exact h) = (Spec.zEff Z (q + i), Spec.nEff l[i].1 l[i].2) := by
  intro l
  induction l with
  | nil => intro q i h; simp at h
  | cons p r ih =>
    intro q i h hn
    obtain ⟨n0, oc⟩ := p
    cases i with
    | zero =>
      simp only [rrPreGo, List.getElem_cons_zero, lit_real, powN_real, Nat.cast_ofNat, Nat.cast_one, Spec.zEff, Spec.nEff,
        Nat.add_zero, Prod.mk.injEq] at hn ⊢
      have hn0 : (0 : ℝ) < (n0 : ℝ) := by exact_mod_cast hn
      constructor
      · trivial
      · field_simp; ring
    | succ j =>
      have := ih (q + 1) j (by simpa using h) (by simpa using hn)
      simpa [rrPreGo, Nat.add_assoc, Nat.add_comm 1 j] using this

/-- **precomputed quantities equal the documented ones for every element and charge state**,
and the effective quantum number is at least 0.7 -/
theorem rr_precompute_eq_spec (Z q : ℕ) (hZ1 : 1 ≤ Z) (hZ : Z ≤ 105) (hq : q ≤ Z) :
    ∃ (h1 : q < (rrPre (α := ℝ) Z).length) (h2 : q < (rrShell Z).length),
      (rrPre (α := ℝ) Z)[q] = (Spec.zEff Z q, Spec.nEff (rrShell Z)[q].1 (rrShell Z)[q].2) ∧
      (0.7 : ℝ) ≤ Spec.nEff (rrShell Z)[q].1 (rrShell Z)[q].2 := by
  obtain ⟨hlen, hok⟩ := allOkB_sound 105 tables_ok Z hZ1 hZ
  have h2 : q < (rrShell Z).length := by omega
  obtain ⟨hn, hocc⟩ := shellOkB_getElem _ hok q h2
  have h1 : q < (rrPre (α := ℝ) Z).length := by unfold rrPre; rw [rrPreGo_length]; exact h2
  refine ⟨h1, h2, ?_, ?_⟩
  · have := rrPreGo_getElem Z (rrShell Z) 0 q h2 hn
    simpa [rrPre] using this
  · unfold Spec.nEff
    have hn0 : (1 : ℝ) ≤ ((rrShell Z)[q].1 : ℝ) := by exact_mod_cast hn
    have : (0 : ℝ) ≤ ((rrShell Z)[q].2 : ℝ) / (2 * ((rrShell Z)[q].1 : ℝ) ^ 2) := by positivity
    linarith

/-- the bare nucleus: `n0 = 1`, no electrons -/
theorem rr_bare (Z : ℕ) : (rrShell Z).getLast? = some (1, 0) := by simp [rrShell]

/-! ## the cross-section vector -/

/-- the vector as a function of the precomputed list -/
noncomputable def rrxsOf (l : List (ℝ × ℝ)) (E : ℝ) : List ℝ :=
  match l with
  | [] => []
  | _ :: rest => lit 0 :: rest.map fun p => rrFormula p.1 p.2 E

theorem rrxsVec_eq (Z : ℕ) (E : ℝ) : rrxsVec Z E = rrxsOf (rrPre (α := ℝ) Z) E := by
  unfold rrxsVec rrxsOf; split <;> simp_all

theorem rrxsOf_getElem (l : List (ℝ × ℝ)) (E : ℝ) (q : ℕ) (hq : 1 ≤ q) (h : q < l.length) :
    ∃ h' : q < (rrxsOf l E).length, (rrxsOf l E)[q] = rrFormula l[q].1 l[q].2 E := by
  cases l with
  | nil => simp at h
  | cons p0 rest =>
    obtain ⟨j, rfl⟩ : ∃ j, q = j + 1 := ⟨q - 1, by omega⟩
    have hj : j < rest.length := by simpa using h
    refine ⟨by simpa [rrxsOf] using hj, ?_⟩
    simp [rrxsOf]

theorem rrxsVec_getElem (Z : ℕ) (E : ℝ) (q : ℕ) (hq : 1 ≤ q) (h : q < (rrPre (α := ℝ) Z).length) :
    ∃ h' : q < (rrxsVec Z E).length,
      (rrxsVec Z E)[q] = rrFormula (rrPre (α := ℝ) Z)[q].1 (rrPre (α := ℝ) Z)[q].2 E := by
  rw [rrxsVec_eq]; exact rrxsOf_getElem _ E q hq h

/-- **C08 main theorem.** For every element, every ion charge state `1 ≤ q ≤ Z` and every energy
`E > 0` the entry of the vector is the Kim–Pratt expression with `Z_eff = (Z+q)/2` and the
documented `n_eff`; it is strictly positive; the neutral entry is exactly 0. -/
theorem rr_main (Z q : ℕ) (hZ1 : 1 ≤ Z) (hZ : Z ≤ 105) (hq1 : 1 ≤ q) (hq : q ≤ Z) (E : ℝ) :
    ∃ (h : q < (rrxsVec Z E).length) (h2 : q < (rrShell Z).length),
      (rrxsVec Z E)[q] = Spec.kimPratt (Spec.zEff Z q) (Spec.nEff (rrShell Z)[q].1 (rrShell Z)[q].2) E ∧
      (0 < E → 0 < (rrxsVec Z E)[q]) := by
  obtain ⟨h1, h2, hpre, hneff⟩ := rr_precompute_eq_spec Z q hZ1 hZ hq
  obtain ⟨h', hget⟩ := rrxsVec_getElem Z E q hq1 h1
  refine ⟨h', h2, ?_, ?_⟩
  · rw [hget, hpre, rrFormula_eq_spec]
  · intro hE
    rw [hget, hpre, rrFormula_eq_spec]
    apply kimPratt_pos _ _ _ _ (by linarith) hE
    unfold Spec.zEff
    have : (0 : ℝ) < (Z : ℝ) := by exact_mod_cast hZ1
    have : (0 : ℝ) ≤ (q : ℝ) := by positivity
    linarith

/-- **exactly zero for neutrals**, and one entry per charge state `0…Z` -/
theorem rr_neutral_zero (Z : ℕ) (hZ1 : 1 ≤ Z) (hZ : Z ≤ 105) (E : ℝ) :
    (rrxsVec Z E).length = Z + 1 ∧ (rrxsVec Z E)[0]? = some 0 := by
  obtain ⟨hlen, _⟩ := allOkB_sound 105 tables_ok Z hZ1 hZ
  have hl : (rrPre (α := ℝ) Z).length = Z + 1 := by unfold rrPre; rw [rrPreGo_length]; exact hlen
  rw [rrxsVec_eq]
  cases hp : rrPre (α := ℝ) Z with
  | nil => rw [hp] at hl; simp at hl
  | cons p0 rest =>
    rw [hp] at hl
    constructor
    · simpa [rrxsOf] using hl
    · simp [rrxsOf]

/-- **strictly decreasing in E for every ion** -/
theorem rr_strictAnti (Z q : ℕ) (hZ1 : 1 ≤ Z) (hZ : Z ≤ 105) (hq1 : 1 ≤ q) (hq : q ≤ Z) :
    ∃ f : ℝ → ℝ, StrictAntiOn f (Set.Ioi 0) ∧ ∀ E : ℝ, (rrxsVec Z E)[q]? = some (f E) := by
  obtain ⟨_, h2, _, hneff⟩ := rr_precompute_eq_spec Z q hZ1 hZ hq
  refine ⟨Spec.kimPratt (Spec.zEff Z q) (Spec.nEff (rrShell Z)[q].1 (rrShell Z)[q].2), ?_, ?_⟩
  · apply kimPratt_strictAnti
    · unfold Spec.zEff
      have : (0 : ℝ) < (Z : ℝ) := by exact_mod_cast hZ1
      have : (0 : ℝ) ≤ (q : ℝ) := by positivity
      linarith
    · linarith
  · intro E
    obtain ⟨h, _, he, _⟩ := rr_main Z q hZ1 hZ hq1 hq E
    rw [List.getElem?_eq_getElem h, he]

-- non-vacuity: He-like iron (q = 24): n0 = 1, two electrons
example : (rrShell 26)[24]? = some (1, 2) := by decide +kernel
end C08
