import EbisimProofs.Lemmas.Newton
import EbisimProofs.Lemmas.Comparison
import EbisimProofs.Lemmas.Trapz
import EbisimProofs.Lemmas.Consts
import Mathlib.Analysis.SpecialFunctions.Gamma.Basic

/-! # C13 — Boltzmann–Poisson solutions are self-consistent and conserve line density

`Radial.step/loop/bpStatic/bpEbeam` is the hand model of the three
`boltzmann_radial_potential_*` Newton iterations (bit-identical to the compiled kernels in the
correspondence check, including iteration counts); `Radial.heatCapacity` of `heat_capacity`. -/
namespace C13
open Radial Num Gen Real

/-! ## one Newton update -/

theorem step_is_newton (I : BPIn ℝ) (phi : List ℝ) :
    ((step I phi).phi, (step I phi).y) = newton I.ldu phi (step I phi).b (step I phi).jd := by
  simp [step]

/-- **Newton identity / self-consistency**: after every update, `A φ' = b(φ) − j_d(φ) ⊙ y` with
`y = φ − φ'`: the returned potential satisfies the discretised Poisson equation whose charge
density is the Boltzmann density linearised at the previous iterate; the defect of the full
Boltzmann–Poisson system is therefore bounded by `‖j_d‖·‖y‖` plus second-order terms, and `y` is
what the stopping test measures (`self_consistent_partial`: smallness of the defect is the
convergence premise of the property). -/
theorem self_consistent_partial (I : BPIn ℝ) (phi : List ℝ)
    (h1 : I.ldu.length = phi.length) (h2 : I.ldu.length = (step I phi).b.length) (h3 : I.ldu.length = (step I phi).jd.length)
    (hp : PivotsOk 0 (newtonRows I.ldu (step I phi).jd (targetFun none I.ldu phi (step I phi).b))) :
    mulL 0 I.ldu (step I phi).phi =
      List.zipWith (· - ·) (step I phi).b (List.zipWith (· * ·) (step I phi).jd (step I phi).y) := by
  have e := step_is_newton I phi
  have := newton_identity I.ldu phi (step I phi).b (step I phi).jd h1 h2 h3 hp
  rw [← e] at this
  exact this

/-- **exit through the tolerance test**: whenever the loop returns a triple, it is the output of
one update `step I φ_prev`, the returned potential is that update's, and either the stopping
measure of its correction is below the tolerance or the pass budget is exhausted -/
theorem converged_exit (I : BPIn ℝ) (tol : ℝ) : ∀ (fuel : ℕ) (phi : List ℝ) (it : ℕ) (last : Option (StepOut ℝ)) (o : StepOut ℝ),
    (loop I tol fuel phi it last).2.1 = some o → 0 < fuel →
    ∃ phiPrev, o = step I phiPrev ∧ (loop I tol fuel phi it last).1 = o.phi ∧
      (stopMeasure I.variant phiPrev o.y < tol ∨ (loop I tol fuel phi it last).2.2 = it + fuel) := by
  intro fuel
  induction fuel with
  | zero => intro phi it last o _ h; exact absurd h (by simp)
  | succ k ih =>
    intro phi it last o ho _
    simp only [loop] at ho ⊢
    split_ifs at ho ⊢ with hc
    · simp only [Option.some.injEq] at ho
      exact ⟨phi, ho.symm, by rw [← ho], Or.inl (by rw [← ho]; exact hc)⟩
    · cases k with
      | zero =>
        simp only [loop, Option.some.injEq] at ho ⊢
        exact ⟨phi, ho.symm, by rw [← ho], Or.inr (by simp)⟩
      | succ k' =>
        obtain ⟨pp, e1, e2, e3⟩ := ih (step I phi).phi (it + 1) (some (step I phi)) o ho (by omega)
        refine ⟨pp, e1, e2, ?_⟩
        rcases e3 with e3 | e3
        · exact Or.inl e3
        · exact Or.inr (by rw [e3]; omega)

/-! ## zero potential at the wall -/

theorem getLast?_zipWith_sub : ∀ (a b : List ℝ) (x y : ℝ), a.length = b.length → a.getLast? = some x → b.getLast? = some y →
    (List.zipWith (· - ·) a b).getLast? = some (x - y)
  | [], _, _, _, _, h, _ => by simp at h
  | [a0], [b0], x, y, _, ha, hb => by simp at ha hb; simp [ha, hb]
  | [_], [], _, _, h, _, _ => by simp at h
  | [_], _ :: _ :: _, _, _, h, _, _ => by simp at h
  | _ :: _ :: _, [], _, _, h, _, _ => by simp at h
  | _ :: _ :: _, [_], _, _, h, _, _ => by simp at h
  | a0 :: a1 :: as, b0 :: b1 :: bs, x, y, h, ha, hb => by
    have ih := getLast?_zipWith_sub (a1 :: as) (b1 :: bs) x y (by simpa using h)
      (by simpa [List.getLast?_cons_cons] using ha) (by simpa [List.getLast?_cons_cons] using hb)
    simp only [List.zipWith_cons_cons] at ih ⊢
    rw [List.getLast?_cons_cons]; exact ih

theorem targetFun_getLast? : ∀ (c : List (ℝ × ℝ × ℝ)) (x b : List ℝ) (xp : Option ℝ) (u xl : ℝ),
    c.length = x.length → c.length = b.length → c.getLast? = some (0, 1, u) → x.getLast? = some xl → b.getLast? = some 0 →
    (targetFun xp c x b).getLast? = some xl
  | [], _, _, _, _, _, _, _, h, _, _ => by simp at h
  | [c0], [x0], [b0], xp, u, xl, _, _, hc, hx, hb => by
    simp at hc hx hb; subst hc; subst hx; subst hb
    cases xp <;> simp [targetFun]
  | [_], [], _, _, _, _, h, _, _, _, _ => by simp at h
  | [_], _ :: _ :: _, _, _, _, _, h, _, _, _, _ => by simp at h
  | [_], [_], [], _, _, _, _, h, _, _, _ => by simp at h
  | [_], [_], _ :: _ :: _, _, _, _, _, h, _, _, _ => by simp at h
  | _ :: _ :: _, [], _, _, _, _, h, _, _, _, _ => by simp at h
  | _ :: _ :: _, [_], _, _, _, _, h, _, _, _, _ => by simp at h
  | _ :: _ :: _, _ :: _ :: _, [], _, _, _, _, h, _, _, _ => by simp at h
  | _ :: _ :: _, _ :: _ :: _, [_], _, _, _, _, h, _, _, _ => by simp at h
  | (l0, d0, u0) :: c1 :: cs, x0 :: x1 :: xs, b0 :: b1 :: bs, xp, u, xl, h1, h2, hc, hx, hb => by
    have ih := targetFun_getLast? (c1 :: cs) (x1 :: xs) (b1 :: bs) (some x0) u xl (by simpa using h1) (by simpa using h2)
      (by simpa [List.getLast?_cons_cons] using hc) (by simpa [List.getLast?_cons_cons] using hx)
      (by simpa [List.getLast?_cons_cons] using hb)
    have hne : targetFun (some x0) (c1 :: cs) (x1 :: xs) (b1 :: bs) ≠ [] := by
      obtain ⟨l1, d1, u1⟩ := c1; simp [targetFun]
    rw [show targetFun xp ((l0, d0, u0) :: c1 :: cs) (x0 :: x1 :: xs) (b0 :: b1 :: bs) =
      _ :: targetFun (some x0) (c1 :: cs) (x1 :: xs) (b1 :: bs) from rfl]
    rw [List.getLast?_cons_of_ne_nil hne]; exact ih

theorem newtonRows_getLast? : ∀ (c : List (ℝ × ℝ × ℝ)) (jd f : List ℝ) (u fl : ℝ),
    c.length = jd.length → c.length = f.length → c.getLast? = some (0, 1, u) → jd.getLast? = some 0 → f.getLast? = some fl →
    (newtonRows c jd f).getLast? = some ⟨0, 1, u, fl⟩
  | [], _, _, _, _, _, _, h, _, _ => by simp at h
  | [c0], [j0], [f0], u, fl, _, _, hc, hj, hf => by
    simp at hc hj hf; subst hc; subst hj; subst hf; simp [newtonRows]
  | [_], [], _, _, _, h, _, _, _, _ => by simp at h
  | [_], _ :: _ :: _, _, _, _, h, _, _, _, _ => by simp at h
  | [_], [_], [], _, _, _, h, _, _, _ => by simp at h
  | [_], [_], _ :: _ :: _, _, _, _, h, _, _, _ => by simp at h
  | _ :: _ :: _, [], _, _, _, h, _, _, _, _ => by simp at h
  | _ :: _ :: _, [_], _, _, _, h, _, _, _, _ => by simp at h
  | _ :: _ :: _, _ :: _ :: _, [], _, _, _, h, _, _, _ => by simp at h
  | _ :: _ :: _, _ :: _ :: _, [_], _, _, _, h, _, _, _ => by simp at h
  | (l0, d0, u0) :: c1 :: cs, j0 :: j1 :: js, f0 :: f1 :: fs, u, fl, h1, h2, hc, hj, hf => by
    have ih := newtonRows_getLast? (c1 :: cs) (j1 :: js) (f1 :: fs) u fl (by simpa using h1) (by simpa using h2)
      (by simpa [List.getLast?_cons_cons] using hc) (by simpa [List.getLast?_cons_cons] using hj)
      (by simpa [List.getLast?_cons_cons] using hf)
    have hne : newtonRows (c1 :: cs) (j1 :: js) (f1 :: fs) ≠ [] := by
      obtain ⟨l1, d1, u1⟩ := c1; simp [newtonRows]
    rw [show newtonRows ((l0, d0, u0) :: c1 :: cs) (j0 :: j1 :: js) (f0 :: f1 :: fs) =
      (⟨l0, d0 - j0, u0, f0⟩ : Row ℝ) :: newtonRows (c1 :: cs) (j1 :: js) (f1 :: fs) from rfl]
    rw [List.getLast?_cons_of_ne_nil hne]; exact ih

/-- **the updated potential vanishes at the wall**: if the last finite-difference row is the
boundary row `(0, 1, ·)` and the right-hand side and Jacobian diagonal vanish at the last node
(which is what `_bx[:, -1] = 0` and a beam that ends inside the tube provide), then `φ'_last = 0`
exactly — whatever the previous iterate was. -/
theorem newton_wall_zero (ldu : List (ℝ × ℝ × ℝ)) (phi b jd : List ℝ) (u pl : ℝ)
    (h1 : ldu.length = phi.length) (h2 : ldu.length = b.length) (h3 : ldu.length = jd.length)
    (hc : ldu.getLast? = some (0, 1, u)) (hphi : phi.getLast? = some pl)
    (hb : b.getLast? = some 0) (hj : jd.getLast? = some 0) :
    (newton ldu phi b jd).1.getLast? = some 0 := by
  simp only [newton]
  have hf := targetFun_getLast? ldu phi b none u pl h1 h2 hc hphi hb
  have hfl : (targetFun none ldu phi b).length = ldu.length := by
    rw [targetFun_eq ldu phi b none h1 h2]; simp [mulL_length 0 ldu phi h1]; omega
  have hr := newtonRows_getLast? ldu jd (targetFun none ldu phi b) u pl h3 (by omega) hc hj hf
  set rows := newtonRows ldu jd (targetFun none ldu phi b)
  have hne : rows ≠ [] := by intro h0; rw [h0] at hr; simp at hr
  have hw : rows.getLast hne = ⟨0, 1, u, pl⟩ := by
    have := List.getLast?_eq_some_getLast hne; rw [this] at hr; exact Option.some.inj hr
  have hsplit : rows = rows.dropLast ++ [⟨0, 1, u, pl⟩] := by rw [← hw]; exact (List.dropLast_concat_getLast hne).symm
  have hy : (solve rows).getLast? = some pl := by
    rw [hsplit]; exact solve_wall' _ _ rfl rfl
  have hyl : (solve rows).length = phi.length := by
    rw [solve_length]
    obtain ⟨_, hl⟩ := newtonRows_b ldu jd (targetFun none ldu phi b) h3 (by omega)
    have hl' : rows.length = ldu.length := hl
    omega
  have := getLast?_zipWith_sub phi (solve rows) pl pl (by omega) hphi hy
  simpa using this

/-! ## line density, shape factors -/

theorem trapz_smul (c : ℝ) (r sh : List ℝ) (h : r.length = sh.length) :
    trapz (List.zipWith (· * ·) r (sh.map (c * ·))) r = c * trapz (List.zipWith (· * ·) r sh) r := by
  rw [trapz_eq_dot r _ (by simp [h]), trapz_eq_dot r _ (by simp [h])]
  have : List.zipWith (· * ·) r (sh.map (c * ·)) = (List.zipWith (· * ·) r sh).map (c * ·) := by
    clear h
    induction r generalizing sh with
    | nil => simp
    | cons a as ih =>
      cases sh with
      | nil => simp
      | cons b bs => simp only [List.map_cons, List.zipWith_cons_cons, ih bs]; congr 1; ring
  rw [this, dot_smul]

/-- **line density is conserved** (static `linear` variant): with `nax = nl / 2 / π / ∫ r·shape dr`,
`2π ∫ nax · shape(r) · r dr = nl` (trapezoid rule on the grid, `PI` the package's constant) -/
theorem line_density_linear (r sh : List ℝ) (nl : ℝ) (h : r.length = sh.length)
    (hi : trapz (List.zipWith (· * ·) r sh) r ≠ 0) :
    let nax := nl / 2 / Const.PI / trapz (List.zipWith (· * ·) r sh) r
    2 * Const.PI * trapz (List.zipWith (· * ·) r (sh.map (nax * ·))) r = nl := by
  intro nax
  rw [trapz_smul nax r sh h]
  have hP := Const.PI_pos
  simp only [nax]; field_simp

/-- e-beam variant: the code normalises with the shape value on the axis, so the integral is
`nl · shape₀`, i.e. `nl` exactly when the potential minimum (the reference of the shape factors)
is on the axis (`shape₀ = 1`) -/
theorem line_density_ebeam (r sh : List ℝ) (nl s0 : ℝ) (h : r.length = sh.length)
    (hi : trapz (List.zipWith (· * ·) r sh) r ≠ 0) :
    let nax := nl / 2 / Const.PI / trapz (List.zipWith (· * ·) r sh) r * s0
    2 * Const.PI * trapz (List.zipWith (· * ·) r (sh.map (nax * ·))) r = nl * s0 := by
  intro nax
  rw [trapz_smul nax r sh h]
  have hP := Const.PI_pos
  simp only [nax]; field_simp

theorem zipWith3_map {β γ δ ε : Type} (f : β → γ → δ → ε) (g : β → γ) (h : γ → δ) : ∀ l : List β,
    zipWith3 f l (l.map g) ((l.map g).map h) = l.map fun s => f s (g s) (h (g s))
  | [] => rfl
  | a :: as => by simp only [List.map_cons, zipWith3]; rw [zipWith3_map f g h as]

/-- the on-axis densities of one update in closed form (ties the two lemmas above to `step`) -/
theorem step_nax (I : BPIn ℝ) (phi : List ℝ) :
    (step I phi).nax = I.sp.map fun s =>
      let ref := match I.variant with | .ebeam => minL phi | _ => phi.headD 0
      let sh := phi.map fun p => Real.exp (-s.q * (p - ref) / s.kT)
      let isr := trapz (List.zipWith (· * ·) I.r sh) I.r
      match I.variant with
      | .onaxis => s.nl
      | .linear => s.nl / 2 / Const.PI / isr
      | .ebeam => s.nl / 2 / Const.PI / isr * sh.headD 0 := by
  simp only [step]
  rw [zipWith3_map]
  apply List.map_congr_left
  intro s _
  cases I.variant <;> simp

/-- **shape factors lie in (0, 1]**, equal 1 at the reference node, and are identically 1 for neutrals -/
theorem shape_bounds (q kT p ref : ℝ) (hkT : 0 < kT) :
    0 < Real.exp (-q * (p - ref) / kT) ∧
    (0 ≤ q → ref ≤ p → Real.exp (-q * (p - ref) / kT) ≤ 1) ∧
    (Real.exp (-q * (ref - ref) / kT) = 1) ∧ (q = 0 → Real.exp (-q * (p - ref) / kT) = 1) := by
  refine ⟨Real.exp_pos _, fun hq hp => ?_, by simp, fun h => by simp [h]⟩
  rw [Real.exp_le_one_iff]
  apply div_nonpos_of_nonpos_of_nonneg _ hkT.le
  nlinarith

/-- the shape factors `step` returns are exactly these exponentials -/
theorem step_shape (I : BPIn ℝ) (phi : List ℝ) :
    (step I phi).shape = I.sp.map fun s => phi.map fun p =>
      Real.exp (-s.q * (p - (match I.variant with | .ebeam => minL phi | _ => phi.headD 0)) / s.kT) := by
  simp only [step, Transc.exp_real, lit_real, Nat.cast_zero]
  rfl

/-! ## heat capacity -/

/-- **never below 3/2** on a non-decreasing grid with non-negative radii (weighted Cauchy–Schwarz
on the trapezoid sums) -/
theorem heat_capacity_ge (r phi : List ℝ) (q kT : ℝ) (hl : r.length = phi.length)
    (hr : r.Pairwise (· ≤ ·)) (hr0 : ∀ x ∈ r, 0 ≤ x)
    (hc : 0 < trapz (List.zipWith (fun e r => e * r) (phi.map fun p => Real.exp (-(q * (p - phi.headD 0)) / kT)) r) r) :
    3 / 2 ≤ heatCapacity r phi q kT := by
  unfold heatCapacity
  simp only [lit_real, powN_real, Transc.exp_real, Nat.cast_ofNat, Nat.cast_one, Nat.cast_zero]
  set pot := phi.map fun p => q * (p - phi.headD 0) with hpot
  set e := pot.map fun p => Real.exp (-p / kT) with he
  -- the three moment integrals as weighted nodal sums with weights w·(e r) ≥ 0
  set m := List.zipWith (fun e r => e * r) e r with hm
  have hlen_pot : pot.length = phi.length := by simp [hpot]
  have hlen_e : e.length = phi.length := by simp [he, hpot]
  have hlen_m : m.length = r.length := by simp [hm, hlen_e, hl]
  have hz3a : zipWith3 (fun p e r => p ^ 2 * e * r) pot e r = List.zipWith (fun m p => m * p ^ 2) m pot := by
    clear hc
    rw [hm]
    have : ∀ (P E R : List ℝ), zipWith3 (fun p e r => p ^ 2 * e * r) P E R =
        List.zipWith (fun m p => m * p ^ 2) (List.zipWith (fun e r => e * r) E R) P := by
      intro P
      induction P with
      | nil => intro E R; cases E <;> cases R <;> simp [zipWith3]
      | cons p ps ih =>
        intro E R
        cases E with
        | nil => simp [zipWith3]
        | cons e0 es =>
          cases R with
          | nil => simp [zipWith3]
          | cons r0 rs => simp only [zipWith3, List.zipWith_cons_cons, ih es rs]; congr 1; ring
    exact this pot e r
  have hz3b : zipWith3 (fun p e r => p * e * r) pot e r = List.zipWith (fun m p => m * p) m pot := by
    clear hc
    rw [hm]
    have : ∀ (P E R : List ℝ), zipWith3 (fun p e r => p * e * r) P E R =
        List.zipWith (fun m p => m * p) (List.zipWith (fun e r => e * r) E R) P := by
      intro P
      induction P with
      | nil => intro E R; cases E <;> cases R <;> simp [zipWith3]
      | cons p ps ih =>
        intro E R
        cases E with
        | nil => simp [zipWith3]
        | cons e0 es =>
          cases R with
          | nil => simp [zipWith3]
          | cons r0 rs => simp only [zipWith3, List.zipWith_cons_cons, ih es rs]; congr 1; ring
    exact this pot e r
  have hce : (phi.map fun p => Real.exp (-(q * (p - phi.headD 0)) / kT)) = e := by
    simp [he, hpot, List.map_map, Function.comp]
  rw [hce] at hc
  rw [hz3a, hz3b]
  have lenA : r.length = (List.zipWith (fun m p => m * p ^ 2) m pot).length := by simp [hlen_m, hlen_pot, hl]
  have lenB : r.length = (List.zipWith (fun m p => m * p) m pot).length := by simp [hlen_m, hlen_pot, hl]
  rw [trapz_eq_dot r _ lenA, trapz_eq_dot r _ lenB, trapz_eq_dot r m hlen_m.symm]
  rw [trapz_eq_dot r m hlen_m.symm] at hc
  have hw := nodalW_nonneg r hr
  have hmn : ∀ b ∈ m, 0 ≤ b := by
    intro b hb
    simp only [hm, List.mem_iff_getElem, List.length_zipWith, List.getElem_zipWith] at hb
    obtain ⟨i, hi, rfl⟩ := hb
    have h1 : 0 ≤ e[i] := by
      simp only [he, List.getElem_map]; exact (Real.exp_pos _).le
    exact mul_nonneg h1 (hr0 _ (List.getElem_mem _))
  have cs := dot_cauchy_schwarz (nodalW r) m pot (by rw [nodalW_length, hlen_m]) (by rw [hlen_m, hlen_pot, hl]) hw hmn
  set A := dot (nodalW r) (List.zipWith (fun m p => m * p ^ 2) m pot)
  set B := dot (nodalW r) (List.zipWith (fun m p => m * p) m pot)
  set C := dot (nodalW r) m
  have hvar : 0 ≤ A / C - B ^ 2 / C ^ 2 := by
    rw [sub_nonneg, div_le_div_iff₀ (by positivity) hc]
    nlinarith
  have hk : 0 ≤ 1 / kT ^ 2 := by positivity
  nlinarith [mul_nonneg hk hvar]

/-- **exactly 3/2 for neutrals or a flat potential** -/
theorem heat_capacity_flat (r phi : List ℝ) (q kT : ℝ) (h : q = 0 ∨ ∀ p ∈ phi, p = phi.headD 0) :
    heatCapacity r phi q kT = 3 / 2 := by
  have hpot : (phi.map fun p => q * (p - phi.headD 0)) = phi.map fun _ => (0 : ℝ) := by
    apply List.map_congr_left
    intro p hp
    rcases h with h | h
    · simp [h]
    · simp [h p hp]
  unfold heatCapacity
  simp only [lit_real, powN_real, Transc.exp_real, Nat.cast_ofNat, Nat.cast_one, Nat.cast_zero]
  rw [hpot]
  have za : ∀ (E R : List ℝ) (n : List ℝ), zipWith3 (fun p e r => p ^ 2 * e * r) (n.map fun _ => (0:ℝ)) E R =
      (zipWith3 (fun p e r => p ^ 2 * e * r) (n.map fun _ => (0:ℝ)) E R).map fun _ => (0:ℝ) := by
    intro E R n
    induction n generalizing E R with
    | nil => simp [zipWith3]
    | cons a as ih =>
      cases E with
      | nil => simp [zipWith3]
      | cons e0 es => cases R with
        | nil => simp [zipWith3]
        | cons r0 rs => simp only [List.map_cons, zipWith3]; rw [ih es rs]; simp
  have zb : ∀ (E R : List ℝ) (n : List ℝ), zipWith3 (fun p e r => p * e * r) (n.map fun _ => (0:ℝ)) E R =
      (zipWith3 (fun p e r => p * e * r) (n.map fun _ => (0:ℝ)) E R).map fun _ => (0:ℝ) := by
    intro E R n
    induction n generalizing E R with
    | nil => simp [zipWith3]
    | cons a as ih =>
      cases E with
      | nil => simp [zipWith3]
      | cons e0 es => cases R with
        | nil => simp [zipWith3]
        | cons r0 rs => simp only [List.map_cons, zipWith3]; rw [ih es rs]; simp
  have tz : ∀ (y x : List ℝ), trapz (y.map fun _ => (0:ℝ)) x = 0 := by
    intro y x
    simp only [trapz, lit_real, Nat.cast_zero]
    induction x generalizing y with
    | nil => simp [trapzGo]
    | cons x0 xs ih =>
      cases xs with
      | nil => cases y <;> simp [trapzGo]
      | cons x1 xs' =>
        cases y with
        | nil => simp [trapzGo]
        | cons y0 ys =>
          cases ys with
          | nil => simp [trapzGo]
          | cons y1 ys' =>
            simp only [List.map_cons, trapzGo]
            have := ih (y1 :: ys')
            simp only [List.map_cons] at this
            have e : (0 : ℝ) + (x1 - x0) * (0 + 0) / 2.0 = 0 := by norm_num
            rw [e]
            exact this
  rw [za, zb, tz, tz]
  simp

-- non-vacuity: a three-node grid, one singly charged species
example : ([0, 1, 2] : List ℝ).Pairwise (· ≤ ·) ∧ ∀ x ∈ ([0, 1, 2] : List ℝ), 0 ≤ x := by
  constructor
  · simp [List.pairwise_cons]
  · intro x hx; simp at hx; rcases hx with rfl | rfl | rfl <;> norm_num

/-! ## the wall node: every pass of every variant returns exactly 0 there -/

theorem zeroLast_length : ∀ l : List ℝ, (zeroLast l).length = l.length
  | [] => rfl
  | [_] => rfl
  | x :: y :: l => by simp [zeroLast, zeroLast_length (y :: l)]

theorem zeroLast_getLast? : ∀ l : List ℝ, l ≠ [] → (zeroLast l).getLast? = some 0
  | [], h => absurd rfl h
  | [_], _ => by simp [zeroLast]
  | x :: y :: l, _ => by
    have ih := zeroLast_getLast? (y :: l) (by simp)
    have hne : zeroLast (y :: l) ≠ [] := by
      intro h; have := zeroLast_length (y :: l); rw [h] at this; simp at this
    show (x :: zeroLast (y :: l)).getLast? = some 0
    rw [List.getLast?_cons_of_ne_nil hne]; exact ih

/-- last entry of an entry-wise combination of two equally long lists -/
theorem getLast?_zipWith {β γ δ : Type} (f : β → γ → δ) : ∀ (a : List β) (b : List γ) (x : β) (y : γ), a.length = b.length →
    a.getLast? = some x → b.getLast? = some y → (List.zipWith f a b).getLast? = some (f x y)
  | [], _, _, _, _, ha, _ => by simp at ha
  | _ :: _, [], _, _, h, _, _ => by simp at h
  | [a0], [b0], x, y, _, ha, hb => by
    simp at ha hb; subst ha hb; simp
  | [a0], b0 :: b1 :: bs, _, _, h, _, _ => by simp at h
  | a0 :: a1 :: as, [b0], _, _, h, _, _ => by simp at h
  | a0 :: a1 :: as, b0 :: b1 :: bs, x, y, h, ha, hb => by
    have ih := getLast?_zipWith f (a1 :: as) (b1 :: bs) x y (by simpa using h)
      (by simpa [List.getLast?_cons_cons] using ha) (by simpa [List.getLast?_cons_cons] using hb)
    have hne : List.zipWith f (a1 :: as) (b1 :: bs) ≠ [] := by simp
    show (f a0 b0 :: List.zipWith f (a1 :: as) (b1 :: bs)).getLast? = _
    rw [List.getLast?_cons_of_ne_nil hne]; exact ih

theorem colSum_spec (n : ℕ) (hn : 0 < n) : ∀ (rows : List (List ℝ)), (∀ row ∈ rows, row.length = n ∧ row.getLast? = some 0) →
    ∀ acc : List ℝ, acc.length = n → acc.getLast? = some 0 →
    (rows.foldl (fun acc row => List.zipWith (· + ·) acc row) acc).length = n ∧
    (rows.foldl (fun acc row => List.zipWith (· + ·) acc row) acc).getLast? = some 0 := by
  intro rows
  induction rows with
  | nil => intro _ acc h1 h2; exact ⟨h1, h2⟩
  | cons row rows ih =>
    intro hr acc h1 h2
    obtain ⟨hl, hz⟩ := hr row (by simp)
    simp only [List.foldl_cons]
    apply ih (fun r hr' => hr r (by simp [hr']))
    · simp [h1, hl]
    · have := getLast?_zipWith (fun a b : ℝ => a + b) acc row 0 0 (by omega) h2 hz
      simpa using this

theorem replicate_getLast? (n : ℕ) (hn : 0 < n) (x : ℝ) : (List.replicate n x).getLast? = some x := by
  cases n with
  | zero => omega
  | succ m => simp [List.getLast?_replicate]

theorem colSum_last (n : ℕ) (hn : 0 < n) (rows : List (List ℝ)) (h : ∀ row ∈ rows, row.length = n ∧ row.getLast? = some 0) :
    (colSum n rows).length = n ∧ (colSum n rows).getLast? = some 0 := by
  unfold colSum
  exact colSum_spec n hn rows h _ (by simp) (by simpa using replicate_getLast? n hn 0)

theorem getLast?_zipWith3 {β γ δ ε : Type} (f : β → γ → δ → ε) : ∀ (a : List β) (b : List γ) (c : List δ) (x : β) (y : γ) (z : δ),
    a.length = b.length → a.length = c.length → a.getLast? = some x → b.getLast? = some y → c.getLast? = some z →
    (zipWith3 f a b c).getLast? = some (f x y z) := by
  intro a
  induction a with
  | nil => intro b c x y z _ _ ha; simp at ha
  | cons a0 as ih =>
    intro b c x y z hb hc ha hbl hcl
    cases b with
    | nil => simp at hb
    | cons b0 bs =>
      cases c with
      | nil => simp at hc
      | cons c0 cs =>
        cases as with
        | nil =>
          have hbs : bs = [] := by simpa using hb.symm
          have hcs : cs = [] := by simpa using hc.symm
          subst hbs hcs
          simp at ha hbl hcl; subst ha hbl hcl
          simp [zipWith3]
        | cons a1 as' =>
          cases bs with
          | nil => simp at hb
          | cons b1 bs' =>
            cases cs with
            | nil => simp at hc
            | cons c1 cs' =>
              have := ih (b1 :: bs') (c1 :: cs') x y z (by simpa using hb) (by simpa using hc)
                (by simpa [List.getLast?_cons_cons] using ha) (by simpa [List.getLast?_cons_cons] using hbl)
                (by simpa [List.getLast?_cons_cons] using hcl)
              show (f a0 b0 c0 :: zipWith3 f (a1 :: as') (b1 :: bs') (c1 :: cs')).getLast? = _
              rw [List.getLast?_cons_of_ne_nil (by simp [zipWith3])]; exact this

theorem zipWith3_length {β γ δ ε : Type} (f : β → γ → δ → ε) : ∀ (a : List β) (b : List γ) (c : List δ),
    a.length = b.length → a.length = c.length → (zipWith3 f a b c).length = a.length := by
  intro a
  induction a with
  | nil => intro b c _ _; cases b <;> cases c <;> simp [zipWith3]
  | cons a0 as ih =>
    intro b c hb hc
    cases b with
    | nil => simp at hb
    | cons b0 bs =>
      cases c with
      | nil => simp at hc
      | cons c0 cs => simp [zipWith3, ih bs cs (by simpa using hb) (by simpa using hc)]

theorem mem_zipWith3 {β γ δ ε : Type} (f : β → γ → δ → ε) : ∀ (a : List β) (b : List γ) (c : List δ) (e : ε),
    e ∈ zipWith3 f a b c → ∃ x ∈ a, ∃ y ∈ b, ∃ z ∈ c, e = f x y z := by
  intro a
  induction a with
  | nil => intro b c e h; cases b <;> cases c <;> simp [zipWith3] at h
  | cons a0 as ih =>
    intro b c e h
    cases b with
    | nil => cases c <;> simp [zipWith3] at h
    | cons b0 bs =>
      cases c with
      | nil => simp [zipWith3] at h
      | cons c0 cs =>
        simp only [zipWith3, List.mem_cons] at h
        rcases h with rfl | h
        · exact ⟨a0, by simp, b0, by simp, c0, by simp, rfl⟩
        · obtain ⟨x, hx, y, hy, z, hz, rfl⟩ := ih bs cs e h
          exact ⟨x, by simp [hx], y, by simp [hy], z, by simp [hz], rfl⟩

theorem cTerm_length : ∀ (r sh : List ℝ), r.length = sh.length → (cTerm r sh).length = r.length
  | [], [], _ => rfl
  | [], _ :: _, h => by simp at h
  | _ :: _, [], h => by simp at h
  | [_], [_], _ => rfl
  | [_], _ :: _ :: _, h => by simp at h
  | _ :: _ :: _, [_], h => by simp at h
  | r0 :: r1 :: rs, s0 :: s1 :: ss, h => by
    have := cTerm_length (r1 :: rs) (s1 :: ss) (by simpa using h)
    simp [cTerm, this]

theorem getLast?_exists (l : List ℝ) (h : 0 < l.length) : ∃ v, l.getLast? = some v := by
  cases hh : l.getLast? with
  | none => rw [List.getLast?_eq_none_iff] at hh; rw [hh] at h; simp at h
  | some v => exact ⟨v, rfl⟩

/-- rows `_bx` of every species: one entry per node, zero at the wall -/
theorem bxa_rows (n : ℕ) (hn : 0 < n) (sp : List (Species ℝ)) (shape : List (List ℝ)) (nax : List ℝ) (g : Species ℝ → ℝ → ℝ → ℝ)
    (hs : ∀ sh ∈ shape, sh.length = n) :
    ∀ row ∈ zipWith3 (fun (s : Species ℝ) (sh : List ℝ) nx => zeroLast (sh.map fun v => g s nx v)) sp shape nax,
      row.length = n ∧ row.getLast? = some 0 := by
  intro row hrow
  obtain ⟨s, _, sh, hsh, nx, _, rfl⟩ := mem_zipWith3 _ _ _ _ row hrow
  have hl : (sh.map fun v => g s nx v).length = n := by simp [hs sh hsh]
  refine ⟨by rw [zeroLast_length]; exact hl, zeroLast_getLast? _ ?_⟩
  intro h0; rw [h0] at hl; simp at hl; omega

theorem jrows_onaxis (n : ℕ) (sp : List (Species ℝ)) (bxa : List (List ℝ)) (zp : List (List ℝ × ℝ))
    (hb : ∀ row ∈ bxa, row.length = n ∧ row.getLast? = some 0) :
    ∀ row ∈ zipWith3 (fun (s : Species ℝ) (bx : List ℝ) (_ : List ℝ × ℝ) => bx.map fun v => v * s.q / s.kT) sp bxa zp,
      row.length = n ∧ row.getLast? = some 0 := by
  intro row hrow
  obtain ⟨s, _, bx, hbx, p, _, rfl⟩ := mem_zipWith3 _ _ _ _ row hrow
  obtain ⟨hbl, hbz⟩ := hb bx hbx
  refine ⟨by simp [hbl], ?_⟩
  rw [List.getLast?_map, hbz]; simp

theorem jrows_lin (n : ℕ) (hn : 0 < n) (r : List ℝ) (sp : List (Species ℝ)) (bxa : List (List ℝ)) (zp : List (List ℝ × ℝ))
    (hr : r.length = n) (hb : ∀ row ∈ bxa, row.length = n ∧ row.getLast? = some 0) (hz : ∀ p ∈ zp, p.1.length = n) :
    ∀ row ∈ zipWith3 (fun (s : Species ℝ) (bx : List ℝ) (p : List ℝ × ℝ) =>
        List.zipWith (fun v c => v * s.q / s.kT * (p.2 - c) / p.2) bx (cTerm r p.1)) sp bxa zp,
      row.length = n ∧ row.getLast? = some 0 := by
  intro row hrow
  obtain ⟨s, _, bx, hbx, p, hp, rfl⟩ := mem_zipWith3 _ _ _ _ row hrow
  obtain ⟨hbl, hbz⟩ := hb bx hbx
  have hcl : (cTerm r p.1).length = n := by rw [cTerm_length r p.1 (by rw [hz p hp]; exact hr)]; exact hr
  obtain ⟨c, hc⟩ := getLast?_exists (cTerm r p.1) (by omega)
  refine ⟨by simp [hbl, hcl], ?_⟩
  rw [getLast?_zipWith _ bx _ 0 c (by omega) hbz hc]; simp

theorem shape_len (sp : List (Species ℝ)) (phi : List ℝ) (f : Species ℝ → ℝ → ℝ) :
    ∀ sh ∈ sp.map (fun s => phi.map fun p => f s p), sh.length = phi.length := by
  intro sh hsh; simp only [List.mem_map] at hsh; obtain ⟨s, _, rfl⟩ := hsh; simp

theorem zip_fst_len (shape : List (List ℝ)) (isr : List ℝ) (n : ℕ) (hs : ∀ sh ∈ shape, sh.length = n) :
    ∀ p ∈ List.zip shape isr, p.1.length = n := fun p hp => hs p.1 (List.of_mem_zip hp).1

/-- the right-hand side `b(φ)` and the Jacobian diagonal `j_d(φ)` that `step` builds have one entry per
node and vanish at the wall node — because `_bx[:, -1] = 0` is applied to every species and the
static charge (resp. the beam) carries nothing there -/
theorem step_wall_rhs (I : BPIn ℝ) (phi : List ℝ) (hn : 0 < phi.length) (hr : I.r.length = phi.length)
    (hstat : I.variant ≠ .ebeam → I.b0.length = phi.length ∧ I.b0.getLast? = some 0)
    (hbeam : I.variant = .ebeam → I.cden.length = phi.length ∧ I.cden.getLast? = some 0) :
    (step I phi).b.length = phi.length ∧ (step I phi).b.getLast? = some 0 ∧
    (step I phi).jd.length = phi.length ∧ (step I phi).jd.getLast? = some 0 := by
  obtain ⟨variant, r, ldu, b0, cden, e_kin, sp⟩ := I
  obtain ⟨pl, hpl⟩ := getLast?_exists phi hn
  simp only at hr hstat hbeam
  cases variant with
  | onaxis =>
    obtain ⟨hb0l, hb0z⟩ := hstat (by decide)
    simp only [step]
    set shape : List (List ℝ) := sp.map fun s => phi.map fun p => Transc.exp (-s.q * (p - phi.headD (lit 0)) / s.kT) with hshape
    have hsl := shape_len sp phi (fun s p => Transc.exp (-s.q * (p - phi.headD (lit 0)) / s.kT))
    set i_sr : List ℝ := shape.map fun sh => trapz (List.zipWith (· * ·) r sh) r
    set nax : List ℝ := zipWith3 (fun (s : Species ℝ) (_ : List ℝ) (_ : ℝ) => s.nl) sp shape i_sr
    have hB := bxa_rows phi.length hn sp shape nax (fun s nx v => -nx * s.q * v * Const.Q_E / Const.EPS_0) hsl
    set bxa := zipWith3 (fun (s : Species ℝ) (sh : List ℝ) nx => zeroLast (sh.map fun v => -nx * s.q * v * Const.Q_E / Const.EPS_0)) sp shape nax
    obtain ⟨hsum_len, hsum_last⟩ := colSum_last phi.length hn bxa hB
    have hJ := jrows_onaxis phi.length sp bxa (List.zip shape i_sr) hB
    obtain ⟨hj_len, hj_last⟩ := colSum_last phi.length hn _ hJ
    refine ⟨by simp [hb0l, hsum_len], ?_, by simp [hj_len], ?_⟩
    · rw [getLast?_zipWith _ _ _ 0 0 (by omega) hb0z hsum_last]; simp
    · rw [List.getLast?_map, hj_last]; simp
  | linear =>
    obtain ⟨hb0l, hb0z⟩ := hstat (by decide)
    simp only [step]
    set shape : List (List ℝ) := sp.map fun s => phi.map fun p => Transc.exp (-s.q * (p - phi.headD (lit 0)) / s.kT) with hshape
    have hsl := shape_len sp phi (fun s p => Transc.exp (-s.q * (p - phi.headD (lit 0)) / s.kT))
    set i_sr : List ℝ := shape.map fun sh => trapz (List.zipWith (· * ·) r sh) r
    set nax : List ℝ := zipWith3 (fun (s : Species ℝ) (_ : List ℝ) (isr : ℝ) => s.nl / lit 2 / Const.PI / isr) sp shape i_sr
    have hB := bxa_rows phi.length hn sp shape nax (fun s nx v => -nx * s.q * v * Const.Q_E / Const.EPS_0) hsl
    set bxa := zipWith3 (fun (s : Species ℝ) (sh : List ℝ) nx => zeroLast (sh.map fun v => -nx * s.q * v * Const.Q_E / Const.EPS_0)) sp shape nax
    obtain ⟨hsum_len, hsum_last⟩ := colSum_last phi.length hn bxa hB
    have hJ := jrows_lin phi.length hn r sp bxa (List.zip shape i_sr) hr hB (zip_fst_len shape i_sr _ hsl)
    obtain ⟨hj_len, hj_last⟩ := colSum_last phi.length hn _ hJ
    refine ⟨by simp [hb0l, hsum_len], ?_, by simp [hj_len], ?_⟩
    · rw [getLast?_zipWith _ _ _ 0 0 (by omega) hb0z hsum_last]; simp
    · rw [List.getLast?_map, hj_last]; simp
  | ebeam =>
    obtain ⟨hcl, hcz⟩ := hbeam rfl
    simp only [step]
    set shape : List (List ℝ) := sp.map fun s => phi.map fun p => Transc.exp (-s.q * (p - minL phi) / s.kT) with hshape
    have hsl := shape_len sp phi (fun s p => Transc.exp (-s.q * (p - minL phi) / s.kT))
    set i_sr : List ℝ := shape.map fun sh => trapz (List.zipWith (· * ·) r sh) r
    set nax : List ℝ := zipWith3 (fun (s : Species ℝ) (sh : List ℝ) (isr : ℝ) => s.nl / lit 2 / Const.PI / isr * sh.headD (lit 0)) sp shape i_sr
    have hB := bxa_rows phi.length hn sp shape nax (fun s nx v => -nx * s.q * v * Const.Q_E / Const.EPS_0) hsl
    set bxa := zipWith3 (fun (s : Species ℝ) (sh : List ℝ) nx => zeroLast (sh.map fun v => -nx * s.q * v * Const.Q_E / Const.EPS_0)) sp shape nax
    obtain ⟨hsum_len, hsum_last⟩ := colSum_last phi.length hn bxa hB
    have hJ := jrows_lin phi.length hn r sp bxa (List.zip shape i_sr) hr hB (zip_fst_len shape i_sr _ hsl)
    obtain ⟨hj_len, hj_last⟩ := colSum_last phi.length hn _ hJ
    set bxb : List ℝ := List.zipWith (fun c p => -c / Transc.sqrt (lit 2 * Const.Q_E * (e_kin + p) / Const.M_E) / Const.EPS_0) cden phi with hbxb
    have hbxb_len : bxb.length = phi.length := by simp [hbxb, hcl]
    have hbxb_last : bxb.getLast? = some 0 := by
      rw [hbxb, getLast?_zipWith _ _ _ 0 pl (by omega) hcz hpl]; simp
    refine ⟨by simp [hbxb_len, hsum_len], ?_, by rw [zipWith3_length _ _ _ _ (by omega) (by omega)]; exact hj_len, ?_⟩
    · rw [getLast?_zipWith _ _ _ 0 0 (by omega) hsum_last hbxb_last]; simp
    · rw [getLast?_zipWith3 _ _ _ _ 0 0 pl (by omega) (by omega) hj_last hbxb_last hpl]; simp

/-- **the potential returned by every pass of every variant is exactly 0 at the wall**, whatever the
previous iterate: boundary row `(0, 1, ·)`, `_bx[:, -1] = 0`, no static / beam charge on the wall node -/
theorem step_wall_zero (I : BPIn ℝ) (phi : List ℝ) (u : ℝ) (hn : 0 < phi.length) (hr : I.r.length = phi.length)
    (hl : I.ldu.length = phi.length) (hc : I.ldu.getLast? = some (0, 1, u))
    (hstat : I.variant ≠ .ebeam → I.b0.length = phi.length ∧ I.b0.getLast? = some 0)
    (hbeam : I.variant = .ebeam → I.cden.length = phi.length ∧ I.cden.getLast? = some 0) :
    (step I phi).phi.getLast? = some 0 := by
  obtain ⟨hb1, hb2, hj1, hj2⟩ := step_wall_rhs I phi hn hr hstat hbeam
  obtain ⟨pl, hpl⟩ := getLast?_exists phi hn
  have e := step_is_newton I phi
  have := newton_wall_zero I.ldu phi (step I phi).b (step I phi).jd u pl hl (by omega) (by omega) hc hpl hb2 hj2
  rw [← e] at this
  exact this

/-- the premises of `step_wall_zero` are what the three kernels provide: the static right-hand side is
`-ρ₀/ε₀` with its wall entry zeroed, and the beam density vanishes outside the beam radius -/
theorem static_rhs_premise : ∀ (rho0 : List ℝ), rho0 ≠ [] →
    (poissonRhs rho0).length = rho0.length ∧ (poissonRhs rho0).getLast? = some 0
  | [], h => absurd rfl h
  | [_], _ => by simp [poissonRhs]
  | x :: y :: l, _ => by
    obtain ⟨h1, h2⟩ := static_rhs_premise (y :: l) (by simp)
    have hne : poissonRhs (y :: l) ≠ [] := by intro h; rw [h] at h1; simp at h1
    refine ⟨by simp [poissonRhs, h1], ?_⟩
    show ((-x / Const.EPS_0) :: poissonRhs (y :: l)).getLast? = some 0
    rw [List.getLast?_cons_of_ne_nil hne]; exact h2

theorem beam_density_premise (r : List ℝ) (current r_e rl : ℝ) (hl : r.getLast? = some rl) (hout : r_e < rl) :
    (beamDensity r current r_e).length = r.length ∧ (beamDensity r current r_e).getLast? = some 0 := by
  unfold beamDensity
  refine ⟨by simp, ?_⟩
  rw [List.getLast?_map, hl]
  simp [not_le.mpr hout]

theorem newton_phi_length (ldu : List (ℝ × ℝ × ℝ)) (phi b jd : List ℝ)
    (h1 : ldu.length = phi.length) (h2 : ldu.length = b.length) (h3 : ldu.length = jd.length) :
    (newton ldu phi b jd).1.length = phi.length := by
  simp only [newton]
  have hfl : (targetFun none ldu phi b).length = ldu.length := by
    rw [targetFun_eq ldu phi b none h1 h2]; simp [mulL_length 0 ldu phi h1]; omega
  obtain ⟨_, hl⟩ := newtonRows_b ldu jd (targetFun none ldu phi b) h3 (by omega)
  have hl' : (newtonRows ldu jd (targetFun none ldu phi b)).length = ldu.length := hl
  simp [solve_length, hl']; omega

theorem step_phi_length (I : BPIn ℝ) (phi : List ℝ) (hn : 0 < phi.length) (hr : I.r.length = phi.length) (hl : I.ldu.length = phi.length)
    (hstat : I.variant ≠ .ebeam → I.b0.length = phi.length ∧ I.b0.getLast? = some 0)
    (hbeam : I.variant = .ebeam → I.cden.length = phi.length ∧ I.cden.getLast? = some 0) :
    (step I phi).phi.length = phi.length := by
  obtain ⟨hb1, _, hj1, _⟩ := step_wall_rhs I phi hn hr hstat hbeam
  have e := step_is_newton I phi
  have := newton_phi_length I.ldu phi (step I phi).b (step I phi).jd hl (by omega) (by omega)
  rw [← e] at this
  exact this

/-- **the potential the iteration returns is exactly 0 at the wall** — for every variant, every
species mix, every starting potential of the right length and every pass budget ≥ 1, converged or not -/
theorem loop_wall_zero (I : BPIn ℝ) (tol u : ℝ) (n : ℕ) (hn : 0 < n) (hr : I.r.length = n) (hl : I.ldu.length = n)
    (hc : I.ldu.getLast? = some (0, 1, u))
    (hstat : I.variant ≠ .ebeam → I.b0.length = n ∧ I.b0.getLast? = some 0)
    (hbeam : I.variant = .ebeam → I.cden.length = n ∧ I.cden.getLast? = some 0) :
    ∀ (fuel : ℕ) (phi : List ℝ) (it : ℕ) (last : Option (StepOut ℝ)), phi.length = n →
      (loop I tol (fuel + 1) phi it last).1.getLast? = some 0 := by
  intro fuel
  induction fuel with
  | zero =>
    intro phi it last hp
    have hz := step_wall_zero I phi u (by omega) (by omega) (by omega) hc (by rw [hp]; exact hstat) (by rw [hp]; exact hbeam)
    simp only [loop]
    split_ifs <;> exact hz
  | succ f ih =>
    intro phi it last hp
    have hz := step_wall_zero I phi u (by omega) (by omega) (by omega) hc (by rw [hp]; exact hstat) (by rw [hp]; exact hbeam)
    have hlen := step_phi_length I phi (by omega) (by omega) (by omega) (by rw [hp]; exact hstat) (by rw [hp]; exact hbeam)
    rw [loop]
    split_ifs
    · exact hz
    · exact ih (step I phi).phi (it + 1) (some (step I phi)) (by omega)

-- non-vacuity: a wall row (0, 1, ·) and a three-node grid whose last node lies outside the beam
example : ([0, 1e-4, 2e-4] : List ℝ).getLast? = some 2e-4 ∧ (1e-4 : ℝ) < 2e-4 := by constructor <;> norm_num
/-! ## comparison principle: adding positive ions never lowers the potential -/

theorem zip_add_le : ∀ (a c : List ℝ), (∀ v ∈ c, v ≤ 0) →
    ∀ p ∈ List.zip a (List.zipWith (· + ·) a c), p.2 ≤ p.1
  | [], _, _ => by simp
  | _ :: _, [], _ => by simp
  | a0 :: as, c0 :: cs, h => by
    have ih := zip_add_le as cs (fun v hv => h v (by simp [hv]))
    intro p hp
    simp only [List.zipWith_cons_cons, List.zip_cons_cons, List.mem_cons] at hp
    rcases hp with rfl | hp
    · have := h c0 (by simp); simp only; linarith
    · exact ih p hp

theorem colSum_nonpos (n : ℕ) (rows : List (List ℝ)) (h : ∀ row ∈ rows, ∀ v ∈ row, v ≤ 0) :
    ∀ v ∈ colSum n rows, v ≤ 0 := by
  unfold colSum
  have key : ∀ (rows : List (List ℝ)) (acc : List ℝ), (∀ row ∈ rows, ∀ v ∈ row, v ≤ 0) → (∀ v ∈ acc, v ≤ 0) →
      ∀ v ∈ rows.foldl (fun acc row => List.zipWith (· + ·) acc row) acc, v ≤ 0 := by
    intro rows
    induction rows with
    | nil => intro acc _ ha; simpa using ha
    | cons row rows ih =>
      intro acc hr ha
      simp only [List.foldl_cons]
      apply ih _ (fun r hr' => hr r (by simp [hr']))
      intro v hv
      rw [← List.map_uncurry_zip_eq_zipWith] at hv
      obtain ⟨p, hp, rfl⟩ := List.mem_map.mp hv
      have h1 := ha p.1 (List.of_mem_zip hp).1
      have h2 := hr row (by simp) p.2 (List.of_mem_zip hp).2
      simp only [Function.uncurry]; linarith
  exact key rows _ h (by intro v hv; simp at hv; linarith [hv.2])

theorem zeroLast_nonpos : ∀ (l : List ℝ), (∀ v ∈ l, v ≤ 0) → ∀ v ∈ zeroLast l, v ≤ 0
  | [], _ => by simp [zeroLast]
  | [_], _ => by simp [zeroLast]
  | x :: y :: rest, h => by
    have ih := zeroLast_nonpos (y :: rest) (fun v hv => h v (by simp [hv]))
    intro v hv
    simp only [zeroLast, List.mem_cons] at hv
    rcases hv with rfl | hv
    · exact h _ (by simp)
    · exact ih v (by simpa [zeroLast] using hv)

/-- the ion term of the right-hand side is nowhere positive when the on-axis densities and charge
states are non-negative -/
theorem ion_rhs_nonpos (n : ℕ) (sp : List (Species ℝ)) (shape : List (List ℝ)) (nax : List ℝ)
    (hq : ∀ s ∈ sp, 0 ≤ s.q) (hnax : ∀ v ∈ nax, 0 ≤ v) (hsh : ∀ sh ∈ shape, ∀ v ∈ sh, 0 ≤ v) :
    ∀ v ∈ colSum n (zipWith3 (fun (s : Species ℝ) (sh : List ℝ) nx =>
      zeroLast (sh.map fun v => -nx * s.q * v * Const.Q_E / Const.EPS_0)) sp shape nax), v ≤ 0 := by
  apply colSum_nonpos
  intro row hrow
  obtain ⟨s, hs, sh, hsh', nx, hnx, rfl⟩ := mem_zipWith3 _ _ _ _ row hrow
  apply zeroLast_nonpos
  intro v hv
  obtain ⟨w, hw, rfl⟩ := List.mem_map.mp hv
  have h1 := hq s hs
  have h2 := hnax nx hnx
  have h3 := hsh sh hsh' w hw
  have : 0 ≤ nx * s.q * w * Const.Q_E / Const.EPS_0 := by
    have := Const.Q_E_pos; have := Const.EPS_0_pos; positivity
  have e : -nx * s.q * w * Const.Q_E / Const.EPS_0 = -(nx * s.q * w * Const.Q_E / Const.EPS_0) := by ring
  rw [e]; linarith

/-- **adding positive ions never lowers the potential anywhere** (on-axis-density variant, exact
solutions of the discretised equations): if `φ` is a fixed point of the iteration — `A φ = b(φ)`,
the discretised Poisson equation with Boltzmann-distributed ions, which is what a vanishing target
function means — for ion species with non-negative on-axis densities and charge states, and `φ₀`
solves the ion-free problem `A φ₀ = −ρ₀/ε₀` on the same grid, both grounded at the wall, then
`φ₀ ≤ φ` at every node. -/
theorem ions_raise_potential_onaxis (I : BPIn ℝ) (phi phi0 : List ℝ) (hv : I.variant = .onaxis)
    (hg : GridMP I.r) (hldu : I.ldu = fdNonuniform I.r)
    (hphi : phi.length = I.r.length) (hphi0 : phi0.length = I.r.length) (hb0 : I.b0.length = I.r.length)
    (hq : ∀ s ∈ I.sp, 0 ≤ s.q) (hn : ∀ s ∈ I.sp, 0 ≤ s.nl)
    (hfix : mulL 0 I.ldu phi = (step I phi).b) (hfree : mulL 0 I.ldu phi0 = I.b0)
    (hw : phi.getLast? = some 0) (hw0 : phi0.getLast? = some 0) :
    ∀ p ∈ List.zip phi0 phi, p.1 ≤ p.2 := by
  obtain ⟨variant, r, ldu, b0, cden, e_kin, sp⟩ := I
  simp only at hv hg hldu hphi hphi0 hb0 hq hn hfix hfree
  subst hv; subst hldu
  simp only [step] at hfix
  set shape : List (List ℝ) := sp.map fun s => phi.map fun p => Transc.exp (-s.q * (p - phi.headD (lit 0)) / s.kT) with hshape
  set i_sr : List ℝ := shape.map fun sh => trapz (List.zipWith (· * ·) r sh) r
  set nax : List ℝ := zipWith3 (fun (s : Species ℝ) (_ : List ℝ) (_ : ℝ) => s.nl) sp shape i_sr with hnax
  have hion := ion_rhs_nonpos phi.length sp shape nax hq
    (by intro v hv'; obtain ⟨s, hs, _, _, _, _, rfl⟩ := mem_zipWith3 _ _ _ _ v hv'; exact hn s hs)
    (by intro sh hsh v hv'
        rw [hshape] at hsh
        obtain ⟨s, _, rfl⟩ := List.mem_map.mp hsh
        obtain ⟨p, _, rfl⟩ := List.mem_map.mp hv'
        exact (Real.exp_pos _).le)
  set bion := colSum phi.length (zipWith3 (fun (s : Species ℝ) (sh : List ℝ) nx =>
      zeroLast (sh.map fun v => -nx * s.q * v * Const.Q_E / Const.EPS_0)) sp shape nax) with hbion
  have hbl : (List.zipWith (· + ·) b0 bion).length = r.length := by
    have := congrArg List.length hfix
    rw [mulL_length 0 _ phi (by rw [fdNonuniform_length' r hg]; omega)] at this
    omega
  exact fd_comparison r b0 (List.zipWith (· + ·) b0 bion) phi0 phi hg hb0 hbl hphi0 hphi hfree hfix
    (zip_add_le b0 bion hion) hw0 hw

/-- the radial integral `∫ r · shape dr` (trapezoid rule) of a non-negative profile on a non-negative,
non-decreasing grid is non-negative -/
theorem trapz_rshape_nonneg (r sh : List ℝ) (hl : r.length = sh.length) (hr : r.Pairwise (· ≤ ·))
    (hr0 : ∀ v ∈ r, 0 ≤ v) (hs : ∀ v ∈ sh, 0 ≤ v) : 0 ≤ trapz (List.zipWith (· * ·) r sh) r := by
  rw [trapz_eq_dot r _ (by simp [hl])]
  apply dot_nonneg _ _ (nodalW_nonneg r hr)
  intro v hv
  rw [← List.map_uncurry_zip_eq_zipWith] at hv
  obtain ⟨p, hp, rfl⟩ := List.mem_map.mp hv
  exact mul_nonneg (hr0 _ (List.of_mem_zip hp).1) (hs _ (List.of_mem_zip hp).2)

/-- **adding positive ions never lowers the potential anywhere** (line-density variant with a static
background, exact solutions of the discretised equations); same statement as
`ions_raise_potential_onaxis` for species given by non-negative line densities -/
theorem ions_raise_potential_linear (I : BPIn ℝ) (phi phi0 : List ℝ) (hv : I.variant = .linear)
    (hg : GridMP I.r) (hldu : I.ldu = fdNonuniform I.r) (hr : I.r.Pairwise (· ≤ ·)) (hr0 : ∀ v ∈ I.r, 0 ≤ v)
    (hphi : phi.length = I.r.length) (hphi0 : phi0.length = I.r.length) (hb0 : I.b0.length = I.r.length)
    (hq : ∀ s ∈ I.sp, 0 ≤ s.q) (hn : ∀ s ∈ I.sp, 0 ≤ s.nl)
    (hfix : mulL 0 I.ldu phi = (step I phi).b) (hfree : mulL 0 I.ldu phi0 = I.b0)
    (hw : phi.getLast? = some 0) (hw0 : phi0.getLast? = some 0) :
    ∀ p ∈ List.zip phi0 phi, p.1 ≤ p.2 := by
  obtain ⟨variant, r, ldu, b0, cden, e_kin, sp⟩ := I
  simp only at hv hg hldu hphi hphi0 hb0 hq hn hfix hfree hr hr0
  subst hv; subst hldu
  simp only [step] at hfix
  set shape : List (List ℝ) := sp.map fun s => phi.map fun p => Transc.exp (-s.q * (p - phi.headD (lit 0)) / s.kT) with hshape
  have hshpos : ∀ sh ∈ shape, ∀ v ∈ sh, 0 ≤ v := by
    intro sh hsh v hv'
    rw [hshape] at hsh
    obtain ⟨s, _, rfl⟩ := List.mem_map.mp hsh
    obtain ⟨p, _, rfl⟩ := List.mem_map.mp hv'
    exact (Real.exp_pos _).le
  have hshlen : ∀ sh ∈ shape, sh.length = phi.length :=
    shape_len sp phi (fun s p => Transc.exp (-s.q * (p - phi.headD (lit 0)) / s.kT))
  set i_sr : List ℝ := shape.map fun sh => trapz (List.zipWith (· * ·) r sh) r with hisr
  set nax : List ℝ := zipWith3 (fun (s : Species ℝ) (_ : List ℝ) (isr : ℝ) => s.nl / lit 2 / Const.PI / isr) sp shape i_sr with hnax
  have hion := ion_rhs_nonpos phi.length sp shape nax hq
    (by intro v hv'
        obtain ⟨s, hs, _, _, isr, hisr', rfl⟩ := mem_zipWith3 _ _ _ _ v hv'
        rw [hisr] at hisr'
        obtain ⟨sh, hsh, rfl⟩ := List.mem_map.mp hisr'
        have h1 := trapz_rshape_nonneg r sh (by rw [hshlen sh hsh]; omega) hr hr0 (hshpos sh hsh)
        have h2 := hn s hs
        have := Const.PI_pos
        simp only [lit_real]
        positivity)
    hshpos
  set bion := colSum phi.length (zipWith3 (fun (s : Species ℝ) (sh : List ℝ) nx =>
      zeroLast (sh.map fun v => -nx * s.q * v * Const.Q_E / Const.EPS_0)) sp shape nax) with hbion
  have hbl : (List.zipWith (· + ·) b0 bion).length = r.length := by
    have := congrArg List.length hfix
    rw [mulL_length 0 _ phi (by rw [fdNonuniform_length' r hg]; omega)] at this
    omega
  exact fd_comparison r b0 (List.zipWith (· + ·) b0 bion) phi0 phi hg hb0 hbl hphi0 hphi hfree hfix
    (zip_add_le b0 bion hion) hw0 hw

theorem colSum_nonneg (n : ℕ) (rows : List (List ℝ)) (h : ∀ row ∈ rows, ∀ v ∈ row, 0 ≤ v) :
    ∀ v ∈ colSum n rows, 0 ≤ v := by
  unfold colSum
  have key : ∀ (rows : List (List ℝ)) (acc : List ℝ), (∀ row ∈ rows, ∀ v ∈ row, 0 ≤ v) → (∀ v ∈ acc, 0 ≤ v) →
      ∀ v ∈ rows.foldl (fun acc row => List.zipWith (· + ·) acc row) acc, 0 ≤ v := by
    intro rows
    induction rows with
    | nil => intro acc _ ha; simpa using ha
    | cons row rows ih =>
      intro acc hr ha
      simp only [List.foldl_cons]
      apply ih _ (fun r hr' => hr r (by simp [hr']))
      intro v hv
      rw [← List.map_uncurry_zip_eq_zipWith] at hv
      obtain ⟨p, hp, rfl⟩ := List.mem_map.mp hv
      have h1 := ha p.1 (List.of_mem_zip hp).1
      have h2 := hr row (by simp) p.2 (List.of_mem_zip hp).2
      simp only [Function.uncurry]; linarith
  exact key rows _ h (by intro v hv; simp at hv; linarith [hv.2])

theorem zeroLast_nonneg : ∀ (l : List ℝ), (∀ v ∈ l, 0 ≤ v) → ∀ v ∈ zeroLast l, 0 ≤ v
  | [], _ => by simp [zeroLast]
  | [_], _ => by simp [zeroLast]
  | x :: y :: rest, h => by
    have ih := zeroLast_nonneg (y :: rest) (fun v hv => h v (by simp [hv]))
    intro v hv
    simp only [zeroLast, List.mem_cons] at hv
    rcases hv with rfl | hv
    · exact h _ (by simp)
    · exact ih v (by simpa [zeroLast] using hv)

/-- **the ion-free beam potential is a well**: an exact solution of the ion-free e-beam problem
`A φ = −ρ_e(φ)/ε₀` (electron density `j/v_e(E+φ)`, nowhere positive charge; species with zero line
density, as `Device.get` passes, contribute nothing) that vanishes at the wall never decreases
outward and is nowhere positive. The electron charge density depends on `φ` through the electron
velocity; only its sign is used. -/
theorem beam_potential_monotone (I : BPIn ℝ) (phi : List ℝ) (hv : I.variant = .ebeam) (hsp : ∀ s ∈ I.sp, s.nl = 0)
    (hg : GridMP I.r) (hldu : I.ldu = fdNonuniform I.r)
    (hphi : phi.length = I.r.length) (hc : I.cden.length = I.r.length) (hcd : ∀ c ∈ I.cden, c ≤ 0)
    (hfix : mulL 0 I.ldu phi = (step I phi).b) (hw : phi.getLast? = some 0) :
    List.Pairwise (· ≤ ·) phi ∧ ∀ v ∈ phi, v ≤ 0 := by
  obtain ⟨variant, r, ldu, b0, cden, e_kin, sp⟩ := I
  simp only at hv hsp hg hldu hphi hc hcd hfix
  subst hv; subst hldu
  simp only [step] at hfix
  set shape : List (List ℝ) := sp.map fun s => phi.map fun p => Transc.exp (-s.q * (p - minL phi) / s.kT) with hshape
  set i_sr : List ℝ := shape.map fun sh => trapz (List.zipWith (· * ·) r sh) r with hisr
  set nax : List ℝ := zipWith3 (fun (s : Species ℝ) (sh : List ℝ) (isr : ℝ) => s.nl / lit 2 / Const.PI / isr * sh.headD (lit 0)) sp shape i_sr with hnax
  have hnax0 : ∀ v ∈ nax, v = 0 := by
    intro v hv'
    obtain ⟨s, hs, _, _, _, _, rfl⟩ := mem_zipWith3 _ _ _ _ v hv'
    simp [hsp s hs]
  set bion := colSum phi.length (zipWith3 (fun (s : Species ℝ) (sh : List ℝ) nx =>
      zeroLast (sh.map fun v => -nx * s.q * v * Const.Q_E / Const.EPS_0)) sp shape nax) with hbion
  have hion : ∀ v ∈ bion, 0 ≤ v := by
    apply colSum_nonneg
    intro row hrow
    obtain ⟨s, _, sh, _, nx, hnx, rfl⟩ := mem_zipWith3 _ _ _ _ row hrow
    apply zeroLast_nonneg
    intro v hv'
    obtain ⟨w, _, rfl⟩ := List.mem_map.mp hv'
    simp [hnax0 nx hnx]
  set bxb : List ℝ := List.zipWith (fun c p => -c / Transc.sqrt (lit 2 * Const.Q_E * (e_kin + p) / Const.M_E) / Const.EPS_0) cden phi with hbxb
  have hbnn : ∀ v ∈ List.zipWith (· + ·) bion bxb, 0 ≤ v := by
    intro v hv'
    rw [← List.map_uncurry_zip_eq_zipWith] at hv'
    obtain ⟨p, hp, rfl⟩ := List.mem_map.mp hv'
    have h1 : 0 ≤ p.1 := hion _ (List.of_mem_zip hp).1
    have h2 : 0 ≤ p.2 := by
      have := (List.of_mem_zip hp).2
      rw [hbxb, ← List.map_uncurry_zip_eq_zipWith] at this
      obtain ⟨cp, hcp, e⟩ := List.mem_map.mp this
      rw [← e]
      have hc0 := hcd cp.1 (List.of_mem_zip hcp).1
      simp only [Function.uncurry, Transc.sqrt_real]
      apply div_nonneg _ Const.EPS_0_pos.le
      exact div_nonneg (by linarith) (Real.sqrt_nonneg _)
    simp only [Function.uncurry]; linarith
  have hbl : (List.zipWith (· + ·) bion bxb).length = r.length := by
    have := congrArg List.length hfix
    rw [mulL_length 0 _ phi (by rw [fdNonuniform_length' r hg]; omega)] at this
    omega
  have hmono := fd_monotone r _ phi hg hbl hphi hfix hbnn
  exact ⟨hmono, le_last_of_pairwise phi hmono 0 hw⟩

theorem beamDensity_nonpos (r : List ℝ) (current r_e : ℝ) (hI : 0 ≤ current) :
    ∀ c ∈ beamDensity r current r_e, c ≤ 0 := by
  intro c hc
  unfold beamDensity at hc
  obtain ⟨x, _, rfl⟩ := List.mem_map.mp hc
  split_ifs
  · have := Const.PI_pos
    have : 0 ≤ current / Const.PI / powN r_e 2 := by rw [powN_real]; positivity
    have e : -current / Const.PI / powN r_e 2 = -(current / Const.PI / powN r_e 2) := by ring
    rw [e]; linarith
  · simp

/-- entrywise comparison of two lists from an indexed comparison -/
theorem zip_le_of_getElem (a b : List ℝ) (hl : a.length = b.length)
    (h : ∀ i (h1 : i < a.length) (h2 : i < b.length), b[i] ≤ a[i]) : ∀ p ∈ List.zip a b, p.2 ≤ p.1 := by
  intro p hp
  obtain ⟨i, hi, rfl⟩ := List.mem_iff_getElem.mp hp
  have hi' : i < a.length ∧ i < b.length := by simpa [List.length_zip, hl] using hi
  simp only [List.getElem_zip]
  exact h i hi'.1 hi'.2

theorem colSum_zero (n : ℕ) (rows : List (List ℝ)) (h : ∀ row ∈ rows, ∀ v ∈ row, v = 0) :
    ∀ v ∈ colSum n rows, v = 0 := by
  intro v hv
  have h1 := colSum_nonneg n rows (fun row hr w hw => (h row hr w hw).ge) v hv
  have h2 := colSum_nonpos n rows (fun row hr w hw => (h row hr w hw).le) v hv
  linarith

theorem zeroLast_zero : ∀ (l : List ℝ), (∀ v ∈ l, v = 0) → ∀ v ∈ zeroLast l, v = 0 := by
  intro l h v hv
  have h1 := zeroLast_nonneg l (fun w hw => (h w hw).ge) v hv
  have h2 := zeroLast_nonpos l (fun w hw => (h w hw).le) v hv
  linarith

/-- **the ion-free beam potential lies between the potentials of the same beam at the nominal and at
the space-charge-reduced electron velocity** (discrete form): let `φ` be an exact solution of the
ion-free e-beam problem with `E + φ > 0` everywhere, `φ_lo` the finite-difference Poisson potential
of the beam with the electron velocity frozen at the lowest energy `E + p_min` (`p_min ≤ φ`), and
`φ_hi` the one at the nominal energy `E`. Then `φ_lo ≤ φ ≤ φ_hi` at every node. (The analytic
uniform-beam potentials of the property are the continuum limits of `φ_lo`, `φ_hi`, C12.) -/
theorem beam_potential_between (I : BPIn ℝ) (phi philo phihi : List ℝ) (pm : ℝ)
    (hv : I.variant = .ebeam) (hsp : ∀ s ∈ I.sp, s.nl = 0)
    (hg : GridMP I.r) (hldu : I.ldu = fdNonuniform I.r)
    (hphi : phi.length = I.r.length) (hlo_len : philo.length = I.r.length) (hhi_len : phihi.length = I.r.length)
    (hc : I.cden.length = I.r.length) (hcd : ∀ c ∈ I.cden, c ≤ 0)
    (hfix : mulL 0 I.ldu phi = (step I phi).b)
    (hw : phi.getLast? = some 0) (hwlo : philo.getLast? = some 0) (hwhi : phihi.getLast? = some 0)
    (hpm : ∀ p ∈ phi, pm ≤ p) (hpos : 0 < I.e_kin + pm)
    (hlo : mulL 0 I.ldu philo = I.cden.map fun c => -c / Real.sqrt (2 * Const.Q_E * (I.e_kin + pm) / Const.M_E) / Const.EPS_0)
    (hhi : mulL 0 I.ldu phihi = I.cden.map fun c => -c / Real.sqrt (2 * Const.Q_E * I.e_kin / Const.M_E) / Const.EPS_0) :
    (∀ p ∈ List.zip philo phi, p.1 ≤ p.2) ∧ (∀ p ∈ List.zip phi phihi, p.1 ≤ p.2) := by
  have hle0 := (beam_potential_monotone I phi hv hsp hg hldu hphi hc hcd hfix hw).2
  obtain ⟨variant, r, ldu, b0, cden, e_kin, sp⟩ := I
  simp only at hv hsp hg hldu hphi hc hcd hfix hlo hhi hpos hlo_len hhi_len
  subst hv; subst hldu
  simp only [step] at hfix
  set shape : List (List ℝ) := sp.map fun s => phi.map fun p => Transc.exp (-s.q * (p - minL phi) / s.kT) with hshape
  set i_sr : List ℝ := shape.map fun sh => trapz (List.zipWith (· * ·) r sh) r with hisr
  set nax : List ℝ := zipWith3 (fun (s : Species ℝ) (sh : List ℝ) (isr : ℝ) => s.nl / lit 2 / Const.PI / isr * sh.headD (lit 0)) sp shape i_sr with hnax
  have hnax0 : ∀ v ∈ nax, v = 0 := by
    intro v hv'
    obtain ⟨s, hs, _, _, _, _, rfl⟩ := mem_zipWith3 _ _ _ _ v hv'
    simp [hsp s hs]
  set bion := colSum phi.length (zipWith3 (fun (s : Species ℝ) (sh : List ℝ) nx =>
      zeroLast (sh.map fun v => -nx * s.q * v * Const.Q_E / Const.EPS_0)) sp shape nax) with hbion
  have hion : ∀ v ∈ bion, v = 0 := by
    apply colSum_zero
    intro row hrow
    obtain ⟨s, _, sh, _, nx, hnx, rfl⟩ := mem_zipWith3 _ _ _ _ row hrow
    apply zeroLast_zero
    intro v hv'
    obtain ⟨w, _, rfl⟩ := List.mem_map.mp hv'
    simp [hnax0 nx hnx]
  set bxb : List ℝ := List.zipWith (fun c p => -c / Transc.sqrt (lit 2 * Const.Q_E * (e_kin + p) / Const.M_E) / Const.EPS_0) cden phi with hbxb
  set b := List.zipWith (· + ·) bion bxb with hb
  have hbl : b.length = r.length := by
    have := congrArg List.length hfix
    rw [mulL_length 0 _ phi (by rw [fdNonuniform_length' r hg]; omega)] at this
    omega
  have hbxbl : bxb.length = r.length := by simp [hbxb, hc, hphi]
  have hbionl : r.length ≤ bion.length := by
    have : b.length = min bion.length bxb.length := by simp [hb]
    omega
  have hQM : (0 : ℝ) < 2 * (Const.Q_E : ℝ) / (Const.M_E : ℝ) := by
    have := Const.Q_E_pos; have := Const.M_E_pos; positivity
  -- the entries of `b`
  have hbi : ∀ i (h : i < b.length), ∃ (h1 : i < cden.length) (h2 : i < phi.length),
      b[i] = -cden[i] / Real.sqrt (2 * Const.Q_E * (e_kin + phi[i]) / Const.M_E) / Const.EPS_0 := by
    intro i h
    have h1 : i < cden.length := by omega
    have h2 : i < phi.length := by omega
    refine ⟨h1, h2, ?_⟩
    have hbi0 : bion[i]'(by omega) = 0 := hion _ (List.getElem_mem _)
    simp only [hb, hbxb, List.getElem_zipWith, hbi0, zero_add, Transc.sqrt_real, lit_real, Nat.cast_ofNat]
  have hsq : ∀ x y : ℝ, x ≤ y → Real.sqrt (2 * Const.Q_E * x / Const.M_E) ≤ Real.sqrt (2 * Const.Q_E * y / Const.M_E) := by
    intro x y hxy
    apply Real.sqrt_le_sqrt
    have e : ∀ z : ℝ, 2 * Const.Q_E * z / Const.M_E = (2 * Const.Q_E / Const.M_E) * z := fun z => by ring
    rw [e x, e y]
    exact mul_le_mul_of_nonneg_left hxy hQM.le
  have hsqpos : 0 < Real.sqrt (2 * Const.Q_E * (e_kin + pm) / Const.M_E) := by
    apply Real.sqrt_pos.mpr
    have e : 2 * Const.Q_E * (e_kin + pm) / Const.M_E = (2 * Const.Q_E / Const.M_E) * (e_kin + pm) := by ring
    rw [e]; exact mul_pos hQM hpos
  have heps := Const.EPS_0_pos
  constructor
  · -- lower bound: frozen at the lowest energy the charge density is largest in magnitude
    refine fd_comparison r _ b philo phi hg (by simp [hc]) hbl hlo_len hphi hlo hfix ?_ hwlo hw
    apply zip_le_of_getElem _ _ (by simp [hc, hbl])
    intro i h1 h2
    obtain ⟨hc1, hp1, e⟩ := hbi i h2
    rw [e, List.getElem_map]
    have hci := hcd _ (List.getElem_mem hc1)
    have hpi := hpm _ (List.getElem_mem hp1)
    have hs := hsq (e_kin + pm) (e_kin + phi[i]) (by linarith)
    apply div_le_div_of_nonneg_right _ heps.le
    exact div_le_div_of_nonneg_left (by linarith) hsqpos hs
  · -- upper bound: at the nominal energy the electrons are fastest
    refine fd_comparison r b _ phi phihi hg hbl (by simp [hc]) hphi hhi_len hfix hhi ?_ hw hwhi
    apply zip_le_of_getElem _ _ (by simp [hc, hbl])
    intro i h1 h2
    obtain ⟨hc1, hp1, e⟩ := hbi i h1
    rw [e, List.getElem_map]
    have hci := hcd _ (List.getElem_mem hc1)
    have hpi0 := hle0 _ (List.getElem_mem hp1)
    have hpi := hpm _ (List.getElem_mem hp1)
    have hs := hsq (e_kin + phi[i]) e_kin (by linarith)
    have hs0 : 0 < Real.sqrt (2 * Const.Q_E * (e_kin + phi[i]) / Const.M_E) :=
      lt_of_lt_of_le hsqpos (hsq _ _ (by linarith))
    apply div_le_div_of_nonneg_right _ heps.le
    exact div_le_div_of_nonneg_left (by linarith) hs0 hs

/-! ### non-vacuity of the comparison principle -/
example : GridMP [0, 1, 2] := by simp only [GridMP, StepsOk]; norm_num
/-- a concrete instance of the hypotheses of `fd_monotone` / `fd_comparison`: on the grid `[0, 1, 2]`
the vector `[-2, -1, 0]` solves `A x = [2, 1, 0]` (a negative charge), and it increases outward -/
example : mulL 0 (fdNonuniform [(0:ℝ), 1, 2]) [-2, -1, 0] = [2, 1, 0] := by
  simp [fdNonuniform, fdInterior, fdRow, mulL]; norm_num

/-! ## the over-relaxed e-beam variant -/

/-- the extrapolation step keeps the length and the wall value: `φ₋₁ + μ (φ − φ₋₁)` is 0 at the wall when
`φ` and `φ₋₁` are — whatever `μ` is (also for a vanishing denominator) -/
theorem sorExtrapolate_wall (phi m1 m2 : List ℝ) (n : ℕ) (hn : 0 < n) (h1 : phi.length = n) (h2 : m1.length = n)
    (hw : phi.getLast? = some 0) (hw1 : m1.getLast? = some 0) :
    (sorExtrapolate phi m1 m2).length = n ∧ (sorExtrapolate phi m1 m2).getLast? = some 0 := by
  unfold sorExtrapolate
  have hrk : (List.zipWith (· - ·) phi m1).getLast? = some (0 - 0) :=
    getLast?_zipWith_sub phi m1 0 0 (by omega) hw hw1
  refine ⟨by simp [h1, h2], ?_⟩
  have := getLast?_zipWith (fun a b : ℝ => a + (lit 1 - dotL (List.zipWith (· - ·) phi m1)
      (List.zipWith (· - ·) (List.zipWith (· - ·) phi m1) (List.zipWith (· - ·) m1 m2)) /
      dotL (List.zipWith (· - ·) (List.zipWith (· - ·) phi m1) (List.zipWith (· - ·) m1 m2))
        (List.zipWith (· - ·) (List.zipWith (· - ·) phi m1) (List.zipWith (· - ·) m1 m2))) * b)
    m1 (List.zipWith (· - ·) phi m1) 0 (0 - 0) (by simp [h1, h2]) hw1 hrk
  simpa using this

/-- **the over-relaxed iteration returns a potential that is exactly 0 at the wall** — after any number of passes,
through the convergence exit or the pass budget, including the extrapolated iterates -/
theorem sor_loop_wall_zero (I : BPIn ℝ) (f0n u : ℝ) (n : ℕ) (hn : 0 < n) (hr : I.r.length = n) (hl : I.ldu.length = n)
    (hc : I.ldu.getLast? = some (0, 1, u)) (hv : I.variant = .ebeam)
    (hbeam : I.cden.length = n ∧ I.cden.getLast? = some 0) :
    ∀ (fuel k : ℕ) (phi m1 m2 : List ℝ) (last : Option (StepOut ℝ)), phi.length = n → m1.length = n →
      m1.getLast? = some 0 →
      (sorLoop I f0n (fuel + 1) k phi m1 m2 last).1.getLast? = some 0 := by
  have hstat : I.variant ≠ .ebeam → I.b0.length = n ∧ I.b0.getLast? = some 0 := fun h => absurd hv h
  intro fuel
  induction fuel with
  | zero =>
    intro k phi m1 m2 last hp hm1 hw1
    have hz := step_wall_zero I phi u (by omega) (by omega) (by omega) hc (by rw [hp]; exact hstat) (by rw [hp]; exact fun _ => hbeam)
    have hlen := step_phi_length I phi (by omega) (by omega) (by omega) (by rw [hp]; exact hstat) (by rw [hp]; exact fun _ => hbeam)
    simp only [sorLoop]
    split_ifs
    · exact (sorExtrapolate_wall _ m1 m2 n hn (by omega) hm1 hz hw1).2
    · exact hz
    · exact hz
  | succ f ih =>
    intro k phi m1 m2 last hp hm1 hw1
    have hz := step_wall_zero I phi u (by omega) (by omega) (by omega) hc (by rw [hp]; exact hstat) (by rw [hp]; exact fun _ => hbeam)
    have hlen := step_phi_length I phi (by omega) (by omega) (by omega) (by rw [hp]; exact hstat) (by rw [hp]; exact fun _ => hbeam)
    rw [sorLoop]
    split_ifs
    · obtain ⟨e1, e2⟩ := sorExtrapolate_wall (step I phi).phi m1 m2 n hn (by omega) hm1 hz hw1
      exact ih (k + 1) _ _ m1 (some (step I phi)) e1 e1 e2
    · exact hz
    · exact ih (k + 1) _ _ m1 (some (step I phi)) (by omega) (by omega) hz

/-- every Newton update inside the over-relaxed iteration is the same `step` as in the plain iteration, so the
Newton identity (`self_consistent_partial`), the line-density normalisation (`line_density_ebeam`) and the shape
bounds (`shape_bounds`) apply to what it returns: the returned `nax`, `shape` are those of a `step` -/
theorem sor_exit_is_step (I : BPIn ℝ) (f0n : ℝ) : ∀ (fuel k : ℕ) (phi m1 m2 : List ℝ) (last : Option (StepOut ℝ)) (o : StepOut ℝ),
    (sorLoop I f0n fuel k phi m1 m2 last).2.1 = some o → 0 < fuel → ∃ phiPrev, o = step I phiPrev := by
  intro fuel
  induction fuel with
  | zero => intro k phi m1 m2 last o _ h; exact absurd h (by simp)
  | succ f ih =>
    intro k phi m1 m2 last o ho _
    rw [sorLoop] at ho
    split_ifs at ho
    · cases f with
      | zero => simp only [sorLoop, Option.some.injEq] at ho; exact ⟨phi, ho.symm⟩
      | succ f' => exact ih _ _ _ _ _ o ho (by omega)
    · simp only [Option.some.injEq] at ho; exact ⟨phi, ho.symm⟩
    · cases f with
      | zero => simp only [sorLoop, Option.some.injEq] at ho; exact ⟨phi, ho.symm⟩
      | succ f' => exact ih _ _ _ _ _ o ho (by omega)

/-- **exit of the over-relaxed iteration**: whatever it returns is either the result of the pass budget running out (`k` has advanced by the
whole budget) or the potential of a Newton update `step I φ_prev` taken on a pass that is not an extrapolation pass (`k % 5 ≠ 0`) and for which
*both* stopping measures are below `10⁻¹⁰`: the relative change `‖φ' − φ₋₁‖/‖φ'‖` and the relative residual `‖A φ_prev − b(φ_prev)‖/‖f₀‖` -/
theorem sor_converged_exit (I : BPIn ℝ) (f0n : ℝ) : ∀ (fuel k : ℕ) (phi m1 m2 : List ℝ) (last : Option (StepOut ℝ)),
    (sorLoop I f0n fuel k phi m1 m2 last).2.2 = k + fuel - 1 ∨
    ∃ phiPrev mPrev kk, kk % 5 ≠ 0 ∧
      (sorLoop I f0n fuel k phi m1 m2 last).1 = (step I phiPrev).phi ∧
      (sorLoop I f0n fuel k phi m1 m2 last).2.1 = some (step I phiPrev) ∧
      normL (List.zipWith (· - ·) (step I phiPrev).phi mPrev) / normL (step I phiPrev).phi < 1e-10 ∧
      normL (targetFun none I.ldu phiPrev (step I phiPrev).b) / f0n < 1e-10 := by
  intro fuel
  induction fuel with
  | zero => intro k phi m1 m2 last; left; simp [sorLoop]
  | succ f ih =>
    intro k phi m1 m2 last
    rw [sorLoop]
    split_ifs with h5 hc
    · rcases ih (k + 1) _ _ m1 (some (step I phi)) with h | h
      · left; rw [h]; omega
      · right; exact h
    · right
      refine ⟨phi, m1, k, h5, rfl, rfl, ?_, ?_⟩
      · have := hc.1; norm_num at this ⊢; exact this
      · have := hc.2; norm_num at this ⊢; exact this
    · rcases ih (k + 1) _ _ m1 (some (step I phi)) with h | h
      · left; rw [h]; omega
      · right; exact h

/-! ## the returned iterate of the ion-free e-beam problem -/

theorem zipWith3_getElem {β γ δ ε : Type} (f : β → γ → δ → ε) : ∀ (a : List β) (b : List γ) (c : List δ) (i : ℕ)
    (h : i < (zipWith3 f a b c).length), ∃ (ha : i < a.length) (hb : i < b.length) (hc : i < c.length),
    (zipWith3 f a b c)[i] = f a[i] b[i] c[i] := by
  intro a
  induction a with
  | nil => intro b c i h; cases b <;> cases c <;> simp [zipWith3] at h
  | cons a0 as ih =>
    intro b c i h
    match b, c, h with
    | [], _, h => simp [zipWith3] at h
    | _ :: _, [], h => simp [zipWith3] at h
    | b0 :: bs, c0 :: cs, h =>
      cases i with
      | zero => exact ⟨by simp, by simp, by simp, by simp [zipWith3]⟩
      | succ j =>
        obtain ⟨ha, hb, hc, e⟩ := ih bs cs j (by simpa [zipWith3] using h)
        exact ⟨by simp; omega, by simp; omega, by simp; omega, by simpa [zipWith3] using e⟩

theorem mem_zipWith_exists {β γ δ : Type} (f : β → γ → δ) (a : List β) (b : List γ) (v : δ) (h : v ∈ List.zipWith f a b) :
    ∃ x ∈ a, ∃ y ∈ b, v = f x y := by
  rw [← List.map_uncurry_zip_eq_zipWith] at h
  obtain ⟨p, hp, rfl⟩ := List.mem_map.mp h
  exact ⟨p.1, (List.of_mem_zip hp).1, p.2, (List.of_mem_zip hp).2, rfl⟩

/-- **the potential the e-beam solver returns for an ion-free beam — the last Newton iterate itself, not only the fixed point — never
decreases outward and is nowhere positive**, provided the last Newton correction satisfies `y ≥ −2(E + φ)` at every node. (The
stopping test bounds `|y/φ| < rel_diff ≤ 10⁻³`, so the condition holds for every potential above `−0.9995 E`, i.e. everywhere below the
virtual-cathode limit.) From the Newton identity `A φ' = b(φ) − j_d ⊙ y`: with `j_d = −b/(2(E+φ))` the right-hand side is
`b (1 + y/(2(E+φ))) ≥ 0`, and the maximum principle applies to `φ'`. -/
theorem ionfree_iterate_well (I : BPIn ℝ) (phi : List ℝ) (hv : I.variant = .ebeam) (hsp : ∀ s ∈ I.sp, s.nl = 0)
    (hg : GridMP I.r) (hldu : I.ldu = fdNonuniform I.r) (hphi : phi.length = I.r.length)
    (hc : I.cden.length = I.r.length) (hcz : I.cden.getLast? = some 0) (hcd : ∀ c ∈ I.cden, c ≤ 0)
    (hp : PivotsOk 0 (newtonRows I.ldu (step I phi).jd (targetFun none I.ldu phi (step I phi).b)))
    (hpos : ∀ p ∈ phi, 0 < I.e_kin + p)
    (hy : ∀ i (h1 : i < phi.length) (h2 : i < (step I phi).y.length), -(2 * (I.e_kin + phi[i])) ≤ ((step I phi).y)[i])
    (hw : (step I phi).phi.getLast? = some 0) :
    List.Pairwise (· ≤ ·) (step I phi).phi ∧ ∀ v ∈ (step I phi).phi, v ≤ 0 := by
  have hn : 0 < phi.length := by have := hg.two_le; omega
  have hlen := step_wall_rhs I phi hn (by omega) (fun h => absurd hv h) (fun _ => ⟨by omega, hcz⟩)
  obtain ⟨hbl, _, hjl, _⟩ := hlen
  have hldul : I.ldu.length = phi.length := by rw [hldu, fdNonuniform_length' I.r hg]; omega
  have hid := self_consistent_partial I phi hldul (by omega) (by omega) hp
  have hpl := step_phi_length I phi hn (by omega) hldul (fun h => absurd hv h) (fun _ => ⟨by omega, hcz⟩)
  -- the Newton correction has one entry per node
  have hyl : (step I phi).y.length = phi.length := by
    have e := step_is_newton I phi
    have e2 : (step I phi).y = (newton I.ldu phi (step I phi).b (step I phi).jd).2 := by rw [← e]
    rw [e2]
    simp only [newton]
    have hfl : (targetFun none I.ldu phi (step I phi).b).length = I.ldu.length := by
      rw [targetFun_eq I.ldu phi (step I phi).b none hldul (by omega)]; simp [mulL_length 0 I.ldu phi hldul]; omega
    obtain ⟨_, hl⟩ := newtonRows_b I.ldu (step I phi).jd (targetFun none I.ldu phi (step I phi).b) (by omega) (by omega)
    have hl' : (newtonRows I.ldu (step I phi).jd (targetFun none I.ldu phi (step I phi).b)).length = I.ldu.length := hl
    rw [solve_length, hl']; omega
  -- entries of b and jd in the ion-free case
  have key : ∀ i (h1 : i < phi.length) (hb : i < (step I phi).b.length) (hj : i < (step I phi).jd.length) (hcc : i < I.cden.length),
      ((step I phi).b)[i] = -I.cden[i] / Real.sqrt (2 * Const.Q_E * (I.e_kin + phi[i]) / Const.M_E) / Const.EPS_0 ∧
      ((step I phi).jd)[i] = -(Const.Q_E / Const.M_E * (-I.cden[i] / Real.sqrt (2 * Const.Q_E * (I.e_kin + phi[i]) / Const.M_E) / Const.EPS_0)
          / (2 * Const.Q_E * (I.e_kin + phi[i]) / Const.M_E)) := by
    obtain ⟨variant, r, ldu, b0, cden, e_kin, sp⟩ := I
    simp only at hv hsp hc hcd ⊢
    subst hv
    intro i h1 hb hj hcc
    simp only [step] at hb hj ⊢
    set shape : List (List ℝ) := sp.map fun s => phi.map fun p => Transc.exp (-s.q * (p - minL phi) / s.kT) with hshape
    set i_sr : List ℝ := shape.map fun sh => trapz (List.zipWith (· * ·) r sh) r with hisr
    set nax : List ℝ := zipWith3 (fun (s : Species ℝ) (sh : List ℝ) (isr : ℝ) => s.nl / lit 2 / Const.PI / isr * sh.headD (lit 0)) sp shape i_sr with hnax
    have hnax0 : ∀ v ∈ nax, v = 0 := by
      intro v hv'
      obtain ⟨s, hs, _, _, _, _, rfl⟩ := mem_zipWith3 _ _ _ _ v hv'
      simp [hsp s hs]
    set bxa := zipWith3 (fun (s : Species ℝ) (sh : List ℝ) nx =>
        zeroLast (sh.map fun v => -nx * s.q * v * Const.Q_E / Const.EPS_0)) sp shape nax with hbxa
    have hbxa0 : ∀ row ∈ bxa, ∀ v ∈ row, v = 0 := by
      intro row hrow
      obtain ⟨s, _, sh, _, nx, hnx, rfl⟩ := mem_zipWith3 _ _ _ _ row hrow
      apply zeroLast_zero
      intro v hv'
      obtain ⟨w, _, rfl⟩ := List.mem_map.mp hv'
      simp [hnax0 nx hnx]
    have hion : ∀ v ∈ colSum phi.length bxa, v = 0 := colSum_zero _ _ hbxa0
    set jrows := zipWith3 (fun (s : Species ℝ) (bx : List ℝ) (p : List ℝ × ℝ) =>
        List.zipWith (fun v c => v * s.q / s.kT * (p.2 - c) / p.2) bx (cTerm r p.1)) sp bxa (List.zip shape i_sr) with hjrows
    have hjion : ∀ v ∈ colSum phi.length jrows, v = 0 := by
      apply colSum_zero
      intro row hrow
      obtain ⟨s, _, bx, hbx, p, _, rfl⟩ := mem_zipWith3 _ _ _ _ row hrow
      intro v hv'
      obtain ⟨a, ha, c, _, rfl⟩ := mem_zipWith_exists _ _ _ v hv'
      rw [hbxa0 bx hbx a ha]; simp
    constructor
    · rw [List.getElem_zipWith]
      have : (colSum phi.length bxa)[i]'(by simp only [List.length_zipWith] at hb; omega) = 0 := hion _ (List.getElem_mem _)
      rw [this, List.getElem_zipWith]
      simp
    · obtain ⟨h1', h2', h3', e⟩ := zipWith3_getElem _ _ _ _ i hj
      rw [e]
      have : (colSum phi.length jrows)[i]'h1' = 0 := hjion _ (List.getElem_mem _)
      rw [this, List.getElem_zipWith]
      simp
  -- the right-hand side of the Newton identity is non-negative
  have hQM : (0 : ℝ) < 2 * (Const.Q_E : ℝ) / (Const.M_E : ℝ) := by
    have := Const.Q_E_pos; have := Const.M_E_pos; positivity
  have hnn : ∀ v ∈ List.zipWith (· - ·) (step I phi).b (List.zipWith (· * ·) (step I phi).jd (step I phi).y), 0 ≤ v := by
    intro v hv'
    obtain ⟨i, hi, rfl⟩ := List.mem_iff_getElem.mp hv'
    simp only [List.length_zipWith] at hi
    rw [List.getElem_zipWith, List.getElem_zipWith]
    obtain ⟨eb, ej⟩ := key i (by omega) (by omega) (by omega) (by omega)
    rw [eb, ej]
    have hci := hcd _ (List.getElem_mem (by omega : i < I.cden.length))
    have hEi := hpos _ (List.getElem_mem (by omega : i < phi.length))
    have hyi := hy i (by omega) (by omega)
    set E := I.e_kin + phi[i] with hE
    set β := -I.cden[i] / Real.sqrt (2 * Const.Q_E * E / Const.M_E) / Const.EPS_0 with hβ
    have hβ0 : 0 ≤ β := by
      apply div_nonneg _ Const.EPS_0_pos.le
      exact div_nonneg (by linarith) (Real.sqrt_nonneg _)
    have e1 : (Const.Q_E : ℝ) / Const.M_E * β / (2 * Const.Q_E * E / Const.M_E) = β / (2 * E) := by
      have := Const.Q_E_pos; have := Const.M_E_pos
      field_simp
    rw [e1]
    have : β - -(β / (2 * E)) * ((step I phi).y)[i] = β * (1 + ((step I phi).y)[i] / (2 * E)) := by
      field_simp; ring
    rw [this]
    apply mul_nonneg hβ0
    have : -1 ≤ ((step I phi).y)[i] / (2 * E) := by
      rw [le_div_iff₀ (by linarith)]; linarith
    linarith
  have hbtl : (List.zipWith (· - ·) (step I phi).b (List.zipWith (· * ·) (step I phi).jd (step I phi).y)).length = I.r.length := by
    simp only [List.length_zipWith]; omega
  rw [hldu] at hid
  have hmono := fd_monotone I.r _ (step I phi).phi hg hbtl (by omega) hid hnn
  exact ⟨hmono, le_last_of_pairwise _ hmono 0 hw⟩

/-- **e-beam variant, partial form of "adding positive ions never lowers the potential"**: an exact solution `φ` of the discretised e-beam
problem with ions lies, at every node, above the finite-difference Poisson potential `ψ` of *the electron charge it carries alone*
(`A ψ = −ρ_e(φ)/ε₀`, same electron density, ions removed). What this leaves open is the response of the electron density to the higher
potential (faster electrons, less negative charge — a further rise): comparing with the ion-free *fixed point* needs its uniqueness, and is
monitored. Hypotheses: non-negative line densities and charge states, non-negative non-decreasing grid, positive on-axis shape values are
automatic (exponentials). -/
theorem ions_raise_potential_ebeam_partial (I : BPIn ℝ) (phi psi : List ℝ) (hv : I.variant = .ebeam)
    (hg : GridMP I.r) (hldu : I.ldu = fdNonuniform I.r) (hr : I.r.Pairwise (· ≤ ·)) (hr0 : ∀ v ∈ I.r, 0 ≤ v)
    (hphi : phi.length = I.r.length) (hpsi : psi.length = I.r.length) (hc : I.cden.length = I.r.length)
    (hq : ∀ s ∈ I.sp, 0 ≤ s.q) (hn : ∀ s ∈ I.sp, 0 ≤ s.nl)
    (hfix : mulL 0 I.ldu phi = (step I phi).b)
    (hfree : mulL 0 I.ldu psi = List.zipWith (fun c p => -c / Real.sqrt (2 * Const.Q_E * (I.e_kin + p) / Const.M_E) / Const.EPS_0) I.cden phi)
    (hw : phi.getLast? = some 0) (hw0 : psi.getLast? = some 0) :
    ∀ p ∈ List.zip psi phi, p.1 ≤ p.2 := by
  obtain ⟨variant, r, ldu, b0, cden, e_kin, sp⟩ := I
  simp only at hv hg hldu hphi hpsi hc hq hn hfix hfree hr hr0
  subst hv; subst hldu
  simp only [step] at hfix
  set shape : List (List ℝ) := sp.map fun s => phi.map fun p => Transc.exp (-s.q * (p - minL phi) / s.kT) with hshape
  have hshpos : ∀ sh ∈ shape, ∀ v ∈ sh, 0 ≤ v := by
    intro sh hsh v hv'
    rw [hshape] at hsh
    obtain ⟨s, _, rfl⟩ := List.mem_map.mp hsh
    obtain ⟨p, _, rfl⟩ := List.mem_map.mp hv'
    exact (Real.exp_pos _).le
  have hshlen : ∀ sh ∈ shape, sh.length = phi.length :=
    shape_len sp phi (fun s p => Transc.exp (-s.q * (p - minL phi) / s.kT))
  set i_sr : List ℝ := shape.map fun sh => trapz (List.zipWith (· * ·) r sh) r with hisr
  set nax : List ℝ := zipWith3 (fun (s : Species ℝ) (sh : List ℝ) (isr : ℝ) => s.nl / lit 2 / Const.PI / isr * sh.headD (lit 0)) sp shape i_sr with hnax
  have hion := ion_rhs_nonpos phi.length sp shape nax hq
    (by intro v hv'
        obtain ⟨s, hs, sh, hsh, isr, hisr', rfl⟩ := mem_zipWith3 _ _ _ _ v hv'
        rw [hisr] at hisr'
        obtain ⟨sh', hsh', rfl⟩ := List.mem_map.mp hisr'
        have h1 := trapz_rshape_nonneg r sh' (by rw [hshlen sh' hsh']; omega) hr hr0 (hshpos sh' hsh')
        have h2 := hn s hs
        have h3 : 0 ≤ sh.headD (lit 0) := by
          cases sh with
          | nil => simp
          | cons a t => simpa using hshpos _ hsh a (by simp)
        have := Const.PI_pos
        simp only [lit_real]
        positivity)
    hshpos
  set bion := colSum phi.length (zipWith3 (fun (s : Species ℝ) (sh : List ℝ) nx =>
      zeroLast (sh.map fun v => -nx * s.q * v * Const.Q_E / Const.EPS_0)) sp shape nax) with hbion
  set bxb : List ℝ := List.zipWith (fun c p => -c / Transc.sqrt (lit 2 * Const.Q_E * (e_kin + p) / Const.M_E) / Const.EPS_0) cden phi with hbxb
  have hbxb' : List.zipWith (fun c p => -c / Real.sqrt (2 * Const.Q_E * (e_kin + p) / Const.M_E) / Const.EPS_0) cden phi = bxb := by
    rw [hbxb]; simp
  rw [hbxb'] at hfree
  have hbl : (List.zipWith (· + ·) bion bxb).length = r.length := by
    have := congrArg List.length hfix
    rw [mulL_length 0 _ phi (by rw [fdNonuniform_length' r hg]; omega)] at this
    omega
  have hbxbl : bxb.length = r.length := by simp [hbxb, hc, hphi]
  -- b = bion + bxb ≤ bxb nodewise
  have hle : ∀ p ∈ List.zip bxb (List.zipWith (· + ·) bion bxb), p.2 ≤ p.1 := by
    apply zip_le_of_getElem _ _ (by omega)
    intro i h1 h2
    rw [List.getElem_zipWith]
    have : bion[i]'(by simp only [List.length_zipWith] at h2; omega) ≤ 0 := hion _ (List.getElem_mem _)
    linarith
  exact fd_comparison r bxb (List.zipWith (· + ·) bion bxb) psi phi hg hbxbl hbl hpsi hphi hfree hfix hle hw0 hw

/-- entries of the right-hand side and of the Jacobian diagonal that `step` builds for an ion-free e-beam problem -/
theorem ionfree_step_entries (I : BPIn ℝ) (phi : List ℝ) (hv : I.variant = .ebeam) (hsp : ∀ s ∈ I.sp, s.nl = 0) : ∀ i (h1 : i < phi.length) (hb : i < (step I phi).b.length) (hj : i < (step I phi).jd.length) (hcc : i < I.cden.length),
      ((step I phi).b)[i] = -I.cden[i] / Real.sqrt (2 * Const.Q_E * (I.e_kin + phi[i]) / Const.M_E) / Const.EPS_0 ∧
      ((step I phi).jd)[i] = -(Const.Q_E / Const.M_E * (-I.cden[i] / Real.sqrt (2 * Const.Q_E * (I.e_kin + phi[i]) / Const.M_E) / Const.EPS_0)
          / (2 * Const.Q_E * (I.e_kin + phi[i]) / Const.M_E)) := by
    obtain ⟨variant, r, ldu, b0, cden, e_kin, sp⟩ := I
    simp only at hv hsp ⊢
    subst hv
    intro i h1 hb hj hcc
    simp only [step] at hb hj ⊢
    set shape : List (List ℝ) := sp.map fun s => phi.map fun p => Transc.exp (-s.q * (p - minL phi) / s.kT) with hshape
    set i_sr : List ℝ := shape.map fun sh => trapz (List.zipWith (· * ·) r sh) r with hisr
    set nax : List ℝ := zipWith3 (fun (s : Species ℝ) (sh : List ℝ) (isr : ℝ) => s.nl / lit 2 / Const.PI / isr * sh.headD (lit 0)) sp shape i_sr with hnax
    have hnax0 : ∀ v ∈ nax, v = 0 := by
      intro v hv'
      obtain ⟨s, hs, _, _, _, _, rfl⟩ := mem_zipWith3 _ _ _ _ v hv'
      simp [hsp s hs]
    set bxa := zipWith3 (fun (s : Species ℝ) (sh : List ℝ) nx =>
        zeroLast (sh.map fun v => -nx * s.q * v * Const.Q_E / Const.EPS_0)) sp shape nax with hbxa
    have hbxa0 : ∀ row ∈ bxa, ∀ v ∈ row, v = 0 := by
      intro row hrow
      obtain ⟨s, _, sh, _, nx, hnx, rfl⟩ := mem_zipWith3 _ _ _ _ row hrow
      apply zeroLast_zero
      intro v hv'
      obtain ⟨w, _, rfl⟩ := List.mem_map.mp hv'
      simp [hnax0 nx hnx]
    have hion : ∀ v ∈ colSum phi.length bxa, v = 0 := colSum_zero _ _ hbxa0
    set jrows := zipWith3 (fun (s : Species ℝ) (bx : List ℝ) (p : List ℝ × ℝ) =>
        List.zipWith (fun v c => v * s.q / s.kT * (p.2 - c) / p.2) bx (cTerm r p.1)) sp bxa (List.zip shape i_sr) with hjrows
    have hjion : ∀ v ∈ colSum phi.length jrows, v = 0 := by
      apply colSum_zero
      intro row hrow
      obtain ⟨s, _, bx, hbx, p, _, rfl⟩ := mem_zipWith3 _ _ _ _ row hrow
      intro v hv'
      obtain ⟨a, ha, c, _, rfl⟩ := mem_zipWith_exists _ _ _ v hv'
      rw [hbxa0 bx hbx a ha]; simp
    constructor
    · rw [List.getElem_zipWith]
      have : (colSum phi.length bxa)[i]'(by simp only [List.length_zipWith] at hb; omega) = 0 := hion _ (List.getElem_mem _)
      rw [this, List.getElem_zipWith]
      simp
    · obtain ⟨h1', h2', h3', e⟩ := zipWith3_getElem _ _ _ _ i hj
      rw [e]
      have : (colSum phi.length jrows)[i]'h1' = 0 := hjion _ (List.getElem_mem _)
      rw [this, List.getElem_zipWith]
      simp

/-- **the returned Newton iterate of the ion-free beam lies between two frozen-velocity Poisson potentials**: if the previous iterate lies
in `[p_min, 0]` with `E + p_min > 0` and the last correction is small, `|y| ≤ 2δ(E + φ_prev)` with `0 ≤ δ < 1` (the stopping test gives
`δ ≈ 10⁻³`), then `φ_lo ≤ φ' ≤ φ_hi`, where `φ_lo` / `φ_hi` are the finite-difference Poisson potentials of the beam with the electron velocity
frozen at `E + p_min` and the charge scaled by `1 + δ`, respectively frozen at `E` and scaled by `1 − δ` -/
theorem ionfree_iterate_between (I : BPIn ℝ) (phi philo phihi : List ℝ) (pm δ : ℝ)
    (hv : I.variant = .ebeam) (hsp : ∀ s ∈ I.sp, s.nl = 0)
    (hg : GridMP I.r) (hldu : I.ldu = fdNonuniform I.r) (hphi : phi.length = I.r.length)
    (hlo_len : philo.length = I.r.length) (hhi_len : phihi.length = I.r.length)
    (hc : I.cden.length = I.r.length) (hcz : I.cden.getLast? = some 0) (hcd : ∀ c ∈ I.cden, c ≤ 0)
    (hp : PivotsOk 0 (newtonRows I.ldu (step I phi).jd (targetFun none I.ldu phi (step I phi).b)))
    (hpm : ∀ p ∈ phi, pm ≤ p) (hp0 : ∀ p ∈ phi, p ≤ 0) (hpos : 0 < I.e_kin + pm) (hδ0 : 0 ≤ δ) (hδ1 : δ < 1)
    (hy : ∀ i (h1 : i < phi.length) (h2 : i < (step I phi).y.length), |((step I phi).y)[i]| ≤ 2 * δ * (I.e_kin + phi[i]))
    (hw : (step I phi).phi.getLast? = some 0) (hwlo : philo.getLast? = some 0) (hwhi : phihi.getLast? = some 0)
    (hlo : mulL 0 I.ldu philo = I.cden.map fun c => (1 + δ) * (-c / Real.sqrt (2 * Const.Q_E * (I.e_kin + pm) / Const.M_E) / Const.EPS_0))
    (hhi : mulL 0 I.ldu phihi = I.cden.map fun c => (1 - δ) * (-c / Real.sqrt (2 * Const.Q_E * I.e_kin / Const.M_E) / Const.EPS_0)) :
    (∀ p ∈ List.zip philo (step I phi).phi, p.1 ≤ p.2) ∧ (∀ p ∈ List.zip (step I phi).phi phihi, p.1 ≤ p.2) := by
  have hn : 0 < phi.length := by have := hg.two_le; omega
  obtain ⟨hbl, _, hjl, _⟩ := step_wall_rhs I phi hn (by omega) (fun h => absurd hv h) (fun _ => ⟨by omega, hcz⟩)
  have hldul : I.ldu.length = phi.length := by rw [hldu, fdNonuniform_length' I.r hg]; omega
  have hid := self_consistent_partial I phi hldul (by omega) (by omega) hp
  have hpl := step_phi_length I phi hn (by omega) hldul (fun h => absurd hv h) (fun _ => ⟨by omega, hcz⟩)
  have hyl : (step I phi).y.length = phi.length := by
    have e := step_is_newton I phi
    have e2 : (step I phi).y = (newton I.ldu phi (step I phi).b (step I phi).jd).2 := by rw [← e]
    rw [e2]
    simp only [newton]
    have hfl : (targetFun none I.ldu phi (step I phi).b).length = I.ldu.length := by
      rw [targetFun_eq I.ldu phi (step I phi).b none hldul (by omega)]; simp [mulL_length 0 I.ldu phi hldul]; omega
    obtain ⟨_, hl⟩ := newtonRows_b I.ldu (step I phi).jd (targetFun none I.ldu phi (step I phi).b) (by omega) (by omega)
    have hl' : (newtonRows I.ldu (step I phi).jd (targetFun none I.ldu phi (step I phi).b)).length = I.ldu.length := hl
    rw [solve_length, hl']; omega
  have key := ionfree_step_entries I phi hv hsp
  set bt := List.zipWith (· - ·) (step I phi).b (List.zipWith (· * ·) (step I phi).jd (step I phi).y) with hbt
  have hbtl : bt.length = I.r.length := by simp only [hbt, List.length_zipWith]; omega
  have hQM : (0 : ℝ) < 2 * (Const.Q_E : ℝ) / (Const.M_E : ℝ) := by
    have := Const.Q_E_pos; have := Const.M_E_pos; positivity
  have hsq : ∀ x y : ℝ, x ≤ y → Real.sqrt (2 * Const.Q_E * x / Const.M_E) ≤ Real.sqrt (2 * Const.Q_E * y / Const.M_E) := by
    intro x y hxy
    apply Real.sqrt_le_sqrt
    have e : ∀ z : ℝ, 2 * Const.Q_E * z / Const.M_E = (2 * Const.Q_E / Const.M_E) * z := fun z => by ring
    rw [e x, e y]; exact mul_le_mul_of_nonneg_left hxy hQM.le
  have hsqpos : 0 < Real.sqrt (2 * Const.Q_E * (I.e_kin + pm) / Const.M_E) := by
    apply Real.sqrt_pos.mpr
    have e : 2 * Const.Q_E * (I.e_kin + pm) / Const.M_E = (2 * Const.Q_E / Const.M_E) * (I.e_kin + pm) := by ring
    rw [e]; exact mul_pos hQM hpos
  have heps := Const.EPS_0_pos
  -- entry i of the right-hand side of the Newton identity, and its two bounds
  have hentry : ∀ i (hi : i < bt.length), ∃ (hc1 : i < I.cden.length) (hp1 : i < phi.length),
      (1 - δ) * (-I.cden[i] / Real.sqrt (2 * Const.Q_E * I.e_kin / Const.M_E) / Const.EPS_0) ≤ bt[i] ∧
      bt[i] ≤ (1 + δ) * (-I.cden[i] / Real.sqrt (2 * Const.Q_E * (I.e_kin + pm) / Const.M_E) / Const.EPS_0) := by
    intro i hi
    have hi' : i < phi.length := by omega
    refine ⟨by omega, hi', ?_⟩
    simp only [hbt, List.getElem_zipWith]
    obtain ⟨eb, ej⟩ := key i hi' (by omega) (by omega) (by omega)
    rw [eb, ej]
    have hci := hcd _ (List.getElem_mem (by omega : i < I.cden.length))
    have hpi := hpm _ (List.getElem_mem hi')
    have hpi0 := hp0 _ (List.getElem_mem hi')
    have hyi := hy i hi' (by omega)
    set E := I.e_kin + phi[i] with hE
    have hEpos : 0 < E := by linarith
    have hs1 := hsq (I.e_kin + pm) E (by linarith)
    have hs2 := hsq E I.e_kin (by linarith)
    have hsE : 0 < Real.sqrt (2 * Const.Q_E * E / Const.M_E) := lt_of_lt_of_le hsqpos hs1
    set β := -I.cden[i] / Real.sqrt (2 * Const.Q_E * E / Const.M_E) / Const.EPS_0 with hβ
    have hβ0 : 0 ≤ β := div_nonneg (div_nonneg (by linarith) hsE.le) heps.le
    have e1 : (Const.Q_E : ℝ) / Const.M_E * β / (2 * Const.Q_E * E / Const.M_E) = β / (2 * E) := by
      have := Const.Q_E_pos; have := Const.M_E_pos
      field_simp
    rw [e1]
    have e2 : β - -(β / (2 * E)) * ((step I phi).y)[i] = β * (1 + ((step I phi).y)[i] / (2 * E)) := by
      field_simp; ring
    rw [e2]
    have hε : |((step I phi).y)[i] / (2 * E)| ≤ δ := by
      rw [abs_div, abs_of_pos (by linarith : (0:ℝ) < 2 * E), div_le_iff₀ (by linarith)]
      nlinarith [hyi]
    have hεb := abs_le.mp hε
    -- β between the two frozen-velocity values
    have hβhi : -I.cden[i] / Real.sqrt (2 * Const.Q_E * I.e_kin / Const.M_E) / Const.EPS_0 ≤ β :=
      div_le_div_of_nonneg_right (div_le_div_of_nonneg_left (by linarith) hsE hs2) heps.le
    have hβlo : β ≤ -I.cden[i] / Real.sqrt (2 * Const.Q_E * (I.e_kin + pm) / Const.M_E) / Const.EPS_0 :=
      div_le_div_of_nonneg_right (div_le_div_of_nonneg_left (by linarith) hsqpos hs1) heps.le
    have hhi0 : 0 ≤ -I.cden[i] / Real.sqrt (2 * Const.Q_E * I.e_kin / Const.M_E) / Const.EPS_0 :=
      div_nonneg (div_nonneg (by linarith) (Real.sqrt_nonneg _)) heps.le
    set ε := ((step I phi).y)[i] / (2 * E) with hεdef
    set βhi := -I.cden[i] / Real.sqrt (2 * Const.Q_E * I.e_kin / Const.M_E) / Const.EPS_0 with hβhidef
    set βlo := -I.cden[i] / Real.sqrt (2 * Const.Q_E * (I.e_kin + pm) / Const.M_E) / Const.EPS_0 with hβlodef
    constructor
    · calc (1 - δ) * βhi ≤ (1 - δ) * β := mul_le_mul_of_nonneg_left hβhi (by linarith)
        _ = β * (1 - δ) := by ring
        _ ≤ β * (1 + ε) := mul_le_mul_of_nonneg_left (by linarith [hεb.1]) hβ0
    · calc β * (1 + ε) ≤ β * (1 + δ) := mul_le_mul_of_nonneg_left (by linarith [hεb.2]) hβ0
        _ = (1 + δ) * β := by ring
        _ ≤ (1 + δ) * βlo := mul_le_mul_of_nonneg_left hβlo (by linarith)
  rw [hldu] at hid hlo hhi
  constructor
  · refine fd_comparison I.r _ bt philo (step I phi).phi hg (by simp [hc]) hbtl hlo_len (by omega) hlo hid ?_ hwlo hw
    apply zip_le_of_getElem _ _ (by simp [hc, hbtl])
    intro i h1 h2
    obtain ⟨hc1, _, _, hub⟩ := hentry i h2
    rw [List.getElem_map]; exact hub
  · refine fd_comparison I.r bt _ (step I phi).phi phihi hg hbtl (by simp [hc]) (by omega) hhi_len hid hhi ?_ hw hwhi
    apply zip_le_of_getElem _ _ (by simp [hc, hbtl])
    intro i h1 h2
    obtain ⟨hc1, _, hlb, _⟩ := hentry i h1
    rw [List.getElem_map]; exact hlb

/-! ## ions raise the potential: the returned Newton iterate (on-axis-density variant) -/

theorem getD_zipWith_add (a b : List ℝ) (i : ℕ) (h : a.length = b.length) :
    (List.zipWith (· + ·) a b).getD i 0 = a.getD i 0 + b.getD i 0 := by
  simp only [List.getD_eq_getElem?_getD, List.getElem?_zipWith]
  by_cases hi : i < a.length
  · have hb : i < b.length := by omega
    simp [List.getElem?_eq_getElem hi, List.getElem?_eq_getElem hb]
  · have hb : ¬ i < b.length := by omega
    simp [List.getElem?_eq_none (by omega : a.length ≤ i), List.getElem?_eq_none (by omega : b.length ≤ i)]

/-- entry `i` of the column sum is the sum of the rows' entries -/
theorem colSum_getD (n : ℕ) (rows : List (List ℝ)) (hr : ∀ r ∈ rows, r.length = n) (i : ℕ) :
    (colSum n rows).getD i 0 = (rows.map fun r => r.getD i 0).sum := by
  unfold colSum
  have key : ∀ (rows : List (List ℝ)) (acc : List ℝ), acc.length = n → (∀ r ∈ rows, r.length = n) →
      (rows.foldl (fun acc row => List.zipWith (· + ·) acc row) acc).getD i 0 = acc.getD i 0 + (rows.map fun r => r.getD i 0).sum := by
    intro rows
    induction rows with
    | nil => intro acc _ _; simp
    | cons r rs ih =>
      intro acc ha hr
      simp only [List.foldl_cons, List.map_cons, List.sum_cons]
      rw [ih _ (by simp [ha, hr r (by simp)]) (fun r' hr' => hr r' (by simp [hr'])),
        getD_zipWith_add acc r i (by rw [ha, hr r (by simp)])]
      ring
  rw [key rows _ (by simp) hr]
  simp [List.getD_eq_getElem?_getD]
  by_cases hi : i < n
  · simp [hi]
  · simp [hi]

theorem getD_map_zero (f : ℝ → ℝ) (hf : f 0 = 0) (l : List ℝ) (i : ℕ) : (l.map f).getD i 0 = f (l.getD i 0) := by
  simp only [List.getD_eq_getElem?_getD, List.getElem?_map]
  cases l[i]? <;> simp [hf]

theorem list_sum_nonpos : ∀ (l : List ℝ), (∀ x ∈ l, x ≤ 0) → l.sum ≤ 0
  | [], _ => by simp
  | a :: t, h => by
    have := list_sum_nonpos t (fun x hx => h x (by simp [hx]))
    have := h a (by simp)
    simp only [List.sum_cons]; linarith

/-- the ion part of the right-hand side of the Newton identity, node by node: every species contributes `a·(1 + (q/kT)·y)` with `a ≤ 0` -/
theorem ion_term_nonpos (yi : ℝ) (i : ℕ) : ∀ (sp : List (Species ℝ)) (bxa : List (List ℝ)) (zp : List (List ℝ × ℝ)),
    (∀ bx ∈ bxa, bx.getD i 0 ≤ 0) → (∀ s ∈ sp, 0 ≤ 1 + s.q / s.kT * yi) →
    (bxa.map fun r => r.getD i 0).sum +
      ((zipWith3 (fun (s : Species ℝ) (bx : List ℝ) (_ : List ℝ × ℝ) => bx.map fun v => v * s.q / s.kT) sp bxa zp).map fun r => r.getD i 0).sum * yi ≤ 0 := by
  intro sp
  induction sp with
  | nil =>
    intro bxa zp hb _
    have : (bxa.map fun r => r.getD i 0).sum ≤ 0 := by
      apply list_sum_nonpos; intro x hx; obtain ⟨r, hr, rfl⟩ := List.mem_map.mp hx; exact hb r hr
    cases bxa <;> cases zp <;> simp [zipWith3] at this ⊢ <;> linarith
  | cons s ss ih =>
    intro bxa zp hb hs
    cases bxa with
    | nil => cases zp <;> simp [zipWith3]
    | cons bx bxs =>
      cases zp with
      | nil =>
        have : ((bx :: bxs).map fun r => r.getD i 0).sum ≤ 0 := by
          apply list_sum_nonpos; intro x hx; obtain ⟨r, hr, rfl⟩ := List.mem_map.mp hx; exact hb r hr
        simp only [zipWith3, List.map_nil, List.sum_nil, zero_mul, add_zero]; exact this
      | cons z zs =>
        have ih' := ih bxs zs (fun b hb' => hb b (by simp [hb'])) (fun t ht => hs t (by simp [ht]))
        simp only [zipWith3, List.map_cons, List.sum_cons]
        rw [getD_map_zero (fun v => v * s.q / s.kT) (by simp) bx i]
        have ha := hb bx (by simp)
        have hc := hs s (by simp)
        have : bx.getD i 0 + bx.getD i 0 * s.q / s.kT * yi = bx.getD i 0 * (1 + s.q / s.kT * yi) := by ring
        nlinarith [mul_nonpos_of_nonpos_of_nonneg ha hc]

theorem getD_eq_of_lt (l : List ℝ) (i : ℕ) (h : i < l.length) : l.getD i 0 = l[i] := by
  simp [List.getD_eq_getElem?_getD, h]

/-- **adding positive ions never lowers the potential — for the returned Newton iterate** (on-axis-density variant): the potential
`φ' = step φ` the solver returns lies, at every node, above the ion-free potential `φ₀` (`A φ₀ = −ρ₀/ε₀`) as soon as the last correction
satisfies `1 + (q/kT)·y ≥ 0` for every species at every node (`y ≥ −kT/q`: the correction is small against the thermal voltage, which the
stopping test provides). From the Newton identity, `A φ' = b₀ + Σ_s b_s ⊙ (1 + (q_s/kT_s) y)` with `b_s ≤ 0`. -/
theorem ions_raise_potential_iterate_onaxis (I : BPIn ℝ) (phi phi0 : List ℝ) (hv : I.variant = .onaxis)
    (hg : GridMP I.r) (hldu : I.ldu = fdNonuniform I.r)
    (hphi : phi.length = I.r.length) (hphi0 : phi0.length = I.r.length)
    (hb0 : I.b0.length = I.r.length) (hb0z : I.b0.getLast? = some 0)
    (hq : ∀ s ∈ I.sp, 0 ≤ s.q) (hn : ∀ s ∈ I.sp, 0 ≤ s.nl)
    (hp : PivotsOk 0 (newtonRows I.ldu (step I phi).jd (targetFun none I.ldu phi (step I phi).b)))
    (hy : ∀ s ∈ I.sp, ∀ yi ∈ (step I phi).y, 0 ≤ 1 + s.q / s.kT * yi)
    (hfree : mulL 0 I.ldu phi0 = I.b0)
    (hw : (step I phi).phi.getLast? = some 0) (hw0 : phi0.getLast? = some 0) :
    ∀ p ∈ List.zip phi0 (step I phi).phi, p.1 ≤ p.2 := by
  have hnpos : 0 < phi.length := by have := hg.two_le; omega
  have hstat : I.variant ≠ .ebeam → I.b0.length = phi.length ∧ I.b0.getLast? = some 0 := fun _ => ⟨by omega, hb0z⟩
  have hbeam : I.variant = .ebeam → I.cden.length = phi.length ∧ I.cden.getLast? = some 0 := fun h => by rw [hv] at h; cases h
  obtain ⟨hbl, _, hjl, _⟩ := step_wall_rhs I phi hnpos (by omega) hstat hbeam
  have hldul : I.ldu.length = phi.length := by rw [hldu, fdNonuniform_length' I.r hg]; omega
  have hid := self_consistent_partial I phi hldul (by omega) (by omega) hp
  have hpl := step_phi_length I phi hnpos (by omega) hldul hstat hbeam
  set bt := List.zipWith (· - ·) (step I phi).b (List.zipWith (· * ·) (step I phi).jd (step I phi).y) with hbt
  have hbtl : bt.length = I.r.length := by
    have := congrArg List.length hid
    rw [mulL_length 0 _ _ (by omega)] at this
    omega
  -- entries of bt against b0
  have hentry : ∀ i (h1 : i < I.b0.length) (h2 : i < bt.length), bt[i] ≤ I.b0[i] := by
    obtain ⟨variant, r, ldu, b0, cden, e_kin, sp⟩ := I
    simp only at hv hq hn hy hb0 hbl hjl ⊢
    subst hv
    intro i h1 h2
    have hiy : i < (step ⟨Variant.onaxis, r, ldu, b0, cden, e_kin, sp⟩ phi).y.length := by
      simp only [hbt, List.length_zipWith] at h2; omega
    have hyi := fun s hs => hy s hs _ (List.getElem_mem hiy)
    simp only [hbt, List.getElem_zipWith]
    generalize hY : ((step ⟨Variant.onaxis, r, ldu, b0, cden, e_kin, sp⟩ phi).y)[i] = yi at hyi
    simp only [step] at h2 hbl hjl ⊢
    set shape : List (List ℝ) := sp.map fun s => phi.map fun p => Transc.exp (-s.q * (p - phi.headD (lit 0)) / s.kT) with hshape
    have hsl := shape_len sp phi (fun s p => Transc.exp (-s.q * (p - phi.headD (lit 0)) / s.kT))
    set i_sr : List ℝ := shape.map fun sh => trapz (List.zipWith (· * ·) r sh) r
    set nax : List ℝ := zipWith3 (fun (s : Species ℝ) (_ : List ℝ) (_ : ℝ) => s.nl) sp shape i_sr with hnax
    set bxa := zipWith3 (fun (s : Species ℝ) (sh : List ℝ) nx => zeroLast (sh.map fun v => -nx * s.q * v * Const.Q_E / Const.EPS_0)) sp shape nax with hbxa
    have hB := bxa_rows phi.length hnpos sp shape nax (fun s nx v => -nx * s.q * v * Const.Q_E / Const.EPS_0) hsl
    have hbx_nonpos : ∀ bx ∈ bxa, ∀ v ∈ bx, v ≤ 0 := by
      intro bx hbx
      obtain ⟨s, hs, sh, hsh, nx, hnx, rfl⟩ := mem_zipWith3 _ _ _ _ bx hbx
      apply zeroLast_nonpos
      intro v hv'
      obtain ⟨w, hw', rfl⟩ := List.mem_map.mp hv'
      have h1' := hq s hs
      have h2' : 0 ≤ nx := by obtain ⟨s', hs', _, _, _, _, rfl⟩ := mem_zipWith3 _ _ _ _ nx hnx; exact hn s' hs'
      have h3' : 0 ≤ w := by
        rw [hshape] at hsh
        obtain ⟨s', _, rfl⟩ := List.mem_map.mp hsh
        obtain ⟨p, _, rfl⟩ := List.mem_map.mp hw'
        exact (Real.exp_pos _).le
      have : 0 ≤ nx * s.q * w * Const.Q_E / Const.EPS_0 := by
        have := Const.Q_E_pos; have := Const.EPS_0_pos; positivity
      have e : -nx * s.q * w * Const.Q_E / Const.EPS_0 = -(nx * s.q * w * Const.Q_E / Const.EPS_0) := by ring
      rw [e]; linarith
    have hbx_getD : ∀ bx ∈ bxa, bx.getD i 0 ≤ 0 := by
      intro bx hbx
      by_cases hi : i < bx.length
      · rw [getD_eq_of_lt bx i hi]; exact hbx_nonpos bx hbx _ (List.getElem_mem hi)
      · simp [List.getD_eq_getElem?_getD, List.getElem?_eq_none (by omega : bx.length ≤ i)]
    set jrows := zipWith3 (fun (s : Species ℝ) (bx : List ℝ) (_ : List ℝ × ℝ) => bx.map fun v => v * s.q / s.kT) sp bxa (List.zip shape i_sr) with hjrows
    have hJ := jrows_onaxis phi.length sp bxa (List.zip shape i_sr) hB
    have hion := ion_term_nonpos yi i sp bxa (List.zip shape i_sr) hbx_getD hyi
    rw [← colSum_getD phi.length bxa (fun r hr => (hB r hr).1) i, ← colSum_getD phi.length jrows (fun r hr => (hJ r hr).1) i] at hion
    have hS1l : (colSum phi.length bxa).length = phi.length := (colSum_last phi.length hnpos bxa hB).1
    have hS2l : (colSum phi.length jrows).length = phi.length := (colSum_last phi.length hnpos jrows hJ).1
    have hi_phi : i < phi.length := by omega
    rw [getD_eq_of_lt _ i (by omega), getD_eq_of_lt _ i (by omega)] at hion
    rw [List.getElem_zipWith, List.getElem_map]
    linarith
  rw [hldu] at hid hfree
  refine fd_comparison I.r I.b0 bt phi0 (step I phi).phi hg hb0 hbtl hphi0 (by omega) hfree hid ?_ hw0 hw
  exact zip_le_of_getElem _ _ (by omega) hentry

/-! ## heat capacity in a wide harmonic well -/

section Harmonic
open MeasureTheory Set

/-- moments of the Boltzmann weight in a harmonic well, in the variable `u = r²` (`r dr = du/2`; the factor ½ cancels in
every ratio): `∫₀^∞ u^k e^{−βu} du = k!/β^{k+1}` for `k = 0, 1, 2` -/
theorem harmonic_moments (β : ℝ) (hβ : 0 < β) :
    (∫ u in Ioi (0:ℝ), Real.exp (-(β * u))) = 1 / β ∧
    (∫ u in Ioi (0:ℝ), u * Real.exp (-(β * u))) = 1 / β ^ 2 ∧
    (∫ u in Ioi (0:ℝ), u ^ 2 * Real.exp (-(β * u))) = 2 / β ^ 3 := by
  have h1 := Real.integral_rpow_mul_exp_neg_mul_Ioi (a := 1) (r := β) one_pos hβ
  have h2 := Real.integral_rpow_mul_exp_neg_mul_Ioi (a := 2) (r := β) two_pos hβ
  have h3 := Real.integral_rpow_mul_exp_neg_mul_Ioi (a := 3) (r := β) (by norm_num) hβ
  refine ⟨?_, ?_, ?_⟩
  · have : (fun t : ℝ => t ^ ((1:ℝ) - 1) * Real.exp (-(β * t))) = fun t => Real.exp (-(β * t)) := by
      funext t; simp
    rw [this] at h1
    rw [h1, Real.Gamma_one]; simp
  · have : ∀ t ∈ Ioi (0:ℝ), t ^ ((2:ℝ) - 1) * Real.exp (-(β * t)) = t * Real.exp (-(β * t)) := by
      intro t _; norm_num
    rw [setIntegral_congr_fun measurableSet_Ioi this] at h2
    have hG2 : Real.Gamma 2 = 1 := by
      have := Real.Gamma_nat_eq_factorial 1
      norm_num at this; simpa using this
    rw [h2, hG2, Real.rpow_two]; field_simp
  · have : ∀ t ∈ Ioi (0:ℝ), t ^ ((3:ℝ) - 1) * Real.exp (-(β * t)) = t ^ 2 * Real.exp (-(β * t)) := by
      intro t ht
      have : (3:ℝ) - 1 = 2 := by norm_num
      rw [this, Real.rpow_two]
    rw [setIntegral_congr_fun measurableSet_Ioi this] at h3
    have hG : Real.Gamma 3 = 2 := by
      have := Real.Gamma_nat_eq_factorial 2
      norm_num at this; simpa using this
    rw [h3, hG]
    have : (1 / β) ^ (3:ℝ) = 1 / β ^ 3 := by
      rw [show (3:ℝ) = ((3:ℕ):ℝ) by norm_num, Real.rpow_natCast]; field_simp
    rw [this]; ring

/-- **5/2 in a wide harmonic well**: with the trap potential energy `p = q a r² = κ u` of a harmonic well, temperature `kT > 0`
and the three moments `A = ∫ p² w`, `B = ∫ p w`, `C = ∫ w` of the Boltzmann weight `w = e^{−p/kT}` taken over the whole well, the
expression `heat_capacity` evaluates, `3/2 + (A/C − B²/C²)/kT²`, is exactly `5/2`. (`A, B, C` are the limits, for a grid that is
fine and reaches far beyond the thermal radius, of the three trapezoid sums `a, b, c` in `Radial.heatCapacity`, written in the variable
`u = r²`; how fast a finite grid approaches the limit is monitored.) -/
theorem heat_capacity_harmonic_limit (κ kT : ℝ) (hκ : 0 < κ) (hT : 0 < kT) :
    let A := ∫ u in Ioi (0:ℝ), (κ * u) ^ 2 * Real.exp (-(κ * u) / kT)
    let B := ∫ u in Ioi (0:ℝ), (κ * u) * Real.exp (-(κ * u) / kT)
    let C := ∫ u in Ioi (0:ℝ), Real.exp (-(κ * u) / kT)
    3 / 2 + 1 / kT ^ 2 * (A / C - B ^ 2 / C ^ 2) = 5 / 2 := by
  intro A B C
  have hβ : 0 < κ / kT := div_pos hκ hT
  obtain ⟨m0, m1, m2⟩ := harmonic_moments (κ / kT) hβ
  have e : ∀ u : ℝ, -(κ * u) / kT = -(κ / kT * u) := fun u => by ring
  have hC : C = kT / κ := by
    show (∫ u in Ioi (0:ℝ), Real.exp (-(κ * u) / kT)) = _
    simp_rw [e]; rw [m0]; field_simp
  have hB : B = κ * (kT / κ) ^ 2 := by
    show (∫ u in Ioi (0:ℝ), (κ * u) * Real.exp (-(κ * u) / kT)) = _
    simp_rw [e, mul_assoc]; rw [integral_const_mul, m1]; field_simp
  have hA : A = κ ^ 2 * (2 * (kT / κ) ^ 3) := by
    show (∫ u in Ioi (0:ℝ), (κ * u) ^ 2 * Real.exp (-(κ * u) / kT)) = _
    simp_rw [e, mul_pow, mul_assoc]; rw [integral_const_mul, m2]; field_simp
  rw [hA, hB, hC]
  field_simp
  ring

end Harmonic

end C13
