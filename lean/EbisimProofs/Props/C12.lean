import EbisimProofs.Lemmas.Fd

/-! # C12 — radial Poisson solver: exact on quadratics, grounded at the wall, linear

Model: `Radial.solve/tdma`, `Radial.fdNonuniform/fdUniform`, `Radial.potentialNonuniform/Uniform`
(hand model of `_radial_dist.py`, tied to the code by the bit-exact correspondence of
`tools/props/c12.py`).  All statements are over ℝ and hold for every system size / grid. -/
namespace C12
open Radial Num

/-- **Thomas solver**: for every strictly diagonally dominant tridiagonal system (any size) the
returned `x` satisfies `M x = b`, row by row. -/
theorem tdma_correct (l d u b : List ℝ) (h : DiagDom (mkRows l d u b)) :
    mulTri 0 (mkRows l d u b) (tdma l d u b) = (mkRows l d u b).map (·.b) :=
  solve_correct_of_diagDom _ h

/-- strictly increasing grid starting at a non-negative radius -/
def GridOk (r : List ℝ) : Prop := r.Pairwise (· < ·) ∧ ∀ h : 0 < r.length, 0 ≤ r[0]

theorem grid_steps (r : List ℝ) (hg : GridOk r) (i : ℕ) (hi : 1 ≤ i) (h : i + 1 < r.length) :
    0 < r[i] ∧ 0 < r[i] - r[i - 1] ∧ 0 < r[i + 1] - r[i] := by
  have hp := List.pairwise_iff_getElem.mp hg.1
  have h0 : 0 ≤ r[0] := hg.2 (by omega)
  have h1 : r[0] < r[i] := hp 0 i (by omega) (by omega) (by omega)
  have h2 : r[i - 1] < r[i] := hp (i - 1) i (by omega) (by omega) (by omega)
  have h3 : r[i] < r[i + 1] := hp i (i + 1) (by omega) (by omega) (by omega)
  exact ⟨by linarith, by linarith, by linarith⟩

/-- **interior rows of the finite-difference operator annihilate constants and reproduce the
cylindrical Laplacian of r² (= 4) exactly**, on every strictly increasing grid. `b` is any
right-hand side (it does not enter `M x`). -/
theorem fd_interior_exact (r b : List ℝ) (hg : GridOk r) (hb : b.length = r.length)
    (i : ℕ) (hi : 1 ≤ i) (h : i + 1 < r.length) :
    ∃ (h1 : i < (mulTri 0 (withRhs (fdNonuniform r) b) (r.map fun _ => (1 : ℝ))).length)
      (h2 : i < (mulTri 0 (withRhs (fdNonuniform r) b) (r.map fun x => x ^ 2)).length),
      (mulTri 0 (withRhs (fdNonuniform r) b) (r.map fun _ => (1 : ℝ)))[i] = 0 ∧
      (mulTri 0 (withRhs (fdNonuniform r) b) (r.map fun x => x ^ 2))[i] = 4 := by
  obtain ⟨hlt, hrow⟩ := fdNonuniform_getElem r i hi h
  have hlen : (fdNonuniform r).length = r.length := by
    match r, h with
    | r0 :: r1 :: rest, _ => rw [fdNonuniform_length]; simp
  have hwl : (withRhs (fdNonuniform r) b).length = r.length := by
    rw [withRhs_length _ _ (by omega)]; exact hlen
  obtain ⟨hr, ha, hbb⟩ := grid_steps r hg i hi h
  have hrowi : (withRhs (fdNonuniform r) b)[i]'(by omega) =
      ⟨(fdNonuniform r)[i].1, (fdNonuniform r)[i].2.1, (fdNonuniform r)[i].2.2, b[i]'(by omega)⟩ :=
    withRhs_getElem _ _ (by omega) i hlt
  have e1 := mulTri_getElem 0 (withRhs (fdNonuniform r) b) (r.map fun _ => (1 : ℝ)) (by simp [hwl]) i hi (by simpa using h)
  have e2 := mulTri_getElem 0 (withRhs (fdNonuniform r) b) (r.map fun x => x ^ 2) (by simp [hwl]) i hi (by simpa using h)
  refine ⟨by rw [mulTri_length _ _ _ (by simp [hwl])]; simp; omega,
          by rw [mulTri_length _ _ _ (by simp [hwl])]; simp; omega, ?_, ?_⟩
  · rw [e1, hrowi, hrow]
    simp only [List.getElem_map, mul_one]
    exact fdRow_const _ _ _ hr ha hbb
  · rw [e2, hrowi, hrow]
    simp only [List.getElem_map]
    have := fdRow_quadratic r[i] (r[i] - r[i - 1]) (r[i + 1] - r[i]) hr ha hbb
    have e3 : r[i] - (r[i] - r[i - 1]) = r[i - 1] := by ring
    have e4 : r[i] + (r[i + 1] - r[i]) = r[i + 1] := by ring
    rw [e3, e4] at this
    exact this

/-- uniform grid `i h, (i+1) h, …` with `n` nodes -/
def ugrid (h : ℝ) : ℕ → ℕ → List ℝ
  | _, 0 => []
  | i, n + 1 => ((i : ℝ) * h) :: ugrid h (i + 1) n

theorem fdUni_eq_aux (h : ℝ) (hh : 0 < h) : ∀ (n i : ℕ), 1 ≤ i →
    fdUniInterior h i (ugrid h i (n + 1)) = fdInterior (((i : ℝ) - 1) * h) ((i : ℝ) * h) (ugrid h (i + 1) n) := by
  intro n
  induction n with
  | zero => intro i _; simp [ugrid, fdUniInterior, fdInterior]
  | succ n ih =>
    intro i hi
    have hipos : (0 : ℝ) < (i : ℝ) := by exact_mod_cast hi
    have := ih (i + 1) (by omega)
    simp only [ugrid] at this ⊢
    simp only [fdUniInterior, fdInterior]
    rw [this]
    have e1 : (i : ℝ) * h - ((i : ℝ) - 1) * h = h := by ring
    have e2 : ((i + 1 : ℕ) : ℝ) * h - (i : ℝ) * h = h := by push_cast; ring
    have e3 : ((i + 1 : ℕ) : ℝ) - 1 = (i : ℝ) := by push_cast; ring
    rw [e1, e2, e3, fdRow_uniform (i : ℝ) h hipos hh]
    simp

/-- **the uniform and the non-uniform construction coincide on uniform grids** `r_k = k h` -/
theorem fd_uniform_eq_nonuniform (h : ℝ) (hh : 0 < h) (n : ℕ) :
    fdUniform (ugrid h 0 (n + 2)) = fdNonuniform (ugrid h 0 (n + 2)) := by
  have := fdUni_eq_aux h hh n 1 (by omega)
  simp only [ugrid, fdUniform, fdNonuniform] at this ⊢
  have e : ((0 + 1 : ℕ) : ℝ) * h - ((0 : ℕ) : ℝ) * h = h := by push_cast; ring
  rw [e]
  congr 1
  simpa using this

/-! ### wall boundary condition -/

theorem fdInterior_getLast? (rp rc : ℝ) : ∀ rest : List ℝ,
    (fdInterior rp rc rest).getLast? = some (0, 1, 0)
  | [] => by simp [fdInterior]
  | rn :: rest => by
    have ih := fdInterior_getLast? rc rn rest
    have hne : fdInterior rc rn rest ≠ [] := by cases rest <;> simp [fdInterior]
    simp only [fdInterior]
    rw [List.getLast?_cons_of_ne_nil hne]; exact ih

theorem fdUniInterior_getLast? (dr : ℝ) : ∀ (rest : List ℝ) (i : ℕ), rest ≠ [] →
    (fdUniInterior dr i rest).getLast? = some (0, 1, 0)
  | [], _, h => absurd rfl h
  | [_], _, _ => by simp [fdUniInterior]
  | _ :: y :: rest, i, _ => by
    have ih := fdUniInterior_getLast? dr (y :: rest) (i + 1) (by simp)
    have hne : fdUniInterior dr (i + 1) (y :: rest) ≠ [] := by cases rest <;> simp [fdUniInterior]
    simp only [fdUniInterior]
    rw [List.getLast?_cons_of_ne_nil hne]; exact ih

theorem poissonRhs_getLast? : ∀ rho : List ℝ, rho ≠ [] → (poissonRhs rho).getLast? = some 0
  | [], h => absurd rfl h
  | [_], _ => by simp [poissonRhs]
  | _ :: y :: rest, _ => by
    have ih := poissonRhs_getLast? (y :: rest) (by simp)
    have hne : poissonRhs (y :: rest) ≠ [] := by cases rest <;> simp [poissonRhs]
    simp only [poissonRhs]
    rw [List.getLast?_cons_of_ne_nil hne]; exact ih

theorem poissonRhs_length : ∀ rho : List ℝ, (poissonRhs rho).length = rho.length
  | [] => rfl
  | [_] => rfl
  | _ :: y :: rest => by simp [poissonRhs, poissonRhs_length (y :: rest)]

theorem withRhs_getLast? : ∀ (c : List (ℝ × ℝ × ℝ)) (b : List ℝ) (x : ℝ × ℝ × ℝ) (y : ℝ),
    c.length = b.length → c.getLast? = some x → b.getLast? = some y →
    (withRhs c b).getLast? = some ⟨x.1, x.2.1, x.2.2, y⟩
  | [], _, _, _, _, h, _ => by simp at h
  | [c0], [b0], x, y, _, hc, hb => by
    obtain ⟨l, d, u⟩ := c0
    simp at hc hb; subst hc; subst hb; simp [withRhs]
  | [_], [], _, _, h, _, _ => by simp at h
  | [_], _ :: _ :: _, _, _, h, _, _ => by simp at h
  | _ :: _ :: _, [], _, _, h, _, _ => by simp at h
  | _ :: _ :: _, [_], _, _, h, _, _ => by simp at h
  | c0 :: c1 :: cs, b0 :: b1 :: bs, x, y, h, hc, hb => by
    obtain ⟨l, d, u⟩ := c0
    have ih := withRhs_getLast? (c1 :: cs) (b1 :: bs) x y (by simpa using h)
      (by simpa [List.getLast?_cons_cons] using hc) (by simpa [List.getLast?_cons_cons] using hb)
    have hne : withRhs (c1 :: cs) (b1 :: bs) ≠ [] := by obtain ⟨l1, d1, u1⟩ := c1; simp [withRhs]
    rw [show withRhs ((l, d, u) :: c1 :: cs) (b0 :: b1 :: bs) =
      (⟨l, d, u, b0⟩ : Row ℝ) :: withRhs (c1 :: cs) (b1 :: bs) from rfl]
    rw [List.getLast?_cons_of_ne_nil hne]; exact ih

theorem solve_getLast?_of_wall (rows : List (Row ℝ)) (w : Row ℝ) (h : rows.getLast? = some w)
    (hl : w.l = 0) (hd : w.d = 1) (hb : w.b = 0) : (solve rows).getLast? = some 0 := by
  have hne : rows ≠ [] := by intro h0; simp [h0] at h
  have hw : rows.getLast hne = w := by
    have := List.getLast?_eq_some_getLast hne; rw [this] at h; exact Option.some.inj h
  have : rows = rows.dropLast ++ [w] := by rw [← hw]; exact (List.dropLast_concat_getLast hne).symm
  rw [this]; exact solve_wall _ w hl hd hb

/-- **the potential vanishes at the outer grid point for every charge distribution**,
including charge on the last node, on every grid with at least two nodes -/
theorem wall_zero (r rho : List ℝ) (hr : 2 ≤ r.length) (hl : rho.length = r.length) :
    (potentialNonuniform r rho).getLast? = some 0 ∧ (potentialUniform r rho).getLast? = some 0 := by
  have hrho : rho ≠ [] := by intro h; simp [h] at hl; omega
  match r, hr with
  | r0 :: r1 :: rest, _ =>
    have hb := poissonRhs_getLast? rho hrho
    have hbl := poissonRhs_length rho
    constructor
    · have hc : (fdNonuniform (r0 :: r1 :: rest)).getLast? = some (0, 1, 0) := by
        simp only [fdNonuniform]
        rw [List.getLast?_cons_of_ne_nil (by cases rest <;> simp [fdInterior])]
        exact fdInterior_getLast? _ _ _
      have := withRhs_getLast? _ (poissonRhs rho) (0, 1, 0) 0
        (by rw [fdNonuniform_length, hbl, hl]; simp) hc hb
      exact solve_getLast?_of_wall _ _ this rfl rfl rfl
    · have hc : (fdUniform (r0 :: r1 :: rest)).getLast? = some (0, 1, 0) := by
        simp only [fdUniform]
        rw [List.getLast?_cons_of_ne_nil (by cases rest <;> simp [fdUniInterior])]
        exact fdUniInterior_getLast? _ _ _ (by simp)
      have hlenU : (fdUniform (r0 :: r1 :: rest)).length = rest.length + 2 := by
        have : ∀ (dr : ℝ) (l : List ℝ) (i : ℕ), (fdUniInterior dr i l).length = l.length := by
          intro dr l
          induction l with
          | nil => intro i; simp [fdUniInterior]
          | cons a t ih =>
            intro i
            cases t with
            | nil => simp [fdUniInterior]
            | cons b t' => simp only [fdUniInterior, List.length_cons]; rw [ih (i + 1)]; simp
        simp [fdUniform, this]
      have := withRhs_getLast? _ (poissonRhs rho) (0, 1, 0) 0
        (by rw [hlenU, hbl, hl]; simp) hc hb
      exact solve_getLast?_of_wall _ _ this rfl rfl rfl

/-! ### linearity in the charge -/

theorem poissonRhs_linear (α β : ℝ) : ∀ (r1 r2 : List ℝ), r1.length = r2.length →
    poissonRhs (List.zipWith (fun x y => α * x + β * y) r1 r2) =
      List.zipWith (fun x y => α * x + β * y) (poissonRhs r1) (poissonRhs r2)
  | [], [], _ => rfl
  | [_], [_], _ => by simp [poissonRhs]
  | [], _ :: _, h => by simp at h
  | _ :: _, [], h => by simp at h
  | [_], _ :: _ :: _, h => by simp at h
  | _ :: _ :: _, [_], h => by simp at h
  | x :: x' :: xs, y :: y' :: ys, h => by
    have ih := poissonRhs_linear α β (x' :: xs) (y' :: ys) (by simpa using h)
    simp only [List.zipWith_cons_cons, poissonRhs] at ih ⊢
    rw [ih]; congr 1; ring

theorem withRhs_eq_setRhs : ∀ (c : List (ℝ × ℝ × ℝ)) (b0 b : List ℝ), c.length = b0.length → b.length = b0.length →
    withRhs c b = setRhs (withRhs c b0) b
  | [], _, _, _, _ => by simp [withRhs, setRhs]
  | _ :: _, [], _, h, _ => by simp at h
  | (l, d, u) :: cs, _ :: bs0, [], _, h => by simp at h
  | (l, d, u) :: cs, _ :: bs0, b :: bs, h1, h2 => by
    simp only [withRhs, setRhs]
    rw [withRhs_eq_setRhs cs bs0 bs (by simpa using h1) (by simpa using h2)]

/-- **the potential depends linearly on the charge density** -/
theorem potential_linear (α β : ℝ) (r rho1 rho2 : List ℝ) (hr : 2 ≤ r.length)
    (h1 : rho1.length = r.length) (h2 : rho2.length = r.length) :
    potentialNonuniform r (List.zipWith (fun x y => α * x + β * y) rho1 rho2) =
      List.zipWith (fun x y => α * x + β * y) (potentialNonuniform r rho1) (potentialNonuniform r rho2) := by
  unfold potentialNonuniform
  rw [poissonRhs_linear α β rho1 rho2 (by omega)]
  have hc : (fdNonuniform r).length = r.length := by
    match r, hr with
    | r0 :: r1 :: rest, _ => rw [fdNonuniform_length]; simp
  have l1 := poissonRhs_length rho1
  have l2 := poissonRhs_length rho2
  set c := fdNonuniform r
  set b1 := poissonRhs rho1
  set b2 := poissonRhs rho2
  have hw : (withRhs c b1).length = c.length := withRhs_length c b1 (by omega)
  have e0 := withRhs_eq_setRhs c b1 (List.zipWith (fun x y => α * x + β * y) b1 b2) (by omega) (by simp; omega)
  have e1 : withRhs c b1 = setRhs (withRhs c b1) b1 := withRhs_eq_setRhs c b1 b1 (by omega) rfl
  have e2 : withRhs c b2 = setRhs (withRhs c b1) b2 := withRhs_eq_setRhs c b1 b2 (by omega) (by omega)
  have key := solve_linear α β (withRhs c b1) b1 b2 (by omega) (by omega)
  rw [← e0, ← e2, ← e1] at key
  exact key

/-! ### non-vacuity -/
example : GridOk [0, 1, 3] := by
  refine ⟨by simp [List.pairwise_cons], fun _ => by simp⟩
example : DiagDom (mkRows [0, 1] [3, 3] [1, 0] [1, 1] : List (Row ℝ)) := by
  intro r hr; simp [mkRows] at hr; rcases hr with rfl | rfl <;> norm_num

end C12
