import EbisimProofs.Lemmas.MaxPrinciple
import Mathlib.Analysis.SpecialFunctions.Log.Deriv

/-! # C12 — radial Poisson solver: exact on quadratics, grounded at the wall, linear

Model: `Radial.solve/tdma`, `Radial.fdNonuniform/fdUniform`, `Radial.potentialNonuniform/Uniform`
(hand model of `_radial_dist.py`, tied to the code by the bit-exact correspondence of
`tools/props/c12.py`).  All statements are over ℝ and hold for every system size / grid. -/
namespace C12
open Radial Num

/-- **Thomas solver**: for every strictly diagonally dominant tridiagonal system (any size) the
returned `x` satisfies `M x = b`, row by row. -/
theorem tdma_correct (l d u b : List ℝ) (h : DiagDom (mkRows l d u b)) :
    mulTri 0 (mkRows l d u b) (tdma l d u b) = (mkRows l d u b).map (·.b) :=
  solve_correct_of_diagDom _ h

/-- strictly increasing grid starting at a non-negative radius -/
def GridOk (r : List ℝ) : Prop := r.Pairwise (· < ·) ∧ ∀ h : 0 < r.length, 0 ≤ r[0]

theorem grid_steps (r : List ℝ) (hg : GridOk r) (i : ℕ) (hi : 1 ≤ i) (h : i + 1 < r.length) :
    0 < r[i] ∧ 0 < r[i] - r[i - 1] ∧ 0 < r[i + 1] - r[i] := by
  have hp := List.pairwise_iff_getElem.mp hg.1
  have h0 : 0 ≤ r[0] := hg.2 (by omega)
  have h1 : r[0] < r[i] := hp 0 i (by omega) (by omega) (by omega)
  have h2 : r[i - 1] < r[i] := hp (i - 1) i (by omega) (by omega) (by omega)
  have h3 : r[i] < r[i + 1] := hp i (i + 1) (by omega) (by omega) (by omega)
  exact ⟨by linarith, by linarith, by linarith⟩

/-- **interior rows of the finite-difference operator annihilate constants and reproduce the
cylindrical Laplacian of r² (= 4) exactly**, on every strictly increasing grid. `b` is any
right-hand side (it does not enter `M x`). -/
theorem fd_interior_exact (r b : List ℝ) (hg : GridOk r) (hb : b.length = r.length)
    (i : ℕ) (hi : 1 ≤ i) (h : i + 1 < r.length) :
    ∃ (h1 : i < (mulTri 0 (withRhs (fdNonuniform r) b) (r.map fun _ => (1 : ℝ))).length)
      (h2 : i < (mulTri 0 (withRhs (fdNonuniform r) b) (r.map fun x => x ^ 2)).length),
      (mulTri 0 (withRhs (fdNonuniform r) b) (r.map fun _ => (1 : ℝ)))[i] = 0 ∧
      (mulTri 0 (withRhs (fdNonuniform r) b) (r.map fun x => x ^ 2))[i] = 4 := by
  obtain ⟨hlt, hrow⟩ := fdNonuniform_getElem r i hi h
  have hlen : (fdNonuniform r).length = r.length := by
    match r, h with
    | r0 :: r1 :: rest, _ => rw [fdNonuniform_length]; simp
  have hwl : (withRhs (fdNonuniform r) b).length = r.length := by
    rw [withRhs_length _ _ (by omega)]; exact hlen
  obtain ⟨hr, ha, hbb⟩ := grid_steps r hg i hi h
  have hrowi : (withRhs (fdNonuniform r) b)[i]'(by omega) =
      ⟨(fdNonuniform r)[i].1, (fdNonuniform r)[i].2.1, (fdNonuniform r)[i].2.2, b[i]'(by omega)⟩ :=
    withRhs_getElem _ _ (by omega) i hlt
  have e1 := mulTri_getElem 0 (withRhs (fdNonuniform r) b) (r.map fun _ => (1 : ℝ)) (by simp [hwl]) i hi (by simpa using h)
  have e2 := mulTri_getElem 0 (withRhs (fdNonuniform r) b) (r.map fun x => x ^ 2) (by simp [hwl]) i hi (by simpa using h)
  refine ⟨by rw [mulTri_length _ _ _ (by simp [hwl])]; simp; omega,
          by rw [mulTri_length _ _ _ (by simp [hwl])]; simp; omega, ?_, ?_⟩
  · rw [e1, hrowi, hrow]
    simp only [List.getElem_map, mul_one]
    exact fdRow_const _ _ _ hr ha hbb
  · rw [e2, hrowi, hrow]
    simp only [List.getElem_map]
    have := fdRow_quadratic r[i] (r[i] - r[i - 1]) (r[i + 1] - r[i]) hr ha hbb
    have e3 : r[i] - (r[i] - r[i - 1]) = r[i - 1] := by ring
    have e4 : r[i] + (r[i + 1] - r[i]) = r[i + 1] := by ring
    rw [e3, e4] at this
    exact this

/-- uniform grid `i h, (i+1) h, …` with `n` nodes -/
def ugrid (h : ℝ) : ℕ → ℕ → List ℝ
  | _, 0 => []
  | i, n + 1 => ((i : ℝ) * h) :: ugrid h (i + 1) n

theorem fdUni_eq_aux (h : ℝ) (hh : 0 < h) : ∀ (n i : ℕ), 1 ≤ i →
    fdUniInterior h i (ugrid h i (n + 1)) = fdInterior (((i : ℝ) - 1) * h) ((i : ℝ) * h) (ugrid h (i + 1) n) := by
  intro n
  induction n with
  | zero => intro i _; simp [ugrid, fdUniInterior, fdInterior]
  | succ n ih =>
    intro i hi
    have hipos : (0 : ℝ) < (i : ℝ) := by exact_mod_cast hi
    have := ih (i + 1) (by omega)
    simp only [ugrid] at this ⊢
    simp only [fdUniInterior, fdInterior]
    rw [this]
    have e1 : (i : ℝ) * h - ((i : ℝ) - 1) * h = h := by ring
    have e2 : ((i + 1 : ℕ) : ℝ) * h - (i : ℝ) * h = h := by push_cast; ring
    have e3 : ((i + 1 : ℕ) : ℝ) - 1 = (i : ℝ) := by push_cast; ring
    rw [e1, e2, e3, fdRow_uniform (i : ℝ) h hipos hh]
    simp

/-- **the uniform and the non-uniform construction coincide on uniform grids** `r_k = k h` -/
theorem fd_uniform_eq_nonuniform (h : ℝ) (hh : 0 < h) (n : ℕ) :
    fdUniform (ugrid h 0 (n + 2)) = fdNonuniform (ugrid h 0 (n + 2)) := by
  have := fdUni_eq_aux h hh n 1 (by omega)
  simp only [ugrid, fdUniform, fdNonuniform] at this ⊢
  have e : ((0 + 1 : ℕ) : ℝ) * h - ((0 : ℕ) : ℝ) * h = h := by push_cast; ring
  rw [e]
  congr 1
  simpa using this

/-! ### wall boundary condition -/

theorem fdInterior_getLast? (rp rc : ℝ) : ∀ rest : List ℝ,
    (fdInterior rp rc rest).getLast? = some (0, 1, 0)
  | [] => by simp [fdInterior]
  | rn :: rest => by
    have ih := fdInterior_getLast? rc rn rest
    have hne : fdInterior rc rn rest ≠ [] := by cases rest <;> simp [fdInterior]
    simp only [fdInterior]
    rw [List.getLast?_cons_of_ne_nil hne]; exact ih

theorem fdUniInterior_getLast? (dr : ℝ) : ∀ (rest : List ℝ) (i : ℕ), rest ≠ [] →
    (fdUniInterior dr i rest).getLast? = some (0, 1, 0)
  | [], _, h => absurd rfl h
  | [_], _, _ => by simp [fdUniInterior]
  | _ :: y :: rest, i, _ => by
    have ih := fdUniInterior_getLast? dr (y :: rest) (i + 1) (by simp)
    have hne : fdUniInterior dr (i + 1) (y :: rest) ≠ [] := by cases rest <;> simp [fdUniInterior]
    simp only [fdUniInterior]
    rw [List.getLast?_cons_of_ne_nil hne]; exact ih

theorem poissonRhs_getLast? : ∀ rho : List ℝ, rho ≠ [] → (poissonRhs rho).getLast? = some 0
  | [], h => absurd rfl h
  | [_], _ => by simp [poissonRhs]
  | _ :: y :: rest, _ => by
    have ih := poissonRhs_getLast? (y :: rest) (by simp)
    have hne : poissonRhs (y :: rest) ≠ [] := by cases rest <;> simp [poissonRhs]
    simp only [poissonRhs]
    rw [List.getLast?_cons_of_ne_nil hne]; exact ih

theorem poissonRhs_length : ∀ rho : List ℝ, (poissonRhs rho).length = rho.length
  | [] => rfl
  | [_] => rfl
  | _ :: y :: rest => by simp [poissonRhs, poissonRhs_length (y :: rest)]

theorem withRhs_getLast? : ∀ (c : List (ℝ × ℝ × ℝ)) (b : List ℝ) (x : ℝ × ℝ × ℝ) (y : ℝ),
    c.length = b.length → c.getLast? = some x → b.getLast? = some y →
    (withRhs c b).getLast? = some ⟨x.1, x.2.1, x.2.2, y⟩
  | [], _, _, _, _, h, _ => by simp at h
  | [c0], [b0], x, y, _, hc, hb => by
    obtain ⟨l, d, u⟩ := c0
    simp at hc hb; subst hc; subst hb; simp [withRhs]
  | [_], [], _, _, h, _, _ => by simp at h
  | [_], _ :: _ :: _, _, _, h, _, _ => by simp at h
  | _ :: _ :: _, [], _, _, h, _, _ => by simp at h
  | _ :: _ :: _, [_], _, _, h, _, _ => by simp at h
  | c0 :: c1 :: cs, b0 :: b1 :: bs, x, y, h, hc, hb => by
    obtain ⟨l, d, u⟩ := c0
    have ih := withRhs_getLast? (c1 :: cs) (b1 :: bs) x y (by simpa using h)
      (by simpa [List.getLast?_cons_cons] using hc) (by simpa [List.getLast?_cons_cons] using hb)
    have hne : withRhs (c1 :: cs) (b1 :: bs) ≠ [] := by obtain ⟨l1, d1, u1⟩ := c1; simp [withRhs]
    rw [show withRhs ((l, d, u) :: c1 :: cs) (b0 :: b1 :: bs) =
      (⟨l, d, u, b0⟩ : Row ℝ) :: withRhs (c1 :: cs) (b1 :: bs) from rfl]
    rw [List.getLast?_cons_of_ne_nil hne]; exact ih

theorem solve_getLast?_of_wall (rows : List (Row ℝ)) (w : Row ℝ) (h : rows.getLast? = some w)
    (hl : w.l = 0) (hd : w.d = 1) (hb : w.b = 0) : (solve rows).getLast? = some 0 := by
  have hne : rows ≠ [] := by intro h0; simp [h0] at h
  have hw : rows.getLast hne = w := by
    have := List.getLast?_eq_some_getLast hne; rw [this] at h; exact Option.some.inj h
  have : rows = rows.dropLast ++ [w] := by rw [← hw]; exact (List.dropLast_concat_getLast hne).symm
  rw [this]; exact solve_wall _ w hl hd hb

/-- **the potential vanishes at the outer grid point for every charge distribution**,
including charge on the last node, on every grid with at least two nodes -/
theorem wall_zero (r rho : List ℝ) (hr : 2 ≤ r.length) (hl : rho.length = r.length) :
    (potentialNonuniform r rho).getLast? = some 0 ∧ (potentialUniform r rho).getLast? = some 0 := by
  have hrho : rho ≠ [] := by intro h; simp [h] at hl; omega
  match r, hr with
  | r0 :: r1 :: rest, _ =>
    have hb := poissonRhs_getLast? rho hrho
    have hbl := poissonRhs_length rho
    constructor
    · have hc : (fdNonuniform (r0 :: r1 :: rest)).getLast? = some (0, 1, 0) := by
        simp only [fdNonuniform]
        rw [List.getLast?_cons_of_ne_nil (by cases rest <;> simp [fdInterior])]
        exact fdInterior_getLast? _ _ _
      have := withRhs_getLast? _ (poissonRhs rho) (0, 1, 0) 0
        (by rw [fdNonuniform_length, hbl, hl]; simp) hc hb
      exact solve_getLast?_of_wall _ _ this rfl rfl rfl
    · have hc : (fdUniform (r0 :: r1 :: rest)).getLast? = some (0, 1, 0) := by
        simp only [fdUniform]
        rw [List.getLast?_cons_of_ne_nil (by cases rest <;> simp [fdUniInterior])]
        exact fdUniInterior_getLast? _ _ _ (by simp)
      have hlenU : (fdUniform (r0 :: r1 :: rest)).length = rest.length + 2 := by
        have : ∀ (dr : ℝ) (l : List ℝ) (i : ℕ), (fdUniInterior dr i l).length = l.length := by
          intro dr l
          induction l with
          | nil => intro i; simp [fdUniInterior]
          | cons a t ih =>
            intro i
            cases t with
            | nil => simp [fdUniInterior]
            | cons b t' => simp only [fdUniInterior, List.length_cons]; rw [ih (i + 1)]; simp
        simp [fdUniform, this]
      have := withRhs_getLast? _ (poissonRhs rho) (0, 1, 0) 0
        (by rw [hlenU, hbl, hl]; simp) hc hb
      exact solve_getLast?_of_wall _ _ this rfl rfl rfl

/-! ### linearity in the charge -/

theorem poissonRhs_linear (α β : ℝ) : ∀ (r1 r2 : List ℝ), r1.length = r2.length →
    poissonRhs (List.zipWith (fun x y => α * x + β * y) r1 r2) =
      List.zipWith (fun x y => α * x + β * y) (poissonRhs r1) (poissonRhs r2)
  | [], [], _ => rfl
  | [_], [_], _ => by simp [poissonRhs]
  | [], _ :: _, h => by simp at h
  | _ :: _, [], h => by simp at h
  | [_], _ :: _ :: _, h => by simp at h
  | _ :: _ :: _, [_], h => by simp at h
  | x :: x' :: xs, y :: y' :: ys, h => by
    have ih := poissonRhs_linear α β (x' :: xs) (y' :: ys) (by simpa using h)
    simp only [List.zipWith_cons_cons, poissonRhs] at ih ⊢
    rw [ih]; congr 1; ring

theorem withRhs_eq_setRhs : ∀ (c : List (ℝ × ℝ × ℝ)) (b0 b : List ℝ), c.length = b0.length → b.length = b0.length →
    withRhs c b = setRhs (withRhs c b0) b
  | [], _, _, _, _ => by simp [withRhs, setRhs]
  | _ :: _, [], _, h, _ => by simp at h
  | (l, d, u) :: cs, _ :: bs0, [], _, h => by simp at h
  | (l, d, u) :: cs, _ :: bs0, b :: bs, h1, h2 => by
    simp only [withRhs, setRhs]
    rw [withRhs_eq_setRhs cs bs0 bs (by simpa using h1) (by simpa using h2)]

/-- **the potential depends linearly on the charge density** -/
theorem potential_linear (α β : ℝ) (r rho1 rho2 : List ℝ) (hr : 2 ≤ r.length)
    (h1 : rho1.length = r.length) (h2 : rho2.length = r.length) :
    potentialNonuniform r (List.zipWith (fun x y => α * x + β * y) rho1 rho2) =
      List.zipWith (fun x y => α * x + β * y) (potentialNonuniform r rho1) (potentialNonuniform r rho2) := by
  unfold potentialNonuniform
  rw [poissonRhs_linear α β rho1 rho2 (by omega)]
  have hc : (fdNonuniform r).length = r.length := by
    match r, hr with
    | r0 :: r1 :: rest, _ => rw [fdNonuniform_length]; simp
  have l1 := poissonRhs_length rho1
  have l2 := poissonRhs_length rho2
  set c := fdNonuniform r
  set b1 := poissonRhs rho1
  set b2 := poissonRhs rho2
  have hw : (withRhs c b1).length = c.length := withRhs_length c b1 (by omega)
  have e0 := withRhs_eq_setRhs c b1 (List.zipWith (fun x y => α * x + β * y) b1 b2) (by omega) (by simp; omega)
  have e1 : withRhs c b1 = setRhs (withRhs c b1) b1 := withRhs_eq_setRhs c b1 b1 (by omega) rfl
  have e2 : withRhs c b2 = setRhs (withRhs c b1) b2 := withRhs_eq_setRhs c b1 b2 (by omega) (by omega)
  have key := solve_linear α β (withRhs c b1) b1 b2 (by omega) (by omega)
  rw [← e0, ← e2, ← e1] at key
  exact key

/-! ### the solver solves the (weakly dominant) finite-difference system; maximum principle -/

/-- **the computed potential solves the finite-difference Poisson system exactly** (over ℝ), on
every admissible grid and for every charge distribution: the system is only *weakly* diagonally
dominant, but the Thomas algorithm never meets a zero pivot on it -/
theorem potential_solves_fd (r rho : List ℝ) (hg : GridMP r) (hl : rho.length = r.length) :
    mulTri 0 (withRhs (fdNonuniform r) (poissonRhs rho)) (potentialNonuniform r rho) = poissonRhs rho := by
  have hP := fd_system_poisson_type r (poissonRhs rho) hg (by rw [poissonRhs_length, hl])
  have := solve_correct_of_pois _ hP
  unfold potentialNonuniform
  rw [this]
  exact withRhs_map_b _ _ (by rw [fdNonuniform_length' r hg, poissonRhs_length, hl])

/-- **discrete maximum principle for the potential**: a charge density that is nowhere positive
(electrons) gives a potential that never decreases outward and is nowhere positive; with the wall
value 0 (`wall_zero`) it is a well whose minimum is on the axis -/
theorem potential_monotone (r rho : List ℝ) (hg : GridMP r) (hl : rho.length = r.length)
    (hrho : ∀ v ∈ rho, v ≤ 0) :
    List.Pairwise (· ≤ ·) (potentialNonuniform r rho) ∧ ∀ v ∈ potentialNonuniform r rho, v ≤ 0 := by
  have hbl : (poissonRhs rho).length = r.length := by rw [poissonRhs_length, hl]
  have hP := fd_system_poisson_type r (poissonRhs rho) hg hbl
  have hB := rhsNonneg_withRhs (fdNonuniform r) (poissonRhs rho) (poissonRhs_nonneg rho hrho)
  have hsol := solve_correct_of_pois _ hP
  have hmono : List.Pairwise (· ≤ ·) (potentialNonuniform r rho) := by
    unfold potentialNonuniform
    refine mono_of_pois _ 0 _ hP hB (by rw [solve_length]) hsol ?_
    intro rw hrw x0 _
    rw [fdNonuniform_head_l r _ rw hrw]; simp
  refine ⟨hmono, ?_⟩
  have hr2 : 2 ≤ r.length := hg.two_le
  exact le_last_of_pairwise _ hmono 0 (wall_zero r rho hr2 hl).1

/-- **monotone dependence on the charge**: if `ρ₁ ≤ ρ₂` at every node then `φ₁ ≤ φ₂` at every node
(adding positive charge never lowers the potential anywhere) -/
theorem potential_mono_charge (r rho1 rho2 : List ℝ) (hg : GridMP r)
    (h1 : rho1.length = r.length) (h2 : rho2.length = r.length)
    (hle : ∀ p ∈ List.zip rho1 rho2, p.1 ≤ p.2) :
    ∀ p ∈ List.zip (potentialNonuniform r rho1) (potentialNonuniform r rho2), p.1 ≤ p.2 := by
  have hr2 : 2 ≤ r.length := hg.two_le
  have hlin := potential_linear 1 (-1) r rho1 rho2 hr2 h1 h2
  have hneg : ∀ v ∈ List.zipWith (fun x y => 1 * x + -1 * y) rho1 rho2, v ≤ 0 := by
    intro v hv
    rw [← List.map_uncurry_zip_eq_zipWith] at hv
    obtain ⟨p, hp, rfl⟩ := List.mem_map.mp hv
    have := hle p hp
    simp only [Function.uncurry]; linarith
  have hm := (potential_monotone r _ hg (by simp [h1, h2]) hneg).2
  rw [hlin] at hm
  intro p hp
  have : (fun x y : ℝ => 1 * x + -1 * y) p.1 p.2 ∈
      List.zipWith (fun x y => 1 * x + -1 * y) (potentialNonuniform r rho1) (potentialNonuniform r rho2) := by
    rw [← List.map_uncurry_zip_eq_zipWith]
    exact List.mem_map.mpr ⟨p, hp, rfl⟩
  have := hm _ this
  simp only at this; linarith

example : GridMP [0, 1, 2, 3.5, 6] := by
  simp only [GridMP, StepsOk]; norm_num

/-- **the uniform-grid potential solves its finite-difference system exactly and obeys the same maximum
principle**, for every positive step and every number of nodes -/
theorem potential_uniform_solves_fd (r0 r1 : ℝ) (rest rho : List ℝ) (h01 : r0 < r1) (hl : rho.length = rest.length + 2) :
    mulTri 0 (withRhs (fdUniform (r0 :: r1 :: rest)) (poissonRhs rho)) (potentialUniform (r0 :: r1 :: rest) rho)
      = poissonRhs rho := by
  have hP := poisRows_fdUniform r0 r1 rest (poissonRhs rho) h01 (by rw [poissonRhs_length, hl])
  have := solve_correct_of_pois _ hP
  unfold potentialUniform
  rw [this]
  exact withRhs_map_b _ _ (by rw [fdUniform_length, poissonRhs_length, hl])

theorem potential_uniform_monotone (r0 r1 : ℝ) (rest rho : List ℝ) (h01 : r0 < r1) (hl : rho.length = rest.length + 2)
    (hrho : ∀ v ∈ rho, v ≤ 0) :
    List.Pairwise (· ≤ ·) (potentialUniform (r0 :: r1 :: rest) rho) ∧ ∀ v ∈ potentialUniform (r0 :: r1 :: rest) rho, v ≤ 0 := by
  have hbl : (poissonRhs rho).length = rest.length + 2 := by rw [poissonRhs_length, hl]
  have hP := poisRows_fdUniform r0 r1 rest (poissonRhs rho) h01 hbl
  have hB := rhsNonneg_withRhs (fdUniform (r0 :: r1 :: rest)) (poissonRhs rho) (poissonRhs_nonneg rho hrho)
  have hsol := solve_correct_of_pois _ hP
  have hmono : List.Pairwise (· ≤ ·) (potentialUniform (r0 :: r1 :: rest) rho) := by
    unfold potentialUniform
    refine mono_of_pois _ 0 _ hP hB (by rw [solve_length]) hsol ?_
    intro rw hrw x0 _
    rw [fdUniform_head_l _ _ rw hrw]; simp
  exact ⟨hmono, le_last_of_pairwise _ hmono 0 (wall_zero (r0 :: r1 :: rest) rho (by simp) (by simpa using hl)).2⟩

/-! ### discrete Gauss law (uniform grids) -/

/-- row `k` (`k + 1 < l.length`) of the interior rows of the uniform construction started at node index `j` -/
theorem fdUniInterior_getElem (dr : ℝ) : ∀ (l : List ℝ) (j k : ℕ) (h : k + 1 < l.length),
    (fdUniInterior dr j l)[k]'(by rw [fdUniInterior_length]; omega) =
      ((1 - 0.5 / ((j + k : ℕ) : ℝ)) / dr ^ 2, -2 / dr ^ 2, (1 + 0.5 / ((j + k : ℕ) : ℝ)) / dr ^ 2) := by
  intro l
  induction l with
  | nil => intro j k h; simp at h
  | cons a t ih =>
    intro j k h
    cases t with
    | nil => simp at h
    | cons a' t' =>
      cases k with
      | zero => simp [fdUniInterior]
      | succ k' =>
        have := ih (j + 1) k' (by simpa using h)
        simp only [fdUniInterior, List.getElem_cons_succ]
        rw [this]
        have : j + 1 + k' = j + (k' + 1) := by omega
        rw [this]

/-- **interior rows of `fd_system_uniform_grid`**: row `i` (`1 ≤ i`, `i + 1 < n`) is
`((1 − 1/(2i))/h², −2/h², (1 + 1/(2i))/h²)` -/
theorem fdUniform_getElem (r0 r1 : ℝ) (rest : List ℝ) (i : ℕ) (hi : 1 ≤ i) (h : i + 1 < rest.length + 2) :
    (fdUniform (r0 :: r1 :: rest))[i]'(by rw [fdUniform_length]; omega) =
      ((1 - 0.5 / (i : ℝ)) / (r1 - r0) ^ 2, -2 / (r1 - r0) ^ 2, (1 + 0.5 / (i : ℝ)) / (r1 - r0) ^ 2) := by
  obtain ⟨k, rfl⟩ : ∃ k, i = k + 1 := ⟨i - 1, by omega⟩
  have hk := fdUniInterior_getElem (r1 - r0) (r1 :: rest) 1 k (by simp; omega)
  have e : fdUniform (r0 :: r1 :: rest) =
      ((0 : ℝ), -2 / (r1 - r0) ^ 2, 2 / (r1 - r0) ^ 2) :: fdUniInterior (r1 - r0) 1 (r1 :: rest) := by
    simp [fdUniform]
  rw [List.getElem_of_eq e, List.getElem_cons_succ, hk]
  have : ((1 + k : ℕ) : ℝ) = ((k + 1 : ℕ) : ℝ) := by push_cast; ring
  rw [this]

/-- **discrete Gauss law on uniform grids** (differential form): every interior row of the uniform
finite-difference system is a flux balance — the flux `(i + ½)(φ_{i+1} − φ_i)` through the cell face
outside node `i` equals the flux `(i − ½)(φ_i − φ_{i−1})` through the face inside plus the charge term
`i h² b_i` of the node (`b = −ρ/ε₀`). Outside the charge (`b_i = 0`) the flux is conserved from face
to face: `φ_{i+1} − φ_i = F/(i + ½)`, the finite-difference form of the logarithmic Gauss-law
potential (`ln((i+1)/i) = 1/(i+½) + O(i⁻³)`). -/
theorem gauss_law_uniform (r0 r1 : ℝ) (rest b x : List ℝ) (h01 : r0 < r1)
    (hb : b.length = rest.length + 2) (hx : x.length = rest.length + 2)
    (hsol : mulTri 0 (withRhs (fdUniform (r0 :: r1 :: rest)) b) x = b)
    (i : ℕ) (hi : 1 ≤ i) (h : i + 1 < rest.length + 2) :
    ((i : ℝ) + 1 / 2) * (x[i + 1] - x[i]) =
      ((i : ℝ) - 1 / 2) * (x[i] - x[i - 1]) + (i : ℝ) * (r1 - r0) ^ 2 * b[i] := by
  have hcl : (fdUniform (r0 :: r1 :: rest)).length = rest.length + 2 := fdUniform_length r0 r1 rest
  have hwl : (withRhs (fdUniform (r0 :: r1 :: rest)) b).length = rest.length + 2 := by
    rw [withRhs_length _ _ (by omega)]; exact hcl
  have hrow := withRhs_getElem (fdUniform (r0 :: r1 :: rest)) b (by omega) i (by omega)
  have hco := fdUniform_getElem r0 r1 rest i hi h
  have e := mulTri_getElem 0 (withRhs (fdUniform (r0 :: r1 :: rest)) b) x (by omega) i hi (by omega)
  have hbi : (mulTri 0 (withRhs (fdUniform (r0 :: r1 :: rest)) b) x)[i]'(by rw [mulTri_length _ _ _ (by omega)]; omega) = b[i] := by
    simp only [hsol]
  rw [e, hrow, hco] at hbi
  simp only at hbi
  have hdr : 0 < r1 - r0 := by linarith
  have hiR : (0 : ℝ) < i := by exact_mod_cast (by omega : 0 < i)
  have hd2 : (r1 - r0) ^ 2 ≠ 0 := by positivity
  have key : (i : ℝ) * (r1 - r0) ^ 2 * b[i] =
      ((i : ℝ) - 1 / 2) * x[i - 1] - 2 * (i : ℝ) * x[i] + ((i : ℝ) + 1 / 2) * x[i + 1] := by
    rw [← hbi]; field_simp; ring
  rw [key]; ring

theorem getD_eq_getElem'' (l : List ℝ) (d : ℝ) (i : ℕ) (h : i < l.length) : l.getD i d = l[i] := by
  simp [List.getD_eq_getElem?_getD, h]

/-- **discrete Gauss law, integrated form**: outside the charge (`b_i = 0` for all nodes `i ≥ K`, `K ≥ 1`) the
flux through every cell face equals the flux through the face just inside node `K`, i.e. the enclosed
charge: `(i + ½)(φ_{i+1} − φ_i) = (K − ½)(φ_K − φ_{K−1})` for every `i ≥ K` -/
theorem gauss_flux_conserved (r0 r1 : ℝ) (rest b x : List ℝ) (h01 : r0 < r1)
    (hb : b.length = rest.length + 2) (hx : x.length = rest.length + 2)
    (hsol : mulTri 0 (withRhs (fdUniform (r0 :: r1 :: rest)) b) x = b)
    (K : ℕ) (hK : 1 ≤ K) (hzero : ∀ i, K ≤ i → ∀ h : i < b.length, b[i] = 0) :
    ∀ i, K ≤ i → i + 1 < rest.length + 2 →
      ((i : ℝ) + 1 / 2) * (x.getD (i + 1) 0 - x.getD i 0) = ((K : ℝ) - 1 / 2) * (x.getD K 0 - x.getD (K - 1) 0) := by
  intro i hKi
  induction i, hKi using Nat.le_induction with
  | base =>
    intro h
    have g := gauss_law_uniform r0 r1 rest b x h01 hb hx hsol K hK h
    rw [hzero K le_rfl (by omega)] at g
    rw [getD_eq_getElem'' _ _ _ (by omega), getD_eq_getElem'' _ _ _ (by omega), getD_eq_getElem'' _ _ _ (by omega)]
    rw [g]; ring
  | succ i hKi ih =>
    intro h
    have g := gauss_law_uniform r0 r1 rest b x h01 hb hx hsol (i + 1) (by omega) h
    rw [hzero (i + 1) (by omega) (by omega)] at g
    have ih' := ih (by omega)
    rw [getD_eq_getElem'' _ _ _ (by omega), getD_eq_getElem'' _ _ _ (by omega)] at ih' ⊢
    have e1 : ((i + 1 : ℕ) : ℝ) - 1 / 2 = (i : ℝ) + 1 / 2 := by push_cast; ring
    simp only [Nat.add_sub_cancel] at g
    rw [g, e1, mul_zero, add_zero]
    exact ih'

/-- the discrete Gauss law holds for the potential `radial_potential_uniform_grid` computes — for every
charge distribution, step and number of nodes (no hypothesis on the solution: `potential_uniform_solves_fd`) -/
theorem gauss_law_potential_uniform (r0 r1 : ℝ) (rest rho : List ℝ) (h01 : r0 < r1) (hl : rho.length = rest.length + 2)
    (i : ℕ) (hi : 1 ≤ i) (h : i + 1 < rest.length + 2) :
    ((i : ℝ) + 1 / 2) * ((potentialUniform (r0 :: r1 :: rest) rho).getD (i + 1) 0 - (potentialUniform (r0 :: r1 :: rest) rho).getD i 0) =
      ((i : ℝ) - 1 / 2) * ((potentialUniform (r0 :: r1 :: rest) rho).getD i 0 - (potentialUniform (r0 :: r1 :: rest) rho).getD (i - 1) 0)
        + (i : ℝ) * (r1 - r0) ^ 2 * (poissonRhs rho).getD i 0 := by
  have hbl : (poissonRhs rho).length = rest.length + 2 := by rw [poissonRhs_length, hl]
  have hxl : (potentialUniform (r0 :: r1 :: rest) rho).length = rest.length + 2 := by
    unfold potentialUniform
    rw [solve_length, withRhs_length _ _ (by rw [fdUniform_length, hbl]), fdUniform_length]
  have g := gauss_law_uniform r0 r1 rest (poissonRhs rho) (potentialUniform (r0 :: r1 :: rest) rho) h01 hbl hxl
    (potential_uniform_solves_fd r0 r1 rest rho h01 hl) i hi h
  rw [getD_eq_getElem'' _ _ _ (by omega), getD_eq_getElem'' _ _ _ (by omega), getD_eq_getElem'' _ _ _ (by omega),
    getD_eq_getElem'' _ _ _ (by omega)]
  exact g

/-- `ln((i+1)/i)` and the finite-difference flux step `1/(i+½)` agree to third order: with `t = 1/(2i+1)`,
`(i+1)/i = (1+t)/(1−t)` and `ln(1+t) − ln(1−t) = 2t + 2t³/3 + O(t⁴)` -/
theorem log_ratio_flux_step (i : ℕ) (hi : 1 ≤ i) :
    |Real.log (((i : ℝ) + 1) / i) - 1 / ((i : ℝ) + 1 / 2)| ≤ 1 / (4 * (i : ℝ) ^ 3) := by
  have hiR : (1 : ℝ) ≤ i := by exact_mod_cast hi
  set t : ℝ := 1 / (2 * (i : ℝ) + 1) with ht
  have ht0 : 0 < t := by rw [ht]; positivity
  have ht3 : t ≤ 1 / 3 := by
    rw [ht, div_le_div_iff₀ (by positivity) (by norm_num)]; linarith
  have habs : |t| < 1 := by rw [abs_of_pos ht0]; linarith
  have habs' : |-t| < 1 := by rw [abs_neg]; exact habs
  -- (i+1)/i = (1+t)/(1-t)
  have hratio : ((i : ℝ) + 1) / i = (1 + t) / (1 - t) := by
    rw [ht]; field_simp; ring
  have h1t : 0 < 1 - t := by linarith
  have h1t' : 0 < 1 + t := by linarith
  rw [hratio, Real.log_div h1t'.ne' h1t.ne']
  have e2 : 1 / ((i : ℝ) + 1 / 2) = 2 * t := by rw [ht]; field_simp
  rw [e2]
  have b1 := Real.abs_log_sub_add_sum_range_le habs 3
  have b2 := Real.abs_log_sub_add_sum_range_le habs' 3
  simp only [Finset.sum_range_succ, Finset.sum_range_zero, abs_neg, abs_of_pos ht0] at b1 b2
  norm_num at b1 b2
  have hb1 := abs_le.mp b1
  have hb2 := abs_le.mp b2
  have hq : t ^ 4 / (1 - t) ≤ t ^ 3 / 2 := by
    rw [div_le_div_iff₀ h1t (by norm_num)]
    have : t ^ 4 * 2 = t ^ 3 * (2 * t) := by ring
    rw [this]
    apply mul_le_mul_of_nonneg_left _ (by positivity)
    linarith
  have ht3' : t ^ 3 ≤ 1 / (8 * (i : ℝ) ^ 3) := by
    rw [ht, div_pow, one_pow, div_le_div_iff₀ (by positivity) (by positivity)]
    have : 2 * (i : ℝ) ≤ 2 * i + 1 := by linarith
    calc 1 * (8 * (i : ℝ) ^ 3) = (2 * i) ^ 3 := by ring
      _ ≤ (2 * (i : ℝ) + 1) ^ 3 := by gcongr
      _ = 1 * (2 * (i : ℝ) + 1) ^ 3 := by ring
  have hfin : 1 / (4 * (i : ℝ) ^ 3) = 2 * (1 / (8 * (i : ℝ) ^ 3)) := by field_simp; ring
  rw [abs_le, hfin]
  constructor <;> nlinarith [hb1.1, hb1.2, hb2.1, hb2.2, pow_pos ht0 3]

/-- **the potential follows the logarithmic Gauss-law potential outside the charge** (uniform grids): with
`F = (K − ½)(φ_K − φ_{K−1})` the flux through the face just inside the first charge-free node `K` (the enclosed
line charge, `gauss_flux_conserved`), every step of the computed solution outside the charge differs from the
step `F·ln(r_{i+1}/r_i) = F·ln((i+1)/i)` of the logarithmic potential with that line charge by at most
`|F| / (4 i³)` — third order in the inverse node index, i.e. second-order agreement of the potentials -/
theorem gauss_log_potential (r0 r1 : ℝ) (rest b x : List ℝ) (h01 : r0 < r1)
    (hb : b.length = rest.length + 2) (hx : x.length = rest.length + 2)
    (hsol : mulTri 0 (withRhs (fdUniform (r0 :: r1 :: rest)) b) x = b)
    (K : ℕ) (hK : 1 ≤ K) (hzero : ∀ i, K ≤ i → ∀ h : i < b.length, b[i] = 0)
    (i : ℕ) (hKi : K ≤ i) (h : i + 1 < rest.length + 2) :
    |(x.getD (i + 1) 0 - x.getD i 0)
        - ((K : ℝ) - 1 / 2) * (x.getD K 0 - x.getD (K - 1) 0) * Real.log (((i : ℝ) + 1) / i)|
      ≤ |((K : ℝ) - 1 / 2) * (x.getD K 0 - x.getD (K - 1) 0)| / (4 * (i : ℝ) ^ 3) := by
  have hflux := gauss_flux_conserved r0 r1 rest b x h01 hb hx hsol K hK hzero i hKi h
  set F := ((K : ℝ) - 1 / 2) * (x.getD K 0 - x.getD (K - 1) 0) with hF
  have hi1 : 1 ≤ i := by omega
  have hpos : (0 : ℝ) < (i : ℝ) + 1 / 2 := by positivity
  have hstep : x.getD (i + 1) 0 - x.getD i 0 = F * (1 / ((i : ℝ) + 1 / 2)) := by
    rw [← hflux]; field_simp
  have hl := log_ratio_flux_step i hi1
  rw [hstep, ← mul_sub, abs_mul]
  calc |F| * |1 / ((i : ℝ) + 1 / 2) - Real.log (((i : ℝ) + 1) / i)|
      ≤ |F| * (1 / (4 * (i : ℝ) ^ 3)) :=
        mul_le_mul_of_nonneg_left (by rw [abs_sub_comm]; exact hl) (abs_nonneg _)
    _ = |F| / (4 * (i : ℝ) ^ 3) := by ring

/-- **the uniform-grid potential depends linearly on the charge density** (same statement as `potential_linear` for the uniform construction) -/
theorem potential_uniform_linear (α β : ℝ) (r0 r1 : ℝ) (rest rho1 rho2 : List ℝ)
    (h1 : rho1.length = rest.length + 2) (h2 : rho2.length = rest.length + 2) :
    potentialUniform (r0 :: r1 :: rest) (List.zipWith (fun x y => α * x + β * y) rho1 rho2) =
      List.zipWith (fun x y => α * x + β * y) (potentialUniform (r0 :: r1 :: rest) rho1) (potentialUniform (r0 :: r1 :: rest) rho2) := by
  unfold potentialUniform
  rw [poissonRhs_linear α β rho1 rho2 (by omega)]
  have hc : (fdUniform (r0 :: r1 :: rest)).length = rest.length + 2 := fdUniform_length r0 r1 rest
  have l1 := poissonRhs_length rho1
  have l2 := poissonRhs_length rho2
  set c := fdUniform (r0 :: r1 :: rest)
  set b1 := poissonRhs rho1
  set b2 := poissonRhs rho2
  have hw : (withRhs c b1).length = c.length := withRhs_length c b1 (by omega)
  have e0 := withRhs_eq_setRhs c b1 (List.zipWith (fun x y => α * x + β * y) b1 b2) (by omega) (by simp; omega)
  have e1 : withRhs c b1 = setRhs (withRhs c b1) b1 := withRhs_eq_setRhs c b1 b1 (by omega) rfl
  have e2 : withRhs c b2 = setRhs (withRhs c b1) b2 := withRhs_eq_setRhs c b1 b2 (by omega) (by omega)
  have key := solve_linear α β (withRhs c b1) b1 b2 (by omega) (by omega)
  rw [← e0, ← e2, ← e1] at key
  exact key

/-- **monotone dependence on the charge, uniform construction**: `ρ₁ ≤ ρ₂` nodewise implies `φ₁ ≤ φ₂` nodewise -/
theorem potential_uniform_mono_charge (r0 r1 : ℝ) (rest rho1 rho2 : List ℝ) (h01 : r0 < r1)
    (h1 : rho1.length = rest.length + 2) (h2 : rho2.length = rest.length + 2)
    (hle : ∀ p ∈ List.zip rho1 rho2, p.1 ≤ p.2) :
    ∀ p ∈ List.zip (potentialUniform (r0 :: r1 :: rest) rho1) (potentialUniform (r0 :: r1 :: rest) rho2), p.1 ≤ p.2 := by
  have hlin := potential_uniform_linear 1 (-1) r0 r1 rest rho1 rho2 h1 h2
  have hneg : ∀ v ∈ List.zipWith (fun x y => 1 * x + -1 * y) rho1 rho2, v ≤ 0 := by
    intro v hv
    rw [← List.map_uncurry_zip_eq_zipWith] at hv
    obtain ⟨p, hp, rfl⟩ := List.mem_map.mp hv
    have := hle p hp
    simp only [Function.uncurry]; linarith
  have hm := (potential_uniform_monotone r0 r1 rest _ h01 (by simp [h1, h2]) hneg).2
  rw [hlin] at hm
  intro p hp
  have : (fun x y : ℝ => 1 * x + -1 * y) p.1 p.2 ∈
      List.zipWith (fun x y => 1 * x + -1 * y) (potentialUniform (r0 :: r1 :: rest) rho1) (potentialUniform (r0 :: r1 :: rest) rho2) := by
    rw [← List.map_uncurry_zip_eq_zipWith]
    exact List.mem_map.mpr ⟨p, hp, rfl⟩
  have := hm _ this
  simp only at this; linarith

/-! ### non-vacuity -/
example : GridOk [0, 1, 3] := by
  refine ⟨by simp [List.pairwise_cons], fun _ => by simp⟩
example : DiagDom (mkRows [0, 1] [3, 3] [1, 0] [1, 1] : List (Row ℝ)) := by
  intro r hr; simp [mkRows] at hr; rcases hr with rfl | rfl <;> norm_num

end C12
