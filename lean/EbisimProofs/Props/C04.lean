import EbisimProofs.Props.C03

/-! # C04 — the temperature equations balance thermal energy exactly

Same model as C03 (`Adv.dnAt`, `Adv.dkTAt` over the stage arrays of `_adv_rhs`).
`T` below is the clamped temperature the kernel uses, `n_r` the *raw* density that appears in the
denominators of the temperature equations, the rates are those of the (smoothed) densities. -/
namespace C04
open Adv Num Finset Gen

/-- the temperature derivative of a non-neutral state is the documented sum of terms -/
theorem dkT_is_documented_sum (lb : List ℕ) (T : TIn ℝ) (P : PRates ℝ) (k : ℕ) (hk : k ∉ lb) :
    dkTAt lb T P k =
      (upMix T P.ei k + upHeat T P.ei k)                       -- ionisation: mixing + ionisation heating
      + (downMix T P.rr k - downHeat T P.rr k)                 -- radiative recombination: mixing − cooling
      + (downMix T P.dr k - downHeat T P.dr k)                 -- dielectronic recombination
      + (downMix T P.cx k - downHeat T P.cx k)                 -- charge exchange
      + T.sh k + T.ct k                                         -- Spitzer heating, ion–ion heat exchange
      - axCool T k - raCool T k := by                           -- evaporative cooling by escape
  simp only [dkTAt, hk, if_false, lit_real, Nat.cast_zero]; ring

/-- rate restricted to the vector (`R k` for `k < nq`, else 0): what `dn[:-1] += R[1:]` can see -/
def cut (nq : ℕ) (R : ℕ → ℝ) (k : ℕ) : ℝ := if k < nq then R k else 0

/-- **thermal energy of one state**: `T k · dn k + n_r k · dkT k`, reaction by reaction -/
theorem state_energy (nq : ℕ) (lb : List ℕ) (T : TIn ℝ) (P : PRates ℝ) (k : ℕ) (hT : T.nq = nq)
    (hk : k ∉ lb) (hk0 : k ≠ 0) (hn : T.n_r k ≠ 0) :
    T.kT k * dnAt nq lb P k + T.n_r k * dkTAt lb T P k =
      ((T.kT (k - 1) + T.ih (k - 1)) * P.ei (k - 1) - T.kT k * P.ei k)
      + ((T.kT (k + 1) - T.ih (k + 1)) * cut nq P.rr (k + 1) - T.kT k * P.rr k)
      + ((T.kT (k + 1) - T.ih (k + 1)) * cut nq P.dr (k + 1) - T.kT k * P.dr k)
      + ((T.kT (k + 1) - T.ih (k + 1)) * cut nq P.cx (k + 1) - T.kT k * P.cx k)
      + T.n_r k * (T.sh k + T.ct k) - T.kT k * (P.ax k + P.ra k) - T.n_r k * (axCool T k + raCool T k) := by
  rw [C03.dn_interior nq lb P k hk, dkT_is_documented_sum lb T P k hk]
  simp only [upMix, upHeat, downMix, downHeat, shiftUp, shiftDown, cut, hk0, if_false, hT, lit_real, Nat.cast_zero]
  by_cases h : k + 1 < nq
  · simp only [h, if_true]; field_simp; ring
  · simp only [h, if_false]; field_simp; ring

/-- **thermal-energy balance of one species.** For the block `[L, U)` of a target (`L` its neutral
row), with non-zero raw densities and the boundary rates zero (bare nucleus not ionised, following
neutral not recombining): the rate of change of `Σ n kT` over its ions equals

* the energy carried in by newly ionised neutrals `R_ei L · T L`, minus the energy carried out by ions
  recombining to neutrals `R_rec (L+1) · T (L+1)`,
* plus ionisation heating `Σ R_ei k · ih k` minus recombination cooling `Σ R_rec k · ih k`,
* plus Spitzer heating and ion–ion exchange `Σ n_r (SH + CT)`,
* minus the energy leaving with escaping ions `Σ (R_ax + R_ra) T` and the evaporative cooling term;

charge-changing reactions by themselves neither create nor destroy thermal energy (all `T`-weighted
reaction terms cancel pairwise). -/
theorem thermal_energy_balance (nq : ℕ) (lb : List ℕ) (T : TIn ℝ) (P : PRates ℝ) (L U : ℕ) (hT : T.nq = nq)
    (h : L + 2 ≤ U) (hU : U ≤ nq) (hint : ∀ k ∈ Ico (L + 1) U, k ∉ lb) (hn : ∀ k ∈ Ico (L + 1) U, T.n_r k ≠ 0)
    (hEi : P.ei (U - 1) = 0) (hRr : U < nq → P.rr U = 0) (hDr : U < nq → P.dr U = 0) (hCx : U < nq → P.cx U = 0) :
    ∑ k ∈ Ico (L + 1) U, (T.kT k * dnAt nq lb P k + T.n_r k * dkTAt lb T P k) =
      P.ei L * T.kT L - (P.rr (L + 1) + P.dr (L + 1) + P.cx (L + 1)) * T.kT (L + 1)
      + ∑ k ∈ Ico (L + 1) U, T.ih (k - 1) * P.ei (k - 1)
      - ∑ k ∈ Ico (L + 1) U, T.ih (k + 1) * (cut nq P.rr (k + 1) + cut nq P.dr (k + 1) + cut nq P.cx (k + 1))
      + ∑ k ∈ Ico (L + 1) U, T.n_r k * (T.sh k + T.ct k)
      - ∑ k ∈ Ico (L + 1) U, T.kT k * (P.ax k + P.ra k)
      - ∑ k ∈ Ico (L + 1) U, T.n_r k * (axCool T k + raCool T k) := by
  rw [sum_congr rfl fun k hk => state_energy nq lb T P k hT (hint k hk) (by simp only [mem_Ico] at hk; omega) (hn k hk)]
  -- split the sum into its seven groups
  have hsplit : ∀ (a b c d e f g : ℕ → ℝ), ∑ k ∈ Ico (L + 1) U, (a k + b k + c k + d k + e k - f k - g k) =
      ∑ k ∈ Ico (L + 1) U, a k + ∑ k ∈ Ico (L + 1) U, b k + ∑ k ∈ Ico (L + 1) U, c k + ∑ k ∈ Ico (L + 1) U, d k
        + ∑ k ∈ Ico (L + 1) U, e k - ∑ k ∈ Ico (L + 1) U, f k - ∑ k ∈ Ico (L + 1) U, g k := by
    intro a b c d e f g
    simp only [sum_sub_distrib, sum_add_distrib]
  rw [hsplit]
  rw [ei_energy_block P.ei T.kT T.ih L U (by omega)]
  -- recombination-type blocks: with the cut rate, then cut (L+1) = rate (L+1), cut U = 0
  have hrec : ∀ R : ℕ → ℝ, (U < nq → R U = 0) →
      ∑ k ∈ Ico (L + 1) U, ((T.kT (k + 1) - T.ih (k + 1)) * cut nq R (k + 1) - T.kT k * R k)
        = - T.kT (L + 1) * R (L + 1) - ∑ k ∈ Ico (L + 1) U, T.ih (k + 1) * cut nq R (k + 1) := by
    intro R hR
    have e1 : ∑ k ∈ Ico (L + 1) U, ((T.kT (k + 1) - T.ih (k + 1)) * cut nq R (k + 1) - T.kT k * R k)
        = ∑ k ∈ Ico (L + 1) U, ((T.kT (k + 1) - T.ih (k + 1)) * cut nq R (k + 1) - T.kT k * cut nq R k) := by
      apply sum_congr rfl; intro k hk
      simp only [mem_Ico] at hk
      have : k < nq := by omega
      simp [cut, this]
    rw [e1, rec_energy_block (cut nq R) T.kT T.ih L U (by omega)]
    have c1 : cut nq R U = 0 := by
      unfold cut; split_ifs with hlt
      · exact hR hlt
      · rfl
    have c2 : cut nq R (L + 1) = R (L + 1) := by
      have : L + 1 < nq := by omega
      simp [cut, this]
    rw [c1, c2]; ring
  rw [hrec P.rr hRr, hrec P.dr hDr, hrec P.cx hCx, hEi]
  simp only [mul_add, sum_add_distrib]
  ring

/-- **Spitzer heating never cools**; **escape never heats** for non-negative trap depth parameters
and temperatures (the evaporative term enters `dkT` with a minus sign) -/
theorem escape_cools (T : TIn ℝ) (k : ℕ) (he : 0 ≤ T.e_ax k ∧ 0 ≤ T.e_ra k) (hw : 0 ≤ T.w_ax k ∧ 0 ≤ T.w_ra k) (hT : 0 ≤ T.kT k) :
    0 ≤ axCool T k ∧ 0 ≤ raCool T k := by
  unfold axCool raCool
  simp only [lit_real, Nat.cast_ofNat, Nat.cast_zero]
  obtain ⟨he1, he2⟩ := he
  obtain ⟨hw1, hw2⟩ := hw
  constructor
  · split_ifs
    · positivity
    · exact le_refl _
  · split_ifs
    · positivity
    · exact le_refl _

/-- the escape frequency the kernel uses is non-negative (collision rates are) and the axial
trapping parameter is non-negative for a non-negative trap depth -/
theorem escape_inputs_nonneg (ν w kT q V : ℝ) (hν : 0 ≤ ν) (hq : 0 ≤ q) (hV : 0 ≤ V) (hkT : 0 < kT) :
    0 ≤ collisional_escape_rate ν w ∧ 0 ≤ trapping_strength_axial kT q V := by
  refine ⟨C15.escape_nonneg ν w hν, ?_⟩
  rw [C15.trapping_strength_axial_eq_spec]; unfold C15.Spec.trapAx; positivity

/-- **heat exchange flows from the hotter to the colder population**, each pairwise term of the
thermalisation sum carries the sign of `T_j − T_i` (overlap factor `f_ij = min((r_j/r_i)², 1) ≥ 0`) -/
theorem heat_flows_hot_to_cold (Ti Tj Ai Aj ν fij : ℝ) (hTi : 0 < Ti) (hTj : 0 < Tj) (hAi : 0 < Ai) (hAj : 0 < Aj)
    (hν : 0 < ν) (hf : 0 < fij) :
    (0 < fij * collisional_thermalisation Ti Tj Ai Aj ν ↔ Ti < Tj) ∧
    (fij * collisional_thermalisation Ti Tj Ai Aj ν < 0 ↔ Tj < Ti) := by
  obtain ⟨h1, h2⟩ := C15.heat_hot_to_cold Ti Tj Ai Aj ν hTi hTj hAi hAj hν
  constructor
  · rw [mul_pos_iff_of_pos_left hf]; exact h1
  · rw [mul_neg_iff]; constructor
    · rintro (⟨_, h⟩ | ⟨h, _⟩)
      · exact h2.mp h
      · linarith
    · intro h; exact Or.inl ⟨hf, h2.mpr h⟩

/-- Spitzer heating (times the non-negative overlap factor) never cools -/
theorem spitzer_never_cools (Ni Ne Ti Ee Ai qi fei : ℝ) (hf : 0 ≤ fei) : 0 ≤ spitzer_heating Ni Ne Ti Ee Ai qi * fei :=
  mul_nonneg (C15.spitzer_nonneg Ni Ne Ti Ee Ai qi) hf

-- non-vacuity
example : (∀ k ∈ Ico (0 + 1) 3, k ∉ ([0, 3] : List ℕ)) ∧ 0 + 2 ≤ 3 ∧ 3 ≤ 5 := by decide
end C04
