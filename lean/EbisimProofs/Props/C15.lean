import EbisimProofs.Lemmas.Consts
import EbisimModel.Gen.Kernels

/-! # C15 — plasma rate formulas: documented expressions and symmetries

The definitions `Gen.*` are *generated* from `ebisim/plasma.py` on every run (tools/translate.py);
the specifications in `namespace Spec` are written independently from the docstrings
(NRL formulary / Spitzer).  A change of a formula in the source therefore breaks a `…_eq_spec`
lemma (or one of the symmetry / sign theorems that are proved through it). -/
namespace C15
open Gen Num Real

namespace Spec
noncomputable section
def c : ℝ := Const.C_L
def mec2 : ℝ := Const.M_E_EV
/-- `v_e = c √(1 − (m_e c²/(m_e c² + E))²)` -/
def ve (E : ℝ) : ℝ := c * Real.sqrt (1 - (mec2 / (mec2 + E)) ^ 2)

/-- NRL e–i Coulomb logarithm: densities in cm⁻³, the three formulary regions; the fourth
region is the package's documented "rough guess"; never negative. -/
def clogEi (Ni Ne Ti Te Ai qi : ℝ) : ℝ :=
  let ne := Ne * 1e-6
  let ni := Ni * 1e-6
  let red := Ti * Const.M_E / (Ai * Const.M_P)
  max 0 (if red ≤ Te ∧ Te ≤ 10 * qi ^ 2 then 23 - Real.log (ne ^ (1/2 : ℝ) * qi * Te ^ (-(3/2) : ℝ))
    else if red ≤ 10 * qi ^ 2 ∧ 10 * qi ^ 2 ≤ Te then 24 - Real.log (ne ^ (1/2 : ℝ) / Te)
    else if Te ≤ red then 16 - Real.log (ni ^ (1/2 : ℝ) * Ti ^ (-(3/2) : ℝ) * qi ^ 2 * Ai)
    else 24 - Real.log (ne ^ (1/2 : ℝ) / Te))

/-- NRL i–i Coulomb logarithm -/
def clogIi (Ni Nj Ti Tj Ai Aj qi qj : ℝ) : ℝ :=
  23 - Real.log (qi * qj * (Ai + Aj) / (Ai * Tj + Aj * Ti)
    * ((Ni * qi ^ 2 / Ti + Nj * qj ^ 2 / Tj) * 1e-6) ^ (1/2 : ℝ))

/-- `σ_i = 4π (q_i e²/(4π ε₀ m_e))² ln Λ_ei / v_e⁴`, zero for neutrals -/
def coulombXs (Ni Ne Ti Ee Ai qi : ℝ) : ℝ :=
  if qi = 0 then 0 else
    4 * Const.PI * (qi * Const.Q_E ^ 2 / (4 * Const.PI * Const.EPS_0 * Const.M_E)) ^ 2
      * clogEi Ni Ne Ti Ee Ai qi / ve Ee ^ 4

/-- `ν_ij = 1/(4πε₀)² · 4√(2π)/3 · N_j (q_i q_j e²/m_i)² (m_i/kT_i)^{3/2} ln Λ_ij`, clamped -/
def collRate (Ni Nj Ti Tj Ai Aj qi qj : ℝ) : ℝ :=
  if Ni ≤ Const.MINIMAL_N_3D ∨ Nj ≤ Const.MINIMAL_N_3D ∨ Ti ≤ 0 ∨ Tj ≤ 0 ∨ qi = 0 ∨ qj = 0 then 0 else
    max 0 (1 / (4 * Const.PI * Const.EPS_0) ^ 2 * (4 * Real.sqrt (2 * Const.PI) / 3) * Nj
      * (qi * qj * Const.Q_E ^ 2 / (Ai * Const.M_P)) ^ 2
      * (Ai * Const.M_P / (Ti * Const.Q_E)) ^ (3/2 : ℝ) * clogIi Ni Nj Ti Tj Ai Aj qi qj)

/-- Spitzer heating `2/3 N_e v_e σ_i 2 m_e/m_i E_e`, clamped -/
def spitzer (Ni Ne Ti Ee Ai qi : ℝ) : ℝ :=
  if Ni < Const.MINIMAL_N_3D then 0 else
    max 0 (2 / 3 * Ne * ve Ee * coulombXs Ni Ne Ti Ee Ai qi * 2 * (Const.M_E / (Ai * Const.M_P)) * Ee)

/-- `2 ν_ij (m_i/m_j) (T_j − T_i) / (1 + m_i T_j/(m_j T_i))^{3/2}` -/
def thermalisation (Ti Tj Ai Aj ν : ℝ) : ℝ :=
  if Ti ≤ 0 ∨ Tj ≤ 0 then 0 else
    2 * ν * (Ai / Aj) * (Tj - Ti) / (1 + Ai * Tj / (Aj * Ti)) ^ (3/2 : ℝ)

def trapAx (T q V : ℝ) : ℝ := q * V / T
def trapRa (T q A V B r : ℝ) : ℝ := q * (V + B * r * Real.sqrt (2 * T * Const.Q_E / (3 * Const.M_P * A))) / T
/-- `3/√2 · ν · e^{-ω}/ω` with ω clamped at 0.1 -/
def escape (ν w : ℝ) : ℝ := 3 / Real.sqrt 2 * ν * Real.exp (-(max w 0.1)) / (max w 0.1)
end
end Spec

/-! ## generated definition = documented expression -/

theorem electron_velocity_eq_spec (E : ℝ) : electron_velocity E = Spec.ve E := by
  simp [electron_velocity, Spec.ve, Spec.c, Spec.mec2]

theorem clog_ei_eq_spec (Ni Ne Ti Te Ai qi : ℝ) :
    clog_ei Ni Ne Ti Te Ai qi = Spec.clogEi Ni Ne Ti Te Ai qi := by
  unfold clog_ei Spec.clogEi
  have e10 : qi * qi * (10 : ℝ) = 10 * qi ^ 2 := by ring
  have h05 : (0.5 : ℝ) = 1 / 2 := by norm_num
  have h15 : -(1.5 : ℝ) = -(3 / 2) := by norm_num
  simp only [lit_real, Transc.rpow_real, Transc.log_real, Nat.cast_ofNat, Nat.cast_zero, e10, h05, h15]
  have hm : ∀ x : ℝ, (if x < 0 then (0.0 : ℝ) else x) = max 0 x := by
    intro x; split_ifs with h
    · rw [max_eq_left h.le]; norm_num
    · rw [max_eq_right (not_lt.mp h)]
  simp only [hm]
  have e2 : ∀ a b : ℝ, a * qi * qi * b = a * qi ^ 2 * b := by intro a b; ring
  split_ifs
  · norm_num
  · norm_num
  · norm_num [e2]
  · norm_num

theorem clog_ii_eq_spec (Ni Nj Ti Tj Ai Aj qi qj : ℝ) :
    clog_ii Ni Nj Ti Tj Ai Aj qi qj = Spec.clogIi Ni Nj Ti Tj Ai Aj qi qj := by
  unfold clog_ii Spec.clogIi
  simp only [lit_real, Transc.rpow_real, Transc.log_real, Nat.cast_ofNat]
  have h05 : (0.5 : ℝ) = 1 / 2 := by norm_num
  rw [h05]
  have e : Ni * qi * qi / Ti + Nj * qj * qj / Tj = Ni * qi ^ 2 / Ti + Nj * qj ^ 2 / Tj := by ring
  rw [e]
  norm_num

theorem eq_zero_iff_le_le (q : ℝ) : (q ≤ 0 ∧ 0 ≤ q) ↔ q = 0 :=
  ⟨fun ⟨a, b⟩ => le_antisymm a b, fun h => by simp [h]⟩

theorem coulomb_xs_eq_spec (Ni Ne Ti Ee Ai qi : ℝ) :
    coulomb_xs Ni Ne Ti Ee Ai qi = Spec.coulombXs Ni Ne Ti Ee Ai qi := by
  unfold coulomb_xs Spec.coulombXs
  simp only [lit_real, powN_real, Nat.cast_ofNat, Nat.cast_zero, electron_velocity_eq_spec, clog_ei_eq_spec,
    eq_zero_iff_le_le]
  by_cases h : qi = 0
  · simp only [h, if_true]; norm_num
  · simp only [h, if_false]
    ring

theorem ion_coll_rate_eq_spec (Ni Nj Ti Tj Ai Aj qi qj : ℝ) :
    ion_coll_rate Ni Nj Ti Tj Ai Aj qi qj = Spec.collRate Ni Nj Ti Tj Ai Aj qi qj := by
  unfold ion_coll_rate Spec.collRate
  simp only [lit_real, powN_real, Nat.cast_ofNat, Nat.cast_zero, Transc.rpow_real, Transc.sqrt_real,
    clog_ii_eq_spec, max'_real, eq_zero_iff_le_le]
  have h15 : (1.5 : ℝ) = 3 / 2 := by norm_num
  by_cases h1 : Ni ≤ Const.MINIMAL_N_3D ∨ Nj ≤ Const.MINIMAL_N_3D ∨ Ti ≤ 0 ∨ Tj ≤ 0
  · have : Ni ≤ Const.MINIMAL_N_3D ∨ Nj ≤ Const.MINIMAL_N_3D ∨ Ti ≤ 0 ∨ Tj ≤ 0 ∨ qi = 0 ∨ qj = 0 := by tauto
    rw [if_pos h1, if_pos this]; norm_num
  · rw [if_neg h1]
    by_cases h2 : qi = 0 ∨ qj = 0
    · have : Ni ≤ Const.MINIMAL_N_3D ∨ Nj ≤ Const.MINIMAL_N_3D ∨ Ti ≤ 0 ∨ Tj ≤ 0 ∨ qi = 0 ∨ qj = 0 := by tauto
      rw [if_pos h2, if_pos this]; norm_num
    · have : ¬ (Ni ≤ Const.MINIMAL_N_3D ∨ Nj ≤ Const.MINIMAL_N_3D ∨ Ti ≤ 0 ∨ Tj ≤ 0 ∨ qi = 0 ∨ qj = 0) := by tauto
      rw [if_neg h2, if_neg this, max_comm, h15]
      congr 1
      ring

theorem spitzer_heating_eq_spec (Ni Ne Ti Ee Ai qi : ℝ) :
    spitzer_heating Ni Ne Ti Ee Ai qi = Spec.spitzer Ni Ne Ti Ee Ai qi := by
  unfold spitzer_heating Spec.spitzer
  simp only [lit_real, Nat.cast_ofNat, Nat.cast_zero, electron_velocity_eq_spec, coulomb_xs_eq_spec, max'_real]
  split_ifs
  · norm_num
  · congr 1; ring_nf

theorem collisional_thermalisation_eq_spec (Ti Tj Ai Aj ν : ℝ) :
    collisional_thermalisation Ti Tj Ai Aj ν = Spec.thermalisation Ti Tj Ai Aj ν := by
  unfold collisional_thermalisation Spec.thermalisation
  simp only [lit_real, Nat.cast_ofNat, Nat.cast_zero, Nat.cast_one, Transc.rpow_real]
  have h15 : (1.5 : ℝ) = 3 / 2 := by norm_num
  split_ifs
  · rfl
  · rw [h15]; ring_nf

theorem trapping_strength_axial_eq_spec (T q V : ℝ) : trapping_strength_axial T q V = Spec.trapAx T q V := rfl

theorem trapping_strength_radial_eq_spec (T q A V B r : ℝ) :
    trapping_strength_radial T q A V B r = Spec.trapRa T q A V B r := by
  simp [trapping_strength_radial, Spec.trapRa]

theorem collisional_escape_rate_eq_spec (ν w : ℝ) : collisional_escape_rate ν w = Spec.escape ν w := by
  unfold collisional_escape_rate Spec.escape
  by_cases h : w ≤ 0.1
  · simp [h, max_eq_right h]
  · have h' : (0.1 : ℝ) ≤ w := le_of_lt (not_le.mp h)
    simp [h, max_eq_left h']

/-! ## symmetries, signs, monotonicity -/

/-- the i–i Coulomb logarithm is symmetric under exchange of the species -/
theorem clog_ii_symm (Ni Nj Ti Tj Ai Aj qi qj : ℝ) :
    clog_ii Ni Nj Ti Tj Ai Aj qi qj = clog_ii Nj Ni Tj Ti Aj Ai qj qi := by
  rw [clog_ii_eq_spec, clog_ii_eq_spec]; unfold Spec.clogIi
  congr 3
  · ring
  · ring_nf

theorem clog_ei_nonneg (Ni Ne Ti Te Ai qi : ℝ) : 0 ≤ clog_ei Ni Ne Ti Te Ai qi := by
  rw [clog_ei_eq_spec]; exact le_max_left _ _

theorem coulomb_xs_zero_of_neutral (Ni Ne Ti Ee Ai : ℝ) : coulomb_xs Ni Ne Ti Ee Ai 0 = 0 := by
  rw [coulomb_xs_eq_spec]; simp [Spec.coulombXs]

theorem coulomb_xs_nonneg (Ni Ne Ti Ee Ai qi : ℝ) : 0 ≤ coulomb_xs Ni Ne Ti Ee Ai qi := by
  rw [coulomb_xs_eq_spec]; unfold Spec.coulombXs
  split_ifs
  · exact le_refl _
  · have h1 : 0 ≤ Spec.clogEi Ni Ne Ti Ee Ai qi := le_max_left _ _
    have h2 := Const.PI_pos
    positivity

theorem coll_rate_nonneg (Ni Nj Ti Tj Ai Aj qi qj : ℝ) : 0 ≤ ion_coll_rate Ni Nj Ti Tj Ai Aj qi qj := by
  rw [ion_coll_rate_eq_spec]; unfold Spec.collRate
  split_ifs
  · exact le_refl _
  · exact le_max_left _ _

theorem coll_rate_zero_of_neutral (Ni Nj Ti Tj Ai Aj q : ℝ) :
    ion_coll_rate Ni Nj Ti Tj Ai Aj 0 q = 0 ∧ ion_coll_rate Ni Nj Ti Tj Ai Aj q 0 = 0 := by
  rw [ion_coll_rate_eq_spec, ion_coll_rate_eq_spec]; simp [Spec.collRate]

theorem coll_rate_zero_of_low_density (Ni Nj Ti Tj Ai Aj qi qj : ℝ)
    (h : Ni ≤ Const.MINIMAL_N_3D ∨ Nj ≤ Const.MINIMAL_N_3D) :
    ion_coll_rate Ni Nj Ti Tj Ai Aj qi qj = 0 := by
  rw [ion_coll_rate_eq_spec]; unfold Spec.collRate
  rw [if_pos]; rcases h with h | h <;> tauto

theorem spitzer_nonneg (Ni Ne Ti Ee Ai qi : ℝ) : 0 ≤ spitzer_heating Ni Ne Ti Ee Ai qi := by
  rw [spitzer_heating_eq_spec]; unfold Spec.spitzer
  split_ifs
  · exact le_refl _
  · exact le_max_left _ _

theorem spitzer_zero_of_low_density (Ni Ne Ti Ee Ai qi : ℝ) (h : Ni < Const.MINIMAL_N_3D) :
    spitzer_heating Ni Ne Ti Ee Ai qi = 0 := by
  rw [spitzer_heating_eq_spec]; simp [Spec.spitzer, h]

/-- **Spitzer heating vanishes for neutrals** (through the Coulomb cross section) -/
theorem spitzer_zero_of_neutral (Ni Ne Ti Ee Ai : ℝ) : spitzer_heating Ni Ne Ti Ee Ai 0 = 0 := by
  unfold spitzer_heating
  rw [coulomb_xs_zero_of_neutral]
  split_ifs
  · norm_num
  · simp [max'_real]

/-- heat flows from the hotter to the colder population -/
theorem heat_hot_to_cold (Ti Tj Ai Aj ν : ℝ) (hTi : 0 < Ti) (hTj : 0 < Tj) (hAi : 0 < Ai) (hAj : 0 < Aj)
    (hν : 0 < ν) :
    (0 < collisional_thermalisation Ti Tj Ai Aj ν ↔ Ti < Tj) ∧
    (collisional_thermalisation Ti Tj Ai Aj ν < 0 ↔ Tj < Ti) := by
  rw [collisional_thermalisation_eq_spec]
  unfold Spec.thermalisation
  have h : ¬ (Ti ≤ 0 ∨ Tj ≤ 0) := by push Not; exact ⟨hTi, hTj⟩
  simp only [h, if_false]
  have hden : 0 < (1 + Ai * Tj / (Aj * Ti)) ^ (3/2 : ℝ) := Real.rpow_pos_of_pos (by positivity) _
  have hpre : 0 < 2 * ν * (Ai / Aj) := by positivity
  constructor
  · rw [div_pos_iff_of_pos_right hden, mul_pos_iff_of_pos_left hpre, sub_pos]
  · rw [div_neg_iff, or_iff_right (by intro hh; linarith [hh.2])]
    simp only [hden, and_true]
    constructor
    · intro hh; by_contra hc; push Not at hc
      have : 0 ≤ 2 * ν * (Ai / Aj) * (Tj - Ti) := mul_nonneg hpre.le (by linarith)
      linarith
    · intro hh; exact mul_neg_of_pos_of_neg hpre (by linarith)

/-- **pairwise heat exchange conserves energy**: `N_i (dT_i)_j = − N_j (dT_j)_i`, with the collision
rates of the package, including every clamped case -/
theorem heat_exchange_conserves (Ni Nj Ti Tj Ai Aj qi qj : ℝ) (hAi : 0 < Ai) (hAj : 0 < Aj) :
    Ni * collisional_thermalisation Ti Tj Ai Aj (ion_coll_rate Ni Nj Ti Tj Ai Aj qi qj) =
      -(Nj * collisional_thermalisation Tj Ti Aj Ai (ion_coll_rate Nj Ni Tj Ti Aj Ai qj qi)) := by
  rw [collisional_thermalisation_eq_spec, collisional_thermalisation_eq_spec,
    ion_coll_rate_eq_spec, ion_coll_rate_eq_spec]
  unfold Spec.thermalisation Spec.collRate
  by_cases hT : Ti ≤ 0 ∨ Tj ≤ 0
  · have hT' : Tj ≤ 0 ∨ Ti ≤ 0 := hT.symm
    simp [hT, hT']
  have hT' : ¬ (Tj ≤ 0 ∨ Ti ≤ 0) := fun h => hT h.symm
  simp only [hT, hT', if_false]
  push Not at hT
  obtain ⟨hTi, hTj⟩ := hT
  by_cases hc : Ni ≤ Const.MINIMAL_N_3D ∨ Nj ≤ Const.MINIMAL_N_3D ∨ Ti ≤ 0 ∨ Tj ≤ 0 ∨ qi = 0 ∨ qj = 0
  · have hc' : Nj ≤ Const.MINIMAL_N_3D ∨ Ni ≤ Const.MINIMAL_N_3D ∨ Tj ≤ 0 ∨ Ti ≤ 0 ∨ qj = 0 ∨ qi = 0 := by tauto
    simp [hc, hc']
  have hc' : ¬ (Nj ≤ Const.MINIMAL_N_3D ∨ Ni ≤ Const.MINIMAL_N_3D ∨ Tj ≤ 0 ∨ Ti ≤ 0 ∨ qj = 0 ∨ qi = 0) := by tauto
  simp only [hc, hc', if_false]
  push Not at hc
  obtain ⟨hNi, hNj, -, -, hqi, hqj⟩ := hc
  have hN3 := Const.MINIMAL_N_3D_pos
  have hNi0 : 0 < Ni := lt_trans hN3 hNi
  have hNj0 : 0 < Nj := lt_trans hN3 hNj
  -- the Coulomb logarithm is symmetric
  have hsym : Spec.clogIi Nj Ni Tj Ti Aj Ai qj qi = Spec.clogIi Ni Nj Ti Tj Ai Aj qi qj := by
    unfold Spec.clogIi; congr 3 <;> ring_nf
  rw [hsym]
  set L := Spec.clogIi Ni Nj Ti Tj Ai Aj qi qj
  have hQ := Const.Q_E_pos; have hP := Const.PI_pos; have hE := Const.EPS_0_pos; have hM := Const.M_P_pos
  set K : ℝ := 1 / (4 * Const.PI * Const.EPS_0) ^ 2 * (4 * Real.sqrt (2 * Const.PI) / 3) with hK
  have hKpos : 0 < K := by positivity
  -- both rates have the sign of L, so the clamps act symmetrically
  by_cases hL : L ≤ 0
  · have n1 : K * Nj * (qi * qj * Const.Q_E ^ 2 / (Ai * Const.M_P)) ^ 2 * (Ai * Const.M_P / (Ti * Const.Q_E)) ^ (3/2 : ℝ) * L ≤ 0 := by
      apply mul_nonpos_of_nonneg_of_nonpos _ hL; positivity
    have n2 : K * Ni * (qj * qi * Const.Q_E ^ 2 / (Aj * Const.M_P)) ^ 2 * (Aj * Const.M_P / (Tj * Const.Q_E)) ^ (3/2 : ℝ) * L ≤ 0 := by
      apply mul_nonpos_of_nonneg_of_nonpos _ hL; positivity
    rw [max_eq_left n1, max_eq_left n2]; simp
  · push Not at hL
    have n1 : 0 ≤ K * Nj * (qi * qj * Const.Q_E ^ 2 / (Ai * Const.M_P)) ^ 2 * (Ai * Const.M_P / (Ti * Const.Q_E)) ^ (3/2 : ℝ) * L := by
      positivity
    have n2 : 0 ≤ K * Ni * (qj * qi * Const.Q_E ^ 2 / (Aj * Const.M_P)) ^ 2 * (Aj * Const.M_P / (Tj * Const.Q_E)) ^ (3/2 : ℝ) * L := by
      positivity
    rw [max_eq_right n1, max_eq_right n2]
    have e1 : 1 + Ai * Tj / (Aj * Ti) = (Aj * Ti + Ai * Tj) / (Aj * Ti) := by field_simp
    have e2 : 1 + Aj * Ti / (Ai * Tj) = (Aj * Ti + Ai * Tj) / (Ai * Tj) := by field_simp; ring
    have hS : 0 < Aj * Ti + Ai * Tj := by positivity
    rw [e1, e2]
    rw [Real.div_rpow hS.le (by positivity), Real.div_rpow hS.le (by positivity),
        Real.div_rpow (by positivity) (by positivity), Real.div_rpow (by positivity) (by positivity),
        Real.mul_rpow hAj.le hTi.le, Real.mul_rpow hAi.le hTj.le,
        Real.mul_rpow hAi.le hM.le, Real.mul_rpow hAj.le hM.le,
        Real.mul_rpow hTi.le hQ.le, Real.mul_rpow hTj.le hQ.le]
    have hx : ∀ x : ℝ, 0 < x → x ^ (3/2 : ℝ) = x * x ^ (1/2 : ℝ) := by
      intro x hx
      rw [show (3/2 : ℝ) = 1 + 1/2 by norm_num, Real.rpow_add hx, Real.rpow_one]
    have p1 := Real.rpow_pos_of_pos hAi (1/2 : ℝ)
    have p2 := Real.rpow_pos_of_pos hAj (1/2 : ℝ)
    have p3 := Real.rpow_pos_of_pos hTi (1/2 : ℝ)
    have p4 := Real.rpow_pos_of_pos hTj (1/2 : ℝ)
    have p5 := Real.rpow_pos_of_pos hS (3/2 : ℝ)
    have p6 := Real.rpow_pos_of_pos hM (1/2 : ℝ)
    have p7 := Real.rpow_pos_of_pos hQ (1/2 : ℝ)
    rw [hx Ai hAi, hx Aj hAj, hx Ti hTi, hx Tj hTj, hx _ hM, hx _ hQ]
    field_simp
    ring

/-! ### electron velocity -/
theorem ve_pos (E : ℝ) (hE : 0 < E) : 0 < electron_velocity E := by
  rw [electron_velocity_eq_spec]; unfold Spec.ve Spec.c Spec.mec2
  have hm := Const.M_E_EV_pos; have hc := Const.C_L_pos
  apply mul_pos hc; apply Real.sqrt_pos.mpr
  have h1 : Const.M_E_EV / (Const.M_E_EV + E) < 1 := by rw [div_lt_one (by positivity)]; linarith
  have h0 : 0 < Const.M_E_EV / (Const.M_E_EV + E) := by positivity
  nlinarith

theorem ve_lt_c (E : ℝ) (hE : 0 ≤ E) : electron_velocity E < Const.C_L := by
  rw [electron_velocity_eq_spec]; unfold Spec.ve Spec.c Spec.mec2
  have hm := Const.M_E_EV_pos; have hc := Const.C_L_pos
  have h0 : 0 < Const.M_E_EV / (Const.M_E_EV + E) := by positivity
  have : Real.sqrt (1 - (Const.M_E_EV / (Const.M_E_EV + E)) ^ 2) < 1 := by
    rw [Real.sqrt_lt' one_pos]; nlinarith
  calc Const.C_L * Real.sqrt (1 - (Const.M_E_EV / (Const.M_E_EV + E)) ^ 2) < Const.C_L * 1 :=
        mul_lt_mul_of_pos_left this hc
    _ = Const.C_L := mul_one _

theorem ve_strictMono : StrictMonoOn electron_velocity (Set.Ioi (0 : ℝ)) := by
  intro a ha b hb hab
  simp only [Set.mem_Ioi] at ha hb
  rw [electron_velocity_eq_spec, electron_velocity_eq_spec]; unfold Spec.ve Spec.c Spec.mec2
  have hm := Const.M_E_EV_pos; have hc := Const.C_L_pos
  apply mul_lt_mul_of_pos_left _ hc
  apply Real.sqrt_lt_sqrt
  · have h1 : Const.M_E_EV / (Const.M_E_EV + a) < 1 := by rw [div_lt_one (by positivity)]; linarith
    have h0 : 0 < Const.M_E_EV / (Const.M_E_EV + a) := by positivity
    nlinarith
  · have hlt : Const.M_E_EV / (Const.M_E_EV + b) < Const.M_E_EV / (Const.M_E_EV + a) :=
      div_lt_div_of_pos_left hm (by positivity) (by linarith)
    have h0 : 0 < Const.M_E_EV / (Const.M_E_EV + b) := by positivity
    nlinarith

/-! ### escape rate -/
theorem escape_nonneg (ν w : ℝ) (hν : 0 ≤ ν) : 0 ≤ collisional_escape_rate ν w := by
  rw [collisional_escape_rate_eq_spec]; unfold Spec.escape
  have : (0:ℝ) < max w 0.1 := lt_of_lt_of_le (by norm_num) (le_max_right _ _)
  positivity

theorem escape_const_below_clamp (ν w : ℝ) (h : w ≤ 0.1) :
    collisional_escape_rate ν w = collisional_escape_rate ν 0.1 := by
  simp [collisional_escape_rate_eq_spec, Spec.escape, max_eq_right h]

theorem escape_antitone (ν : ℝ) (hν : 0 ≤ ν) : Antitone (collisional_escape_rate ν) := by
  intro w1 w2 h12
  rw [collisional_escape_rate_eq_spec, collisional_escape_rate_eq_spec]; unfold Spec.escape
  have hm : max w1 0.1 ≤ max w2 0.1 := max_le_max h12 le_rfl
  have h1 : (0:ℝ) < max w1 0.1 := lt_of_lt_of_le (by norm_num) (le_max_right _ _)
  have h2 : 0 < max w2 0.1 := lt_of_lt_of_le h1 hm
  have he : Real.exp (-(max w2 0.1)) ≤ Real.exp (-(max w1 0.1)) := Real.exp_le_exp.mpr (by linarith)
  have key : Real.exp (-(max w2 0.1)) / max w2 0.1 ≤ Real.exp (-(max w1 0.1)) / max w1 0.1 :=
    calc Real.exp (-(max w2 0.1)) / max w2 0.1 ≤ Real.exp (-(max w1 0.1)) / max w2 0.1 :=
          div_le_div_of_nonneg_right he h2.le
      _ ≤ Real.exp (-(max w1 0.1)) / max w1 0.1 := div_le_div_of_nonneg_left (Real.exp_pos _).le h1 hm
  have hk : 0 ≤ 3 / Real.sqrt 2 * ν := by positivity
  calc 3 / Real.sqrt 2 * ν * Real.exp (-(max w2 0.1)) / max w2 0.1
      = 3 / Real.sqrt 2 * ν * (Real.exp (-(max w2 0.1)) / max w2 0.1) := by ring
    _ ≤ 3 / Real.sqrt 2 * ν * (Real.exp (-(max w1 0.1)) / max w1 0.1) := mul_le_mul_of_nonneg_left key hk
    _ = 3 / Real.sqrt 2 * ν * Real.exp (-(max w1 0.1)) / max w1 0.1 := by ring

/-! ### non-vacuity: the hypotheses are satisfiable by ordinary plasma parameters -/
example : (0:ℝ) < 40 ∧ (0:ℝ) < 12 ∧ ¬ ((1e10:ℝ) ≤ Const.MINIMAL_N_3D) := by
  refine ⟨by norm_num, by norm_num, ?_⟩; unfold Const.MINIMAL_N_3D; norm_num

end C15
