import EbisimProofs.Lemmas.Consts
import EbisimModel.Model.Xs
import Mathlib.Analysis.SpecialFunctions.Gaussian.GaussianIntegral
import Mathlib.MeasureTheory.Group.Integral
import Mathlib.Analysis.Real.Pi.Bounds
import Mathlib.Analysis.Complex.ExponentialBounds

/-! # C09 — DR cross sections are strength-preserving Gaussians of the requested width

`Gen.normpdf` is *generated* from `xs._normpdf`; `Xs.drTerm/drSlot/drxsVec` is the hand model of
`drxs_vec` (bit-identical to the compiled kernel); the resonance tables are regenerated from the
csv files on every run.  NB: over ℝ the generated `PI` is the decimal literal 3.141592653589793,
not `Real.pi`; the strength integral therefore equals the tabulated strength times
`κ = √(π / PI)` with `|κ − 1| < 10⁻¹⁵` — this is stated, not hidden. -/
namespace C09
open Xs Num Gen Real MeasureTheory

/-- documented normal pdf with the package's constant `PI` -/
noncomputable def Spec.normpdf (x mu sigma : ℝ) : ℝ :=
  Real.exp (-(x - mu) ^ 2 / (2 * sigma ^ 2)) / (2 * Const.PI * sigma ^ 2) ^ (1/2 : ℝ)

theorem normpdf_eq_spec (x mu sigma : ℝ) : normpdf x mu sigma = Spec.normpdf x mu sigma := by
  unfold normpdf Spec.normpdf
  simp only [lit_real, powN_real, Transc.exp_real, Transc.rpow_real, Nat.cast_ofNat]
  norm_num

/-- `κ = √(π/PI)`: the only deviation of the integral from 1 -/
noncomputable def kappa : ℝ := Real.sqrt (Real.pi / Const.PI)

theorem kappa_near_one : |kappa - 1| < 1e-15 := by
  unfold kappa
  have h1 := Real.pi_gt_d20
  have h2 := Real.pi_lt_d20
  have hP : (Const.PI : ℝ) = 3.141592653589793 := rfl
  have hlo : (1 - 1e-15 : ℝ) ^ 2 < Real.pi / Const.PI := by
    rw [hP, lt_div_iff₀ (by norm_num)]; nlinarith
  have hhi : Real.pi / Const.PI < (1 + 1e-15 : ℝ) ^ 2 := by
    rw [hP, div_lt_iff₀ (by norm_num)]; nlinarith
  have s1 : (1 - 1e-15 : ℝ) < Real.sqrt (Real.pi / Const.PI) := by
    rw [Real.lt_sqrt (by norm_num)]; exact hlo
  have s2 : Real.sqrt (Real.pi / Const.PI) < 1 + 1e-15 := by
    rw [Real.sqrt_lt' (by norm_num)]; exact hhi
  rw [abs_lt]; constructor <;> linarith

theorem normpdf_integrable (mu sigma : ℝ) (hs : 0 < sigma) : Integrable (fun x => Spec.normpdf x mu sigma) := by
  unfold Spec.normpdf
  apply Integrable.div_const
  have hb : 0 < 1 / (2 * sigma ^ 2) := by positivity
  have h := (integrable_exp_neg_mul_sq hb).comp_sub_right mu
  refine h.congr (Filter.Eventually.of_forall fun x => ?_)
  simp only [Function.comp]
  congr 1; ring

/-- **the Gaussian integrates to `κ ≈ 1` for every width** (`1` up to the 16-digit value of π) -/
theorem normpdf_integral (mu sigma : ℝ) (hs : 0 < sigma) : ∫ x : ℝ, Spec.normpdf x mu sigma = kappa := by
  unfold Spec.normpdf
  rw [integral_div]
  have h1 : ∫ x : ℝ, Real.exp (-(x - mu) ^ 2 / (2 * sigma ^ 2)) = ∫ x : ℝ, Real.exp (-(1 / (2 * sigma ^ 2)) * x ^ 2) := by
    rw [← integral_sub_right_eq_self (fun x => Real.exp (-(1 / (2 * sigma ^ 2)) * x ^ 2)) mu]
    congr 1; funext x; congr 1; ring
  rw [h1, integral_gaussian]
  have hP := Const.PI_pos
  have hpos : 0 < 2 * Const.PI * sigma ^ 2 := by positivity
  rw [← Real.sqrt_eq_rpow, ← Real.sqrt_div (by positivity)]
  unfold kappa
  congr 1
  field_simp

/-- maximum at the resonance energy, and only there -/
theorem normpdf_max (x mu sigma : ℝ) (hs : 0 < sigma) :
    Spec.normpdf x mu sigma ≤ Spec.normpdf mu mu sigma ∧ (Spec.normpdf x mu sigma = Spec.normpdf mu mu sigma ↔ x = mu) := by
  unfold Spec.normpdf
  have hP := Const.PI_pos
  have hden : 0 < (2 * Const.PI * sigma ^ 2) ^ (1/2 : ℝ) := Real.rpow_pos_of_pos (by positivity) _
  have harg : -(x - mu) ^ 2 / (2 * sigma ^ 2) ≤ 0 := by
    apply div_nonpos_of_nonpos_of_nonneg <;> nlinarith [sq_nonneg (x - mu), sq_nonneg sigma]
  have h0 : -(mu - mu) ^ 2 / (2 * sigma ^ 2) = 0 := by simp
  rw [h0, Real.exp_zero]
  constructor
  · exact div_le_div_of_nonneg_right (Real.exp_le_one_iff.mpr harg) hden.le
  · rw [div_left_inj' hden.ne', Real.exp_eq_one_iff]
    constructor
    · intro h
      have h2 : 0 < 2 * sigma ^ 2 := by positivity
      rw [div_eq_zero_iff] at h
      rcases h with h | h
      · have : (x - mu) ^ 2 = 0 := by linarith
        have := pow_eq_zero_iff (n := 2) (by norm_num) |>.mp this
        linarith
      · exact absurd h h2.ne'
    · intro h; simp [h]

/-- half maximum exactly at `μ ± σ √(2 ln 2)` -/
theorem normpdf_half_width (mu sigma : ℝ) (hs : 0 < sigma) (s : ℝ) (hsgn : s = 1 ∨ s = -1) :
    Spec.normpdf (mu + s * sigma * Real.sqrt (2 * Real.log 2)) mu sigma = Spec.normpdf mu mu sigma / 2 := by
  unfold Spec.normpdf
  have hl : 0 ≤ 2 * Real.log 2 := by have := Real.log_pos (show (1:ℝ) < 2 by norm_num); linarith
  have hsq : (mu + s * sigma * Real.sqrt (2 * Real.log 2) - mu) ^ 2 = sigma ^ 2 * (2 * Real.log 2) := by
    have hs2 : s ^ 2 = 1 := by rcases hsgn with h | h <;> simp [h]
    have : (mu + s * sigma * Real.sqrt (2 * Real.log 2) - mu) ^ 2 = s ^ 2 * sigma ^ 2 * (Real.sqrt (2 * Real.log 2)) ^ 2 := by ring
    rw [this, hs2, Real.sq_sqrt hl]; ring
  rw [hsq]
  have e1 : -(sigma ^ 2 * (2 * Real.log 2)) / (2 * sigma ^ 2) = -Real.log 2 := by field_simp
  have e2 : -(mu - mu) ^ 2 / (2 * sigma ^ 2) = 0 := by simp
  rw [e1, e2, Real.exp_neg, Real.exp_log (by norm_num), Real.exp_zero]
  ring

/-- the constant 2.35482 of `drxs_vec` equals 2√(2 ln 2) to better than 10⁻⁷ relative: an isolated
resonance has full width at half maximum `w (1 + ε)`, `|ε| < 10⁻⁷` -/
theorem fwhm_constant : |2 * Real.sqrt (2 * Real.log 2) / 2.35482 - 1| < 1e-7 := by
  have h := Real.log_two_near_10
  rw [abs_sub_le_iff] at h
  obtain ⟨h1, h2⟩ := h
  set s := Real.sqrt (2 * Real.log 2) with hs
  have hpos : 0 ≤ 2 * Real.log 2 := by linarith
  have hsq : s ^ 2 = 2 * Real.log 2 := Real.sq_sqrt hpos
  have hs0 : 0 ≤ s := Real.sqrt_nonneg _
  have lo : (1.17741 : ℝ) - 1e-7 < s := by
    by_contra hc; push Not at hc
    have : s ^ 2 ≤ (1.17741 - 1e-7) ^ 2 := by nlinarith
    nlinarith
  have hi : s < (1.17741 : ℝ) + 1e-7 := by
    by_contra hc; push Not at hc
    have : (1.17741 + 1e-7 : ℝ) ^ 2 ≤ s ^ 2 := by nlinarith
    nlinarith
  rw [abs_lt]
  constructor
  · rw [lt_sub_iff_add_lt, lt_div_iff₀ (by norm_num)]; nlinarith
  · rw [sub_lt_iff_lt_add, div_lt_iff₀ (by norm_num)]; nlinarith

/-- full width at half maximum of the Gaussian the model uses for requested width `w` -/
theorem fwhm_of_width (w : ℝ) (hw : 0 < w) :
    |2 * (w / 2.35482) * Real.sqrt (2 * Real.log 2) - w| < 1e-7 * w := by
  have h := fwhm_constant
  have e : 2 * (w / 2.35482) * Real.sqrt (2 * Real.log 2) - w = w * (2 * Real.sqrt (2 * Real.log 2) / 2.35482 - 1) := by ring
  rw [e, abs_mul, abs_of_pos hw, mul_comm]
  exact mul_lt_mul_of_pos_right h hw

/-! ## the accumulation loop is a filtered sum -/

/-- sum of the contributions of the rows with charge state `q` -/
noncomputable def Spec.drSum (E sig : ℝ) (q : ℕ) : List (ℕ × ℕ × ℕ) → ℝ
  | [] => 0
  | (cs, er, st) :: r => (if cs = q then drTerm E sig er st else 0) + Spec.drSum E sig q r

theorem drSlot_eq_sum (E sig : ℝ) (q : ℕ) : ∀ (rows : List (ℕ × ℕ × ℕ)) (acc : ℝ),
    drSlot E sig q rows acc = acc + Spec.drSum E sig q rows := by
  intro rows
  induction rows with
  | nil => intro acc; simp [drSlot, Spec.drSum]
  | cons r rs ih =>
    intro acc
    obtain ⟨cs, er, st⟩ := r
    simp only [drSlot, Spec.drSum]
    rw [ih]
    split_ifs <;> ring

theorem drTerm_eq (E sig : ℝ) (er st : ℕ) :
    drTerm E sig er st = (ofScaled st scStr : ℝ) * Spec.normpdf E (ofScaled er scEres) sig * 1e-24 := by
  simp [drTerm, normpdf_eq_spec]

theorem normpdf_nonneg (x mu sigma : ℝ) : 0 ≤ Spec.normpdf x mu sigma := by
  unfold Spec.normpdf
  have hP := Const.PI_pos
  have : 0 ≤ (2 * Const.PI * sigma ^ 2) ^ (1/2 : ℝ) := Real.rpow_nonneg (by positivity) _
  positivity

theorem drSum_nonneg (E sig : ℝ) (q : ℕ) : ∀ rows, 0 ≤ Spec.drSum E sig q rows := by
  intro rows
  induction rows with
  | nil => simp [Spec.drSum]
  | cons r rs ih =>
    obtain ⟨cs, er, st⟩ := r
    simp only [Spec.drSum]
    have : 0 ≤ drTerm E sig er st := by
      rw [drTerm_eq]
      have := normpdf_nonneg E (ofScaled er scEres) sig
      have h2 : (0 : ℝ) ≤ ofScaled st scStr := by rw [ofScaled_real]; positivity
      positivity
    split_ifs <;> linarith

/-- tabulated strength of charge state `q` (in 1e-24 m² eV) -/
noncomputable def Spec.strength (q : ℕ) : List (ℕ × ℕ × ℕ) → ℝ
  | [] => 0
  | (cs, _, st) :: r => (if cs = q then (ofScaled st scStr : ℝ) else 0) + Spec.strength q r

theorem drSum_integrable (sig : ℝ) (hs : 0 < sig) (q : ℕ) : ∀ rows, Integrable (fun E => Spec.drSum E sig q rows) := by
  intro rows
  induction rows with
  | nil => simp [Spec.drSum]
  | cons r rs ih =>
    obtain ⟨cs, er, st⟩ := r
    simp only [Spec.drSum]
    apply Integrable.add _ ih
    split_ifs
    · simp only [drTerm_eq]
      exact ((normpdf_integrable _ sig hs).const_mul _).mul_const _
    · simp

/-- **strength preservation**: the integral over energy of the charge-state cross section equals
the sum of the tabulated strengths (× 1e-24) times `κ`, independently of the width -/
theorem dr_strength_preserved (sig : ℝ) (hs : 0 < sig) (q : ℕ) : ∀ rows,
    ∫ E : ℝ, Spec.drSum E sig q rows = Spec.strength q rows * 1e-24 * kappa := by
  intro rows
  induction rows with
  | nil => simp [Spec.drSum, Spec.strength]
  | cons r rs ih =>
    obtain ⟨cs, er, st⟩ := r
    simp only [Spec.drSum, Spec.strength]
    rw [integral_add _ (drSum_integrable sig hs q rs), ih]
    · split_ifs
      · simp only [drTerm_eq]
        rw [integral_mul_const, integral_const_mul, normpdf_integral _ _ hs]; ring
      · simp
    · split_ifs
      · simp only [drTerm_eq]
        exact ((normpdf_integrable _ sig hs).const_mul _).mul_const _
      · simp

/-! ## table facts over all 12012 resonances -/

def rowsOkB (Z : ℕ) : List (ℕ × ℕ × ℕ) → Bool
  | [] => true
  | (cs, er, _) :: r => (Nat.ble 1 cs && Nat.ble cs Z && Nat.blt 0 er) && rowsOkB Z r

def allOkB : ℕ → Bool
  | 0 => true
  | z + 1 => rowsOkB (z + 1) (dr (z + 1)) && allOkB z

theorem tables_ok : allOkB 105 = true := by decide +kernel

theorem allOkB_sound : ∀ n, allOkB n = true → ∀ z, 1 ≤ z → z ≤ n → rowsOkB z (dr z) = true := by
  intro n
  induction n with
  | zero => intro _ z h1 h2; omega
  | succ m ih =>
    intro hb z h1 h2
    simp only [allOkB, Bool.and_eq_true] at hb
    by_cases hz : z = m + 1
    · subst hz; exact hb.1
    · exact ih hb.2 z h1 (by omega)

/-- **resonances are only ever assigned to charge states `1…Z`, at positive energies** -/
theorem dr_table_facts (Z : ℕ) (hZ1 : 1 ≤ Z) (hZ : Z ≤ 105) :
    ∀ r ∈ dr Z, 1 ≤ r.1 ∧ r.1 ≤ Z ∧ 0 < r.2.1 := by
  have h := allOkB_sound 105 tables_ok Z hZ1 hZ
  have : ∀ rows, rowsOkB Z rows = true → ∀ r ∈ rows, 1 ≤ r.1 ∧ r.1 ≤ Z ∧ 0 < r.2.1 := by
    intro rows
    induction rows with
    | nil => intro _ r hr; simp at hr
    | cons x xs ih =>
      intro hb r hr
      obtain ⟨cs, er, st⟩ := x
      simp only [rowsOkB, Bool.and_eq_true, Nat.ble_eq, Nat.blt_eq] at hb
      rcases List.mem_cons.mp hr with rfl | hr'
      · exact ⟨hb.1.1.1, hb.1.1.2, hb.1.2⟩
      · exact ih hb.2 r hr'
  exact this _ h

theorem drSum_zero_of_no_row (E sig : ℝ) (q : ℕ) : ∀ rows : List (ℕ × ℕ × ℕ), (∀ r ∈ rows, r.1 ≠ q) →
    Spec.drSum E sig q rows = 0 := by
  intro rows
  induction rows with
  | nil => intro _; simp [Spec.drSum]
  | cons x xs ih =>
    intro h
    obtain ⟨cs, er, st⟩ := x
    have hne : cs ≠ q := h (cs, er, st) (by simp)
    simp only [Spec.drSum, hne, if_false, zero_add]
    exact ih (fun r hr => h r (by simp [hr]))

/-! ## the cross-section vector -/

/-- **C09 main theorem**: for every element, every `E`, every width, the vector has `Z+1` entries;
entry `q` is the sum of the Gaussians of the resonances tabulated for charge state `q`, hence
non-negative; the neutral entry is exactly 0. -/
theorem dr_main (Z : ℕ) (hZ1 : 1 ≤ Z) (hZ : Z ≤ 105) (E w : ℝ) :
    (drxsVec Z E w).length = Z + 1 ∧
    (∀ q (h : q < (drxsVec Z E w).length), (drxsVec Z E w)[q] = Spec.drSum E (w / 2.35482) q (dr Z) ∧ 0 ≤ (drxsVec Z E w)[q]) ∧
    (drxsVec Z E w)[0]? = some 0 := by
  have hget : ∀ q (h : q < (drxsVec Z E w).length), (drxsVec Z E w)[q] = Spec.drSum E (w / 2.35482) q (dr Z) := by
    intro q h
    simp only [drxsVec, List.getElem_map, List.getElem_range]
    rw [drSlot_eq_sum]; simp
  refine ⟨by simp [drxsVec], fun q h => ⟨hget q h, ?_⟩, ?_⟩
  · rw [hget q h]; exact drSum_nonneg _ _ _ _
  · have h0 : 0 < (drxsVec Z E w).length := by simp [drxsVec]
    rw [List.getElem?_eq_getElem h0, hget 0 h0]
    rw [drSum_zero_of_no_row]
    intro r hr
    have := (dr_table_facts Z hZ1 hZ r hr).1
    omega

/-- **identically zero for elements without data** -/
theorem dr_no_data_zero (Z : ℕ) (h : dr Z = []) (E w : ℝ) : ∀ x ∈ drxsVec Z E w, x = 0 := by
  intro x hx
  simp only [drxsVec, h, List.mem_map, List.mem_range] at hx
  obtain ⟨q, _, rfl⟩ := hx
  simp [drSlot]

/-- 14 elements have no resonance data, 91 do -/
def countEmpty : ℕ → ℕ
  | 0 => 0
  | z + 1 => (if (dr (z + 1)).isEmpty then 1 else 0) + countEmpty z
theorem no_data_count : countEmpty 105 = 14 := by decide +kernel

-- non-vacuity: hydrogen has no data, iron has
example : dr 1 = [] := by decide +kernel
example : (dr 26).isEmpty = false := by decide +kernel
end C09
