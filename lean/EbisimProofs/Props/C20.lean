import EbisimProofs.Lemmas.Consts
import EbisimModel.Model.Beam

/-! # C20 — electron-beam space-charge estimate: self-consistent, continuous potential

`Gen.characteristic_potential`, `Gen.herrmann_radius` are generated from `beams.py`;
`Beam.loop/multip/correction` is the hand model of the fixed-point loop and of the profile. -/
namespace C20
open Beam Num Gen Real

/-! ## documented formulas -/

/-- `φ₀ = I / (4π ε₀ v_e)` -/
noncomputable def Spec.charPot (I E : ℝ) : ℝ := I / (4 * Const.PI * Const.EPS_0 * electron_velocity E)
noncomputable def Spec.s1 (I b_d E : ℝ) : ℝ := Const.M_E * I / (Const.PI * Const.EPS_0 * Const.Q_E * electron_velocity E * b_d ^ 2)
noncomputable def Spec.s2 (t_c r_c b_d : ℝ) : ℝ := 8 * Const.K_B * t_c * Const.M_E * r_c ^ 2 / (Const.Q_E ^ 2 * b_d ^ 2)
noncomputable def Spec.s3 (b_c r_c b_d : ℝ) : ℝ := b_c ^ 2 * r_c ^ 4 / b_d ^ 2
/-- Herrmann radius `√(s₁ + √(s₁² + s₂ + s₃))` -/
noncomputable def Spec.herrmann (s1 s2 s3 : ℝ) : ℝ := Real.sqrt (s1 + Real.sqrt (s1 ^ 2 + s2 + s3))

theorem charPot_eq_spec (B : Params ℝ) (E : ℝ) : cpot B E = Spec.charPot B.cur E := by
  simp [cpot, characteristic_potential, Spec.charPot]

theorem herrmann_eq_spec (B : Params ℝ) (E : ℝ) :
    herr B E = Spec.herrmann (Spec.s1 B.cur B.b_d E) (Spec.s2 B.t_c B.r_c B.b_d) (Spec.s3 B.b_c B.r_c B.b_d) := by
  simp [herr, herrmann_radius, Spec.herrmann, Spec.s1, Spec.s2, Spec.s3]

/-- **the Herrmann radius is never smaller than the Brillouin radius** `√(2 s₁)` -/
theorem herrmann_ge_brillouin (s1 s2 s3 : ℝ) (h1 : 0 ≤ s1) (h2 : 0 ≤ s2) (h3 : 0 ≤ s3) :
    Real.sqrt (2 * s1) ≤ Spec.herrmann s1 s2 s3 := by
  unfold Spec.herrmann
  apply Real.sqrt_le_sqrt
  have : s1 ≤ Real.sqrt (s1 ^ 2 + s2 + s3) := by
    calc s1 = Real.sqrt (s1 ^ 2) := (Real.sqrt_sq h1).symm
      _ ≤ Real.sqrt (s1 ^ 2 + s2 + s3) := Real.sqrt_le_sqrt (by linarith)
  linarith

theorem herrmann_mono (s1 s2 s2' s3 s3' : ℝ) (h2 : s2 ≤ s2') (h3 : s3 ≤ s3') :
    Spec.herrmann s1 s2 s3 ≤ Spec.herrmann s1 s2' s3' := by
  unfold Spec.herrmann
  apply Real.sqrt_le_sqrt
  have := Real.sqrt_le_sqrt (show s1 ^ 2 + s2 + s3 ≤ s1 ^ 2 + s2' + s3' by linarith)
  linarith

/-- **the Herrmann radius does not shrink when cathode temperature, cathode field or cathode radius
grow** (all quantities non-negative, `b_d ≠ 0` not even needed) -/
theorem herrmann_mono_cathode (B B' : Params ℝ) (E : ℝ)
    (hcur : B'.cur = B.cur) (hbd : B'.b_d = B.b_d)
    (ht : B.t_c ≤ B'.t_c) (ht0 : 0 ≤ B.t_c) (hb : B.b_c ≤ B'.b_c) (hb0 : 0 ≤ B.b_c) (hr : B.r_c ≤ B'.r_c) (hr0 : 0 ≤ B.r_c) :
    herr B E ≤ herr B' E := by
  rw [herrmann_eq_spec, herrmann_eq_spec, hcur, hbd]
  apply herrmann_mono
  · unfold Spec.s2
    have hK := Const.K_B_pos; have hM := Const.M_E_pos; have hQ := Const.Q_E_pos
    apply div_le_div_of_nonneg_right _ (by positivity)
    have h1 : B.r_c ^ 2 ≤ B'.r_c ^ 2 := pow_le_pow_left₀ hr0 hr 2
    have : 8 * Const.K_B * B.t_c * Const.M_E * B.r_c ^ 2 ≤ 8 * Const.K_B * B'.t_c * Const.M_E * B.r_c ^ 2 := by
      apply mul_le_mul_of_nonneg_right _ (by positivity)
      apply mul_le_mul_of_nonneg_right _ hM.le
      exact mul_le_mul_of_nonneg_left ht (by positivity)
    refine le_trans this ?_
    apply mul_le_mul_of_nonneg_left h1
    have : 0 ≤ B'.t_c := le_trans ht0 ht
    positivity
  · unfold Spec.s3
    apply div_le_div_of_nonneg_right _ (by positivity)
    have h1 : B.b_c ^ 2 ≤ B'.b_c ^ 2 := pow_le_pow_left₀ hb0 hb 2
    have h2 : B.r_c ^ 4 ≤ B'.r_c ^ 4 := pow_le_pow_left₀ hr0 hr 4
    exact mul_le_mul h1 h2 (by positivity) (by positivity)

/-! ## the fixed-point loop -/

/-- what holds of a state produced by the loop body -/
def Consistent (B : Params ℝ) (e_kin : ℝ) (s : LoopState ℝ) : Prop :=
  s.r_e = herr B (e_kin + s.old) ∧ s.phi0 = cpot B (e_kin + s.old) ∧
  s.new = s.phi0 * (2 * Real.log (s.r_e / B.r_d) - 1)

theorem body_consistent (B : Params ℝ) (e_kin : ℝ) (s : LoopState ℝ) : Consistent B e_kin (body B e_kin s) := by
  simp [Consistent, body]

theorem loop_spec (B : Params ℝ) (e_kin : ℝ) : ∀ (fuel : ℕ) (s : LoopState ℝ),
    (Consistent B e_kin s ∨ Beam.guard s) →
    let r := loop B e_kin fuel s
    r.exhausted = true ∨ (Consistent B e_kin r ∧ ¬ Beam.guard r) := by
  intro fuel
  induction fuel with
  | zero => intro s _; simp [loop]
  | succ k ih =>
    intro s hs
    simp only [loop]
    split_ifs with hg
    · exact ih (body B e_kin s) (Or.inl (body_consistent B e_kin s))
    · rcases hs with hc | hgu
      · by_cases he : s.exhausted = true
        · exact Or.inl he
        · exact Or.inr ⟨hc, hg⟩
      · exact absurd hgu hg

/-- **exit condition**: when the loop leaves (fuel not exhausted), the returned on-axis value is
`φ₀(E+φ_old) (2 ln(r_H(E+φ_old)/r_d) − 1)` with Herrmann radius and characteristic potential
evaluated at the energy corrected by the previous iterate, and `(new − old)/new ≤ 10⁻⁶`:
the value reproduces itself under the fixed-point map to 10⁻⁶ relative. (That the quotient is not
negative — monotone approach — is monitored, not proved: `fixed_point_partial`.) -/
theorem fixed_point_partial (B : Params ℝ) (e_kin : ℝ) (fuel : ℕ) :
    let r := loop B e_kin fuel init
    r.exhausted = true ∨
      (r.r_e = herr B (e_kin + r.old) ∧ r.phi0 = cpot B (e_kin + r.old) ∧
       r.new = r.phi0 * (2 * Real.log (r.r_e / B.r_d) - 1) ∧ (r.new - r.old) / r.new ≤ 1e-6) := by
  have hg : Beam.guard (init : LoopState ℝ) := by simp [Beam.guard, init]; norm_num
  rcases loop_spec B e_kin fuel init (Or.inr hg) with h | ⟨⟨h1, h2, h3⟩, h4⟩
  · exact Or.inl h
  · refine Or.inr ⟨h1, h2, h3, ?_⟩
    simpa [Beam.guard] using h4

/-! ## the radial profile -/

/-- **continuous at the beam edge** -/
theorem profile_continuous (B : Params ℝ) (r_e : ℝ) (hre : 0 < r_e) :
    2 * Real.log (r_e / B.r_d) + (r_e / r_e) ^ 2 - 1 = multip B r_e r_e := by
  simp [multip, div_self hre.ne']

/-- **zero at the drift tube** -/
theorem profile_zero_at_tube (B : Params ℝ) (r_e : ℝ) (hrd : 0 < B.r_d) (h : r_e ≤ B.r_d) : multip B r_e B.r_d = 0 := by
  simp [multip, not_lt.mpr h, div_self hrd.ne']

/-- **negative inside the tube** (so `φ₀ · multip < 0` for `φ₀ > 0`) -/
theorem profile_neg (B : Params ℝ) (r_e r : ℝ) (hre : 0 < r_e) (hed : r_e < B.r_d) (hr0 : 0 ≤ r) (hrd : r < B.r_d) :
    multip B r_e r < 0 := by
  have hd : 0 < B.r_d := lt_trans hre hed
  unfold multip
  simp only [lit_real, powN_real, Transc.log_real, Nat.cast_ofNat, Nat.cast_one]
  split_ifs with h
  · have hl : Real.log (r_e / B.r_d) < 0 := Real.log_neg (by positivity) (by rw [div_lt_one hd]; exact hed)
    have hq : (r / r_e) ^ 2 < 1 := by
      have h0 : 0 ≤ r / r_e := by positivity
      have h1 : r / r_e < 1 := by rw [div_lt_one hre]; exact h
      nlinarith
    linarith
  · have hrp : 0 < r := lt_of_lt_of_le hre (not_lt.mp h)
    have : Real.log (r / B.r_d) < 0 := Real.log_neg (by positivity) (by rw [div_lt_one hd]; exact hrd)
    linarith

/-- **non-decreasing in `r` on `[0, r_d]`** -/
theorem profile_mono (B : Params ℝ) (r_e : ℝ) (hre : 0 < r_e) (hd : 0 < B.r_d) (r1 r2 : ℝ) (h0 : 0 ≤ r1) (h12 : r1 ≤ r2) :
    multip B r_e r1 ≤ multip B r_e r2 := by
  unfold multip
  simp only [lit_real, powN_real, Transc.log_real, Nat.cast_ofNat, Nat.cast_one]
  by_cases ha : r1 < r_e
  · by_cases hb : r2 < r_e
    · simp only [ha, hb, if_true]
      have : (r1 / r_e) ^ 2 ≤ (r2 / r_e) ^ 2 := by
        apply pow_le_pow_left₀ (by positivity)
        exact div_le_div_of_nonneg_right h12 hre.le
      linarith
    · simp only [ha, hb, if_true, if_false]
      have hb' : r_e ≤ r2 := not_lt.mp hb
      have h1 : (r1 / r_e) ^ 2 ≤ 1 := by
        have : r1 / r_e ≤ 1 := by rw [div_le_one hre]; exact ha.le
        have h0' : 0 ≤ r1 / r_e := by positivity
        nlinarith
      have h2 : Real.log (r_e / B.r_d) ≤ Real.log (r2 / B.r_d) :=
        Real.log_le_log (by positivity) (div_le_div_of_nonneg_right hb' hd.le)
      linarith
  · have ha' : r_e ≤ r1 := not_lt.mp ha
    have hb : ¬ r2 < r_e := not_lt.mpr (le_trans ha' h12)
    simp only [ha, hb, if_false]
    have hr1 : 0 < r1 := lt_of_lt_of_le hre ha'
    have : Real.log (r1 / B.r_d) ≤ Real.log (r2 / B.r_d) :=
      Real.log_le_log (by positivity) (div_le_div_of_nonneg_right h12 hd.le)
    linarith

/-- **`ValueError` exactly outside `[0, r_d]`** -/
theorem range_error (B : Params ℝ) (fuel : ℕ) (e_kin r : ℝ) :
    correction B fuel e_kin r = none ↔ (B.r_d < r ∨ r < 0) := by
  unfold correction
  simp only [lit_real, Nat.cast_zero]
  split_ifs with h
  · simp [h]
  · simp [h]

-- non-vacuity
example : (0:ℝ) < 1e-4 ∧ (1e-4:ℝ) < 5e-3 ∧ (0:ℝ) ≤ 2e-4 ∧ (2e-4:ℝ) < 5e-3 := by norm_num
end C20
