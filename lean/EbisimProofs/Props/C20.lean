import EbisimProofs.Lemmas.Consts
import EbisimModel.Model.Beam

/-! # C20 — electron-beam space-charge estimate: self-consistent, continuous potential

`Gen.characteristic_potential`, `Gen.herrmann_radius` are generated from `beams.py`;
`Beam.loop/multip/correction` is the hand model of the fixed-point loop and of the profile. -/
namespace C20
open Beam Num Gen Real

/-! ## documented formulas -/

/-- `φ₀ = I / (4π ε₀ v_e)` -/
noncomputable def Spec.charPot (I E : ℝ) : ℝ := I / (4 * Const.PI * Const.EPS_0 * electron_velocity E)
noncomputable def Spec.s1 (I b_d E : ℝ) : ℝ := Const.M_E * I / (Const.PI * Const.EPS_0 * Const.Q_E * electron_velocity E * b_d ^ 2)
noncomputable def Spec.s2 (t_c r_c b_d : ℝ) : ℝ := 8 * Const.K_B * t_c * Const.M_E * r_c ^ 2 / (Const.Q_E ^ 2 * b_d ^ 2)
noncomputable def Spec.s3 (b_c r_c b_d : ℝ) : ℝ := b_c ^ 2 * r_c ^ 4 / b_d ^ 2
/-- Herrmann radius `√(s₁ + √(s₁² + s₂ + s₃))` -/
noncomputable def Spec.herrmann (s1 s2 s3 : ℝ) : ℝ := Real.sqrt (s1 + Real.sqrt (s1 ^ 2 + s2 + s3))

theorem charPot_eq_spec (B : Params ℝ) (E : ℝ) : cpot B E = Spec.charPot B.cur E := by
  simp [cpot, characteristic_potential, Spec.charPot]

theorem herrmann_eq_spec (B : Params ℝ) (E : ℝ) :
    herr B E = Spec.herrmann (Spec.s1 B.cur B.b_d E) (Spec.s2 B.t_c B.r_c B.b_d) (Spec.s3 B.b_c B.r_c B.b_d) := by
  simp [herr, herrmann_radius, Spec.herrmann, Spec.s1, Spec.s2, Spec.s3]

/-- **the Herrmann radius is never smaller than the Brillouin radius** `√(2 s₁)` -/
theorem herrmann_ge_brillouin (s1 s2 s3 : ℝ) (h1 : 0 ≤ s1) (h2 : 0 ≤ s2) (h3 : 0 ≤ s3) :
    Real.sqrt (2 * s1) ≤ Spec.herrmann s1 s2 s3 := by
  unfold Spec.herrmann
  apply Real.sqrt_le_sqrt
  have : s1 ≤ Real.sqrt (s1 ^ 2 + s2 + s3) := by
    calc s1 = Real.sqrt (s1 ^ 2) := (Real.sqrt_sq h1).symm
      _ ≤ Real.sqrt (s1 ^ 2 + s2 + s3) := Real.sqrt_le_sqrt (by linarith)
  linarith

theorem herrmann_mono (s1 s2 s2' s3 s3' : ℝ) (h2 : s2 ≤ s2') (h3 : s3 ≤ s3') :
    Spec.herrmann s1 s2 s3 ≤ Spec.herrmann s1 s2' s3' := by
  unfold Spec.herrmann
  apply Real.sqrt_le_sqrt
  have := Real.sqrt_le_sqrt (show s1 ^ 2 + s2 + s3 ≤ s1 ^ 2 + s2' + s3' by linarith)
  linarith

/-- **the Herrmann radius does not shrink when cathode temperature, cathode field or cathode radius
grow** (all quantities non-negative, `b_d ≠ 0` not even needed) -/
theorem herrmann_mono_cathode (B B' : Params ℝ) (E : ℝ)
    (hcur : B'.cur = B.cur) (hbd : B'.b_d = B.b_d)
    (ht : B.t_c ≤ B'.t_c) (ht0 : 0 ≤ B.t_c) (hb : B.b_c ≤ B'.b_c) (hb0 : 0 ≤ B.b_c) (hr : B.r_c ≤ B'.r_c) (hr0 : 0 ≤ B.r_c) :
    herr B E ≤ herr B' E := by
  rw [herrmann_eq_spec, herrmann_eq_spec, hcur, hbd]
  apply herrmann_mono
  · unfold Spec.s2
    have hK := Const.K_B_pos; have hM := Const.M_E_pos; have hQ := Const.Q_E_pos
    apply div_le_div_of_nonneg_right _ (by positivity)
    have h1 : B.r_c ^ 2 ≤ B'.r_c ^ 2 := pow_le_pow_left₀ hr0 hr 2
    have : 8 * Const.K_B * B.t_c * Const.M_E * B.r_c ^ 2 ≤ 8 * Const.K_B * B'.t_c * Const.M_E * B.r_c ^ 2 := by
      apply mul_le_mul_of_nonneg_right _ (by positivity)
      apply mul_le_mul_of_nonneg_right _ hM.le
      exact mul_le_mul_of_nonneg_left ht (by positivity)
    refine le_trans this ?_
    apply mul_le_mul_of_nonneg_left h1
    have : 0 ≤ B'.t_c := le_trans ht0 ht
    positivity
  · unfold Spec.s3
    apply div_le_div_of_nonneg_right _ (by positivity)
    have h1 : B.b_c ^ 2 ≤ B'.b_c ^ 2 := pow_le_pow_left₀ hb0 hb 2
    have h2 : B.r_c ^ 4 ≤ B'.r_c ^ 4 := pow_le_pow_left₀ hr0 hr 4
    exact mul_le_mul h1 h2 (by positivity) (by positivity)

/-! ## the fixed-point loop -/

/-- what holds of a state produced by the loop body -/
def Consistent (B : Params ℝ) (e_kin : ℝ) (s : LoopState ℝ) : Prop :=
  s.r_e = herr B (e_kin + s.old) ∧ s.phi0 = cpot B (e_kin + s.old) ∧
  s.new = s.phi0 * (2 * Real.log (s.r_e / B.r_d) - 1)

theorem body_consistent (B : Params ℝ) (e_kin : ℝ) (s : LoopState ℝ) : Consistent B e_kin (body B e_kin s) := by
  simp [Consistent, body]

theorem loop_spec (B : Params ℝ) (e_kin : ℝ) : ∀ (fuel : ℕ) (s : LoopState ℝ),
    (Consistent B e_kin s ∨ Beam.guard s) →
    let r := loop B e_kin fuel s
    r.exhausted = true ∨ (Consistent B e_kin r ∧ ¬ Beam.guard r) := by
  intro fuel
  induction fuel with
  | zero => intro s _; simp [loop]
  | succ k ih =>
    intro s hs
    simp only [loop]
    split_ifs with hg
    · exact ih (body B e_kin s) (Or.inl (body_consistent B e_kin s))
    · rcases hs with hc | hgu
      · by_cases he : s.exhausted = true
        · exact Or.inl he
        · exact Or.inr ⟨hc, hg⟩
      · exact absurd hgu hg

/-- **exit condition**: when the loop leaves (fuel not exhausted), the returned on-axis value is
`φ₀(E+φ_old) (2 ln(r_H(E+φ_old)/r_d) − 1)` with Herrmann radius and characteristic potential
evaluated at the energy corrected by the previous iterate, and `(new − old)/new ≤ 10⁻⁶`:
the value reproduces itself under the fixed-point map to 10⁻⁶ relative. (That the quotient is not
negative — monotone approach — is monitored, not proved: `fixed_point_partial`.) -/
theorem fixed_point_partial (B : Params ℝ) (e_kin : ℝ) (fuel : ℕ) :
    let r := loop B e_kin fuel init
    r.exhausted = true ∨
      (r.r_e = herr B (e_kin + r.old) ∧ r.phi0 = cpot B (e_kin + r.old) ∧
       r.new = r.phi0 * (2 * Real.log (r.r_e / B.r_d) - 1) ∧ (r.new - r.old) / r.new ≤ 1e-6) := by
  have hg : Beam.guard (init : LoopState ℝ) := by simp [Beam.guard, init]; norm_num
  rcases loop_spec B e_kin fuel init (Or.inr hg) with h | ⟨⟨h1, h2, h3⟩, h4⟩
  · exact Or.inl h
  · refine Or.inr ⟨h1, h2, h3, ?_⟩
    simpa [Beam.guard] using h4

/-! ## the radial profile -/

/-- **continuous at the beam edge** -/
theorem profile_continuous (B : Params ℝ) (r_e : ℝ) (hre : 0 < r_e) :
    2 * Real.log (r_e / B.r_d) + (r_e / r_e) ^ 2 - 1 = multip B r_e r_e := by
  simp [multip, div_self hre.ne']

/-- **zero at the drift tube** -/
theorem profile_zero_at_tube (B : Params ℝ) (r_e : ℝ) (hrd : 0 < B.r_d) (h : r_e ≤ B.r_d) : multip B r_e B.r_d = 0 := by
  simp [multip, not_lt.mpr h, div_self hrd.ne']

/-- **negative inside the tube** (so `φ₀ · multip < 0` for `φ₀ > 0`) -/
theorem profile_neg (B : Params ℝ) (r_e r : ℝ) (hre : 0 < r_e) (hed : r_e < B.r_d) (hr0 : 0 ≤ r) (hrd : r < B.r_d) :
    multip B r_e r < 0 := by
  have hd : 0 < B.r_d := lt_trans hre hed
  unfold multip
  simp only [lit_real, powN_real, Transc.log_real, Nat.cast_ofNat, Nat.cast_one]
  split_ifs with h
  · have hl : Real.log (r_e / B.r_d) < 0 := Real.log_neg (by positivity) (by rw [div_lt_one hd]; exact hed)
    have hq : (r / r_e) ^ 2 < 1 := by
      have h0 : 0 ≤ r / r_e := by positivity
      have h1 : r / r_e < 1 := by rw [div_lt_one hre]; exact h
      nlinarith
    linarith
  · have hrp : 0 < r := lt_of_lt_of_le hre (not_lt.mp h)
    have : Real.log (r / B.r_d) < 0 := Real.log_neg (by positivity) (by rw [div_lt_one hd]; exact hrd)
    linarith

/-- **non-decreasing in `r` on `[0, r_d]`** -/
theorem profile_mono (B : Params ℝ) (r_e : ℝ) (hre : 0 < r_e) (hd : 0 < B.r_d) (r1 r2 : ℝ) (h0 : 0 ≤ r1) (h12 : r1 ≤ r2) :
    multip B r_e r1 ≤ multip B r_e r2 := by
  unfold multip
  simp only [lit_real, powN_real, Transc.log_real, Nat.cast_ofNat, Nat.cast_one]
  by_cases ha : r1 < r_e
  · by_cases hb : r2 < r_e
    · simp only [ha, hb, if_true]
      have : (r1 / r_e) ^ 2 ≤ (r2 / r_e) ^ 2 := by
        apply pow_le_pow_left₀ (by positivity)
        exact div_le_div_of_nonneg_right h12 hre.le
      linarith
    · simp only [ha, hb, if_true, if_false]
      have hb' : r_e ≤ r2 := not_lt.mp hb
      have h1 : (r1 / r_e) ^ 2 ≤ 1 := by
        have : r1 / r_e ≤ 1 := by rw [div_le_one hre]; exact ha.le
        have h0' : 0 ≤ r1 / r_e := by positivity
        nlinarith
      have h2 : Real.log (r_e / B.r_d) ≤ Real.log (r2 / B.r_d) :=
        Real.log_le_log (by positivity) (div_le_div_of_nonneg_right hb' hd.le)
      linarith
  · have ha' : r_e ≤ r1 := not_lt.mp ha
    have hb : ¬ r2 < r_e := not_lt.mpr (le_trans ha' h12)
    simp only [ha, hb, if_false]
    have hr1 : 0 < r1 := lt_of_lt_of_le hre ha'
    have : Real.log (r1 / B.r_d) ≤ Real.log (r2 / B.r_d) :=
      Real.log_le_log (by positivity) (div_le_div_of_nonneg_right h12 hd.le)
    linarith

/-- **`ValueError` exactly outside `[0, r_d]`** -/
theorem range_error (B : Params ℝ) (fuel : ℕ) (e_kin r : ℝ) :
    correction B fuel e_kin r = none ↔ (B.r_d < r ∨ r < 0) := by
  unfold correction
  simp only [lit_real, Nat.cast_zero]
  split_ifs with h
  · simp [h]
  · simp [h]


/-! ## positivity, model-level Brillouin bound, the returned profile as a whole (session 4) -/

/-- the generated `electron_velocity` is positive at a positive energy (proved here from the generated
definition, so that this file does not depend on the proofs of C15) -/
theorem ve_pos (E : ℝ) (hE : 0 < E) : 0 < electron_velocity E := by
  have hm := Const.M_E_EV_pos; have hc := Const.C_L_pos
  simp only [electron_velocity, lit_real, powN_real, Transc.sqrt_real, Nat.cast_one]
  apply mul_pos hc; apply Real.sqrt_pos.mpr
  have h1 : Const.M_E_EV / (Const.M_E_EV + E) < 1 := by rw [div_lt_one (by positivity)]; linarith
  have h0 : 0 < Const.M_E_EV / (Const.M_E_EV + E) := by positivity
  nlinarith

/-- the characteristic potential is positive for a positive current and energy -/
theorem cpot_pos (B : Params ℝ) (E : ℝ) (hI : 0 < B.cur) (hE : 0 < E) : 0 < cpot B E := by
  rw [charPot_eq_spec]; unfold Spec.charPot
  have hv := ve_pos E hE
  have hP := Const.PI_pos; have hE0 := Const.EPS_0_pos
  positivity

theorem s1_pos (I b_d E : ℝ) (hI : 0 < I) (hb : b_d ≠ 0) (hE : 0 < E) : 0 < Spec.s1 I b_d E := by
  unfold Spec.s1
  have hv := ve_pos E hE
  have hP := Const.PI_pos; have hE0 := Const.EPS_0_pos; have hM := Const.M_E_pos; have hQ := Const.Q_E_pos
  have : 0 < b_d ^ 2 := by positivity
  positivity

theorem s2_nonneg (t_c r_c b_d : ℝ) (ht : 0 ≤ t_c) : 0 ≤ Spec.s2 t_c r_c b_d := by
  unfold Spec.s2
  have hK := Const.K_B_pos; have hM := Const.M_E_pos
  positivity

theorem s3_nonneg (b_c r_c b_d : ℝ) : 0 ≤ Spec.s3 b_c r_c b_d := by
  unfold Spec.s3; positivity

/-- **model-level**: the Herrmann radius computed by `herrmann_radius` is at least the Brillouin
radius `√(2 s₁)` of the same beam at the same energy, and it is positive -/
theorem herr_ge_brillouin (B : Params ℝ) (E : ℝ) (hI : 0 < B.cur) (hb : B.b_d ≠ 0) (hE : 0 < E) (ht : 0 ≤ B.t_c) :
    Real.sqrt (2 * Spec.s1 B.cur B.b_d E) ≤ herr B E ∧ 0 < herr B E := by
  have h1 := s1_pos B.cur B.b_d E hI hb hE
  have hge : Real.sqrt (2 * Spec.s1 B.cur B.b_d E) ≤ herr B E := by
    rw [herrmann_eq_spec]
    exact herrmann_ge_brillouin _ _ _ h1.le (s2_nonneg _ _ _ ht) (s3_nonneg _ _ _)
  refine ⟨hge, lt_of_lt_of_le ?_ hge⟩
  exact Real.sqrt_pos.mpr (by linarith)

/-- a state left by the loop body at a positive corrected energy has positive `φ₀` and `r_e` -/
theorem consistent_pos (B : Params ℝ) (e_kin : ℝ) (s : LoopState ℝ) (hc : Consistent B e_kin s)
    (hI : 0 < B.cur) (hb : B.b_d ≠ 0) (ht : 0 ≤ B.t_c) (hE : 0 < e_kin + s.old) : 0 < s.phi0 ∧ 0 < s.r_e := by
  obtain ⟨h1, h2, _⟩ := hc
  rw [h1, h2]
  exact ⟨cpot_pos B _ hI hE, (herr_ge_brillouin B _ hI hb hE ht).2⟩

/-- **the on-axis value of the returned profile is the loop's self-consistent value**:
`space_charge_correction(e_kin, 0) = sc_on_ax_new` -/
theorem correction_on_axis (B : Params ℝ) (fuel : ℕ) (e_kin : ℝ) (hd : 0 ≤ B.r_d)
    (hc : Consistent B e_kin (loop B e_kin fuel init)) (hre : 0 < (loop B e_kin fuel init).r_e) :
    correction B fuel e_kin 0 = some ((loop B e_kin fuel init).new, loop B e_kin fuel init) := by
  unfold correction
  simp only [lit_real, Nat.cast_zero, lt_irrefl, or_false, not_lt.mpr hd, if_false]
  obtain ⟨_, _, h3⟩ := hc
  rw [h3]
  simp [multip, hre]

/-- **the returned correction is negative inside the tube, zero at the tube and non-decreasing** -/
theorem correction_profile (B : Params ℝ) (fuel : ℕ) (e_kin : ℝ)
    (hphi : 0 < (loop B e_kin fuel init).phi0) (hre : 0 < (loop B e_kin fuel init).r_e)
    (hed : (loop B e_kin fuel init).r_e < B.r_d) :
    (∀ r, 0 ≤ r → r < B.r_d → ∃ v s, correction B fuel e_kin r = some (v, s) ∧ v < 0) ∧
    (∃ s, correction B fuel e_kin B.r_d = some (0, s)) ∧
    (∀ r1 r2 v1 v2 s1 s2, 0 ≤ r1 → r1 ≤ r2 → correction B fuel e_kin r1 = some (v1, s1) →
        correction B fuel e_kin r2 = some (v2, s2) → v1 ≤ v2) := by
  have hd : 0 < B.r_d := lt_trans hre hed
  refine ⟨?_, ?_, ?_⟩
  · intro r h0 hr
    refine ⟨_, loop B e_kin fuel init, ?_, mul_neg_of_pos_of_neg hphi (profile_neg B _ r hre hed h0 hr)⟩
    unfold correction
    simp only [lit_real, Nat.cast_zero, not_lt.mpr hr.le, not_lt.mpr h0, or_self, if_false]
  · refine ⟨loop B e_kin fuel init, ?_⟩
    unfold correction
    simp only [lit_real, Nat.cast_zero, lt_irrefl, not_lt.mpr hd.le, or_self, if_false]
    rw [profile_zero_at_tube B _ hd hed.le, mul_zero]
  · intro r1 r2 v1 v2 s1 s2 h0 h12 e1 e2
    unfold correction at e1 e2
    simp only [lit_real, Nat.cast_zero] at e1 e2
    split_ifs at e1 e2
    simp only [Option.some.injEq, Prod.mk.injEq] at e1 e2
    rw [← e1.1, ← e2.1]
    exact mul_le_mul_of_nonneg_left (profile_mono B _ hre hd r1 r2 h0 h12) hphi.le


/-- **the returned estimate, all clauses together**: when the loop leaves at a positive corrected energy,
`space_charge_correction(e_kin, 0)` is the loop's last value, that value is
`φ₀(E+φ_old)·(2 ln(r_H(E+φ_old)/r_d) − 1)` with the generated `characteristic_potential` / `herrmann_radius`,
it reproduces itself to 10⁻⁶ relative, and the stored beam radius is at least the Brillouin radius -/
theorem correction_self_consistent (B : Params ℝ) (fuel : ℕ) (e_kin : ℝ)
    (hI : 0 < B.cur) (hb : B.b_d ≠ 0) (ht : 0 ≤ B.t_c) (hd : 0 ≤ B.r_d)
    (hne : (loop B e_kin fuel init).exhausted = false) (hE : 0 < e_kin + (loop B e_kin fuel init).old) :
    correction B fuel e_kin 0 = some ((loop B e_kin fuel init).new, loop B e_kin fuel init) ∧
    (loop B e_kin fuel init).new = cpot B (e_kin + (loop B e_kin fuel init).old) *
        (2 * Real.log (herr B (e_kin + (loop B e_kin fuel init).old) / B.r_d) - 1) ∧
    ((loop B e_kin fuel init).new - (loop B e_kin fuel init).old) / (loop B e_kin fuel init).new ≤ 1e-6 ∧
    Real.sqrt (2 * Spec.s1 B.cur B.b_d (e_kin + (loop B e_kin fuel init).old)) ≤ (loop B e_kin fuel init).r_e ∧
    0 < (loop B e_kin fuel init).phi0 := by
  rcases fixed_point_partial B e_kin fuel with h | ⟨h1, h2, h3, h4⟩
  · rw [hne] at h; exact absurd h (by simp)
  · have hc : Consistent B e_kin (loop B e_kin fuel init) := ⟨h1, h2, h3⟩
    have hp := consistent_pos B e_kin _ hc hI hb ht hE
    refine ⟨correction_on_axis B fuel e_kin hd hc hp.2, ?_, h4, ?_, hp.1⟩
    · rw [h3, h2, h1]
    · rw [h1]; exact (herr_ge_brillouin B _ hI hb hE ht).1

/-- **continuity at the beam edge, both branches**: the quadratic (inner) branch evaluated at `r = r_e` equals the
logarithmic (outer) branch there, and the inner branch tends to that value: for `r < r_e` the two differ by `1 − (r/r_e)²` -/
theorem profile_branches_meet (B : Params ℝ) (r_e r : ℝ) (hre : 0 < r_e) (hr : r < r_e) :
    2 * Real.log (r_e / B.r_d) + (r_e / r_e) ^ 2 - 1 = 2 * Real.log (r_e / B.r_d) ∧
    multip B r_e r_e - multip B r_e r = 1 - (r / r_e) ^ 2 := by
  refine ⟨by rw [div_self hre.ne']; ring, ?_⟩
  simp only [multip, lit_real, powN_real, Transc.log_real, Nat.cast_ofNat, Nat.cast_one, lt_irrefl, if_false, hr, if_true]
  ring

-- non-vacuity
example : (0:ℝ) < 1e-4 ∧ (1e-4:ℝ) < 5e-3 ∧ (0:ℝ) ≤ 2e-4 ∧ (2e-4:ℝ) < 5e-3 := by norm_num
end C20
