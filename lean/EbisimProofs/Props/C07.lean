import EbisimProofs.Lemmas.Lotz

/-! # C07 — ionisation cross sections follow the Lotz formula with exact thresholds

Model: `Xs.lotzEntry/coefOf` (coefficient lookup), `Xs.lotzTerm` (Lotz × Gryzinski),
`Xs.shellSum/eixsRows/eixsVec` (hand model of `eixs_vec`, bit-identical to the compiled kernel on
all 105 elements), over the tables regenerated from the source on every run.
Table facts are `decide +kernel` evaluations over *all* 5565 charge-state rows × 30 sub-shells. -/
namespace C07
open Xs Num Gen

/-! ## the coefficient lookup rule, stated outright -/

/-- heavier elements, charged states: no tabulated coefficients — `a = 4.5e-18 m² eV²`, `b = c = 0` -/
theorem lotz_rule_heavy_ion (Z cs i : ℕ) (n l sg : ℕ) (hs : shellOrderS[i]? = some (n, l, sg))
    (hZ : 20 < Z) (hcs : cs ≠ 0) : lotzEntry Z cs i = .outside := by
  simp [lotzEntry, hs, hZ, hcs]

/-- Z ≤ 20, tabulated charge state: the element-specific triple of the shell stub, or the default -/
theorem lotz_rule_light (Z cs i : ℕ) (n l sg : ℕ) (hs : shellOrderS[i]? = some (n, l, sg)) (hZ : ¬ 20 < Z)
    (tab : List (ℕ × List ((ℕ × ℕ) × Tri))) (htab : lookupK Z lotzAdvancedS = some tab)
    (hcs : cs < tab.length) (d : List ((ℕ × ℕ) × Tri)) (hd : lookupK cs tab = some d) :
    lotzEntry Z cs i = (match lookupK (n, l) d with | some t => .tab t | none => .dflt) := by
  cases h : lookupK (n, l) d <;> simp [lotzEntry, hs, hZ, htab, hcs, hd, h]

/-- Z ≤ 20 beyond the tabulated charge states: default coefficients -/
theorem lotz_rule_light_outside (Z cs i : ℕ) (n l sg : ℕ) (hs : shellOrderS[i]? = some (n, l, sg)) (hZ : ¬ 20 < Z)
    (tab : List (ℕ × List ((ℕ × ℕ) × Tri))) (htab : lookupK Z lotzAdvancedS = some tab)
    (hcs : ¬ cs < tab.length) : lotzEntry Z cs i = .outside := by
  simp [lotzEntry, hs, hZ, htab, hcs]

/-- the default branch of the kernel and the default array entry are the same numbers:
`a = 4.5e-18`, `b = c = 0` -/
theorem default_coefficients :
    (coefOf LotzRes.dflt : Option (ℝ × ℝ × ℝ)) = some (4.5e-18, 0, 0) ∧
    (∀ (E e : ℝ) (n : ℕ), lotzTerm E n e (none : Option (ℝ × ℝ × ℝ)) = lotzTerm E n e (some (4.5e-18, 0, 0))) := by
  constructor
  · simp only [coefOf, lit_real, Nat.cast_zero]; norm_num
  · intro E e n; simp [lotzTerm]

/-! ## table facts (finite, decided by the kernel over the whole table) -/

def coefOkB : LotzRes → Bool
  | .tab t => Nat.blt 0 t.1 && Nat.blt t.2.1 (2 ^ 60)
  | .zero => false
  | .dflt => true
  | .outside => true
  | .keyError => false

/-- row check: equal lengths; no lookup ever raises; every occupied shell is bound and has an
admissible coefficient -/
def rowOkB (Z cs : ℕ) : List ℕ → List ℕ → ℕ → Bool
  | n :: ns, en :: es, sh =>
    (!(lotzEntry Z cs sh == .keyError)) && (Nat.beq n 0 || (Nat.blt 0 en && coefOkB (lotzEntry Z cs sh)))
      && rowOkB Z cs ns es (sh + 1)
  | [], [], _ => true
  | _, _, _ => false

/-- the row has at least one occupied sub-shell -/
def hasOcc : List ℕ → Bool
  | [] => false
  | n :: ns => Nat.blt 0 n || hasOcc ns

def rowsOkB (Z : ℕ) : List (List ℕ) → List (List ℕ) → ℕ → Bool
  | c :: cs, e :: es, q => (rowOkB Z q c e 0 && hasOcc c) && rowsOkB Z cs es (q + 1)
  | [], [], _ => true
  | _, _, _ => false

def allOkB : ℕ → Bool
  | 0 => true
  | z + 1 => ((cfg (z + 1)).length.beq (z + 1) && rowsOkB (z + 1) (cfg (z + 1)) (ebind (z + 1)) 0) && allOkB z

theorem tables_ok : allOkB 105 = true := by decide +kernel

theorem coefOk_of_B (r : LotzRes) (h : coefOkB r = true) : CoefOk (coefOf r : Option (ℝ × ℝ × ℝ)) := by
  cases r with
  | tab t =>
    simp only [coefOkB, Bool.and_eq_true, Nat.blt_eq] at h
    simp only [coefOf, CoefOk]
    refine ⟨?_, ofScaled_nonneg _ _, ?_, ofScaled_nonneg _ _⟩
    · have := ofScaled_pos t.1 scCoef h.1
      have h18 : (0 : ℝ) < 1.0e-18 := by norm_num
      positivity
    · rw [ofScaled_real, div_lt_one (by positivity)]
      have : scCoef = 60 := rfl
      rw [this]; exact_mod_cast h.2
  | zero => simp [coefOkB] at h
  | dflt => simp only [coefOf, CoefOk, lit_real, Nat.cast_zero]; norm_num
  | outside => simp [coefOf, CoefOk]
  | keyError => simp [coefOkB] at h

theorem rowOk_of_B (Z cs : ℕ) : ∀ (crow erow : List ℕ) (sh : ℕ), rowOkB Z cs crow erow sh = true →
    RowOk (fun s => coefOf (lotzEntry Z cs s)) crow erow sh := by
  intro crow
  induction crow with
  | nil => intro erow sh _; cases erow <;> simp [RowOk]
  | cons n ns ih =>
    intro erow sh h
    cases erow with
    | nil => simp [RowOk]
    | cons en es =>
      simp only [rowOkB, Bool.and_eq_true, Bool.or_eq_true, Nat.blt_eq] at h
      refine ⟨fun hn => ?_, ih es (sh + 1) h.2⟩
      rcases h.1.2 with h0 | h1
      · have := Nat.eq_of_beq_eq_true h0; omega
      · exact ⟨h1.1, coefOk_of_B _ h1.2⟩

theorem rowsOkB_getElem (Z : ℕ) : ∀ (C B : List (List ℕ)) (q : ℕ), rowsOkB Z C B q = true →
    C.length = B.length ∧ ∀ (i : ℕ) (h : i < C.length) (h' : i < B.length),
      rowOkB Z (q + i) C[i] B[i] 0 = true ∧ hasOcc C[i] = true := by
  intro C
  induction C with
  | nil => intro B q h; cases B <;> simp [rowsOkB] at h ⊢
  | cons c cs ih =>
    intro B q h
    cases B with
    | nil => simp [rowsOkB] at h
    | cons e es =>
      simp only [rowsOkB, Bool.and_eq_true] at h
      obtain ⟨hl, hr⟩ := ih es (q + 1) h.2
      refine ⟨by simp [hl], fun i hi hi' => ?_⟩
      cases i with
      | zero => simpa using h.1
      | succ j =>
        have := hr j (by simpa using hi) (by simpa using hi')
        simpa [Nat.add_assoc, Nat.add_comm 1 j] using this

theorem rowOkB_length (Z cs : ℕ) : ∀ (c e : List ℕ) (sh : ℕ), rowOkB Z cs c e sh = true → c.length = e.length := by
  intro c
  induction c with
  | nil => intro e sh h; cases e <;> simp [rowOkB] at h ⊢
  | cons n ns ih =>
    intro e sh h
    cases e with
    | nil => simp [rowOkB] at h
    | cons en es =>
      simp only [rowOkB, Bool.and_eq_true] at h
      simp [ih es (sh + 1) h.2]

theorem minBindN_isSome : ∀ (c e : List ℕ), c.length = e.length → hasOcc c = true → (minBindN c e).isSome = true := by
  intro c
  induction c with
  | nil => intro e _ h; simp [hasOcc] at h
  | cons n ns ih =>
    intro e hl h
    cases e with
    | nil => simp at hl
    | cons en es =>
      simp only [minBindN]
      by_cases hn : 0 < n
      · simp only [hn, if_true]; cases minBindN ns es <;> simp
      · simp only [hn, if_false]
        simp only [hasOcc, Bool.or_eq_true, Nat.blt_eq] at h
        exact ih es (by simpa using hl) (h.resolve_left hn)

theorem allOkB_sound : ∀ n, allOkB n = true → ∀ z, 1 ≤ z → z ≤ n →
    (cfg z).length = z ∧ rowsOkB z (cfg z) (ebind z) 0 = true := by
  intro n
  induction n with
  | zero => intro _ z h1 h2; omega
  | succ m ih =>
    intro hb z h1 h2
    simp only [allOkB, Bool.and_eq_true] at hb
    by_cases hz : z = m + 1
    · subst hz; exact ⟨Nat.eq_of_beq_eq_true hb.1.1, hb.1.2⟩
    · exact ih hb.2 z h1 (by omega)

/-- **table facts, all 105 elements × all charge states × all sub-shells**: one row per charge
state `0…Z-1` in both tables; an occupied sub-shell has a positive binding energy and a coefficient
with `0 < a`, `0 ≤ b < 1`, `0 ≤ c`; no lookup raises -/
theorem lotz_table_facts (Z cs : ℕ) (hZ1 : 1 ≤ Z) (hZ : Z ≤ 105) (hcs : cs < Z) :
    ∃ (h1 : cs < (cfg Z).length) (h2 : cs < (ebind Z).length),
      RowOk (fun s => coefOf (lotzEntry Z cs s)) (cfg Z)[cs] (ebind Z)[cs] 0 := by
  obtain ⟨hlen, hrows⟩ := allOkB_sound 105 tables_ok Z hZ1 hZ
  obtain ⟨hl, hr⟩ := rowsOkB_getElem Z _ _ 0 hrows
  have h1 : cs < (cfg Z).length := by omega
  have h2 : cs < (ebind Z).length := by omega
  refine ⟨h1, h2, rowOk_of_B Z cs _ _ 0 ?_⟩
  simpa using (hr cs h1 h2).1

/-! ## the cross-section vector -/

theorem eixsRows_length (E : ℝ) (Z : ℕ) : ∀ (C B : List (List ℕ)) (q : ℕ), C.length = B.length →
    (eixsRows E Z C B q).length = C.length := by
  intro C
  induction C with
  | nil => intro B q _; cases B <;> simp [eixsRows]
  | cons c cs ih =>
    intro B q h
    cases B with
    | nil => simp at h
    | cons e es => simp only [eixsRows, List.length_cons]; rw [ih es (q + 1) (by simpa using h)]

theorem eixsRows_getElem (E : ℝ) (Z : ℕ) : ∀ (C B : List (List ℕ)) (q i : ℕ) (hl : C.length = B.length)
    (h : i < C.length),
    (eixsRows E Z C B q)[i]'(by rw [eixsRows_length E Z C B q hl]; exact h) =
      shellSum E (fun sh => coefOf (lotzEntry Z (q + i) sh)) C[i] (B[i]'(by omega)) 0 0 := by
  intro C
  induction C with
  | nil => intro B q i _ h; simp at h
  | cons c cs ih =>
    intro B q i hl h
    cases B with
    | nil => simp at hl
    | cons e es =>
      cases i with
      | zero => simp [eixsRows]
      | succ j =>
        have := ih es (q + 1) j (by simpa using hl) (by simpa using h)
        simpa [eixsRows, Nat.add_assoc, Nat.add_comm 1 j] using this

/-- the vector has one entry per charge state `0…Z` and **the bare nucleus entry is exactly 0** -/
theorem eixs_bare_zero (Z : ℕ) (hZ1 : 1 ≤ Z) (hZ : Z ≤ 105) (E : ℝ) :
    (eixsVec Z E).length = Z + 1 ∧ (eixsVec Z E).getLast? = some 0 := by
  obtain ⟨hlen, hrows⟩ := allOkB_sound 105 tables_ok Z hZ1 hZ
  obtain ⟨hl, _⟩ := rowsOkB_getElem Z _ _ 0 hrows
  unfold eixsVec
  constructor
  · rw [List.length_append, eixsRows_length E Z _ _ 0 hl, hlen]; simp
  · simp

/-- smallest binding energy of charge state `cs` (scaled natural), from the tables -/
def minBind (Z cs : ℕ) : Option ℕ := minBindN ((cfg Z).getD cs []) ((ebind Z).getD cs [])

/-- **C07 main theorem.** For every element `1 ≤ Z ≤ 105`, every charge state `cs < Z` and every
energy `E`: the cross section is non-negative; it is exactly zero at and below the smallest
binding energy of the charge state; it is strictly positive above it. -/
theorem eixs_threshold (Z cs : ℕ) (hZ1 : 1 ≤ Z) (hZ : Z ≤ 105) (hcs : cs < Z) (E : ℝ) :
    ∃ (h : cs < (eixsVec Z E).length),
      0 ≤ (eixsVec Z E)[cs] ∧
      (∀ m, minBind Z cs = some m → E ≤ ofScaled m scEbind → (eixsVec Z E)[cs] = 0) ∧
      (∀ m, minBind Z cs = some m → (ofScaled m scEbind : ℝ) < E → 0 < (eixsVec Z E)[cs]) := by
  obtain ⟨hlen, hrows⟩ := allOkB_sound 105 tables_ok Z hZ1 hZ
  obtain ⟨hl, _⟩ := rowsOkB_getElem Z _ _ 0 hrows
  obtain ⟨h1, h2, hok⟩ := lotz_table_facts Z cs hZ1 hZ hcs
  have hrl : (eixsRows E Z (cfg Z) (ebind Z) 0).length = (cfg Z).length := eixsRows_length E Z _ _ 0 hl
  have hlt : cs < (eixsVec Z E).length := by
    unfold eixsVec; rw [List.length_append, hrl]; omega
  have hget : (eixsVec Z E)[cs] = shellSum E (fun sh => coefOf (lotzEntry Z cs sh)) (cfg Z)[cs] (ebind Z)[cs] 0 0 := by
    have hlt' : cs < (eixsRows E Z (cfg Z) (ebind Z) 0).length := by rw [hrl]; exact h1
    have e : (eixsVec Z E)[cs]? = (eixsRows E Z (cfg Z) (ebind Z) 0)[cs]? := by
      unfold eixsVec; exact List.getElem?_append_left hlt'
    rw [List.getElem?_eq_getElem hlt, List.getElem?_eq_getElem hlt'] at e
    rw [Option.some.inj e]
    have e2 := eixsRows_getElem E Z (cfg Z) (ebind Z) 0 cs hl h1
    simpa using e2
  have hmb : minBind Z cs = minBindN (cfg Z)[cs] (ebind Z)[cs] := by
    simp [minBind, List.getD_eq_getElem?_getD, List.getElem?_eq_getElem h1, List.getElem?_eq_getElem h2]
  refine ⟨hlt, ?_, ?_, ?_⟩
  · rw [hget]; exact shellSum_ge E _ _ _ 0 0 hok
  · intro m hm hE
    rw [hget]
    apply shellSum_eq_of_allAbove
    apply allAbove_of_le_min
    intro m' hm'
    rw [hmb] at hm; rw [hm] at hm'; cases hm'; exact hE
  · intro m hm hE
    rw [hget]
    rw [hmb] at hm
    exact shellSum_gt E _ _ _ 0 0 hok (someBelow_of_min_lt E _ _ m hm hE)

/-- every row has an occupied shell, so the threshold of the theorem above always exists -/
theorem minBind_exists (Z cs : ℕ) (hZ1 : 1 ≤ Z) (hZ : Z ≤ 105) (hcs : cs < Z) : (minBind Z cs).isSome = true := by
  obtain ⟨hlen, hrows⟩ := allOkB_sound 105 tables_ok Z hZ1 hZ
  obtain ⟨hl, hr⟩ := rowsOkB_getElem Z _ _ 0 hrows
  have h1 : cs < (cfg Z).length := by omega
  have h2 : cs < (ebind Z).length := by omega
  obtain ⟨hrow, hocc⟩ := hr cs h1 h2
  have hmb : minBind Z cs = minBindN (cfg Z)[cs] (ebind Z)[cs] := by
    simp [minBind, List.getD_eq_getElem?_getD, List.getElem?_eq_getElem h1, List.getElem?_eq_getElem h2]
  rw [hmb]
  exact minBindN_isSome _ _ (rowOkB_length Z _ _ _ 0 hrow) hocc

/-- all entries of the vector are non-negative (finite sums of the terms above) -/
theorem eixs_nonneg (Z : ℕ) (hZ1 : 1 ≤ Z) (hZ : Z ≤ 105) (E : ℝ) (cs : ℕ) (h : cs < (eixsVec Z E).length) :
    0 ≤ (eixsVec Z E)[cs] := by
  obtain ⟨hlen, _⟩ := eixs_bare_zero Z hZ1 hZ E
  by_cases hcs : cs < Z
  · obtain ⟨_, h0, _⟩ := eixs_threshold Z cs hZ1 hZ hcs E
    exact h0
  · have hcsZ : cs = Z := by omega
    have hr := (eixs_bare_zero Z hZ1 hZ E).2
    rw [List.getLast?_eq_getElem?] at hr
    have : (eixsVec Z E)[cs]? = some 0 := by rw [← hr]; congr 1; omega
    rw [List.getElem?_eq_getElem h] at this
    exact le_of_eq (Option.some.inj this).symm

/-! ## non-vacuity: neutral hydrogen, threshold 13.598… eV -/
example : (minBind 1 0).isSome = true := by decide +kernel
example : (1 ≤ 26 ∧ 26 ≤ 105 ∧ 3 < 26) := by decide

/-! ## the cross section is the documented Lotz sum -/

section LotzSum
open Real

/-- the relativistic Gryzinski factor of the documentation, `i = P/m_e c²`, `t = E/m_e c²` -/
noncomputable def gryzinski (i t : ℝ) : ℝ :=
  (2 + i) / (2 + t) * ((1 + t) / (1 + i)) ^ 2
    * (((i + t) * (2 + t) * (1 + i) ^ 2) / (t * (2 + t) * (1 + i) ^ 2 + i * (2 + i))) ^ (1.5 : ℝ)

/-- the documented Lotz expression of one sub-shell: `a n ln(E/P)/(E P) · (1 − b exp(−c (E/P − 1)))` times the Gryzinski factor -/
noncomputable def lotzSpec (a b c : ℝ) (n : ℕ) (P E : ℝ) : ℝ :=
  a * (n : ℝ) * Real.log (E / P) / (E * P) * (1 - b * Real.exp (-c * (E / P - 1)))
    * gryzinski (P / Const.M_E_EV) (E / Const.M_E_EV)

/-- coefficient triple in effect: the tabulated one, or `a = 4.5e-18 m² eV²`, `b = c = 0` -/
noncomputable def coefTriple : Option (ℝ × ℝ × ℝ) → ℝ × ℝ × ℝ
  | some t => t
  | none => (4.5e-18, 0, 0)

theorem lotzTerm_eq_spec (E : ℝ) (n : ℕ) (P : ℝ) (co : Option (ℝ × ℝ × ℝ)) :
    lotzTerm E n P co = lotzSpec (coefTriple co).1 (coefTriple co).2.1 (coefTriple co).2.2 n P E := by
  cases co with
  | none =>
    simp only [lotzTerm, lotzSpec, coefTriple, gryzinski, grys, lit_real, powN_real, Transc.rpow_real, Transc.log_real]
    norm_num; ring
  | some t =>
    obtain ⟨a, b, c⟩ := t
    simp only [lotzTerm, lotzSpec, coefTriple, gryzinski, grys, lit_real, powN_real, Transc.rpow_real, Transc.log_real, Transc.exp_real]
    norm_num; ring

/-- the inner loop of `eixs_vec` is the sum of the documented sub-shell expressions over the occupied sub-shells that are open at `E` -/
theorem shellSum_eq_sum (E : ℝ) (co : ℕ → Option (ℝ × ℝ × ℝ)) : ∀ (ns es : List ℕ) (sh : ℕ) (acc : ℝ), ns.length = es.length →
    shellSum E co ns es sh acc = acc + ∑ k ∈ Finset.range ns.length,
      (if 0 < ns.getD k 0 ∧ (ofScaled (es.getD k 0) scEbind : ℝ) < E then
        lotzSpec (coefTriple (co (sh + k))).1 (coefTriple (co (sh + k))).2.1 (coefTriple (co (sh + k))).2.2
          (ns.getD k 0) (ofScaled (es.getD k 0) scEbind) E else 0) := by
  intro ns
  induction ns with
  | nil => intro es sh acc _; cases es <;> simp [shellSum]
  | cons n ns ih =>
    intro es sh acc hl
    cases es with
    | nil => simp at hl
    | cons en es =>
      simp only [shellSum, List.length_cons]
      rw [ih es (sh + 1) _ (by simpa using hl), Finset.sum_range_succ']
      simp only [List.getD_cons_zero, List.getD_cons_succ, Nat.add_zero]
      have : ∀ k, sh + 1 + k = sh + (k + 1) := fun k => by omega
      simp only [this]
      split_ifs with h
      · rw [lotzTerm_eq_spec]; ring
      · ring

/-- **the cross section is the documented Lotz sum**: for every element, every charge state `cs < Z` and every energy, entry `cs` of
`eixs_vec` is the sum, over the occupied sub-shells whose binding energy `P` lies below `E`, of
`a n ln(E/P)/(E P)·(1 − b e^{−c(E/P−1)})` times the relativistic Gryzinski factor, with the sub-shell's occupation `n`, binding energy `P`
and the coefficients the lookup rule selects (`lotz_rule_*`; `a = 4.5e-18 m² eV²`, `b = c = 0` where nothing is tabulated) -/
theorem eixs_eq_lotz_sum (Z cs : ℕ) (hZ1 : 1 ≤ Z) (hZ : Z ≤ 105) (hcs : cs < Z) (E : ℝ) :
    ∃ (h : cs < (eixsVec Z E).length) (h1 : cs < (cfg Z).length) (h2 : cs < (ebind Z).length),
      (eixsVec Z E)[cs] = ∑ k ∈ Finset.range (cfg Z)[cs].length,
        (if 0 < (cfg Z)[cs].getD k 0 ∧ (ofScaled ((ebind Z)[cs].getD k 0) scEbind : ℝ) < E then
          lotzSpec (coefTriple (coefOf (lotzEntry Z cs k))).1 (coefTriple (coefOf (lotzEntry Z cs k))).2.1
            (coefTriple (coefOf (lotzEntry Z cs k))).2.2 ((cfg Z)[cs].getD k 0) (ofScaled ((ebind Z)[cs].getD k 0) scEbind) E else 0) := by
  obtain ⟨hlen, hrows⟩ := allOkB_sound 105 tables_ok Z hZ1 hZ
  obtain ⟨hl, _⟩ := rowsOkB_getElem Z _ _ 0 hrows
  obtain ⟨h1, h2, hok⟩ := lotz_table_facts Z cs hZ1 hZ hcs
  have hrl : (eixsRows E Z (cfg Z) (ebind Z) 0).length = (cfg Z).length := eixsRows_length E Z _ _ 0 hl
  have hlt : cs < (eixsVec Z E).length := by
    unfold eixsVec; rw [List.length_append, hrl]; omega
  have hget : (eixsVec Z E)[cs] = shellSum E (fun sh => coefOf (lotzEntry Z cs sh)) (cfg Z)[cs] (ebind Z)[cs] 0 0 := by
    have hlt' : cs < (eixsRows E Z (cfg Z) (ebind Z) 0).length := by rw [hrl]; exact h1
    have e : (eixsVec Z E)[cs]? = (eixsRows E Z (cfg Z) (ebind Z) 0)[cs]? := by
      unfold eixsVec; exact List.getElem?_append_left hlt'
    rw [List.getElem?_eq_getElem hlt, List.getElem?_eq_getElem hlt'] at e
    rw [Option.some.inj e]
    have e2 := eixsRows_getElem E Z (cfg Z) (ebind Z) 0 cs hl h1
    simpa using e2
  have hrowlen : (cfg Z)[cs].length = (ebind Z)[cs].length := by
    obtain ⟨_, hr⟩ := rowsOkB_getElem Z _ _ 0 hrows
    exact rowOkB_length Z cs _ _ 0 (by simpa using (hr cs h1 (by omega)).1)
  refine ⟨hlt, h1, h2, ?_⟩
  rw [hget, shellSum_eq_sum E _ _ _ 0 0 hrowlen]
  simp

end LotzSum

end C07
