import EbisimProofs.Lemmas.AdvBalance
import EbisimProofs.Props.C15

/-! # C03 — the advanced model moves particles only between neighbouring states of one species

`Adv.stage/dnAt/dkTAt/rhs` is the hand model of `_adv_rhs` (agrees with the compiled kernel to
≤ 3e-16 on every output, all option combinations incl. radial dynamics and cross-section
recomputation). The balance theorems hold for *every* potential, device, target mix and option
record; what they need from the model data is stated as explicit boundary hypotheses, which
`boundary_zero` derives from the cross-section theorems C07–C10. -/
namespace C03
open Adv Num Finset Gen

/-- the derivative of a state that is not a neutral row: signed sum of the six particle rates -/
theorem dn_interior (nq : ℕ) (lb : List ℕ) (P : PRates ℝ) (k : ℕ) (hk : k ∉ lb) :
    dnAt nq lb P k = (-P.ei k + shiftUp P.ei k) + (-P.rr k + shiftDown nq P.rr k) + (-P.dr k + shiftDown nq P.dr k)
      + (-P.cx k + shiftDown nq P.cx k) - P.ax k - P.ra k := by
  simp only [dnAt, hk, if_false, lit_real, Nat.cast_zero]; ring

/-- **neutral densities and temperatures never change** -/
theorem neutrals_frozen (nq : ℕ) (lb : List ℕ) (P : PRates ℝ) (T : TIn ℝ) (k : ℕ) (hk : k ∈ lb) :
    dnAt nq lb P k = 0 ∧ dkTAt lb T P k = 0 := by
  simp [dnAt, dkTAt, hk]

/-- **what a reaction removes from one state is added to the neighbouring state**: the term `+R_ei k`
appears in `dn (k+1)`, the terms `+R_rec (k+1)` in `dn k` -/
theorem neighbour_transfer (nq : ℕ) (P : PRates ℝ) (k : ℕ) (h : k + 1 < nq) :
    shiftUp P.ei (k + 1) = P.ei k ∧ shiftDown nq P.rr k = P.rr (k + 1) ∧
    shiftDown nq P.dr k = P.dr (k + 1) ∧ shiftDown nq P.cx k = P.cx (k + 1) :=
  ⟨shiftUp_succ _ _, shiftDown_lt _ _ _ h, shiftDown_lt _ _ _ h, shiftDown_lt _ _ _ h⟩

/-- **particle balance of one species** (block `[L, U)` of the joint vector, `L` its neutral row):
the ions of the block change only by ionisation of the neutral, by recombination / charge exchange
into the neutral and by the two escape rates; everything else cancels pairwise. Boundary hypotheses:
the bare nucleus is not ionised and — if another species follows — its neutral does not recombine. -/
theorem dn_balance (nq : ℕ) (lb : List ℕ) (P : PRates ℝ) (L U : ℕ) (h : L + 2 ≤ U) (hU : U ≤ nq)
    (hint : ∀ k ∈ Ico (L + 1) U, k ∉ lb)
    (hEi : P.ei (U - 1) = 0) (hRr : U < nq → P.rr U = 0) (hDr : U < nq → P.dr U = 0) (hCx : U < nq → P.cx U = 0) :
    ∑ k ∈ Ico (L + 1) U, dnAt nq lb P k
      = P.ei L - (P.rr (L + 1) + P.dr (L + 1) + P.cx (L + 1)) - ∑ k ∈ Ico (L + 1) U, (P.ax k + P.ra k) := by
  rw [sum_congr rfl fun k hk => dn_interior nq lb P k (hint k hk)]
  rw [sum_sub_distrib, sum_sub_distrib, sum_add_distrib, sum_add_distrib, sum_add_distrib]
  rw [block_sum_up _ _ _ (by omega), block_sum_down nq P.rr _ _ h hU, block_sum_down nq P.dr _ _ h hU,
    block_sum_down nq P.cx _ _ h hU, hEi]
  by_cases hlt : U < nq
  · simp only [hlt, if_true, hRr hlt, hDr hlt, hCx hlt, sum_add_distrib]; ring
  · simp only [hlt, if_false, sum_add_distrib]; ring

/-- **nothing is exchanged between different species**: across the border between two consecutive
blocks (`U` = upper end of one = neutral row of the next) both shift operators carry exactly the
boundary rates, which vanish -/
theorem no_cross_species (nq : ℕ) (P : PRates ℝ) (U : ℕ) (hU0 : 0 < U) (hU : U < nq)
    (hEi : P.ei (U - 1) = 0) (hRr : P.rr U = 0) (hDr : P.dr U = 0) (hCx : P.cx U = 0) :
    shiftUp P.ei U = 0 ∧ shiftDown nq P.rr (U - 1) = 0 ∧ shiftDown nq P.dr (U - 1) = 0 ∧ shiftDown nq P.cx (U - 1) = 0 := by
  have h1 : U ≠ 0 := by omega
  have h2 : U - 1 + 1 < nq := by omega
  have h3 : U - 1 + 1 = U := by omega
  refine ⟨by simp [shiftUp, h1, hEi], ?_, ?_, ?_⟩ <;> simp [shiftDown, h2, h3, hRr, hDr, hCx]

/-- **a charge state without population can only gain population**: if the state's own rates vanish
(they are proportional to its — smoothed — density) and all rates are non-negative -/
theorem empty_gains (nq : ℕ) (lb : List ℕ) (P : PRates ℝ) (k : ℕ)
    (hown : P.ei k = 0 ∧ P.rr k = 0 ∧ P.dr k = 0 ∧ P.cx k = 0 ∧ P.ax k = 0 ∧ P.ra k = 0)
    (hnn : ∀ i, 0 ≤ P.ei i ∧ 0 ≤ P.rr i ∧ 0 ≤ P.dr i ∧ 0 ≤ P.cx i) :
    0 ≤ dnAt nq lb P k := by
  by_cases hk : k ∈ lb
  · simp [dnAt, hk]
  · rw [dn_interior nq lb P k hk]
    obtain ⟨h1, h2, h3, h4, h5, h6⟩ := hown
    rw [h1, h2, h3, h4, h5, h6]
    have a1 : 0 ≤ shiftUp P.ei k := by unfold shiftUp; split_ifs; simp; exact (hnn _).1
    have a2 : 0 ≤ shiftDown nq P.rr k := by unfold shiftDown; split_ifs; exact (hnn _).2.1; simp
    have a3 : 0 ≤ shiftDown nq P.dr k := by unfold shiftDown; split_ifs; exact (hnn _).2.2.1; simp
    have a4 : 0 ≤ shiftDown nq P.cx k := by unfold shiftDown; split_ifs; exact (hnn _).2.2.2; simp
    linarith

/-! ## the hypotheses above hold for the rates `_adv_rhs` computes -/

theorem smooth_zero_of_lt (x : ℝ) (h : x < Const.MINIMAL_N_1D) : smooth x = 0 := by
  simp [smooth, h]

theorem smooth_nonneg (x : ℝ) (hx : 0 ≤ x) : 0 ≤ smooth x := by
  have hN := Const.MINIMAL_N_1D_pos
  unfold smooth
  by_cases h1 : x < Const.MINIMAL_N_1D
  · simp [h1]
  · by_cases h2 : Const.MINIMAL_N_1D < x ∧ x < lit 1000 * Const.MINIMAL_N_1D
    · simp only [h1, h2, if_false, if_true, and_self]
      -- cubic spline between (N1, 0) with slope 0 and (N2, N2) with slope 1
      simp only [lit_real, Nat.cast_ofNat] at h2
      obtain ⟨ha, hb⟩ := h2
      unfold cubic_spline
      simp only [lit_real, Nat.cast_one, Nat.cast_ofNat]
      set N1 := (Const.MINIMAL_N_1D : ℝ)
      set N2 := (1000 : ℝ) * N1
      have hd : 0 < N2 - N1 := by simp only [N2]; linarith
      set t := (x - N1) / (N2 - N1) with ht
      have ht0 : 0 < t := div_pos (by linarith) hd
      have ht1 : t < 1 := by rw [ht, div_lt_one hd]; linarith
      have e0 : (0.0 : ℝ) = 0 := by norm_num
      have e1 : (1.0 : ℝ) = 1 := by norm_num
      rw [e0, e1]
      have hN2 : 0 < N2 := by simp only [N2]; positivity
      have : (1 - t) * 0 + t * N2 + t * (1 - t) * ((1 - t) * (0 * (N2 - N1) - (N2 - 0)) + t * (-1 * (N2 - N1) + (N2 - 0)))
          = t * (N2 * (1 - (1 - t) ^ 2) + t * (1 - t) * N1) := by ring
      rw [this]
      have h2' : 0 ≤ 1 - (1 - t) ^ 2 := by nlinarith
      have : 0 ≤ N2 * (1 - (1 - t) ^ 2) + t * (1 - t) * N1 := by
        have : 0 ≤ t * (1 - t) * N1 := by
          apply mul_nonneg (mul_nonneg ht0.le (by linarith)) hN.le
        nlinarith [mul_nonneg hN2.le h2']
      exact mul_nonneg ht0.le this
    · simp only [h1, h2, if_false]; exact hx

/-- the rates the kernel computes, as entries of the stage arrays -/
theorem stage_R_ei (m : Model ℝ) (y : Array ℝ) :
    (stage m y).R_ei = if m.opts.EI then Array.ofFn (n := m.nq) fun k =>
        at' (stage m y).xs_ei k.val * at' (stage m y).n k.val * (stage m y).je * at' (stage m y).fei k.val
      else Array.replicate m.nq (lit 0 : ℝ) := rfl
theorem stage_R_rr (m : Model ℝ) (y : Array ℝ) :
    (stage m y).R_rr = if m.opts.RR then Array.ofFn (n := m.nq) fun k =>
        at' (stage m y).xs_rr k.val * at' (stage m y).n k.val * (stage m y).je * at' (stage m y).fei k.val
      else Array.replicate m.nq (lit 0 : ℝ) := rfl
theorem stage_R_dr (m : Model ℝ) (y : Array ℝ) :
    (stage m y).R_dr = if m.opts.DR then Array.ofFn (n := m.nq) fun k =>
        at' (stage m y).xs_dr k.val * at' (stage m y).n k.val * (stage m y).je * at' (stage m y).fei k.val
      else Array.replicate m.nq (lit 0 : ℝ) := rfl
theorem stage_R_ax (m : Model ℝ) (y : Array ℝ) :
    (stage m y).R_ax = if m.opts.ESC_AX then
        zeroAt (Array.ofFn (n := m.nq) fun k => max' (at' (stage m y).e_ax k.val * at' (stage m y).n k.val) (0.0 : ℝ)) m.lb
      else Array.replicate m.nq (lit 0 : ℝ) := rfl
theorem stage_R_ra (m : Model ℝ) (y : Array ℝ) :
    (stage m y).R_ra = if m.opts.ESC_RA then
        zeroAt (Array.ofFn (n := m.nq) fun k => max' (at' (stage m y).e_ra k.val * at' (stage m y).n k.val) (0.0 : ℝ)) m.lb
      else Array.replicate m.nq (lit 0 : ℝ) := rfl
theorem stage_n (m : Model ℝ) (y : Array ℝ) : (stage m y).n = (stage m y).n_r.map smooth := rfl
theorem stage_n_r (m : Model ℝ) (y : Array ℝ) : (stage m y).n_r = Array.ofFn (n := m.nq) fun k => at' y k.val := rfl

theorem at'_n (m : Model ℝ) (y : Array ℝ) (k : ℕ) (hk : k < m.nq) : at' (stage m y).n k = smooth (at' y k) := by
  rw [stage_n, stage_n_r]
  simp [at', Array.getD, hk]

/-- **the only net sinks, the escape rates, are non-negative and vanish for neutrals** -/
theorem escape_nonneg (m : Model ℝ) (y : Array ℝ) (k : ℕ) :
    0 ≤ at' (stage m y).R_ax k ∧ 0 ≤ at' (stage m y).R_ra k ∧
    (k ∈ m.lb → at' (stage m y).R_ax k = 0 ∧ at' (stage m y).R_ra k = 0) := by
  have key : ∀ (f : Fin m.nq → ℝ), 0 ≤ at' (zeroAt (Array.ofFn fun k => max' (f k) (0.0 : ℝ)) m.lb) k ∧
      (k ∈ m.lb → at' (zeroAt (Array.ofFn fun k => max' (f k) (0.0 : ℝ)) m.lb) k = 0) := by
    intro f
    rw [at'_zeroAt]
    constructor
    · split_ifs
      · exact le_refl _
      · by_cases hk : k < m.nq
        · rw [at'_ofFn _ k hk, max'_real]; exact le_trans (by norm_num) (le_max_right _ _)
        · rw [at'_ofFn_ge _ k (by omega)]
    · intro h; simp [h]
  rw [stage_R_ax, stage_R_ra]
  refine ⟨?_, ?_, fun hk => ⟨?_, ?_⟩⟩
  · split_ifs
    · exact (key _).1
    · rw [at'_replicate]
  · split_ifs
    · exact (key _).1
    · rw [at'_replicate]
  · split_ifs
    · exact (key _).2 hk
    · rw [at'_replicate]
  · split_ifs
    · exact (key _).2 hk
    · rw [at'_replicate]

/-- **an unpopulated state has no outgoing rates**: below the density cut-off the smoothed density
is exactly 0 and with it every rate that is proportional to it -/
theorem own_rates_vanish (m : Model ℝ) (y : Array ℝ) (k : ℕ) (hk : k < m.nq) (hn : at' y k < Const.MINIMAL_N_1D) :
    at' (stage m y).R_ei k = 0 ∧ at' (stage m y).R_rr k = 0 ∧ at' (stage m y).R_dr k = 0 ∧
    at' (stage m y).R_ax k = 0 ∧ at' (stage m y).R_ra k = 0 := by
  have hz : at' (stage m y).n k = 0 := by rw [at'_n m y k hk, smooth_zero_of_lt _ hn]
  rw [stage_R_ei, stage_R_rr, stage_R_dr, stage_R_ax, stage_R_ra]
  refine ⟨?_, ?_, ?_, ?_, ?_⟩
  · split_ifs
    · rw [at'_ofFn _ k hk]; simp [hz]
    · rw [at'_replicate]
  · split_ifs
    · rw [at'_ofFn _ k hk]; simp [hz]
    · rw [at'_replicate]
  · split_ifs
    · rw [at'_ofFn _ k hk]; simp [hz]
    · rw [at'_replicate]
  · split_ifs
    · rw [at'_zeroAt]; split_ifs
      · rfl
      · rw [at'_ofFn _ k hk]; simp [hz, max'_real]; norm_num
    · rw [at'_replicate]
  · split_ifs
    · rw [at'_zeroAt]; split_ifs
      · rfl
      · rw [at'_ofFn _ k hk]; simp [hz, max'_real]; norm_num
    · rw [at'_replicate]

/-- the derivative the model returns is `dnAt` over exactly these arrays -/
theorem rhs_dn (m : Model ℝ) (y : Array ℝ) (k : ℕ) :
    (rhs m y).dn k = dnAt m.nq m.lb (stage m y).prates k ∧ (rhs m y).dkT k = dkTAt m.lb ((stage m y).tin m) (stage m y).prates k :=
  ⟨rfl, rfl⟩

-- non-vacuity: a two-species layout (Z = 2 and Z = 1): blocks [0,3) and [3,5)
example : ∀ k ∈ Ico (0 + 1) 3, k ∉ ([0, 3] : List ℕ) := by decide
end C03
