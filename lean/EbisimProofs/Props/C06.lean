import EbisimProofs.Props.C05
import EbisimProofs.Props.C02

/-! # C06 — the advanced simulation reduces to the basic one in the ideal-overlap limit

Right-hand-side level (exact): with only EI, RR (optionally DR) enabled, overlap factor 1 and
densities outside the smoothing band, the advanced derivative of every ion state *is* the basic
rate matrix applied to the densities, with the neutral row frozen. What the integrators make of
it and how close `f_ei` is to 1 for merely cold ions is monitored end-to-end. -/
open Matrix
namespace C06
open Adv RateMat Num Finset

theorem eiM_mulVec {n : ℕ} (σ N : Fin n → ℝ) (k : Fin n) :
    (eiM σ *ᵥ N) k = (if h : 1 ≤ (k : ℕ) then σ ⟨k - 1, by omega⟩ * N ⟨k - 1, by omega⟩ else 0) - σ k * N k := by
  simp only [Matrix.mulVec, dotProduct, eiM, sub_mul, Finset.sum_sub_distrib, ite_mul, zero_mul]
  congr 1
  · split_ifs with h
    · rw [Finset.sum_eq_single (⟨(k : ℕ) - 1, by omega⟩ : Fin n)]
      · rw [if_pos (by simp; omega)]
      · intro b _ hb; rw [if_neg]; intro e; apply hb; apply Fin.ext; simp; omega
      · intro hh; exact absurd (Finset.mem_univ _) hh
    · apply Finset.sum_eq_zero; intro j _; rw [if_neg]; omega
  · rw [Finset.sum_eq_single k]
    · simp
    · intro b _ hb; rw [if_neg (Ne.symm hb)]
    · intro hh; exact absurd (Finset.mem_univ _) hh

theorem recM_mulVec {n : ℕ} (σ N : Fin n → ℝ) (k : Fin n) :
    (recM σ *ᵥ N) k = (if h : (k : ℕ) + 1 < n then σ ⟨k + 1, h⟩ * N ⟨k + 1, h⟩ else 0) - σ k * N k := by
  simp only [Matrix.mulVec, dotProduct, recM, sub_mul, Finset.sum_sub_distrib, ite_mul, zero_mul]
  congr 1
  · split_ifs with h
    · rw [Finset.sum_eq_single (⟨(k : ℕ) + 1, h⟩ : Fin n)]
      · rw [if_pos (by simp)]
      · intro b _ hb; rw [if_neg]; intro e; apply hb; apply Fin.ext; simp; omega
      · intro hh; exact absurd (Finset.mem_univ _) hh
    · apply Finset.sum_eq_zero; intro j _; rw [if_neg]; intro e; apply h; have := j.2; omega
  · rw [Finset.sum_eq_single k]
    · simp
    · intro b _ hb; rw [if_neg (Ne.symm hb)]
    · intro hh; exact absurd (Finset.mem_univ _) hh

/-- **the advanced right-hand side is the basic one with the neutral row frozen**: one target with
`n` charge states; rates `R = σ · N · j_e · f_ei` with `f_ei = 1`; no charge exchange, no escape.
Then for every ion state `k ≥ 1`: `dn k = (j_e (EI + RR + DR) N) k`. -/
theorem adv_refines_basic {n : ℕ} (σe σr σd N : Fin n → ℝ) (je : ℝ) (P : PRates ℝ)
    (hei : ∀ k : Fin n, P.ei k = σe k * N k * je * 1) (hrr : ∀ k : Fin n, P.rr k = σr k * N k * je * 1)
    (hdr : ∀ k : Fin n, P.dr k = σd k * N k * je * 1) (hcx : ∀ k, P.cx k = 0) (hax : ∀ k, P.ax k = 0) (hra : ∀ k, P.ra k = 0)
    (k : Fin n) (hk : (k : ℕ) ≠ 0) :
    dnAt n [0] P k = ((je • (eiM σe + recM σr + recM σd)) *ᵥ N) k ∧ dnAt n [0] P 0 = 0 := by
  constructor
  · rw [C03.dn_interior n [0] P k (by simpa using hk)]
    simp only [Matrix.smul_mulVec, Matrix.add_mulVec, Pi.smul_apply, Pi.add_apply, smul_eq_mul, eiM_mulVec, recM_mulVec,
      hcx, hax, hra, shiftUp, shiftDown, hk, if_false]
    have h1 : 1 ≤ (k : ℕ) := by omega
    have ek : P.ei ((k : ℕ) - 1) = σe ⟨k - 1, by omega⟩ * N ⟨k - 1, by omega⟩ * je * 1 := hei ⟨k - 1, by omega⟩
    rw [dif_pos h1, ek, hei k, hrr k, hdr k]
    by_cases h2 : (k : ℕ) + 1 < n
    · have er := hrr ⟨k + 1, h2⟩; have ed := hdr ⟨k + 1, h2⟩
      simp only at er ed
      simp only [h2, if_true, dif_pos, er, ed, lit_real, Nat.cast_zero]; ring
    · simp only [h2, if_false, dif_neg, not_false_eq_true, lit_real, Nat.cast_zero]; ring
  · simp [dnAt]

/-- **neutral densities are constant in every advanced run**: the derivative of every neutral row is
exactly 0 (any integrator that integrates a zero derivative exactly keeps them constant) -/
theorem neutral_constant (m : Model ℝ) (y : Array ℝ) (k : ℕ) (hk : k ∈ m.lb) :
    (rhs m y).dn k = 0 ∧ (rhs m y).dkT k = 0 :=
  C03.neutrals_frozen m.nq m.lb (stage m y).prates ((stage m y).tin m) k hk

/-- **with ionisation as the only enabled process the ions of a target grow exactly by the ionised
neutrals** (`= 0` when the neutral density is below the cut-off: pure ion injection) -/
theorem ei_only_ion_growth (nq : ℕ) (lb : List ℕ) (P : PRates ℝ) (L U : ℕ) (h : L + 2 ≤ U) (hU : U ≤ nq)
    (hint : ∀ k ∈ Ico (L + 1) U, k ∉ lb) (hEi : P.ei (U - 1) = 0)
    (hrr : ∀ k, P.rr k = 0) (hdr : ∀ k, P.dr k = 0) (hcx : ∀ k, P.cx k = 0) (hax : ∀ k, P.ax k = 0) (hra : ∀ k, P.ra k = 0) :
    ∑ k ∈ Ico (L + 1) U, dnAt nq lb P k = P.ei L := by
  rw [C03.dn_balance nq lb P L U h hU hint hEi (fun _ => hrr U) (fun _ => hdr U) (fun _ => hcx U)]
  simp [hrr, hdr, hcx, hax, hra]

/-- the electron flux of the advanced model and the basic model's unit conversion agree -/
theorem flux_agrees (m : Model ℝ) (y : Array ℝ) : (stage m y).je = Basic.flux m.j := by
  rw [C05.je_formula]; unfold Basic.flux; ring

-- non-vacuity: a three-state target (Z = 2)
example : (∀ k ∈ Ico (0 + 1) 3, k ∉ ([0] : List ℕ)) := by decide
end C06
