import EbisimProofs.Lemmas.RateMat
import EbisimProofs.Props.C07
import EbisimProofs.Props.C08
import EbisimProofs.Props.C09

/-! # C02 — the basic model conserves particles and keeps abundances non-negative

Matrix level (`RateMat.eiM/recM`, bridged to the list model `Xs.eiMat/recMat`, `Basic.rateMatrix`
that the driver executes and that is compared bit-exactly with `eixs_mat/rrxs_mat/drxs_mat` and the
captured Jacobian of `basic_simulation`).  The exact solution `exp(t J) N₀` conserves the total and
stays non-negative; what LSODA/Radau add on top (undershoot of the order of `atol`) is monitored. -/
open Matrix NormedSpace
namespace C02
open RateMat Xs Gen

/-! ## structure of the three process matrices -/

/-- **tridiagonal, off-diagonal ≥ 0, diagonal ≤ 0** for non-negative cross sections -/
theorem process_matrix_structure {n : ℕ} (x : Fin n → ℝ) (hx : ∀ k, 0 ≤ x k) (i j : Fin n) :
    ((i ≠ j → 0 ≤ eiM x i j) ∧ eiM x i i ≤ 0 ∧ ((i : ℕ) ≠ (j : ℕ) + 1 → i ≠ j → eiM x i j = 0)) ∧
    ((i ≠ j → 0 ≤ recM x i j) ∧ recM x i i ≤ 0 ∧ ((i : ℕ) + 1 ≠ (j : ℕ) → i ≠ j → recM x i j = 0)) :=
  ⟨eiM_structure x hx i j, recM_structure x hx i j⟩

/-- **columns sum to exactly zero iff the boundary cross section vanishes** (bare nucleus for
ionisation, neutral atom for recombination) — both directions -/
theorem colsum_zero_iff {n : ℕ} (x : Fin n → ℝ) :
    ((∀ j, ∑ i, eiM x i j = 0) ↔ ∀ j : Fin n, (j : ℕ) + 1 = n → x j = 0) ∧
    ((∀ j, ∑ i, recM x i j = 0) ↔ ∀ j : Fin n, (j : ℕ) = 0 → x j = 0) :=
  ⟨eiM_colsum_zero_iff x, recM_colsum_zero_iff x⟩

/-! ## the cross-section vectors of every element close the matrices -/

theorem toV_eixs_last (Z : ℕ) (hZ1 : 1 ≤ Z) (hZ : Z ≤ 105) (E : ℝ) (j : Fin (Z + 1)) (hj : (j : ℕ) + 1 = Z + 1) :
    toV (Z + 1) (eixsVec Z E) j = 0 := by
  obtain ⟨hlen, hlast⟩ := C07.eixs_bare_zero Z hZ1 hZ E
  rw [List.getLast?_eq_getElem?] at hlast
  have : (eixsVec Z E)[(j : ℕ)]? = some 0 := by rw [← hlast]; congr 1; omega
  simp [toV, List.getD_eq_getElem?_getD, this]

theorem toV_rrxs_zero (Z : ℕ) (hZ1 : 1 ≤ Z) (hZ : Z ≤ 105) (E : ℝ) (j : Fin (Z + 1)) (hj : (j : ℕ) = 0) :
    toV (Z + 1) (rrxsVec Z E) j = 0 := by
  have := (C08.rr_neutral_zero Z hZ1 hZ E).2
  simp [toV, List.getD_eq_getElem?_getD, hj, this]

theorem toV_drxs_zero (Z : ℕ) (hZ1 : 1 ≤ Z) (hZ : Z ≤ 105) (E w : ℝ) (j : Fin (Z + 1)) (hj : (j : ℕ) = 0) :
    toV (Z + 1) (drxsVec Z E w) j = 0 := by
  have := (C09.dr_main Z hZ1 hZ E w).2.2
  simp [toV, List.getD_eq_getElem?_getD, hj, this]

/-- **for every element, energy and width each process matrix has columns summing to exactly 0** -/
theorem process_matrices_closed (Z : ℕ) (hZ1 : 1 ≤ Z) (hZ : Z ≤ 105) (E w : ℝ) :
    (∀ j, ∑ i, eiM (toV (Z + 1) (eixsVec Z E)) i j = 0) ∧
    (∀ j, ∑ i, recM (toV (Z + 1) (rrxsVec Z E)) i j = 0) ∧
    (∀ j, ∑ i, recM (toV (Z + 1) (drxsVec Z E w)) i j = 0) :=
  ⟨(eiM_colsum_zero_iff _).mpr (toV_eixs_last Z hZ1 hZ E),
   (recM_colsum_zero_iff _).mpr (toV_rrxs_zero Z hZ1 hZ E),
   (recM_colsum_zero_iff _).mpr (toV_drxs_zero Z hZ1 hZ E w)⟩

theorem toV_eixs_nonneg (Z : ℕ) (hZ1 : 1 ≤ Z) (hZ : Z ≤ 105) (E : ℝ) (k : Fin (Z + 1)) : 0 ≤ toV (Z + 1) (eixsVec Z E) k := by
  have hlen := (C07.eixs_bare_zero Z hZ1 hZ E).1
  have hk : (k : ℕ) < (eixsVec Z E).length := by rw [hlen]; exact k.2
  simpa [toV, List.getD_eq_getElem?_getD, List.getElem?_eq_getElem hk] using C07.eixs_nonneg Z hZ1 hZ E k hk

theorem toV_rrxs_nonneg (Z : ℕ) (hZ1 : 1 ≤ Z) (hZ : Z ≤ 105) (E : ℝ) (hE : 0 < E) (k : Fin (Z + 1)) :
    0 ≤ toV (Z + 1) (rrxsVec Z E) k := by
  by_cases hk : (k : ℕ) = 0
  · rw [toV_rrxs_zero Z hZ1 hZ E k hk]
  · obtain ⟨h, _, _, hpos⟩ := C08.rr_main Z (k : ℕ) hZ1 hZ (by omega) (by have := k.2; omega) E
    simpa [toV, List.getD_eq_getElem?_getD, List.getElem?_eq_getElem h] using (hpos hE).le

theorem toV_drxs_nonneg (Z : ℕ) (hZ1 : 1 ≤ Z) (hZ : Z ≤ 105) (E w : ℝ) (k : Fin (Z + 1)) :
    0 ≤ toV (Z + 1) (drxsVec Z E w) k := by
  obtain ⟨hlen, hq, _⟩ := C09.dr_main Z hZ1 hZ E w
  have hk : (k : ℕ) < (drxsVec Z E w).length := by rw [hlen]; exact k.2
  simpa [toV, List.getD_eq_getElem?_getD, List.getElem?_eq_getElem hk] using (hq k hk).2

/-! ## the rate matrix of `basic_simulation` -/

/-- `j·10⁴/e (EI + RR [+ DR])` as a matrix; `dr = none` when no (non-zero) width is given -/
noncomputable def rateM (Z : ℕ) (j E : ℝ) (w : Option ℝ) : Matrix (Fin (Z + 1)) (Fin (Z + 1)) ℝ :=
  Basic.flux j • (eiM (toV (Z + 1) (eixsVec Z E)) + recM (toV (Z + 1) (rrxsVec Z E))
    + (match w with | none => 0 | some w => recM (toV (Z + 1) (drxsVec Z E w))))

/-- CNI: the neutral row frozen -/
noncomputable def cniM {n : ℕ} (J : Matrix (Fin n) (Fin n) ℝ) : Matrix (Fin n) (Fin n) ℝ :=
  fun i j => if (i : ℕ) = 0 then 0 else J i j

theorem flux_nonneg (j : ℝ) (hj : 0 ≤ j) : 0 ≤ Basic.flux j := by
  unfold Basic.flux; have := Const.Q_E_pos; positivity

theorem rateM_colsum (Z : ℕ) (hZ1 : 1 ≤ Z) (hZ : Z ≤ 105) (j E : ℝ) (w : Option ℝ) :
    ∀ c, ∑ i, rateM Z j E w i c = 0 := by
  intro c
  obtain ⟨h1, h2, _⟩ := process_matrices_closed Z hZ1 hZ E 0
  simp only [rateM, Matrix.smul_apply, Matrix.add_apply, smul_eq_mul, ← Finset.mul_sum, Finset.sum_add_distrib, h1 c, h2 c]
  cases w with
  | none => simp
  | some w => have := (process_matrices_closed Z hZ1 hZ E w).2.2 c; simp [this]

theorem rateM_metzler (Z : ℕ) (hZ1 : 1 ≤ Z) (hZ : Z ≤ 105) (j E : ℝ) (hj : 0 ≤ j) (hE : 0 < E) (w : Option ℝ) :
    ∀ i c, i ≠ c → 0 ≤ rateM Z j E w i c := by
  intro i c hic
  have hf := flux_nonneg j hj
  have h1 := (eiM_structure _ (toV_eixs_nonneg Z hZ1 hZ E) i c).1 hic
  have h2 := (recM_structure _ (toV_rrxs_nonneg Z hZ1 hZ E hE) i c).1 hic
  simp only [rateM, Matrix.smul_apply, Matrix.add_apply, smul_eq_mul]
  apply mul_nonneg hf
  cases w with
  | none => simp; linarith
  | some w => have h3 := (recM_structure _ (toV_drxs_nonneg Z hZ1 hZ E w) i c).1 hic; simp; linarith

attribute [local instance] Matrix.linftyOpNormedRing Matrix.linftyOpNormedAlgebra

/-! ## consequences for the exact solution `N(t) = exp(t J) N₀` -/

/-- **the total abundance is conserved at every time** (any matrix with zero column sums) -/
theorem total_conserved {n : ℕ} (J : Matrix (Fin n) (Fin n) ℝ) (hJ : ∀ c, ∑ i, J i c = 0) (t : ℝ) (N0 : Fin n → ℝ) :
    ∑ i, (exp (t • J) *ᵥ N0) i = ∑ i, N0 i := by
  have hcol := colsum_exp (t • J) (fun c => by simp [Matrix.smul_apply, ← Finset.mul_sum, hJ c])
  simp only [Matrix.mulVec, dotProduct]
  rw [Finset.sum_comm]
  apply Finset.sum_congr rfl; intro c _
  rw [← Finset.sum_mul, hcol c, one_mul]

/-- **no abundance ever becomes negative** (any Metzler matrix, `t ≥ 0`) -/
theorem nonneg_preserved {n : ℕ} (J : Matrix (Fin n) (Fin n) ℝ) (hJ : ∀ i c, i ≠ c → 0 ≤ J i c) (t : ℝ) (ht : 0 ≤ t)
    (N0 : Fin n → ℝ) (hN : ∀ i, 0 ≤ N0 i) : ∀ i, 0 ≤ (exp (t • J) *ᵥ N0) i := by
  intro i
  have hexp := exp_nonneg_of_metzler (t • J) (fun a b hab => by
    simp only [Matrix.smul_apply, smul_eq_mul]; exact mul_nonneg ht (hJ a b hab))
  simp only [Matrix.mulVec, dotProduct]
  exact Finset.sum_nonneg fun c _ => mul_nonneg (hexp i c) (hN c)

/-- **under CNI the neutral abundance is exactly constant** and ions stay non-negative -/
theorem cni_neutral_constant {n : ℕ} (J : Matrix (Fin n) (Fin n) ℝ) (t : ℝ) (N0 : Fin n → ℝ) (i0 : Fin n) (h0 : (i0 : ℕ) = 0) :
    (exp (t • cniM J) *ᵥ N0) i0 = N0 i0 := by
  have hrow := exp_zero_row (t • cniM J) i0 (fun c => by simp [cniM, h0])
  simp only [Matrix.mulVec, dotProduct, hrow]
  simp

theorem cni_metzler {n : ℕ} (J : Matrix (Fin n) (Fin n) ℝ) (hJ : ∀ i c, i ≠ c → 0 ≤ J i c) :
    ∀ i c, i ≠ c → 0 ≤ cniM J i c := by
  intro i c hic; simp only [cniM]; split_ifs; exact le_refl _; exact hJ i c hic

/-- **C02 for every element**: with `J` the rate matrix of `basic_simulation` (non-CNI) the total
is conserved and abundances stay non-negative for all `t ≥ 0`; under CNI the neutral abundance is
constant and all abundances stay non-negative. -/
theorem basic_model_conserves (Z : ℕ) (hZ1 : 1 ≤ Z) (hZ : Z ≤ 105) (j E : ℝ) (hj : 0 ≤ j) (hE : 0 < E) (w : Option ℝ)
    (t : ℝ) (ht : 0 ≤ t) (N0 : Fin (Z + 1) → ℝ) (hN : ∀ i, 0 ≤ N0 i) :
    (∑ i, (exp (t • rateM Z j E w) *ᵥ N0) i = ∑ i, N0 i) ∧
    (∀ i, 0 ≤ (exp (t • rateM Z j E w) *ᵥ N0) i) ∧
    ((exp (t • cniM (rateM Z j E w)) *ᵥ N0) 0 = N0 0) ∧
    (∀ i, 0 ≤ (exp (t • cniM (rateM Z j E w)) *ᵥ N0) i) :=
  ⟨total_conserved _ (rateM_colsum Z hZ1 hZ j E w) t N0,
   nonneg_preserved _ (rateM_metzler Z hZ1 hZ j E hj hE w) t ht N0 hN,
   cni_neutral_constant _ t N0 0 rfl,
   nonneg_preserved _ (cni_metzler _ (rateM_metzler Z hZ1 hZ j E hj hE w)) t ht N0 hN⟩

/-! ## the list model the driver executes is this matrix -/

theorem toM_xsMat_none (Z : ℕ) (hZ1 : 1 ≤ Z) (hZ : Z ≤ 105) (j E : ℝ) :
    toM (Z + 1) (Basic.rateMatrix Z j E none false) = rateM Z j E none := by
  have l1 := (C07.eixs_bare_zero Z hZ1 hZ E).1
  have l2 := (C08.rr_neutral_zero Z hZ1 hZ E).1
  have s1 := isSq_eiMat (eixsVec Z E); rw [l1] at s1
  have s2 := isSq_recMat (rrxsVec Z E); rw [l2] at s2
  obtain ⟨ha, hs⟩ := toM_matAdd (Z + 1) _ _ s1 s2
  have e1 := toM_eiMat (eixsVec Z E); rw [l1] at e1
  have e2 := toM_recMat (rrxsVec Z E); rw [l2] at e2
  simp only [Basic.rateMatrix, Basic.xsMat, rateM]
  rw [toM_matScale _ _ _ (by simpa using hs)]
  simp [ha, e1, e2]

-- non-vacuity: the hypotheses are met by argon at 5 keV, 100 A/cm²
example : (1 ≤ 18 ∧ 18 ≤ 105) ∧ (0 : ℝ) ≤ 100 ∧ (0 : ℝ) < 5000 := by norm_num
/-! ## exact column sums in binary64 (any scalar arithmetic), every size -/

section Exact
open Xs Num

variable {α : Type} [Num α]

/-- the scalar facts used: `0 + 0 = 0`, `0 − 0 = 0` and, for the one entry pair of a column, `(0 + (0 − x)) + (x − 0) = 0`
(all three hold in IEEE-754 binary64 for every finite `x`, in every rounding mode that is not toward −∞) -/
structure ScalarFacts (x : α) : Prop where
  zz_add : (lit 0 + lit 0 : α) = lit 0
  zz_sub : (lit 0 - lit 0 : α) = lit 0
  pair : (lit 0 + (lit 0 - x)) + (x - lit 0) = (lit 0 : α)

/-- column `j` of the ionisation matrix `diag(xs[:-1], −1) − diag(xs)` summed top to bottom (`np.sum(·, axis=0)` order) from `0` -/
def eiColSum (x : α) (n j : Nat) : α :=
  ((List.range n).map fun i => (if i = j + 1 then x else lit 0) - (if i = j then x else lit 0)).foldl (· + ·) (lit 0)

theorem foldl_range'_inv (x : α) (j : Nat) (h : ScalarFacts x) : ∀ (m k : Nat) (acc : α),
    ((k ≤ j → acc = lit 0) ∧ (k = j + 1 → acc = lit 0 + (lit 0 - x)) ∧ (j + 2 ≤ k → acc = lit 0)) →
    let r := ((List.range' k m).map fun i => (if i = j + 1 then x else lit 0) - (if i = j then x else lit 0)).foldl (· + ·) acc
    ((k + m ≤ j → r = lit 0) ∧ (k + m = j + 1 → r = lit 0 + (lit 0 - x)) ∧ (j + 2 ≤ k + m → r = lit 0)) := by
  intro m
  induction m with
  | zero => intro k acc hinv; simpa using hinv
  | succ m ih =>
    intro k acc hinv
    simp only [List.range'_succ, List.map_cons, List.foldl_cons]
    have hstep : ((k + 1 ≤ j → acc + ((if k = j + 1 then x else lit 0) - (if k = j then x else lit 0)) = lit 0) ∧
        (k + 1 = j + 1 → acc + ((if k = j + 1 then x else lit 0) - (if k = j then x else lit 0)) = lit 0 + (lit 0 - x)) ∧
        (j + 2 ≤ k + 1 → acc + ((if k = j + 1 then x else lit 0) - (if k = j then x else lit 0)) = lit 0)) := by
      obtain ⟨h1, h2, h3⟩ := hinv
      refine ⟨?_, ?_, ?_⟩
      · intro hk
        have e1 : ¬ k = j + 1 := by omega
        have e2 : ¬ k = j := by omega
        rw [h1 (by omega), if_neg e1, if_neg e2, h.zz_sub, h.zz_add]
      · intro hk
        have e1 : ¬ k = j + 1 := by omega
        have e2 : k = j := by omega
        rw [h1 (by omega), if_neg e1, if_pos e2]
      · intro hk
        by_cases e : k = j + 1
        · have e2 : ¬ k = j := by omega
          rw [h2 e, if_pos e, if_neg e2, h.pair]
        · have e2 : ¬ k = j := by omega
          rw [h3 (by omega), if_neg e, if_neg e2, h.zz_sub, h.zz_add]
    have := ih (k + 1) _ hstep
    simpa [Nat.add_assoc, Nat.add_comm 1 m] using this

/-- **every interior column of the ionisation matrix sums to exactly `0` in the scalar arithmetic at hand** (any size `n`, any column
`j` with `j + 1 < n`), given the three scalar facts about the column's one cross section -/
theorem eiColSum_exact (x : α) (n j : Nat) (hj : j + 1 < n) (h : ScalarFacts x) : eiColSum x n j = lit 0 := by
  unfold eiColSum
  rw [List.range_eq_range']
  have := foldl_range'_inv x j h n 0 (lit 0) ⟨fun _ => rfl, fun h0 => by omega, fun h0 => by omega⟩
  exact this.2.2 (by omega)

/-- the column of the model matrix `Xs.eiMat xs` is the list `eiColSum` sums -/
theorem eiMat_column (xs : List α) (j : Nat) (hj : j < xs.length) :
    (eiMat xs).map (fun row => row.getD j (lit 0)) =
      (List.range xs.length).map fun i => (if i = j + 1 then xs.getD j (lit 0) else lit 0) - (if i = j then xs.getD j (lit 0) else lit 0) := by
  unfold eiMat
  rw [List.map_map]
  apply List.map_congr_left
  intro i _
  simp [List.getD_eq_getElem?_getD, hj]

/-- **columns of `eixs_mat` sum to exactly zero in binary64 (or any scalar arithmetic with the three facts)**: summing column `j`
(`j + 1 < n`) of the model matrix top to bottom gives exactly `0` -/
theorem eiMat_colsum_exact (xs : List α) (j : Nat) (hj : j + 1 < xs.length) (h : ScalarFacts (xs.getD j (lit 0))) :
    ((eiMat xs).map fun row => row.getD j (lit 0)).foldl (· + ·) (lit 0) = lit 0 := by
  rw [eiMat_column xs j (by omega)]
  exact eiColSum_exact _ _ j hj h

/-- recombination: the pair appears in the order `x − 0` (row `j − 1`), `0 − x` (row `j`) -/
structure ScalarFactsRec (x : α) : Prop where
  zz_add : (lit 0 + lit 0 : α) = lit 0
  zz_sub : (lit 0 - lit 0 : α) = lit 0
  pair : (lit 0 + (x - lit 0)) + (lit 0 - x) = (lit 0 : α)

theorem foldl_range'_inv_rec (x : α) (j : Nat) (h : ScalarFactsRec x) : ∀ (m k : Nat) (acc : α),
    ((k ≤ j → acc = lit 0) ∧ (k = j + 1 → acc = lit 0 + (x - lit 0)) ∧ (j + 2 ≤ k → acc = lit 0)) →
    let r := ((List.range' k m).map fun i => (if i + 1 = j + 1 then x else lit 0) - (if i = j + 1 then x else lit 0)).foldl (· + ·) acc
    ((k + m ≤ j → r = lit 0) ∧ (k + m = j + 1 → r = lit 0 + (x - lit 0)) ∧ (j + 2 ≤ k + m → r = lit 0)) := by
  intro m
  induction m with
  | zero => intro k acc hinv; simpa using hinv
  | succ m ih =>
    intro k acc hinv
    simp only [List.range'_succ, List.map_cons, List.foldl_cons]
    have hstep : ((k + 1 ≤ j → acc + ((if k + 1 = j + 1 then x else lit 0) - (if k = j + 1 then x else lit 0)) = lit 0) ∧
        (k + 1 = j + 1 → acc + ((if k + 1 = j + 1 then x else lit 0) - (if k = j + 1 then x else lit 0)) = lit 0 + (x - lit 0)) ∧
        (j + 2 ≤ k + 1 → acc + ((if k + 1 = j + 1 then x else lit 0) - (if k = j + 1 then x else lit 0)) = lit 0)) := by
      obtain ⟨h1, h2, h3⟩ := hinv
      refine ⟨?_, ?_, ?_⟩
      · intro hk
        have e1 : ¬ k + 1 = j + 1 := by omega
        have e2 : ¬ k = j + 1 := by omega
        rw [h1 (by omega), if_neg e1, if_neg e2, h.zz_sub, h.zz_add]
      · intro hk
        have e1 : k + 1 = j + 1 := hk
        have e2 : ¬ k = j + 1 := by omega
        rw [h1 (by omega), if_pos e1, if_neg e2]
      · intro hk
        by_cases e : k = j + 1
        · have e1 : ¬ k + 1 = j + 1 := by omega
          rw [h2 e, if_neg e1, if_pos e, h.pair]
        · have e1 : ¬ k + 1 = j + 1 := by omega
          rw [h3 (by omega), if_neg e1, if_neg e, h.zz_sub, h.zz_add]
    have := ih (k + 1) _ hstep
    simpa [Nat.add_assoc, Nat.add_comm 1 m] using this

/-- **columns `1 … n−1` of `rrxs_mat` / `drxs_mat` sum to exactly zero** in the scalar arithmetic at hand (column index `j + 1`) -/
theorem recMat_colsum_exact (xs : List α) (j : Nat) (hj : j + 1 < xs.length) (h : ScalarFactsRec (xs.getD (j + 1) (lit 0))) :
    ((recMat xs).map fun row => row.getD (j + 1) (lit 0)).foldl (· + ·) (lit 0) = lit 0 := by
  have hcol : (recMat xs).map (fun row => row.getD (j + 1) (lit 0)) =
      (List.range xs.length).map fun i => (if i + 1 = j + 1 then xs.getD (j + 1) (lit 0) else lit 0) - (if i = j + 1 then xs.getD (j + 1) (lit 0) else lit 0) := by
    unfold recMat
    rw [List.map_map]
    apply List.map_congr_left
    intro i _
    simp [List.getD_eq_getElem?_getD, hj]
  rw [hcol, List.range_eq_range']
  have := foldl_range'_inv_rec (xs.getD (j + 1) (lit 0)) j h xs.length 0 (lit 0) ⟨fun _ => rfl, fun h0 => by omega, fun h0 => by omega⟩
  exact this.2.2 (by omega)

end Exact

end C02
