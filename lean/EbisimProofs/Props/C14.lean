import EbisimProofs.Lemmas.Consts
import EbisimProofs.Props.C13
import EbisimModel.Model.Device

/-! # C14 — Device derives a consistent grid, beam potential and trap parameters

`Dev.grid/argminSq/get` is the hand model of `Device.get` (field-by-field correspondence for every
subset of overrides); the two solver calls are the C13 model `Radial.bpEbeam`. -/
namespace C14
open Dev Num Gen Radial Real

/-! ## defaults and overrides (decision logic stated outright) -/

/-- **finite-difference vectors belong to the stored grid** -/
theorem fd_belongs_to_grid (I : Input ℝ) : (get I).ldu = fdNonuniform (get I).grid := rfl

/-- **current density** `I/(π r_e²)` in A/cm² unless overridden -/
theorem j_default (I : Input ℝ) (h : I.j = none) (hre : I.r_e ≠ 0) :
    (get I).j = I.current / (Const.PI * I.r_e ^ 2) * 1e-4 := by
  have hP := Const.PI_pos
  simp only [Dev.get, h, Option.getD_none, powN_real]
  field_simp

/-- **radial trap depth** is minus the minimum of the beam potential unless overridden -/
theorem vra_default (I : Input ℝ) (h : I.v_ra = none) : (get I).v_ra = -(minL (get I).phi) := by
  simp [Dev.get, h]

/-- **default energy spread**: half the characteristic potential `I/(4π ε₀ v_e)` at the space-charge
corrected energy `E + φ_min` -/
theorem fwhm_default (I : Input ℝ) (h : I.fwhm = none) :
    (get I).fwhm = 1 / 2 * (I.current / (4 * Const.PI * Const.EPS_0 * electron_velocity (I.e_kin + minL (get I).phi))) := by
  simp only [Dev.get, h, Option.getD_none, lit_real, Nat.cast_ofNat, Nat.cast_one]
  rw [div_div, div_div, mul_div_assoc]
  congr 2
  ring

/-- **barrier correction**: on-axis value of the potential of the same beam at the energy raised by
the barrier voltage (same grid and FD system without a barrier-tube radius; the barrier grid otherwise);
the stored barrier potential is that potential shifted by `V_ax` -/
theorem barrier_correction (I : Input ℝ) :
    let phiB := match I.r_dt_bar with
      | none => (bpEbeam (get I).grid I.current I.r_e (I.e_kin + I.v_ax) ionFree none (some (get I).ldu) 500 1e-3).phi
      | some rb => (bpEbeam (grid I.r_e rb I.n_grid) I.current I.r_e (I.e_kin + I.v_ax) ionFree none none 500 1e-3).phi
    (get I).v_ax_sc = phiB.headD 0 ∧ (get I).phiAxBarr = phiB.map (· + I.v_ax) := by
  cases h : I.r_dt_bar <;> simp [Dev.get, h]

/-- **the trap potential is the ion-free e-beam solution on the stored grid with the stored FD system** -/
theorem trap_potential (I : Input ℝ) :
    (get I).phi = (bpEbeam (get I).grid I.current I.r_e I.e_kin ionFree none (some (get I).ldu) 500 1e-3).phi := rfl

/-- **explicit overrides are stored verbatim**, for every subset of the four optional arguments,
and leave the other defaults untouched (the defaults above do not mention the overrides) -/
theorem overrides_verbatim (I : Input ℝ) :
    (∀ x, I.j = some x → (get I).j = x) ∧ (∀ x, I.fwhm = some x → (get I).fwhm = x) ∧
    (∀ x, I.v_ra = some x → (get I).v_ra = x) ∧ (∀ x, I.r_dt_bar = some x → x ≠ 0 → (get I).r_dt_bar = x) ∧
    (I.r_dt_bar = none → (get I).r_dt_bar = I.r_dt) := by
  refine ⟨fun x h => by simp [Dev.get, h], fun x h => by simp [Dev.get, h], fun x h => by simp [Dev.get, h], fun x h hx => ?_, fun h => by simp [Dev.get, h]⟩
  have : ¬ (x ≤ 0 ∧ 0 ≤ x) := fun ⟨a, b⟩ => hx (le_antisymm a b)
  simp [Dev.get, h, this]

-- non-vacuity
example : (0.2 : ℝ) / (Const.PI * (1e-4 : ℝ) ^ 2) * 1e-4 > 0 := by
  have := Const.PI_pos; positivity
end C14
