import EbisimProofs.Lemmas.Consts
import EbisimProofs.Props.C13
import EbisimProofs.Props.C12
import EbisimProofs.Lemmas.Comparison
import EbisimModel.Model.Device
import Mathlib.Analysis.SpecialFunctions.Log.Base

/-! # C14 — Device derives a consistent grid, beam potential and trap parameters

`Dev.grid/argminSq/get` is the hand model of `Device.get` (field-by-field correspondence for every
subset of overrides); the two solver calls are the C13 model `Radial.bpEbeam`. -/
namespace C14
open Dev Num Gen Radial Real

/-! ## defaults and overrides (decision logic stated outright) -/

/-- **finite-difference vectors belong to the stored grid** -/
theorem fd_belongs_to_grid (I : Input ℝ) : (get I).ldu = fdNonuniform (get I).grid := rfl

/-- **current density** `I/(π r_e²)` in A/cm² unless overridden -/
theorem j_default (I : Input ℝ) (h : I.j = none) (hre : I.r_e ≠ 0) :
    (get I).j = I.current / (Const.PI * I.r_e ^ 2) * 1e-4 := by
  have hP := Const.PI_pos
  simp only [Dev.get, h, Option.getD_none, powN_real]
  field_simp

/-- **radial trap depth** is minus the minimum of the beam potential unless overridden -/
theorem vra_default (I : Input ℝ) (h : I.v_ra = none) : (get I).v_ra = -(minL (get I).phi) := by
  simp [Dev.get, h]

/-- **default energy spread**: half the characteristic potential `I/(4π ε₀ v_e)` at the space-charge
corrected energy `E + φ_min` -/
theorem fwhm_default (I : Input ℝ) (h : I.fwhm = none) :
    (get I).fwhm = 1 / 2 * (I.current / (4 * Const.PI * Const.EPS_0 * electron_velocity (I.e_kin + minL (get I).phi))) := by
  simp only [Dev.get, h, Option.getD_none, lit_real, Nat.cast_ofNat, Nat.cast_one]
  rw [div_div, div_div, mul_div_assoc]
  congr 2
  ring

/-- **barrier correction**: on-axis value of the potential of the same beam at the energy raised by
the barrier voltage (same grid and FD system without a barrier-tube radius; the barrier grid otherwise);
the stored barrier potential is that potential shifted by `V_ax` -/
theorem barrier_correction (I : Input ℝ) :
    let phiB := match I.r_dt_bar with
      | none => (bpEbeam (get I).grid I.current I.r_e (I.e_kin + I.v_ax) ionFree none (some (get I).ldu) 500 1e-3).phi
      | some rb => (bpEbeam (grid I.r_e rb I.n_grid) I.current I.r_e (I.e_kin + I.v_ax) ionFree none none 500 1e-3).phi
    (get I).v_ax_sc = phiB.headD 0 ∧ (get I).phiAxBarr = phiB.map (· + I.v_ax) := by
  cases h : I.r_dt_bar <;> simp [Dev.get, h]

/-- **the trap potential is the ion-free e-beam solution on the stored grid with the stored FD system** -/
theorem trap_potential (I : Input ℝ) :
    (get I).phi = (bpEbeam (get I).grid I.current I.r_e I.e_kin ionFree none (some (get I).ldu) 500 1e-3).phi := rfl

/-- **explicit overrides are stored verbatim**, for every subset of the four optional arguments,
and leave the other defaults untouched (the defaults above do not mention the overrides) -/
theorem overrides_verbatim (I : Input ℝ) :
    (∀ x, I.j = some x → (get I).j = x) ∧ (∀ x, I.fwhm = some x → (get I).fwhm = x) ∧
    (∀ x, I.v_ra = some x → (get I).v_ra = x) ∧ (∀ x, I.r_dt_bar = some x → x ≠ 0 → (get I).r_dt_bar = x) ∧
    (I.r_dt_bar = none → (get I).r_dt_bar = I.r_dt) := by
  refine ⟨fun x h => by simp [Dev.get, h], fun x h => by simp [Dev.get, h], fun x h => by simp [Dev.get, h], fun x h hx => ?_, fun h => by simp [Dev.get, h]⟩
  have : ¬ (x ≤ 0 ∧ 0 ≤ x) := fun ⟨a, b⟩ => hx (le_antisymm a b)
  simp [Dev.get, h, this]

/-! ## the radial grid -/

/-- closed form of `np.linspace(a, b, num, endpoint=False)`: `a + i (b-a)/num` -/
theorem linspace_open (a b : ℝ) (num : ℕ) :
    npLinspace a b num false = (List.range num).map fun (i : ℕ) => ((i : ℕ) : ℝ) * ((b - a) / num) + a := by
  simp [npLinspace]

/-- closed form of `np.geomspace(a, b, num)` over ℝ (`0 < a`, `0 < b`, `2 ≤ num`): `10^(log₁₀ a + i·step)`,
the pinned ends are the values of the same formula -/
theorem geomspace_closed (a b : ℝ) (num : ℕ) (ha : 0 < a) (hb : 0 < b) (hn : 2 ≤ num) :
    npGeomspace a b num = (List.range num).map fun (i : ℕ) =>
      (10 : ℝ) ^ (Real.log a / Real.log 10 + ((i : ℕ) : ℝ) * ((Real.log b / Real.log 10 - Real.log a / Real.log 10) / ((num - 1 : ℕ) : ℝ))) := by
  have h10 : (0 : ℝ) < 10 := by norm_num
  have h10' : (10 : ℝ) ≠ 1 := by norm_num
  have hA : (10 : ℝ) ^ (Real.log a / Real.log 10) = a := Real.rpow_logb (b := 10) h10 h10' ha
  have hB : (10 : ℝ) ^ (Real.log b / Real.log 10) = b := Real.rpow_logb (b := 10) h10 h10' hb
  have hn1 : ((num - 1 : ℕ) : ℝ) ≠ 0 := by
    have : 0 < num - 1 := by omega
    exact_mod_cast this.ne'
  apply List.ext_getElem
  · simp [npGeomspace, npLinspace]
  · intro i h1 h2
    have hi : i < num := by simpa using h2
    simp only [npGeomspace, npLinspace, List.getElem_mapIdx, List.getElem_map, List.getElem_range, Transc.log10_real, Transc.rpow_real,
      if_true, true_and, decide_true]
    by_cases h0 : i = 0
    · subst h0; simp [hA]
    · simp only [h0, if_false]
      by_cases hl : 1 < num ∧ i = num - 1
      · simp only [hl, and_self, if_true]
        have : Real.log a / Real.log 10 + ((num - 1 : ℕ) : ℝ) * ((Real.log b / Real.log 10 - Real.log a / Real.log 10) / ((num - 1 : ℕ) : ℝ))
            = Real.log b / Real.log 10 := by field_simp; ring
        rw [this, hB]
      · have hl' : ¬ (i = num - 1) := fun e => hl ⟨by omega, e⟩
        simp only [hl, hl', if_false, and_false]
        have e10 : ((10.0 : ℝ)) = 10 := by norm_num
        rw [e10]; congr 1; ring

theorem pairwise_map_range {f : ℕ → ℝ} (n : ℕ) (hf : ∀ i j, i < j → j < n → f i < f j) :
    ((List.range n).map f).Pairwise (· < ·) := by
  rw [List.pairwise_map]
  have := List.pairwise_lt_range (n := n)
  refine List.Pairwise.imp_of_mem ?_ this
  intro a b _ hb hab
  exact hf a b hab (by simpa using hb)

/-- **the radial grid starts on the axis, is strictly increasing, ends at the drift-tube radius, has
`6·(n_grid // 6)` nodes, and node `n_grid // 6` is exactly the beam radius** -/
theorem grid_spec (r_e r_dt : ℝ) (n_grid : ℕ) (hre : 0 < r_e) (hrd : 2 * r_e < r_dt) (hn : 6 ≤ n_grid) :
    let g := grid r_e r_dt n_grid
    let k := n_grid / 6
    g.length = 6 * k ∧ g.Pairwise (· < ·) ∧ g[0]? = some 0 ∧ g[k]? = some r_e ∧ g[6 * k - 1]? = some r_dt := by
  intro g k
  have hk : 1 ≤ k := by show 1 ≤ n_grid / 6; omega
  have hkR : (0 : ℝ) < k := by exact_mod_cast hk
  have h2 : 0 < 2 * r_e := by linarith
  have hrd0 : 0 < r_dt := by linarith
  have hg : g = (List.range k).map (fun (i : ℕ) => ((i : ℕ) : ℝ) * ((r_e - 0) / k) + 0)
      ++ (List.range k).map (fun (i : ℕ) => ((i : ℕ) : ℝ) * ((2 * r_e - r_e) / k) + r_e)
      ++ (List.range (k * 4)).map (fun (i : ℕ) => (10 : ℝ) ^ (Real.log (2 * r_e) / Real.log 10 + ((i : ℕ) : ℝ) *
          ((Real.log r_dt / Real.log 10 - Real.log (2 * r_e) / Real.log 10) / ((k * 4 - 1 : ℕ) : ℝ)))) := by
    show grid r_e r_dt n_grid = _
    unfold grid
    simp only [lit_real, Nat.cast_zero, Nat.cast_ofNat]
    rw [linspace_open, linspace_open, geomspace_closed _ _ _ h2 hrd0 (by omega)]
  have hl10 : 0 < Real.log 10 := Real.log_pos (by norm_num)
  have hstep : 0 < (Real.log r_dt / Real.log 10 - Real.log (2 * r_e) / Real.log 10) / ((k * 4 - 1 : ℕ) : ℝ) := by
    apply div_pos
    · have := Real.log_lt_log h2 hrd
      have := div_lt_div_of_pos_right this hl10
      linarith
    · have : 0 < k * 4 - 1 := by omega
      exact_mod_cast this
  -- the three generating functions
  set f1 : ℕ → ℝ := fun i => (i : ℝ) * ((r_e - 0) / k) + 0 with hf1
  set f2 : ℕ → ℝ := fun i => (i : ℝ) * ((2 * r_e - r_e) / k) + r_e with hf2
  set f3 : ℕ → ℝ := fun i => (10 : ℝ) ^ (Real.log (2 * r_e) / Real.log 10 + (i : ℝ) *
          ((Real.log r_dt / Real.log 10 - Real.log (2 * r_e) / Real.log 10) / ((k * 4 - 1 : ℕ) : ℝ))) with hf3
  have hs1 : 0 < (r_e - 0) / k := by apply div_pos <;> linarith
  have hs2 : 0 < (2 * r_e - r_e) / k := by apply div_pos <;> linarith
  have m1 : ∀ i j : ℕ, i < j → f1 i < f1 j := by
    intro i j hij; simp only [hf1]
    have : (i : ℝ) < j := by exact_mod_cast hij
    nlinarith
  have m2 : ∀ i j : ℕ, i < j → f2 i < f2 j := by
    intro i j hij; simp only [hf2]
    have : (i : ℝ) < j := by exact_mod_cast hij
    nlinarith
  have m3 : ∀ i j : ℕ, i < j → f3 i < f3 j := by
    intro i j hij; simp only [hf3]
    apply Real.rpow_lt_rpow_of_exponent_lt (by norm_num)
    have : (i : ℝ) < j := by exact_mod_cast hij
    nlinarith
  have b1 : ∀ i : ℕ, i < k → f1 i < r_e := by
    intro i hi; simp only [hf1]
    have : (i : ℝ) < k := by exact_mod_cast hi
    have e : (k : ℝ) * ((r_e - 0) / k) = r_e := by field_simp; ring
    nlinarith
  have b2lo : ∀ i : ℕ, r_e ≤ f2 i := by
    intro i; simp only [hf2]
    have : (0 : ℝ) ≤ i := Nat.cast_nonneg i
    nlinarith
  have b2 : ∀ i : ℕ, i < k → f2 i < 2 * r_e := by
    intro i hi; simp only [hf2]
    have : (i : ℝ) < k := by exact_mod_cast hi
    have e : (k : ℝ) * ((2 * r_e - r_e) / k) = r_e := by field_simp; ring
    nlinarith
  have f30 : f3 0 = 2 * r_e := by
    simp only [hf3, Nat.cast_zero, zero_mul, add_zero]
    exact Real.rpow_logb (b := 10) (by norm_num) (by norm_num) h2
  have b3lo : ∀ i : ℕ, 2 * r_e ≤ f3 i := by
    intro i
    rcases Nat.eq_zero_or_pos i with h | h
    · rw [h, f30]
    · rw [← f30]; exact (m3 0 i h).le
  have f3last : f3 (k * 4 - 1) = r_dt := by
    simp only [hf3]
    have hne : ((k * 4 - 1 : ℕ) : ℝ) ≠ 0 := by
      have : 0 < k * 4 - 1 := by omega
      exact_mod_cast this.ne'
    have : Real.log (2 * r_e) / Real.log 10 + ((k * 4 - 1 : ℕ) : ℝ) *
        ((Real.log r_dt / Real.log 10 - Real.log (2 * r_e) / Real.log 10) / ((k * 4 - 1 : ℕ) : ℝ)) = Real.log r_dt / Real.log 10 := by
      field_simp; ring
    rw [this]
    exact Real.rpow_logb (b := 10) (by norm_num) (by norm_num) hrd0
  refine ⟨?_, ?_, ?_, ?_, ?_⟩
  · rw [hg]; simp; omega
  · rw [hg, List.pairwise_append, List.pairwise_append]
    refine ⟨⟨pairwise_map_range k fun i j hij _ => m1 i j hij, pairwise_map_range k fun i j hij _ => m2 i j hij, ?_⟩,
      pairwise_map_range (k * 4) fun i j hij _ => m3 i j hij, ?_⟩
    · intro a ha b hb
      simp only [List.mem_map, List.mem_range] at ha hb
      obtain ⟨i, hi, rfl⟩ := ha; obtain ⟨j, _, rfl⟩ := hb
      exact lt_of_lt_of_le (b1 i hi) (b2lo j)
    · intro a ha b hb
      simp only [List.mem_append, List.mem_map, List.mem_range] at ha hb
      obtain ⟨j, _, rfl⟩ := hb
      rcases ha with ⟨i, hi, rfl⟩ | ⟨i, hi, rfl⟩
      · exact lt_of_lt_of_le (lt_trans (b1 i hi) (by linarith)) (b3lo j)
      · exact lt_of_lt_of_le (b2 i hi) (b3lo j)
  · rw [hg, List.append_assoc, List.getElem?_append_left (by simp; omega)]
    rw [List.getElem?_map, List.getElem?_range (by omega)]
    simp [hf1]
  · rw [hg, List.append_assoc, List.getElem?_append_right (by simp), List.getElem?_append_left (by simp; omega)]
    simp only [List.length_map, List.length_range, Nat.sub_self]
    rw [List.getElem?_map, List.getElem?_range (by omega)]
    simp [hf2]
  · rw [hg, List.getElem?_append_right (by simp; omega)]
    have e : 6 * k - 1 - ((List.range k).map f1 ++ (List.range k).map f2).length = k * 4 - 1 := by simp; omega
    rw [e, List.getElem?_map, List.getElem?_range (by omega)]
    simp [f3last]

/-- `argminSq` never moves once the running minimum is 0 -/
theorem argmin_go_zero (r : ℝ) : ∀ (xs : List ℝ) (i best : ℕ), argminSq.go r xs i best 0 = best := by
  intro xs
  induction xs with
  | nil => intro i best; rfl
  | cons x xs ih =>
    intro i best
    have : ¬ (Num.powN (x - r) 2 < (0 : ℝ)) := by rw [powN_real]; exact not_lt.mpr (sq_nonneg _)
    simp only [argminSq.go, this, if_false]
    exact ih (i + 1) best

theorem argmin_go_hit (r : ℝ) (post : List ℝ) : ∀ (pre : List ℝ) (i best : ℕ) (bv : ℝ), 0 < bv → (∀ x ∈ pre, x ≠ r) →
    argminSq.go r (pre ++ r :: post) i best bv = i + pre.length := by
  intro pre
  induction pre with
  | nil =>
    intro i best bv hbv _
    have : Num.powN (r - r) 2 < bv := by rw [powN_real]; simpa using hbv
    simp only [List.nil_append, argminSq.go, this, if_true, List.length_nil, Nat.add_zero]
    rw [powN_real]; simp only [sub_self, ne_eq, OfNat.ofNat_ne_zero, not_false_eq_true, zero_pow]
    exact argmin_go_zero r post (i + 1) i
  | cons x pre ih =>
    intro i best bv hbv hne
    have hx : x ≠ r := hne x (by simp)
    have hv : 0 < Num.powN (x - r) 2 := by rw [powN_real]; exact pow_pos_of_ne (sub_ne_zero.mpr hx)
    simp only [List.cons_append, argminSq.go]
    split_ifs with h
    · rw [ih (i + 1) i _ hv (fun y hy => hne y (by simp [hy]))]; simp; omega
    · rw [ih (i + 1) best bv hbv (fun y hy => hne y (by simp [hy]))]; simp; omega
where pow_pos_of_ne {y : ℝ} (h : y ≠ 0) : 0 < y ^ 2 := by positivity

/-- the first node equal to `r` is what `int(np.argmin((g - r)**2))` returns -/
theorem argminSq_hit (r : ℝ) (pre post : List ℝ) (hne : ∀ x ∈ pre, x ≠ r) : argminSq (pre ++ r :: post) r = pre.length := by
  cases pre with
  | nil =>
    simp only [List.nil_append, argminSq, List.length_nil]
    rw [powN_real]; simp only [sub_self, ne_eq, OfNat.ofNat_ne_zero, not_false_eq_true, zero_pow]
    exact argmin_go_zero r post 1 0
  | cons x pre =>
    have hx : x ≠ r := hne x (by simp)
    have hv : 0 < Num.powN (x - r) 2 := by rw [powN_real]; have : x - r ≠ 0 := sub_ne_zero.mpr hx; positivity
    simp only [List.cons_append, argminSq]
    rw [argmin_go_hit r post pre 1 0 _ hv (fun y hy => hne y (by simp [hy]))]
    simp; omega

/-- **the beam-edge index points at the node that equals the beam radius**: `rad_re_idx = n_grid // 6`
and `rad_grid[rad_re_idx] = r_e` -/
theorem beam_edge_index (I : Input ℝ) (hre : 0 < I.r_e) (hrd : 2 * I.r_e < I.r_dt) (hn : 6 ≤ I.n_grid) :
    (get I).reIdx = I.n_grid / 6 ∧ (get I).grid[(get I).reIdx]? = some I.r_e := by
  obtain ⟨hlen, hpw, _, hk, _⟩ := grid_spec I.r_e I.r_dt I.n_grid hre hrd hn
  have hkl : I.n_grid / 6 < (grid I.r_e I.r_dt I.n_grid).length := by rw [hlen]; omega
  have hsplit : grid I.r_e I.r_dt I.n_grid = (grid I.r_e I.r_dt I.n_grid).take (I.n_grid / 6) ++ I.r_e :: (grid I.r_e I.r_dt I.n_grid).drop (I.n_grid / 6 + 1) := by
    conv_lhs => rw [← List.take_append_drop (I.n_grid / 6) (grid I.r_e I.r_dt I.n_grid)]
    congr 1
    rw [List.drop_eq_getElem_cons hkl]
    congr 1
    obtain ⟨_, e⟩ := List.getElem?_eq_some_iff.mp hk
    exact e
  have hpre : ∀ x ∈ (grid I.r_e I.r_dt I.n_grid).take (I.n_grid / 6), x ≠ I.r_e := by
    intro x hx
    obtain ⟨i, hi, rfl⟩ := List.mem_take_iff_getElem.mp hx
    obtain ⟨_, e⟩ := List.getElem?_eq_some_iff.mp hk
    have := List.pairwise_iff_getElem.mp hpw i (I.n_grid / 6) (by omega) hkl (by omega)
    rw [e] at this
    exact ne_of_lt this
  have hidx : (get I).reIdx = I.n_grid / 6 := by
    show argminSq (grid I.r_e I.r_dt I.n_grid) I.r_e = _
    rw [hsplit, argminSq_hit I.r_e _ _ hpre]
    simp; omega
  exact ⟨hidx, by rw [hidx]; exact hk⟩

-- non-vacuity: the hypotheses of `grid_spec` / `beam_edge_index` hold for an ordinary device (r_e = 100 µm, r_dt = 5 mm, 400 nodes)
example : (0 : ℝ) < 1e-4 ∧ 2 * (1e-4 : ℝ) < 5e-3 ∧ 6 ≤ 400 := by norm_num
example : (0.2 : ℝ) / (Const.PI * (1e-4 : ℝ) ^ 2) * 1e-4 > 0 := by
  have := Const.PI_pos; positivity
/-! ## the trap potential is a well (maximum principle) -/

/-- the Boltzmann–Poisson problem `Device.get` hands to the e-beam solver for the trap potential -/
noncomputable def deviceBP (I : Input ℝ) : BPIn ℝ :=
  { variant := .ebeam, r := (get I).grid, ldu := (get I).ldu, b0 := [],
    cden := beamDensity (get I).grid I.current I.r_e, e_kin := I.e_kin, sp := ionFree }

/-- the stored trap potential is what the Newton iteration returns for exactly this problem -/
theorem trap_potential_is_loop (I : Input ℝ) :
    (get I).phi = (finish (loop (deviceBP I) 1e-3 500
      (firstGuessEbeam (get I).grid I.current I.r_e I.e_kin ionFree) 0 none)).phi := rfl

/-- **the beam potential never decreases outward and is nowhere positive** — for the exact solution
of the discretised ion-free problem the iteration converges to (`trap_potential_well_partial`: the
stored potential is the last Newton iterate, whose distance to the fixed point is what the stopping
test bounds; zero at the wall holds for every iterate, C13 `loop_wall_zero`). Grid hypothesis
`GridMP`: strictly increasing with `r[i+1] ≤ 3 r[i]` (`gridMP_of_indexed`). -/
theorem trap_potential_well_partial (I : Input ℝ) (phi : List ℝ) (hg : GridMP (get I).grid)
    (hcur : 0 ≤ I.current) (hphi : phi.length = (get I).grid.length)
    (hfix : mulL 0 (get I).ldu phi = (step (deviceBP I) phi).b) (hw : phi.getLast? = some 0) :
    List.Pairwise (· ≤ ·) phi ∧ ∀ v ∈ phi, v ≤ 0 := by
  refine C13.beam_potential_monotone (deviceBP I) phi rfl ?_ hg rfl hphi ?_ ?_ hfix hw
  · intro s hs
    simp only [deviceBP, ionFree, List.mem_singleton] at hs
    subst hs; simp
  · simp [deviceBP, beamDensity]
  · exact C13.beamDensity_nonpos _ _ _ hcur

/-- consequently the radial trap depth `−min φ` is the depth on the axis -/
theorem trap_depth_on_axis_partial (I : Input ℝ) (phi : List ℝ) (hg : GridMP (get I).grid)
    (hcur : 0 ≤ I.current) (hphi : phi.length = (get I).grid.length)
    (hfix : mulL 0 (get I).ldu phi = (step (deviceBP I) phi).b) (hw : phi.getLast? = some 0) :
    ∀ x0 ∈ phi.head?, ∀ v ∈ phi, x0 ≤ v := by
  intro x0 hx0 v hv
  have hm := (trap_potential_well_partial I phi hg hcur hphi hfix hw).1
  match phi, hx0 with
  | y :: ys, hx0 =>
    simp only [List.head?_cons, Option.mem_def, Option.some.injEq] at hx0
    subst hx0
    rcases List.mem_cons.mp hv with rfl | hv'
    · exact le_rfl
    · exact (List.pairwise_cons.mp hm).1 v hv'

/-- **the trap potential lies between the potentials of the same beam at the nominal and at the
space-charge-reduced electron velocity** (discrete form, exact solution of the ion-free problem on any
admissible device grid): `φ_lo ≤ φ ≤ φ_hi`, where `φ_lo` / `φ_hi` are the finite-difference Poisson
potentials of the uniform beam with the electron velocity frozen at `E + p_min` / at `E`; the analytic
uniform-beam potentials of the property are their continuum limits -/
theorem trap_potential_between_partial (I : Input ℝ) (phi philo phihi : List ℝ) (pm : ℝ)
    (hg : GridMP (get I).grid) (hcur : 0 ≤ I.current)
    (hphi : phi.length = (get I).grid.length) (hlo_len : philo.length = (get I).grid.length)
    (hhi_len : phihi.length = (get I).grid.length)
    (hfix : mulL 0 (get I).ldu phi = (step (deviceBP I) phi).b)
    (hw : phi.getLast? = some 0) (hwlo : philo.getLast? = some 0) (hwhi : phihi.getLast? = some 0)
    (hpm : ∀ p ∈ phi, pm ≤ p) (hpos : 0 < I.e_kin + pm)
    (hlo : mulL 0 (get I).ldu philo = (beamDensity (get I).grid I.current I.r_e).map fun c =>
      -c / Real.sqrt (2 * Const.Q_E * (I.e_kin + pm) / Const.M_E) / Const.EPS_0)
    (hhi : mulL 0 (get I).ldu phihi = (beamDensity (get I).grid I.current I.r_e).map fun c =>
      -c / Real.sqrt (2 * Const.Q_E * I.e_kin / Const.M_E) / Const.EPS_0) :
    (∀ p ∈ List.zip philo phi, p.1 ≤ p.2) ∧ (∀ p ∈ List.zip phi phihi, p.1 ≤ p.2) := by
  refine C13.beam_potential_between (deviceBP I) phi philo phihi pm rfl ?_ hg rfl hphi hlo_len hhi_len ?_ ?_
    hfix hw hwlo hwhi hpm hpos hlo hhi
  · intro s hs
    simp only [deviceBP, ionFree, List.mem_singleton] at hs
    subst hs; simp
  · simp [deviceBP, beamDensity]
  · exact C13.beamDensity_nonpos _ _ _ hcur

/-! ## every device grid is admissible -/

/-- closed form of the radial grid over ℝ: uniform on `[0, r_e)`, uniform on `[r_e, 2 r_e)`, geometric on
`[2 r_e, r_dt]` -/
theorem grid_closed_form (r_e r_dt : ℝ) (n_grid : ℕ) (hre : 0 < r_e) (hrd : 2 * r_e < r_dt) (hn : 6 ≤ n_grid) :
    grid r_e r_dt n_grid =
      (List.range (n_grid / 6)).map (fun (i : ℕ) => ((i : ℕ) : ℝ) * ((r_e - 0) / ((n_grid / 6 : ℕ) : ℝ)) + 0)
      ++ (List.range (n_grid / 6)).map (fun (i : ℕ) => ((i : ℕ) : ℝ) * ((2 * r_e - r_e) / ((n_grid / 6 : ℕ) : ℝ)) + r_e)
      ++ (List.range (n_grid / 6 * 4)).map (fun (i : ℕ) => (10 : ℝ) ^ (Real.log (2 * r_e) / Real.log 10 + ((i : ℕ) : ℝ) *
          ((Real.log r_dt / Real.log 10 - Real.log (2 * r_e) / Real.log 10) / ((n_grid / 6 * 4 - 1 : ℕ) : ℝ)))) := by
  have h2 : 0 < 2 * r_e := by linarith
  have hrd0 : 0 < r_dt := by linarith
  unfold grid
  simp only [lit_real, Nat.cast_zero, Nat.cast_ofNat]
  rw [linspace_open, linspace_open, geomspace_closed _ _ _ h2 hrd0 (by omega)]

/-- **every device grid is admissible for the maximum principle**: for `n_grid ≥ 12` and a tube radius
below `2 r_e · 3^(4k−1)` (`k = n_grid // 6`; for `n_grid ≥ 60` this is `r_dt < 10¹⁸ r_e`) consecutive
nodes satisfy `r[i+1] ≤ 3 r[i]` from the second node on -/
theorem device_grid_admissible (r_e r_dt : ℝ) (n_grid : ℕ) (hre : 0 < r_e) (hrd : 2 * r_e < r_dt)
    (hn : 12 ≤ n_grid) (hmax : r_dt ≤ 2 * r_e * 3 ^ (4 * (n_grid / 6) - 1)) :
    GridMP (grid r_e r_dt n_grid) := by
  obtain ⟨hlen, hpw, h0, _, _⟩ := grid_spec r_e r_dt n_grid hre hrd (by omega)
  set k := n_grid / 6 with hk
  have hk2 : 2 ≤ k := by omega
  have hkR : (0 : ℝ) < k := by exact_mod_cast (by omega : 0 < k)
  have h2 : 0 < 2 * r_e := by linarith
  have hrd0 : 0 < r_dt := by linarith
  have hcf := grid_closed_form r_e r_dt n_grid hre hrd (by omega)
  rw [← hk] at hcf
  set f1 : ℕ → ℝ := fun i => (i : ℝ) * ((r_e - 0) / k) + 0 with hf1
  set f2 : ℕ → ℝ := fun i => (i : ℝ) * ((2 * r_e - r_e) / k) + r_e with hf2
  set st : ℝ := (Real.log r_dt / Real.log 10 - Real.log (2 * r_e) / Real.log 10) / ((k * 4 - 1 : ℕ) : ℝ) with hst
  set f3 : ℕ → ℝ := fun i => (10 : ℝ) ^ (Real.log (2 * r_e) / Real.log 10 + (i : ℝ) * st) with hf3
  set g := grid r_e r_dt n_grid with hgdef
  have hl10 : 0 < Real.log 10 := Real.log_pos (by norm_num)
  -- element access
  have g1 : ∀ i (h : i < g.length), i < k → g[i] = f1 i := by
    intro i h hi
    have : g[i]? = some (f1 i) := by
      rw [hcf, List.append_assoc, List.getElem?_append_left (by simp; omega), List.getElem?_map, List.getElem?_range hi]; rfl
    exact (List.getElem?_eq_some_iff.mp this).2
  have g2 : ∀ i (h : i < g.length), k ≤ i → i < 2 * k → g[i] = f2 (i - k) := by
    intro i h hi1 hi2
    have : g[i]? = some (f2 (i - k)) := by
      rw [hcf, List.append_assoc, List.getElem?_append_right (by simp; omega), List.getElem?_append_left (by simp; omega)]
      simp only [List.length_map, List.length_range]
      rw [List.getElem?_map, List.getElem?_range (by omega)]; rfl
    exact (List.getElem?_eq_some_iff.mp this).2
  have g3 : ∀ i (h : i < g.length), 2 * k ≤ i → g[i] = f3 (i - 2 * k) := by
    intro i h hi1
    have : g[i]? = some (f3 (i - 2 * k)) := by
      rw [hcf, List.getElem?_append_right (by simp; omega)]
      simp only [List.length_append, List.length_map, List.length_range]
      rw [List.getElem?_map, List.getElem?_range (by rw [hlen] at h; omega)]
      have : i - (k + k) = i - 2 * k := by omega
      rw [this]; rfl
    exact (List.getElem?_eq_some_iff.mp this).2
  -- bounds on the three pieces
  have e1 : (k : ℝ) * ((r_e - 0) / k) = r_e := by field_simp; ring
  have e2 : (k : ℝ) * ((2 * r_e - r_e) / k) = r_e := by field_simp; ring
  have hs1 : 0 < (r_e - 0) / k := by apply div_pos <;> linarith
  have hs2 : 0 < (2 * r_e - r_e) / k := by apply div_pos <;> linarith
  have f2lo : ∀ i : ℕ, r_e ≤ f2 i := by
    intro i; simp only [hf2]; have : (0 : ℝ) ≤ i := Nat.cast_nonneg i; nlinarith
  have f2hi : ∀ i : ℕ, i ≤ k → f2 i ≤ 2 * r_e := by
    intro i hi; simp only [hf2]
    have : (i : ℝ) ≤ k := by exact_mod_cast hi
    nlinarith
  have f30 : f3 0 = 2 * r_e := by
    simp only [hf3, Nat.cast_zero, zero_mul, add_zero]
    exact Real.rpow_logb (b := 10) (by norm_num) (by norm_num) h2
  have hkm : (0 : ℝ) < ((k * 4 - 1 : ℕ) : ℝ) := by
    have : 0 < k * 4 - 1 := by omega
    exact_mod_cast this
  have hst3 : st ≤ Real.log 3 / Real.log 10 := by
    rw [hst, div_le_iff₀ hkm, ← sub_div, div_mul_eq_mul_div, div_le_div_iff_of_pos_right hl10]
    have hq : r_dt / (2 * r_e) ≤ 3 ^ (4 * k - 1) := by rw [div_le_iff₀ h2]; linarith [hmax]
    have := Real.log_le_log (div_pos hrd0 h2) hq
    rw [Real.log_div hrd0.ne' h2.ne', Real.log_pow] at this
    have hc : ((4 * k - 1 : ℕ) : ℝ) = ((k * 4 - 1 : ℕ) : ℝ) := by congr 1; omega
    rw [hc] at this
    linarith
  have f3step : ∀ i : ℕ, f3 (i + 1) ≤ 3 * f3 i := by
    intro i
    simp only [hf3]
    have e : Real.log (2 * r_e) / Real.log 10 + ((i + 1 : ℕ) : ℝ) * st =
        (Real.log (2 * r_e) / Real.log 10 + (i : ℝ) * st) + st := by push_cast; ring
    rw [e, Real.rpow_add (by norm_num), mul_comm]
    apply mul_le_mul_of_nonneg_right _ (Real.rpow_nonneg (by norm_num) _)
    calc (10 : ℝ) ^ st ≤ 10 ^ (Real.log 3 / Real.log 10) :=
          Real.rpow_le_rpow_of_exponent_le (by norm_num) hst3
      _ = 3 := Real.rpow_logb (b := 10) (by norm_num) (by norm_num) (by norm_num)
  -- assemble
  refine gridMP_of_indexed g (by rw [hlen]; omega) hpw ?_ ?_
  · have : g[0]? = some 0 := h0
    rw [(List.getElem?_eq_some_iff.mp this).2]; simp
  · intro i hi h
    rw [hlen] at h
    by_cases c1 : i + 1 < k
    · rw [g1 (i + 1) (by omega) c1, g1 i (by omega) (by omega)]
      simp only [hf1]
      have : (1 : ℝ) ≤ i := by exact_mod_cast hi
      push_cast; nlinarith
    · by_cases c2 : i + 1 < 2 * k
      · rw [g2 (i + 1) (by omega) (by omega) c2]
        have hup := f2hi (i + 1 - k) (by omega)
        by_cases c3 : i < k
        · -- junction: i = k - 1
          rw [g1 i (by omega) c3]
          have hz : i + 1 - k = 0 := by omega
          rw [hz]
          simp only [hf1, hf2]
          have hik : (i : ℝ) = k - 1 := by
            have : i + 1 = k := by omega
            have : ((i + 1 : ℕ) : ℝ) = k := by exact_mod_cast this
            push_cast at this; linarith
          have hk2R : (2 : ℝ) ≤ k := by exact_mod_cast hk2
          have hsmall : (r_e - 0) / k ≤ r_e / 2 := by
            rw [sub_zero, div_le_div_iff₀ hkR (by norm_num)]; nlinarith
          have hprod : (i : ℝ) * ((r_e - 0) / k) = r_e - (r_e - 0) / k := by
            rw [hik]; nlinarith
          rw [hprod]; push_cast; linarith
        · rw [g2 i (by omega) (by omega) (by omega)]
          have := f2lo (i - k)
          linarith
      · by_cases c3 : i < 2 * k
        · -- junction: i + 1 = 2k
          rw [g3 (i + 1) (by omega) (by omega), g2 i (by omega) (by omega) c3]
          have : i + 1 - 2 * k = 0 := by omega
          rw [this, f30]
          have := f2lo (i - k)
          linarith
        · rw [g3 (i + 1) (by omega) (by omega), g3 i (by omega) (by omega)]
          have : i + 1 - 2 * k = (i - 2 * k) + 1 := by omega
          rw [this]
          exact f3step _

/-- **the device's trap potential well, for every device grid** (exact solution of the discretised
ion-free problem) -/
theorem trap_potential_well_device_partial (I : Input ℝ) (phi : List ℝ)
    (hre : 0 < I.r_e) (hrd : 2 * I.r_e < I.r_dt) (hn : 12 ≤ I.n_grid)
    (hmax : I.r_dt ≤ 2 * I.r_e * 3 ^ (4 * (I.n_grid / 6) - 1))
    (hcur : 0 ≤ I.current) (hphi : phi.length = (get I).grid.length)
    (hfix : mulL 0 (get I).ldu phi = (step (deviceBP I) phi).b) (hw : phi.getLast? = some 0) :
    List.Pairwise (· ≤ ·) phi ∧ ∀ v ∈ phi, v ≤ 0 :=
  trap_potential_well_partial I phi (device_grid_admissible I.r_e I.r_dt I.n_grid hre hrd hn hmax) hcur hphi hfix hw

-- non-vacuity: r_e = 100 µm, r_dt = 5 mm, 400 nodes
example : (0 : ℝ) < 1e-4 ∧ 2 * (1e-4 : ℝ) < 5e-3 ∧ 12 ≤ 400 ∧ (5e-3 : ℝ) ≤ 2 * 1e-4 * 3 ^ (4 * (400 / 6) - 1) := by
  refine ⟨by norm_num, by norm_num, by norm_num, ?_⟩
  have h27 : (3 : ℝ) ^ 3 ≤ 3 ^ (4 * (400 / 6) - 1) := pow_le_pow_right₀ (by norm_num) (by norm_num)
  have e27 : (3 : ℝ) ^ 3 = 27 := by norm_num
  rw [e27] at h27
  have h5 : (5e-3 : ℝ) = 2 * 1e-4 * 25 := by norm_num
  rw [h5]
  apply mul_le_mul_of_nonneg_left _ (by norm_num)
  exact le_trans (by norm_num : (25 : ℝ) ≤ 27) h27

/-! ## the stored potential itself (last Newton iterate) -/

theorem loop_some (B : BPIn ℝ) (tol : ℝ) : ∀ (fuel : ℕ) (phi : List ℝ) (it : ℕ) (last : Option (StepOut ℝ)),
    ∃ o, (loop B tol (fuel + 1) phi it last).2.1 = some o := by
  intro fuel
  induction fuel with
  | zero =>
    intro phi it last
    simp only [loop]
    split_ifs <;> exact ⟨_, rfl⟩
  | succ f ih =>
    intro phi it last
    rw [loop]
    split_ifs
    · exact ⟨_, rfl⟩
    · exact ih _ _ _

/-- the stored trap potential is the output of one Newton update `step` of the device's e-beam problem -/
theorem trap_potential_is_step (I : Input ℝ) :
    ∃ phiPrev, (get I).phi = (step (deviceBP I) phiPrev).phi := by
  rw [trap_potential_is_loop]
  obtain ⟨o, ho⟩ := loop_some (deviceBP I) 1e-3 499 (firstGuessEbeam (get I).grid I.current I.r_e I.e_kin ionFree) 0 none
  obtain ⟨pp, e1, e2, _⟩ := C13.converged_exit (deviceBP I) 1e-3 500 _ 0 none o ho (by norm_num)
  refine ⟨pp, ?_⟩
  rw [← e1]
  simp only [finish]
  rw [show loop (deviceBP I) 1e-3 500 (firstGuessEbeam (get I).grid I.current I.r_e I.e_kin ionFree) 0 none =
    ((loop (deviceBP I) 1e-3 500 (firstGuessEbeam (get I).grid I.current I.r_e I.e_kin ionFree) 0 none).1,
     (loop (deviceBP I) 1e-3 500 (firstGuessEbeam (get I).grid I.current I.r_e I.e_kin ionFree) 0 none).2.1,
     (loop (deviceBP I) 1e-3 500 (firstGuessEbeam (get I).grid I.current I.r_e I.e_kin ionFree) 0 none).2.2) from rfl]
  rw [ho]
  simp only
  exact e2

theorem fdNonuniform_getLast? (r : List ℝ) (hg : GridMP r) : (fdNonuniform r).getLast? = some (0, 1, 0) := by
  match r, hg with
  | r0 :: r1 :: rest, _ =>
    simp only [fdNonuniform]
    rw [List.getLast?_cons_of_ne_nil (by cases rest <;> simp [fdInterior])]
    exact C12.fdInterior_getLast? _ _ _

/-- **the stored trap potential itself never decreases outward and is nowhere positive** — for the potential `Device.get` stores (the last
Newton iterate `step φ_prev`, `trap_potential_is_step`), on every device grid, provided the last Newton system has non-vanishing
pivots, the electron energy `E + φ_prev` is positive at every node and the last correction satisfies `y ≥ −2(E + φ_prev)` (implied by the
stopping test below the virtual-cathode limit). Zero at the wall: C13 `loop_wall_zero`; minimum on the axis follows. -/
theorem trap_potential_returned_well (I : Input ℝ) (phiPrev : List ℝ)
    (hre : 0 < I.r_e) (hrd : 2 * I.r_e < I.r_dt) (hn : 12 ≤ I.n_grid)
    (hmax : I.r_dt ≤ 2 * I.r_e * 3 ^ (4 * (I.n_grid / 6) - 1)) (hcur : 0 ≤ I.current)
    (hstep : (get I).phi = (step (deviceBP I) phiPrev).phi) (hlen : phiPrev.length = (get I).grid.length)
    (hp : PivotsOk 0 (newtonRows (deviceBP I).ldu (step (deviceBP I) phiPrev).jd
      (targetFun none (deviceBP I).ldu phiPrev (step (deviceBP I) phiPrev).b)))
    (hpos : ∀ p ∈ phiPrev, 0 < I.e_kin + p)
    (hy : ∀ i (h1 : i < phiPrev.length) (h2 : i < (step (deviceBP I) phiPrev).y.length),
      -(2 * (I.e_kin + phiPrev[i])) ≤ ((step (deviceBP I) phiPrev).y)[i]) :
    List.Pairwise (· ≤ ·) (get I).phi ∧ ∀ v ∈ (get I).phi, v ≤ 0 := by
  have hg : GridMP (get I).grid := device_grid_admissible I.r_e I.r_dt I.n_grid hre hrd hn hmax
  obtain ⟨hglen, _, _, _, hlastg⟩ := grid_spec I.r_e I.r_dt I.n_grid hre hrd (by omega)
  have hgl : (get I).grid.getLast? = some I.r_dt := by
    show (grid I.r_e I.r_dt I.n_grid).getLast? = _
    rw [List.getLast?_eq_getElem?, hglen]; exact hlastg
  obtain ⟨hcl, hcz⟩ := C13.beam_density_premise (get I).grid I.current I.r_e I.r_dt hgl (by linarith)
  have h2 := hg.two_le
  have hldul : (get I).ldu.length = (get I).grid.length := fdNonuniform_length' _ hg
  have hw : (step (deviceBP I) phiPrev).phi.getLast? = some 0 :=
    C13.step_wall_zero (deviceBP I) phiPrev 0 (by omega) (by simp [deviceBP, hlen]) (by simp [deviceBP, hlen, hldul])
      (fdNonuniform_getLast? _ hg) (fun h => absurd rfl h) (fun _ => ⟨by simp [deviceBP, hcl, hlen], hcz⟩)
  rw [hstep]
  refine C13.ionfree_iterate_well (deviceBP I) phiPrev rfl ?_ hg rfl hlen hcl hcz (C13.beamDensity_nonpos _ _ _ hcur) hp hpos hy hw
  intro s hs
  simp only [deviceBP, ionFree, List.mem_singleton] at hs
  subst hs; simp

/-- **the stored trap potential lies between two frozen-velocity Poisson potentials of the same beam** — the iterate-level form of the property's
"between the analytic uniform-beam potentials for the nominal and the space-charge-reduced electron velocity", for the potential `Device.get`
stores (`(get I).phi = step φ_prev`): with the previous iterate in `[p_min, 0]`, `E + p_min > 0` and a last correction `|y| ≤ 2δ(E + φ_prev)`
(`δ ≈ 10⁻³` from the stopping test), `φ_lo ≤ (get I).phi ≤ φ_hi`, `φ_lo` / `φ_hi` being the finite-difference Poisson potentials on the device
mesh of the uniform beam at the velocity of `E + p_min` with the charge scaled by `1 + δ`, and at the velocity of `E` with the charge scaled by
`1 − δ` (their continuum limits are the analytic potentials, C12) -/
theorem trap_potential_returned_between (I : Input ℝ) (phiPrev philo phihi : List ℝ) (pm δ : ℝ)
    (hre : 0 < I.r_e) (hrd : 2 * I.r_e < I.r_dt) (hn : 12 ≤ I.n_grid)
    (hmax : I.r_dt ≤ 2 * I.r_e * 3 ^ (4 * (I.n_grid / 6) - 1)) (hcur : 0 ≤ I.current)
    (hstep : (get I).phi = (step (deviceBP I) phiPrev).phi) (hlen : phiPrev.length = (get I).grid.length)
    (hlo_len : philo.length = (get I).grid.length) (hhi_len : phihi.length = (get I).grid.length)
    (hp : PivotsOk 0 (newtonRows (deviceBP I).ldu (step (deviceBP I) phiPrev).jd
      (targetFun none (deviceBP I).ldu phiPrev (step (deviceBP I) phiPrev).b)))
    (hpm : ∀ p ∈ phiPrev, pm ≤ p) (hp0 : ∀ p ∈ phiPrev, p ≤ 0) (hpos : 0 < I.e_kin + pm) (hδ0 : 0 ≤ δ) (hδ1 : δ < 1)
    (hy : ∀ i (h1 : i < phiPrev.length) (h2 : i < (step (deviceBP I) phiPrev).y.length),
      |((step (deviceBP I) phiPrev).y)[i]| ≤ 2 * δ * (I.e_kin + phiPrev[i]))
    (hwlo : philo.getLast? = some 0) (hwhi : phihi.getLast? = some 0)
    (hlo : mulL 0 (get I).ldu philo = (beamDensity (get I).grid I.current I.r_e).map fun c =>
      (1 + δ) * (-c / Real.sqrt (2 * Const.Q_E * (I.e_kin + pm) / Const.M_E) / Const.EPS_0))
    (hhi : mulL 0 (get I).ldu phihi = (beamDensity (get I).grid I.current I.r_e).map fun c =>
      (1 - δ) * (-c / Real.sqrt (2 * Const.Q_E * I.e_kin / Const.M_E) / Const.EPS_0)) :
    (∀ p ∈ List.zip philo (get I).phi, p.1 ≤ p.2) ∧ (∀ p ∈ List.zip (get I).phi phihi, p.1 ≤ p.2) := by
  have hg : GridMP (get I).grid := device_grid_admissible I.r_e I.r_dt I.n_grid hre hrd hn hmax
  obtain ⟨hglen, _, _, _, hlastg⟩ := grid_spec I.r_e I.r_dt I.n_grid hre hrd (by omega)
  have hgl : (get I).grid.getLast? = some I.r_dt := by
    show (grid I.r_e I.r_dt I.n_grid).getLast? = _
    rw [List.getLast?_eq_getElem?, hglen]; exact hlastg
  obtain ⟨hcl, hcz⟩ := C13.beam_density_premise (get I).grid I.current I.r_e I.r_dt hgl (by linarith)
  have h2 := hg.two_le
  have hldul : (get I).ldu.length = (get I).grid.length := fdNonuniform_length' _ hg
  have hw : (step (deviceBP I) phiPrev).phi.getLast? = some 0 :=
    C13.step_wall_zero (deviceBP I) phiPrev 0 (by omega) (by simp [deviceBP, hlen]) (by simp [deviceBP, hlen, hldul])
      (fdNonuniform_getLast? _ hg) (fun h => absurd rfl h) (fun _ => ⟨by simp [deviceBP, hcl, hlen], hcz⟩)
  rw [hstep]
  refine C13.ionfree_iterate_between (deviceBP I) phiPrev philo phihi pm δ rfl ?_ hg rfl hlen hlo_len hhi_len hcl hcz
    (C13.beamDensity_nonpos _ _ _ hcur) hp hpm hp0 hpos hδ0 hδ1 hy hw hwlo hwhi hlo hhi
  intro s hs
  simp only [deviceBP, ionFree, List.mem_singleton] at hs
  subst hs; simp

end C14
