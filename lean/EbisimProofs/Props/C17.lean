import EbisimProofs.RealInst
import EbisimModel.Model.Book

/-! # C17 — an energy scan equals independent simulations, ordered and addressable by energy

`Scan.run/getResult/abundanceAtTime/abundanceOfCs` is the hand model of `energy_scan` and
`EnergyScanResult`; the simulation function, the argument preparation and the per-result
interpolation are parameters (any function). -/
namespace C17
open Scan Num

/-- **the scanned energies are the requested ones in ascending order** (a permutation: duplicates are
kept), for any transitive, total comparison -/
theorem energies_sorted_perm {κ ε ρ : Type} (le : ε → ε → Bool) (prep : κ → κ) (sim : κ → ε → ρ) (kw : κ) (energies : List ε)
    (trans : ∀ a b c, le a b → le b c → le a c) (total : ∀ a b, le a b || le b a) :
    (run le prep sim kw energies).1.Pairwise (fun a b => le a b) ∧ (run le prep sim kw energies).1.Perm energies :=
  ⟨List.pairwise_mergeSort trans total energies, List.mergeSort_perm energies le⟩

/-- **result `i` is the direct call of the simulation function with energy `i` and the prepared
arguments**, which differ from the caller's only by what `prep` does (the caller's own arguments
`kw` are not touched: `run` builds new values) -/
theorem results_pointwise {κ ε ρ : Type} (le : ε → ε → Bool) (prep : κ → κ) (sim : κ → ε → ρ) (kw : κ) (energies : List ε) :
    let r := run le prep sim kw energies
    r.2.length = r.1.length ∧ r.1.length = energies.length ∧
    ∀ i (h : i < r.1.length) (h' : i < r.2.length), r.2[i] = sim (prep kw) r.1[i] := by
  simp [run]

theorem indexOf?_spec {ε : Type} (eq : ε → ε → Bool) (e : ε) : ∀ (l : List ε) (i0 : ℕ),
    (∀ j, indexOf? eq e l i0 = some j → ∃ (h : j - i0 < l.length), i0 ≤ j ∧ eq l[j - i0] e = true ∧
        ∀ k (hk : k < j - i0), eq (l[k]'(by omega)) e = false) ∧
    (indexOf? eq e l i0 = none → ∀ x ∈ l, eq x e = false) := by
  intro l
  induction l with
  | nil => intro i0; simp [indexOf?]
  | cons x xs ih =>
    intro i0
    simp only [indexOf?]
    by_cases hx : eq x e = true
    · simp only [hx, if_true]
      constructor
      · intro j hj; cases hj; simp [hx]
      · intro h; cases h
    · simp only [hx]
      obtain ⟨ih1, ih2⟩ := ih (i0 + 1)
      constructor
      · intro j hj
        obtain ⟨hlt, hle, heq, hbefore⟩ := ih1 j hj
        have e1 : j - i0 = (j - (i0 + 1)) + 1 := by omega
        refine ⟨by simp; omega, by omega, ?_, ?_⟩
        · simp only [e1, List.getElem_cons_succ]; exact heq
        · intro k hk
          cases k with
          | zero => simpa using hx
          | succ k' => simp only [List.getElem_cons_succ]; exact hbefore k' (by omega)
      · intro h y hy
        rcases List.mem_cons.mp hy with rfl | hy'
        · simpa using hx
        · exact ih2 h y hy'

/-- **lookup of a single energy**: a simulated energy returns the result at its first position, any
other value raises (`none`) -/
theorem getResult_spec {ε ρ : Type} (eq : ε → ε → Bool) (es : List ε) (rs : List ρ) (hl : rs.length = es.length) (e : ε) :
    (∀ r, getResult eq es rs e = some r → ∃ (i : ℕ) (h : i < es.length), eq es[i] e = true ∧
        (∀ k (hk : k < i), eq (es[k]'(by omega)) e = false) ∧ r = rs[i]'(by omega)) ∧
    (getResult eq es rs e = none ↔ ∀ x ∈ es, eq x e = false) := by
  obtain ⟨h1, h2⟩ := indexOf?_spec eq e es 0
  constructor
  · intro r hr
    unfold getResult at hr
    cases hi : indexOf? eq e es 0 with
    | none => rw [hi] at hr; simp at hr
    | some i =>
      rw [hi] at hr
      obtain ⟨hlt, _, heq, hb⟩ := h1 i hi
      simp only [Nat.sub_zero] at hlt heq hb
      simp only [Option.bind_some] at hr
      rw [List.getElem?_eq_getElem (by omega)] at hr
      exact ⟨i, hlt, heq, hb, (Option.some.inj hr).symm⟩
  · constructor
    · intro hn
      unfold getResult at hn
      cases hi : indexOf? eq e es 0 with
      | none => exact h2 hi
      | some i =>
        rw [hi] at hn
        obtain ⟨hlt, _, _, _⟩ := h1 i hi
        simp only [Nat.sub_zero] at hlt
        simp only [Option.bind_some] at hn
        rw [List.getElem?_eq_getElem (by omega)] at hn; simp at hn
    · intro hall
      unfold getResult
      cases hi : indexOf? eq e es 0 with
      | none => rfl
      | some i =>
        obtain ⟨hlt, _, heq, _⟩ := h1 i hi
        simp only [Nat.sub_zero] at hlt heq
        have := hall es[i] (List.getElem_mem _)
        rw [this] at heq; cases heq

/-- **abundance-at-time table**: `ValueError` exactly outside `[0, t_max]`; otherwise column `i` is
result `i` evaluated at `t` — the same results the single-energy lookup returns -/
theorem abundanceAtTime_spec {ρ A : Type} (tMax : ℝ) (rs : List ρ) (at' : ρ → ℝ → A) (t : ℝ) :
    (t < 0 ∨ tMax < t → abundanceAtTime tMax rs at' t = none) ∧
    (0 ≤ t → t ≤ tMax → abundanceAtTime tMax rs at' t = some (rs.map fun r => at' r t)) := by
  constructor
  · intro h; simp [abundanceAtTime, h]
  · intro h0 h1
    have : ¬ (t < 0 ∨ tMax < t) := by push Not; exact ⟨h0, h1⟩
    simp [abundanceAtTime, this]

/-- **abundance-of-a-charge-state table**: `ValueError` for `cs > Z`; otherwise row `k`, column `i`
is entry `cs` of result `i` at the `k`-th sampling time (all sampling times lie in `[0, t_max]`) -/
theorem abundanceOfCs_spec {ρ : Type} (z : ℕ) (tMax : ℝ) (rs : List ρ) (at' : ρ → ℝ → List ℝ) (cs : ℕ) :
    (z < cs → abundanceOfCs z tMax rs at' cs = none) ∧
    (cs ≤ z → abundanceOfCs z tMax rs at' cs =
      some (csTimes tMax, (csTimes tMax).map fun t => rs.map fun r => (at' r t).getD cs 0)) := by
  constructor
  · intro h; simp [abundanceOfCs, h]
  · intro h
    have : ¬ z < cs := by omega
    simp [abundanceOfCs, this]

theorem csTimes_in_domain (tMax : ℝ) (h : 0 ≤ tMax) : ∀ t ∈ csTimes tMax, 0 ≤ t ∧ t ≤ tMax := by
  intro t ht
  simp only [csTimes, List.mem_map] at ht
  obtain ⟨x, _, rfl⟩ := ht
  simp only [min'_real, max'_real, lit_real, Nat.cast_zero]
  exact ⟨le_min (le_max_right _ _) h, min_le_right _ _⟩

/-- every simulated energy can be looked up (for a reflexive equality, as `==` on non-NaN floats) -/
theorem getResult_of_mem {ε ρ : Type} (eq : ε → ε → Bool) (hrefl : ∀ a, eq a a = true) (es : List ε) (rs : List ρ)
    (hl : rs.length = es.length) (e : ε) (he : e ∈ es) : ∃ r, getResult eq es rs e = some r := by
  cases h : getResult eq es rs e with
  | some r => exact ⟨r, rfl⟩
  | none =>
    have := ((getResult_spec eq es rs hl e).2.mp h) e he
    rw [hrefl e] at this; cases this

/-- **the two tables refer to the same per-energy results**: row `k` of the charge-state table is entry
`cs` of every column of the abundance-at-time table taken at the `k`-th sampling time (`ts` = the
sampling times `csTimes t_max`) -/
theorem tables_consistent {ρ : Type} (z : ℕ) (tMax : ℝ) (h0 : 0 ≤ tMax) (rs : List ρ) (at' : ρ → ℝ → List ℝ) (cs : ℕ) (hcs : cs ≤ z)
    (ts : List ℝ) (hts : ts = csTimes tMax) :
    ∃ rows, abundanceOfCs z tMax rs at' cs = some (ts, rows) ∧ rows.length = ts.length ∧
      ∀ k (hk : k < ts.length) (hk' : k < rows.length),
        ∃ cols, abundanceAtTime tMax rs at' (ts[k]'hk) = some cols ∧ rows[k]'hk' = cols.map fun c => c.getD cs 0 := by
  have hdom : ∀ t ∈ ts, 0 ≤ t ∧ t ≤ tMax := by rw [hts]; exact csTimes_in_domain tMax h0
  have hspec : abundanceOfCs z tMax rs at' cs = some (ts, ts.map fun t => rs.map fun r => (at' r t).getD cs 0) := by
    rw [hts]; exact (abundanceOfCs_spec z tMax rs at' cs).2 hcs
  clear hts
  refine ⟨ts.map fun t => rs.map fun r => (at' r t).getD cs 0, hspec, by simp, ?_⟩
  intro k hk hk'
  obtain ⟨hlo, hhi⟩ := hdom _ (List.getElem_mem hk)
  refine ⟨rs.map fun r => at' r (ts[k]'hk), (abundanceAtTime_spec tMax rs at' _).2 hlo hhi, ?_⟩
  simp

-- non-vacuity: the comparison of the implementation (`<=` on floats without NaN; here ℕ) is transitive and total
example : (∀ a b c : ℕ, decide (a ≤ b) → decide (b ≤ c) → decide (a ≤ c) = true) ∧ (∀ a b : ℕ, (decide (a ≤ b) || decide (b ≤ a)) = true) := by
  constructor
  · intro a b c; simp only [decide_eq_true_eq]; omega
  · intro a b; simp only [Bool.or_eq_true, decide_eq_true_eq]; omega
example : getResult (fun a b : ℕ => a == b) [1, 2, 2, 3] [10, 20, 21, 30] 2 = some 20 := by decide
example : getResult (fun a b : ℕ => a == b) [1, 2, 2, 3] [10, 20, 21, 30] 5 = none := by decide
end C17
