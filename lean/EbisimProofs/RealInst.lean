import EbisimModel.Num
import Mathlib.Analysis.SpecialFunctions.Pow.Real
import Mathlib.Analysis.SpecialFunctions.Log.Basic
import Mathlib.Analysis.SpecialFunctions.Sqrt
import Mathlib.Tactic

/-! The real-number reading of the model: the arithmetic classes of `Num ℝ` are Mathlib's own
instances, so `ring`, `field_simp`, `positivity`, `linarith` work on unfolded model terms. -/

noncomputable instance : Num ℝ where
  exp := Real.exp
  log := Real.log
  sqrt := Real.sqrt
  rpow := Real.rpow
  log10 := fun x => Real.log x / Real.log 10
  ceil := fun x => (Int.ceil x : ℝ)
  floor := fun x => (Int.floor x : ℝ)
  dlt := fun _ _ => Classical.propDecidable _
  dle := fun _ _ => Classical.propDecidable _

@[simp] theorem Num.lit_real (n : ℕ) : (Num.lit n : ℝ) = (n : ℝ) := rfl
@[simp] theorem Transc.rpow_real (x y : ℝ) : Transc.rpow x y = x ^ y := rfl
@[simp] theorem Transc.exp_real (x : ℝ) : Transc.exp x = Real.exp x := rfl
@[simp] theorem Transc.log_real (x : ℝ) : Transc.log x = Real.log x := rfl
@[simp] theorem Transc.sqrt_real (x : ℝ) : Transc.sqrt x = Real.sqrt x := rfl
@[simp] theorem Transc.log10_real (x : ℝ) : Transc.log10 x = Real.log x / Real.log 10 := rfl
@[simp] theorem Num.sq_real (x : ℝ) : Num.sq x = x ^ 2 := by simp [Num.sq, pow_two]
@[simp] theorem Num.powN_real (x : ℝ) : ∀ n : ℕ, Num.powN x n = x ^ n
  | 0 => by simp [Num.powN]
  | 1 => by simp [Num.powN]
  | n + 2 => by rw [Num.powN, Num.powN_real x (n + 1)]; ring
theorem Num.max'_real (a b : ℝ) : Num.max' a b = max a b := by
  unfold Num.max'; split_ifs with h
  · exact (max_eq_right h.le).symm
  · exact (max_eq_left (not_lt.mp h)).symm
theorem Num.min'_real (a b : ℝ) : Num.min' a b = min a b := by
  unfold Num.min'; split_ifs with h
  · exact (min_eq_right h.le).symm
  · exact (min_eq_left (not_lt.mp h)).symm
theorem Num.abs'_real (a : ℝ) : Num.abs' a = |a| := by
  unfold Num.abs'; simp only [Num.lit_real, Nat.cast_zero]; split_ifs with h
  · exact (abs_of_neg h).symm
  · exact (abs_of_nonneg (not_lt.mp h)).symm
theorem Num.ofScaled_real (n k : ℕ) : (Num.ofScaled n k : ℝ) = (n : ℝ) / (2 : ℝ) ^ k := by
  simp [Num.ofScaled]
