import EbisimProofs.Lemmas.Consts
import EbisimModel.Model.Xs

/-! Analytic facts about the Lotz / Gryzinski expression of `Xs.lotzTerm` and the shell fold
`Xs.shellSum`, over ℝ. -/
namespace Xs
open Num Gen

theorem ofScaled_pos (n k : ℕ) (h : 0 < n) : (0 : ℝ) < ofScaled n k := by
  rw [ofScaled_real]; positivity

theorem ofScaled_nonneg (n k : ℕ) : (0 : ℝ) ≤ ofScaled n k := by
  rw [ofScaled_real]; positivity

theorem ofScaled_le_iff (a b k : ℕ) : (ofScaled a k : ℝ) ≤ ofScaled b k ↔ a ≤ b := by
  rw [ofScaled_real, ofScaled_real, div_le_div_iff_of_pos_right (by positivity)]
  exact Nat.cast_le

theorem ofScaled_lt_iff (a b k : ℕ) : (ofScaled a k : ℝ) < ofScaled b k ↔ a < b := by
  rw [ofScaled_real, ofScaled_real, div_lt_div_iff_of_pos_right (by positivity)]
  exact Nat.cast_lt

theorem grys_pos (i t : ℝ) (hi : 0 < i) (ht : 0 < t) : 0 < grys i t := by
  unfold grys
  simp only [lit_real, powN_real, Transc.rpow_real, Nat.cast_ofNat, Nat.cast_one]
  have h1 : 0 < (i + t) * (2 + t) * (1 + i) ^ 2 / (t * (2 + t) * (1 + i) ^ 2 + i * (2 + i)) := by positivity
  have := Real.rpow_pos_of_pos h1 (1.5 : ℝ)
  positivity

/-- admissible coefficient triple: `0 < a`, `0 ≤ b < 1`, `0 ≤ c` (or the kernel's default branch) -/
def CoefOk : Option (ℝ × ℝ × ℝ) → Prop
  | some (a, b, c) => 0 < a ∧ 0 ≤ b ∧ b < 1 ∧ 0 ≤ c
  | none => True

/-- **one sub-shell term is strictly positive above its threshold** -/
theorem lotzTerm_pos (E e : ℝ) (n : ℕ) (co : Option (ℝ × ℝ × ℝ)) (hco : CoefOk co)
    (hn : 0 < n) (he : 0 < e) (hE : e < E) : 0 < lotzTerm E n e co := by
  have hm := Const.M_E_EV_pos
  have hEpos : 0 < E := lt_trans he hE
  have hg : 0 < grys (e / Const.M_E_EV) (E / Const.M_E_EV) := grys_pos _ _ (by positivity) (by positivity)
  have hr : 1 < E / e := by rw [lt_div_iff₀ he]; linarith
  have hlog : 0 < Real.log (E / e) := Real.log_pos hr
  have hnr : (0 : ℝ) < (n : ℝ) := by exact_mod_cast hn
  unfold lotzTerm
  match co, hco with
  | some (a, b, c), ⟨ha, hb0, hb1, hc⟩ =>
    simp only [lit_real, Transc.log_real, Transc.exp_real, Nat.cast_one]
    have hexp : Real.exp (-c * (E / e - 1)) ≤ 1 := by
      rw [Real.exp_le_one_iff]; nlinarith
    have hbr : 0 < 1 - b * Real.exp (-c * (E / e - 1)) := by
      have := Real.exp_pos (-c * (E / e - 1))
      nlinarith
    positivity
  | none, _ =>
    simp only [Transc.log_real]
    have : (0 : ℝ) < 4.5e-18 := by norm_num
    positivity

/-- every occupied shell of the row has a positive binding energy and an admissible coefficient -/
def RowOk (co : ℕ → Option (ℝ × ℝ × ℝ)) : List ℕ → List ℕ → ℕ → Prop
  | n :: ns, en :: es, sh => (0 < n → 0 < en ∧ CoefOk (co sh)) ∧ RowOk co ns es (sh + 1)
  | _, _, _ => True

/-- every occupied shell has its threshold at or above `E` -/
def AllAbove (E : ℝ) : List ℕ → List ℕ → Prop
  | n :: ns, en :: es => (0 < n → E ≤ ofScaled en scEbind) ∧ AllAbove E ns es
  | _, _ => True

/-- some occupied shell has its threshold strictly below `E` -/
def SomeBelow (E : ℝ) : List ℕ → List ℕ → Prop
  | n :: ns, en :: es => (0 < n ∧ (ofScaled en scEbind : ℝ) < E) ∨ SomeBelow E ns es
  | _, _ => False

theorem shellSum_ge (E : ℝ) (co : ℕ → Option (ℝ × ℝ × ℝ)) :
    ∀ (crow erow : List ℕ) (sh : ℕ) (acc : ℝ), RowOk co crow erow sh → acc ≤ shellSum E co crow erow sh acc := by
  intro crow
  induction crow with
  | nil => intro erow sh acc _; simp [shellSum]
  | cons n ns ih =>
    intro erow sh acc hok
    cases erow with
    | nil => simp [shellSum]
    | cons en es =>
      obtain ⟨h1, h2⟩ := hok
      simp only [shellSum]
      split_ifs with hc
      · obtain ⟨hen, hcoef⟩ := h1 hc.1
        have hpos := lotzTerm_pos E (ofScaled en scEbind) n (co sh) hcoef hc.1 (ofScaled_pos _ _ hen) hc.2
        exact le_trans (by linarith) (ih es (sh + 1) _ h2)
      · exact ih es (sh + 1) acc h2

/-- **exactly zero contribution at and below the lowest occupied threshold** -/
theorem shellSum_eq_of_allAbove (E : ℝ) (co : ℕ → Option (ℝ × ℝ × ℝ)) :
    ∀ (crow erow : List ℕ) (sh : ℕ) (acc : ℝ), AllAbove E crow erow → shellSum E co crow erow sh acc = acc := by
  intro crow
  induction crow with
  | nil => intro erow sh acc _; simp [shellSum]
  | cons n ns ih =>
    intro erow sh acc h
    cases erow with
    | nil => simp [shellSum]
    | cons en es =>
      obtain ⟨h1, h2⟩ := h
      simp only [shellSum]
      have : ¬ (0 < n ∧ (ofScaled en scEbind : ℝ) < E) := by
        rintro ⟨hn, hlt⟩; have := h1 hn; linarith
      rw [if_neg this]
      exact ih es (sh + 1) acc h2

/-- **strictly positive contribution as soon as one occupied threshold is below `E`** -/
theorem shellSum_gt (E : ℝ) (co : ℕ → Option (ℝ × ℝ × ℝ)) :
    ∀ (crow erow : List ℕ) (sh : ℕ) (acc : ℝ), RowOk co crow erow sh → SomeBelow E crow erow →
      acc < shellSum E co crow erow sh acc := by
  intro crow
  induction crow with
  | nil => intro erow sh acc _ h; simp [SomeBelow] at h
  | cons n ns ih =>
    intro erow sh acc hok hsb
    cases erow with
    | nil => simp [SomeBelow] at hsb
    | cons en es =>
      obtain ⟨h1, h2⟩ := hok
      simp only [shellSum]
      split_ifs with hc
      · obtain ⟨hen, hcoef⟩ := h1 hc.1
        have hpos := lotzTerm_pos E (ofScaled en scEbind) n (co sh) hcoef hc.1 (ofScaled_pos _ _ hen) hc.2
        exact lt_of_lt_of_le (by linarith) (shellSum_ge E co ns es (sh + 1) _ h2)
      · rcases hsb with hh | hh
        · exact absurd hh hc
        · exact ih es (sh + 1) acc h2 hh

theorem allAbove_of_le_min (E : ℝ) : ∀ (crow erow : List ℕ),
    (∀ m, minBindN crow erow = some m → E ≤ ofScaled m scEbind) → AllAbove E crow erow := by
  intro crow
  induction crow with
  | nil => intro erow _; simp [AllAbove]
  | cons n ns ih =>
    intro erow h
    cases erow with
    | nil => simp [AllAbove]
    | cons en es =>
      simp only [AllAbove]
      by_cases hn : 0 < n
      · simp only [minBindN, hn, if_true] at h
        cases hm : minBindN ns es with
        | none =>
          rw [hm] at h
          refine ⟨fun _ => h en rfl, ih es (fun m hm' => by rw [hm] at hm'; cases hm')⟩
        | some m0 =>
          rw [hm] at h
          have hmin := h (min en m0) rfl
          refine ⟨fun _ => le_trans hmin ((ofScaled_le_iff _ _ _).mpr (min_le_left _ _)), ih es (fun m hm' => ?_)⟩
          rw [hm] at hm'; cases hm'
          exact le_trans hmin ((ofScaled_le_iff _ _ _).mpr (min_le_right _ _))
      · simp only [minBindN, hn, if_false] at h
        exact ⟨fun h' => absurd h' hn, ih es h⟩

theorem someBelow_of_min_lt (E : ℝ) : ∀ (crow erow : List ℕ) (m : ℕ),
    minBindN crow erow = some m → (ofScaled m scEbind : ℝ) < E → SomeBelow E crow erow := by
  intro crow
  induction crow with
  | nil => intro erow m h; simp [minBindN] at h
  | cons n ns ih =>
    intro erow m h hlt
    cases erow with
    | nil => simp [minBindN] at h
    | cons en es =>
      simp only [SomeBelow]
      by_cases hn : 0 < n
      · simp only [minBindN, hn, if_true] at h
        cases hm : minBindN ns es with
        | none =>
          rw [hm] at h; cases h
          exact Or.inl ⟨hn, hlt⟩
        | some m0 =>
          rw [hm] at h; cases h
          by_cases hle : en ≤ m0
          · rw [min_eq_left hle] at hlt; exact Or.inl ⟨hn, hlt⟩
          · rw [min_eq_right (Nat.le_of_lt (Nat.lt_of_not_le hle))] at hlt
            exact Or.inr (ih es m0 hm hlt)
      · simp only [minBindN, hn, if_false] at h
        exact Or.inr (ih es m h hlt)

end Xs
