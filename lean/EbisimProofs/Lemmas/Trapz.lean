import EbisimProofs.RealInst
import EbisimModel.Model.Radial

/-! The trapezoid rule `Radial.trapz` over ℝ: nodal-weight form, homogeneity, positivity, and the
weighted Cauchy–Schwarz inequality behind `heat_capacity ≥ 3/2`. -/
namespace Radial
open Num

theorem trapzGo_acc : ∀ (x y : List ℝ) (acc : ℝ), trapzGo acc x y = acc + trapzGo 0 x y := by
  intro x
  induction x with
  | nil => intro y acc; simp [trapzGo]
  | cons x0 xs ih =>
    intro y acc
    cases xs with
    | nil => cases y <;> simp [trapzGo]
    | cons x1 xs' =>
      cases y with
      | nil => simp [trapzGo]
      | cons y0 ys =>
        cases ys with
        | nil => simp [trapzGo]
        | cons y1 ys' =>
          have e2 : (2.0 : ℝ) = 2 := by norm_num
          simp only [trapzGo, e2]
          rw [ih (y1 :: ys') (acc + (x1 - x0) * (y1 + y0) / 2), ih (y1 :: ys') (0 + (x1 - x0) * (y1 + y0) / 2)]
          ring

def dot : List ℝ → List ℝ → ℝ
  | a :: as, b :: bs => a * b + dot as bs
  | _, _ => 0

def addHead (a : ℝ) : List ℝ → List ℝ
  | [] => []
  | h :: t => (a + h) :: t

/-- nodal weights of the trapezoid rule on the grid `x` -/
noncomputable def nodalW : List ℝ → List ℝ
  | [] => []
  | [_] => [0]
  | x0 :: x1 :: xs => ((x1 - x0) / 2) :: addHead ((x1 - x0) / 2) (nodalW (x1 :: xs))

theorem nodalW_length : ∀ x : List ℝ, (nodalW x).length = x.length
  | [] => rfl
  | [_] => rfl
  | x0 :: x1 :: xs => by
    have ih := nodalW_length (x1 :: xs)
    simp only [nodalW, List.length_cons] at ih ⊢
    cases h : nodalW (x1 :: xs) with
    | nil => rw [h] at ih; simp at ih
    | cons a t => rw [h] at ih; simp [addHead] at ih ⊢; omega

/-- **trapezoid rule = weighted nodal sum** -/
theorem trapz_eq_dot : ∀ (x y : List ℝ), x.length = y.length → trapz y x = dot (nodalW x) y
  | [], [], _ => by simp [trapz, trapzGo, nodalW, dot]
  | [_], [_], _ => by simp [trapz, trapzGo, nodalW, dot]
  | [], _ :: _, h => by simp at h
  | _ :: _, [], h => by simp at h
  | [_], _ :: _ :: _, h => by simp at h
  | _ :: _ :: _, [_], h => by simp at h
  | x0 :: x1 :: xs, y0 :: y1 :: ys, h => by
    have ih := trapz_eq_dot (x1 :: xs) (y1 :: ys) (by simpa using h)
    have e2 : (2.0 : ℝ) = 2 := by norm_num
    simp only [trapz, lit_real, Nat.cast_zero] at ih ⊢
    simp only [trapzGo, e2]
    rw [trapzGo_acc, ih]
    simp only [nodalW]
    cases hw : nodalW (x1 :: xs) with
    | nil =>
      have := nodalW_length (x1 :: xs); rw [hw] at this; simp at this
    | cons a t =>
      simp only [addHead, dot]
      ring

theorem nodalW_nonneg : ∀ x : List ℝ, x.Pairwise (· ≤ ·) → ∀ w ∈ nodalW x, 0 ≤ w
  | [], _ => by simp [nodalW]
  | [_], _ => by simp [nodalW]
  | x0 :: x1 :: xs, h => by
    have h01 : x0 ≤ x1 := (List.pairwise_cons.mp h).1 x1 (by simp)
    have ih := nodalW_nonneg (x1 :: xs) (List.pairwise_cons.mp h).2
    intro w hw
    simp only [nodalW, List.mem_cons] at hw
    rcases hw with rfl | hw
    · linarith
    · cases hn : nodalW (x1 :: xs) with
      | nil => rw [hn] at hw; simp [addHead] at hw
      | cons a t =>
        rw [hn] at hw ih
        simp only [addHead, List.mem_cons] at hw
        rcases hw with rfl | hw
        · have := ih a (by simp); linarith
        · exact ih w (by simp [hw])

/-! ### sums with non-negative weights -/

theorem dot_smul (c : ℝ) : ∀ (w y : List ℝ), dot w (y.map (c * ·)) = c * dot w y
  | [], _ => by simp [dot]
  | _ :: _, [] => by simp [dot]
  | a :: as, b :: bs => by simp only [List.map_cons, dot]; rw [dot_smul c as bs]; ring

theorem dot_nonneg : ∀ (w y : List ℝ), (∀ a ∈ w, 0 ≤ a) → (∀ b ∈ y, 0 ≤ b) → 0 ≤ dot w y
  | [], _, _, _ => by simp [dot]
  | _ :: _, [], _, _ => by simp [dot]
  | a :: as, b :: bs, hw, hy => by
    simp only [dot]
    have := dot_nonneg as bs (fun x hx => hw x (by simp [hx])) (fun x hx => hy x (by simp [hx]))
    have := mul_nonneg (hw a (by simp)) (hy b (by simp))
    linarith

/-- quadratic form `Σ w m (p − t)²` expanded -/
theorem dot_quadratic (t : ℝ) : ∀ (w m p : List ℝ), w.length = m.length → m.length = p.length →
    dot w (List.zipWith (fun m p => m * (p - t) ^ 2) m p) =
      dot w (List.zipWith (fun m p => m * p ^ 2) m p) - 2 * t * dot w (List.zipWith (fun m p => m * p) m p)
        + t ^ 2 * dot w m
  | [], _, _, _, _ => by simp [dot]
  | _ :: _, [], _, h, _ => by simp at h
  | _ :: _, _ :: _, [], _, h => by simp at h
  | a :: as, b :: bs, c :: cs, h1, h2 => by
    simp only [List.zipWith_cons_cons, dot]
    rw [dot_quadratic t as bs cs (by simpa using h1) (by simpa using h2)]
    ring

/-- **weighted Cauchy–Schwarz**: `(Σ w m p)² ≤ (Σ w m p²)(Σ w m)` for `w, m ≥ 0` -/
theorem dot_cauchy_schwarz (w m p : List ℝ) (h1 : w.length = m.length) (h2 : m.length = p.length)
    (hw : ∀ a ∈ w, 0 ≤ a) (hm : ∀ b ∈ m, 0 ≤ b) :
    dot w (List.zipWith (fun m p => m * p) m p) ^ 2 ≤
      dot w (List.zipWith (fun m p => m * p ^ 2) m p) * dot w m := by
  set A := dot w (List.zipWith (fun m p => m * p ^ 2) m p)
  set B := dot w (List.zipWith (fun m p => m * p) m p)
  set C := dot w m
  have hq : ∀ t : ℝ, 0 ≤ A - 2 * t * B + t ^ 2 * C := by
    intro t
    rw [← dot_quadratic t w m p h1 h2]
    apply dot_nonneg w _ hw
    intro b hb
    simp only [List.mem_iff_getElem, List.length_zipWith, List.getElem_zipWith] at hb
    obtain ⟨i, hi, rfl⟩ := hb
    exact mul_nonneg (hm _ (List.getElem_mem _)) (sq_nonneg _)
  have hC : 0 ≤ C := dot_nonneg w m hw hm
  by_cases hC0 : C = 0
  · -- then B must vanish
    have hB : B = 0 := by
      by_contra hB
      have h1' := hq (A / B + 1 / B)   -- choose t making the form negative
      rw [hC0] at h1'
      have : A - 2 * (A / B + 1 / B) * B = -A - 2 := by field_simp; ring
      have hA : 0 ≤ A := by have := hq 0; simpa using this
      nlinarith
    rw [hB, hC0]; simp
  · have hCpos : 0 < C := lt_of_le_of_ne hC (Ne.symm hC0)
    have := hq (B / C)
    have e : A - 2 * (B / C) * B + (B / C) ^ 2 * C = A - B ^ 2 / C := by field_simp; ring
    rw [e] at this
    have : B ^ 2 / C ≤ A := by linarith
    rwa [div_le_iff₀ hCpos] at this

end Radial
