import EbisimProofs.Lemmas.Fd

/-! The Newton update `Radial.newton` of the Boltzmann–Poisson iterations: the updated potential
solves the discretised Poisson equation linearised at the previous iterate, exactly; and the wall
value is annihilated. -/
namespace Radial
open Num

/-- tridiagonal product with a coefficient list `(l, d, u)` (no right-hand side involved) -/
def mulL : ℝ → List (ℝ × ℝ × ℝ) → List ℝ → List ℝ
  | _, [], _ => []
  | _, _ :: _, [] => []
  | xp, (l, d, u) :: cs, x :: xs =>
    (l * xp + d * x + (match xs with | [] => 0 | y :: _ => u * y)) :: mulL x cs xs

/-- coefficients with the diagonal shifted by `jd` -/
def shiftL : List (ℝ × ℝ × ℝ) → List ℝ → List (ℝ × ℝ × ℝ)
  | (l, d, u) :: cs, j :: js => (l, d - j, u) :: shiftL cs js
  | _, _ => []

theorem mulTri_withRhs (xp : ℝ) : ∀ (c : List (ℝ × ℝ × ℝ)) (b x : List ℝ), c.length = b.length →
    mulTri xp (withRhs c b) x = mulL xp c x := by
  intro c
  induction c generalizing xp with
  | nil => intro b x _; cases b <;> simp [withRhs, mulTri, mulL]
  | cons c0 cs ih =>
    intro b x h
    obtain ⟨l, d, u⟩ := c0
    cases b with
    | nil => simp at h
    | cons b0 bs =>
      cases x with
      | nil => simp [withRhs, mulTri, mulL]
      | cons x0 xs =>
        simp only [withRhs, mulTri, mulL, lit_real, Nat.cast_zero]
        rw [ih x0 bs xs (by simpa using h)]
        congr 1
        cases xs <;> rfl

theorem mulTri_newtonRows (xp : ℝ) : ∀ (c : List (ℝ × ℝ × ℝ)) (jd f y : List ℝ), c.length = jd.length → c.length = f.length →
    mulTri xp (newtonRows c jd f) y = mulL xp (shiftL c jd) y := by
  intro c
  induction c generalizing xp with
  | nil => intro jd f y _ _; simp [newtonRows, mulTri, mulL, shiftL]
  | cons c0 cs ih =>
    intro jd f y h1 h2
    obtain ⟨l, d, u⟩ := c0
    cases jd with
    | nil => simp at h1
    | cons j js =>
      cases f with
      | nil => simp at h2
      | cons f0 fs =>
        cases y with
        | nil => simp [newtonRows, mulTri, mulL, shiftL]
        | cons y0 ys =>
          simp only [newtonRows, shiftL, mulTri, mulL, lit_real, Nat.cast_zero]
          rw [ih y0 js fs ys (by simpa using h1) (by simpa using h2)]
          congr 1
          cases ys <;> rfl

theorem newtonRows_b : ∀ (c : List (ℝ × ℝ × ℝ)) (jd f : List ℝ), c.length = jd.length → c.length = f.length →
    (newtonRows c jd f).map (·.b) = f ∧ (newtonRows c jd f).length = c.length := by
  intro c
  induction c with
  | nil =>
    intro jd f h1 h2
    have : f = [] := List.length_eq_zero_iff.mp (by simpa using h2.symm)
    subst this; simp [newtonRows]
  | cons c0 cs ih =>
    intro jd f h1 h2
    obtain ⟨l, d, u⟩ := c0
    cases jd with
    | nil => simp at h1
    | cons j js =>
      cases f with
      | nil => simp at h2
      | cons f0 fs =>
        obtain ⟨e1, e2⟩ := ih js fs (by simpa using h1) (by simpa using h2)
        simp [newtonRows, e1, e2]

/-- `(A − diag j) y = A y − j ⊙ y` -/
theorem mulL_shift (xp : ℝ) : ∀ (c : List (ℝ × ℝ × ℝ)) (jd y : List ℝ), c.length = jd.length → c.length = y.length →
    mulL xp (shiftL c jd) y = List.zipWith (· - ·) (mulL xp c y) (List.zipWith (· * ·) jd y) := by
  intro c
  induction c generalizing xp with
  | nil => intro jd y _ _; simp [mulL, shiftL]
  | cons c0 cs ih =>
    intro jd y h1 h2
    obtain ⟨l, d, u⟩ := c0
    cases jd with
    | nil => simp at h1
    | cons j js =>
      cases y with
      | nil => simp at h2
      | cons y0 ys =>
        simp only [shiftL, mulL, List.zipWith_cons_cons]
        rw [ih y0 js ys (by simpa using h1) (by simpa using h2)]
        congr 1
        ring

/-- `A (x − y) = A x − A y` -/
theorem mulL_sub (xp yp : ℝ) : ∀ (c : List (ℝ × ℝ × ℝ)) (x y : List ℝ), c.length = x.length → c.length = y.length →
    mulL (xp - yp) c (List.zipWith (· - ·) x y) = List.zipWith (· - ·) (mulL xp c x) (mulL yp c y) := by
  intro c
  induction c generalizing xp yp with
  | nil => intro x y _ _; simp [mulL]
  | cons c0 cs ih =>
    intro x y h1 h2
    obtain ⟨l, d, u⟩ := c0
    cases x with
    | nil => simp at h1
    | cons x0 xs =>
      cases y with
      | nil => simp at h2
      | cons y0 ys =>
        simp only [List.zipWith_cons_cons, mulL]
        rw [ih x0 y0 xs ys (by simpa using h1) (by simpa using h2)]
        congr 1
        cases xs with
        | nil =>
          cases ys with
          | nil => simp; ring
          | cons _ _ => simp only [List.length_cons, List.length_nil] at h1 h2; omega
        | cons a as =>
          cases ys with
          | nil => simp only [List.length_cons, List.length_nil] at h1 h2; omega
          | cons b bs => simp; ring

theorem mulL_length (xp : ℝ) : ∀ (c : List (ℝ × ℝ × ℝ)) (x : List ℝ), c.length = x.length → (mulL xp c x).length = x.length := by
  intro c
  induction c generalizing xp with
  | nil => intro x h; cases x <;> simp_all [mulL]
  | cons c0 cs ih =>
    intro x h
    obtain ⟨l, d, u⟩ := c0
    cases x with
    | nil => simp at h
    | cons x0 xs => simp only [mulL, List.length_cons]; rw [ih x0 xs (by simpa using h)]

/-- the code's residual `(d x − b) + u x⁺ + l x⁻` is `A x − b` -/
theorem targetFun_eq : ∀ (c : List (ℝ × ℝ × ℝ)) (x b : List ℝ) (xp : Option ℝ), c.length = x.length → c.length = b.length →
    targetFun xp c x b = List.zipWith (· - ·) (mulL (xp.getD 0) c x) b := by
  intro c
  induction c with
  | nil => intro x b xp _ _; simp [targetFun, mulL]
  | cons c0 cs ih =>
    intro x b xp h1 h2
    obtain ⟨l, d, u⟩ := c0
    cases x with
    | nil => simp at h1
    | cons x0 xs =>
      cases b with
      | nil => simp at h2
      | cons b0 bs =>
        simp only [targetFun, mulL, List.zipWith_cons_cons]
        rw [ih xs bs (some x0) (by simpa using h1) (by simpa using h2)]
        simp only [Option.getD_some]
        congr 1
        cases xp <;> cases xs <;> simp <;> ring

theorem zipWith_sub_length (a b : List ℝ) (h : a.length = b.length) : (List.zipWith (· - ·) a b).length = a.length := by
  simp [h]

/-- elementwise algebra used to combine the pieces -/
theorem list_algebra : ∀ (Aphi Ay b f jy : List ℝ), Aphi.length = b.length → Ay.length = b.length → f.length = b.length → jy.length = b.length →
    f = List.zipWith (· - ·) Aphi b → List.zipWith (· - ·) Ay jy = f →
    List.zipWith (· - ·) Aphi Ay = List.zipWith (· - ·) b jy := by
  intro Aphi
  induction Aphi with
  | nil => intro Ay b f jy h1 h2 h3 h4 _ _; cases b <;> simp_all
  | cons a as ih =>
    intro Ay b f jy h1 h2 h3 h4 e1 e2
    cases b with
    | nil => simp at h1
    | cons b0 bs =>
      cases Ay with
      | nil => simp at h2
      | cons y ys =>
        cases f with
        | nil => simp at h3
        | cons f0 fs =>
          cases jy with
          | nil => simp at h4
          | cons j0 js =>
            simp only [List.zipWith_cons_cons, List.cons.injEq] at e1 e2 ⊢
            refine ⟨by linarith [e1.1, e2.1], ih ys bs fs js (by simpa using h1) (by simpa using h2) (by simpa using h3) (by simpa using h4) e1.2 e2.2⟩

/-- **Newton identity.** For `(φ', y) = newton ldu φ b j_d` (all lists of one length, no vanishing
pivot in the Thomas sweep): `A φ' = b − j_d ⊙ y`, i.e. `A φ' = b + j_d ⊙ (φ' − φ)` — the returned
potential solves the discretised Poisson equation for the charge density linearised at the
previous iterate, exactly. -/
theorem newton_identity (ldu : List (ℝ × ℝ × ℝ)) (phi b jd : List ℝ)
    (h1 : ldu.length = phi.length) (h2 : ldu.length = b.length) (h3 : ldu.length = jd.length)
    (hp : PivotsOk 0 (newtonRows ldu jd (targetFun none ldu phi b))) :
    mulL 0 ldu (newton ldu phi b jd).1 = List.zipWith (· - ·) b (List.zipWith (· * ·) jd (newton ldu phi b jd).2) := by
  simp only [newton]
  set f := targetFun none ldu phi b with hf
  set rows := newtonRows ldu jd f with hrows
  set y := solve rows with hy
  have hfl : f.length = phi.length := by
    rw [hf, targetFun_eq ldu phi b none h1 h2]; simp [mulL_length 0 ldu phi h1]; omega
  obtain ⟨hrb, hrl⟩ := newtonRows_b ldu jd f h3 (by omega)
  have hyl : y.length = ldu.length := by rw [hy, solve_length, hrl]
  -- (A − diag j) y = f
  have hsol : mulL 0 (shiftL ldu jd) y = f := by
    have := solve_correct rows hp
    rw [hrb] at this
    rw [← mulTri_newtonRows 0 ldu jd f y h3 (by omega)]
    simpa using this
  rw [mulL_shift 0 ldu jd y h3 (by omega)] at hsol
  -- A (φ − y) = A φ − A y
  have hsub := mulL_sub 0 0 ldu phi y h1 (by omega)
  simp only [sub_zero] at hsub
  rw [hsub]
  have hf' : f = List.zipWith (· - ·) (mulL 0 ldu phi) b := by
    rw [hf, targetFun_eq ldu phi b none h1 h2]; simp
  exact list_algebra (mulL 0 ldu phi) (mulL 0 ldu y) b f (List.zipWith (· * ·) jd y)
    (by rw [mulL_length 0 ldu phi h1]; omega) (by rw [mulL_length 0 ldu y (by omega)]; omega) (by omega) (by simp; omega) hf' hsol

/-! ### the wall value -/

theorem fwd_getLast?_wall' (c p : ℝ) : ∀ (rows : List (Row ℝ)) (w : Row ℝ), w.l = 0 → w.d = 1 →
    ((fwd c p (rows ++ [w])).getLast?.map (·.2)) = some w.b := by
  intro rows
  induction rows generalizing c p with
  | nil => intro w hl hd; simp [fwd, hl, hd]
  | cons r rs ih =>
    intro w hl hd
    have := ih (r.u / (r.d - r.l * c)) ((r.b - r.l * p) / (r.d - r.l * c)) w hl hd
    have hne : fwd (r.u / (r.d - r.l * c)) ((r.b - r.l * p) / (r.d - r.l * c)) (rs ++ [w]) ≠ [] := by
      cases rs <;> simp [fwd]
    simp only [List.cons_append, fwd]
    rw [List.getLast?_cons_of_ne_nil hne] at *
    exact this

/-- a last row `(0, 1, ·)` returns its own right-hand side as the last unknown -/
theorem solve_wall' (rows : List (Row ℝ)) (w : Row ℝ) (hl : w.l = 0) (hd : w.d = 1) :
    (solve (rows ++ [w])).getLast? = some w.b := by
  simp only [solve, back_getLast?]
  simpa using fwd_getLast?_wall' 0 0 rows w hl hd

end Radial
