import EbisimProofs.RealInst
import EbisimProofs.Lemmas.Consts
import EbisimModel.Model.Adv
import Mathlib.Algebra.BigOperators.Intervals

/-! Telescoping of the shift structure of `_adv_rhs` (`dn -= R; dn[1:] += R[:-1]`, `dn[:-1] += R[1:]`)
over one block of charge states, for particles and for thermal energy; array access lemmas. -/
namespace Adv
open Num Finset

/-! ### array access -/

theorem at'_ofFn {n : ℕ} (f : Fin n → ℝ) (k : ℕ) (h : k < n) : at' (Array.ofFn f) k = f ⟨k, h⟩ := by
  simp [at', Array.getD, h]

theorem at'_ofFn_ge {n : ℕ} (f : Fin n → ℝ) (k : ℕ) (h : n ≤ k) : at' (Array.ofFn f) k = 0 := by
  have : ¬ k < n := by omega
  simp [at', Array.getD, this]

theorem at'_replicate (n k : ℕ) : at' (Array.replicate n (lit 0 : ℝ)) k = 0 := by
  simp [at', Array.getD]

theorem at'_zeroAt (v : Array ℝ) (lb : List ℕ) (k : ℕ) : at' (zeroAt v lb) k = if k ∈ lb then 0 else at' v k := by
  induction lb generalizing v with
  | nil => simp [zeroAt]
  | cons a as ih =>
    simp only [zeroAt, List.foldl_cons] at ih ⊢
    rw [ih]
    by_cases hk : k ∈ as
    · simp [hk]
    · simp only [hk, if_false, List.mem_cons, or_false]
      by_cases ha : k = a
      · subst ha; simp [at', Array.getD]
      · have e : ∀ (w : Array ℝ), at' w k = (w[k]?).getD 0 := by
          intro w; simp [at', Array.getD_eq_getD_getElem?]
        rw [e, e, Array.getElem?_setIfInBounds]
        simp [Ne.symm ha]
        intro h; exact absurd h ha

/-! ### shifts over ℝ -/

theorem shiftUp_succ (R : ℕ → ℝ) (k : ℕ) : shiftUp R (k + 1) = R k := by simp [shiftUp]
theorem shiftDown_lt (nq : ℕ) (R : ℕ → ℝ) (k : ℕ) (h : k + 1 < nq) : shiftDown nq R k = R (k + 1) := by simp [shiftDown, h]
theorem shiftDown_last (nq : ℕ) (R : ℕ → ℝ) (k : ℕ) (h : ¬ k + 1 < nq) : shiftDown nq R k = 0 := by simp [shiftDown, h]

theorem block_sum_up (R : ℕ → ℝ) (lb ub : ℕ) (h : lb + 1 ≤ ub) :
    ∑ k ∈ Ico (lb + 1) ub, (-R k + shiftUp R k) = R lb - R (ub - 1) := by
  induction ub, h using Nat.le_induction with
  | base => simp
  | succ n hn ih =>
    rw [sum_Ico_succ_top hn, ih]
    have : n ≠ 0 := by omega
    simp [shiftUp, this]
    ring

theorem block_sum_down (nq : ℕ) (R : ℕ → ℝ) (lb ub : ℕ) (h : lb + 2 ≤ ub) (hub : ub ≤ nq) :
    ∑ k ∈ Ico (lb + 1) ub, (-R k + shiftDown nq R k) = (if ub < nq then R ub else 0) - R (lb + 1) := by
  obtain ⟨m, rfl⟩ : ∃ m, ub = m + 1 := ⟨ub - 1, by omega⟩
  have hm : lb + 1 ≤ m := by omega
  clear h
  induction m, hm using Nat.le_induction with
  | base =>
    simp only [sum_Ico_succ_top (le_refl (lb + 1)), Ico_self, sum_empty, zero_add, shiftDown, lit_real, Nat.cast_zero]
    split_ifs <;> first | ring | omega
  | succ n hn ih =>
    rw [sum_Ico_succ_top (by omega), ih (by omega)]
    have h1 : n + 1 < nq := by omega
    simp only [h1, if_true, shiftDown, lit_real, Nat.cast_zero]
    split_ifs <;> first | ring | omega

/-! ### thermal energy of one reaction step -/

theorem ei_energy_step (R T h n : ℕ → ℝ) (k : ℕ) (hk : k ≠ 0) (hn : n k ≠ 0) :
    T k * (-R k + R (k - 1)) + n k * (R (k - 1) / n k * (T (k - 1) - T k) + R (k - 1) / n k * h (k - 1))
      = (T (k - 1) + h (k - 1)) * R (k - 1) - T k * R k := by
  field_simp; ring

theorem rec_energy_step (R T h n : ℕ → ℝ) (k : ℕ) (hn : n k ≠ 0) :
    T k * (-R k + R (k + 1)) + n k * (R (k + 1) / n k * (T (k + 1) - T k) - R (k + 1) / n k * h (k + 1))
      = (T (k + 1) - h (k + 1)) * R (k + 1) - T k * R k := by
  field_simp; ring

theorem ei_energy_block (R T h : ℕ → ℝ) (lb ub : ℕ) (hlu : lb + 1 ≤ ub) :
    ∑ k ∈ Ico (lb + 1) ub, ((T (k - 1) + h (k - 1)) * R (k - 1) - T k * R k)
      = T lb * R lb - T (ub - 1) * R (ub - 1) + ∑ k ∈ Ico (lb + 1) ub, h (k - 1) * R (k - 1) := by
  induction ub, hlu using Nat.le_induction with
  | base => simp
  | succ m hm ih =>
    rw [sum_Ico_succ_top hm, sum_Ico_succ_top hm, ih]
    simp only [Nat.add_sub_cancel]
    ring

theorem rec_energy_block (R T h : ℕ → ℝ) (lb ub : ℕ) (hlu : lb + 1 ≤ ub) :
    ∑ k ∈ Ico (lb + 1) ub, ((T (k + 1) - h (k + 1)) * R (k + 1) - T k * R k)
      = T ub * R ub - T (lb + 1) * R (lb + 1) - ∑ k ∈ Ico (lb + 1) ub, h (k + 1) * R (k + 1) := by
  induction ub, hlu using Nat.le_induction with
  | base => simp
  | succ m hm ih =>
    rw [sum_Ico_succ_top hm, sum_Ico_succ_top hm, ih]
    ring

end Adv
