import EbisimProofs.RealInst
import EbisimModel.Gen.Const
/-! Positivity of the generated physical constants (over ℝ). -/
namespace Gen.Const
theorem Q_E_pos : (0 : ℝ) < Q_E := by unfold Q_E; norm_num
theorem M_E_pos : (0 : ℝ) < M_E := by unfold M_E; norm_num
theorem PI_pos : (0 : ℝ) < PI := by unfold PI; norm_num
theorem EPS_0_pos : (0 : ℝ) < EPS_0 := by unfold EPS_0; norm_num
theorem K_B_pos : (0 : ℝ) < K_B := by unfold K_B; norm_num
theorem C_L_pos : (0 : ℝ) < C_L := by unfold C_L; norm_num
theorem ALPHA_pos : (0 : ℝ) < ALPHA := by unfold ALPHA; norm_num
theorem HBAR_pos : (0 : ℝ) < HBAR := by unfold HBAR; norm_num
theorem M_P_pos : (0 : ℝ) < M_P := by unfold M_P; norm_num
theorem M_E_EV_pos : (0 : ℝ) < M_E_EV := by unfold M_E_EV; norm_num
theorem RY_EV_pos : (0 : ℝ) < RY_EV := by unfold RY_EV; norm_num
theorem COMPT_E_RED_pos : (0 : ℝ) < COMPT_E_RED := by unfold COMPT_E_RED; norm_num
theorem MINIMAL_N_1D_pos : (0 : ℝ) < MINIMAL_N_1D := by unfold MINIMAL_N_1D; norm_num
theorem MINIMAL_N_3D_pos : (0 : ℝ) < MINIMAL_N_3D := by unfold MINIMAL_N_3D; norm_num
theorem MINIMAL_KBT_pos : (0 : ℝ) < MINIMAL_KBT := by unfold MINIMAL_KBT; norm_num
end Gen.Const
