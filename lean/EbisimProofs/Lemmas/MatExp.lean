import Mathlib.Analysis.Normed.Algebra.MatrixExponential
import Mathlib.Analysis.SpecialFunctions.Exponential
import Mathlib.Topology.Algebra.InfiniteSum.Order
import Mathlib.Analysis.Calculus.Deriv.Comp
import Mathlib.Analysis.Calculus.FDeriv.Linear
import Mathlib.Topology.Algebra.Module.FiniteDimension
import Mathlib.Tactic

/-! Facts about `exp (t • J)` for rate matrices: it solves the linear ODE, is a semigroup,
preserves column sums (particle number) and non-negativity (Metzler matrices). -/
open Matrix NormedSpace
open scoped Nat

namespace RateMat
variable {n : Type} [Fintype n] [DecidableEq n]
attribute [local instance] Matrix.linftyOpNormedRing Matrix.linftyOpNormedAlgebra

theorem pow_nonneg_entry (A : Matrix n n ℝ) (hA : ∀ i j, 0 ≤ A i j) (k : ℕ) :
    ∀ i j, 0 ≤ (A ^ k) i j := by
  induction k with
  | zero => intro i j; simp [Matrix.one_apply]; split_ifs <;> norm_num
  | succ k ih =>
    intro i j
    rw [pow_succ, Matrix.mul_apply]
    exact Finset.sum_nonneg fun l _ => mul_nonneg (ih i l) (hA l j)

theorem exp_nonneg_entry (A : Matrix n n ℝ) (hA : ∀ i j, 0 ≤ A i j) :
    ∀ i j, 0 ≤ (exp A) i j := by
  intro i j
  have h := exp_series_hasSum_exp' (𝕂 := ℝ) A
  have h2 : HasSum (fun k : ℕ => ((k !⁻¹ : ℝ) • A ^ k) i j) ((exp A) i j) :=
    (Pi.hasSum.mp ((Pi.hasSum.mp h) i)) j
  refine h2.nonneg fun k => ?_
  simp only [Matrix.smul_apply, smul_eq_mul]
  exact mul_nonneg (by positivity) (pow_nonneg_entry A hA k i j)

/-- Metzler matrices (non-negative off-diagonal) have entrywise non-negative exponentials. -/
theorem exp_nonneg_of_metzler (A : Matrix n n ℝ) (hA : ∀ i j, i ≠ j → 0 ≤ A i j) :
    ∀ i j, 0 ≤ (exp A) i j := by
  classical
  obtain ⟨c, hc⟩ : ∃ c : ℝ, ∀ i, 0 ≤ A i i + c := by
    refine ⟨∑ i, |A i i|, fun i => ?_⟩
    have : |A i i| ≤ ∑ i, |A i i| := Finset.single_le_sum (f := fun i => |A i i|) (fun _ _ => abs_nonneg _) (Finset.mem_univ i)
    have := neg_abs_le (A i i)
    linarith
  set B := A + c • (1 : Matrix n n ℝ) with hB
  have hBnn : ∀ i j, 0 ≤ B i j := by
    intro i j
    by_cases hij : i = j
    · subst hij; simp [hB, Matrix.add_apply, Matrix.smul_apply]; exact hc i
    · simp [hB, Matrix.add_apply, Matrix.smul_apply, Matrix.one_apply_ne hij]; exact hA i j hij
  have hcomm : Commute ((-c) • (1 : Matrix n n ℝ)) B := by
    apply Commute.smul_left; exact Commute.one_left B
  have hsplit : A = (-c) • (1 : Matrix n n ℝ) + B := by
    simp [hB]
  have hexp : exp A = exp ((-c) • (1 : Matrix n n ℝ)) * exp B := by
    conv_lhs => rw [hsplit]
    exact Matrix.exp_add_of_commute _ _ hcomm
  have hscal : exp ((-c) • (1 : Matrix n n ℝ)) = Real.exp (-c) • (1 : Matrix n n ℝ) := by
    have : (-c) • (1 : Matrix n n ℝ) = Matrix.diagonal (fun _ => -c) := by
      ext i j; by_cases h : i = j <;> simp [Matrix.diagonal, h]
    rw [this, Matrix.exp_diagonal]
    ext i j
    by_cases h : i = j
    · subst h; simp [Matrix.diagonal, Pi.coe_exp, Real.exp_eq_exp_ℝ]
    · simp [Matrix.diagonal, h, Matrix.one_apply_ne h]
  intro i j
  rw [hexp, hscal, Matrix.smul_mul, Matrix.one_mul, Matrix.smul_apply, smul_eq_mul]
  exact mul_nonneg (Real.exp_pos _).le (exp_nonneg_entry B hBnn i j)

/-- if every column of `A` sums to zero, every column of `exp A` sums to one -/
theorem colsum_exp (A : Matrix n n ℝ) (hA : ∀ j, ∑ i, A i j = 0) :
    ∀ j, ∑ i, (exp A) i j = 1 := by
  intro j
  have hpow : ∀ k : ℕ, ∀ j, ∑ i, (A ^ (k+1)) i j = 0 := by
    intro k
    induction k with
    | zero => simpa using hA
    | succ k ih =>
      intro j
      rw [pow_succ]
      simp only [Matrix.mul_apply]
      rw [Finset.sum_comm]
      simp only [← Finset.sum_mul, ih, zero_mul, Finset.sum_const_zero]
  have h := exp_series_hasSum_exp' (𝕂 := ℝ) A
  have hij : ∀ i, HasSum (fun k : ℕ => ((k !⁻¹ : ℝ) • A ^ k) i j) ((exp A) i j) := fun i =>
    (Pi.hasSum.mp ((Pi.hasSum.mp h) i)) j
  have hs : HasSum (fun k : ℕ => ∑ i, ((k !⁻¹ : ℝ) • A ^ k) i j) (∑ i, (exp A) i j) :=
    hasSum_sum fun i _ => hij i
  have hs1 : HasSum (fun k : ℕ => ∑ i, ((k !⁻¹ : ℝ) • A ^ k) i j) 1 := by
    have : (fun k : ℕ => ∑ i, ((k !⁻¹ : ℝ) • A ^ k) i j) = fun k => if k = 0 then 1 else 0 := by
      funext k
      cases k with
      | zero => simp [Matrix.one_apply]
      | succ k =>
        simp only [Matrix.smul_apply, smul_eq_mul, ← Finset.mul_sum, hpow k j, mul_zero]
        simp
    rw [this]
    exact hasSum_ite_eq 0 1
  exact hs.unique hs1

/-- a zero row of `A` gives the corresponding unit row of `exp A` -/
theorem exp_zero_row (A : Matrix n n ℝ) (i0 : n) (hA : ∀ j, A i0 j = 0) :
    ∀ j, (exp A) i0 j = if i0 = j then 1 else 0 := by
  intro j
  have hpow : ∀ k : ℕ, ∀ j, (A ^ (k+1)) i0 j = 0 := by
    intro k j
    rw [pow_succ', Matrix.mul_apply]
    simp [hA]
  have h := exp_series_hasSum_exp' (𝕂 := ℝ) A
  have hij : HasSum (fun k : ℕ => ((k !⁻¹ : ℝ) • A ^ k) i0 j) ((exp A) i0 j) :=
    (Pi.hasSum.mp ((Pi.hasSum.mp h) i0)) j
  have hs1 : HasSum (fun k : ℕ => ((k !⁻¹ : ℝ) • A ^ k) i0 j) (if i0 = j then 1 else 0) := by
    have : (fun k : ℕ => ((k !⁻¹ : ℝ) • A ^ k) i0 j) = fun k => if k = 0 then (if i0 = j then (1:ℝ) else 0) else 0 := by
      funext k
      cases k with
      | zero => simp [Matrix.one_apply]
      | succ k => simp [Matrix.smul_apply, hpow k j]
    rw [this]
    exact hasSum_ite_eq 0 _
  exact hij.unique hs1

theorem hasDerivAt_exp_smul (J : Matrix n n ℝ) (t : ℝ) :
    HasDerivAt (fun u : ℝ => exp (u • J)) (J * exp (t • J)) t :=
  hasDerivAt_exp_smul_const' (𝕂 := ℝ) J t

/-- componentwise: `N(t) = exp(tJ) N0` solves `N' = J N` -/
theorem hasDerivAt_solution (J : Matrix n n ℝ) (N0 : n → ℝ) (t : ℝ) (i : n) :
    HasDerivAt (fun u : ℝ => (exp (u • J) *ᵥ N0) i) ((J *ᵥ (exp (t • J) *ᵥ N0)) i) t := by
  let L : Matrix n n ℝ →ₗ[ℝ] ℝ :=
    { toFun := fun M => (M *ᵥ N0) i
      map_add' := fun A B => by simp [Matrix.add_mulVec]
      map_smul' := fun c A => by simp [Matrix.smul_mulVec] }
  have hL := (LinearMap.toContinuousLinearMap L).hasFDerivAt (x := exp (t • J))
  have := hL.comp_hasDerivAt t (hasDerivAt_exp_smul J t)
  have e : (J *ᵥ (exp (t • J) *ᵥ N0)) i = (LinearMap.toContinuousLinearMap L) (J * exp (t • J)) := by
    simp [L, Matrix.mulVec_mulVec]
  rw [e]
  exact this

/-- semigroup property: running for `s` and then for `t` is running for `s + t` -/
theorem exp_add_smul (J : Matrix n n ℝ) (s t : ℝ) :
    exp ((s + t) • J) = exp (t • J) * exp (s • J) := by
  rw [add_comm, add_smul]
  exact Matrix.exp_add_of_commute _ _ ((Commute.refl J).smul_left t |>.smul_right s)

/-- `k`-fold rate for `1/k` of the time -/
theorem exp_scale (J : Matrix n n ℝ) (k t : ℝ) (hk : k ≠ 0) :
    exp ((t / k) • (k • J)) = exp (t • J) := by
  rw [smul_smul, div_mul_cancel₀ t hk]

end RateMat
