import EbisimProofs.RealInst
import EbisimModel.Model.Radial

/-! Correctness of the Thomas-algorithm model `Radial.solve` over ℝ, for every system size. -/
namespace Radial
open Num

/-- all pivots of the forward sweep are non-zero -/
def PivotsOk : ℝ → List (Row ℝ) → Prop
  | _, [] => True
  | c, r :: rs => r.d - r.l * c ≠ 0 ∧ PivotsOk (r.u / (r.d - r.l * c)) rs

theorem back_fwd_ne_nil (c p : ℝ) (r : Row ℝ) (rs : List (Row ℝ)) :
    back (fwd c p (r :: rs)) ≠ [] := by
  simp only [fwd, back]
  split <;> simp

theorem back_length : ∀ (cps : List (ℝ × ℝ)), (back cps).length = cps.length
  | [] => rfl
  | (c, p) :: rest => by
    have ih := back_length rest
    simp only [back]
    split
    · rename_i h; rw [h] at ih; simp at ih; simp [← ih]
    · rename_i x xs h; rw [h] at ih; simp at ih ⊢; omega

theorem fwd_length (c p : ℝ) : ∀ rows : List (Row ℝ), (fwd c p rows).length = rows.length
  | [] => rfl
  | r :: rs => by simp [fwd, fwd_length _ _ rs]

theorem solve_length (rows : List (Row ℝ)) : (solve rows).length = rows.length := by
  simp [solve, back_length, fwd_length]

/-- Key lemma: with incoming `(c, p)`, the solution satisfies every row, where the virtual
left neighbour of the first row is `p - c * x₀`. -/
theorem mulTri_back_fwd (c p : ℝ) (rows : List (Row ℝ)) (h : PivotsOk c rows) :
    ∀ x xs, back (fwd c p rows) = x :: xs →
      mulTri (p - c * x) rows (x :: xs) = rows.map (·.b) := by
  induction rows generalizing c p with
  | nil => intro x xs h; simp [fwd, back] at h
  | cons r rs ih =>
    intro x xs hx
    obtain ⟨hden, hrest⟩ := h
    simp only [fwd] at hx
    set den := r.d - r.l * c with hden_def
    set c' := r.u / den with hc'
    set p' := (r.b - r.l * p) / den with hp'
    cases rs with
    | nil =>
      simp only [fwd, back] at hx
      obtain ⟨rfl, rfl⟩ := List.cons.inj hx
      simp only [mulTri, List.map, lit_real, Nat.cast_zero, add_zero]
      congr 1
      rw [hp']; field_simp; ring
    | cons r2 rs' =>
      have hne := back_fwd_ne_nil c' p' r2 rs'
      cases hb : back (fwd c' p' (r2 :: rs')) with
      | nil => exact absurd hb hne
      | cons y ys =>
        have := ih c' p' hrest y ys hb
        simp only [back] at hx
        rw [hb] at hx
        simp only at hx
        obtain ⟨rfl, rfl⟩ := List.cons.inj hx
        simp only [mulTri, List.map] at this ⊢
        rw [this]
        congr 1
        rw [hp', hc']; field_simp; ring

/-- **Thomas algorithm**: if no pivot vanishes, `M · solve rows = b`, row by row. -/
theorem solve_correct (rows : List (Row ℝ)) (h : PivotsOk 0 rows) :
    mulTri 0 rows (solve rows) = rows.map (·.b) := by
  cases rows with
  | nil => simp [mulTri]
  | cons r rs =>
    have hne := back_fwd_ne_nil (0:ℝ) 0 r rs
    cases hs : back (fwd (0:ℝ) 0 (r :: rs)) with
    | nil => exact absurd hs hne
    | cons x xs =>
      have := mulTri_back_fwd 0 0 (r :: rs) h x xs hs
      have hsolve : solve (r :: rs) = x :: xs := by simpa [solve] using hs
      rw [hsolve]; simpa using this

/-- strict diagonal dominance by rows -/
def DiagDom (rows : List (Row ℝ)) : Prop := ∀ r ∈ rows, |r.l| + |r.u| < |r.d|

theorem pivotsOk_of_diagDom (c : ℝ) (hc : |c| ≤ 1) (rows : List (Row ℝ)) (h : DiagDom rows) :
    PivotsOk c rows := by
  induction rows generalizing c with
  | nil => trivial
  | cons r rs ih =>
    have hr := h r (by simp)
    have hlc : |r.l * c| ≤ |r.l| := by
      rw [abs_mul]; exact mul_le_of_le_one_right (abs_nonneg _) hc
    have hden : |r.u| < |r.d - r.l * c| := by
      have := abs_sub_abs_le_abs_sub r.d (r.l * c)
      have h0 := abs_nonneg r.u
      linarith
    have hpos : 0 < |r.d - r.l * c| := lt_of_le_of_lt (abs_nonneg _) hden
    refine ⟨abs_pos.mp hpos, ih _ ?_ (fun r' hr' => h r' (by simp [hr']))⟩
    rw [abs_div, div_le_one hpos]
    exact hden.le

/-- **Thomas algorithm on strictly diagonally dominant systems**, every size -/
theorem solve_correct_of_diagDom (rows : List (Row ℝ)) (h : DiagDom rows) :
    mulTri 0 rows (solve rows) = rows.map (·.b) :=
  solve_correct rows (pivotsOk_of_diagDom 0 (by simp) rows h)

end Radial
