import EbisimProofs.Lemmas.MaxPrinciple
import EbisimProofs.Lemmas.Newton

/-! Consequences of the discrete maximum principle for the finite-difference operator
`A = fd_system_nonuniform_grid(r)` in the coefficient-list form `mulL` used by the Newton lemmas:
monotone solutions for one-signed right-hand sides and the comparison principle. -/
namespace Radial
open Num

theorem getLast?_zipWith_sub' : ∀ (a b : List ℝ) (x y : ℝ), a.length = b.length → a.getLast? = some x → b.getLast? = some y →
    (List.zipWith (· - ·) a b).getLast? = some (x - y)
  | [], _, _, _, _, h, _ => by simp at h
  | [a0], [b0], x, y, _, ha, hb => by simp at ha hb; simp [ha, hb]
  | [_], [], _, _, h, _, _ => by simp at h
  | [_], _ :: _ :: _, _, _, h, _, _ => by simp at h
  | _ :: _ :: _, [], _, _, h, _, _ => by simp at h
  | _ :: _ :: _, [_], _, _, h, _, _ => by simp at h
  | a0 :: a1 :: as, b0 :: b1 :: bs, x, y, h, ha, hb => by
    have ih := getLast?_zipWith_sub' (a1 :: as) (b1 :: bs) x y (by simpa using h)
      (by simpa [List.getLast?_cons_cons] using ha) (by simpa [List.getLast?_cons_cons] using hb)
    simp only [List.zipWith_cons_cons] at ih ⊢
    rw [List.getLast?_cons_cons]; exact ih

/-- **one-signed right-hand side ⇒ monotone solution**: if `A x = b` with `b ≥ 0` at every node
(no positive charge anywhere), `x` never decreases outward — on every admissible grid -/
theorem fd_monotone (r b x : List ℝ) (hg : GridMP r) (hb : b.length = r.length) (hx : x.length = r.length)
    (h : mulL 0 (fdNonuniform r) x = b) (hnn : ∀ v ∈ b, 0 ≤ v) : List.Pairwise (· ≤ ·) x := by
  have hc := fdNonuniform_length' r hg
  have hP := fd_system_poisson_type r b hg hb
  have hB := rhsNonneg_withRhs (fdNonuniform r) b hnn
  have hM : mulTri 0 (withRhs (fdNonuniform r) b) x = (withRhs (fdNonuniform r) b).map (·.b) := by
    rw [mulTri_withRhs 0 _ b x (by omega), h, withRhs_map_b _ b (by omega)]
  exact mono_of_pois _ 0 x hP hB (by rw [withRhs_length _ b (by omega)]; omega) hM
    (by intro rw hrw x0 _; rw [fdNonuniform_head_l r b rw hrw]; simp)

/-- **comparison principle for the finite-difference Poisson operator**: if `A x₁ = b₁`, `A x₂ = b₂`
with `b₂ ≤ b₁` at every node (`b = −ρ/ε₀`: more positive charge means a smaller right-hand side) and
both solutions vanish at the wall, then `x₁ ≤ x₂` at every node — on every admissible grid. -/
theorem fd_comparison (r b1 b2 x1 x2 : List ℝ) (hg : GridMP r)
    (hb1 : b1.length = r.length) (hb2 : b2.length = r.length)
    (hx1 : x1.length = r.length) (hx2 : x2.length = r.length)
    (h1 : mulL 0 (fdNonuniform r) x1 = b1) (h2 : mulL 0 (fdNonuniform r) x2 = b2)
    (hle : ∀ p ∈ List.zip b1 b2, p.2 ≤ p.1)
    (hw1 : x1.getLast? = some 0) (hw2 : x2.getLast? = some 0) :
    ∀ p ∈ List.zip x1 x2, p.1 ≤ p.2 := by
  have hc := fdNonuniform_length' r hg
  set c := fdNonuniform r with hcdef
  set d := List.zipWith (· - ·) x1 x2 with hd
  set bd := List.zipWith (· - ·) b1 b2 with hbd
  have hdl : d.length = r.length := by simp [hd, hx1, hx2]
  have hbdl : bd.length = r.length := by simp [hbd, hb1, hb2]
  have hmul : mulL 0 c d = bd := by
    have := mulL_sub 0 0 c x1 x2 (by omega) (by omega)
    rw [sub_zero] at this
    rw [hd, this, h1, h2]
  have hP := fd_system_poisson_type r bd hg hbdl
  have hnn : ∀ v ∈ bd, 0 ≤ v := by
    intro v hv
    rw [hbd, ← List.map_uncurry_zip_eq_zipWith] at hv
    obtain ⟨p, hp, rfl⟩ := List.mem_map.mp hv
    have := hle p hp
    simp only [Function.uncurry]; linarith
  have hB := rhsNonneg_withRhs c bd hnn
  have hM : mulTri 0 (withRhs c bd) d = (withRhs c bd).map (·.b) := by
    rw [mulTri_withRhs 0 c bd d (by omega), hmul, withRhs_map_b c bd (by omega)]
  have hmono := mono_of_pois (withRhs c bd) 0 d hP hB
    (by rw [withRhs_length c bd (by omega)]; omega) hM
    (by intro rw hrw x0 _; rw [fdNonuniform_head_l r bd rw hrw]; simp)
  have hlast : d.getLast? = some 0 := by
    have := getLast?_zipWith_sub' x1 x2 0 0 (by omega) hw1 hw2
    simpa using this
  have hall := le_last_of_pairwise d hmono 0 hlast
  intro p hp
  have : Function.uncurry (· - ·) p ∈ d := by
    rw [hd, ← List.map_uncurry_zip_eq_zipWith]
    exact List.mem_map.mpr ⟨p, hp, rfl⟩
  have := hall _ this
  simp only [Function.uncurry] at this; linarith

end Radial
