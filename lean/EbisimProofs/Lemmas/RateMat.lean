import EbisimProofs.Lemmas.MatExp
import EbisimProofs.Lemmas.Consts
import EbisimModel.Model.Basic

/-! Rate-matrix arrangement (`eixs_mat`, `rrxs_mat`, `drxs_mat`, `basic_simulation`'s `_jac`) as
Mathlib matrices, bridged to the list model that the driver executes. -/
open Matrix
namespace RateMat

/-- `np.diag(xs[:-1], -1) - np.diag(xs)` -/
def eiM {n : ℕ} (x : Fin n → ℝ) : Matrix (Fin n) (Fin n) ℝ :=
  fun i j => (if (i : ℕ) = (j : ℕ) + 1 then x j else 0) - (if i = j then x j else 0)
/-- `np.diag(xs[1:], 1) - np.diag(xs)` -/
def recM {n : ℕ} (x : Fin n → ℝ) : Matrix (Fin n) (Fin n) ℝ :=
  fun i j => (if (i : ℕ) + 1 = (j : ℕ) then x j else 0) - (if i = j then x j else 0)

theorem sum_fin_ite {n : ℕ} (k : ℕ) (c : ℝ) : (∑ i : Fin n, if (i : ℕ) = k then c else 0) = if k < n then c else 0 := by
  split_ifs with h
  · rw [Finset.sum_eq_single (⟨k, h⟩ : Fin n)]
    · simp
    · intro b _ hb; rw [if_neg]; intro e; apply hb; exact Fin.ext e
    · intro hh; exact absurd (Finset.mem_univ _) hh
  · apply Finset.sum_eq_zero; intro i _; rw [if_neg]; intro e; apply h; rw [← e]; exact i.2

theorem sum_fin_ite' {n : ℕ} (j : Fin n) (c : ℝ) : (∑ i : Fin n, if i = j then c else 0) = c := by
  simp

/-- column sums of the ionisation arrangement: zero except for the last column, where `-x` remains -/
theorem eiM_colsum {n : ℕ} (x : Fin n → ℝ) (j : Fin n) :
    ∑ i, eiM x i j = if (j : ℕ) + 1 < n then 0 else -x j := by
  simp only [eiM, Finset.sum_sub_distrib, sum_fin_ite, sum_fin_ite']
  split_ifs <;> ring

/-- column sums of the recombination arrangement: zero except for the first column -/
theorem recM_colsum {n : ℕ} (x : Fin n → ℝ) (j : Fin n) :
    ∑ i, recM x i j = if 0 < (j : ℕ) then 0 else -x j := by
  simp only [recM, Finset.sum_sub_distrib, sum_fin_ite']
  have : (∑ i : Fin n, if (i : ℕ) + 1 = (j : ℕ) then x j else 0) = if 0 < (j : ℕ) then x j else 0 := by
    by_cases hj : 0 < (j : ℕ)
    · rw [if_pos hj]
      have hlt : (j : ℕ) - 1 < n := by omega
      rw [Finset.sum_eq_single (⟨(j : ℕ) - 1, hlt⟩ : Fin n)]
      · rw [if_pos]; simp; omega
      · intro b _ hb; rw [if_neg]; intro e; apply hb; apply Fin.ext; simp; omega
      · intro hh; exact absurd (Finset.mem_univ _) hh
    · rw [if_neg hj]; apply Finset.sum_eq_zero; intro i _; rw [if_neg]; omega
  rw [this]; split_ifs <;> ring

/-- **all columns of the ionisation matrix sum to zero iff the last cross section vanishes** -/
theorem eiM_colsum_zero_iff {n : ℕ} (x : Fin n → ℝ) :
    (∀ j, ∑ i, eiM x i j = 0) ↔ ∀ j : Fin n, (j : ℕ) + 1 = n → x j = 0 := by
  constructor
  · intro h j hj; have := h j; rw [eiM_colsum, if_neg (by omega)] at this; linarith
  · intro h j; rw [eiM_colsum]; split_ifs with hj
    · rfl
    · rw [h j (by omega)]; simp

/-- **all columns of a recombination matrix sum to zero iff the neutral cross section vanishes** -/
theorem recM_colsum_zero_iff {n : ℕ} (x : Fin n → ℝ) :
    (∀ j, ∑ i, recM x i j = 0) ↔ ∀ j : Fin n, (j : ℕ) = 0 → x j = 0 := by
  constructor
  · intro h j hj; have := h j; rw [recM_colsum, if_neg (by omega)] at this; linarith
  · intro h j; rw [recM_colsum]; split_ifs with hj
    · rfl
    · rw [h j (by omega)]; simp

/-- sign structure: tridiagonal, non-negative off the diagonal, non-positive on it -/
theorem eiM_structure {n : ℕ} (x : Fin n → ℝ) (hx : ∀ k, 0 ≤ x k) (i j : Fin n) :
    (i ≠ j → 0 ≤ eiM x i j) ∧ eiM x i i ≤ 0 ∧ ((i : ℕ) ≠ (j : ℕ) + 1 → i ≠ j → eiM x i j = 0) := by
  refine ⟨fun hij => ?_, ?_, fun h1 h2 => ?_⟩
  · simp only [eiM, if_neg hij, sub_zero]; split_ifs; exact hx j; exact le_refl _
  · simp only [eiM, if_true]; rw [if_neg (by omega)]; have := hx i; linarith
  · simp [eiM, h1, h2]

theorem recM_structure {n : ℕ} (x : Fin n → ℝ) (hx : ∀ k, 0 ≤ x k) (i j : Fin n) :
    (i ≠ j → 0 ≤ recM x i j) ∧ recM x i i ≤ 0 ∧ ((i : ℕ) + 1 ≠ (j : ℕ) → i ≠ j → recM x i j = 0) := by
  refine ⟨fun hij => ?_, ?_, fun h1 h2 => ?_⟩
  · simp only [recM, if_neg hij, sub_zero]; split_ifs; exact hx j; exact le_refl _
  · simp only [recM, if_true]; rw [if_neg (by omega)]; have := hx i; linarith
  · simp [recM, h1, h2]

/-! ### bridge to the list model -/

/-- a list of rows read as an `n × n` matrix (missing entries read 0) -/
def toM (n : ℕ) (m : List (List ℝ)) : Matrix (Fin n) (Fin n) ℝ := fun i j => (m.getD i []).getD j 0
/-- a list read as a vector -/
def toV (n : ℕ) (l : List ℝ) : Fin n → ℝ := fun k => l.getD k 0

theorem toM_eiMat (l : List ℝ) : toM l.length (Xs.eiMat l) = eiM (toV l.length l) := by
  funext i j
  simp [toM, Xs.eiMat, eiM, toV, List.getD_eq_getElem?_getD, Fin.ext_iff]

theorem toM_recMat (l : List ℝ) : toM l.length (Xs.recMat l) = recM (toV l.length l) := by
  funext i j
  simp [toM, Xs.recMat, recM, toV, List.getD_eq_getElem?_getD, Fin.ext_iff]

/-- all rows present and of full width -/
def IsSq (n : ℕ) (m : List (List ℝ)) : Prop := m.length = n ∧ ∀ r ∈ m, r.length = n

theorem isSq_eiMat (l : List ℝ) : IsSq l.length (Xs.eiMat l) := by
  constructor
  · simp [Xs.eiMat]
  · intro r hr; simp only [Xs.eiMat, List.mem_map] at hr; obtain ⟨i, _, rfl⟩ := hr; simp

theorem isSq_recMat (l : List ℝ) : IsSq l.length (Xs.recMat l) := by
  constructor
  · simp [Xs.recMat]
  · intro r hr; simp only [Xs.recMat, List.mem_map] at hr; obtain ⟨i, _, rfl⟩ := hr; simp

theorem toM_matAdd (n : ℕ) (a b : List (List ℝ)) (ha : IsSq n a) (hb : IsSq n b) :
    toM n (Basic.matAdd a b) = toM n a + toM n b ∧ IsSq n (Basic.matAdd a b) := by
  constructor
  · funext i j
    have hia : (i : ℕ) < a.length := by rw [ha.1]; exact i.2
    have hib : (i : ℕ) < b.length := by rw [hb.1]; exact i.2
    have hra : (a[(i:ℕ)]).length = n := ha.2 _ (List.getElem_mem hia)
    have hrb : (b[(i:ℕ)]).length = n := hb.2 _ (List.getElem_mem hib)
    simp only [toM, Basic.matAdd, Matrix.add_apply, List.getD_eq_getElem?_getD]
    rw [List.getElem?_zipWith, List.getElem?_eq_getElem hia, List.getElem?_eq_getElem hib]
    simp only [Option.map₂_some_some, Option.getD_some]
    rw [List.getElem?_zipWith]
    rw [List.getElem?_eq_getElem (by rw [hra]; exact j.2), List.getElem?_eq_getElem (by rw [hrb]; exact j.2)]
    simp
  · constructor
    · simp [Basic.matAdd, ha.1, hb.1]
    · intro r hr
      simp only [Basic.matAdd] at hr
      obtain ⟨k, hk, rfl⟩ := List.getElem_of_mem hr
      simp only [List.length_zipWith] at hk
      simp only [List.getElem_zipWith, List.length_zipWith]
      rw [ha.2 _ (List.getElem_mem _), hb.2 _ (List.getElem_mem _)]; simp

theorem toM_matScale (n : ℕ) (c : ℝ) (m : List (List ℝ)) (hm : IsSq n m) :
    toM n (Basic.matScale c m) = c • toM n m := by
  funext i j
  have hi : (i : ℕ) < m.length := by rw [hm.1]; exact i.2
  have hr : (m[(i:ℕ)]).length = n := hm.2 _ (List.getElem_mem hi)
  simp only [toM, Basic.matScale, Matrix.smul_apply, smul_eq_mul, List.getD_eq_getElem?_getD, List.getElem?_map,
    List.getElem?_eq_getElem hi, Option.map_some, Option.getD_some]
  rw [List.getElem?_eq_getElem (by rw [hr]; exact j.2)]; simp

theorem toM_zeroRow0 (n : ℕ) (m : List (List ℝ)) (hm : IsSq n m) :
    toM n (Basic.zeroRow0 m) = fun (i j : Fin n) => if (i : ℕ) = 0 then 0 else toM n m i j := by
  funext i j
  cases m with
  | nil => simp [toM, Basic.zeroRow0]
  | cons r rs =>
    by_cases hi : (i : ℕ) = 0
    · simp only [toM, Basic.zeroRow0, hi, if_true, List.getD_eq_getElem?_getD, List.getElem?_cons_zero, Option.getD_some]
      rw [List.getElem?_map]; cases r[(j:ℕ)]? <;> simp
    · obtain ⟨k, hk⟩ : ∃ k, (i : ℕ) = k + 1 := ⟨(i : ℕ) - 1, by omega⟩
      simp [toM, Basic.zeroRow0, hk, List.getD_eq_getElem?_getD]

theorem isSq_zeroRow0 (n : ℕ) (m : List (List ℝ)) (hm : IsSq n m) : IsSq n (Basic.zeroRow0 m) := by
  cases m with
  | nil => exact hm
  | cons r rs =>
    constructor
    · simpa [Basic.zeroRow0] using hm.1
    · intro x hx
      simp only [Basic.zeroRow0, List.mem_cons] at hx
      rcases hx with rfl | hx
      · simp [hm.2 r (by simp)]
      · exact hm.2 x (by simp [hx])

end RateMat
