import EbisimProofs.Lemmas.Fd
import EbisimProofs.Lemmas.Consts

/-! Discrete maximum principle for tridiagonal systems of "Poisson type" (the finite-difference
systems of `_radial_dist.py` are weakly, not strictly, diagonally dominant, so `DiagDom` does not
apply to them):

* the Thomas algorithm never meets a zero pivot on such a system (`pivotsOk_of_pois`), hence the
  solver returns an exact solution of the finite-difference equations (`solve_correct_of_pois`);
* a solution with a non-negative right-hand side at every row but the last never decreases along
  the grid (`mono_of_pois`) and is therefore bounded by its last entry (`le_last_of_pois`).

Everything holds for every system size. -/
namespace Radial
open Num

/-- rows of Poisson type: every row but the last has `0 ≤ l`, `0 < u`, `d = -(l+u)`;
the last row is the boundary row `(0, 1, ·)` -/
def PoisRows : List (Row ℝ) → Prop
  | [] => True
  | [w] => w.l = 0 ∧ w.d = 1
  | r :: r' :: rs => (0 ≤ r.l ∧ 0 < r.u ∧ r.d = -(r.l + r.u)) ∧ PoisRows (r' :: rs)

/-- right-hand side non-negative at every row but the last -/
def RhsNonneg : List (Row ℝ) → Prop
  | [] => True
  | [_] => True
  | r :: r' :: rs => 0 ≤ r.b ∧ RhsNonneg (r' :: rs)

/-- the forward sweep keeps its coefficient in `[-1, 0]` and never meets a zero pivot -/
theorem pivotsOk_of_pois (c : ℝ) (hc0 : c ≤ 0) (hc1 : -1 ≤ c) : ∀ rows : List (Row ℝ), PoisRows rows →
    PivotsOk c rows := by
  intro rows
  induction rows generalizing c with
  | nil => intro _; trivial
  | cons r rs ih =>
    intro h
    cases rs with
    | nil =>
      obtain ⟨hl, hd⟩ := h
      refine ⟨?_, trivial⟩
      rw [hl, hd]; norm_num
    | cons r' rs' =>
      obtain ⟨⟨hl, hu, hd⟩, hrest⟩ := h
      have hden : r.d - r.l * c ≤ -r.u := by
        rw [hd]; nlinarith
      have hneg : r.d - r.l * c < 0 := by linarith
      refine ⟨ne_of_lt hneg, ih _ ?_ ?_ hrest⟩
      · exact div_nonpos_of_nonneg_of_nonpos hu.le hneg.le
      · rw [le_div_iff_of_neg hneg]; linarith

/-- **the Thomas algorithm solves every system of Poisson type exactly** (any size) -/
theorem solve_correct_of_pois (rows : List (Row ℝ)) (h : PoisRows rows) :
    mulTri 0 rows (solve rows) = rows.map (·.b) :=
  solve_correct rows (pivotsOk_of_pois 0 le_rfl (by norm_num) rows h)

/-- **discrete maximum principle, monotone form**: if `M x = b` for a system of Poisson type whose
right-hand side is non-negative at every row but the last, and the first row does not pull the
solution below its (virtual) left neighbour, then `x` never decreases along the grid. -/
theorem mono_of_pois : ∀ (rows : List (Row ℝ)) (xp : ℝ) (x : List ℝ), PoisRows rows → RhsNonneg rows →
    rows.length = x.length → mulTri xp rows x = rows.map (·.b) →
    (∀ r ∈ rows.head?, ∀ x0 ∈ x.head?, 0 ≤ r.l * (x0 - xp)) →
    List.Pairwise (· ≤ ·) x := by
  -- chain form first, then `Pairwise` by transitivity
  suffices hchain : ∀ (rows : List (Row ℝ)) (xp : ℝ) (x : List ℝ), PoisRows rows → RhsNonneg rows →
      rows.length = x.length → mulTri xp rows x = rows.map (·.b) →
      (∀ r ∈ rows.head?, ∀ x0 ∈ x.head?, 0 ≤ r.l * (x0 - xp)) → List.IsChain (· ≤ ·) x by
    intro rows xp x h1 h2 h3 h4 h5
    exact (List.isChain_iff_pairwise).mp (hchain rows xp x h1 h2 h3 h4 h5)
  intro rows
  induction rows with
  | nil => intro xp x _ _ hl _ _; cases x <;> simp_all
  | cons r rs ih =>
    intro xp x hP hB hl hM h0
    match x, hl with
    | [x0], _ => exact List.isChain_singleton _
    | x0 :: x1 :: xs, hl =>
      cases rs with
      | nil => simp at hl
      | cons r' rs' =>
        obtain ⟨⟨hlr, hu, hd⟩, hrest⟩ := hP
        obtain ⟨hb, hBrest⟩ := hB
        simp only [mulTri, List.map_cons, List.cons.injEq] at hM
        obtain ⟨hrow, hM'⟩ := hM
        have h00 : 0 ≤ r.l * (x0 - xp) := h0 r (by simp) x0 (by simp)
        -- u (x1 - x0) = b + l (x0 - xp) ≥ 0
        have hstep : 0 ≤ r.u * (x1 - x0) := by
          have : r.u * (x1 - x0) = r.b + r.l * (x0 - xp) := by rw [← hrow, hd]; ring
          rw [this]; linarith
        have hx : x0 ≤ x1 := by
          by_contra hlt
          push Not at hlt
          have : r.u * (x1 - x0) < 0 := mul_neg_of_pos_of_neg hu (by linarith)
          linarith
        have htail : List.IsChain (· ≤ ·) (x1 :: xs) := by
          refine ih x0 (x1 :: xs) hrest hBrest (by simpa using hl) ?_ ?_
          · simpa [mulTri] using hM'
          · intro r2 hr2 y hy
            simp only [List.head?_cons, Option.mem_def, Option.some.injEq] at hr2 hy
            subst hr2; subst hy
            cases rs' with
            | nil => rw [hrest.1]; simp
            | cons r'' rs'' => exact mul_nonneg hrest.1.1 (by linarith)
        exact List.IsChain.cons_cons hx htail

/-- consequently every entry is bounded by the last one -/
theorem le_last_of_pairwise (x : List ℝ) (h : List.Pairwise (· ≤ ·) x) (last : ℝ)
    (hlast : x.getLast? = some last) : ∀ v ∈ x, v ≤ last := by
  intro v hv
  obtain ⟨ys, rfl⟩ : ∃ ys, x = ys ++ [last] := by
    rcases List.eq_nil_or_concat x with rfl | ⟨ys, y, rfl⟩
    · simp at hlast
    · refine ⟨ys, ?_⟩
      simp only [List.concat_eq_append, List.getLast?_append, List.getLast?_singleton,
        Option.some_or, Option.some.injEq] at hlast
      subst hlast; simp
  rw [List.pairwise_append] at h
  rcases List.mem_append.mp hv with hv | hv
  · exact h.2.2 v hv last (by simp)
  · simp at hv; rw [hv]

end Radial

namespace Radial
open Num

/-! ### the finite-difference systems of `_radial_dist.py` are of Poisson type -/

theorem fdRow_l_nonneg (r a b : ℝ) (hr : 0 < r) (ha : 0 < a) (hb : 0 < b) (h : b ≤ 2 * r) :
    0 ≤ (fdRow r a b).1 := by
  have : (fdRow r a b).1 = (2 * r - b) / (a * (a + b) * r) := by
    simp only [fdRow, lit_real, powN_real]; field_simp; ring
  rw [this]; apply div_nonneg <;> [linarith; positivity]

theorem fdRow_d_eq (r a b : ℝ) (hr : 0 < r) (ha : 0 < a) (hb : 0 < b) :
    (fdRow r a b).2.1 = -((fdRow r a b).1 + (fdRow r a b).2.2) := by
  have := fdRow_const r a b hr ha hb; linarith

/-- the grid walked by `fdInterior`: every interior node is positive, the grid increases strictly
and no step is longer than twice the radius of its left node (`r[i+1] ≤ 3 r[i]`): the condition
under which the lower off-diagonal of the stencil is non-negative (`fdRow_l_nonneg`) -/
def StepsOk : ℝ → ℝ → List ℝ → Prop
  | _, _, [] => True
  | rp, rc, rn :: rest => (0 < rc ∧ rp < rc ∧ rc < rn ∧ rn ≤ 3 * rc) ∧ StepsOk rc rn rest

theorem withRhs_cons_exists (c0 : ℝ × ℝ × ℝ) (cs : List (ℝ × ℝ × ℝ)) (b0 : ℝ) (bs : List ℝ) :
    ∃ w ws, withRhs (c0 :: cs) (b0 :: bs) = w :: ws := by
  obtain ⟨l, d, u⟩ := c0; exact ⟨_, _, rfl⟩

theorem withRhs_fdInterior_cons (rp rc : ℝ) (rest : List ℝ) (b0 : ℝ) (bs : List ℝ) :
    ∃ w ws, withRhs (fdInterior rp rc rest) (b0 :: bs) = w :: ws := by
  cases rest with
  | nil => exact withRhs_cons_exists _ _ _ _
  | cons a t => exact withRhs_cons_exists _ _ _ _

theorem poisRows_fdInterior : ∀ (rest : List ℝ) (rp rc : ℝ) (b : List ℝ), StepsOk rp rc rest →
    b.length = rest.length + 1 → PoisRows (withRhs (fdInterior rp rc rest) b) := by
  intro rest
  induction rest with
  | nil =>
    intro rp rc b _ hb
    match b, hb with
    | [b0], _ => simp [fdInterior, withRhs, PoisRows]
  | cons rn rest ih =>
    intro rp rc b hs hb
    obtain ⟨⟨hrc, h1, h2, h3⟩, hrest⟩ := hs
    match b, hb with
    | b0 :: b1 :: bs, hb =>
      have ih' := ih rc rn (b1 :: bs) hrest (by simpa using hb)
      have ha : 0 < rc - rp := by linarith
      have hbb : 0 < rn - rc := by linarith
      -- the tail is non-empty, expose its head to unfold `PoisRows`
      have hne : ∃ w ws, withRhs (fdInterior rc rn rest) (b1 :: bs) = w :: ws :=
        withRhs_fdInterior_cons rc rn rest b1 bs
      obtain ⟨w, ws, hw⟩ := hne
      have : withRhs (fdInterior rp rc (rn :: rest)) (b0 :: b1 :: bs) =
          ⟨(fdRow rc (rc - rp) (rn - rc)).1, (fdRow rc (rc - rp) (rn - rc)).2.1,
            (fdRow rc (rc - rp) (rn - rc)).2.2, b0⟩ :: withRhs (fdInterior rc rn rest) (b1 :: bs) := by
        simp only [fdInterior]
        obtain ⟨l, d, u⟩ := fdRow rc (rc - rp) (rn - rc)
        rfl
      rw [this, hw]
      rw [hw] at ih'
      exact ⟨⟨fdRow_l_nonneg _ _ _ hrc ha hbb (by linarith), fdRow_u_pos _ _ _ hrc ha hbb,
        fdRow_d_eq _ _ _ hrc ha hbb⟩, ih'⟩

/-- **`fd_system_nonuniform_grid` yields a system of Poisson type** on every strictly increasing
grid whose steps satisfy `r[i+1] ≤ 3 r[i]` for `i ≥ 1`, whatever the right-hand side -/
theorem poisRows_fdNonuniform (r0 r1 : ℝ) (rest b : List ℝ) (h01 : r0 < r1) (hs : StepsOk r0 r1 rest)
    (hb : b.length = rest.length + 2) : PoisRows (withRhs (fdNonuniform (r0 :: r1 :: rest)) b) := by
  match b, hb with
  | b0 :: b1 :: bs, hb =>
    have htail := poisRows_fdInterior rest r0 r1 (b1 :: bs) hs (by simpa using hb)
    have hne : ∃ w ws, withRhs (fdInterior r0 r1 rest) (b1 :: bs) = w :: ws :=
      withRhs_fdInterior_cons r0 r1 rest b1 bs
    obtain ⟨w, ws, hw⟩ := hne
    have : withRhs (fdNonuniform (r0 :: r1 :: rest)) (b0 :: b1 :: bs) =
        ⟨0, -2 / (r1 - r0) ^ 2, 2 / (r1 - r0) ^ 2, b0⟩ :: withRhs (fdInterior r0 r1 rest) (b1 :: bs) := by
      simp [fdNonuniform, withRhs]
    rw [this, hw]; rw [hw] at htail
    have hpos : 0 < 2 / (r1 - r0) ^ 2 := by
      have : 0 < r1 - r0 := by linarith
      positivity
    exact ⟨⟨le_rfl, hpos, by ring⟩, htail⟩

/-- right-hand side of `withRhs`: `RhsNonneg` from the entries -/
theorem rhsNonneg_withRhs : ∀ (c : List (ℝ × ℝ × ℝ)) (b : List ℝ), (∀ v ∈ b, 0 ≤ v) →
    RhsNonneg (withRhs c b)
  | [], _, _ => by simp [withRhs, RhsNonneg]
  | _ :: _, [], _ => by simp [withRhs, RhsNonneg]
  | [(l, d, u)], b0 :: bs, _ => by simp [withRhs, RhsNonneg]
  | (l, d, u) :: c1 :: cs, [b0], _ => by
    obtain ⟨l1, d1, u1⟩ := c1; simp [withRhs, RhsNonneg]
  | (l, d, u) :: c1 :: cs, b0 :: b1 :: bs, h => by
    have ih := rhsNonneg_withRhs (c1 :: cs) (b1 :: bs) (fun v hv => h v (by simp [hv]))
    obtain ⟨l1, d1, u1⟩ := c1
    simp only [withRhs] at ih ⊢
    exact ⟨h b0 (by simp), ih⟩

theorem withRhs_map_b : ∀ (c : List (ℝ × ℝ × ℝ)) (b : List ℝ), c.length = b.length →
    (withRhs c b).map (·.b) = b
  | [], [], _ => rfl
  | [], _ :: _, h => by simp at h
  | _ :: _, [], h => by simp at h
  | (l, d, u) :: cs, b0 :: bs, h => by
    simp only [withRhs, List.map_cons]; rw [withRhs_map_b cs bs (by simpa using h)]

theorem poissonRhs_nonneg : ∀ rho : List ℝ, (∀ v ∈ rho, v ≤ 0) → ∀ v ∈ poissonRhs rho, 0 ≤ v
  | [], _ => by simp [poissonRhs]
  | [_], _ => by simp [poissonRhs]
  | x :: y :: rest, h => by
    have ih := poissonRhs_nonneg (y :: rest) (fun v hv => h v (by simp [hv]))
    intro v hv
    simp only [poissonRhs, List.mem_cons] at hv
    rcases hv with rfl | hv
    · have := h x (by simp)
      exact div_nonneg (by linarith) Gen.Const.EPS_0_pos.le
    · exact ih v (by simpa [poissonRhs] using hv)

end Radial

namespace Radial
open Num

/-- grids on which the finite-difference system is of Poisson type: at least two nodes, strictly
increasing, interior nodes positive, and no step longer than twice the radius of its left node
(`r[i+1] ≤ 3 r[i]` for `i ≥ 1`; every `Device` grid — uniform inside the beam, geometric with ratio
< 1.2 outside — is of this kind) -/
def GridMP : List ℝ → Prop
  | r0 :: r1 :: rest => r0 < r1 ∧ StepsOk r0 r1 rest
  | _ => False

theorem GridMP.two_le {r : List ℝ} (hg : GridMP r) : 2 ≤ r.length := by
  match r, hg with
  | r0 :: r1 :: rest, _ => simp

theorem fd_system_poisson_type (r b : List ℝ) (hg : GridMP r) (hb : b.length = r.length) :
    PoisRows (withRhs (fdNonuniform r) b) := by
  match r, hg with
  | r0 :: r1 :: rest, hg => exact poisRows_fdNonuniform r0 r1 rest b hg.1 hg.2 (by simpa using hb)

theorem fdNonuniform_length' (r : List ℝ) (hg : GridMP r) : (fdNonuniform r).length = r.length := by
  match r, hg with
  | r0 :: r1 :: rest, _ => rw [fdNonuniform_length]; simp

/-- the first row of `fd_system_nonuniform_grid` has no lower neighbour -/
theorem fdNonuniform_head_l (r b : List ℝ) :
    ∀ rw ∈ (withRhs (fdNonuniform r) b).head?, rw.l = 0 := by
  intro rw hrw
  match r with
  | [] => simp [fdNonuniform, withRhs] at hrw
  | [_] => simp [fdNonuniform, withRhs] at hrw
  | r0 :: r1 :: rest =>
    match b with
    | [] => simp [fdNonuniform, withRhs] at hrw
    | b0 :: bs =>
      simp only [fdNonuniform, withRhs, List.head?_cons, Option.mem_def, Option.some.injEq] at hrw
      subst hrw; simp

end Radial

namespace Radial

theorem stepsOk_of_indexed : ∀ (rest : List ℝ) (rp rc : ℝ), 0 ≤ rp → rp < rc → (rc :: rest).Pairwise (· < ·) →
    (∀ j (h : j + 1 < (rc :: rest).length), (rc :: rest)[j + 1] ≤ 3 * (rc :: rest)[j]) → StepsOk rp rc rest
  | [], _, _, _, _, _, _ => trivial
  | rn :: rest, rp, rc, h0, h1, hp, hq => by
    have hrc : 0 < rc := by linarith
    have h2 : rc < rn := (List.pairwise_cons.mp hp).1 rn (by simp)
    have h3 : rn ≤ 3 * rc := by simpa using hq 0 (by simp)
    refine ⟨⟨hrc, h1, h2, h3⟩, stepsOk_of_indexed rest rc rn hrc.le h2 (List.pairwise_cons.mp hp).2 ?_⟩
    intro j hj
    have := hq (j + 1) (by simp at hj ⊢; omega)
    simpa using this

/-- **indexed form of the grid condition**: a strictly increasing grid starting at a non-negative
radius whose steps satisfy `r[i+1] ≤ 3 r[i]` for every `i ≥ 1` is admissible -/
theorem gridMP_of_indexed (r : List ℝ) (h2 : 2 ≤ r.length) (hinc : r.Pairwise (· < ·)) (h0 : 0 ≤ r[0])
    (hq : ∀ i, 1 ≤ i → ∀ h : i + 1 < r.length, r[i + 1] ≤ 3 * r[i]) : GridMP r := by
  match r, h2 with
  | r0 :: r1 :: rest, _ =>
    have h01 : r0 < r1 := (List.pairwise_cons.mp hinc).1 r1 (by simp)
    refine ⟨h01, stepsOk_of_indexed rest r0 r1 (by simpa using h0) h01 (List.pairwise_cons.mp hinc).2 ?_⟩
    intro j hj
    have := hq (j + 1) (by omega) (by simp at hj ⊢; omega)
    simpa using this

end Radial

namespace Radial
open Num

/-! ### the uniform-grid construction -/

theorem withRhs_fdUniInterior_cons (dr : ℝ) (i : ℕ) (a : ℝ) (t : List ℝ) (b0 : ℝ) (bs : List ℝ) :
    ∃ w ws, withRhs (fdUniInterior dr i (a :: t)) (b0 :: bs) = w :: ws := by
  cases t with
  | nil => exact withRhs_cons_exists _ _ _ _
  | cons a' t' => exact withRhs_cons_exists _ _ _ _

/-- the interior rows of `fd_system_uniform_grid` (node index `i ≥ 1`) are of Poisson type -/
theorem poisRows_fdUniInterior (dr : ℝ) (hdr : 0 < dr) : ∀ (l : List ℝ) (i : ℕ) (b : List ℝ), 1 ≤ i → l ≠ [] →
    b.length = l.length → PoisRows (withRhs (fdUniInterior dr i l) b) := by
  intro l
  induction l with
  | nil => intro i b _ h; exact absurd rfl h
  | cons a t ih =>
    intro i b hi _ hb
    cases t with
    | nil =>
      match b, hb with
      | [b0], _ => simp [fdUniInterior, withRhs, PoisRows]
    | cons a' t' =>
      match b, hb with
      | b0 :: b1 :: bs, hb =>
        have ih' := ih (i + 1) (b1 :: bs) (by omega) (by simp) (by simpa using hb)
        obtain ⟨w, ws, hw⟩ := withRhs_fdUniInterior_cons dr (i + 1) a' t' b1 bs
        have : withRhs (fdUniInterior dr i (a :: a' :: t')) (b0 :: b1 :: bs) =
            ⟨(1 - 0.5 / (i : ℝ)) / dr ^ 2, -2 / dr ^ 2, (1 + 0.5 / (i : ℝ)) / dr ^ 2, b0⟩ ::
              withRhs (fdUniInterior dr (i + 1) (a' :: t')) (b1 :: bs) := by
          simp [fdUniInterior, withRhs]
        rw [this, hw]; rw [hw] at ih'
        have hiR : (1 : ℝ) ≤ i := by exact_mod_cast hi
        have h05 : (0.5 : ℝ) / i ≤ 0.5 := by
          rw [div_le_iff₀ (by linarith)]; nlinarith
        have hd2 : 0 < dr ^ 2 := by positivity
        refine ⟨⟨?_, ?_, ?_⟩, ih'⟩
        · apply div_nonneg _ hd2.le; norm_num at h05 ⊢; linarith
        · apply div_pos _ hd2
          have : (0 : ℝ) ≤ 0.5 / i := by positivity
          linarith
        · field_simp; ring

/-- **`fd_system_uniform_grid` yields a system of Poisson type** for every positive step -/
theorem poisRows_fdUniform (r0 r1 : ℝ) (rest b : List ℝ) (h01 : r0 < r1) (hb : b.length = rest.length + 2) :
    PoisRows (withRhs (fdUniform (r0 :: r1 :: rest)) b) := by
  match b, hb with
  | b0 :: b1 :: bs, hb =>
    have hdr : 0 < r1 - r0 := by linarith
    have htail := poisRows_fdUniInterior (r1 - r0) hdr (r1 :: rest) 1 (b1 :: bs) le_rfl (by simp) (by simpa using hb)
    obtain ⟨w, ws, hw⟩ := withRhs_fdUniInterior_cons (r1 - r0) 1 r1 rest b1 bs
    have : withRhs (fdUniform (r0 :: r1 :: rest)) (b0 :: b1 :: bs) =
        ⟨0, -2 / (r1 - r0) ^ 2, 2 / (r1 - r0) ^ 2, b0⟩ :: withRhs (fdUniInterior (r1 - r0) 1 (r1 :: rest)) (b1 :: bs) := by
      simp [fdUniform, withRhs]
    rw [this, hw]; rw [hw] at htail
    have hpos : 0 < 2 / (r1 - r0) ^ 2 := by positivity
    exact ⟨⟨le_rfl, hpos, by ring⟩, htail⟩

theorem fdUniInterior_length (dr : ℝ) : ∀ (l : List ℝ) (i : ℕ), (fdUniInterior dr i l).length = l.length := by
  intro l
  induction l with
  | nil => intro i; simp [fdUniInterior]
  | cons a t ih =>
    intro i
    cases t with
    | nil => simp [fdUniInterior]
    | cons b t' => simp only [fdUniInterior, List.length_cons]; rw [ih (i + 1)]; simp

theorem fdUniform_length (r0 r1 : ℝ) (rest : List ℝ) : (fdUniform (r0 :: r1 :: rest)).length = rest.length + 2 := by
  simp [fdUniform, fdUniInterior_length]

theorem fdUniform_head_l (r b : List ℝ) : ∀ rw ∈ (withRhs (fdUniform r) b).head?, rw.l = 0 := by
  intro rw hrw
  match r with
  | [] => simp [fdUniform, withRhs] at hrw
  | [_] => simp [fdUniform, withRhs] at hrw
  | r0 :: r1 :: rest =>
    match b with
    | [] => simp [fdUniform, withRhs] at hrw
    | b0 :: bs =>
      simp only [fdUniform, withRhs, List.head?_cons, Option.mem_def, Option.some.injEq] at hrw
      subst hrw; simp

end Radial
