import EbisimProofs.Lemmas.Tdma

/-! Finite-difference operator of `fd_system_*_grid`, linearity of the Thomas solver,
wall boundary condition. -/
namespace Radial
open Num

/-! ### the interior stencil -/

theorem fdRow_const (r a b : ℝ) (hr : 0 < r) (ha : 0 < a) (hb : 0 < b) :
    (fdRow r a b).1 + (fdRow r a b).2.1 + (fdRow r a b).2.2 = 0 := by
  simp only [fdRow, lit_real, powN_real]; field_simp; ring

/-- the stencil reproduces the cylindrical Laplacian of `r²`, which is 4, exactly -/
theorem fdRow_quadratic (r a b : ℝ) (hr : 0 < r) (ha : 0 < a) (hb : 0 < b) :
    (fdRow r a b).1 * (r - a) ^ 2 + (fdRow r a b).2.1 * r ^ 2 + (fdRow r a b).2.2 * (r + b) ^ 2 = 4 := by
  simp only [fdRow, lit_real, powN_real]; field_simp; ring

/-- on a uniform grid `r = i h` the non-uniform stencil is the uniform one -/
theorem fdRow_uniform (i h : ℝ) (hi : 0 < i) (hh : 0 < h) :
    fdRow (i * h) h h = ((1 - 0.5 / i) / h ^ 2, -2 / h ^ 2, (1 + 0.5 / i) / h ^ 2) := by
  simp only [fdRow, lit_real, powN_real, Prod.mk.injEq]
  refine ⟨?_, ?_, ?_⟩ <;> (field_simp; ring)

theorem fdRow_u_pos (r a b : ℝ) (hr : 0 < r) (ha : 0 < a) (hb : 0 < b) : 0 < (fdRow r a b).2.2 := by
  simp only [fdRow, lit_real, powN_real]; positivity

theorem fdRow_l_pos (r a b : ℝ) (hr : 0 < r) (ha : 0 < a) (hb : 0 < b) (h : b < 2 * r) :
    0 < (fdRow r a b).1 := by
  have : (fdRow r a b).1 = (2 * r - b) / (a * (a + b) * r) := by
    simp only [fdRow, lit_real, powN_real]; field_simp; ring
  rw [this]; apply div_pos <;> [linarith; positivity]

/-! ### rows of the grid-level systems -/

theorem fdInterior_length (rp rc : ℝ) : ∀ rest : List ℝ, (fdInterior rp rc rest).length = rest.length + 1
  | [] => rfl
  | rn :: rest => by simp [fdInterior, fdInterior_length rc rn rest]

theorem fdNonuniform_length (r0 r1 : ℝ) (rest : List ℝ) :
    (fdNonuniform (r0 :: r1 :: rest)).length = rest.length + 2 := by
  simp [fdNonuniform, fdInterior_length]

/-- row `i+1` of `fdInterior rp rc rest` is the stencil at the `i`-th following node -/
theorem fdInterior_getElem (rp rc : ℝ) (rest : List ℝ) (i : ℕ) (h : i < rest.length) :
    (fdInterior rp rc rest)[i]'(by rw [fdInterior_length]; omega) =
      fdRow ((rc :: rest)[i]'(by simp; omega))
        ((rc :: rest)[i]'(by simp; omega) - (rp :: rc :: rest)[i]'(by simp; omega))
        (rest[i] - (rc :: rest)[i]'(by simp; omega)) := by
  induction rest generalizing rp rc i with
  | nil => simp at h
  | cons rn rest ih =>
    cases i with
    | zero => simp [fdInterior]
    | succ j =>
      have hj : j < rest.length := by simpa using h
      simpa [fdInterior] using ih rc rn j hj

/-- **interior rows of `fd_system_nonuniform_grid`**: row `i` (`1 ≤ i`, `i+1 < n`) is the stencil
at `r[i]` with steps `r[i]-r[i-1]` and `r[i+1]-r[i]` -/
theorem fdNonuniform_getElem (r : List ℝ) (i : ℕ) (hi : 1 ≤ i) (h : i + 1 < r.length) :
    ∃ h' : i < (fdNonuniform r).length,
      (fdNonuniform r)[i] = fdRow r[i] (r[i] - r[i - 1]) (r[i + 1] - r[i]) := by
  match r, h with
  | r0 :: r1 :: rest, h =>
    obtain ⟨j, rfl⟩ : ∃ j, i = j + 1 := ⟨i - 1, by omega⟩
    have hj : j < rest.length := by simp at h; omega
    refine ⟨by rw [fdNonuniform_length]; omega, ?_⟩
    have := fdInterior_getElem r0 r1 rest j hj
    simpa [fdNonuniform] using this

/-! ### the tridiagonal product, entrywise -/

theorem mulTri_length (xp : ℝ) : ∀ (rows : List (Row ℝ)) (x : List ℝ), rows.length = x.length →
    (mulTri xp rows x).length = x.length
  | [], [], _ => rfl
  | [], _ :: _, h => by simp at h
  | _ :: _, [], h => by simp at h
  | r :: rs, x :: xs, h => by
    simp only [mulTri, List.length_cons]
    rw [mulTri_length x rs xs (by simpa using h)]

/-- interior entry of `M x` -/
theorem mulTri_getElem (xp : ℝ) (rows : List (Row ℝ)) (x : List ℝ) (hl : rows.length = x.length)
    (i : ℕ) (hi : 1 ≤ i) (h : i + 1 < x.length) :
    (mulTri xp rows x)[i]'(by rw [mulTri_length xp rows x hl]; omega) =
      (rows[i]'(by omega)).l * x[i - 1] + (rows[i]'(by omega)).d * x[i] + (rows[i]'(by omega)).u * x[i + 1] := by
  induction rows generalizing xp x i with
  | nil => simp at hl; omega
  | cons r rs ih =>
    match x, hl, h with
    | x0 :: xs, hl, h =>
      obtain ⟨j, rfl⟩ : ∃ j, i = j + 1 := ⟨i - 1, by omega⟩
      have hl' : rs.length = xs.length := by simpa using hl
      cases j with
      | zero =>
        match xs, rs, hl', h with
        | x1 :: x2 :: xs', r1 :: rs', _, _ => simp [mulTri]
        | [_], _, _, h => simp at h
        | [], _, _, h => simp at h
        | _ :: _ :: _, [], hl', _ => simp at hl'
      | succ k =>
        have hk : k + 1 + 1 < xs.length := by simp at h; omega
        have := ih x0 xs hl' (k + 1) (by omega) hk
        simpa [mulTri] using this

theorem withRhs_length : ∀ (c : List (ℝ × ℝ × ℝ)) (b : List ℝ), c.length = b.length →
    (withRhs c b).length = c.length
  | [], [], _ => rfl
  | [], _ :: _, h => by simp at h
  | _ :: _, [], h => by simp at h
  | (l, d, u) :: cs, b :: bs, h => by
    simp only [withRhs, List.length_cons]; rw [withRhs_length cs bs (by simpa using h)]

theorem withRhs_getElem (c : List (ℝ × ℝ × ℝ)) (b : List ℝ) (hl : c.length = b.length) (i : ℕ)
    (h : i < c.length) :
    (withRhs c b)[i]'(by rw [withRhs_length c b hl]; exact h) = ⟨c[i].1, c[i].2.1, c[i].2.2, b[i]'(by omega)⟩ := by
  induction c generalizing b i with
  | nil => simp at h
  | cons c0 cs ih =>
    match b, hl with
    | b0 :: bs, hl =>
      obtain ⟨l, d, u⟩ := c0
      cases i with
      | zero => simp [withRhs]
      | succ j => simpa [withRhs] using ih bs (by simpa using hl) j (by simpa using h)

/-! ### linearity of the solver in the right-hand side -/

/-- rows with the same matrix and a different right-hand side -/
def setRhs : List (Row ℝ) → List ℝ → List (Row ℝ)
  | r :: rs, b :: bs => ⟨r.l, r.d, r.u, b⟩ :: setRhs rs bs
  | _, _ => []

theorem setRhs_length : ∀ (rows : List (Row ℝ)) (b : List ℝ), b.length = rows.length →
    (setRhs rows b).length = rows.length
  | [], [], _ => rfl
  | [], _ :: _, h => by simp at h
  | _ :: _, [], h => by simp at h
  | r :: rs, b :: bs, h => by
    simp only [setRhs, List.length_cons]; rw [setRhs_length rs bs (by simpa using h)]

theorem back_cons_of_eq (c p x : ℝ) (xs : List ℝ) (rest : List (ℝ × ℝ)) (h : back rest = x :: xs) :
    back ((c, p) :: rest) = (p - c * x) :: x :: xs := by
  simp [back, h]

theorem fwd_fst_indep (c p p' : ℝ) : ∀ (rows : List (Row ℝ)) (_b : List ℝ),
    (fwd c p rows).map (·.1) = (fwd c p' rows).map (·.1) := by
  intro rows; induction rows generalizing c p p' with
  | nil => intro _; rfl
  | cons r rs ih => intro b; simp only [fwd, List.map_cons]; rw [ih _ _ _ b]

/-- the forward/backward sweeps are additive and homogeneous in `(b, p)` -/
theorem back_fwd_linear (α β : ℝ) : ∀ (rows : List (Row ℝ)) (b1 b2 : List ℝ) (c p1 p2 : ℝ),
    b1.length = rows.length → b2.length = rows.length →
    back (fwd c (α * p1 + β * p2) (setRhs rows (List.zipWith (fun x y => α * x + β * y) b1 b2))) =
      List.zipWith (fun x y => α * x + β * y) (back (fwd c p1 (setRhs rows b1))) (back (fwd c p2 (setRhs rows b2))) := by
  intro rows
  induction rows with
  | nil => intro b1 b2 c p1 p2 _ _; simp [setRhs, fwd, back]
  | cons r rs ih =>
    intro b1 b2 c p1 p2 h1 h2
    match b1, b2, h1, h2 with
    | x1 :: b1', x2 :: b2', h1, h2 =>
      have h1' : b1'.length = rs.length := by simpa using h1
      have h2' : b2'.length = rs.length := by simpa using h2
      simp only [List.zipWith_cons_cons, setRhs, fwd]
      set den := r.d - r.l * c
      have key : (α * x1 + β * x2 - r.l * (α * p1 + β * p2)) / den =
          α * ((x1 - r.l * p1) / den) + β * ((x2 - r.l * p2) / den) := by ring
      rw [key]
      have := ih b1' b2' (r.u / den) ((x1 - r.l * p1) / den) ((x2 - r.l * p2) / den) h1' h2'
      simp only [back]
      rw [this]
      cases hb1 : back (fwd (r.u / den) ((x1 - r.l * p1) / den) (setRhs rs b1')) with
      | nil =>
        cases hb2 : back (fwd (r.u / den) ((x2 - r.l * p2) / den) (setRhs rs b2')) with
        | nil => simp
        | cons y ys =>
          have l1 := congrArg List.length hb1
          have l2 := congrArg List.length hb2
          rw [back_length, fwd_length, setRhs_length rs _ h1'] at l1
          rw [back_length, fwd_length, setRhs_length rs _ h2'] at l2
          simp only [List.length_nil, List.length_cons] at l1 l2; omega
      | cons y ys =>
        cases hb2 : back (fwd (r.u / den) ((x2 - r.l * p2) / den) (setRhs rs b2')) with
        | nil =>
          have l1 := congrArg List.length hb1
          have l2 := congrArg List.length hb2
          rw [back_length, fwd_length, setRhs_length rs _ h1'] at l1
          rw [back_length, fwd_length, setRhs_length rs _ h2'] at l2
          simp only [List.length_nil, List.length_cons] at l1 l2; omega
        | cons z zs =>
          simp only [List.zipWith_cons_cons]
          congr 1
          ring

/-- **the solution depends linearly on the right-hand side** -/
theorem solve_linear (α β : ℝ) (rows : List (Row ℝ)) (b1 b2 : List ℝ)
    (h1 : b1.length = rows.length) (h2 : b2.length = rows.length) :
    solve (setRhs rows (List.zipWith (fun x y => α * x + β * y) b1 b2)) =
      List.zipWith (fun x y => α * x + β * y) (solve (setRhs rows b1)) (solve (setRhs rows b2)) := by
  have := back_fwd_linear α β rows b1 b2 0 0 0 h1 h2
  simpa [solve] using this

/-! ### wall boundary condition -/

theorem back_getLast? : ∀ (cps : List (ℝ × ℝ)), (back cps).getLast? = cps.getLast?.map (·.2)
  | [] => rfl
  | [(c, p)] => by simp [back]
  | (c, p) :: q :: rest => by
    have ih := back_getLast? (q :: rest)
    have hne : back (q :: rest) ≠ [] := by
      obtain ⟨c', p'⟩ := q; simp only [back]; split <;> simp
    cases hb : back (q :: rest) with
    | nil => exact absurd hb hne
    | cons x xs =>
      rw [back_cons_of_eq c p x xs (q :: rest) hb]
      rw [hb] at ih
      simpa [List.getLast?_cons_cons] using ih

/-- a last row `(l=0, d=1, u, b=0)` forces the last unknown to 0 -/
theorem fwd_getLast?_wall (c p : ℝ) : ∀ (rows : List (Row ℝ)) (w : Row ℝ), w.l = 0 → w.d = 1 → w.b = 0 →
    ((fwd c p (rows ++ [w])).getLast?.map (·.2)) = some 0 := by
  intro rows
  induction rows generalizing c p with
  | nil => intro w hl hd hb; simp [fwd, hl, hd, hb]
  | cons r rs ih =>
    intro w hl hd hb
    have := ih (r.u / (r.d - r.l * c)) ((r.b - r.l * p) / (r.d - r.l * c)) w hl hd hb
    have hne : fwd (r.u / (r.d - r.l * c)) ((r.b - r.l * p) / (r.d - r.l * c)) (rs ++ [w]) ≠ [] := by
      cases rs <;> simp [fwd]
    simp only [List.cons_append, fwd]
    rw [List.getLast?_cons_of_ne_nil hne] at *
    exact this

theorem solve_wall (rows : List (Row ℝ)) (w : Row ℝ) (hl : w.l = 0) (hd : w.d = 1) (hb : w.b = 0) :
    (solve (rows ++ [w])).getLast? = some 0 := by
  simp only [solve, back_getLast?]
  simpa using fwd_getLast?_wall 0 0 rows w hl hd hb

end Radial
