import EbisimModel.Gen.Const
/-! Hand model of `ebisim/simulation/_radial_dist.py`: Thomas solver, finite-difference systems,
Poisson solve, heat capacity and the three Boltzmann–Poisson Newton iterations.
Everything is a total, structurally recursive function over `List α`, polymorphic in `Num α`. -/
namespace Radial
open Transc Num Gen
variable {α : Type} [Num α]

/-- one matrix row: (l, d, u, b) -/
structure Row (α : Type) where
  l : α
  d : α
  u : α
  b : α

/-- forward sweep of `tridiagonal_matrix_algorithm`: incoming `(cp, dp)` of the previous row.
For the first row the code uses `u/d`, `b/d`; with incoming `(0, 0)` this is `u/(d - l*0)`,
`(b - l*0)/(d - l*0)`, the same numbers (`l[0]` is finite). -/
def fwd : α → α → List (Row α) → List (α × α)
  | _, _, [] => []
  | c, p, r :: rs =>
    let den := r.d - r.l * c
    let c' := r.u / den
    let p' := (r.b - r.l * p) / den
    (c', p') :: fwd c' p' rs

/-- back substitution -/
def back : List (α × α) → List α
  | [] => []
  | (c, p) :: rest =>
    match back rest with
    | [] => [p]
    | x :: xs => (p - c * x) :: x :: xs

def solve (rows : List (Row α)) : List α := back (fwd (lit 0) (lit 0) rows)

/-- tridiagonal product `M x`, row by row; `xp` is the entry left of the first row (0 at the top).
Mirrors `_tridiag_targetfun` without the `- b`: `d*x (+ u*x[k+1]) (+ l*x[k-1])`. -/
def mulTri : α → List (Row α) → List α → List α
  | _, [], _ => []
  | _, _ :: _, [] => []
  | xp, r :: rs, x :: xs =>
    (r.l * xp + r.d * x + (match xs with | [] => lit 0 | y :: _ => r.u * y)) :: mulTri x rs xs

def mkRows : List α → List α → List α → List α → List (Row α)
  | l :: ls, d :: ds, u :: us, b :: bs => ⟨l, d, u, b⟩ :: mkRows ls ds us bs
  | _, _, _, _ => []

/-- `tridiagonal_matrix_algorithm(l, d, u, b)` -/
def tdma (l d u b : List α) : List α := solve (mkRows l d u b)

/-! ### finite-difference systems -/

/-- interior-row coefficients of `fd_system_nonuniform_grid` at a node at radius `r` with left
step `a = dr[i-1]` and right step `b = dr[i]` -/
def fdRow (r a b : α) : α × α × α :=
  let w1 := lit 2 / (b * a * (b + a))
  let w2 := lit 1 / (r * (powN b 2 * a + b * powN a 2))
  (b * w1 - powN b 2 * w2, -(a + b) * w1 + (powN b 2 - powN a 2) * w2, a * w1 + powN a 2 * w2)

/-- interior rows + wall row, walking the grid: `rp`, `rc` are the previous and current node -/
def fdInterior : α → α → List α → List (α × α × α)
  | _, _, [] => [(lit 0, lit 1, lit 0)]                         -- wall row: d[-1] = 1
  | rp, rc, rn :: rest => fdRow rc (rc - rp) (rn - rc) :: fdInterior rc rn rest

/-- `fd_system_nonuniform_grid(r)` as a list of `(l, d, u)` -/
def fdNonuniform : List α → List (α × α × α)
  | r0 :: r1 :: rest =>
    let dr0 := r1 - r0
    (lit 0, -(lit 2) / powN dr0 2, lit 2 / powN dr0 2) :: fdInterior r0 r1 rest
  | _ => []

/-- interior rows of `fd_system_uniform_grid`: node index `i = 1, 2, …` -/
def fdUniInterior (dr : α) : Nat → List α → List (α × α × α)
  | _, [] => []
  | _, [_] => [(lit 0, lit 1, lit 0)]
  | i, _ :: rest =>
    ((lit 1 - (0.5 : α) / (i : α)) / powN dr 2, -(lit 2) / powN dr 2, (lit 1 + (0.5 : α) / (i : α)) / powN dr 2)
      :: fdUniInterior dr (i + 1) rest

/-- `fd_system_uniform_grid(r)` -/
def fdUniform : List α → List (α × α × α)
  | r0 :: r1 :: rest =>
    let dr := r1 - r0
    (lit 0, -(lit 2) / powN dr 2, lit 2 / powN dr 2) :: fdUniInterior dr 1 (r1 :: rest)
  | _ => []

def withRhs : List (α × α × α) → List α → List (Row α)
  | (l, d, u) :: cs, b :: bs => ⟨l, d, u, b⟩ :: withRhs cs bs
  | _, _ => []

/-- `rho_ = rho.copy(); rho_[-1] = 0; b = -rho_/EPS_0` -/
def poissonRhs : List α → List α
  | [] => []
  | [_] => [-(lit 0) / Const.EPS_0]
  | x :: xs => (-x / Const.EPS_0) :: poissonRhs xs

/-- `radial_potential_nonuniform_grid(r, rho)` -/
def potentialNonuniform (r rho : List α) : List α := solve (withRhs (fdNonuniform r) (poissonRhs rho))
/-- `radial_potential_uniform_grid(r, rho)` -/
def potentialUniform (r rho : List α) : List α := solve (withRhs (fdUniform r) (poissonRhs rho))

/-! ### trapezoid rule, heat capacity -/

def sumL : List α → α := List.foldl (· + ·) (lit 0)

/-- `np.trapz(y, x)`: sequential sum of `(x[i+1]-x[i]) * (y[i+1]+y[i]) / 2` -/
def trapzGo : α → List α → List α → α
  | acc, x0 :: x1 :: xs, y0 :: y1 :: ys => trapzGo (acc + (x1 - x0) * (y1 + y0) / (2.0 : α)) (x1 :: xs) (y1 :: ys)
  | acc, _, _ => acc
def trapz (y x : List α) : α := trapzGo (lit 0) x y

def zipWith3 {β γ δ ε : Type} (f : β → γ → δ → ε) : List β → List γ → List δ → List ε
  | a :: as, b :: bs, c :: cs => f a b c :: zipWith3 f as bs cs
  | _, _, _ => []

/-- `heat_capacity(r, phi, q, kT)` -/
def heatCapacity (r phi : List α) (q kT : α) : α :=
  let phi0 := phi.headD (lit 0)
  let pot := phi.map fun p => q * (p - phi0)
  let e := pot.map fun p => exp (-p / kT)
  let a := trapz (zipWith3 (fun p e r => powN p 2 * e * r) pot e r) r
  let b := trapz (zipWith3 (fun p e r => p * e * r) pot e r) r
  let c := trapz (List.zipWith (fun e r => e * r) e r) r
  lit 3 / lit 2 + lit 1 / powN kT 2 * (a / c - powN b 2 / powN c 2)

/-! ### Boltzmann–Poisson Newton iterations -/

def minL : List α → α
  | [] => lit 0
  | x :: xs => xs.foldl (fun m y => if y < m then y else m) x

/-- zero the last entry (`_bx[:, -1] = 0`) -/
def zeroLast : List α → List α
  | [] => []
  | [_] => [lit 0]
  | x :: xs => x :: zeroLast xs

/-- `_c[:-1] = r[:-1]*(r[1:]-r[:-1])*shape[:-1]`, last entry 0 -/
def cTerm : List α → List α → List α
  | r0 :: r1 :: rs, s0 :: ss => (r0 * (r1 - r0) * s0) :: cTerm (r1 :: rs) ss
  | [_], [_] => [lit 0]
  | _, _ => []

/-- column sums of a list of equally long rows (`np.sum(·, axis=0)`), sequential over species -/
def colSum (n : Nat) (rows : List (List α)) : List α :=
  rows.foldl (fun acc row => List.zipWith (· + ·) acc row) (List.replicate n (lit 0))

structure Species (α : Type) where
  nl : α      -- line density (or on-axis density for the `onaxis` variant)
  kT : α
  q : α

inductive Variant | onaxis | linear | ebeam
deriving DecidableEq, Repr

/-- `_tridiag_targetfun`: `f = d*x - b; f[:-1] += u[:-1]*x[1:]; f[1:] += l[1:]*x[:-1]` in the
code's own operation order `((d*x - b) + u*x⁺) + l*x⁻`; `xp = none` marks the first row -/
def targetFun : Option α → List (α × α × α) → List α → List α → List α
  | xp, (l, d, u) :: cs, x :: xs, b :: bs =>
    let base := d * x - b
    let b1 := match xs with | [] => base | y :: _ => base + u * y
    let b2 := match xp with | none => b1 | some p => b1 + l * p
    b2 :: targetFun (some x) cs xs bs
  | _, _, _, _ => []

/-- rows of the Newton system `(A - diag j_d) y = f` -/
def newtonRows : List (α × α × α) → List α → List α → List (Row α)
  | (l, d, u) :: cs, j :: js, f :: fs => ⟨l, d - j, u, f⟩ :: newtonRows cs js fs
  | _, _, _ => []

/-- the Newton update shared by all variants: `y = solve((A - diag j_d), A φ - b)`, `φ' = φ - y` -/
def newton (ldu : List (α × α × α)) (phi b jd : List α) : List α × List α :=
  let f := targetFun none ldu phi b
  let y := solve (newtonRows ldu jd f)
  (List.zipWith (· - ·) phi y, y)

structure BPIn (α : Type) where
  variant : Variant
  r : List α
  ldu : List (α × α × α)
  b0 : List α        -- static right-hand side `-rho_0/EPS_0` (onaxis, linear)
  cden : List α      -- beam current density per node (ebeam)
  e_kin : α
  sp : List (Species α)

structure StepOut (α : Type) where
  phi : List α             -- updated potential
  nax : List α             -- per species, from the potential *before* the update
  shape : List (List α)
  y : List α               -- Newton correction
  b : List α               -- right-hand side b(φ)
  jd : List α              -- Jacobian diagonal

/-- one pass through the loop body of the three `boltzmann_radial_potential_*` functions -/
def step (I : BPIn α) (phi : List α) : StepOut α :=
  let n := phi.length
  let ref := match I.variant with
    | .ebeam => minL phi
    | _ => phi.headD (lit 0)
  let shape := I.sp.map fun s => phi.map fun p => exp (-s.q * (p - ref) / s.kT)
  let i_sr := shape.map fun sh => trapz (List.zipWith (· * ·) I.r sh) I.r
  let nax := zipWith3 (fun (s : Species α) (sh : List α) isr =>
    match I.variant with
    | .onaxis => s.nl
    | .linear => s.nl / lit 2 / Const.PI / isr
    | .ebeam => s.nl / lit 2 / Const.PI / isr * sh.headD (lit 0)) I.sp shape i_sr
  let bxa := zipWith3 (fun (s : Species α) (sh : List α) nx =>
    zeroLast (sh.map fun v => -nx * s.q * v * Const.Q_E / Const.EPS_0)) I.sp shape nax
  let bxaSum := colSum n bxa
  let bxb := match I.variant with
    | .ebeam => List.zipWith (fun c p => -c / sqrt (lit 2 * Const.Q_E * (I.e_kin + p) / Const.M_E) / Const.EPS_0) I.cden phi
    | _ => []
  let b := match I.variant with
    | .ebeam => List.zipWith (· + ·) bxaSum bxb
    | _ => List.zipWith (· + ·) I.b0 bxaSum
  let jIon := colSum n (zipWith3 (fun (s : Species α) (bx : List α) (p : List α × α) =>
    match I.variant with
    | .onaxis => bx.map fun v => v * s.q / s.kT
    | _ => List.zipWith (fun v c => v * s.q / s.kT * (p.2 - c) / p.2) bx (cTerm I.r p.1)) I.sp bxa (List.zip shape i_sr))
  let jd := match I.variant with
    | .ebeam => zipWith3 (fun ji bb p => -(ji + Const.Q_E / Const.M_E * bb / (lit 2 * Const.Q_E * (I.e_kin + p) / Const.M_E))) jIon bxb phi
    | _ => jIon.map fun v => -v
  let (phi', y) := newton I.ldu phi b jd
  { phi := phi', nax, shape, y, b, jd }

def absN (x : α) : α := if x < lit 0 then -x else x

/-- stopping measure: `np.linalg.norm(y)/phi.size` resp. `np.max(np.abs(y[:-1]/phi[:-1]))` -/
def stopMeasure (v : Variant) (phi y : List α) : α :=
  match v with
  | .ebeam =>
    let q := (List.zipWith (fun a b => absN (a / b)) y phi).dropLast
    (match q with
      | [] => lit 0
      | x :: xs => xs.foldl (fun m z => if m < z then z else m) x)
  | _ => sqrt (sumL (y.map fun v => v * v)) / (phi.length : α)

/-- the `for _ in range(max_step)` loop; returns the updated potential, the last `StepOut`
(whose `nax`, `shape` the code returns) and the number of passes -/
def loop (I : BPIn α) (tol : α) : Nat → List α → Nat → Option (StepOut α) → List α × Option (StepOut α) × Nat
  | 0, phi, it, last => (phi, last, it)
  | fuel + 1, phi, it, _ =>
    let o := step I phi
    if stopMeasure I.variant phi o.y < tol then (o.phi, some o, it + 1)
    else loop I tol fuel o.phi (it + 1) (some o)

/-- `cden = zeros; cden[r <= r_e] = -current/PI/r_e**2` -/
def beamDensity (r : List α) (current r_e : α) : List α :=
  r.map fun x => if x ≤ r_e then -current / Const.PI / powN r_e 2 else lit 0

/-- first guess of the e-beam variant -/
def firstGuessEbeam (r : List α) (current r_e e_kin : α) (sp : List (Species α)) : List α :=
  let cden := beamDensity r current r_e
  let isum := sumL (sp.map fun s => s.q * Const.Q_E * s.nl / (Const.PI * powN r_e 2))
  let ve0 := sqrt (lit 2 * Const.Q_E * e_kin / Const.M_E)
  let rho := List.zipWith (fun x c =>
    let erho := c / ve0
    let irho := if x ≤ r_e then min' ((-(0.95 : α)) * erho) isum else lit 0
    erho + irho) r cden
  potentialNonuniform r rho

structure BPOut (α : Type) where
  phi : List α
  nax : List α
  shape : List (List α)
  iters : Nat

def finish (res : List α × Option (StepOut α) × Nat) : BPOut α :=
  match res with
  | (phi, some o, it) => { phi, nax := o.nax, shape := o.shape, iters := it }
  | (phi, none, it) => { phi, nax := [], shape := [], iters := it }

/-- `boltzmann_radial_potential_linear_density_ebeam(r, current, r_e, e_kin, nl, kT, q,
first_guess, ldu, max_step, rel_diff)` -/
def bpEbeam (r : List α) (current r_e e_kin : α) (sp : List (Species α))
    (firstGuess : Option (List α)) (ldu : Option (List (α × α × α))) (maxStep : Nat) (relDiff : α) : BPOut α :=
  let ldu := ldu.getD (fdNonuniform r)
  let phi0 := firstGuess.getD (firstGuessEbeam r current r_e e_kin sp)
  let I : BPIn α := { variant := .ebeam, r, ldu, b0 := [], cden := beamDensity r current r_e, e_kin, sp }
  finish (loop I relDiff maxStep phi0 0 none)

/-- `boltzmann_radial_potential_onaxis_density` / `_linear_density` (500 passes, tolerance 1e-3) -/
def bpStatic (v : Variant) (r rho0 : List α) (sp : List (Species α))
    (firstGuess : Option (List α)) (ldu : Option (List (α × α × α))) : BPOut α :=
  let ldu := ldu.getD (fdNonuniform r)
  let b0 := poissonRhs rho0
  -- `radial_potential_nonuniform_grid(r, rho_0)` zeroes the last entry once more (idempotent)
  let phi0 := firstGuess.getD (solve (withRhs (fdNonuniform r) b0))
  let I : BPIn α := { variant := v, r, ldu, b0, cden := [], e_kin := lit 0, sp }
  finish (loop I (1e-3 : α) 500 phi0 0 none)

/-! ### the over-relaxed e-beam variant (`boltzmann_radial_potential_linear_density_ebeam_sor`) -/

/-- `np.dot(a, b)` (sequential order; BLAS may sum in another order: compared with a tolerance) -/
def dotL (a b : List α) : α := sumL (List.zipWith (· * ·) a b)
/-- `np.linalg.norm(a)` -/
def normL (a : List α) : α := sqrt (sumL (a.map fun v => v * v))

/-- every fifth pass the Newton update is replaced by the extrapolation
`φ = φ₋₁ + μ (φ − φ₋₁)`, `μ = 1 − ⟨r_k, Δr_k⟩/⟨Δr_k, Δr_k⟩` with `r_k = φ − φ₋₁`, `Δr_k = r_k − (φ₋₁ − φ₋₂)` -/
def sorExtrapolate (phi m1 m2 : List α) : List α :=
  let rk := List.zipWith (· - ·) phi m1
  let rk1 := List.zipWith (· - ·) m1 m2
  let drk := List.zipWith (· - ·) rk rk1
  let mu := lit 1 - dotL rk drk / dotL drk drk
  List.zipWith (fun a b => a + mu * b) m1 rk

/-- `for k in range(1, 500)`: Newton update `step`; over-relaxation when `k % 5 == 0`; otherwise leave when both the
relative change of the potential and the relative residual are below `1e-10` -/
def sorLoop (I : BPIn α) (f0n : α) : Nat → Nat → List α → List α → List α → Option (StepOut α) →
    List α × Option (StepOut α) × Nat
  | 0, k, phi, _, _, last => (phi, last, k - 1)
  | fuel + 1, k, phi, m1, m2, _ =>
    let o := step I phi
    let f := targetFun none I.ldu phi o.b
    if k % 5 = 0 then
      let phi' := sorExtrapolate o.phi m1 m2
      sorLoop I f0n fuel (k + 1) phi' phi' m1 (some o)
    else if normL (List.zipWith (· - ·) o.phi m1) / normL o.phi < (1e-10 : α) ∧ normL f / f0n < (1e-10 : α) then
      (o.phi, some o, k)
    else sorLoop I f0n fuel (k + 1) o.phi o.phi m1 (some o)

/-- `boltzmann_radial_potential_linear_density_ebeam_sor(r, current, r_e, e_kin, nl, kT, q, first_guess, ldu)` -/
def bpEbeamSor (r : List α) (current r_e e_kin : α) (sp : List (Species α))
    (firstGuess : Option (List α)) (ldu : Option (List (α × α × α))) : BPOut α :=
  let ldu := ldu.getD (fdNonuniform r)
  let phi0 := firstGuess.getD (firstGuessEbeam r current r_e e_kin sp)
  let I : BPIn α := { variant := .ebeam, r, ldu, b0 := [], cden := beamDensity r current r_e, e_kin, sp }
  let f0 := targetFun none ldu phi0 (step I phi0).b
  let z := phi0.map fun _ => lit 0
  finish (sorLoop I (normL f0) 499 1 phi0 z z none)

end Radial
