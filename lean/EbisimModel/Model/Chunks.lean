/-! Hand model of `_advanced._multithreading_indices` and of the threaded block evaluation
(`rhs_int` with a thread pool: map over chunks, concatenate in index order). Core Lean only. -/
namespace Chunks
/-- `cl[k]` of `_multithreading_indices` -/
def len (n t k : Nat) : Nat := n / t + (if k < n % t then 1 else 0)
def lens (n t : Nat) : List Nat := (List.range t).map (len n t)
/-- `(sum(cl[:k]), sum(cl[:k+1]))` for the `k` with `cl[k] > 0` -/
def go : Nat → List Nat → List (Nat × Nat)
  | _, [] => []
  | s, c :: cs => if c > 0 then (s, s + c) :: go (s + c) cs else go (s + c) cs
/-- `_multithreading_indices(n_cols, n_threads)` -/
def indices (n t : Nat) : List (Nat × Nat) := go 0 (lens n t)

/-- `y[:, a:b]` on a list of columns -/
def slice {β : Type} (cols : List β) (ab : Nat × Nat) : List β := (cols.drop ab.1).take (ab.2 - ab.1)

/-- `_chunked_adv_rhs` on a block: the right-hand side column by column -/
def chunked {β γ : Type} (f : β → γ) (cols : List β) : List γ := cols.map f

/-- the threaded `rhs_int`: `np.concatenate(list(executor.map(f, ix)), axis=-1)` with an
order-preserving `map` -/
def threaded {β γ : Type} (f : β → γ) (cols : List β) (t : Nat) : List γ :=
  (indices cols.length t).flatMap fun ab => chunked f (slice cols ab)
end Chunks
