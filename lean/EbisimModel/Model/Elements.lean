import EbisimModel.Gen.Kernels
import EbisimModel.Gen.Tables
import EbisimModel.Model.Xs
/-! Hand model of `ebisim/elements.py`: identifier translation, `Element.get` guards and the
gas / ion factories. Identifiers are lists of code points so that table facts are decidable. -/
namespace Elements
open Num Transc Gen Xs
variable {α : Type} [Num α]

/-- `list.index(x)`; `none` = ValueError -/
def indexOf {κ : Type} [DecidableEq κ] (k : κ) (l : List κ) : Option Nat := idxOfK k l 0

/-- `element_z(element: str)` -/
def elementZ (s : List Nat) : Option Nat :=
  (if s.length < 3 then indexOf s elemESc else indexOf s elemNAMEc).bind fun i => elemZ[i]?

inductive Ident | num (z : Int) | str (s : List Nat)

/-- `element_symbol(element)` for an int or a *name* -/
def elementSymbol : Ident → Option (List Nat)
  | .num z => (if z < 0 then none else indexOf z.toNat elemZ).bind fun i => elemESc[i]?
  | .str s => (indexOf s elemNAMEc).bind fun i => elemESc[i]?
/-- `element_name(element)` for an int or a *symbol* -/
def elementName : Ident → Option (List Nat)
  | .num z => (if z < 0 then none else indexOf z.toNat elemZ).bind fun i => elemNAMEc[i]?
  | .str s => (indexOf s elemESc).bind fun i => elemNAMEc[i]?

/-- `element_identify(element_id)` → `(z, name, symbol)`; `none` = ValueError -/
def identify (id : Ident) : Option (Nat × List Nat × List Nat) :=
  let z? : Option Int := match id with
    | .num z => some z
    | .str s => (elementZ s).map Int.ofNat
  z?.bind fun z => (elementSymbol (.num z)).bind fun sym => (elementName (.num z)).map fun nm => (z.toNat, nm, sym)

/-- header of `Element.get`: `(z, default-or-given a, ip)`; `none` = ValueError -/
def elementHead (id : Ident) (a : Option α) : Option (Nat × α × α) :=
  (identify id).bind fun (z, _, _) =>
    (indexOf z elemZ).bind fun idx =>
      let ip : α := ofScaled (elemIP.getD idx 0) scCoef
      let a' : α := a.getD ((elemA.getD idx 0 : Nat) : α)
      if a' ≤ lit 0 then none else some (z, a', ip)

/-- clamping of a supplied `n` / `kT` vector (`np.maximum` when any entry is below the minimum);
`none` = wrong length → ValueError -/
def clampVec (z : Nat) (minv : α) (v : List α) : Option (List α) :=
  if v.length ≠ z + 1 then none
  else if v.any (fun x => x < minv) then some (v.map fun x => max' x minv) else some v

/-- `Element.get(element_id, n=…, kT=…)`: the (clamped) initial vectors; `none` = ValueError -/
def elementGetNK (id : Ident) (n kT : Option (List α)) : Option (Option (List α) × Option (List α)) :=
  (identify id).bind fun (z, _, _) =>
    let n' : Option (Option (List α)) := match n with
      | none => some none
      | some v => (clampVec z Const.MINIMAL_N_1D v).map some
    let k' : Option (Option (List α)) := match kT with
      | none => some none
      | some v => (clampVec z Const.MINIMAL_KBT v).map some
    n'.bind fun a => k'.map fun b => (a, b)

/-- `Element.get_gas(element_id, p, r_dt, T)`: `(n, kT)`; `none` = ValueError -/
def getGas (id : Ident) (p r_dt T : α) : Option (List α × List α) :=
  (identify id).bind fun (z, _, _) =>
    let n0 := (p * lit 100) / (Const.K_B * T) * Const.PI * powN r_dt 2
    if n0 < Const.MINIMAL_N_1D then none else
    let kT0 := Const.K_B * T / Const.Q_E
    let n := n0 :: List.replicate z Const.MINIMAL_N_1D
    let kT := kT0 :: List.replicate z Const.MINIMAL_KBT
    (clampVec z Const.MINIMAL_N_1D n).bind fun n' => (clampVec z Const.MINIMAL_KBT kT).map fun kT' => (n', kT')

/-- `Element.get_ions(element_id, nl, kT, q)` -/
def getIons (id : Ident) (nl kT : α) (q : Nat) : Option (List α × List α) :=
  if nl < Const.MINIMAL_N_1D then none else
  (identify id).bind fun (z, _, _) =>
    if q > z then none else   -- IndexError in Python (outside the property's quantifier)
    let n := (List.range (z + 1)).map fun k => if k = q then nl else Const.MINIMAL_N_1D
    let kTv := (List.range (z + 1)).map fun k => if k = q then kT else Const.MINIMAL_KBT
    (clampVec z Const.MINIMAL_N_1D n).bind fun n' => (clampVec z Const.MINIMAL_KBT kTv).map fun kT' => (n', kT')

end Elements
