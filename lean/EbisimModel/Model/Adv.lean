import EbisimModel.Gen.Kernels
import EbisimModel.Model.Xs
import EbisimModel.Model.Radial
/-! Hand model of `ebisim.simulation._advanced._adv_rhs` (and of `AdvancedModel.get`,
`_assemble_initial_conditions`). The heavy intermediate arrays are computed once (`stage`);
the derivatives are then *functions of the state index* over those arrays (`dnAt`, `dkTAt`), so
that the balance theorems only ever unfold the shift structure. -/
namespace Adv
open Transc Num Gen
variable {α : Type} [Num α]

structure Options where
  EI : Bool
  RR : Bool
  CX : Bool
  DR : Bool
  SPITZER : Bool
  CT : Bool
  ESC_AX : Bool
  ESC_RA : Bool
  RECOMPUTE : Bool
  RADIAL : Bool
  IHEAT : Bool
  OVERRIDE_FWHM : Bool
deriving Repr

structure Model (α : Type) where
  nq : Nat
  lb : List Nat
  ub : List Nat
  zs : List Nat                 -- proton numbers of the targets (for cross-section recomputation)
  q : Array α
  a : Array α
  eixs : Array α
  rrxs : Array α
  drxs : Array α
  cxBg : Array (Array α)        -- per background gas
  bgN0 : Array α
  cxTg : Array (Array α)        -- per target
  tgCx : Array Bool
  r : Array α
  phi0 : Array α                -- device.rad_phi_uncomp
  ldu : List (α × α × α)
  ix : Nat
  r_e : α
  e_kin : α
  fwhm : α
  j : α
  v_ax : α
  v_ax_sc : α
  b_ax : α
  r_dt : α
  current : α
  maxSteps : Nat
  relDiff : α
  opts : Options

/-- total reader: entries beyond the end read 0 -/
def at' (v : Array α) (k : Nat) : α := v.getD k (lit 0)

def sumA (v : Array α) : α := v.foldl (· + ·) (lit 0)
def minA (v : Array α) : α := v.foldl (fun m x => if x < m then x else m) (v.getD 0 (lit 0))
/-- `np.trapz(y, x)` on the first `m` nodes -/
def trapzA (y x : Array α) (m : Nat) : α :=
  sumA (Array.ofFn (n := m - 1) fun i => (at' x (i.val+1) - at' x i.val) * (at' y (i.val+1) + at' y i.val) / (2.0 : α))

/-- `_smooth_to_zero` on one entry -/
def smooth (x : α) : α :=
  let N1 : α := Const.MINIMAL_N_1D
  let N2 := lit 1000 * N1
  if x < N1 then lit 0
  else if N1 < x ∧ x < N2 then cubic_spline x N1 N2 (0.0 : α) N2 (0.0 : α) (1.0 : α)
  else x

/-- everything `_adv_rhs` computes before it touches `dn`/`dkT` -/
structure Stage (α : Type) where
  n_r : Array α
  n : Array α
  kT : Array α
  phi : Array α
  fei : Array α
  iheat : Array α
  n3d : Array α
  ionRad : Array α
  v_ax : α
  v_ra : α
  e_kin : α
  fwhm : α
  je : α
  ri : Array α
  rself : Array α
  v_th : Array α
  xs_ei : Array α     -- the cross sections actually used (precomputed or recomputed)
  xs_rr : Array α
  xs_dr : Array α
  R_ei : Array α
  R_rr : Array α
  R_dr : Array α
  R_cx : Array α
  sh : Array α
  ct : Array α
  w_ax : Array α
  e_ax : Array α
  R_ax : Array α
  w_ra : Array α
  e_ra : Array α
  R_ra : Array α

def zeroAt (v : Array α) (idx : List Nat) : Array α := idx.foldl (fun v k => v.setIfInBounds k (lit 0)) v

def stage (m : Model α) (y : Array α) : Stage α :=
  let nq := m.nq
  let ng := m.r.size
  let n_r := Array.ofFn (n := nq) fun k => at' y k.val
  let kT := Array.ofFn (n := nq) fun k => max' (at' y (nq + k.val)) Const.MINIMAL_KBT
  let n := n_r.map smooth
  -- radial potential
  let phi : Array α :=
    if m.opts.RADIAL then
      let sp := (List.range nq).map fun k => (⟨at' n k, at' kT k, at' m.q k⟩ : Radial.Species α)
      (Radial.bpEbeam m.r.toList m.current m.r_e m.e_kin sp none (some m.ldu) m.maxSteps m.relDiff).phi.toArray
    else m.phi0
  let phimin := minA phi
  let ix1 := m.ix + 1
  -- per state radial integrals
  let shapes := Array.ofFn (n := nq) fun k =>
    Array.ofFn (n := ng) fun g => exp (-(at' m.q k.val) * (at' phi g.val - phimin) / at' kT k.val)
  let sr := shapes.map fun s => Array.ofFn (n := ng) fun g => at' s g.val * at' m.r g.val
  let i_rs_re := sr.map fun s => trapzA s m.r ix1
  let i_rsp_re := sr.map fun s =>
    trapzA (Array.ofFn (n := ng) fun g => at' s g.val * (at' phi g.val - phimin)) m.r ix1
  let i_rs_rd := sr.map fun s => trapzA s m.r ng
  let i_rrs_rd := sr.map fun s => trapzA (Array.ofFn (n := ng) fun g => at' s g.val * at' m.r g.val) m.r ng
  let n3d := Array.ofFn (n := nq) fun k =>
    at' n k.val / lit 2 / Const.PI / at' i_rs_rd k.val * at' (shapes.getD k.val #[]) 0
  let ionRad := Array.ofFn (n := nq) fun k => at' i_rrs_rd k.val / at' i_rs_rd k.val
  let fei := Array.ofFn (n := nq) fun k => at' i_rs_re k.val / at' i_rs_rd k.val
  let v_ax := (m.v_ax + m.v_ax_sc) - phimin
  let v_ra := -phimin
  let rphi := Array.ofFn (n := ng) fun g => at' m.r g.val * at' phi g.val
  let sc_mean := lit 2 * trapzA rphi m.r ix1 / powN m.r_e 2
  let e_kin := m.e_kin + sc_mean
  let fwhm := if m.opts.OVERRIDE_FWHM then m.fwhm else
    (2.355 : α) * sqrt (lit 2 * trapzA (Array.ofFn (n := ng) fun g => at' m.r g.val * powN (at' phi g.val - sc_mean) 2) m.r ix1 / powN m.r_e 2)
  let iheat := Array.ofFn (n := nq) fun k =>
    if m.opts.IHEAT then lit 2 / lit 3 * at' i_rsp_re k.val / at' i_rs_re k.val else lit 0
  let je := m.j / Const.Q_E * (1e4 : α)
  let ve := electron_velocity e_kin
  let ne := je / ve
  let rij := Array.ofFn (n := nq) fun i => Array.ofFn (n := nq) fun j =>
    ion_coll_rate (at' n3d i.val) (at' n3d j.val) (at' kT i.val) (at' kT j.val) (at' m.a i.val) (at' m.a j.val) (at' m.q i.val) (at' m.q j.val)
  let ri := rij.map sumA
  let v_th := Array.ofFn (n := nq) fun k => sqrt (lit 8 * Const.Q_E * at' kT k.val / (Const.PI * at' m.a k.val * Const.M_P))
  -- cross sections
  let xsCat := fun (vec : Nat → List α) => (m.zs.map vec).flatten.toArray
  let eixs := if m.opts.RECOMPUTE then xsCat (fun z => Xs.eixsVec z e_kin) else m.eixs
  let rrxs := if m.opts.RECOMPUTE then xsCat (fun z => Xs.rrxsVec z e_kin) else m.rrxs
  let drxs := if m.opts.RECOMPUTE then xsCat (fun z => Xs.drxsVec z e_kin fwhm) else m.drxs
  let zero := Array.replicate nq (lit 0 : α)
  let R_ei := if m.opts.EI then Array.ofFn (n := nq) fun k => at' eixs k.val * at' n k.val * je * at' fei k.val else zero
  let R_rr := if m.opts.RR then Array.ofFn (n := nq) fun k => at' rrxs k.val * at' n k.val * je * at' fei k.val else zero
  let R_dr := if m.opts.DR then Array.ofFn (n := nq) fun k => at' drxs k.val * at' n k.val * je * at' fei k.val else zero
  let R_cx := if m.opts.CX then Array.ofFn (n := nq) fun k =>
      let bg := (List.range m.cxBg.size).foldl (fun acc g =>
        acc + at' (m.cxBg.getD g #[]) k.val * at' m.bgN0 g * at' n k.val * at' v_th k.val) (lit 0)
      (List.range m.cxTg.size).foldl (fun acc t =>
        if m.tgCx.getD t false then acc + at' (m.cxTg.getD t #[]) k.val * at' n3d (m.lb.getD t 0) * at' n k.val * at' v_th k.val else acc) bg
    else zero
  let sh := if m.opts.SPITZER then Array.ofFn (n := nq) fun k =>
      spitzer_heating (at' n3d k.val) ne (at' kT k.val) e_kin (at' m.a k.val) (at' m.q k.val) * at' fei k.val else zero
  let ct := if m.opts.CT then Array.ofFn (n := nq) fun i =>
      sumA (Array.ofFn (n := nq) fun j =>
        min' (powN (at' ionRad j.val / at' ionRad i.val) 2) (1.0 : α)
          * collisional_thermalisation (at' kT i.val) (at' kT j.val) (at' m.a i.val) (at' m.a j.val) (at' (rij.getD i.val #[]) j.val)) else zero
  let w_ax := Array.ofFn (n := nq) fun k => trapping_strength_axial (at' kT k.val) (at' m.q k.val) v_ax
  let e_ax := Array.ofFn (n := nq) fun k => collisional_escape_rate (at' ri k.val) (at' w_ax k.val)
  let R_ax := if m.opts.ESC_AX then
      zeroAt (Array.ofFn (n := nq) fun k => max' (at' e_ax k.val * at' n k.val) (0.0 : α)) m.lb else zero
  let w_ra := Array.ofFn (n := nq) fun k =>
      trapping_strength_radial (at' kT k.val) (at' m.q k.val) (at' m.a k.val) v_ra m.b_ax m.r_dt
  let e_ra := Array.ofFn (n := nq) fun k => collisional_escape_rate (at' ri k.val) (at' w_ra k.val)
  let R_ra := if m.opts.ESC_RA then
      zeroAt (Array.ofFn (n := nq) fun k => max' (at' e_ra k.val * at' n k.val) (0.0 : α)) m.lb else zero
  { n_r, n, kT, phi, fei, iheat, n3d, ionRad, v_ax, v_ra, e_kin, fwhm, je, ri,
    rself := Array.ofFn (n := nq) fun k => at' (rij.getD k.val #[]) k.val,
    v_th, xs_ei := eixs, xs_rr := rrxs, xs_dr := drxs,
    R_ei, R_rr, R_dr, R_cx, sh, ct, w_ax, e_ax, R_ax, w_ra, e_ra, R_ra }

/-- `dn[1:] += R[:-1]` read at index `k` -/
def shiftUp (R : Nat → α) (k : Nat) : α := if k = 0 then lit 0 else R (k - 1)
/-- `dn[:-1] += R[1:]` read at index `k` -/
def shiftDown (nq : Nat) (R : Nat → α) (k : Nat) : α := if k + 1 < nq then R (k + 1) else lit 0

/-- the six particle rates as functions of the state index -/
structure PRates (α : Type) where
  ei : Nat → α
  rr : Nat → α
  dr : Nat → α
  cx : Nat → α
  ax : Nat → α
  ra : Nat → α

def Stage.prates (S : Stage α) : PRates α :=
  { ei := at' S.R_ei, rr := at' S.R_rr, dr := at' S.R_dr, cx := at' S.R_cx, ax := at' S.R_ax, ra := at' S.R_ra }

/-- `dn[k]` in the code's own order of accumulation, neutral rows reset to 0 -/
def dnAt (nq : Nat) (lb : List Nat) (P : PRates α) (k : Nat) : α :=
  if k ∈ lb then lit 0 else
  ((((((((lit 0 - P.ei k) + shiftUp P.ei k) - P.rr k) + shiftDown nq P.rr k) - P.dr k) + shiftDown nq P.dr k)
      - P.cx k) + shiftDown nq P.cx k) - P.ax k - P.ra k

/-- what the temperature equations read -/
structure TIn (α : Type) where
  nq : Nat
  n_r : Nat → α
  kT : Nat → α
  ih : Nat → α
  sh : Nat → α
  ct : Nat → α
  e_ax : Nat → α
  w_ax : Nat → α
  e_ra : Nat → α
  w_ra : Nat → α
  escAx : Bool
  escRa : Bool

/-- the two EI contributions to `dkT[k]` (`dkT[1:] += R[:-1]/n_r[1:]*(kT[:-1]-kT[1:])`, `… * iheat[:-1]`) -/
def upMix (T : TIn α) (R : Nat → α) (k : Nat) : α := if k = 0 then lit 0 else R (k-1) / T.n_r k * (T.kT (k-1) - T.kT k)
def upHeat (T : TIn α) (R : Nat → α) (k : Nat) : α := if k = 0 then lit 0 else R (k-1) / T.n_r k * T.ih (k-1)
def downMix (T : TIn α) (R : Nat → α) (k : Nat) : α := if k + 1 < T.nq then R (k+1) / T.n_r k * (T.kT (k+1) - T.kT k) else lit 0
def downHeat (T : TIn α) (R : Nat → α) (k : Nat) : α := if k + 1 < T.nq then R (k+1) / T.n_r k * T.ih (k+1) else lit 0

def axCool (T : TIn α) (k : Nat) : α := if T.escAx then lit 2 / lit 3 * T.e_ax k * T.w_ax k * T.kT k else lit 0
def raCool (T : TIn α) (k : Nat) : α := if T.escRa then lit 2 / lit 3 * T.e_ra k * T.w_ra k * T.kT k else lit 0

/-- `dkT[k]`, code order, neutral rows reset to 0 -/
def dkTAt (lb : List Nat) (T : TIn α) (P : PRates α) (k : Nat) : α :=
  if k ∈ lb then lit 0 else
  ((((((((((lit 0 + upMix T P.ei k) + upHeat T P.ei k) + downMix T P.rr k) - downHeat T P.rr k)
      + downMix T P.dr k) - downHeat T P.dr k) + downMix T P.cx k) - downHeat T P.cx k)
      + T.sh k) + T.ct k) - axCool T k - raCool T k

def Stage.tin (S : Stage α) (m : Model α) : TIn α :=
  { nq := m.nq, n_r := at' S.n_r, kT := at' S.kT, ih := at' S.iheat, sh := at' S.sh, ct := at' S.ct,
    e_ax := at' S.e_ax, w_ax := at' S.w_ax, e_ra := at' S.e_ra, w_ra := at' S.w_ra,
    escAx := m.opts.ESC_AX, escRa := m.opts.ESC_RA }

structure Out (α : Type) where
  S : Stage α
  dn : Nat → α
  dkT : Nat → α

/-- `_adv_rhs(model, t, y, rates)` -/
def rhs (m : Model α) (y : Array α) : Out α :=
  let S := stage m y
  { S, dn := dnAt m.nq m.lb S.prates, dkT := dkTAt m.lb (S.tin m) S.prates }

/-! ### `AdvancedModel.get` bookkeeping -/

/-- `(lb, ub)` from the proton numbers: prefix sums of `Z+1` -/
def bounds : List Nat → Nat → List (Nat × Nat)
  | [], _ => []
  | z :: zs, off => (off, off + z + 1) :: bounds zs (off + z + 1)

/-- `q`: `0 … Z` per target, concatenated -/
def chargeVec (zs : List Nat) : List Nat := (zs.map fun z => List.range (z + 1)).flatten

structure Built (α : Type) where
  lb : List Nat
  ub : List Nat
  nq : Nat
  q : List Nat
  a : List α
  eixs : List α
  rrxs : List α
  drxs : List α
  cxBg : List (List α)
  cxTg : List (List α)

/-- `AdvancedModel.get(device, targets, bg_gases, options)` as far as `_adv_rhs` reads it:
targets are `(Z, a, ip)`, gases `ip` -/
def build (e_kin fwhm : α) (targets : List (Nat × α × α)) (gasIp : List α) : Built α :=
  let zs := targets.map (·.1)
  let bs := bounds zs 0
  let q := chargeVec zs
  let qa : List α := q.map fun k => ((k : Nat) : α)
  { lb := bs.map (·.1), ub := bs.map (·.2), nq := (bs.getLast?.map (·.2)).getD 0, q,
    a := (targets.map fun t => List.replicate (t.1 + 1) (floor t.2.1)).flatten,   -- stored as int32: truncated
    eixs := (zs.map fun z => Xs.eixsVec z e_kin).flatten,
    rrxs := (zs.map fun z => Xs.rrxsVec z e_kin).flatten,
    drxs := (zs.map fun z => Xs.drxsVec z e_kin fwhm).flatten,
    cxBg := gasIp.map fun ip => qa.map fun k => cxxs k ip,
    cxTg := targets.map fun t => qa.map fun k => cxxs k t.2.2 }

/-- `_assemble_initial_conditions`: per target `(n, kT)` → joint start vector; temperatures of
states at the minimal density are raised to `max(fwhm·q, kT_min)` -/
def initial (fwhm : α) (targets : List (List α × List α)) : List α :=
  let kT0 := targets.map fun (t : List α × List α) =>
    (List.zipWith (fun (n : α) (kT : α) => (n, kT)) t.1 t.2).mapIdx fun q (p : α × α) =>
      let minkT := max' (fwhm * ((q : Nat) : α)) Const.MINIMAL_KBT
      if p.1 < (1.00001 : α) * Const.MINIMAL_N_1D then max' p.2 minkT else p.2
  (targets.map (·.1)).flatten ++ kT0.flatten

/-- what `advanced_simulation` hands to `scipy.integrate.solve_ivp` (the solver itself is a parameter of the model):
`solve_ivp(rhs_int, (0, t_max), n_kT_initial, vectorized=True, **solver_kwargs)` with `method` defaulting to Radau;
`rhs_int` evaluates `_adv_rhs` column by column (C16) -/
structure Call (α : Type) where
  y0 : List α
  t0 : α
  t1 : α
  method : String
  vectorized : Bool

def call (fwhm tMax : α) (targets : List (List α × List α)) (method : Option String) : Call α :=
  { y0 := initial fwhm targets, t0 := lit 0, t1 := tMax, method := method.getD "Radau", vectorized := true }

end Adv
