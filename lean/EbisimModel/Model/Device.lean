import EbisimModel.Model.Radial
import EbisimModel.Gen.Kernels
/-! Hand model of `Device.get` (`_advanced_helpers.py`): radial grid, beam-edge index, trap and
barrier potentials (two calls of the e-beam Boltzmann–Poisson solver with an ion-free species),
defaults for `j`, `fwhm`, `v_ra` and verbatim overrides. -/
namespace Dev
open Num Transc Gen Radial
variable {α : Type} [Num α]

/-- `np.linspace(a, b, num, endpoint)` : `i*step + a`, last point pinned to `b` with endpoint -/
def npLinspace (a b : α) (num : Nat) (endpoint : Bool) : List α :=
  let div : Nat := if endpoint then num - 1 else num
  let step := (b - a) / ((div : Nat) : α)
  (List.range num).map fun (i : Nat) =>
    if endpoint ∧ 1 < num ∧ i = num - 1 then b else ((i : Nat) : α) * step + a

/-- `np.geomspace(a, b, num)`: `10**linspace(log10 a, log10 b, num)`, both ends pinned -/
def npGeomspace (a b : α) (num : Nat) : List α :=
  (npLinspace (log10 a) (log10 b) num true).mapIdx fun i x =>
    if i = 0 then a else if 1 < num ∧ i = num - 1 then b else rpow (10.0 : α) x

/-- `rad_grid` -/
def grid (r_e r_dt : α) (n_grid : Nat) : List α :=
  let k := n_grid / 6
  npLinspace (lit 0) r_e k false ++ npLinspace r_e (lit 2 * r_e) k false ++ npGeomspace (lit 2 * r_e) r_dt (k * 4)

/-- `int(np.argmin((rad_grid - r_e)**2))`: first index of the smallest value -/
def argminSq (g : List α) (r_e : α) : Nat :=
  let rec go : List α → Nat → Nat → α → Nat
    | [], _, best, _ => best
    | x :: xs, i, best, bv =>
      let v := powN (x - r_e) 2
      if v < bv then go xs (i + 1) i v else go xs (i + 1) best bv
  match g with
  | [] => 0
  | x :: xs => go xs 1 0 (powN (x - r_e) 2)

structure Input (α : Type) where
  current : α
  e_kin : α
  r_e : α
  v_ax : α
  b_ax : α
  r_dt : α
  n_grid : Nat
  v_ra : Option α
  j : Option α
  fwhm : Option α
  r_dt_bar : Option α

structure Device (α : Type) where
  grid : List α
  ldu : List (α × α × α)
  reIdx : Nat
  phi : List α          -- rad_phi_uncomp
  phiAxBarr : List α    -- rad_phi_ax_barr
  j : α
  fwhm : α
  v_ra : α
  v_ax_sc : α
  r_dt_bar : α

/-- the ion-free species `(nl, kT, q) = (0, 1, 1)` both solver calls use -/
def ionFree : List (Species α) := [⟨lit 0, lit 1, lit 1⟩]

/-- `Device.get(...)` -/
def get (I : Input α) : Device α :=
  let g := grid I.r_e I.r_dt I.n_grid
  let ldu := fdNonuniform g
  let phi := (bpEbeam g I.current I.r_e I.e_kin ionFree none (some ldu) 500 (1e-3 : α)).phi
  let phiB := match I.r_dt_bar with
    | none => (bpEbeam g I.current I.r_e (I.e_kin + I.v_ax) ionFree none (some ldu) 500 (1e-3 : α)).phi
    | some rb => (bpEbeam (grid I.r_e rb I.n_grid) I.current I.r_e (I.e_kin + I.v_ax) ionFree none none 500 (1e-3 : α)).phi
  let pmin := minL phi
  { grid := g, ldu, reIdx := argminSq g I.r_e, phi,
    phiAxBarr := phiB.map fun p => p + I.v_ax,
    j := I.j.getD (I.current / powN I.r_e 2 / Const.PI * (1e-4 : α)),
    fwhm := I.fwhm.getD (lit 1 / lit 2 * I.current / lit 4 / Const.PI / Const.EPS_0 / electron_velocity (I.e_kin + pmin)),
    v_ra := I.v_ra.getD (-pmin),
    v_ax_sc := phiB.headD (lit 0),
    -- `r_dt_bar if r_dt_bar else r_dt` (a given 0.0 is falsy)
    r_dt_bar := match I.r_dt_bar with
      | none => I.r_dt
      | some rb => if rb ≤ lit 0 ∧ lit 0 ≤ rb then I.r_dt else rb }
end Dev
