import EbisimModel.Num
import EbisimModel.Model.Device
/-! Hand models of the bookkeeping in `_energyscan.py` (`energy_scan`, `EnergyScanResult`) and
`_result.py` (time-domain check, per-target slicing). The simulation function, the per-result
interpolators and the process pool are parameters. -/
namespace Scan
open Num Transc

/-- `energy_scan`: energies sorted ascending (duplicates kept), one simulation per energy with the
prepared keyword arguments (`prep` removes `e_kin`, forces dense output, casts the element) -/
def run {κ ε ρ : Type} (le : ε → ε → Bool) (prep : κ → κ) (sim : κ → ε → ρ) (kw : κ) (energies : List ε) : List ε × List ρ :=
  let es := energies.mergeSort le
  (es, es.map (sim (prep kw)))

/-- `list(energies).index(e)`: first position holding a value equal to `e` -/
def indexOf? {ε : Type} (eq : ε → ε → Bool) (e : ε) : List ε → Nat → Option Nat
  | [], _ => none
  | x :: xs, i => if eq x e then some i else indexOf? eq e xs (i + 1)

/-- `EnergyScanResult.get_result(e_kin)`; `none` = ValueError -/
def getResult {ε ρ : Type} (eq : ε → ε → Bool) (es : List ε) (rs : List ρ) (e : ε) : Option ρ :=
  (indexOf? eq e es 0).bind fun i => rs[i]?

variable {α : Type} [Num α]

/-- `abundance_at_time(t)`: ValueError outside `[0, t_max]`, otherwise one column per energy -/
def abundanceAtTime {ρ A : Type} (tMax : α) (rs : List ρ) (at' : ρ → α → A) (t : α) : Option (List A) :=
  if t < lit 0 ∨ tMax < t then none else some (rs.map fun r => at' r t)

/-- the 500 sampling times of `abundance_of_cs`: `clip(logspace(-4, log10 t_max, 500), 0, t_max)` -/
def csTimes (tMax : α) : List α :=
  (Dev.npLinspace (-(lit 4)) (log10 tMax) 500 true).map fun x =>
    let v := rpow (10.0 : α) x
    min' (max' v (lit 0)) tMax

/-- `abundance_of_cs(cs)`: ValueError for `cs > Z`, otherwise rows = times, columns = energies -/
def abundanceOfCs {ρ : Type} (z : Nat) (tMax : α) (rs : List ρ) (at' : ρ → α → List α) (cs : Nat) : Option (List α × List (List α)) :=
  if z < cs then none else
    let ts := csTimes tMax
    some (ts, ts.map fun t => rs.map fun r => (at' r t).getD cs (lit 0))
end Scan

namespace Res
open Num
variable {α : Type} [Num α]

def minL : List α → α
  | [] => lit 0
  | x :: xs => xs.foldl (fun m y => if y < m then y else m) x
def maxL : List α → α
  | [] => lit 0
  | x :: xs => xs.foldl (fun m y => if m < y then y else m) x

/-- `_check_time_in_domain`: `true` = ValueError -/
def outOfDomain (ts : List α) (t : α) : Bool := decide (t < minL ts ∨ maxL ts < t)

/-- rows `[lo, hi)` of a column -/
def rows {β : Type} (col : List β) (lo hi : Nat) : List β := (col.drop lo).take (hi - lo)

/-- `abundance_at_time` / `temperature_at_time` of target `i` with dense output `sol`:
abundances are rows `[lb, ub)`, temperatures rows `[len/2 + lb, len/2 + ub)` of `sol t` -/
def denseAbundance {β : Type} (sol : α → List β) (lb ub : Nat) (t : α) : List β := rows (sol t) lb ub
def denseTemperature {β : Type} (sol : α → List β) (nrows lb ub : Nat) (t : α) : List β := rows (sol t) (nrows / 2 + lb) (nrows / 2 + ub)

/-- `_assemble_results`: target `i` receives rows `[lb_i, ub_i)` (densities) and
`[nq + lb_i, nq + ub_i)` (temperatures) of every stored column -/
def assemble {β : Type} (cols : List (List β)) (nq : Nat) (bounds : List (Nat × Nat)) : List (List (List β) × List (List β)) :=
  bounds.map fun (lb, ub) => (cols.map fun c => rows c lb ub, cols.map fun c => rows c (nq + lb) (nq + ub))

/-- `numpy.searchsorted(ts, t)` (side = left) on an ascending list: number of leading entries `< t` -/
def searchLeft (ts : List α) (t : α) : Nat := (ts.takeWhile fun x => decide (x < t)).length

/-- `scipy.interpolate.interp1d(ts, Y)(t)` (linear, in-domain): with `hi = clip(searchsorted(ts, t), 1, n-1)`, `lo = hi - 1`:
`slope · (t − ts[lo]) + Y[:, lo]`, `slope = (Y[:, hi] − Y[:, lo]) / (ts[hi] − ts[lo])`; `cols[i]` is the stored column of time `i` -/
def lerp (ts : List α) (cols : List (List α)) (t : α) : List α :=
  let n := ts.length
  let hi := min (max (searchLeft ts t) 1) (n - 1)
  let lo := hi - 1
  let x0 := ts.getD lo (lit 0); let x1 := ts.getD hi (lit 0)
  List.zipWith (fun y0 y1 => (y1 - y0) / (x1 - x0) * (t - x0) + y0) (cols.getD lo []) (cols.getD hi [])
/-- `_gather_rates`: every rate array gets one column per stored solution point, the kernel's rates at that point -/
def gatherRates {κ β γ : Type} (rates : γ → List (κ × List β)) (points : List γ) : List (List (κ × List β)) := points.map rates

/-- `_assemble_results`, one rate array of one target (`cols` = the columns of `ratebuffer[key]`, one per stored time): a rate with a single
row is device-wide and handed to every target as it is, any other rate is cut to the target's rows `[lb, ub)` -/
def assembleRate {β : Type} (cols : List (List β)) (lb ub : Nat) : List (List β) :=
  cols.map fun c => if c.length = 1 then c else rows c lb ub
end Res
