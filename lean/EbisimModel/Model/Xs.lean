import EbisimModel.Gen.Kernels
import EbisimModel.Gen.Tables
/-! Hand models of `xs.lookup_lotz_factors`, `eixs_vec`, `precompute_rr_quantities`, `rrxs_vec`,
`drxs_vec`, the `*_mat` arrangements and the energy-scan sampling, over the *generated* tables. -/
namespace Xs
open Num Transc Gen
variable {α : Type} [Num α]

/-! ### table access (string-free, so that table facts are kernel-decidable) -/

def lookupK {κ β : Type} [DecidableEq κ] (k : κ) : List (κ × β) → Option β
  | [] => none
  | (k', v) :: r => if k' = k then some v else lookupK k r

def idxOfK {κ : Type} [DecidableEq κ] (k : κ) : List κ → Nat → Option Nat
  | [], _ => none
  | x :: xs, i => if x = k then some i else idxOfK k xs (i + 1)

/-- result of the coefficient lookup for (Z, charge state, shell index) -/
inductive LotzRes
  | tab (t : Tri)     -- entry of one of the two dictionaries
  | zero              -- Z > 20, unoccupied (joint) shell: a = b = c = 0
  | dflt              -- Z ≤ 20, shell not listed: the array keeps 4.5e-18, 0, 0
  | outside           -- charge state beyond the precomputed rows: kernel `else` branch
  | keyError          -- Python would raise (missing dictionary key / shell)
deriving DecidableEq, Repr

/-- `lookup_lotz_factors` (per entry) -/
def lotzEntry (Z cs i : Nat) : LotzRes :=
  let cfgZ := cfg Z
  let cols := (cfgZ.headD []).length
  match shellOrderS[i]? with
  | none => .keyError
  | some (n, l, sg) =>
    if Z > 20 then
      if cs ≠ 0 then .outside else
      let row0 := cfgZ.headD []
      -- index of the ± partner (`i2`); `some none` = no partner, `none` = ValueError
      let partner : Option (Option Nat) :=
        if l = 0 then some none
        else if sg = 1 then (if n = 7 ∧ l = 1 then some none else (idxOfK (n, l, 2) shellOrderS 0).map some)
        else if sg = 2 then (idxOfK (n, l, 1) shellOrderS 0).map some
        else none
      match partner with
      | none => .keyError
      | some pi =>
        let ne := row0.getD i 0 + (match pi with
          | some i2 => if i2 ≠ 0 ∧ i2 < cols then row0.getD i2 0 else 0
          | none => 0)
        if ne = 0 then .zero else
        let ncls := if ((l = 0 ∨ l = 1) ∧ n > 3) ∨ (l = 2 ∧ n > 4) ∨ l = 3 then 0 else n
        match lookupK (ncls, l, ne) lotzNeutralS with
        | some t => .tab t
        | none => .keyError
    else
      match lookupK Z lotzAdvancedS with
      | none => .keyError
      | some tab =>
        if cs < tab.length then
          match lookupK cs tab with
          | some d => (match lookupK (n, l) d with
              | some t => .tab t
              | none => .dflt)
          | none => .keyError
        else .outside

/-- coefficient triple as stored in `ei_lotz_a/b/c`; `none` = not in the arrays -/
def coefOf : LotzRes → Option (α × α × α)
  | .tab t => some (ofScaled t.1 scCoef * (1.0e-18 : α), ofScaled t.2.1 scCoef, ofScaled t.2.2 scCoef)
  | .zero => some (lit 0 * (1.0e-18 : α), lit 0, lit 0)
  | .dflt => some ((1.0 : α) * (4.5e-18 : α), lit 0, lit 0)
  | .outside => none
  | .keyError => none

/-! ### electron-impact ionisation -/

/-- relativistic Gryzinski factor as written in `eixs_vec` -/
def grys (i t : α) : α :=
  (lit 2 + i) / (lit 2 + t) * powN ((lit 1 + t) / (lit 1 + i)) 2
    * rpow (((i + t) * (lit 2 + t) * powN (lit 1 + i) 2) / (t * (lit 2 + t) * powN (lit 1 + i) 2 + i * (lit 2 + i))) (1.5 : α)

/-- one sub-shell's contribution (`xs += …`) -/
def lotzTerm (E : α) (n : Nat) (e : α) (co : Option (α × α × α)) : α :=
  let i := e / Const.M_E_EV
  let t := E / Const.M_E_EV
  let g := grys i t
  match co with
  | some (a, b, c) => g * a * (n : α) * log (E / e) / (E * e) * (lit 1 - b * exp (-c * (E / e - lit 1)))
  | none => g * (4.5e-18 : α) * (n : α) * log (E / e) / (E * e)

/-- inner loop of `eixs_vec` over the shells of one charge state -/
def shellSum (E : α) (co : Nat → Option (α × α × α)) : List Nat → List Nat → Nat → α → α
  | n :: ns, en :: es, sh, acc =>
    let e : α := ofScaled en scEbind
    shellSum E co ns es (sh + 1) (if 0 < n ∧ e < E then acc + lotzTerm E n e (co sh) else acc)
  | _, _, _, acc => acc

def eixsRows (E : α) (Z : Nat) : List (List Nat) → List (List Nat) → Nat → List α
  | crow :: cs, erow :: es, q => shellSum E (fun sh => coefOf (lotzEntry Z q sh)) crow erow 0 (lit 0) :: eixsRows E Z cs es (q + 1)
  | _, _, _ => []

/-- `eixs_vec(element, e_kin)` -/
def eixsVec (Z : Nat) (E : α) : List α := eixsRows E Z (cfg Z) (ebind Z) 0 ++ [lit 0]

/-- smallest binding energy among the occupied shells of a row (scaled natural) -/
def minBindN : List Nat → List Nat → Option Nat
  | n :: ns, en :: es =>
    if 0 < n then (match minBindN ns es with | none => some en | some m => some (min en m)) else minBindN ns es
  | _, _ => none

/-! ### radiative recombination -/

/-- `n_0[cs]`: largest principal quantum number among the occupied shells -/
def rrN0 : List Nat → List Nat → Nat
  | c :: cs, n :: ns => if c > 0 then max n (rrN0 cs ns) else rrN0 cs ns
  | _, _ => 0
/-- `occup[cs]`: electrons in shells with principal quantum number `n0` -/
def rrOcc (n0 : Nat) : List Nat → List Nat → Nat
  | c :: cs, n :: ns => (if n = n0 then c else 0) + rrOcc n0 cs ns
  | _, _ => 0

/-- `(n_0, occup)` per charge state incl. the bare nucleus `(1, 0)` -/
def rrShell (Z : Nat) : List (Nat × Nat) :=
  ((cfg Z).map fun crow => let n0 := rrN0 crow shellN; (n0, rrOcc n0 crow shellN)) ++ [(1, 0)]

def rrPreGo (Z : Nat) : List (Nat × Nat) → Nat → List (α × α)
  | (n0, oc) :: r, q =>
    let n0a : α := (n0 : α); let oca : α := (oc : α)
    let w := (lit 2 * powN n0a 2 - oca) / (lit 2 * powN n0a 2)
    (((Z : α) + (q : α)) / lit 2, n0a + (lit 1 - w) - (0.3 : α)) :: rrPreGo Z r (q + 1)
  | [], _ => []

/-- `precompute_rr_quantities`: `(rr_z_eff, rr_n_0_eff)` per charge state -/
def rrPre (Z : Nat) : List (α × α) := rrPreGo Z (rrShell Z) 0

def rrFormula (zeff neff E : α) : α :=
  let chi := lit 2 * powN zeff 2 * Const.RY_EV / E
  lit 8 * Const.PI * Const.ALPHA / (lit 3 * sqrt (lit 3)) * powN Const.COMPT_E_RED 2 * chi * log (lit 1 + chi / (lit 2 * powN neff 2))

/-- `rrxs_vec(element, e_kin)` -/
def rrxsVec (Z : Nat) (E : α) : List α :=
  match (rrPre (α := α) Z) with
  | [] => []
  | _ :: rest => lit 0 :: rest.map fun p => rrFormula p.1 p.2 E

/-! ### dielectronic recombination -/

/-- `tmp[k]` of `drxs_vec` -/
def drTerm (E sig : α) (er st : Nat) : α :=
  ofScaled st scStr * normpdf E (ofScaled er scEres) sig * (1e-24 : α)

/-- accumulation into slot `q`, in table order -/
def drSlot (E sig : α) (q : Nat) : List (Nat × Nat × Nat) → α → α
  | (cs, er, st) :: r, acc => drSlot E sig q r (if cs = q then acc + drTerm E sig er st else acc)
  | [], acc => acc

/-- `drxs_vec(element, e_kin, fwhm)` -/
def drxsVec (Z : Nat) (E w : α) : List α :=
  let sig := w / (2.35482 : α)
  (List.range (Z + 1)).map fun q => drSlot E sig q (dr Z) (lit 0)

/-! ### matrix arrangement -/

/-- `np.diag(xs[:-1], -1) - np.diag(xs)` -/
def eiMat (xs : List α) : List (List α) :=
  (List.range xs.length).map fun i => (List.range xs.length).map fun j =>
    (if i = j + 1 then xs.getD j (lit 0) else lit 0) - (if i = j then xs.getD j (lit 0) else lit 0)
/-- `np.diag(xs[1:], 1) - np.diag(xs)` -/
def recMat (xs : List α) : List (List α) :=
  (List.range xs.length).map fun i => (List.range xs.length).map fun j =>
    (if i + 1 = j then xs.getD j (lit 0) else lit 0) - (if i = j then xs.getD j (lit 0) else lit 0)

/-! ### energy-scan sampling -/

/-- numba's `np.linspace(a, b, n)`: `a + (b-a) * (i/(n-1))` -/
def linspace (a b : α) (n : Nat) : List α :=
  (List.range n).map fun (i : Nat) => if i = 0 then a else a + (b - a) * (((i : Nat) : α) / ((n - 1 : Nat) : α))

def logspace (lo hi : α) (n : Nat) : List α :=
  (linspace (log10 lo) (log10 hi) n).map fun x => rpow (lit 10) x

/-- smallest positive and largest binding energy of an element (scaled naturals) -/
def ebMinPos (Z : Nat) : Option Nat :=
  ((ebind Z).flatten.filter (· > 0)).foldl (fun m x => match m with | none => some x | some y => some (min x y)) none
def ebMax (Z : Nat) : Nat := (ebind Z).flatten.foldl max 0

/-- lower limit of the default grid: `e_min = 100; … ; 1.0 if e_min < 10 else 10.0`
(after the repair: the next smaller power of ten) -/
def eMinRule (Z : Nat) : α :=
  let em : α := (ebind Z).flatten.foldl (fun (m : α) x =>
    let eb : α := ofScaled x scEbind
    if lit 0 < eb ∧ eb < m then eb else m) (100.0 : α)
  min' (10.0 : α) (rpow (10.0 : α) (floor (log10 em)))

def eMaxRule (Z : Nat) : α :=
  let em : α := lit 10 * ofScaled (ebMax Z) scEbind
  rpow (lit 10) (ceil (log10 em))

/-- `_eirr_e_samp(element, None, n)` -/
def eSampDefault (Z n : Nat) : List α := logspace (eMinRule (α := α) Z) (eMaxRule (α := α) Z) n

end Xs

namespace Xs
open Num Transc Gen
variable {α : Type} [Num α]

/-- `_eirr_e_samp(element, e_kin, n)`: `none` → default grid; exactly two entries → `n` log-spaced
points between them; anything else → the caller's array -/
def eSamp (Z : Nat) (e_kin : Option (List α)) (n : Nat) : List α :=
  match e_kin with
  | none => eSampDefault Z n
  | some [lo, hi] => logspace lo hi n
  | some es => es

/-- DR default band: `[min e_res - 3 fwhm, max e_res + 3 fwhm]`, log-spaced -/
def drSampDefault (Z : Nat) (w : α) (n : Nat) : List α :=
  let ers : List α := (dr Z).map fun r => ofScaled r.2.1 scEres
  match ers with
  | [] => []
  | e0 :: rest =>
    let lo := rest.foldl (fun m x => if x < m then x else m) e0
    let hi := rest.foldl (fun m x => if m < x then x else m) e0
    logspace (lo - lit 3 * w) (hi + lit 3 * w) n

def drSamp (Z : Nat) (w : α) (e_kin : Option (List α)) (n : Nat) : List α :=
  match e_kin with
  | none => drSampDefault Z w n
  | some [lo, hi] => logspace lo hi n
  | some es => es

/-- energy scan: one column per sampling energy, each the vector form at that energy -/
def scanCols (vec : α → List α) (es : List α) : List (List α) := es.map vec

end Xs
