import EbisimModel.Model.Xs
/-! Hand model of `ebisim/simulation/_basic.py`: unit conversion, rate matrix assembly, default
start vector and the record handed to `scipy.integrate.solve_ivp` (the solver is a parameter). -/
namespace Basic
open Num Transc Gen Xs
variable {α : Type} [Num α]

/-- `j = j * 1.e4 / Q_E`: A/cm² → electrons / (m² s) -/
def flux (j : α) : α := j * (1.0e4 : α) / Const.Q_E

def matAdd (a b : List (List α)) : List (List α) := List.zipWith (List.zipWith (· + ·)) a b
/-- `xs_mat[0] = 0` -/
def zeroRow0 : List (List α) → List (List α)
  | [] => []
  | r :: rs => r.map (fun _ => lit 0) :: rs
def matScale (c : α) (m : List (List α)) : List (List α) := m.map fun r => r.map fun x => c * x

/-- `xs_mat` of `basic_simulation`: EI + RR (+ DR iff a non-zero width is given), row 0 zeroed under CNI -/
def xsMat (Z : Nat) (E : α) (fwhm : Option α) (cni : Bool) : List (List α) :=
  let m := matAdd (eiMat (eixsVec Z E)) (recMat (rrxsVec Z E))
  let useDr := match fwhm with
    | none => false
    | some w => ¬ (w ≤ lit 0 ∧ lit 0 ≤ w)     -- `if dr_fwhm:` (a float is falsy iff it equals 0)
  let m := if useDr then matAdd m (recMat (drxsVec Z E (fwhm.getD (lit 0)))) else m
  if cni then zeroRow0 m else m

/-- `_jac = j * xs_mat` -/
def rateMatrix (Z : Nat) (j E : α) (fwhm : Option α) (cni : Bool) : List (List α) :=
  matScale (flux j) (xsMat Z E fwhm cni)

/-- default `N_initial`: pure 1+ (pure neutral under CNI) -/
def n0Default (Z : Nat) (cni : Bool) : List α :=
  (List.range (Z + 1)).map fun k => if k = (if cni then 0 else 1) then lit 1 else lit 0

def n0 (Z : Nat) (cni : Bool) (given : Option (List α)) : List α := given.getD (n0Default Z cni)

/-- `_jac.dot(N)` -/
def matVec (m : List (List α)) (v : List α) : List α :=
  m.map fun r => (List.zipWith (· * ·) r v).foldl (· + ·) (lit 0)

/-- what `basic_simulation` hands to the solver -/
structure Call (α : Type) where
  jac : List (List α)
  y0 : List α
  t0 : α
  t1 : α
  method : String

def call (Z : Nat) (j E tMax : α) (fwhm : Option α) (given : Option (List α)) (cni : Bool) (method : Option String) : Call α :=
  { jac := rateMatrix Z j E fwhm cni, y0 := n0 Z cni given, t0 := lit 0, t1 := tMax, method := method.getD "LSODA" }
end Basic
