import EbisimModel.Gen.Kernels
/-! Hand model of `beams.ElectronBeam.space_charge_correction`: the fixed-point loop and the
piecewise radial profile, on top of the *generated* `characteristic_potential`, `herrmann_radius`. -/
namespace Beam
open Num Transc Gen
variable {α : Type} [Num α]

structure Params (α : Type) where
  cur : α
  b_d : α
  r_d : α
  b_c : α
  r_c : α
  t_c : α

def herr (B : Params α) (e : α) : α := herrmann_radius B.cur B.b_d B.r_d B.b_c B.r_c B.t_c e
def cpot (B : Params α) (e : α) : α := characteristic_potential B.cur B.b_d B.r_d B.b_c B.r_c B.t_c e

structure LoopState (α : Type) where
  new : α      -- sc_on_ax_new
  old : α      -- sc_on_ax_old
  r_e : α
  phi0 : α
  iters : Nat
  exhausted : Bool   -- fuel ran out (the Python `while` would still be running)

/-- one pass through the `while` body -/
def body (B : Params α) (e_kin : α) (s : LoopState α) : LoopState α :=
  let corr := e_kin + s.new
  let r_e := herr B corr
  let phi0 := cpot B corr
  { new := phi0 * (lit 2 * log (r_e / B.r_d) - lit 1), old := s.new, r_e, phi0, iters := s.iters + 1, exhausted := false }

/-- loop guard `(new - old)/new > 1e-6` -/
def guard (s : LoopState α) : Prop := (1e-6 : α) < (s.new - s.old) / s.new
instance (s : LoopState α) : Decidable (guard s) := by unfold guard; infer_instance

def loop (B : Params α) (e_kin : α) : Nat → LoopState α → LoopState α
  | 0, s => { s with exhausted := true }
  | fuel + 1, s => if guard s then loop B e_kin fuel (body B e_kin s) else s

def init : LoopState α := { new := lit 1, old := lit 0, r_e := lit 0, phi0 := lit 0, iters := 0, exhausted := false }

/-- radial profile multiplier after the loop -/
def multip (B : Params α) (r_e r : α) : α :=
  if r < r_e then lit 2 * log (r_e / B.r_d) + powN (r / r_e) 2 - lit 1
  else lit 2 * log (r / B.r_d)

/-- `space_charge_correction(e_kin, r)`; `none` = ValueError -/
def correction (B : Params α) (fuel : Nat) (e_kin r : α) : Option (α × LoopState α) :=
  if B.r_d < r ∨ r < lit 0 then none
  else
    let s := loop B e_kin fuel init
    some (s.phi0 * multip B s.r_e r, s)
end Beam
